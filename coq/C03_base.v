(* C03, first half: the connection phase (Connect.v) and the session phase (Global.v) of the whole-connection
   model against the reference server of RefSequence.v, for every fragmentation of the server's byte stream and
   every cut of its replies.  The statements of the property are in C03_proofs.v. *)
From Coq Require Import Lia.
From RdpV Require Import Base Msg LayoutsGlobal LayoutsConnect Link Tpkt Global Connect ClientPdus Flow.
From RdpV Require Import RefFraming C13_proofs StrictPdu RefSequence.
From RdpV Require MsgTheory MsgProv Per C18_per_proofs C18_per_global C10_proofs C06_proofs C04_proofs.
Open Scope list_scope.
Open Scope N_scope.

(* lengths of byte strings whose spine is known *)
Ltac nlen_lia :=
  repeat match goal with
         | |- context [nlen ?l] => let n := eval vm_compute in (nlen l) in change (nlen l) with n
         end; lia.

(* ================================================================== A. the chunked stream *)
(* the stream holds exactly the bytes [b], cut in any way into non-empty reads *)
Definition holds (cs : stream) (b : bytes) : Prop := no_empty cs /\ List.concat cs = b.

Lemma holds_nil cs : holds cs [] -> cs = [].
Proof.
  intros [Hne Hc]. destruct cs as [|c cs]; [reflexivity|].
  inversion Hne as [|? ? Hc0 _]; subst. cbn [List.concat] in Hc. destruct c; [congruence|discriminate].
Qed.

Lemma ref_tpkt_enc payload : ref_tpkt payload = enc (Slow 0 payload).
Proof. reflexivity. Qed.

Lemma tpkt_read_ref cs payload rest :
  nlen payload + 4 <= 65535 -> holds cs (ref_tpkt payload ++ rest) ->
  exists cs', tpkt_read cs = (Ok (Raw payload), cs') /\ holds cs' rest.
Proof.
  intros Hl [Hne Hc]. rewrite ref_tpkt_enc in Hc.
  destruct (tpkt_read_frame (Slow 0 payload) cs rest) as [cs' [H1 [H2 H3]]]; auto.
  { cbn [valid]. split; lia. }
  exists cs'. split; [exact H1|split; assumption].
Qed.

Lemma x224_read_ref cs p rest :
  nlen p + 7 <= 65535 -> holds cs (ref_frame p ++ rest) ->
  exists cs', x224_read cs = (Ok (Raw p), cs') /\ holds cs' rest.
Proof.
  intros Hl H. unfold ref_frame, ref_x224_data in H.
  destruct (tpkt_read_ref cs ([2; 240; 128] ++ p) rest) as [cs' [H1 H2]]; [|exact H|].
  { cbn [app]. rewrite !nlen_cons. lia. }
  exists cs'. split; [|exact H2]. unfold x224_read. rewrite H1. reflexivity.
Qed.

Lemma tpkt_read_eof : tpkt_read [] = (Err EIo, []).
Proof. reflexivity. Qed.
Lemma x224_read_eof : x224_read [] = (Err EIo, []).
Proof. reflexivity. Qed.

(* ================================================================== numbers, PER *)
Lemma int16_read lower v rest : lower <= v -> v < 65536 ->
  per_read_integer_16 lower (be16 (v - lower) ++ rest) = Ok (v, rest).
Proof.
  intros Hl Hv. unfold be16. cbn [app per_read_integer_16]. rewrite be16_of by lia.
  replace (v - lower + lower) with v by lia. destruct (N.ltb_spec v 65536); [reflexivity|lia].
Qed.

Lemma attach_parse uid : 1001 <= uid <= 65535 ->
  read_attach_user_confirm ([46; 0] ++ be16 (uid - 1001)) = Ok uid.
Proof.
  intros Hu. cbn [app read_attach_user_confirm]. change (N.shiftr 46 2 =? MCS_ATTACH_USER_CONFIRM) with true.
  cbn [negb per_read_u8 obind fst snd]. change (0 =? 0) with true. cbn [negb].
  rewrite <- (app_nil_r (be16 (uid - 1001))). rewrite int16_read by lia. reflexivity.
Qed.

Lemma join_parse uid ch : 1001 <= uid <= 65535 -> ch < 65536 ->
  read_channel_join_confirm uid ch ([62; 0] ++ be16 (uid - 1001) ++ be16 ch ++ be16 ch) = Ok true.
Proof.
  intros Hu Hc. cbn [app read_channel_join_confirm]. change (N.shiftr 62 2 =? MCS_CHANNEL_JOIN_CONFIRM) with true.
  cbn [negb per_read_u8 obind fst snd].
  change (u16_hi (uid - 1001) :: u16_lo (uid - 1001) :: be16 ch ++ be16 ch) with (be16 (uid - 1001) ++ be16 ch ++ be16 ch).
  rewrite int16_read by lia. cbn [obind fst snd].
  replace (be16 ch) with (be16 (ch - 0)) at 1 by (rewrite N.sub_0_r; reflexivity).
  rewrite int16_read by lia. cbn [obind fst snd]. rewrite !N.eqb_refl. reflexivity.
Qed.


Lemma ref_per_length_eq n : n < 32768 -> ref_per_length n = Per.per_write_length n.
Proof.
  intros Hn. unfold ref_per_length. destruct (N.ltb_spec n 128) as [H|H].
  - symmetry. apply C18_per_proofs.write_length_small. exact H.
  - symmetry. apply C18_per_proofs.write_length_mid; assumption.
Qed.

Lemma per_length_read n rest : n < 32768 -> per_read_length (ref_per_length n ++ rest) = Ok (n, rest).
Proof.
  intros Hn. rewrite C18_per_global.global_per_read_length_agrees, ref_per_length_eq by exact Hn.
  apply C18_per_proofs.per_length_roundtrip. exact Hn.
Qed.


Lemma nlen_ref_per_length n : nlen (ref_per_length n) <= 2.
Proof. unfold ref_per_length. destruct (n <? 128); cbn; lia. Qed.


Lemma nlen_sdi io data : nlen (ref_sdi io data) <= nlen data + 8.
Proof.
  unfold ref_sdi. rewrite !nlen_app. pose proof (nlen_ref_per_length (nlen data)).
  change (nlen [104]) with 1. change (nlen [112]) with 1. change (nlen (be16 (SERVER_CHANNEL_ID - 1001))) with 2.
  change (nlen (be16 io)) with 2. lia.
Qed.


(* ================================================================== B. the connection phase (Connect.v) *)
Section ConnectPhase.
Variable p : prof.
Variable ber_parse : bytes -> outcome bytes.
Variable trusted : bool.
Variable tls_start : stream -> outcome stream.
Variable cssp_run : stream -> nat * outcome stream.

(* where a run stands: the unread input, the events so far, the link mode *)
Definition at_ (s : cst) (b : bytes) (ev : list tev) (tls : bool) : Prop :=
  holds (s_in s) b /\ s_ev s = ev /\ s_tls s = tls.

Lemma recv_tpkt_ref s payload rest ev tls :
  nlen payload + 4 <= 65535 -> at_ s (ref_tpkt payload ++ rest) ev tls ->
  exists s', recv_tpkt s = (Ok (Raw payload), s') /\ at_ s' rest ev tls.
Proof.
  intros Hl [Hh [He Ht]]. destruct (tpkt_read_ref _ _ _ Hl Hh) as [cs' [H1 H2]].
  unfold recv_tpkt. rewrite H1. eexists. split; [reflexivity|]. repeat split; cbn; auto; apply H2.
Qed.

Lemma recv_x224_ref s q rest ev tls :
  nlen q + 7 <= 65535 -> at_ s (ref_frame q ++ rest) ev tls ->
  exists s', recv_x224 s = (Ok (Raw q), s') /\ at_ s' rest ev tls.
Proof.
  intros Hl [Hh [He Ht]]. destruct (x224_read_ref _ _ _ Hl Hh) as [cs' [H1 H2]].
  unfold recv_x224. rewrite H1. eexists. split; [reflexivity|]. repeat split; cbn; auto; apply H2.
Qed.

Lemma recv_tpkt_eof s ev tls : at_ s [] ev tls -> exists s', recv_tpkt s = (Err EIo, s') /\ at_ s' [] ev tls.
Proof.
  intros [Hh [He Ht]]. pose proof (holds_nil _ Hh) as Hn. unfold recv_tpkt. rewrite Hn.
  eexists. split; [reflexivity|]. repeat split; cbn; auto. constructor.
Qed.
Lemma recv_x224_eof s ev tls : at_ s [] ev tls -> exists s', recv_x224 s = (Err EIo, s') /\ at_ s' [] ev tls.
Proof.
  intros [Hh [He Ht]]. pose proof (holds_nil _ Hh) as Hn. unfold recv_x224. rewrite Hn.
  eexists. split; [reflexivity|]. repeat split; cbn; auto. constructor.
Qed.

Lemma emit_at s m b ev tls : at_ s b ev tls ->
  exists s', emit m s = (Ok tt, s') /\ at_ s' b (ev ++ [if tls then TlsWrite m else RawWrite m]) tls.
Proof.
  intros [Hh [He Ht]]. unfold emit. eexists. split; [reflexivity|]. repeat split; cbn; try apply Hh; auto.
  rewrite He, Ht. reflexivity.
Qed.

Lemma lift_at {A} (r : outcome A * N) s b ev tls : at_ s b ev tls ->
  exists s', Connect.lift r s = (fst r, s') /\ at_ s' b ev tls.
Proof. intros [Hh [He Ht]]. unfold Connect.lift. eexists. split; [reflexivity|]. repeat split; cbn; auto; apply Hh. Qed.

Definition wr_ev (tls : bool) (m : cmsg) : tev := if tls then TlsWrite m else RawWrite m.

Lemma bind_ok {A B} (m : M A) (k : A -> M B) s a s1 : m s = (Ok a, s1) -> Connect.bind m k s = k a s1.
Proof. intros H. unfold Connect.bind. rewrite H. reflexivity. Qed.
Lemma bind_err {A B} (m : M A) (k : A -> M B) s e s1 : m s = (Err e, s1) -> Connect.bind m k s = (Err e, s1).
Proof. intros H. unfold Connect.bind. rewrite H. reflexivity. Qed.

(* the pattern of every exchange: write one message, read one X.224 frame, hand its payload on *)
Lemma send_recv_x224 {A} (m : cmsg) (K : bytes -> M A) s b ev tls :
  at_ s b ev tls ->
  let step := Connect.bind (emit m) (fun _ => Connect.bind recv_x224 (fun pl => Connect.bind (Connect.lift (expect_raw pl, 0)) K)) in
  (b = [] -> exists s', step s = (Err EIo, s') /\ at_ s' [] (ev ++ [wr_ev tls m]) tls)
  /\ (forall q rest, b = ref_frame q ++ rest -> nlen q + 7 <= 65535 ->
     exists s1, at_ s1 rest (ev ++ [wr_ev tls m]) tls /\ step s = K q s1).
Proof.
  intros Hat step. destruct (emit_at s m b ev tls Hat) as [s0 [He H0]]. fold (wr_ev tls m) in H0.
  split.
  - intros ->. destruct (recv_x224_eof s0 _ _ H0) as [s' [Hr H']].
    exists s'. split; [|exact H']. unfold step. rewrite (bind_ok _ _ _ _ _ He). rewrite (bind_err _ _ _ _ _ Hr). reflexivity.
  - intros q rest -> Hl. destruct (recv_x224_ref s0 q rest _ _ Hl H0) as [s1 [Hr H1]].
    destruct (lift_at (expect_raw (Raw q), 0) s1 _ _ _ H1) as [s2 [Hl2 H2]].
    exists s2. split; [exact H2|]. unfold step. rewrite (bind_ok _ _ _ _ _ He), (bind_ok _ _ _ _ _ Hr).
    cbn [expect_raw fst] in Hl2. rewrite (bind_ok _ _ _ _ _ Hl2). reflexivity.
Qed.

(* ---- exchange 0: connection request / confirm, then the TLS handshake *)
Lemma confirm_parse s0 s1 fl sel :
  sel = 1 \/ sel = 2 ->
  read_connection_confirm p ([14; 208; 0; 0] ++ [s0; s1] ++ [0] ++ [2; fl] ++ le16 8 ++ le32 sel) = (Ok sel, 0).
Proof. intros [-> | ->]; vm_compute; reflexivity. Qed.

Definition cr_msg (c : Connect.config) : cmsg := CR (offered c) (if restricted_admin c then 1 else 0).

Lemma x224_connect_eof c s :
  at_ s [] [] false ->
  exists s', x224_connect p trusted tls_start cssp_run c s = (Err EIo, s') /\ at_ s' [] [RawWrite (cr_msg c)] false.
Proof.
  intros Hat. unfold x224_connect. destruct (emit_at s (cr_msg c) _ _ _ Hat) as [s0 [He H0]].
  fold (cr_msg c). rewrite (bind_ok _ _ _ _ _ He).
  destruct (recv_tpkt_eof s0 _ _ H0) as [s' [Hr H']]. rewrite (bind_err _ _ _ _ _ Hr). exists s'. split; [reflexivity|exact H'].
Qed.

(* the negotiation up to the selected protocol, whatever follows *)
Lemma x224_negotiate {A} (K : N -> M A) c srv s :
  conforming (offered c) srv ->
  at_ s (ref_confirm srv) [] false ->
  exists s1,
    Connect.bind (emit (cr_msg c)) (fun _ => Connect.bind recv_tpkt (fun pl => Connect.bind (Connect.lift (expect_raw pl, 0)) (fun b =>
      Connect.bind (Connect.lift (read_connection_confirm p b)) K))) s = K (sv_selected srv) s1
    /\ s_in s1 = [] /\ s_ev s1 = [RawWrite (cr_msg c)] /\ s_tls s1 = false.
Proof.
  intros Hc Hat. destruct Hc as [Hsel [Hoff [Hfl [Hsrc _]]]].
  destruct (emit_at s (cr_msg c) _ _ _ Hat) as [s0 [He H0]]. rewrite (bind_ok _ _ _ _ _ He).
  unfold ref_confirm in H0.
  set (pay := [14; 208; 0; 0] ++ be16 (sv_src_ref srv) ++ [0] ++ [2; sv_neg_flags srv] ++ le16 8 ++ le32 (sv_selected srv)) in *.
  assert (Hlen : nlen pay + 4 <= 65535) by (unfold pay; nlen_lia).
  destruct (recv_tpkt_ref s0 pay [] _ _ Hlen ltac:(rewrite app_nil_r; exact H0)) as [s1 [Hr H1]].
  rewrite (bind_ok _ _ _ _ _ Hr).
  destruct (lift_at (expect_raw (Raw pay), 0) s1 _ _ _ H1) as [s2 [Hl2 H2]].
  cbn [expect_raw fst] in Hl2. rewrite (bind_ok _ _ _ _ _ Hl2).
  destruct (lift_at (read_connection_confirm p pay) s2 _ _ _ H2) as [s3 [Hl3 H3]].
  assert (Hp : read_connection_confirm p pay = (Ok (sv_selected srv), 0)) by (unfold pay, be16; apply confirm_parse; exact Hsel).
  rewrite Hp in Hl3. cbn [fst] in Hl3. rewrite Hp. rewrite (bind_ok _ _ _ _ _ Hl3).
  exists s3. split; [reflexivity|]. destruct H3 as [Hh [Hev Ht]]. split; [apply holds_nil; exact Hh|]. split; assumption.
Qed.

Lemma emit_n_ev m : forall n s, exists s', emit_n m n s = (Ok tt, s') /\ s_in s' = s_in s /\ s_tls s' = s_tls s
  /\ s_ev s' = s_ev s ++ repeat (wr_ev (s_tls s) m) n.
Proof.
  induction n as [|n IH]; intros s; cbn [emit_n repeat].
  - exists s. rewrite app_nil_r. auto.
  - unfold Connect.bind at 1. cbn [emit]. 
    destruct (IH (mkSt (s_in s) (s_ev s ++ [if s_tls s then TlsWrite m else RawWrite m]) (s_tls s) (s_alloc s))) as [s' [H1 [H2 [H3 H4]]]].
    exists s'. cbn [s_in s_tls s_ev] in *. rewrite H1. repeat split; auto. rewrite H4, <- app_assoc. reflexivity.
Qed.

(* the whole of x224::Client::connect against a conforming server, TLS (SSL) or TLS + CredSSP (HYBRID).
   [post] = the records the server writes after the handshake; [post'] = what CredSSP leaves of them *)
Definition nego_events (c : Connect.config) (sel : N) (ncssp : nat) : list tev :=
  [RawWrite (cr_msg c); TlsStart true] ++ (if sel =? 2 then repeat (TlsWrite CSSP) ncssp else []).

Lemma x224_connect_ok c srv s post post' ncssp :
  conforming (offered c) srv -> has_auth c = true ->
  (check_cert c = true -> trusted = true) ->
  at_ s (ref_confirm srv) [] false -> tls_start [] = Ok post ->
  (if sv_selected srv =? 2 then cssp_run post = (ncssp, Ok post') else post' = post) ->
  exists s1, x224_connect p trusted tls_start cssp_run c s = (Ok (sv_selected srv), s1)
             /\ s_in s1 = post' /\ s_ev s1 = nego_events c (sv_selected srv) ncssp /\ s_tls s1 = true.
Proof.
  intros Hc Hauth Hcert Hat Htls Hcssp. unfold x224_connect. fold (cr_msg c).
  match goal with
  | |- exists s1, Connect.bind _ (fun _ => Connect.bind _ (fun pl => Connect.bind _ (fun b => Connect.bind _ ?K))) s = _ /\ _ =>
      destruct (x224_negotiate K c srv s Hc Hat) as [s1 [Hk [Hin [Hev Ht]]]]
  end.
  rewrite Hk. clear Hk.
  destruct Hc as [Hsel [Hoff _]].
  assert (Hreq : sel_requested (offered c) (sv_selected srv) = true).
  { unfold sel_requested. destruct Hsel as [Hs | Hs]; rewrite Hs in *; cbn [N.eqb PROTOCOL_RDP]; apply negb_true_iff, N.eqb_neq; exact Hoff. }
  rewrite Hreq. cbn [negb].
  assert (Hssl : start_ssl trusted tls_start c s1 = (Ok tt, mkSt post (s_ev s1 ++ [TlsStart true]) true (s_alloc s1))).
  { unfold start_ssl, tls_handshake. destruct (check_cert c) eqn:Hck; cbn [negb orb].
    - rewrite (Hcert eq_refl). rewrite Hin, Htls. reflexivity.
    - rewrite Hin, Htls. reflexivity. }
  destruct Hsel as [Hs | Hs]; rewrite Hs in *.
  - (* SSL *)
    change (SEL_SSL =? PROTOCOL_HYBRID) with false. change (SEL_SSL =? PROTOCOL_SSL) with true. cbv iota.
    rewrite (bind_ok _ _ _ _ _ Hssl). unfold Connect.ret. eexists. split; [reflexivity|].
    cbn [s_in s_ev s_tls]. change (SEL_SSL =? 2) with false in Hcssp. cbv iota in Hcssp. subst post'.
    rewrite Hev. repeat split; reflexivity.
  - (* HYBRID *)
    change (SEL_HYBRID =? PROTOCOL_HYBRID) with true. cbv iota. rewrite Hauth.
    change (SEL_HYBRID =? 2) with true in Hcssp. cbv iota in Hcssp.
    destruct (emit_n_ev CSSP ncssp (mkSt post (s_ev s1 ++ [TlsStart true]) true (s_alloc s1))) as [s2 [He [H2i [H2t H2e]]]].
    assert (Hnla : start_nla trusted tls_start cssp_run c s1 = (Ok tt, mkSt post' (s_ev s2) (s_tls s2) (s_alloc s2))).
    { unfold start_nla. rewrite (bind_ok _ _ _ _ _ Hssl). unfold cssp_connect. cbn [s_in]. rewrite Hcssp. cbn [fst snd].
      rewrite He. reflexivity. }
    rewrite (bind_ok _ _ _ _ _ Hnla). unfold Connect.ret. eexists. split; [reflexivity|]. cbn [s_in s_ev s_tls] in *.
    rewrite H2e, H2t, Hev. unfold nego_events. change (SEL_HYBRID =? 2) with true. cbn [wr_ev]. repeat split; try reflexivity.
Qed.

(* ---- exchange 1: MCS connect-initial / connect-response *)
(* the GCC response of the reference server read by gcc::read_conference_create_response: the three shapes of
   the server core data (optional fields), every value of the version and of the I/O channel id *)
Definition core8 (v0 v1 v2 v3 : N) : bytes := [1; 12; 8; 0; v0; v1; v2; v3].
Definition core12 (v0 v1 v2 v3 r0 r1 r2 r3 : N) : bytes := [1; 12; 12; 0; v0; v1; v2; v3; r0; r1; r2; r3].
Definition core16 (v0 v1 v2 v3 r0 r1 r2 r3 f0 f1 f2 f3 : N) : bytes := [1; 12; 16; 0; v0; v1; v2; v3; r0; r1; r2; r3; f0; f1; f2; f3].
Definition secnet (i0 i1 : N) : bytes := [2; 12; 12; 0; 0; 0; 0; 0; 0; 0; 0; 0] ++ [3; 12; 8; 0; i0; i1; 0; 0].
Definition sd_of (v0 v1 v2 v3 i0 i1 : N) : server_data :=
  mkServerData (of_le16 i0 i1) [] (of_le32 v0 v1 v2 v3 =? RDP_VERSION_5PLUS_WIRE).

Lemma gcc_parse8 v0 v1 v2 v3 i0 i1 :
  exists a, read_conference_create_response p (ref_gcc (core8 v0 v1 v2 v3 ++ secnet i0 i1)) = (Ok (sd_of v0 v1 v2 v3 i0 i1), a).
Proof. eexists. vm_compute. reflexivity. Qed.
Lemma gcc_parse12 v0 v1 v2 v3 r0 r1 r2 r3 i0 i1 :
  exists a, read_conference_create_response p (ref_gcc (core12 v0 v1 v2 v3 r0 r1 r2 r3 ++ secnet i0 i1)) = (Ok (sd_of v0 v1 v2 v3 i0 i1), a).
Proof. eexists. vm_compute. reflexivity. Qed.
Lemma gcc_parse16 v0 v1 v2 v3 r0 r1 r2 r3 f0 f1 f2 f3 i0 i1 :
  exists a, read_conference_create_response p (ref_gcc (core16 v0 v1 v2 v3 r0 r1 r2 r3 f0 f1 f2 f3 ++ secnet i0 i1)) = (Ok (sd_of v0 v1 v2 v3 i0 i1), a).
Proof. eexists. vm_compute. reflexivity. Qed.

Definition v5_of (srv : server) : bool := sv_version srv =? RDP_VERSION_5PLUS_WIRE.
Definition sd_srv (srv : server) : server_data := mkServerData (sv_io srv) [] (v5_of srv).

Lemma gcc_parse_srv c srv : conforming c srv ->
  exists a, read_conference_create_response p (ref_gcc (ref_blocks srv)) = (Ok (sd_srv srv), a).
Proof.
  intros [_ [_ [_ [_ [_ [Hio [_ [Hv _]]]]]]]].
  assert (Hsd : sd_srv srv = sd_of (sv_version srv mod 256) ((sv_version srv / 256) mod 256) ((sv_version srv / 65536) mod 256)
                                  ((sv_version srv / 16777216) mod 256) (u16_lo (sv_io srv)) (u16_hi (sv_io srv))).
  { unfold sd_srv, sd_of, v5_of. rewrite MsgTheory.le16_of by lia. rewrite MsgTheory.le32_of by exact Hv. reflexivity. }
  rewrite Hsd. unfold ref_blocks, ref_core, ref_security, ref_net.
  destruct (sv_requested srv) as [r|]; [destruct (sv_early srv) as [f|]|].
  - apply (gcc_parse16 _ _ _ _ (r mod 256) ((r / 256) mod 256) ((r / 65536) mod 256) ((r / 16777216) mod 256)
                       (f mod 256) ((f / 256) mod 256) ((f / 65536) mod 256) ((f / 16777216) mod 256)).
  - apply (gcc_parse12 _ _ _ _ (r mod 256) ((r / 256) mod 256) ((r / 65536) mod 256) ((r / 16777216) mod 256)).
  - apply gcc_parse8.
Qed.

(* ---- exchanges 2-4: attach-user confirm, channel-join confirms *)
(* ---- exchange 5: client info / licence, on the I/O channel *)
Lemma sdi_read_any uid io data : io < 65536 -> nlen data < 32768 ->
  mcs_read_any uid io (Raw (ref_sdi io data)) = Ok (Raw data).
Proof.
  intros Hio Hd. unfold ref_sdi. cbn [app mcs_read_any].
  change (N.shiftr 104 2 =? 8) with false. change (N.shiftr 104 2 =? 26) with true. cbn [negb].
  change (u16_hi (SERVER_CHANNEL_ID - 1001) :: u16_lo (SERVER_CHANNEL_ID - 1001) :: be16 io ++ 112 :: ref_per_length (nlen data) ++ data)
    with (be16 (1002 - 1001) ++ be16 io ++ 112 :: ref_per_length (nlen data) ++ data).
  rewrite (int16_read 1001 1002) by lia. cbn [obind fst snd].
  replace (be16 io) with (be16 (io - 0)) by (rewrite N.sub_0_r; reflexivity).
  rewrite int16_read by lia. cbn [obind fst snd]. rewrite N.eqb_refl. cbn [orb negb per_read_u8 obind fst snd].
  rewrite per_length_read by exact Hd. reflexivity.
Qed.

(* the licensing PDU: valid-client error alert (any preamble flags, any blob type) *)
Lemma licence_valid_parse sf fl b0 b1 : sf = 128 \/ sf = 640 ->
  exists a, sec_license p (le16 sf ++ le16 0 ++ [255; fl] ++ le16 16 ++ (le32 7 ++ le32 2 ++ [b0; b1] ++ le16 0)) = (Ok tt, a).
Proof. intros [-> | ->]; eexists; vm_compute; reflexivity. Qed.

(* the licensing PDU: new licence (any preamble flags, any body) *)
Definition preamble_msg (t fl : N) (body : bytes) : msg :=
  MComp [("bMsgtype", MU8 t); ("flag", MU8 fl);
         ("wMsgSize", MDyn (u16le (nlen body + 4)) (size_minus "message" 4)); ("message", MBytes body)].

Lemma preamble_read t fl body : nlen body + 4 < 65536 ->
  C10_proofs.rok (read p preamble ([t; fl] ++ le16 (nlen body + 4) ++ body)) (preamble_msg t fl body) [].
Proof.
  intros Hn. unfold preamble. rewrite C10_proofs.read_comp_unfold.
  eapply C10_proofs.rc_field; [reflexivity|cbn [dyn_lookup read_field app read]; apply C10_proofs.rok_intro|].
  intros a1. cbn [options].
  eapply C10_proofs.rc_field; [reflexivity|cbn [dyn_lookup read_field app read]; apply C10_proofs.rok_intro|].
  intros a2. cbn [options].
  eapply C10_proofs.rc_field; [reflexivity| |].
  { cbn [dyn_lookup read_field]. unfold u16le. rewrite (C10_proofs.read_dyn_le16 p 0 (size_minus "message" 4) (nlen body + 4) body Hn). apply C10_proofs.rok_intro. }
  intros a3. cbn [options eval_clo size_minus eval_cexp num_of obind].
  replace (nlen body + 4 - 4) with (nlen body) by lia.
  rewrite <- (app_nil_r body) at 1.
  eapply C10_proofs.rc_bytes_last; [reflexivity|reflexivity|lia|reflexivity].
Qed.

Lemma licence_new_parse sf fl body : sf = 128 \/ sf = 640 -> nlen body + 4 < 65536 ->
  exists a, sec_license p (le16 sf ++ le16 0 ++ [3; fl] ++ le16 (nlen body + 4) ++ body) = (Ok tt, a).
Proof.
  intros Hsf Hn. destruct (preamble_read 3 fl body Hn) as [a Hr].
  assert (Hl : license_client_connect p ([3; fl] ++ le16 (nlen body + 4) ++ body) = (Ok tt, a)).
  { unfold license_client_connect, rda. rewrite Hr. cbn [fst snd]. reflexivity. }
  unfold sec_license.
  destruct Hsf as [-> | ->].
  - change (rdr p security_header (le16 128 ++ le16 0 ++ [3; fl] ++ le16 (nlen body + 4) ++ body))
      with (Ok (MComp [("securityFlag", u16le 128); ("securityFlagHi", u16le 0)], [3; fl] ++ le16 (nlen body + 4) ++ body), 0).
    cbn [fst snd]. change (cast_num 16 (get (MComp [("securityFlag", u16le 128); ("securityFlagHi", u16le 0)]) "securityFlag")) with (Ok 128).
    change (N.land 128 SEC_LICENSE_PKT =? 0) with false. cbv iota. rewrite Hl. eexists. reflexivity.
  - change (rdr p security_header (le16 640 ++ le16 0 ++ [3; fl] ++ le16 (nlen body + 4) ++ body))
      with (Ok (MComp [("securityFlag", u16le 640); ("securityFlagHi", u16le 0)], [3; fl] ++ le16 (nlen body + 4) ++ body), 0).
    cbn [fst snd]. change (cast_num 16 (get (MComp [("securityFlag", u16le 640); ("securityFlagHi", u16le 0)]) "securityFlag")) with (Ok 640).
    change (N.land 640 SEC_LICENSE_PKT =? 0) with false. cbv iota. rewrite Hl. eexists. reflexivity.
Qed.

(* ---- the connection phase as a whole *)
(* the BER parser (external) on the connect-response of the server at hand: it returns the user data *)
Definition ber_ok (srv : server) : Prop :=
  ber_parse (ref_connect_response (ref_gcc (ref_blocks srv))) = Ok (ref_gcc (ref_blocks srv)).

Definition jn (srv : server) (uf : bool) (i : nat) : N := nth i (joins srv uf) 0.

(* the TLS replies of the connection phase *)
Definition conn_replies (srv : server) (uf : bool) : list bytes :=
  [ ref_mcs_response srv; ref_attach_confirm srv; ref_join_confirm srv (jn srv uf 0); ref_join_confirm srv (jn srv uf 1);
    ref_licence srv ].

(* what the client writes before waiting for each of them, and after the last *)
Definition conn_writes (c : Connect.config) (srv : server) (uf : bool) : list (list cmsg) :=
  let u := sv_uid srv - 1001 in
  [ [CI ci_len (sv_selected srv)]; [ED; AU]; [CJ u (jn srv uf 0)]; [CJ u (jn srv uf 1)];
    [INFO u (sv_io srv) (info_len c (v5_of srv))] ].

Definition tls_writes (l : list (list cmsg)) : list tev := map TlsWrite (List.concat l).

Lemma join_channels_spec uid : forall chans s b ev,
  1001 <= uid <= 65535 -> Forall (fun ch => ch < 65536) chans ->
  at_ s b ev true ->
  (* all the confirms are there *)
  (forall rest, b = List.concat (map (fun ch => ref_frame ([62; 0] ++ be16 (uid - 1001) ++ be16 ch ++ be16 ch)) chans) ++ rest ->
     exists s', join_channels uid chans s = (Ok tt, s') /\ at_ s' rest (ev ++ map (fun ch => TlsWrite (CJ (uid - 1001) ch)) chans) true) /\
  (* the server stops after k of them *)
  (forall k, (k < List.length chans)%nat ->
     b = List.concat (map (fun ch => ref_frame ([62; 0] ++ be16 (uid - 1001) ++ be16 ch ++ be16 ch)) (firstn k chans)) ->
     exists s', join_channels uid chans s = (Err EIo, s') /\ at_ s' [] (ev ++ map (fun ch => TlsWrite (CJ (uid - 1001) ch)) (firstn (S k) chans)) true).
Proof.
  induction chans as [|ch chans IH]; intros s b ev Hu Hch Hat.
  - split.
    + intros rest ->. exists s. cbn [join_channels map List.concat app]. rewrite app_nil_r. split; [reflexivity|exact Hat].
    + intros k Hk. cbn in Hk. lia.
  - inversion Hch as [|? ? Hc Hcs]; subst. cbn [join_channels].
    pose proof (send_recv_x224 (CJ (uid - 1001) ch)
      (fun b0 => Connect.bind (Connect.lift (read_channel_join_confirm uid ch b0, 0)) (fun _ => join_channels uid chans)) s b ev true Hat) as [Heof Hfr].
    cbn [wr_ev] in Heof, Hfr.
    split.
    + intros rest Hb. cbn [map List.concat] in Hb. rewrite <- app_assoc in Hb.
      assert (Hq : nlen ([62; 0] ++ be16 (uid - 1001) ++ be16 ch ++ be16 ch) + 7 <= 65535) by nlen_lia.
      destruct (Hfr _ _ Hb Hq) as [s1 [H1 Hstep]]. rewrite Hstep.
      destruct (lift_at (read_channel_join_confirm uid ch ([62; 0] ++ be16 (uid - 1001) ++ be16 ch ++ be16 ch), 0) s1 _ _ _ H1) as [s2 [Hl H2]].
      rewrite (join_parse uid ch Hu Hc) in Hl |- *. cbn [fst] in Hl. rewrite (bind_ok _ _ _ _ _ Hl).
      destruct (IH s2 _ _ Hu Hcs H2) as [Hall _]. destruct (Hall rest eq_refl) as [s' [Hj H']].
      exists s'. split; [exact Hj|]. cbn [map]. rewrite <- app_assoc in H'. exact H'.
    + intros k Hk Hb. destruct k as [|k].
      * cbn [firstn map List.concat] in Hb. destruct (Heof Hb) as [s' [Hs H']]. exists s'. split; [exact Hs|]. exact H'.
      * cbn [firstn map List.concat] in Hb.
        assert (Hq : nlen ([62; 0] ++ be16 (uid - 1001) ++ be16 ch ++ be16 ch) + 7 <= 65535) by nlen_lia.
        destruct (Hfr _ _ Hb Hq) as [s1 [H1 Hstep]]. rewrite Hstep.
        destruct (lift_at (read_channel_join_confirm uid ch ([62; 0] ++ be16 (uid - 1001) ++ be16 ch ++ be16 ch), 0) s1 _ _ _ H1) as [s2 [Hl H2]].
        rewrite (join_parse uid ch Hu Hc) in Hl |- *. cbn [fst] in Hl. rewrite (bind_ok _ _ _ _ _ Hl).
        destruct (IH s2 _ _ Hu Hcs H2) as [_ Hcut]. destruct (Hcut k ltac:(cbn in Hk; lia) eq_refl) as [s' [Hj H']].
        exists s'. split; [exact Hj|]. cbn [firstn map]. rewrite <- app_assoc in H'. exact H'.
Qed.

Lemma jn_lt c srv uf i : conforming c srv -> jn srv uf i < 65536.
Proof.
  intros [_ [_ [_ [_ [Hu [Hio _]]]]]]. unfold jn, joins.
  destruct uf; destruct i as [|[|[|i]]]; cbv iota; cbn [nth]; lia.
Qed.

Lemma joins_eq srv uf : joins srv uf = [jn srv uf 0; jn srv uf 1].
Proof. unfold jn, joins. destruct uf; reflexivity. Qed.

Lemma mcs_response_len c srv : conforming c srv -> nlen (ref_connect_response (ref_gcc (ref_blocks srv))) + 7 <= 65535.
Proof.
  intros _. unfold ref_blocks, ref_core, ref_security, ref_net.
  destruct (sv_requested srv); [destruct (sv_early srv)|]; nlen_lia.
Qed.

Lemma mcs_connect_spec cf srv uf s b ev :
  ber_ok srv -> conforming (offered cf) srv -> user_first cf = uf ->
  at_ s b ev true ->
  let R := firstn 4 (conn_replies srv uf) in
  let W := firstn 4 (conn_writes cf srv uf) in
  (forall rest, b = List.concat R ++ rest ->
     exists s', mcs_connect p ber_parse cf (sv_selected srv) s = (Ok (sv_uid srv, sd_srv srv), s')
                /\ at_ s' rest (ev ++ tls_writes W) true) /\
  (forall k, (k < 4)%nat -> b = List.concat (firstn k R) ->
     exists s', mcs_connect p ber_parse cf (sv_selected srv) s = (Err EIo, s')
                /\ at_ s' [] (ev ++ tls_writes (firstn (S k) W)) true).
Proof.
  intros Hber Hc Huf Hat R W.
  pose proof Hc as [_ [_ [_ [_ [Hu [Hio _]]]]]].
  pose proof (send_recv_x224 (CI ci_len (sv_selected srv))
    (fun b0 => Connect.bind (Connect.lift (read_connect_response p ber_parse b0)) (fun sd =>
       Connect.bind (emit ED) (fun _ => Connect.bind (emit AU) (fun _ => Connect.bind recv_x224 (fun pl2 =>
       Connect.bind (Connect.lift (expect_raw pl2, 0)) (fun b2 =>
       Connect.bind (Connect.lift (read_attach_user_confirm b2, 0)) (fun uid =>
       Connect.bind (join_channels uid (if user_first cf then [uid; global_id sd] else [global_id sd; uid])) (fun _ =>
       Connect.ret (uid, sd)))))))))
    s b ev true Hat) as [Heof Hfr]. cbn [wr_ev] in Heof, Hfr.
  (* what happens once the connect-response is there *)
  assert (Hmcs : forall rest1, b = ref_mcs_response srv ++ rest1 ->
            exists s2, at_ s2 rest1 (ev ++ [TlsWrite (CI ci_len (sv_selected srv))]) true /\
              mcs_connect p ber_parse cf (sv_selected srv) s =
              Connect.bind (emit ED) (fun _ => Connect.bind (emit AU) (fun _ => Connect.bind recv_x224 (fun pl2 =>
                Connect.bind (Connect.lift (expect_raw pl2, 0)) (fun b2 =>
                Connect.bind (Connect.lift (read_attach_user_confirm b2, 0)) (fun uid =>
                Connect.bind (join_channels uid (if user_first cf then [uid; global_id (sd_srv srv)] else [global_id (sd_srv srv); uid])) (fun _ =>
                Connect.ret (uid, sd_srv srv))))))) s2).
  { intros rest1 Hb. unfold ref_mcs_response in Hb.
    destruct (Hfr _ _ Hb (mcs_response_len _ _ Hc)) as [s1 [H1 Hstep]]. unfold mcs_connect. rewrite Hstep.
    destruct (gcc_parse_srv _ _ Hc) as [a Hg].
    destruct (lift_at (read_connect_response p ber_parse (ref_connect_response (ref_gcc (ref_blocks srv)))) s1 _ _ _ H1) as [s2 [Hl H2]].
    unfold read_connect_response in Hl |- *. unfold ber_ok in Hber. rewrite Hber, Hg in Hl |- *. cbn [fst] in Hl. rewrite (bind_ok _ _ _ _ _ Hl).
    exists s2. split; [exact H2|reflexivity]. }
  (* ... and the attach-user confirm *)
  assert (Hatt : forall s2 b2 ev2, at_ s2 b2 ev2 true ->
            let step := Connect.bind (emit ED) (fun _ => Connect.bind (emit AU) (fun _ => Connect.bind recv_x224 (fun pl2 =>
                Connect.bind (Connect.lift (expect_raw pl2, 0)) (fun b2 =>
                Connect.bind (Connect.lift (read_attach_user_confirm b2, 0)) (fun uid =>
                Connect.bind (join_channels uid (if user_first cf then [uid; global_id (sd_srv srv)] else [global_id (sd_srv srv); uid])) (fun _ =>
                Connect.ret (uid, sd_srv srv))))))) in
            (b2 = [] -> exists s', step s2 = (Err EIo, s') /\ at_ s' [] (ev2 ++ [TlsWrite ED; TlsWrite AU]) true) /\
            (forall rest2, b2 = ref_attach_confirm srv ++ rest2 ->
               exists s3, at_ s3 rest2 (ev2 ++ [TlsWrite ED; TlsWrite AU]) true /\
                 step s2 = Connect.bind (join_channels (sv_uid srv) (joins srv uf)) (fun _ => Connect.ret (sv_uid srv, sd_srv srv)) s3)).
  { intros s2 b2 ev2 H2 step.
    destruct (emit_at s2 ED _ _ _ H2) as [s3 [He3 H3]].
    pose proof (send_recv_x224 AU
      (fun b0 => Connect.bind (Connect.lift (read_attach_user_confirm b0, 0)) (fun uid =>
         Connect.bind (join_channels uid (if user_first cf then [uid; global_id (sd_srv srv)] else [global_id (sd_srv srv); uid])) (fun _ =>
         Connect.ret (uid, sd_srv srv)))) s3 b2 _ true H3) as [Heof3 Hfr3]. cbn [wr_ev] in Heof3, Hfr3.
    rewrite <- app_assoc in Heof3, Hfr3. cbn [app] in Heof3, Hfr3.
    split.
    - intros Hb. destruct (Heof3 Hb) as [s' [Hs H']]. exists s'. split; [|exact H']. unfold step. rewrite (bind_ok _ _ _ _ _ He3). exact Hs.
    - intros rest2 Hb. unfold ref_attach_confirm in Hb.
      assert (Hq : nlen ([46; 0] ++ be16 (sv_uid srv - 1001)) + 7 <= 65535) by nlen_lia.
      destruct (Hfr3 _ _ Hb Hq) as [s4 [H4 Hstep]].
      destruct (lift_at (read_attach_user_confirm ([46; 0] ++ be16 (sv_uid srv - 1001)), 0) s4 _ _ _ H4) as [s5 [Hl5 H5]].
      rewrite (attach_parse _ Hu) in Hl5. cbn [fst] in Hl5.
      exists s5. split; [exact H5|]. unfold step. rewrite (bind_ok _ _ _ _ _ He3), Hstep. rewrite (attach_parse _ Hu).
      rewrite (bind_ok _ _ _ _ _ Hl5). rewrite Huf. unfold joins. cbn [global_id sd_srv]. reflexivity. }
  assert (HR : R = [ref_mcs_response srv; ref_attach_confirm srv; ref_join_confirm srv (jn srv uf 0); ref_join_confirm srv (jn srv uf 1)]) by reflexivity.
  assert (HW : W = [[CI ci_len (sv_selected srv)]; [ED; AU]; [CJ (sv_uid srv - 1001) (jn srv uf 0)]; [CJ (sv_uid srv - 1001) (jn srv uf 1)]]) by reflexivity.
  assert (Hjl : Forall (fun ch => ch < 65536) (joins srv uf)).
  { rewrite joins_eq. repeat constructor; eapply jn_lt; eauto. }
  split.
  - intros rest Hb. rewrite HR in Hb. cbn [List.concat] in Hb. rewrite <- !app_assoc in Hb. cbn [app] in Hb.
    destruct (Hmcs _ Hb) as [s2 [H2 Hrun]]. rewrite Hrun.
    destruct (Hatt s2 _ _ H2) as [_ Hatt2]. destruct (Hatt2 _ eq_refl) as [s3 [H3 Hrun3]]. rewrite Hrun3.
    destruct (join_channels_spec (sv_uid srv) (joins srv uf) s3 _ _ Hu Hjl H3) as [Hall _].
    destruct (Hall rest) as [s' [Hj H']].
    { rewrite joins_eq. cbn [map List.concat]. rewrite app_nil_r, <- app_assoc. reflexivity. }
    rewrite (bind_ok _ _ _ _ _ Hj). unfold Connect.ret. exists s'. split; [reflexivity|].
    rewrite HW. unfold tls_writes. cbn [List.concat app map]. rewrite joins_eq in H'. cbn [map] in H'.
    rewrite <- !app_assoc in H'. exact H'.
  - intros k Hk Hb. rewrite HR in Hb. rewrite HW. unfold tls_writes.
    destruct k as [|[|k]].
    + cbn [firstn List.concat] in Hb. destruct (Heof Hb) as [s' [Hs H']]. exists s'. split; [exact Hs|]. exact H'.
    + cbn [firstn List.concat] in Hb. rewrite app_nil_r in Hb.
      destruct (Hmcs [] ltac:(rewrite app_nil_r; exact Hb)) as [s2 [H2 Hrun]]. rewrite Hrun.
      destruct (Hatt s2 _ _ H2) as [Hatt1 _]. destruct (Hatt1 eq_refl) as [s' [Hs H']].
      exists s'. split; [exact Hs|]. cbn [firstn List.concat app map]. rewrite <- app_assoc in H'. exact H'.
    + cbn [firstn List.concat] in Hb. try rewrite <- !app_assoc in Hb.
      destruct (Hmcs _ Hb) as [s2 [H2 Hrun]]. rewrite Hrun.
      destruct (Hatt s2 _ _ H2) as [_ Hatt2]. destruct (Hatt2 _ eq_refl) as [s3 [H3 Hrun3]]. rewrite Hrun3.
      destruct (join_channels_spec (sv_uid srv) (joins srv uf) s3 _ _ Hu Hjl H3) as [_ Hcut].
      destruct (Hcut k) as [s' [Hj H']].
      { rewrite joins_eq. cbn [List.length]. lia. }
      { rewrite joins_eq. destruct k as [|[|k]]; [reflexivity|cbn [firstn map List.concat]; rewrite !app_nil_r; reflexivity|lia]. }
      rewrite (bind_err _ _ _ _ _ Hj). exists s'. split; [reflexivity|].
      rewrite joins_eq in H'. destruct k as [|[|k]]; [| |lia]; cbn [firstn List.concat app map] in *; rewrite <- !app_assoc in H'; exact H'.
Qed.

Lemma send_recv_pl {A} (m : cmsg) (K : payload -> M A) s b ev tls :
  at_ s b ev tls ->
  let step := Connect.bind (emit m) (fun _ => Connect.bind recv_x224 K) in
  (b = [] -> exists s', step s = (Err EIo, s') /\ at_ s' [] (ev ++ [wr_ev tls m]) tls)
  /\ (forall q rest, b = ref_frame q ++ rest -> nlen q + 7 <= 65535 ->
     exists s1, at_ s1 rest (ev ++ [wr_ev tls m]) tls /\ step s = K (Raw q) s1).
Proof.
  intros Hat step. destruct (emit_at s m b ev tls Hat) as [s0 [He H0]]. fold (wr_ev tls m) in H0.
  split.
  - intros ->. destruct (recv_x224_eof s0 _ _ H0) as [s' [Hr H']].
    exists s'. split; [|exact H']. unfold step. rewrite (bind_ok _ _ _ _ _ He). rewrite (bind_err _ _ _ _ _ Hr). reflexivity.
  - intros q rest -> Hl. destruct (recv_x224_ref s0 q rest _ _ Hl H0) as [s1 [Hr H1]].
    exists s1. split; [exact H1|]. unfold step. rewrite (bind_ok _ _ _ _ _ He), (bind_ok _ _ _ _ _ Hr). reflexivity.
Qed.

Lemma licence_data_len c srv : conforming c srv ->
  nlen (le16 (sv_lic_secflags srv) ++ le16 0 ++ ref_licence_message (sv_licence srv)) < 32768.
Proof.
  intros [_ [_ [_ [_ [_ [_ [_ [_ [_ [_ [Hl _]]]]]]]]]]]. destruct (sv_licence srv) as [fl bt|fl body]; cbn [ref_licence_message licence_ok] in *.
  - nlen_lia.
  - destruct Hl as [_ [_ Hn]]. unfold le16. cbn [app]. rewrite !nlen_cons. lia.
Qed.

Lemma licence_parse c srv : conforming c srv ->
  exists a, sec_license p (le16 (sv_lic_secflags srv) ++ le16 0 ++ ref_licence_message (sv_licence srv)) = (Ok tt, a).
Proof.
  intros [_ [_ [_ [_ [_ [_ [_ [_ [_ [_ [Hl [Hsf _]]]]]]]]]]]]. destruct (sv_licence srv) as [fl bt|fl body]; cbn [ref_licence_message licence_ok] in *.
  - apply (licence_valid_parse _ fl (u16_lo bt) (u16_hi bt) Hsf).
  - apply licence_new_parse; [exact Hsf|lia].
Qed.

Lemma sec_connect_spec cf srv s b ev :
  conforming (offered cf) srv -> at_ s b ev true ->
  let info := INFO (sv_uid srv - 1001) (sv_io srv) (info_len cf (v5_of srv)) in
  (forall rest, b = ref_licence srv ++ rest ->
     exists s', sec_connect p cf (sv_uid srv) (sv_io srv) (v5_of srv) s = (Ok tt, s') /\ at_ s' rest (ev ++ [TlsWrite info]) true) /\
  (b = [] -> exists s', sec_connect p cf (sv_uid srv) (sv_io srv) (v5_of srv) s = (Err EIo, s') /\ at_ s' [] (ev ++ [TlsWrite info]) true).
Proof.
  intros Hc Hat info. pose proof Hc as [_ [_ [_ [_ [Hu [Hio _]]]]]].
  pose proof (send_recv_pl info
    (fun pl => Connect.bind (Connect.lift (mcs_read_any (sv_uid srv) (sv_io srv) pl, 0)) (fun pl' =>
       Connect.bind (Connect.lift (expect_raw pl', 0)) (fun b0 => Connect.lift (sec_license p b0)))) s b ev true Hat) as [Heof Hfr].
  cbn [wr_ev] in Heof, Hfr.
  split.
  - intros rest Hb. unfold ref_licence, ref_io_frame in Hb.
    set (data := le16 (sv_lic_secflags srv) ++ le16 0 ++ ref_licence_message (sv_licence srv)) in *.
    pose proof (licence_data_len _ _ Hc) as Hdl. fold data in Hdl.
    assert (Hq : nlen (ref_sdi (sv_io srv) data) + 7 <= 65535).
    { pose proof (nlen_sdi (sv_io srv) data). lia. }
    destruct (Hfr _ _ Hb Hq) as [s1 [H1 Hstep]]. unfold sec_connect. fold info. rewrite Hstep.
    rewrite sdi_read_any by lia.
    destruct (lift_at (Ok (Raw data), 0) s1 _ _ _ H1) as [s2 [Hl2 H2]]. cbn [fst] in Hl2. rewrite (bind_ok _ _ _ _ _ Hl2).
    destruct (lift_at (expect_raw (Raw data), 0) s2 _ _ _ H2) as [s3 [Hl3 H3]]. cbn [fst expect_raw] in Hl3. rewrite (bind_ok _ _ _ _ _ Hl3).
    destruct (licence_parse _ _ Hc) as [a Hp]. fold data in Hp.
    destruct (lift_at (sec_license p data) s3 _ _ _ H3) as [s4 [Hl4 H4]]. rewrite Hp in Hl4 |- *. cbn [fst] in Hl4.
    exists s4. split; [exact Hl4|exact H4].
  - intros Hb. destruct (Heof Hb) as [s' [Hs H']]. exists s'. split; [exact Hs|exact H'].
Qed.

(* ---- Connector::connect against a conforming server: the whole phase, and every cut of the server's replies *)
Definition conn_events (cf : Connect.config) (srv : server) (uf : bool) (ncssp : nat) (k : nat) : list tev :=
  nego_events cf (sv_selected srv) ncssp ++ tls_writes (firstn k (conn_writes cf srv uf)).

Lemma connect_spec cf srv uf cs post post' ncssp :
  ber_ok srv -> conforming (offered cf) srv -> has_auth cf = true -> user_first cf = uf ->
  (check_cert cf = true -> trusted = true) ->
  holds cs (ref_confirm srv) -> tls_start [] = Ok post ->
  (if sv_selected srv =? 2 then cssp_run post = (ncssp, Ok post') else post' = post) ->
  (forall rest, holds post' (List.concat (conn_replies srv uf) ++ rest) ->
     exists st, run_connect p ber_parse trusted tls_start cssp_run cf cs = (Ok (sv_uid srv, sd_srv srv), st)
                /\ at_ st rest (conn_events cf srv uf ncssp 5) true) /\
  (forall k, (k < 5)%nat -> holds post' (List.concat (firstn k (conn_replies srv uf))) ->
     exists st, run_connect p ber_parse trusted tls_start cssp_run cf cs = (Err EIo, st)
                /\ s_ev st = conn_events cf srv uf ncssp (S k)).
Proof.
  intros Hber Hc Hauth Huf Hcert Hcs Htls Hcssp.
  assert (Hat0 : at_ (mkSt cs [] false 0) (ref_confirm srv) [] false) by (repeat split; auto; apply Hcs).
  destruct (x224_connect_ok cf srv _ post post' ncssp Hc Hauth Hcert Hat0 Htls Hcssp) as [s1 [Hx [Hin1 [Hev1 Ht1]]]].
  unfold run_connect, connect. rewrite (bind_ok _ _ _ _ _ Hx).
  split.
  - intros rest Hh.
    assert (Hat1 : at_ s1 (List.concat (conn_replies srv uf) ++ rest) (nego_events cf (sv_selected srv) ncssp) true).
    { repeat split; auto; rewrite Hin1; apply Hh. }
    destruct (mcs_connect_spec cf srv uf s1 _ _ Hber Hc Huf Hat1) as [Hfull _].
    destruct (Hfull (ref_licence srv ++ rest)) as [s2 [Hm H2]].
    { unfold conn_replies. cbn [firstn List.concat]. rewrite <- !app_assoc. cbn [app]. reflexivity. }
    rewrite (bind_ok _ _ _ _ _ Hm). cbn [fst snd sd_srv global_id rdp_v5].
    destruct (sec_connect_spec cf srv s2 _ _ Hc H2) as [Hsec _]. destruct (Hsec rest eq_refl) as [s3 [Hs H3]].
    rewrite (bind_ok _ _ _ _ _ Hs). unfold Connect.ret. exists s3. split; [reflexivity|].
    unfold conn_events, tls_writes in *. cbn [firstn conn_writes List.concat app map] in *. rewrite <- !app_assoc in H3. exact H3.
  - intros k Hk Hh.
    assert (Hat1 : at_ s1 (List.concat (firstn k (conn_replies srv uf))) (nego_events cf (sv_selected srv) ncssp) true).
    { repeat split; auto; rewrite Hin1; apply Hh. }
    destruct (mcs_connect_spec cf srv uf s1 _ _ Hber Hc Huf Hat1) as [Hfull Hcut].
    destruct (Nat.ltb_spec k 4) as [Hk4|Hk4].
    + destruct (Hcut k Hk4) as [s2 [Hm H2]].
      { rewrite firstn_firstn. replace (Nat.min k 4) with k by lia. reflexivity. }
      rewrite (bind_err _ _ _ _ _ Hm). exists s2. split; [reflexivity|].
      destruct H2 as [_ [He _]]. rewrite He. unfold conn_events. rewrite firstn_firstn. replace (Nat.min (S k) 4) with (S k) by lia. reflexivity.
    + assert (k = 4)%nat by lia. subst k.
      destruct (Hfull []) as [s2 [Hm H2]]; [rewrite app_nil_r; reflexivity|].
      rewrite (bind_ok _ _ _ _ _ Hm). cbn [fst snd sd_srv global_id rdp_v5].
      destruct (sec_connect_spec cf srv s2 _ _ Hc H2) as [_ Hsec]. destruct (Hsec eq_refl) as [s3 [Hs H3]].
      rewrite (bind_err _ _ _ _ _ Hs). exists s3. split; [reflexivity|]. destruct H3 as [_ [He _]]. rewrite He.
      unfold conn_events, tls_writes. cbn [firstn conn_writes List.concat app map]. rewrite <- !app_assoc. reflexivity.
Qed.

Lemma connect_no_confirm cf cs :
  cs = [] ->
  exists st, run_connect p ber_parse trusted tls_start cssp_run cf cs = (Err EIo, st) /\ s_ev st = [RawWrite (cr_msg cf)].
Proof.
  intros ->. assert (Hat0 : at_ (mkSt [] [] false 0) [] [] false) by (repeat split; auto; constructor).
  destruct (x224_connect_eof cf _ Hat0) as [s' [Hx H']].
  unfold run_connect, connect. rewrite (bind_err _ _ _ _ _ Hx). exists s'. split; [reflexivity|apply H'].
Qed.
(*END-CONNECT*)
End ConnectPhase.

(* ================================================================== C. the session phase (Global.v) *)
Section SessionPhase.
Variable p : prof.

(* mcs::Client::read on a send-data-indication of the reference server *)
Lemma sdi_mcs_read s io data : channel_id s = io -> io < 65536 -> nlen data < 32768 ->
  mcs_read s (Raw (ref_sdi io data)) = Ok (Raw data).
Proof.
  intros Hch Hio Hd. unfold ref_sdi. cbn [app mcs_read].
  change (N.shiftr 104 2 =? 8) with false. change (N.shiftr 104 2 =? 26) with true. cbn [negb].
  change (u16_hi (SERVER_CHANNEL_ID - 1001) :: u16_lo (SERVER_CHANNEL_ID - 1001) :: be16 io ++ 112 :: ref_per_length (nlen data) ++ data)
    with (be16 (1002 - 1001) ++ be16 io ++ 112 :: ref_per_length (nlen data) ++ data).
  rewrite (int16_read 1001 1002) by lia. cbn [obind].
  replace (be16 io) with (be16 (io - 0)) by (rewrite N.sub_0_r; reflexivity).
  rewrite int16_read by lia. cbn [obind]. rewrite Hch, N.eqb_refl. cbn [orb negb].
  rewrite per_length_read by exact Hd. cbn [obind]. reflexivity.
Qed.

(* the server's half of the finalization and the deactivate-all, read in the state that waits for them *)
Definition sh_bytes (a b c d : N) : N := of_le32 a b c d.

Lemma read_sync s a b c d t0 t1 :
  read_expect_data p s (ref_share_control 7 ([a; b; c; d] ++ [0; 1] ++ le16 22 ++ [31; 0] ++ le16 0 ++ (le16 1 ++ [t0; t1])))
                   PDUTYPE2_SYNCHRONIZE None SControlCooperate
  = done (set_state s SControlCooperate) (Ok tt).
Proof. vm_compute. reflexivity. Qed.

Lemma read_control s a b c d act g0 g1 c0 c1 c2 c3 next :
  act = 4 \/ act = 2 ->
  read_expect_data p s (ref_share_control 7 ([a; b; c; d] ++ [0; 1] ++ le16 26 ++ [20; 0] ++ le16 0 ++ (le16 act ++ [g0; g1] ++ [c0; c1; c2; c3])))
                   PDUTYPE2_CONTROL (Some act) next
  = done (set_state s next) (Ok tt).
Proof. intros [-> | ->]; vm_compute; reflexivity. Qed.

Lemma read_fontmap s a b c d :
  read_expect_data p s (ref_share_control 7 ([a; b; c; d] ++ [0; 1] ++ le16 26 ++ [40; 0] ++ le16 0 ++ (le16 0 ++ le16 0 ++ le16 3 ++ le16 4)))
                   PDUTYPE2_FONTMAP None SData
  = done (set_state s SData) (Ok tt).
Proof. vm_compute. reflexivity. Qed.

Lemma read_deactivate s a b c d :
  read_data_pdu p s (ref_share_control 6 ([a; b; c; d] ++ le16 1 ++ [0])) = done (set_state s SDemandActive) (Ok tt).
Proof. vm_compute. reflexivity. Qed.


(* ---- reading the variable-size PDUs: steps of Component::read (in the style of C10_proofs) *)
Import C10_proofs.

Lemma read_le32 v0 v rest : v < 4294967296 -> read p (MU32 LE v0) (le32 v ++ rest) = ROk (MU32 LE v) rest 0.
Proof. intros H. unfold le32. cbn [app read]. rewrite MsgTheory.le32_of by exact H. reflexivity. Qed.

Lemma rc_u32 name v0 tl v rest skip dyn acc a m r :
  mem name skip = false -> dyn_lookup name dyn = None -> v < 4294967296 ->
  (forall a', rok (read_comp p (read p) tl rest skip dyn ((name, MU32 LE v) :: acc) a') m r) ->
  rok (read_comp p (read p) ((name, MU32 LE v0) :: tl) (le32 v ++ rest) skip dyn acc a) m r.
Proof.
  intros Hm Hd Hv H. eapply rc_field; [exact Hm| |].
  - rewrite Hd. cbn [read_field]. rewrite (read_le32 _ _ _ Hv). apply rok_intro.
  - intros a'. cbn [options]. apply H.
Qed.

(* a 16-bit length field whose closure sizes a later field to (value - k), saturating *)
Lemma rc_u16_size_minus name v0 target k tl v rest skip dyn acc a m r :
  mem name skip = false -> dyn_lookup name dyn = None -> v < 65536 ->
  (forall a', rok (read_comp p (read p) tl rest skip ((target, v - k) :: dyn)
                             ((name, MDyn (MU16 LE v) (size_minus target k)) :: acc) a') m r) ->
  rok (read_comp p (read p) ((name, MDyn (MU16 LE v0) (size_minus target k)) :: tl) (le16 v ++ rest) skip dyn acc a) m r.
Proof.
  intros Hm Hd Hv H. eapply rc_field; [exact Hm| |].
  - rewrite Hd. cbn [read_field]. rewrite (read_dyn_le16 p _ _ _ _ Hv). apply rok_intro.
  - intros a'. cbn [options eval_clo size_minus eval_cexp num_of obind]. apply H.
Qed.

(* a byte field sized by an earlier field, other fields follow *)
Lemma rc_bytes_sized name (x rest : bytes) tl skip dyn acc a m r :
  mem name skip = false -> dyn_lookup name dyn = Some (nlen x) -> nlen x < 65536 ->
  (forall a', rok (read_comp p (read p) tl rest skip dyn ((name, MBytes x) :: acc) a') m r) ->
  rok (read_comp p (read p) ((name, MBytes []) :: tl) (x ++ rest) skip dyn acc a) m r.
Proof.
  intros Hm Hd Hn H. eapply rc_field; [exact Hm| |].
  - rewrite Hd. apply (read_field_sized (read p) _ x rest _ []); [exact Hn|]. rewrite read_all_bytes. apply rok_intro.
  - intros a'. cbn [options]. apply H.
Qed.

(* an optional 16-bit field that is present *)
Lemma rc_opt16 name v0 tl v rest skip dyn acc a m r :
  mem name skip = false -> dyn_lookup name dyn = None -> v < 65536 ->
  (forall a', rok (read_comp p (read p) tl rest skip dyn ((name, MOpt (Some (MU16 LE v))) :: acc) a') m r) ->
  rok (read_comp p (read p) ((name, MOpt (Some (MU16 LE v0))) :: tl) (le16 v ++ rest) skip dyn acc a) m r.
Proof.
  intros Hm Hd Hv H. eapply rc_field; [exact Hm| |].
  - rewrite Hd. cbn [read_field]. cbn [read]. unfold le16. cbn [app]. rewrite (le16_dec v Hv). apply rok_intro.
  - intros a'. cbn [options]. apply H.
Qed.

(* ---- share control header of the reference server, any PDU type and body *)
Definition control_msg (t : N) (body : bytes) : msg :=
  MComp [("totalLength", MDyn (u16le (nlen body + 6)) (size_minus "pduMessage" 6));
         ("pduType", u16le (16 + t)); ("PDUSource", MOpt (Some (u16le SERVER_CHANNEL_ID))); ("pduMessage", MBytes body)].

Lemma share_control_read t body : nlen body + 6 < 65536 -> 16 + t < 65536 ->
  rok (read p share_control_header_t (ref_share_control t body)) (control_msg t body) [].
Proof.
  intros Hn Ht. unfold share_control_header_t, share_control_header, ref_share_control, control_msg, u16le. rewrite read_comp_unfold.
  change (as_u16 (as_u16 (nlen (@nil N)) + 6)) with 6.
  apply rc_u16_size_minus; [reflexivity|reflexivity|exact Hn|intros ?].
  apply rc_u16; [reflexivity|reflexivity|exact Ht|intros ?].
  apply rc_opt16; [reflexivity|reflexivity|unfold SERVER_CHANNEL_ID; lia|intros ?].
  replace (nlen body + 6 - 6) with (nlen body) by lia.
  rewrite <- (app_nil_r body) at 1.
  apply rc_bytes_last; [reflexivity|reflexivity|lia|reflexivity].
Qed.

(* ---- capability sets: any type (known to the client or not), any body *)
Definition cap_msg (c : N * bytes) : msg :=
  MComp [("capabilitySetType", u16le (fst c));
         ("lengthCapability", MDyn (u16le (nlen (snd c) + 4)) (size_minus "capabilitySet" 4));
         ("capabilitySet", MBytes (snd c))].

Definition cap_fits (c : N * bytes) : Prop := fst c < 65536 /\ nlen (snd c) + 4 < 65536.

Lemma capset_read c rest : cap_fits c ->
  rok (read p capability_set_t (ref_capset c ++ rest)) (cap_msg c) rest.
Proof.
  intros [Ht Hn]. unfold capability_set_t, capability_set, ref_capset, cap_msg, u16le. rewrite read_comp_unfold.
  rewrite <- !app_assoc.
  apply rc_u16; [reflexivity|reflexivity|exact Ht|intros ?].
  apply rc_u16_size_minus; [reflexivity|reflexivity|exact Hn|intros ?].
  replace (nlen (snd c) + 4 - 4) with (nlen (snd c)) by lia.
  apply rc_bytes_last; [reflexivity|reflexivity|lia|reflexivity].
Qed.

Lemma capsets_read caps : Forall cap_fits caps ->
  rok (read p (MArray [] (Some capability_set_t)) (ref_capsets caps)) (MArray (map cap_msg caps) (Some capability_set_t)) [].
Proof.
  intros Hf. rewrite read_array_unfold. unfold ref_capsets. rewrite flat_map_concat_map.
  pose proof (read_array_concat (read p capability_set_t) (fun l => MArray ([] ++ l) (Some capability_set_t))
                ref_capset cap_msg cap_fits) as H.
  apply H.
  - intros e rest He. apply capset_read. exact He.
  - intros e _. unfold ref_capset, le16. discriminate.
  - eexists. eexists. reflexivity.
  - exact Hf.
  - apply Nat.lt_succ_diag_r.
Qed.

(* ---- Demand Active *)
Definition da_msg (r : round) : msg :=
  MComp [("shareId", u32le (r_share r));
         ("lengthSourceDescriptor", MDyn (u16le (nlen (r_source r))) (size_of "sourceDescriptor"));
         ("lengthCombinedCapabilities", MDyn (u16le (nlen (ref_capsets (r_caps r)) + 4)) (size_minus "capabilitySets" 4));
         ("sourceDescriptor", MBytes (r_source r));
         ("numberCapabilities", u16le (nlen (r_caps r)));
         ("pad2Octets", u16le 0);
         ("capabilitySets", MArray (map cap_msg (r_caps r)) (Some capability_set_t));
         ("sessionId", u32le (r_sessid r))].

Definition da_body (r : round) : bytes :=
  le32 (r_share r) ++ le16 (nlen (r_source r)) ++ le16 (nlen (ref_capsets (r_caps r)) + 4) ++ r_source r
  ++ le16 (nlen (r_caps r)) ++ le16 0 ++ ref_capsets (r_caps r) ++ le32 (r_sessid r).

Lemma nlen_ref_capset c : nlen (ref_capset c) = nlen (snd c) + 4.
Proof. unfold ref_capset. rewrite !nlen_app, !nlen_le16. lia. Qed.

Lemma caps_count caps : nlen caps <= nlen (ref_capsets caps).
Proof.
  induction caps as [|c caps IH]; [cbn; lia|]. unfold ref_capsets in *. cbn [flat_map].
  rewrite nlen_app, nlen_ref_capset, nlen_cons. lia.
Qed.

Lemma caps_fit caps : Forall capset_ok caps -> nlen (ref_capsets caps) <= 16000 -> Forall cap_fits caps.
Proof.
  induction caps as [|c caps IH]; intros Hok Hn; [constructor|].
  inversion Hok as [|? ? [Ht _] Hoks]; subst. unfold ref_capsets in *. cbn [flat_map] in Hn.
  rewrite nlen_app, nlen_ref_capset in Hn. constructor; [split; [exact Ht|lia]|apply IH; [exact Hoks|lia]].
Qed.

Lemma demand_active_read r : round_ok r ->
  rok (read p ts_demand_active_pdu (da_body r)) (da_msg r) [].
Proof.
  intros (Hsh & Hse & _ & Hcaps & Hn).
  pose proof (caps_count (r_caps r)) as Hcc.
  unfold ts_demand_active_pdu, da_body, da_msg, u32le, u16le, size_of. rewrite read_comp_unfold.
  apply rc_u32; [reflexivity|reflexivity|exact Hsh|intros ?].
  apply rc_u16_size; [reflexivity|reflexivity|lia|intros ?].
  apply rc_u16_size_minus; [reflexivity|reflexivity|lia|intros ?].
  replace (nlen (ref_capsets (r_caps r)) + 4 - 4) with (nlen (ref_capsets (r_caps r))) by lia.
  apply rc_bytes_sized; [reflexivity|reflexivity|lia|intros ?].
  apply rc_u16; [reflexivity|reflexivity|lia|intros ?].
  apply rc_u16; [reflexivity|reflexivity|lia|intros ?].
  eapply rc_field; [reflexivity| |intros ?].
  { change (dyn_lookup "capabilitySets" _) with (Some (nlen (ref_capsets (r_caps r)))).
    apply (read_field_sized (read p) _ (ref_capsets (r_caps r)) (le32 (r_sessid r)) _ []); [lia|].
    apply capsets_read. apply caps_fit; [exact Hcaps|lia]. }
  cbn [options].
  rewrite <- (app_nil_r (le32 (r_sessid r))).
  apply rc_u32; [reflexivity|reflexivity|exact Hse|intros ?].
  apply rc_nil; reflexivity.
Qed.

Lemma nlen_da_body r : nlen (da_body r) = 16 + nlen (r_source r) + nlen (ref_capsets (r_caps r)).
Proof.
  assert (H32 : forall v, nlen (le32 v) = 4) by reflexivity.
  unfold da_body. rewrite !nlen_app, !nlen_le16, !H32. lia.
Qed.

Lemma demand_active_pdu r : round_ok r ->
  pdu_from_stream p (ref_demand_active r) = Ok (PDUTYPE_DEMANDACTIVE, da_msg r).
Proof.
  intros Hr. pose proof Hr as (_ & _ & _ & _ & Hn).
  change (ref_demand_active r) with (ref_share_control 1 (da_body r)).
  pose proof (nlen_da_body r) as Hl.
  destruct (share_control_read 1 (da_body r) ltac:(lia) ltac:(lia)) as [a Hc].
  destruct (demand_active_read r Hr) as [a2 Hd].
  unfold pdu_from_stream, rd. rewrite Hc. cbn [obind]. unfold pdu_from_control, control_msg.
  change (cast_num 16 (get (MComp _) "pduType")) with (Ok (16 + 1)).
  cbn [obind]. change (pdutype_known (16 + 1)) with true. cbn [negb].
  change (16 + 1 =? PDUTYPE_DEMANDACTIVE) with true. cbv iota.
  change (cast_bytes (get (MComp _) "pduMessage")) with (Ok (da_body r)). cbn [obind].
  unfold rd. rewrite Hd. reflexivity.
Qed.

(* the capability sets of a conforming demand-active never make the client crash (C06), and caps_crash has no
   error result: it is Ok *)
Lemma caps_crash_cases l : caps_crash p l = Ok tt \/ caps_crash p l = Panic \/ caps_crash p l = Spin.
Proof.
  induction l as [|c tl IH]; cbn [caps_crash]; [auto|]. destruct (capability_from_set p c); auto.
Qed.

Lemma wf_ref_capset c : capset_ok c -> wf_bytes (ref_capset c).
Proof.
  intros [_ Hb]. unfold ref_capset. apply C04_proofs.wf_app2; [apply C04_proofs.wf_le16|].
  apply C04_proofs.wf_app2; [apply C04_proofs.wf_le16|exact Hb].
Qed.

Lemma caps_crash_ok caps : Forall capset_ok caps -> Forall cap_fits caps -> caps_crash p (map cap_msg caps) = Ok tt.
Proof.
  intros Hok Hfit.
  assert (Hp : Forall (MsgProv.produced p capability_set_t) (map cap_msg caps)).
  { rewrite Forall_forall in *. intros m Hin. apply in_map_iff in Hin. destruct Hin as [c [<- Hc]].
    destruct (capset_read c [] (Hfit c Hc)) as [a Hr]. exists (ref_capset c ++ []), [], a.
    split; [rewrite app_nil_r; apply wf_ref_capset; auto|exact Hr]. }
  destruct (C06_proofs.caps_crash_nocrash p _ Hp) as [H1 H2].
  destruct (caps_crash_cases (map cap_msg caps)) as [H|[H|H]]; congruence.
Qed.

(* state DemandActive, a conforming Demand Active: the share id is taken, confirm-active and the four
   finalization PDUs are written, the client waits for the server's synchronize *)
Lemma read_demand_active_ref s r : round_ok r ->
  let s1 := set_share s (Some (r_share r)) in
  exists f0 fs, write_confirm_active p s1 = Ok f0 /\ write_client_finalize p s1 = Ok fs /\
    read_demand_active p s (ref_demand_active r) = mkStep (set_state s1 SSynchronize) (Ok tt) (f0 :: fs) [].
Proof.
  intros Hr s1. pose proof Hr as (_ & _ & _ & Hcaps & Hn).
  destruct (C06_proofs.write_confirm_active_ok p s1) as [f0 Hf0].
  destruct (C06_proofs.write_client_finalize_ok p s1) as [fs Hfs].
  exists f0, fs. split; [exact Hf0|]. split; [exact Hfs|].
  unfold read_demand_active. rewrite (demand_active_pdu r Hr). cbn [Global.lift].
  change (PDUTYPE_DEMANDACTIVE =? PDUTYPE_DEMANDACTIVE) with true. cbn [negb].
  change (get (da_msg r) "capabilitySets") with (Some (MArray (map cap_msg (r_caps r)) (Some capability_set_t))).
  cbn [trame_of Global.lift].
  rewrite caps_crash_ok; [|exact Hcaps|apply caps_fit; [exact Hcaps|lia]]. cbn [Global.lift].
  change (cast_num 32 (get (da_msg r) "shareId")) with (Ok (r_share r)). cbn [Global.lift].
  fold s1. rewrite Hf0, Hfs. reflexivity.
Qed.

(* ---- RdpClient::read on the stream, and the application's loop, over a chain of frames *)
Variable tls : bool.

(* reading frame [f] in state [s] succeeds, leaves state [s1] and writes [evs] *)
Definition fstep (s : session) (f : bytes) (s1 : session) (evs : list fev) : Prop :=
  forall cs rest, holds cs (f ++ rest) ->
    exists cs', session_read p tls s cs = (Ok tt, s1, evs, cs') /\ holds cs' rest.

Inductive chain : session -> list bytes -> list (list fev) -> session -> Prop :=
| chain_nil s : chain s [] [] s
| chain_cons s f evs s1 fs es s2 : fstep s f s1 evs -> chain s1 fs es s2 -> chain s (f :: fs) (evs :: es) s2.

Lemma chain_length s F E s' : chain s F E s' -> List.length E = List.length F.
Proof. induction 1; cbn; auto. Qed.

Lemma chain_app s F1 E1 s1 F2 E2 s2 : chain s F1 E1 s1 -> chain s1 F2 E2 s2 -> chain s (F1 ++ F2) (E1 ++ E2) s2.
Proof. induction 1; intros H2; cbn [app]; [exact H2|]. econstructor; eauto. Qed.

Lemma session_read_eof s : session_read p tls s [] = (Err EIo, s, [], []).
Proof. reflexivity. Qed.

Lemma loop_chain_full s F E s' : chain s F E s' ->
  forall cs rest, holds cs (List.concat F ++ rest) ->
  exists cs', holds cs' rest /\
    forall m k0 acc, session_loop p tls (List.length F + m) k0 s cs acc
                     = session_loop p tls m (k0 + List.length F) s' cs' (acc ++ List.concat E).
Proof.
  induction 1 as [s|s f evs s1 fs es s2 Hf Hc IH]; intros cs rest Hh.
  - exists cs. split; [exact Hh|]. intros m k0 acc. cbn [List.length List.concat Nat.add]. rewrite Nat.add_0_r, app_nil_r. reflexivity.
  - cbn [List.concat] in Hh. rewrite <- app_assoc in Hh. destruct (Hf cs _ Hh) as [cs1 [Hr H1]].
    destruct (IH cs1 rest H1) as [cs' [H' Hl]]. exists cs'. split; [exact H'|].
    intros m k0 acc. cbn [List.length Nat.add session_loop]. rewrite Hr. rewrite Hl.
    cbn [List.concat]. rewrite <- app_assoc. f_equal. lia.
Qed.

Lemma loop_chain_cut s F E s' : chain s F E s' ->
  forall j cs, (j < List.length F)%nat -> holds cs (List.concat (firstn j F)) ->
  forall m k0 acc, exists s'',
    session_loop p tls (List.length F + m) k0 s cs acc = (Err EIo, (k0 + j)%nat, s'', acc ++ List.concat (firstn j E), []).
Proof.
  induction 1 as [s|s f evs s1 fs es s2 Hf Hc IH]; intros j cs Hj Hh m k0 acc.
  - cbn in Hj. lia.
  - destruct j as [|j].
    + cbn [firstn List.concat] in *. pose proof (holds_nil _ Hh) as ->.
      exists s. cbn [List.length Nat.add session_loop]. rewrite session_read_eof. rewrite Nat.add_0_r, app_nil_r. reflexivity.
    + cbn [firstn List.concat] in *. destruct (Hf cs _ Hh) as [cs1 [Hr H1]].
      destruct (IH j cs1 ltac:(cbn in Hj; lia) H1 m (S k0) (acc ++ evs)) as [s'' Hl]. exists s''.
      cbn [List.length Nat.add session_loop]. rewrite Hr, Hl. rewrite <- app_assoc. f_equal. f_equal. f_equal. f_equal. lia.
Qed.

(* ---- the frames of the reference server, one by one *)
Variable c : ClientPdus.config.
Variable srv : server.
Hypothesis Hio : sv_io srv < 65536.

Definition sess (stt : gstate) (sh : option N) : session :=
  mkSession stt (sv_uid srv) (sv_io srv) (c_width c) (c_height c) (c_layout c) sh (utf8 (c_name c)).

(* what the client writes in answer to a Demand Active with share id [sid] *)
Definition fin_frames (sid : N) : list bytes :=
  match write_confirm_active p (sess SData (Some sid)), write_client_finalize p (sess SData (Some sid)) with
  | Ok f0, Ok fs => f0 :: fs
  | _, _ => []
  end.

Lemma wca_state stt sid : write_confirm_active p (sess stt (Some sid)) = write_confirm_active p (sess SData (Some sid)).
Proof. reflexivity. Qed.
Lemma wcf_state stt sid : write_client_finalize p (sess stt (Some sid)) = write_client_finalize p (sess SData (Some sid)).
Proof. reflexivity. Qed.

Lemma session_read_io s data : channel_id s = sv_io srv -> nlen data < 32768 ->
  forall cs rest, holds cs (ref_io_frame srv data ++ rest) ->
  exists cs', holds cs' rest /\
    session_read p tls s cs =
      (let r := global_read p s (Raw data) in
       let (ow, evs) := send_frames tls (r_wire r) in
       (match ow with Ok _ => r_out r | other => other end, r_session r, evs, cs')).
Proof.
  intros Hch Hd cs rest Hh. unfold ref_io_frame in Hh.
  assert (Hq : nlen (ref_sdi (sv_io srv) data) + 7 <= 65535) by (pose proof (nlen_sdi (sv_io srv) data); lia).
  destruct (x224_read_ref cs _ rest Hq Hh) as [cs' [Hr H']]. exists cs'. split; [exact H'|].
  unfold session_read. rewrite Hr. rewrite (sdi_mcs_read s _ data Hch Hio Hd). reflexivity.
Qed.

Lemma send_frames_ok fs : Forall (fun f => nlen f <= 65535) fs ->
  send_frames tls fs = (Ok tt, map (fun f => wrap tls (Some f)) fs).
Proof.
  induction 1 as [|f fs Hf _ IH]; [reflexivity|]. cbn [send_frames map].
  destruct (N.ltb_spec 65535 (nlen f)); [lia|]. rewrite IH. reflexivity.
Qed.

Lemma fstep_of s data s1 fs :
  channel_id s = sv_io srv -> nlen data < 32768 ->
  global_read p s (Raw data) = mkStep s1 (Ok tt) fs [] -> Forall (fun f => nlen f <= 65535) fs ->
  fstep s (ref_io_frame srv data) s1 (map (fun f => wrap tls (Some f)) fs).
Proof.
  intros Hch Hd Hg Hfs cs rest Hh. destruct (session_read_io s data Hch Hd cs rest Hh) as [cs' [H' Hr]].
  exists cs'. split; [|exact H']. rewrite Hr, Hg. cbn [r_wire r_out Global.r_session]. rewrite (send_frames_ok fs Hfs). reflexivity.
Qed.

Lemma fstep_demand sh0 r :
  round_ok r -> Forall (fun f => nlen f <= 65535) (fin_frames (r_share r)) ->
  fstep (sess SDemandActive sh0) (ref_io_frame srv (ref_demand_active r)) (sess SSynchronize (Some (r_share r)))
        (map (fun f => wrap tls (Some f)) (fin_frames (r_share r))).
Proof.
  intros Hr Hfin. pose proof Hr as (_ & _ & _ & _ & Hn).
  destruct (read_demand_active_ref (sess SDemandActive sh0) r Hr) as [f0 [fs [Hf0 [Hfs Hrd]]]].
  change (set_share (sess SDemandActive sh0) (Some (r_share r))) with (sess SDemandActive (Some (r_share r))) in *.
  rewrite wca_state in Hf0. rewrite wcf_state in Hfs.
  assert (Hff : fin_frames (r_share r) = f0 :: fs) by (unfold fin_frames; rewrite Hf0, Hfs; reflexivity).
  rewrite Hff in *.
  apply fstep_of; [reflexivity| | |exact Hfin].
  - change (ref_demand_active r) with (ref_share_control 1 (da_body r)).
    unfold ref_share_control. rewrite !nlen_app, !nlen_le16, nlen_da_body. lia.
  - cbn [global_read st sess]. exact Hrd.
Qed.

Lemma fstep_sync sh r :
  fstep (sess SSynchronize sh) (ref_io_frame srv (ref_synchronize srv r)) (sess SControlCooperate sh) [].
Proof.
  apply (fstep_of _ _ _ []); [reflexivity|unfold ref_synchronize, ref_share_data, ref_share_control; nlen_lia| |constructor].
  cbn [global_read st sess].
  exact (read_sync (sess SSynchronize sh) (r_share r mod 256) ((r_share r / 256) mod 256) ((r_share r / 65536) mod 256) ((r_share r / 16777216) mod 256) (u16_lo (sv_uid srv)) (u16_hi (sv_uid srv))).
Qed.

Lemma fstep_coop sh r :
  fstep (sess SControlCooperate sh) (ref_io_frame srv (ref_control r CTRL_COOPERATE 0 0)) (sess SControlGranted sh) [].
Proof.
  apply (fstep_of _ _ _ []); [reflexivity|unfold ref_control, ref_share_data, ref_share_control; nlen_lia| |constructor].
  cbn [global_read st sess].
  exact (read_control (sess SControlCooperate sh) (r_share r mod 256) ((r_share r / 256) mod 256) ((r_share r / 65536) mod 256) ((r_share r / 16777216) mod 256) 4 (u16_lo 0) (u16_hi 0) (0 mod 256) ((0 / 256) mod 256) ((0 / 65536) mod 256) ((0 / 16777216) mod 256) SControlGranted (or_introl eq_refl)).
Qed.

Lemma fstep_granted sh r :
  fstep (sess SControlGranted sh) (ref_io_frame srv (ref_control r CTRL_GRANTED_CONTROL (sv_uid srv) SERVER_CHANNEL_ID)) (sess SFontMap sh) [].
Proof.
  apply (fstep_of _ _ _ []); [reflexivity|unfold ref_control, ref_share_data, ref_share_control; nlen_lia| |constructor].
  cbn [global_read st sess].
  exact (read_control (sess SControlGranted sh) (r_share r mod 256) ((r_share r / 256) mod 256) ((r_share r / 65536) mod 256) ((r_share r / 16777216) mod 256) 2 (u16_lo (sv_uid srv)) (u16_hi (sv_uid srv)) (SERVER_CHANNEL_ID mod 256) ((SERVER_CHANNEL_ID / 256) mod 256) ((SERVER_CHANNEL_ID / 65536) mod 256) ((SERVER_CHANNEL_ID / 16777216) mod 256) SFontMap (or_intror eq_refl)).
Qed.

Lemma fstep_fontmap sh r :
  fstep (sess SFontMap sh) (ref_io_frame srv (ref_font_map r)) (sess SData sh) [].
Proof.
  apply (fstep_of _ _ _ []); [reflexivity|unfold ref_font_map, ref_share_data, ref_share_control; nlen_lia| |constructor].
  cbn [global_read st sess].
  exact (read_fontmap (sess SFontMap sh) (r_share r mod 256) ((r_share r / 256) mod 256) ((r_share r / 65536) mod 256) ((r_share r / 16777216) mod 256)).
Qed.

Lemma fstep_deactivate sh r :
  fstep (sess SData sh) (ref_io_frame srv (ref_deactivate_all r)) (sess SDemandActive sh) [].
Proof.
  apply (fstep_of _ _ _ []); [reflexivity|unfold ref_deactivate_all, ref_share_control; nlen_lia| |constructor].
  cbn [global_read st sess].
  exact (read_deactivate (sess SData sh) (r_share r mod 256) ((r_share r / 256) mod 256) ((r_share r / 65536) mod 256) ((r_share r / 16777216) mod 256)).
Qed.

(* ---- the whole session of the reference server as a chain *)
Definition start_state (prev : option round) : session :=
  match prev with None => sess SDemandActive None | Some q => sess SData (Some (r_share q)) end.

Fixpoint session_events (prev : option round) (rs : list round) : list (list fev) :=
  match rs with
  | [] => []
  | r :: tl =>
      (match prev with Some _ => [[]] | None => [] end)
      ++ [map (fun f => wrap tls (Some f)) (fin_frames (r_share r)); []; []; []; []] ++ session_events (Some r) tl
  end.

Definition end_state (prev : option round) (rs : list round) : session :=
  match rev rs with [] => start_state prev | r :: _ => sess SData (Some (r_share r)) end.

Lemma end_state_cons prev r tl : end_state prev (r :: tl) = end_state (Some r) tl.
Proof.
  unfold end_state. cbn [rev]. destruct (rev tl) as [|x l] eqn:E; cbn [app]; reflexivity.
Qed.

Lemma session_chain : forall rs prev,
  Forall round_ok rs -> Forall (fun r => Forall (fun f => nlen f <= 65535) (fin_frames (r_share r))) rs ->
  chain (start_state prev) (session_frames srv prev rs) (session_events prev rs) (end_state prev rs).
Proof.
  induction rs as [|r tl IH]; intros prev Hok Hfin.
  - cbn [session_frames session_events]. unfold end_state. cbn [rev]. constructor.
  - inversion Hok as [|? ? Hr Hoks]; subst. inversion Hfin as [|? ? Hf Hfins]; subst.
    cbn [session_frames session_events]. rewrite end_state_cons.
    assert (Hround : forall sh0, chain (sess SDemandActive sh0) (round_frames srv r ++ session_frames srv (Some r) tl)
                       ([map (fun f => wrap tls (Some f)) (fin_frames (r_share r)); []; []; []; []] ++ session_events (Some r) tl)
                       (end_state (Some r) tl)).
    { intros sh0. unfold round_frames. cbn [app].
      econstructor; [apply fstep_demand; assumption|].
      econstructor; [apply fstep_sync|].
      econstructor; [apply fstep_coop|].
      econstructor; [apply fstep_granted|].
      econstructor; [apply fstep_fontmap|].
      apply (IH (Some r) Hoks Hfins). }
    destruct prev as [q|]; cbn [start_state app].
    + econstructor; [apply fstep_deactivate|]. apply Hround.
    + apply Hround.
Qed.
(*END-SESSION*)
End SessionPhase.

