(* C12, history level: the byte-level session model (Global.v) run on the REFERENCE encodings
   (RefSession.v) of the property's 11-letter alphabet of server messages simulates the
   reference activation automaton -- for every history, every choice of the server-side
   identifiers, both build profiles. *)
From RdpV Require Import Base Sweep Msg MsgSafe LayoutsGlobal Link Tpkt Global RefFraming RefFastPath RefInput
                         RefSession C06_proofs C12_proofs C13_proofs C10_proofs C11_proofs.
Open Scope string_scope.
Open Scope list_scope.
Open Scope N_scope.

Ltac Zify.zify_post_hook ::= Z.to_euclidean_division_equations.

(* ================================================================== the transport layers *)
Lemma be16_dec (n : N) : n < 65536 -> of_be16 (u16_hi n) (u16_lo n) = n.
Proof. apply be16_of. Qed.

Lemma per_len_read (n : N) (rest : bytes) :
  n <= RefSession.PER_MAX -> exists v, per_read_length (per_len n ++ rest) = Ok (v, rest).
Proof.
  intros Hn. unfold RefSession.PER_MAX in Hn. unfold per_len.
  destruct (N.leb_spec n 127) as [Hs|Hl].
  - cbn [app per_read_length]. rewrite land128_lo by lia. cbn [N.eqb]. eexists. reflexivity.
  - unfold be16. cbn [app per_read_length].
    assert (Hhi : u16_hi (32768 + n) = 128 + n / 256).
    { unfold u16_hi. replace (32768 + n) with (n + 128 * 256) by lia.
      rewrite N.div_add by lia. rewrite N.mod_small; [lia|].
      assert (n / 256 < 64) by (apply N.div_lt_upper_bound; lia). lia. }
    rewrite Hhi.
    assert (Hq : n / 256 < 128) by (apply N.div_lt_upper_bound; lia).
    destruct (land128_hi _ Hq) as [H1 _]. rewrite H1. cbn [N.eqb Pos.eqb]. eexists. reflexivity.
Qed.

Section Transport.
Variable p : prof.

(* x224 + mcs: a send-data-indication on the I/O channel delivers exactly its user data *)
Lemma client_read_slow (s : session) (i : ids) (ud : bytes) :
  1001 <= sv_initiator i <= 65535 -> sv_channel i = channel_id s -> channel_id s < 65536 ->
  nlen ud <= RefSession.PER_MAX ->
  client_read p s (slow_frame i ud) = global_read p s (Raw ud).
Proof.
  intros Hini Hch Hch16 Hlen. unfold RefSession.PER_MAX in Hlen.
  unfold client_read, frame_payload, slow_frame.
  set (f := Slow 0 (x224_dt (mcs_sdi i ud))).
  assert (Hpl : nlen (per_len (nlen ud)) <= 2).
  { unfold per_len. destruct (nlen ud <=? 127); cbn; lia. }
  assert (Hf : valid f).
  { unfold f. cbn [valid]. split; [lia|]. unfold x224_dt, mcs_sdi.
    rewrite !nlen_app. change (nlen [2; 240; 128]) with 3. change (nlen [104]) with 1. change (nlen [112]) with 1.
    change (nlen (be16 (sv_initiator i - 1001))) with 2. change (nlen (be16 (sv_channel i))) with 2. lia. }
  assert (Hne : no_empty [enc f]).
  { constructor; [|constructor]. unfold f. cbn [enc app]. discriminate. }
  destruct (tpkt_read_frame f [enc f] [] Hf Hne) as [cs' [Hr _]].
  { cbn [List.concat]. reflexivity. }
  unfold x224_read. rewrite Hr. unfold f. cbn [expected x224_dt app x224_strip N.eqb Pos.eqb lift].
  unfold mcs_sdi. cbn [app mcs_read].
  change (N.shiftr 104 2 =? 8) with false. change (N.shiftr 104 2 =? 26) with true. cbn [negb].
  unfold be16 at 1. cbn [app per_read_integer_16].
  rewrite be16_dec by lia.
  replace (sv_initiator i - 1001 + 1001 <? 65536) with true by (symmetry; apply N.ltb_lt; lia).
  cbn [obind]. unfold be16 at 1. cbn [app per_read_integer_16].
  rewrite be16_dec by (rewrite Hch; exact Hch16).
  rewrite N.add_0_r.
  replace (sv_channel i <? 65536) with true by (symmetry; apply N.ltb_lt; rewrite Hch; exact Hch16).
  cbn [obind]. rewrite Hch, N.eqb_refl. cbn [orb negb].
  destruct (per_len_read (nlen ud) ud Hlen) as [v Hv]. rewrite Hv. cbn [obind lift]. reflexivity.
Qed.

End Transport.

(* ================================================================== more steps of a Component read *)
Section MoreReads.
Variable p : prof.

Lemma le32_dec (n : N) : n < 4294967296 ->
  of_le32 (n mod 256) ((n / 256) mod 256) ((n / 65536) mod 256) ((n / 16777216) mod 256) = n.
Proof. intros H. unfold of_le32. lia. Qed.

Lemma read_le32 v0 v rest : v < 4294967296 -> read p (MU32 LE v0) (le32 v ++ rest) = ROk (MU32 LE v) rest 0.
Proof. intros H. unfold le32. cbn [app read]. rewrite (le32_dec v H). reflexivity. Qed.

Lemma rc_u32 name v0 tl v rest skip dyn acc a m r :
  mem name skip = false -> dyn_lookup name dyn = None -> v < 4294967296 ->
  (forall a', rok (read_comp p (read p) tl rest skip dyn ((name, MU32 LE v) :: acc) a') m r) ->
  rok (read_comp p (read p) ((name, MU32 LE v0) :: tl) (le32 v ++ rest) skip dyn acc a) m r.
Proof.
  intros Hm Hd Hv H. eapply rc_field; [exact Hm| |].
  - rewrite Hd. cbn [read_field]. rewrite (read_le32 _ _ _ Hv). apply rok_intro.
  - intros a'. cbn [options]. apply H.
Qed.

Lemma rc_u8 name v0 tl v rest skip dyn acc a m r :
  mem name skip = false -> dyn_lookup name dyn = None ->
  (forall a', rok (read_comp p (read p) tl rest skip dyn ((name, MU8 v) :: acc) a') m r) ->
  rok (read_comp p (read p) ((name, MU8 v0) :: tl) (v :: rest) skip dyn acc a) m r.
Proof.
  intros Hm Hd H. eapply rc_field; [exact Hm| |].
  - rewrite Hd. cbn [read_field read]. apply rok_intro.
  - intros a'. cbn [options]. apply H.
Qed.

(* a 16-bit length field that counts k bytes more than the field it sizes *)
Lemma rc_u16_size_minus name v0 target k tl v rest skip dyn acc a m r :
  mem name skip = false -> dyn_lookup name dyn = None -> v < 65536 ->
  (forall a', rok (read_comp p (read p) tl rest skip ((target, v - k) :: dyn)
                             ((name, MDyn (MU16 LE v) (size_minus target k)) :: acc) a') m r) ->
  rok (read_comp p (read p) ((name, MDyn (MU16 LE v0) (size_minus target k)) :: tl) (le16 v ++ rest) skip dyn acc a) m r.
Proof.
  intros Hm Hd Hv H. eapply rc_field; [exact Hm| |].
  - rewrite Hd. cbn [read_field]. unfold size_minus. rewrite (read_dyn_le16 p _ _ _ _ Hv). apply rok_intro.
  - intros a'. unfold size_minus. cbn [options eval_clo eval_cexp num_of obind]. apply H.
Qed.

(* Option<U16>: present *)
Lemma rc_opt_u16 name v0 tl v rest skip dyn acc a m r :
  mem name skip = false -> dyn_lookup name dyn = None -> v < 65536 ->
  (forall a', rok (read_comp p (read p) tl rest skip dyn ((name, MOpt (Some (MU16 LE v))) :: acc) a') m r) ->
  rok (read_comp p (read p) ((name, MOpt (Some (MU16 LE v0))) :: tl) (le16 v ++ rest) skip dyn acc a) m r.
Proof.
  intros Hm Hd Hv H. eapply rc_field; [exact Hm| |].
  - rewrite Hd. cbn [read_field]. unfold le16. cbn [app read]. rewrite (le16_dec v Hv). apply rok_intro.
  - intros a'. cbn [options]. apply H.
Qed.

(* a byte field sized by an earlier length field, in the middle of a component *)
Lemma rc_bytes_sized name (x rest : bytes) tl skip dyn acc a m r :
  mem name skip = false -> dyn_lookup name dyn = Some (nlen x) -> nlen x < 65536 ->
  (forall a', rok (read_comp p (read p) tl rest skip dyn ((name, MBytes x) :: acc) a') m r) ->
  rok (read_comp p (read p) ((name, MBytes []) :: tl) (x ++ rest) skip dyn acc a) m r.
Proof.
  intros Hm Hd Hn H. eapply rc_field; [exact Hm| |].
  - rewrite Hd. apply (read_field_sized (read p) _ x rest _ []); [exact Hn|]. rewrite read_all_bytes. apply rok_intro.
  - intros a'. cbn [options]. apply H.
Qed.

End MoreReads.

(* ================================================================== the share control header *)
Definition ctrl_msg (t src : N) (body : bytes) : msg :=
  MComp [("totalLength", MDyn (MU16 LE (nlen body + 6)) (size_minus "pduMessage" 6));
         ("pduType", MU16 LE t); ("PDUSource", MOpt (Some (MU16 LE src))); ("pduMessage", MBytes body)].

Definition sdh_msg (share stream t2 : N) (payload : bytes) : msg :=
  MComp [("shareId", MU32 LE share); ("pad1", MU8 0); ("streamId", MU8 stream);
         ("uncompressedLength", MDyn (MU16 LE (nlen payload + 18)) (size_minus "payload" 18));
         ("pduType2", MU8 t2); ("compressedType", MU8 0); ("compressedLength", MU16 LE 0);
         ("payload", MBytes payload)].

Section Headers.
Variable p : prof.

Lemma read_share_control t src body rest :
  nlen body + 6 < 65536 -> t < 65536 -> src < 65536 ->
  rok (read p share_control_header_t (le16 (nlen body + 6) ++ le16 t ++ le16 src ++ body ++ rest))
      (ctrl_msg t src body) rest.
Proof.
  intros Hn Ht Hs. unfold share_control_header_t, share_control_header, ctrl_msg, u16le. rewrite read_comp_unfold.
  apply rc_u16_size_minus; [reflexivity|reflexivity|exact Hn|intros ?].
  apply rc_u16; [reflexivity|reflexivity|exact Ht|intros ?].
  apply rc_opt_u16; [reflexivity|reflexivity|exact Hs|intros ?].
  replace (nlen body + 6 - 6) with (nlen body) by lia.
  apply rc_bytes_last; [reflexivity|reflexivity|lia|reflexivity].
Qed.

Lemma read_share_control_eof : exists e a, read p share_control_header_t [] = RErr e [] a.
Proof. eexists. eexists. reflexivity. Qed.

Lemma read_share_data share stream t2 payload :
  share < 4294967296 -> nlen payload + 18 < 65536 ->
  rok (read p share_data_header_t (le32 share ++ [0; stream] ++ le16 (nlen payload + 18) ++ [t2; 0] ++ le16 0 ++ payload))
      (sdh_msg share stream t2 payload) [].
Proof.
  intros Hs Hn. unfold share_data_header_t, share_data_header, sdh_msg, u32le, u16le. rewrite read_comp_unfold.
  apply rc_u32; [reflexivity|reflexivity|exact Hs|intros ?]. cbn [app].
  apply rc_u8; [reflexivity|reflexivity|intros ?].
  apply rc_u8; [reflexivity|reflexivity|intros ?].
  apply rc_u16_size_minus; [reflexivity|reflexivity|exact Hn|intros ?]. cbn [app].
  apply rc_u8; [reflexivity|reflexivity|intros ?].
  apply rc_u8; [reflexivity|reflexivity|intros ?].
  apply rc_u16; [reflexivity|reflexivity|lia|intros ?].
  replace (nlen payload + 18 - 18) with (nlen payload) by lia.
  rewrite <- (app_nil_r payload) at 1.
  apply rc_bytes_last; [reflexivity|reflexivity|lia|reflexivity].
Qed.

(* PDU::from_control on a header that was read *)
Lemma pdu_from_control_da src body :
  pdu_from_control p (ctrl_msg 17 src body) = obind (rd p ts_demand_active_pdu body) (fun m => Ok (17, m)).
Proof. reflexivity. Qed.
Lemma pdu_from_control_data src body :
  pdu_from_control p (ctrl_msg 23 src body) = obind (rd p share_data_header_t body) (fun m => Ok (23, m)).
Proof. reflexivity. Qed.
Lemma pdu_from_control_deact src body :
  pdu_from_control p (ctrl_msg 22 src body) = obind (rd p ts_deactivate_all_pdu body) (fun m => Ok (22, m)).
Proof. reflexivity. Qed.

End Headers.

(* ================================================================== data PDU bodies *)
Definition data_tmpl (t2 : N) : option msg :=
  if t2 =? PDUTYPE2_SYNCHRONIZE then Some (ts_synchronize_pdu 0)
  else if t2 =? PDUTYPE2_CONTROL then Some (ts_control_pdu CTRLACTION_COOPERATE)
  else if t2 =? PDUTYPE2_FONTLIST then Some ts_font_list_pdu
  else if t2 =? PDUTYPE2_FONTMAP then Some ts_font_map_pdu
  else if t2 =? PDUTYPE2_SET_ERROR_INFO then Some ts_set_error_info_pdu
  else None.

Definition sync_msg (target : N) : msg :=
  MComp [("messageType", MCheck (MU16 LE 1)); ("targetUser", MOpt (Some (MU16 LE target)))].
Definition ctl_msg (action grant control : N) : msg :=
  MComp [("action", MU16 LE action); ("grantId", MU16 LE grant); ("controlId", MU32 LE control)].
Definition fontmap_msg : msg :=
  MComp [("numberEntries", MU16 LE 0); ("totalNumEntries", MU16 LE 0); ("mapFlags", MU16 LE 3); ("entrySize", MU16 LE 4)].
Definition sei_msg (code : N) : msg := MComp [("errorInfo", MU32 LE code)].

Section Bodies.
Variable p : prof.

(* DataPDU::from_pdu on a share data header that was read *)
Lemma data_pdu_from_pdu_sdh share stream t2 payload :
  data_pdu_from_pdu p (sdh_msg share stream t2 payload) =
    if negb (pdutype2_known t2) then Err EInvalidCast else
    match data_tmpl t2 with
    | None => Err ENotImplemented
    | Some t => obind (rd p t payload) (fun m => Ok (t2, m))
    end.
Proof. reflexivity. Qed.

Lemma rd_of_rok t input m r : rok (read p t input) m r -> rd p t input = Ok m.
Proof. intros [a H]. unfold rd. rewrite H. reflexivity. Qed.

Lemma rd_sync target : target < 65536 -> rd p (ts_synchronize_pdu 0) (le16 1 ++ le16 target) = Ok (sync_msg target).
Proof.
  intros Ht. apply (rd_of_rok _ _ _ []). unfold ts_synchronize_pdu, sync_msg, u16le. rewrite read_comp_unfold.
  apply rc_check16; [reflexivity|reflexivity|lia|intros ?].
  rewrite <- (app_nil_r (le16 target)).
  apply rc_opt_u16; [reflexivity|reflexivity|exact Ht|intros ?].
  apply rc_nil; reflexivity.
Qed.

Lemma rd_control a g c :
  a < 65536 -> g < 65536 -> c < 4294967296 ->
  rd p (ts_control_pdu CTRLACTION_COOPERATE) (le16 a ++ le16 g ++ le32 c) = Ok (ctl_msg a g c).
Proof.
  intros Ha Hg Hc. apply (rd_of_rok _ _ _ []). unfold ts_control_pdu, ctl_msg, u16le, u32le. rewrite read_comp_unfold.
  apply rc_u16; [reflexivity|reflexivity|exact Ha|intros ?].
  apply rc_u16; [reflexivity|reflexivity|exact Hg|intros ?].
  rewrite <- (app_nil_r (le32 c)).
  apply rc_u32; [reflexivity|reflexivity|exact Hc|intros ?].
  apply rc_nil; reflexivity.
Qed.

Lemma rd_fontmap : rd p ts_font_map_pdu (le16 0 ++ le16 0 ++ le16 3 ++ le16 4) = Ok fontmap_msg.
Proof. reflexivity. Qed.

Lemma rd_sei code : code < 4294967296 -> rd p ts_set_error_info_pdu (le32 code) = Ok (sei_msg code).
Proof.
  intros Hc. apply (rd_of_rok _ _ _ []). unfold ts_set_error_info_pdu, sei_msg, u32le. rewrite read_comp_unfold.
  rewrite <- (app_nil_r (le32 code)).
  apply rc_u32; [reflexivity|reflexivity|exact Hc|intros ?].
  apply rc_nil; reflexivity.
Qed.

Lemma safe_data_tmpl t2 t : data_tmpl t2 = Some t -> safe t = true.
Proof.
  unfold data_tmpl.
  repeat (match goal with |- context [if ?c then _ else _] => destruct c end;
          [intros H; inversion H; subst; vm_compute; reflexivity|]).
  discriminate.
Qed.

(* a data PDU of any other type, arbitrary payload: refused or parsed as that type, never a crash *)
Lemma data_view_other share stream t2 payload :
  wf_bytes payload ->
  match data_pdu_from_pdu p (sdh_msg share stream t2 payload) with
  | Ok (t, _) => t = t2
  | Err _ => True
  | _ => False
  end.
Proof.
  intros Hwf. rewrite data_pdu_from_pdu_sdh.
  destruct (negb (pdutype2_known t2)); [exact I|].
  destruct (data_tmpl t2) as [t|] eqn:Et; [|exact I].
  destruct (rd_nocrash p t payload (safe_data_tmpl _ _ Et) Hwf) as [H1 H2].
  destruct (rd p t payload); cbn [obind]; auto.
Qed.

End Bodies.

(* ================================================================== demand active *)
Definition capset_msg (c : capset) : msg :=
  MComp [("capabilitySetType", MU16 LE (fst c));
         ("lengthCapability", MDyn (MU16 LE (nlen (snd c) + 4)) (size_minus "capabilitySet" 4));
         ("capabilitySet", MBytes (snd c))].

Definition da_msg (i : ids) (sid : N) (caps : list capset) : msg :=
  MComp [("shareId", MU32 LE sid);
         ("lengthSourceDescriptor", MDyn (MU16 LE (nlen (sv_descr i))) (size_of "sourceDescriptor"));
         ("lengthCombinedCapabilities", MDyn (MU16 LE (nlen (enc_capsets caps) + 4)) (size_minus "capabilitySets" 4));
         ("sourceDescriptor", MBytes (sv_descr i));
         ("numberCapabilities", MU16 LE (nlen caps));
         ("pad2Octets", MU16 LE 0);
         ("capabilitySets", MArray (map capset_msg caps) (Some capability_set_t));
         ("sessionId", MU32 LE (sv_session i))].

Definition deact_msg (i : ids) : msg :=
  MComp [("shareId", MU32 LE (sv_share i));
         ("lengthSourceDescriptor", MDyn (MU16 LE (nlen (sv_descr i))) (size_of "sourceDescriptor"));
         ("sourceDescriptor", MBytes (sv_descr i))].

Section DemandActive.
Variable p : prof.

Lemma read_capset c rest :
  valid_capset c -> rok (read p capability_set_t (enc_capset c ++ rest)) (capset_msg c) rest.
Proof.
  intros (Ht & _ & Hn). unfold u16 in Ht.
  unfold capability_set_t, capability_set, enc_capset, capset_msg, u16le. rewrite read_comp_unfold.
  repeat rewrite <- app_assoc.
  apply rc_u16; [reflexivity|reflexivity|exact Ht|intros ?].
  apply rc_u16_size_minus; [reflexivity|reflexivity|exact Hn|intros ?].
  replace (nlen (snd c) + 4 - 4) with (nlen (snd c)) by lia.
  apply rc_bytes_last; [reflexivity|reflexivity|lia|reflexivity].
Qed.

Lemma enc_capset_nonempty c : enc_capset c <> [].
Proof. unfold enc_capset, le16. cbn [app]. discriminate. Qed.

Lemma read_capset_eof : exists e a, read p capability_set_t [] = RErr e [] a.
Proof. eexists. eexists. reflexivity. Qed.

Lemma read_capsets caps :
  Forall valid_capset caps ->
  rok (read p (MArray [] (Some capability_set_t)) (enc_capsets caps))
      (MArray (map capset_msg caps) (Some capability_set_t)) [].
Proof.
  intros Hv. rewrite read_array_unfold. unfold enc_capsets.
  apply (read_array_concat (read p capability_set_t) (fun l => MArray ([] ++ l) (Some capability_set_t))
           enc_capset capset_msg valid_capset).
  - intros e rest He. apply read_capset. exact He.
  - intros e _. apply enc_capset_nonempty.
  - apply read_capset_eof.
  - exact Hv.
  - lia.
Qed.

Lemma nlen_enc_capset c : nlen (enc_capset c) = 4 + nlen (snd c).
Proof. unfold enc_capset. rewrite !nlen_app, !nlen_le16. lia. Qed.

Lemma capsets_count : forall caps, nlen caps <= nlen (enc_capsets caps).
Proof.
  induction caps as [|c caps IH]; [cbn; lia|].
  unfold enc_capsets in *. cbn [map List.concat]. rewrite nlen_app, nlen_cons, nlen_enc_capset. lia.
Qed.

Lemma read_demand_active_body i sid caps :
  valid_ids i -> u32 sid -> Forall valid_capset caps -> nlen (enc_capsets caps) + 4 < 65536 ->
  rok (read p ts_demand_active_pdu (demand_active_body i sid caps)) (da_msg i sid caps) [].
Proof.
  intros (_ & _ & _ & _ & _ & _ & Hdl & Hsess & _) Hsid Hcaps Hcl. unfold u16, u32 in *.
  pose proof (capsets_count caps) as Hcount.
  unfold ts_demand_active_pdu, demand_active_body, da_msg, u32le, u16le. rewrite read_comp_unfold.
  apply rc_u32; [reflexivity|reflexivity|exact Hsid|intros ?].
  unfold size_of at 1.
  apply rc_u16_size; [reflexivity|reflexivity|exact Hdl|intros ?].
  apply rc_u16_size_minus; [reflexivity|reflexivity|exact Hcl|intros ?].
  replace (nlen (enc_capsets caps) + 4 - 4) with (nlen (enc_capsets caps)) by lia.
  apply rc_bytes_sized; [reflexivity|reflexivity|exact Hdl|intros ?].
  apply rc_u16; [reflexivity|reflexivity|lia|intros ?].
  apply rc_u16; [reflexivity|reflexivity|lia|intros ?].
  eapply rc_field; [reflexivity| |intros ?].
  - change (dyn_lookup "capabilitySets" _) with (Some (nlen (enc_capsets caps))).
    apply (read_field_sized (read p) _ (enc_capsets caps) (le32 (sv_session i)) _ []); [lia|].
    apply read_capsets. exact Hcaps.
  - cbn [options].
    rewrite <- (app_nil_r (le32 (sv_session i))).
    apply rc_u32; [reflexivity|reflexivity|exact Hsess|intros ?].
    apply rc_nil; reflexivity.
Qed.

Lemma read_deactivate_body i :
  valid_ids i ->
  rok (read p ts_deactivate_all_pdu (le32 (sv_share i) ++ le16 (nlen (sv_descr i)) ++ sv_descr i)) (deact_msg i) [].
Proof.
  intros (_ & _ & _ & Hsh & _ & _ & Hdl & _). unfold u16, u32 in *.
  unfold ts_deactivate_all_pdu, deact_msg, u32le, u16le. rewrite read_comp_unfold.
  apply rc_u32; [reflexivity|reflexivity|exact Hsh|intros ?].
  unfold size_of at 1.
  apply rc_u16_size; [reflexivity|reflexivity|exact Hdl|intros ?].
  rewrite <- (app_nil_r (sv_descr i)) at 1.
  apply rc_bytes_last; [reflexivity|reflexivity|exact Hdl|reflexivity].
Qed.

(* Capability::from_capability_set never crashes on a set that was read, whatever its type and body *)
Lemma capability_from_set_msg c :
  valid_capset c -> nocrash (capability_from_set p (capset_msg c)).
Proof.
  intros (_ & Hwf & _). unfold capability_from_set, capset_msg.
  change (cast_num 16 (get _ "capabilitySetType")) with (@Ok N (fst c)). cbn [obind].
  destruct (negb (capset_type_known (fst c))); auto.
  destruct (capability_template (fst c)) as [tm|] eqn:Et; auto.
  change (cast_bytes (get _ "capabilitySet")) with (@Ok bytes (snd c)). cbn [obind].
  destruct (rd_nocrash p tm (snd c) (safe_capability_templates _ _ Et) Hwf) as [H1 H2].
  destruct (rd p tm (snd c)); cbn [obind]; auto; congruence.
Qed.

Lemma caps_crash_msgs caps : Forall valid_capset caps -> caps_crash p (map capset_msg caps) = Ok tt.
Proof.
  induction 1 as [|c caps Hc _ IH]; [reflexivity|]. cbn [map caps_crash].
  destruct (capability_from_set_msg c Hc) as [H1 H2].
  destruct (capability_from_set p (capset_msg c)); auto; congruence.
Qed.

End DemandActive.

(* ================================================================== what the client's parser makes of a slow-path letter *)
Inductive kind :=
| KDemand (sid : N) (caps : list capset)
| KDeact
| KData (t2 : N) (payload : bytes).

Definition kind_of (i : ids) (m : smsg) : option kind :=
  match m with
  | DemandActive sid caps => Some (KDemand sid caps)
  | DeactivateAll => Some KDeact
  | Synchronize => Some (KData 31 (le16 1 ++ le16 (sv_target i)))
  | ControlCooperate => Some (KData 20 (control_body i 4))
  | ControlGranted => Some (KData 20 (control_body i 2))
  | ControlOther a => Some (KData 20 (control_body i a))
  | FontMap => Some (KData 40 (le16 0 ++ le16 0 ++ le16 3 ++ le16 4))
  | SetErrorInfo code => Some (KData 47 (le32 code))
  | UnknownData t body => Some (KData t body)
  | FpBitmap _ | FpOther _ _ => None
  end.

Definition kind_type (k : kind) : N := match k with KDemand _ _ => 17 | KDeact => 22 | KData _ _ => 23 end.
Definition kind_body (i : ids) (k : kind) : bytes :=
  match k with
  | KDemand sid caps => demand_active_body i sid caps
  | KDeact => le32 (sv_share i) ++ le16 (nlen (sv_descr i)) ++ sv_descr i
  | KData t2 pl => share_data i t2 pl
  end.
Definition kind_msg (i : ids) (k : kind) : msg :=
  match k with
  | KDemand sid caps => da_msg i sid caps
  | KDeact => deact_msg i
  | KData t2 pl => sdh_msg (sv_share i) (sv_stream i) t2 pl
  end.

Lemma user_data_kind i m :
  user_data i m = match kind_of i m with Some k => Some (share_control i (kind_type k) (kind_body i k)) | None => None end.
Proof. destruct m; reflexivity. Qed.

Lemma nlen_share_control i t body : nlen (share_control i t body) = nlen body + 6.
Proof. unfold share_control. rewrite !nlen_app, !nlen_le16. lia. Qed.

Lemma nlen_share_data i t2 pl : nlen (share_data i t2 pl) = nlen pl + 12.
Proof.
  unfold share_data. rewrite !nlen_app, !nlen_le16. change (nlen (le32 (sv_share i))) with 4.
  change (nlen [0; sv_stream i]) with 2. change (nlen [t2; 0]) with 2. lia.
Qed.

(* the letter is in its class and fits its frame *)
Definition kind_ok (i : ids) (k : kind) : Prop :=
  nlen (kind_body i k) + 6 <= RefSession.PER_MAX /\
  match k with
  | KDemand sid caps => u32 sid /\ Forall valid_capset caps
  | _ => True
  end.

Lemma valid_kind i m k : valid_smsg i m -> kind_of i m = Some k -> kind_ok i k.
Proof.
  intros [Hc Hl] Hk. rewrite user_data_kind, Hk in Hl. rewrite nlen_share_control in Hl.
  split; [exact Hl|]. destruct m; inversion Hk; subst; auto.
Qed.

Section Parse.
Variable p : prof.

Lemma body_parses i k :
  valid_ids i -> kind_ok i k ->
  rd p (match k with KDemand _ _ => ts_demand_active_pdu | KDeact => ts_deactivate_all_pdu | KData _ _ => share_data_header_t end)
     (kind_body i k) = Ok (kind_msg i k).
Proof.
  intros Hi [Hl Hk]. unfold RefSession.PER_MAX in Hl. destruct k as [sid caps| |t2 pl]; cbn [kind_body kind_msg] in *.
  - destruct Hk as [Hsid Hcaps]. apply (rd_of_rok p _ _ _ []). apply read_demand_active_body; auto.
    unfold demand_active_body in Hl. rewrite !nlen_app in Hl. lia.
  - apply (rd_of_rok p _ _ _ []). apply read_deactivate_body. exact Hi.
  - apply (rd_of_rok p _ _ _ []). rewrite nlen_share_data in Hl.
    apply read_share_data; [apply Hi|lia].
Qed.

Lemma pdu_from_control_kind i k :
  valid_ids i -> kind_ok i k ->
  pdu_from_control p (ctrl_msg (kind_type k) (sv_source i) (kind_body i k)) = Ok (kind_type k, kind_msg i k).
Proof.
  intros Hi Hk. pose proof (body_parses i k Hi Hk) as Hb.
  destruct k; cbn [kind_type]; [rewrite pdu_from_control_da|rewrite pdu_from_control_deact|rewrite pdu_from_control_data];
    rewrite Hb; reflexivity.
Qed.

(* PDU::from_stream on the user data of a slow-path letter *)
Lemma pdu_from_stream_kind i k :
  valid_ids i -> kind_ok i k ->
  pdu_from_stream p (share_control i (kind_type k) (kind_body i k)) = Ok (kind_type k, kind_msg i k).
Proof.
  intros Hi Hk. pose proof Hk as [Hl _]. unfold RefSession.PER_MAX in Hl.
  unfold pdu_from_stream, share_control.
  assert (Hs : u16 (sv_source i)) by apply Hi. unfold u16 in Hs.
  rewrite <- (app_nil_r (kind_body i k)) at 2.
  assert (H1 : nlen (kind_body i k) + 6 < 65536) by lia.
  assert (H2 : kind_type k < 65536) by (destruct k; cbn; lia).
  rewrite (rd_of_rok p _ _ _ _ (read_share_control p (kind_type k) (sv_source i) (kind_body i k) [] H1 H2 Hs)).
  cbn [obind]. apply pdu_from_control_kind; assumption.
Qed.

(* the Array of share control PDUs the Data state reads from one frame: exactly this one *)
Lemma rd_array_kind i k :
  valid_ids i -> kind_ok i k ->
  rd p (MArray [] (Some share_control_header_t)) (share_control i (kind_type k) (kind_body i k))
  = Ok (MArray [ctrl_msg (kind_type k) (sv_source i) (kind_body i k)] (Some share_control_header_t)).
Proof.
  intros Hi [Hl _]. unfold RefSession.PER_MAX in Hl.
  assert (Hs : u16 (sv_source i)) by apply Hi. unfold u16 in Hs.
  apply (rd_of_rok p _ _ _ []). rewrite read_array_unfold.
  pose proof (read_array_concat (read p share_control_header_t) (fun l => MArray ([] ++ l) (Some share_control_header_t))
                (fun tb : N * bytes => share_control i (fst tb) (snd tb))
                (fun tb => ctrl_msg (fst tb) (sv_source i) (snd tb))
                (fun tb => fst tb < 65536 /\ nlen (snd tb) + 6 < 65536)) as H.
  specialize (H (fun e rest He => ltac:(unfold share_control; repeat rewrite <- app_assoc;
                                        apply read_share_control; [apply He|apply He|exact Hs]))
                (fun e _ => ltac:(unfold share_control, le16; cbn [app]; discriminate))
                (read_share_control_eof p) [(kind_type k, kind_body i k)]).
  cbn [map List.concat fst snd] in H. rewrite app_nil_r in H. apply H.
  - constructor; [|constructor]. split; cbn [fst snd]; [destruct k; cbn; lia|lia].
  - lia.
Qed.

End Parse.

(* ================================================================== one letter, one state *)
Definition abs (g : gstate) : rstate :=
  match g with
  | SDemandActive => WaitDemandActive | SSynchronize => WaitSynchronize | SControlCooperate => WaitCooperate
  | SControlGranted => WaitGranted | SFontMap => WaitFontMap | SData => Active
  end.
Definition conc (q : rstate) : gstate :=
  match q with
  | WaitDemandActive => SDemandActive | WaitSynchronize => SSynchronize | WaitCooperate => SControlCooperate
  | WaitGranted => SControlGranted | WaitFontMap => SFontMap | Active => SData
  end.
Lemma conc_abs g : conc (abs g) = g. Proof. destruct g; reflexivity. Qed.
Lemma abs_conc q : abs (conc q) = q. Proof. destruct q; reflexivity. Qed.

Lemma set_state_same s : set_state s (st s) = s.
Proof. destruct s; reflexivity. Qed.

(* the five frames the client writes to answer a demand-active carrying share id [sid] *)
Definition client_finalization (p : prof) (s : session) (sid : N) : list bytes :=
  match write_confirm_active p (set_share s (Some sid)), write_client_finalize p (set_share s (Some sid)) with
  | Ok f0, Ok fs => f0 :: fs
  | _, _ => []
  end.

(* nothing happened (the result may be Ok or an error, never a crash) *)
Definition quiet (s : session) (r : step_result) : Prop :=
  r_session r = s /\ r_wire r = [] /\ r_events r = [] /\ nocrash (r_out r).

Lemma quiet_done s (o : outcome unit) : nocrash o -> quiet s (done s o).
Proof. intros H. repeat split; auto; apply H. Qed.

Section States.
Variable p : prof.

Definition dview (i : ids) (t2 : N) (pl : bytes) : outcome (N * msg) :=
  data_pdu_from_pdu p (sdh_msg (sv_share i) (sv_stream i) t2 pl).

Lemma dview_letter i m t2 pl :
  valid_ids i -> valid_smsg i m -> kind_of i m = Some (KData t2 pl) ->
  match m with
  | Synchronize => dview i t2 pl = Ok (31, sync_msg (sv_target i))
  | ControlCooperate => dview i t2 pl = Ok (20, ctl_msg 4 (sv_grant i) (sv_control i))
  | ControlGranted => dview i t2 pl = Ok (20, ctl_msg 2 (sv_grant i) (sv_control i))
  | ControlOther a => dview i t2 pl = Ok (20, ctl_msg a (sv_grant i) (sv_control i))
  | FontMap => dview i t2 pl = Ok (40, fontmap_msg)
  | SetErrorInfo code => dview i t2 pl = Ok (47, sei_msg code)
  | UnknownData t _ => t2 = t /\ match dview i t2 pl with Ok (t', _) => t' = t | Err _ => True | _ => False end
  | _ => False
  end.
Proof.
  intros (_ & _ & _ & _ & _ & _ & _ & _ & Htg & Hg & Hc & _) [Hm _] Hk. unfold u16, u32 in *.
  unfold dview. destruct m; try discriminate Hk;
    (assert (Hk' : forall A (f : N -> bytes -> A), f t2 pl = match kind_of i _ with Some (KData a b) => f a b | _ => f t2 pl end)
       by (intros A f; rewrite Hk; reflexivity));
    unfold kind_of in Hk'; rewrite (Hk' _ (fun a b => data_pdu_from_pdu p (sdh_msg (sv_share i) (sv_stream i) a b)));
    try (rewrite (Hk' _ (fun a b => a))); clear Hk Hk';
    rewrite data_pdu_from_pdu_sdh.
  - change (negb (pdutype2_known 31)) with false. change (data_tmpl 31) with (Some (ts_synchronize_pdu 0)). cbv iota.
    rewrite rd_sync by exact Htg. reflexivity.
  - change (negb (pdutype2_known 20)) with false. change (data_tmpl 20) with (Some (ts_control_pdu CTRLACTION_COOPERATE)).
    cbv iota. unfold control_body. rewrite rd_control by (try assumption; lia). reflexivity.
  - change (negb (pdutype2_known 20)) with false. change (data_tmpl 20) with (Some (ts_control_pdu CTRLACTION_COOPERATE)).
    cbv iota. unfold control_body. rewrite rd_control by (try assumption; lia). reflexivity.
  - destruct Hm as [Ha _]. unfold u16 in Ha.
    change (negb (pdutype2_known 20)) with false. change (data_tmpl 20) with (Some (ts_control_pdu CTRLACTION_COOPERATE)).
    cbv iota. unfold control_body. rewrite rd_control by assumption. reflexivity.
  - change (negb (pdutype2_known 40)) with false. change (data_tmpl 40) with (Some ts_font_map_pdu). cbv iota.
    rewrite rd_fontmap. reflexivity.
  - unfold u32 in Hm.
    change (negb (pdutype2_known 47)) with false. change (data_tmpl 47) with (Some ts_set_error_info_pdu). cbv iota.
    rewrite rd_sei by exact Hm. reflexivity.
  - split; [reflexivity|]. rewrite <- (data_pdu_from_pdu_sdh p (sv_share i) (sv_stream i)). apply data_view_other. apply Hm.
Qed.

Variable s : session.
Variable i : ids.
Hypothesis Hi : valid_ids i.

Let ud (k : kind) : bytes := share_control i (kind_type k) (kind_body i k).

(* ---- awaiting the demand-active ---- *)
Lemma step_demand k :
  kind_ok i k ->
  read_demand_active p s (ud k) =
  match k with
  | KDemand sid _ => mkStep (set_state (set_share s (Some sid)) SSynchronize) (Ok tt) (client_finalization p s sid) []
  | _ => done s (Ok tt)
  end.
Proof.
  intros Hk. unfold read_demand_active, ud. rewrite (pdu_from_stream_kind p i k Hi Hk). cbn [lift].
  destruct k as [sid caps| |t2 pl]; cbn [kind_type]; try reflexivity.
  change (negb (17 =? PDUTYPE_DEMANDACTIVE)) with false. cbv iota.
  destruct Hk as [_ [Hsid Hcaps]].
  change (get (kind_msg i (KDemand sid caps)) "capabilitySets")
    with (Some (MArray (map capset_msg caps) (Some capability_set_t))).
  cbn [trame_of lift]. rewrite (caps_crash_msgs p caps Hcaps). cbn [lift].
  change (cast_num 32 (get (kind_msg i (KDemand sid caps)) "shareId")) with (@Ok N sid). cbn [lift].
  unfold client_finalization.
  destruct (write_confirm_active_ok p (set_share s (Some sid))) as [f0 ->].
  destruct (write_client_finalize_ok p (set_share s (Some sid))) as [fs ->]. reflexivity.
Qed.

(* ---- the four states that expect one data PDU ---- *)
Lemma step_wait k want act next :
  kind_ok i k ->
  read_expect_data p s (ud k) want act next =
  match k with
  | KData t2 pl =>
      lift s (dview i t2 pl) (fun '(t2', d) =>
        if negb (t2' =? want) then done s (Ok tt) else
        match act with
        | None => done (set_state s next) (Ok tt)
        | Some a => lift s (cast_num 16 (get d "action")) (fun act' =>
                      if act' =? a then done (set_state s next) (Ok tt) else done s (Err EUnexpectedType))
        end)
  | _ => done s (Ok tt)
  end.
Proof.
  intros Hk. unfold read_expect_data, ud. rewrite (pdu_from_stream_kind p i k Hi Hk). cbn [lift].
  destruct k; reflexivity.
Qed.

(* ---- inside the window, slow path ---- *)
Lemma step_data k :
  kind_ok i k ->
  read_data_pdu p s (ud k) =
  match k with
  | KDemand _ _ => done s (Ok tt)
  | KDeact => done (set_state s SDemandActive) (Ok tt)
  | KData t2 pl =>
      match dview i t2 pl with
      | Ok (t2', d) =>
          if t2' =? PDUTYPE2_SET_ERROR_INFO then
            match cast_num 32 (get d "errorInfo") with
            | Ok _ => done s (Ok tt)
            | Err e => done s (Err e) | Panic => done s Panic | Spin => done s Spin
            end
          else done s (Ok tt)
      | Err _ => done s (Ok tt)
      | Panic => done s Panic
      | Spin => done s Spin
      end
  end.
Proof.
  intros Hk. unfold read_data_pdu, ud. rewrite (rd_array_kind p i k Hi Hk). cbn [lift trame_of data_pdus].
  rewrite (pdu_from_control_kind p i k Hi Hk).
  destruct k as [sid caps| |t2 pl]; cbn [kind_type]; try reflexivity.
  change (23 =? PDUTYPE_DEACTIVATEALL) with false. change (negb (23 =? PDUTYPE_DATA)) with false. cbv iota.
  cbn [kind_msg]. unfold dview.
  destruct (data_pdu_from_pdu p (sdh_msg (sv_share i) (sv_stream i) t2 pl)) as [[t2' d]|e| |]; try reflexivity.
  destruct (t2' =? PDUTYPE2_SET_ERROR_INFO); [|reflexivity].
  destruct (cast_num 32 (get d "errorInfo")); reflexivity.
Qed.

End States.

(* ================================================================== one read of one letter *)
(* the server's choices the client depends on: the indication must be on the channel the client joined *)
Definition ids_fit (s : session) (i : ids) : Prop := valid_ids i /\ sv_channel i = channel_id s.

Definition next_session (s : session) (m : smsg) : session :=
  match st s, m with
  | SDemandActive, DemandActive sid _ => set_state (set_share s (Some sid)) SSynchronize
  | _, _ => set_state s (conc (ref_step (abs (st s)) m))
  end.

Definition step_wire (p : prof) (s : session) (m : smsg) : list bytes :=
  match st s, m with
  | SDemandActive, DemandActive sid _ => client_finalization p s sid
  | _, _ => []
  end.

Definition step_events (s : session) (m : smsg) : list bitmap_event :=
  match st s with SData => expected_events (fp_updates_of m) | _ => [] end.

Definition step_spec (p : prof) (s : session) (m : smsg) (r : step_result) : Prop :=
  r_session r = next_session s m /\ r_wire r = step_wire p s m /\ r_events r = step_events s m /\ nocrash (r_out r).

Lemma slow_no_events s i m k : kind_of i m = Some k -> step_events s m = [].
Proof. intros Hk. unfold step_events. destruct (st s); auto. destruct m; try discriminate Hk; reflexivity. Qed.

Lemma spec_quiet p s i m k o :
  kind_of i m = Some k -> nocrash o -> ref_step (abs (st s)) m = abs (st s) -> step_spec p s m (done s o).
Proof.
  intros Hk Ho Hq. unfold step_spec. cbn [done r_session r_wire r_events r_out].
  rewrite (slow_no_events s i m k Hk). repeat split; try apply Ho.
  - unfold next_session. rewrite Hq, conc_abs, set_state_same.
    destruct (st s) eqn:Hst; auto. destruct m; auto. cbn in Hq. discriminate.
  - unfold step_wire. destruct (st s) eqn:Hst; auto. destruct m; auto. cbn in Hq. discriminate.
Qed.

Lemma spec_advance p s i m k g o :
  kind_of i m = Some k -> nocrash o -> st s <> SDemandActive -> conc (ref_step (abs (st s)) m) = g ->
  step_spec p s m (done (set_state s g) o).
Proof.
  intros Hk Ho Hst Hg. unfold step_spec. cbn [done r_session r_wire r_events r_out].
  rewrite (slow_no_events s i m k Hk). repeat split; try apply Ho.
  - unfold next_session. rewrite Hg. destruct (st s); auto. congruence.
  - unfold step_wire. destruct (st s); auto. congruence.
Qed.

Lemma nocrash_unit_ok : nocrash (Ok tt). Proof. split; discriminate. Qed.
Lemma nocrash_unit_err e : nocrash (@Err unit e). Proof. split; discriminate. Qed.
#[local] Hint Resolve nocrash_unit_ok nocrash_unit_err : core.

Section Letter.
Variable p : prof.

(* a waiting state and a data letter that is not the one it waits for *)
Lemma wait_other s i m t2 pl want act next :
  valid_ids i -> valid_smsg i m -> kind_of i m = Some (KData t2 pl) ->
  ref_step (abs (st s)) m = abs (st s) ->
  (* the letter is not a [want] PDU carrying the wanted action *)
  match m with
  | Synchronize => want <> 31
  | ControlCooperate => want <> 20 \/ act = Some 2
  | ControlGranted => want <> 20 \/ act = Some 4
  | ControlOther _ => want <> 20 \/ act = Some 2 \/ act = Some 4
  | FontMap => want <> 40
  | SetErrorInfo _ => want <> 47
  | UnknownData t _ => want <> t
  | _ => True
  end ->
  step_spec p s m
    (lift s (dview p i t2 pl) (fun '(t2', d) =>
        if negb (t2' =? want) then done s (Ok tt) else
        match act with
        | None => done (set_state s next) (Ok tt)
        | Some a => lift s (cast_num 16 (get d "action")) (fun act' =>
                      if act' =? a then done (set_state s next) (Ok tt) else done s (Err EUnexpectedType))
        end)).
Proof.
  intros Hi Hm Hk Hq Hw. pose proof (dview_letter p i m t2 pl Hi Hm Hk) as Hd.
  assert (Hne : forall x, x <> want -> negb (x =? want) = true).
  { intros x Hx. apply negb_true_iff. apply N.eqb_neq. exact Hx. }
  assert (Q : forall o, nocrash o -> step_spec p s m (done s o)) by (intros o Ho; eapply spec_quiet; eauto).
  destruct m; try contradiction; try discriminate Hk.
  - rewrite Hd. cbn [lift]. rewrite Hne by congruence. auto.
  - rewrite Hd. cbn [lift]. destruct Hw as [Hw| ->]; [rewrite Hne by congruence; auto|].
    destruct (negb (20 =? want)); auto.
    change (cast_num 16 (get (ctl_msg 4 (sv_grant i) (sv_control i)) "action")) with (@Ok N 4). cbn [lift].
    change (4 =? 2) with false. cbv iota. auto.
  - rewrite Hd. cbn [lift]. destruct Hw as [Hw| ->]; [rewrite Hne by congruence; auto|].
    destruct (negb (20 =? want)); auto.
    change (cast_num 16 (get (ctl_msg 2 (sv_grant i) (sv_control i)) "action")) with (@Ok N 2). cbn [lift].
    change (2 =? 4) with false. cbv iota. auto.
  - rewrite Hd. cbn [lift]. destruct Hm as [[_ [Ha4 Ha2]] _].
    destruct Hw as [Hw|Hw]; [rewrite Hne by congruence; auto|].
    destruct (negb (20 =? want)); auto.
    change (cast_num 16 (get (ctl_msg action (sv_grant i) (sv_control i)) "action")) with (@Ok N action).
    destruct Hw as [-> | ->]; cbn [lift].
    + destruct (N.eqb_spec action 2); [contradiction|auto].
    + destruct (N.eqb_spec action 4); [contradiction|auto].
  - rewrite Hd. cbn [lift]. rewrite Hne by congruence. auto.
  - rewrite Hd. cbn [lift]. rewrite Hne by congruence. auto.
  - destruct Hd as [-> Hd]. assert (Hpl : pl = body) by (unfold kind_of in Hk; congruence). subst pl.
    destruct (dview p i pdu_type2 body) as [[t' d]|e| |]; try contradiction; cbn [lift]; auto.
    subst t'. rewrite Hne by congruence. auto.
Qed.

(* k is the kind the letter has: substitute it without reducing its payload expression *)
Ltac unsome Hk k :=
  unfold kind_of in Hk;
  apply (f_equal (fun o => match o with Some x => x | None => k end)) in Hk; cbv beta iota in Hk; subst k.

Theorem slow_letter_step s i m k :
  ids_fit s i -> valid_smsg i m -> kind_of i m = Some k ->
  step_spec p s m (client_read p s (enc_smsg i m)).
Proof.
  intros [Hi Hch] Hm Hk. pose proof (valid_kind i m k Hm Hk) as Hok.
  assert (Hud : user_data i m = Some (share_control i (kind_type k) (kind_body i k)))
    by (rewrite user_data_kind, Hk; reflexivity).
  unfold enc_smsg. rewrite Hud.
  rewrite client_read_slow;
    [|apply Hi|exact Hch|rewrite <- Hch; apply Hi|rewrite nlen_share_control; apply Hok].
  unfold global_read.
  assert (Q : forall o, nocrash o -> ref_step (abs (st s)) m = abs (st s) -> step_spec p s m (done s o))
    by (intros o Ho Hq; eapply spec_quiet; eauto).
  destruct (st s) eqn:Hst.
  - (* awaiting the demand-active *)
    rewrite (step_demand p s i Hi k Hok).
    destruct m; try discriminate Hk; unsome Hk k; try (apply Q; [auto|reflexivity]).
    unfold step_spec, next_session, step_wire, step_events. rewrite Hst. cbn [r_session r_wire r_events r_out]. auto.
  - (* awaiting synchronize *)
    rewrite (step_wait p s i Hi k _ _ _ Hok).
    destruct m; try discriminate Hk; unsome Hk k; try (apply Q; [auto|reflexivity]);
      try (eapply (wait_other s i _ _ _ PDUTYPE2_SYNCHRONIZE None SControlCooperate); eauto; rewrite ?Hst; cbn; try congruence; auto; fail).
    + (* synchronize *)
      pose proof (dview_letter p i Synchronize _ _ Hi Hm eq_refl) as Hd. cbv beta iota in Hd. rewrite Hd. cbn [lift].
      change (negb (31 =? PDUTYPE2_SYNCHRONIZE)) with false. cbv iota.
      eapply (spec_advance p s i); [reflexivity|auto|rewrite Hst; discriminate|rewrite Hst; reflexivity].
    + pose proof Hm as [(_ & H1 & _) _]. eapply (wait_other s i _ _ _ PDUTYPE2_SYNCHRONIZE None SControlCooperate); eauto; try (rewrite Hst; reflexivity);
      unfold T2_SYNCHRONIZE in H1; cbv; congruence.
  - (* awaiting cooperate *)
    rewrite (step_wait p s i Hi k _ _ _ Hok).
    destruct m; try discriminate Hk; unsome Hk k; try (apply Q; [auto|reflexivity]);
      try (eapply (wait_other s i _ _ _ PDUTYPE2_CONTROL (Some CTRLACTION_COOPERATE) SControlGranted); eauto; rewrite ?Hst; cbn; try congruence; auto; fail).
    + pose proof (dview_letter p i ControlCooperate _ _ Hi Hm eq_refl) as Hd. cbv beta iota in Hd. rewrite Hd. cbn [lift].
      change (negb (20 =? PDUTYPE2_CONTROL)) with false. cbv iota.
      change (cast_num 16 (get (ctl_msg 4 (sv_grant i) (sv_control i)) "action")) with (@Ok N 4). cbn [lift].
      change (4 =? CTRLACTION_COOPERATE) with true. cbv iota.
      eapply (spec_advance p s i); [reflexivity|auto|rewrite Hst; discriminate|rewrite Hst; reflexivity].
    + pose proof Hm as [(_ & _ & H1 & _) _]. eapply (wait_other s i _ _ _ PDUTYPE2_CONTROL (Some CTRLACTION_COOPERATE) SControlGranted); eauto; try (rewrite Hst; reflexivity);
      unfold T2_CONTROL in H1; cbv; congruence.
  - (* awaiting granted-control *)
    rewrite (step_wait p s i Hi k _ _ _ Hok).
    destruct m; try discriminate Hk; unsome Hk k; try (apply Q; [auto|reflexivity]);
      try (eapply (wait_other s i _ _ _ PDUTYPE2_CONTROL (Some CTRLACTION_GRANTED_CONTROL) SFontMap); eauto; rewrite ?Hst; cbn; try congruence; auto; fail).
    + pose proof (dview_letter p i ControlGranted _ _ Hi Hm eq_refl) as Hd. cbv beta iota in Hd. rewrite Hd. cbn [lift].
      change (negb (20 =? PDUTYPE2_CONTROL)) with false. cbv iota.
      change (cast_num 16 (get (ctl_msg 2 (sv_grant i) (sv_control i)) "action")) with (@Ok N 2). cbn [lift].
      change (2 =? CTRLACTION_GRANTED_CONTROL) with true. cbv iota.
      eapply (spec_advance p s i); [reflexivity|auto|rewrite Hst; discriminate|rewrite Hst; reflexivity].
    + pose proof Hm as [(_ & _ & H1 & _) _]. eapply (wait_other s i _ _ _ PDUTYPE2_CONTROL (Some CTRLACTION_GRANTED_CONTROL) SFontMap); eauto; try (rewrite Hst; reflexivity);
      unfold T2_CONTROL in H1; cbv; congruence.
  - (* awaiting the font map *)
    rewrite (step_wait p s i Hi k _ _ _ Hok).
    destruct m; try discriminate Hk; unsome Hk k; try (apply Q; [auto|reflexivity]);
      try (eapply (wait_other s i _ _ _ PDUTYPE2_FONTMAP None SData); eauto; rewrite ?Hst; cbn; try congruence; auto; fail).
    + pose proof (dview_letter p i FontMap _ _ Hi Hm eq_refl) as Hd. cbv beta iota in Hd. rewrite Hd. cbn [lift].
      change (negb (40 =? PDUTYPE2_FONTMAP)) with false. cbv iota.
      eapply (spec_advance p s i); [reflexivity|auto|rewrite Hst; discriminate|rewrite Hst; reflexivity].
    + pose proof Hm as [(_ & _ & _ & H1 & _) _]. eapply (wait_other s i _ _ _ PDUTYPE2_FONTMAP None SData); eauto; try (rewrite Hst; reflexivity);
      unfold T2_FONTMAP in H1; cbv; congruence.
  - (* inside the window *)
    rewrite (step_data p s i Hi k Hok).
    destruct m; try discriminate Hk; unsome Hk k.
    + apply Q; [auto|reflexivity].
    + pose proof (dview_letter p i Synchronize _ _ Hi Hm eq_refl) as Hd. cbv beta iota in Hd. rewrite Hd.
      apply Q; [auto|reflexivity].
    + pose proof (dview_letter p i ControlCooperate _ _ Hi Hm eq_refl) as Hd. cbv beta iota in Hd. rewrite Hd.
      apply Q; [auto|reflexivity].
    + pose proof (dview_letter p i ControlGranted _ _ Hi Hm eq_refl) as Hd. cbv beta iota in Hd. rewrite Hd.
      apply Q; [auto|reflexivity].
    + pose proof (dview_letter p i (ControlOther action) _ _ Hi Hm eq_refl) as Hd. cbv beta iota in Hd. rewrite Hd.
      apply Q; [auto|reflexivity].
    + pose proof (dview_letter p i FontMap _ _ Hi Hm eq_refl) as Hd. cbv beta iota in Hd. rewrite Hd.
      apply Q; [auto|reflexivity].
    + pose proof (dview_letter p i (SetErrorInfo code) _ _ Hi Hm eq_refl) as Hd. cbv beta iota in Hd. rewrite Hd.
      apply Q; [auto|reflexivity].
    + pose proof (dview_letter p i (UnknownData pdu_type2 body) _ _ Hi Hm eq_refl) as Hd. cbv beta iota in Hd.
      destruct Hd as [_ Hd]. destruct Hm as [(_ & _ & _ & _ & H1 & _) _].
      destruct (dview p i pdu_type2 body) as [[t' d]|e| |]; try contradiction;
        try (apply Q; [auto|reflexivity]).
      subst t'. destruct (N.eqb_spec pdu_type2 PDUTYPE2_SET_ERROR_INFO) as [E|_]; [contradiction|].
      apply Q; [auto|reflexivity].
    + eapply (spec_advance p s i); [reflexivity|auto|rewrite Hst; discriminate|rewrite Hst; reflexivity].
Qed.

End Letter.

Section LetterAll.
Variable p : prof.

Lemma fp_letter_step s i m :
  ids_fit s i -> valid_smsg i m -> kind_of i m = None ->
  step_spec p s m (client_read p s (enc_smsg i m)).
Proof.
  intros _ [_ Hv] Hk.
  assert (Hud : user_data i m = None) by (destruct m; try discriminate Hk; reflexivity).
  rewrite Hud in Hv. unfold enc_smsg. rewrite Hud.
  assert (Hq : ref_step (abs (st s)) m = abs (st s)) by (destruct m; try discriminate Hk; destruct (st s); reflexivity).
  assert (Hn : next_session s m = s).
  { unfold next_session. rewrite Hq, conc_abs, set_state_same. destruct (st s); auto. destruct m; try discriminate Hk; auto. }
  assert (Hw : step_wire p s m = []).
  { unfold step_wire. destruct (st s); auto. destruct m; try discriminate Hk; auto. }
  unfold step_spec. rewrite Hn, Hw. unfold step_events.
  destruct (st s) eqn:Hst;
    try (rewrite (fp_outside_window p s _ _ _ ltac:(rewrite Hst; discriminate) Hv); cbn; auto).
  rewrite (client_read_fp p s _ _ _ Hst Hv). cbn. auto.
Qed.

(* ONE READ OF ONE LETTER, any state: the session moves exactly as the reference automaton does, the
   wire carries exactly one finalization iff the letter is a demand-active received while awaiting
   activation, bitmap events are exactly the letter's rectangles iff inside the window, no crash *)
Theorem letter_step s i m :
  ids_fit s i -> valid_smsg i m -> step_spec p s m (client_read p s (enc_smsg i m)).
Proof.
  intros Hi Hm. destruct (kind_of i m) as [k|] eqn:Hk.
  - eapply slow_letter_step; eauto.
  - apply fp_letter_step; auto.
Qed.

End LetterAll.

(* ================================================================== histories *)
(* one step of a history: the server sends a letter (with any identifiers it likes), or the
   application offers an input event through the strict / the lenient write *)
Inductive hop :=
| HRecv (i : ids) (m : smsg)
| HInput (e : input_ev)
| HTryInput (e : input_ev).

Definition hop_op (h : hop) : op :=
  match h with
  | HRecv i m => OpRead (enc_smsg i m)
  | HInput e => OpWrite e
  | HTryInput e => OpTryWrite e
  end.

(* the server messages of a history, in order *)
Definition letters (hs : list hop) : list smsg :=
  flat_map (fun h => match h with HRecv _ m => [m] | _ => [] end) hs.

Definition hop_ok (s : session) (h : hop) : Prop :=
  match h with HRecv i m => ids_fit s i /\ valid_smsg i m | _ => True end.

Definition last_share (o : option N) (l : list N) : option N :=
  match l with [] => o | _ => Some (last l 0) end.

Lemma same_refl s : same_but_state s s.
Proof. unfold same_but_state. auto 10. Qed.

Lemma same_trans a b c : same_but_state a b -> same_but_state b c -> same_but_state a c.
Proof. unfold same_but_state. intros (?&?&?&?&?&?) (?&?&?&?&?&?). repeat split; congruence. Qed.

Lemma same_next s m : same_but_state s (next_session s m).
Proof.
  unfold next_session, same_but_state.
  destruct (st s); destruct m; cbn; auto 10.
Qed.

Lemma hop_ok_same s s' h : same_but_state s s' -> hop_ok s h -> hop_ok s' h.
Proof.
  intros (_ & Hc & _) H. destruct h; auto. destruct H as [[Hv Hch] Hm]. split; [split|]; auto. congruence.
Qed.

Lemma client_finalization_same p s s' sid :
  same_but_state s s' -> client_finalization p s' sid = client_finalization p s sid.
Proof.
  destruct s as [g1 u1 c1 w1 h1 l1 sh1 n1], s' as [g2 u2 c2 w2 h2 l2 sh2 n2].
  unfold same_but_state. cbn [user_id channel_id width height layout cname].
  intros (-> & -> & -> & -> & -> & ->). reflexivity.
Qed.

Lemma st_next s m : abs (st (next_session s m)) = ref_step (abs (st s)) m.
Proof.
  unfold next_session. destruct (st s) eqn:Hst; destruct m; cbn; rewrite ?Hst; reflexivity.
Qed.

Lemma share_next s m :
  share_id (next_session s m) = last_share (share_id s) (answers (abs (st s)) m).
Proof. unfold next_session. destruct (st s); destruct m; reflexivity. Qed.

Lemma last_app_ne {A} (a b : list A) d : b <> [] -> last (a ++ b) d = last b d.
Proof.
  intros Hb. induction a as [|x a IH]; [reflexivity|]. cbn [app last].
  destruct (a ++ b) eqn:E; [destruct a; [contradiction|discriminate]|]. exact IH.
Qed.

Lemma last_share_app o a b : last_share o (a ++ b) = last_share (last_share o a) b.
Proof.
  destruct b as [|x b]; [rewrite app_nil_r; destruct a; reflexivity|].
  unfold last_share at 1 3. destruct (a ++ x :: b) eqn:E; [destruct a; discriminate|]. rewrite <- E.
  rewrite last_app_ne by discriminate. reflexivity.
Qed.

Section Histories.
Variable p : prof.

(* what one step of a history does to the session *)
Lemma hop_session s h :
  hop_ok s h ->
  r_session (do_op p s (hop_op h)) = match h with HRecv _ m => next_session s m | _ => s end.
Proof.
  intros Hok. destruct h as [i m|e|e]; cbn [hop_op do_op].
  - destruct Hok as [Hi Hm]. apply (letter_step p s i m Hi Hm).
  - apply (client_write_gate p s e).
  - apply (client_try_write_gate p s e).
Qed.

(* SIMULATION: along every history the session state is the reference automaton's, the share id
   is that of the last answered demand-active, every other field is untouched *)
Lemma run_sim : forall hs s,
  Forall (hop_ok s) hs ->
  let s' := run p s (map hop_op hs) in
  abs (st s') = ref_run (abs (st s)) (letters hs) /\ same_but_state s s' /\
  share_id s' = last_share (share_id s) (answered_from (abs (st s)) (letters hs)).
Proof.
  induction hs as [|h hs IH]; intros s Hok; cbn [map run letters flat_map].
  - repeat split; apply same_refl.
  - inversion Hok as [|? ? Hh Hhs]; subst. rewrite (hop_session s h Hh).
    destruct h as [i m|e|e]; cbn [app].
    + assert (Hsame : same_but_state s (next_session s m)) by apply same_next.
      destruct (IH (next_session s m)) as [H1 [H2 H3]].
      { eapply Forall_impl; [|exact Hhs]. intros a. apply hop_ok_same. exact Hsame. }
      cbv zeta in *. fold (letters hs). cbn [ref_run fold_left answered_from].
      rewrite st_next in H1, H3. split; [exact H1|]. split; [eapply same_trans; eauto|].
      rewrite H3, share_next, last_share_app. reflexivity.
    + apply IH. exact Hhs.
    + apply IH. exact Hhs.
Qed.

(* the frames written in answer to letters (not the input PDUs) along a history *)
Fixpoint recv_wire (s : session) (hs : list hop) : list bytes :=
  match hs with
  | [] => []
  | h :: tl => let r := do_op p s (hop_op h) in
               match h with HRecv _ _ => r_wire r | _ => [] end ++ recv_wire (r_session r) tl
  end.

Lemma recv_wire_sim : forall hs s,
  Forall (hop_ok s) hs ->
  recv_wire s hs = flat_map (client_finalization p s) (answered_from (abs (st s)) (letters hs)).
Proof.
  induction hs as [|h hs IH]; intros s Hok; cbn [recv_wire letters flat_map]; [reflexivity|].
  inversion Hok as [|? ? Hh Hhs]; subst. rewrite (hop_session s h Hh).
  destruct h as [i m|e|e]; cbn [app].
  - destruct Hh as [Hi Hm]. destruct (letter_step p s i m Hi Hm) as [_ [Hw _]]. cbn [hop_op do_op]. rewrite Hw.
    fold (letters hs). cbn [answered_from]. rewrite flat_map_app.
    rewrite IH by (eapply Forall_impl; [|exact Hhs]; intros a; apply hop_ok_same; apply same_next).
    rewrite st_next. f_equal.
    + unfold step_wire, answers. destruct (st s); destruct m; cbn [abs flat_map]; rewrite ?app_nil_r; reflexivity.
    + apply flat_map_ext. intros sid. apply client_finalization_same. apply same_next.
  - apply IH. exact Hhs.
  - apply IH. exact Hhs.
Qed.

(* a history of letters only: all the frames on the wire *)
Lemma run_ops_reads_wire : forall (ims : list (ids * smsg)) s,
  List.concat (map r_wire (run_ops p s (map (fun im => OpRead (enc_smsg (fst im) (snd im))) ims)))
  = recv_wire s (map (fun im => HRecv (fst im) (snd im)) ims).
Proof.
  induction ims as [|[i m] ims IH]; intros s; cbn [map run_ops List.concat recv_wire]; [reflexivity|].
  cbn [hop_op fst snd]. rewrite IH. reflexivity.
Qed.

End Histories.

(* ================================================================== facts about the reference automaton itself *)
Lemma ref_run_app q a b : ref_run q (a ++ b) = ref_run (ref_run q a) b.
Proof. unfold ref_run. apply fold_left_app. Qed.

Lemma ref_state_snoc h m : ref_state (h ++ [m]) = ref_step (ref_state h) m.
Proof. unfold ref_state. rewrite ref_run_app. reflexivity. Qed.

Lemma answered_from_app : forall a q b,
  answered_from q (a ++ b) = answered_from q a ++ answered_from (ref_run q a) b.
Proof.
  induction a as [|m a IH]; intros q b; cbn [app answered_from ref_run fold_left]; [reflexivity|].
  rewrite IH, app_assoc. reflexivity.
Qed.

Lemma answered_snoc h m : answered (h ++ [m]) = answered h ++ answers (ref_state h) m.
Proof. unfold answered. rewrite answered_from_app. cbn [answered_from]. rewrite app_nil_r. reflexivity. Qed.

(* once the client has left the initial state, a demand-active has been answered *)
Lemma left_start_answered : forall h q,
  ref_run q h <> WaitDemandActive -> q <> WaitDemandActive \/ answered_from q h <> [].
Proof.
  induction h as [|m h IH]; intros q Hr; cbn [ref_run fold_left answered_from] in *; [left; exact Hr|].
  destruct (IH _ Hr) as [H|H].
  - destruct q; try (left; discriminate). destruct m; try (exfalso; apply H; reflexivity).
    right. cbn. discriminate.
  - right. intros E. apply app_eq_nil in E. destruct E as [_ E]. contradiction.
Qed.

Lemma window_answered h : window h = true -> answered h <> [].
Proof.
  unfold window, answered, ref_state. intros Hw.
  destruct (left_start_answered h WaitDemandActive) as [H|H].
  - intros E. rewrite E in Hw. discriminate.
  - contradiction.
  - exact H.
Qed.

Lemma window_state h : window h = true <-> ref_state h = Active.
Proof. unfold window. destruct (ref_state h); split; intros; congruence. Qed.

(* ================================================================== the property, over all histories *)
Section Property.
Variable p : prof.
Variable s0 : session.
Hypothesis Hstart : st s0 = SDemandActive.

Definition after (hs : list hop) : session := run p s0 (map hop_op hs).

Theorem history_state hs :
  Forall (hop_ok s0) hs -> st (after hs) = conc (ref_state (letters hs)) /\ same_but_state s0 (after hs).
Proof.
  intros Hok. destruct (run_sim p hs s0 Hok) as [H1 [H2 _]]. cbv zeta in *. rewrite Hstart in H1.
  split; [|exact H2]. unfold after. rewrite <- (conc_abs (st _)), H1. reflexivity.
Qed.

Lemma history_window hs : Forall (hop_ok s0) hs -> (st (after hs) = SData <-> window (letters hs) = true).
Proof.
  intros Hok. destruct (history_state hs Hok) as [-> _]. rewrite window_state.
  destruct (ref_state (letters hs)); cbn; split; intros; congruence.
Qed.

Lemma history_share hs :
  Forall (hop_ok s0) hs -> answered (letters hs) <> [] -> share_id (after hs) = Some (current_share (letters hs)).
Proof.
  intros Hok Hne. destruct (run_sim p hs s0 Hok) as [_ [_ H3]]. cbv zeta in *. rewrite Hstart in H3.
  unfold after. rewrite H3. unfold last_share, current_share, answered in *. cbn [abs].
  destruct (answered_from WaitDemandActive (letters hs)); [contradiction|reflexivity].
Qed.

(* one confirm-active + finalization per answered demand-active, in order, nothing else *)
Theorem history_one_finalization hs :
  Forall (hop_ok s0) hs ->
  recv_wire p s0 hs = flat_map (client_finalization p s0) (answered (letters hs)).
Proof. intros Hok. rewrite (recv_wire_sim p hs s0 Hok), Hstart. reflexivity. Qed.

Theorem history_one_finalization_reads (ims : list (ids * smsg)) :
  Forall (fun im => ids_fit s0 (fst im) /\ valid_smsg (fst im) (snd im)) ims ->
  List.concat (map r_wire (run_ops p s0 (map (fun im => OpRead (enc_smsg (fst im) (snd im))) ims)))
  = flat_map (client_finalization p s0) (answered (map snd ims)).
Proof.
  intros Hok. rewrite run_ops_reads_wire, history_one_finalization.
  - f_equal. f_equal. unfold letters. induction ims as [|[i m] ims IH]; [reflexivity|]. cbn. rewrite IH; [reflexivity|].
    inversion Hok; assumption.
  - induction Hok as [|[i m] ims H _ IH]; constructor; auto.
Qed.

(* input is accepted exactly inside the window; inside, exactly one input PDU carrying the current
   share id; outside, refused (strict write) or dropped (lenient write), nothing on the wire *)
Theorem history_input_window hs e r :
  Forall (hop_ok s0) hs -> to_ref e = Some r ->
  let s := after hs in
  is_ok (r_out (client_write p s e)) = window (letters hs) /\
  (window (letters hs) = true ->
     client_write p s e
       = mkStep s (Ok tt) [ref_input_frame (user_id s0) (channel_id s0) (current_share (letters hs)) r] [] /\
     client_try_write p s e = client_write p s e) /\
  (window (letters hs) = false ->
     client_write p s e = mkStep s (Err EInvalidAutomata) [] [] /\
     client_try_write p s e = mkStep s (Ok tt) [] []).
Proof.
  intros Hok Hr s.
  destruct (history_state hs Hok) as [_ (Hu & Hc & _)]. fold s in Hu, Hc.
  pose proof (history_window hs Hok) as Hw. fold s in Hw.
  destruct (window (letters hs)) eqn:Ew.
  - assert (Hst : st s = SData) by (apply Hw; reflexivity).
    assert (Hsh : share_of s = current_share (letters hs)).
    { unfold share_of, s. rewrite (history_share hs Hok); [reflexivity|]. apply window_answered. exact Ew. }
    rewrite (client_write_exact p s e r Hst Hr), Hu, Hc, Hsh. cbn [r_out is_ok].
    split; [reflexivity|]. split; [|discriminate]. intros _. split; [reflexivity|].
    unfold client_try_write. rewrite (client_write_exact p s e r Hst Hr), Hu, Hc, Hsh. reflexivity.
  - assert (Hst : st s <> SData) by (intros E; apply Hw in E; discriminate).
    assert (Hwr : client_write p s e = mkStep s (Err EInvalidAutomata) [] []).
    { unfold client_write, write_input_event.
      destruct e as [x y b d|c d|]; [| |discriminate Hr]; destruct (st s); try reflexivity; contradiction. }
    rewrite Hwr. cbn [r_out is_ok]. split; [reflexivity|]. split; [discriminate|]. intros _. split; [reflexivity|].
    unfold client_try_write. rewrite Hwr. reflexivity.
Qed.

Corollary history_input_frames hs e r :
  Forall (hop_ok s0) hs -> to_ref e = Some r ->
  r_wire (client_write p (after hs) e) = expected_input_frames (user_id s0) (channel_id s0) (letters hs) r /\
  r_wire (client_try_write p (after hs) e) = expected_input_frames (user_id s0) (channel_id s0) (letters hs) r /\
  r_session (client_write p (after hs) e) = after hs /\ r_session (client_try_write p (after hs) e) = after hs.
Proof.
  intros Hok Hr. destruct (history_input_window hs e r Hok Hr) as (_ & Hin & Hout). cbv zeta in *.
  unfold expected_input_frames. destruct (window (letters hs)).
  - destruct (Hin eq_refl) as [H1 H2]. rewrite H2, H1. cbn. auto.
  - destruct (Hout eq_refl) as [H1 H2]. rewrite H2, H1. cbn. auto.
Qed.

(* bitmap events: exactly the rectangles of a fast-path bitmap letter, iff inside the window *)
Theorem history_bitmaps hs i m :
  Forall (hop_ok s0) hs -> ids_fit s0 i -> valid_smsg i m ->
  r_events (client_read p (after hs) (enc_smsg i m)) = map event_of (expected_bitmaps (letters hs) m).
Proof.
  intros Hok Hi Hm.
  destruct (history_state hs Hok) as [Hs Hsame].
  assert (Hi' : ids_fit (after hs) i).
  { destruct Hi as [Hv Hch]. split; auto. destruct Hsame as (_ & Hc & _). congruence. }
  destruct (letter_step p (after hs) i m Hi' Hm) as (_ & _ & He & _). rewrite He.
  unfold step_events, expected_bitmaps. rewrite Hs. unfold window.
  destruct (ref_state (letters hs)); reflexivity.
Qed.

End Property.

(* ================================================================== advance exactly on the expected letter *)
Section Advance.
Variable p : prof.

Theorem advance_iff_expected s i m :
  ids_fit s i -> valid_smsg i m ->
  let r := client_read p s (enc_smsg i m) in
  abs (st (r_session r)) = ref_step (abs (st s)) m /\
  (ref_step (abs (st s)) m = abs (st s) -> r_session r = s /\ r_wire r = []) /\
  (st s <> SDemandActive -> r_wire r = []) /\
  nocrash (r_out r).
Proof.
  intros Hi Hm r. destruct (letter_step p s i m Hi Hm) as (Hs & Hw & _ & Ho). fold r in Hs, Hw, Ho.
  rewrite Hs, Hw. split; [apply st_next|]. split; [|split; [|exact Ho]].
  - intros Hq. unfold next_session, step_wire. rewrite Hq, conc_abs, set_state_same.
    destruct (st s); auto. destruct m; auto. cbn in Hq. discriminate.
  - intros Hne. unfold step_wire. destruct (st s); auto. contradiction.
Qed.

(* the four waiting states and the letter each one waits for *)
Definition waits_for : list (gstate * smsg * gstate) :=
  [(SSynchronize, Synchronize, SControlCooperate); (SControlCooperate, ControlCooperate, SControlGranted);
   (SControlGranted, ControlGranted, SFontMap); (SFontMap, FontMap, SData)].

Theorem waiting_states s i m g e n :
  In (g, e, n) waits_for -> st s = g -> ids_fit s i -> valid_smsg i m ->
  let r := client_read p s (enc_smsg i m) in
  r_wire r = [] /\
  (m = e -> r_session r = set_state s n) /\
  (m <> e -> r_session r = s).
Proof.
  intros Hin Hst Hi Hm r. destruct (letter_step p s i m Hi Hm) as (Hs & Hw & _). fold r in Hs, Hw.
  rewrite Hs, Hw. unfold next_session, step_wire. rewrite Hst.
  cbn [waits_for In] in Hin.
  destruct Hin as [E|[E|[E|[E|[]]]]]; injection E as <- <- <-; (split; [reflexivity|]); split.
  all: try (intros ->; reflexivity).
  all: intros Hne; rewrite <- (set_state_same s) at 2; rewrite Hst;
       destruct m; try reflexivity; congruence.
Qed.

End Advance.

(* ================================================================== bitmap events and the window *)
Section Bitmaps.
Variable p : prof.
Variable s0 : session.
Hypothesis Hstart : st s0 = SDemandActive.

Theorem bitmaps_only_in_window hs i m :
  Forall (hop_ok s0) hs -> ids_fit s0 i -> valid_smsg i m ->
  r_events (client_read p (after p s0 hs) (enc_smsg i m)) <> [] ->
  window (letters hs) = true /\ exists rects, m = FpBitmap rects /\ rects <> [].
Proof.
  intros Hok Hi Hm. rewrite (history_bitmaps p s0 Hstart hs i m Hok Hi Hm). unfold expected_bitmaps.
  destruct (window (letters hs)); [|intros H; exfalso; apply H; reflexivity].
  intros H. split; [reflexivity|].
  destruct m; try (exfalso; apply H; reflexivity).
  exists rects. split; [reflexivity|]. intros ->. apply H. reflexivity.
Qed.

Theorem bitmaps_delivered_in_window hs i rects :
  Forall (hop_ok s0) hs -> ids_fit s0 i -> valid_smsg i (FpBitmap rects) ->
  window (letters hs) = true ->
  r_events (client_read p (after p s0 hs) (enc_smsg i (FpBitmap rects))) = map event_of (map seen_of rects).
Proof.
  intros Hok Hi Hm Hw. rewrite (history_bitmaps p s0 Hstart hs i _ Hok Hi Hm). unfold expected_bitmaps. rewrite Hw.
  unfold expected_seen. cbn [fp_updates_of flat_map rects_of]. rewrite app_nil_r. reflexivity.
Qed.

End Bitmaps.
