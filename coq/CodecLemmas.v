(* Shared lemmas for the codec proofs (C08): the `safe` Hoare predicate over outcomes,
   machine arithmetic that provably does not overflow, and the buffer facts. *)
From RdpV Require Import Base Buf.

(* "does not crash, and if it returns Ok the result satisfies P" *)
Definition safe {A} (P : A -> Prop) (o : outcome A) : Prop :=
  match o with Ok a => P a | Err _ => True | Panic => False | Spin => False end.

Lemma safe_bind {A B} (Q : A -> Prop) (P : B -> Prop) (e : outcome A) (f : A -> outcome B) :
  safe Q e -> (forall a, Q a -> safe P (f a)) -> safe P (obind e f).
Proof. destruct e; cbn [safe obind]; auto. Qed.

Lemma safe_imp {A} (P Q : A -> Prop) (o : outcome A) :
  safe P o -> (forall a, P a -> Q a) -> safe Q o.
Proof. destruct o; cbn [safe]; auto. Qed.

Lemma safe_crashes {A} (P : A -> Prop) (o : outcome A) : safe P o -> crashes o = false.
Proof. destruct o; cbn [safe crashes]; intros; auto; contradiction. Qed.

Lemma safe_ok_inv {A} (P : A -> Prop) (o : outcome A) a : safe P o -> o = Ok a -> P a.
Proof. intros H ->. exact H. Qed.

(* ---- machine arithmetic *)
Lemma pow64 : 2 ^ 64 = 18446744073709551616. Proof. reflexivity. Qed.
Lemma pow32 : 2 ^ 32 = 4294967296. Proof. reflexivity. Qed.
Lemma pow16 : 2 ^ 16 = 65536. Proof. reflexivity. Qed.
Lemma pow8 : 2 ^ 8 = 256. Proof. reflexivity. Qed.
Lemma pow63 : 2 ^ 63 = 9223372036854775808. Proof. reflexivity. Qed.

Lemma add_ok p w a b : a + b < 2 ^ w -> add_w p w a b = Ok (a + b).
Proof. intros H. unfold add_w. apply N.ltb_lt in H. rewrite H. reflexivity. Qed.
Lemma sub_ok p w a b : b <= a -> sub_w p w a b = Ok (a - b).
Proof. intros H. unfold sub_w. apply N.leb_le in H. rewrite H. reflexivity. Qed.
Lemma mul_ok p w a b : a * b < 2 ^ w -> mul_w p w a b = Ok (a * b).
Proof. intros H. unfold mul_w. apply N.ltb_lt in H. rewrite H. reflexivity. Qed.

Lemma add64 p a b : a + b < 18446744073709551616 -> add_w p 64 a b = Ok (a + b).
Proof. intros H. apply add_ok. rewrite pow64. exact H. Qed.
Lemma mul64 p a b : a * b < 18446744073709551616 -> mul_w p 64 a b = Ok (a * b).
Proof. intros H. apply mul_ok. rewrite pow64. exact H. Qed.
Lemma sub64 p a b : b <= a -> sub_w p 64 a b = Ok (a - b).
Proof. apply sub_ok. Qed.
Lemma add32 p a b : a + b < 4294967296 -> add_w p 32 a b = Ok (a + b).
Proof. intros H. apply add_ok. rewrite pow32. exact H. Qed.
Lemma sub32 p a b : b <= a -> sub_w p 32 a b = Ok (a - b).
Proof. apply sub_ok. Qed.
Lemma add16 p a b : a + b < 65536 -> add_w p 16 a b = Ok (a + b).
Proof. intros H. apply add_ok. rewrite pow16. exact H. Qed.
Lemma mul16 p a b : a * b < 65536 -> mul_w p 16 a b = Ok (a * b).
Proof. intros H. apply mul_ok. rewrite pow16. exact H. Qed.
Lemma add8 p a b : a + b < 256 -> add_w p 8 a b = Ok (a + b).
Proof. intros H. apply add_ok. rewrite pow8. exact H. Qed.

(* products of two u16 values *)
Lemma mul_u16 a b : a < 65536 -> b < 65536 -> a * b <= 4294836225.
Proof.
  intros Ha Hb. change 4294836225 with (65535 * 65535).
  apply N.mul_le_mono; lia.
Qed.

Lemma mul_le_l a b c : a <= b -> a * c <= b * c.
Proof. intros. apply N.mul_le_mono_r. assumption. Qed.
Lemma mul_le_r a b c : a <= b -> c * a <= c * b.
Proof. intros. apply N.mul_le_mono_l. assumption. Qed.

(* ---- well-formed byte strings *)
Lemma wf_nil : wf_bytes []. Proof. constructor. Qed.
Lemma wf_cons_inv b r : wf_bytes (b :: r) -> b < 256 /\ wf_bytes r.
Proof. intros H. inversion H; subst. auto. Qed.

Lemma read_u8_wf inp : wf_bytes inp ->
  safe (fun '(b, r) => b < 256 /\ wf_bytes r /\ S (length r) = length inp) (read_u8 inp).
Proof.
  intros H. destruct inp as [|b r]; cbn [read_u8 safe]; [exact I|].
  apply wf_cons_inv in H. destruct H. cbn [length]. auto.
Qed.

Lemma read_u16le_wf inp : wf_bytes inp ->
  safe (fun '(v, r) => v < 65536 /\ wf_bytes r /\ S (S (length r)) = length inp) (read_u16le inp).
Proof.
  intros H. destruct inp as [|lo [|hi r]]; cbn [read_u16le safe]; try exact I.
  apply wf_cons_inv in H. destruct H as [Hlo H]. apply wf_cons_inv in H. destruct H as [Hhi H].
  cbn [length]. unfold of_le16. repeat split; auto. lia.
Qed.

(* ---- buffers *)
Lemma blen_bmake n : blen (bmake n) = n. Proof. reflexivity. Qed.
Lemma blen_bset_raw b i v : blen (bset_raw b i v) = blen b. Proof. reflexivity. Qed.
Lemma blen_of_list l : blen (of_list l) = nlen l. Proof. reflexivity. Qed.

Lemma bget_ok b i : i < blen b -> bget b i = Ok (bget_raw b i).
Proof. intros H. unfold bget, bget_raw. apply N.ltb_lt in H. rewrite H. reflexivity. Qed.
Lemma bset_ok b i v : i < blen b -> bset b i v = Ok (bset_raw b i v).
Proof. intros H. unfold bset, bset_raw. apply N.ltb_lt in H. rewrite H. reflexivity. Qed.

Lemma blen_blit n : forall dst doff src soff, blen (blit n dst doff src soff) = blen dst.
Proof. induction n as [|k IH]; intros; cbn [blit]; [reflexivity|]. rewrite IH. reflexivity. Qed.

Lemma copy_slice_ok dst a b src c d :
  a <= b -> b <= blen dst -> c <= d -> d <= blen src -> b - a = d - c ->
  exists r, copy_slice dst a b src c d = Ok r /\ blen r = blen dst.
Proof.
  intros H1 H2 H3 H4 H5. unfold copy_slice.
  apply N.leb_le in H1, H2, H3, H4. apply N.eqb_eq in H5.
  rewrite H1, H2, H3, H4, H5. cbn [andb].
  eexists. split; [reflexivity|]. apply blen_blit.
Qed.

Lemma length_to_list_down n : forall i b acc, length (to_list_down n i b acc) = (n + length acc)%nat.
Proof.
  induction n as [|k IH]; intros; cbn [to_list_down]; [reflexivity|].
  rewrite IH. cbn [length]. lia.
Qed.

Lemma nlen_to_list b : nlen (to_list b) = blen b.
Proof.
  unfold nlen, to_list. rewrite length_to_list_down. cbn [length].
  rewrite Nat.add_0_r. apply N2Nat.id.
Qed.
(* ---- store/load laws of the buffer (for C09: contents, not only lengths) *)
Lemma tget_leaf q : tget Leaf q = 0.
Proof. reflexivity. Qed.

Lemma tget_tset_same : forall q t v, tget (tset t q v) q = v.
Proof. induction q as [q IH|q IH|]; intros t v; destruct t; cbn [tset tget]; auto. Qed.

Lemma tget_tset_other : forall q t r v, q <> r -> tget (tset t q v) r = tget t r.
Proof.
  induction q as [q IH|q IH|]; intros t r v Hne; destruct t as [|l x rr]; destruct r as [r|r|];
    cbn [tset tget]; try reflexivity; try congruence;
    try (rewrite IH by congruence; reflexivity).
Qed.

Lemma bget_bset_same b i v : i < blen b -> obind (bset b i v) (fun b' => bget b' i) = Ok v.
Proof.
  intros H. rewrite bset_ok by exact H. cbn [obind]. rewrite bget_ok by (rewrite blen_bset_raw; exact H).
  unfold bget_raw, bset_raw. cbn [btree]. rewrite tget_tset_same. reflexivity.
Qed.

Lemma bget_raw_bset_raw_same b i v : bget_raw (bset_raw b i v) i = v.
Proof. unfold bget_raw, bset_raw. cbn [btree]. apply tget_tset_same. Qed.

Lemma bget_raw_bset_raw_other b i j v : i <> j -> bget_raw (bset_raw b i v) j = bget_raw b j.
Proof.
  intros H. unfold bget_raw, bset_raw. cbn [btree]. apply tget_tset_other.
  intros E. apply H. apply (f_equal Pos.pred_N) in E. rewrite !N.pos_pred_succ in E. exact E.
Qed.

Lemma bget_raw_bmake n i : bget_raw (bmake n) i = 0.
Proof. reflexivity. Qed.
