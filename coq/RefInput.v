(* Specification of the slow-path input PDU a client sends (MS-RDPBCGR 2.2.8.1.1.3,
   TS_INPUT_PDU_DATA with one TS_INPUT_EVENT), down to the wire: TPKT, X.224 data, MCS
   send-data-request (T.125, PER), share control and share data headers.  Written flat
   from the documents, independently of the message interpreter and layouts. *)
From RdpV Require Import Base.
Open Scope list_scope.
Open Scope N_scope.

Inductive rbutton := RNone | RLeft | RRight | RMiddle.
Inductive rinput :=
| RPointer (x y : N) (b : rbutton) (down : bool)
| RKey (scancode : N) (down : bool).

(* pointerFlags: PTRFLAGS_MOVE 0x0800, DOWN 0x8000, BUTTON1 0x1000, BUTTON2 0x2000, BUTTON3 0x4000 *)
Definition ref_pointer_flags (b : rbutton) (down : bool) : N :=
  (match b with RLeft => 4096 | RRight => 8192 | RMiddle => 16384 | RNone => 2048 end)
  + (if down then 32768 else 0).

(* keyboardFlags: KBDFLAGS_RELEASE 0x8000 *)
Definition ref_event (e : rinput) : bytes :=
  match e with
  | RPointer x y b d =>
      le32 0 ++ le16 32769 (* INPUT_EVENT_MOUSE *) ++ le16 (ref_pointer_flags b d) ++ le16 x ++ le16 y
  | RKey c d =>
      le32 0 ++ le16 4 (* INPUT_EVENT_SCANCODE *) ++ le16 (if d then 0 else 32768) ++ le16 c ++ le16 0
  end.

Definition ref_per_length (n : N) : bytes := if n <=? 127 then [n] else be16 (32768 + n).

Definition ref_input_frame (uid chan share : N) (e : rinput) : bytes :=
  let input_pdu := le16 1 ++ le16 0 ++ ref_event e in                       (* numEvents = 1, pad *)
  let total := 6 + 12 + nlen input_pdu in
  let share_data := le32 share ++ [0; 1] ++ le16 total ++ [28; 0] ++ le16 0 ++ input_pdu in
  let share_ctrl := le16 total ++ le16 23 ++ le16 uid ++ share_data in
  let sdr := [100] ++ be16 (uid - 1001) ++ be16 chan ++ [112] ++ ref_per_length (nlen share_ctrl) ++ share_ctrl in
  let x224 := [2; 240; 128] ++ sdr in
  [3; 0] ++ be16 (nlen x224 + 4) ++ x224.
