(* Executable instance of Secrets.v for the correspondence run (and the non-vacuity example): concrete
   MD4 / MD5 / HMAC-MD5 / RC4, the DER writers and the yasna reader models of CsspGateExec.v / DerRead.v, the
   BER model of BerYasna.v, and the TLS server of the harness (ConnectRun.tls_exact: the handshake completes at
   protocol level exactly when the client has consumed the reply to its connection request and nothing else). *)
From RdpV Require Import Base Msg LayoutsGlobal LayoutsConnect Link Tpkt Global Rc4 Md5 Md4 Hmac Utf Ntlm NtlmSeal DerRead
     CsspGate CsspGateExec BerYasna Connect ConnectRun Secrets.
Open Scope list_scope.
Open Scope N_scope.

(* [post] = the chunks the server sends inside TLS, [tls_server] = the harness has an identity to accept with *)
Definition secrets_impl (uppercase : list N -> list N) (p : prof) (tls_server : bool) (c : sconfig) (e : senv)
           (cs post : stream) : outcome unit * list bev :=
  secrets_run md4 md5 hmac_md5 uppercase p
              x_create_ts_request x_create_ts_authenticate x_create_ts_credentials x_create_ts_authinfo
              (x_read_ts_server_challenge p) (x_read_ts_validate p)
              (ber_connect_response p) (if tls_server then tls_exact post else no_tls) c e cs.
