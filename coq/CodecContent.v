(* Contents of the codec buffers (C09): of_list / to_list / blit against list indexing,
   and list facts about concatenations of equal-length rows. *)
From RdpV Require Import Base Buf CodecLemmas.

Ltac Zify.zify_post_hook ::= Z.div_mod_to_equations.

Lemma succ_pos_inj i j : N.succ_pos i = N.succ_pos j -> i = j.
Proof.
  intros E. apply (f_equal Pos.pred_N) in E. rewrite !N.pos_pred_succ in E. exact E.
Qed.

(* ---- of_list *)
Lemma of_list_from_get : forall l i t j,
  tget (of_list_from l i t) (N.succ_pos j) =
  if (i <=? j) && (j <? i + nlen l) then nth (N.to_nat (j - i)) l 0 else tget t (N.succ_pos j).
Proof.
  induction l as [|v r IH]; intros i t j.
  - cbn [of_list_from]. rewrite nlen_nil.
    destruct (i <=? j) eqn:E1; cbn [andb]; [|reflexivity].
    destruct (j <? i + 0) eqn:E2; [|reflexivity]. apply N.leb_le in E1. apply N.ltb_lt in E2. lia.
  - cbn [of_list_from]. rewrite IH. rewrite nlen_cons.
    destruct (i + 1 <=? j) eqn:E1.
    + apply N.leb_le in E1. assert (E0 : i <=? j = true) by (apply N.leb_le; lia). rewrite E0. cbn [andb].
      replace (j <? i + 1 + nlen r) with (j <? i + (1 + nlen r)) by (f_equal; lia).
      destruct (j <? i + (1 + nlen r)); [|rewrite tget_tset_other; [reflexivity|]].
      * replace (N.to_nat (j - i)) with (S (N.to_nat (j - (i + 1)))) by lia. reflexivity.
      * intros E. apply succ_pos_inj in E. lia.
    + apply N.leb_gt in E1. cbn [andb].
      destruct (N.eq_dec i j) as [->|Hne].
      * rewrite tget_tset_same. rewrite N.leb_refl. cbn [andb].
        assert (E2 : j <? j + (1 + nlen r) = true) by (apply N.ltb_lt; lia). rewrite E2.
        rewrite N.sub_diag. reflexivity.
      * rewrite tget_tset_other by (intros E; apply succ_pos_inj in E; lia).
        assert (E0 : i <=? j = false) by (apply N.leb_gt; lia). rewrite E0. reflexivity.
Qed.

Lemma bget_raw_of_list l j : bget_raw (of_list l) j = nth (N.to_nat j) l 0.
Proof.
  unfold bget_raw, of_list. cbn [btree]. rewrite of_list_from_get. cbn [N.leb].
  replace (0 <=? j) with true by (symmetry; apply N.leb_le; lia). cbn [andb].
  rewrite N.add_0_l, N.sub_0_r.
  destruct (j <? nlen l) eqn:E; [reflexivity|].
  apply N.ltb_ge in E. cbn [tget]. rewrite nth_overflow; [reflexivity|]. unfold nlen in E. lia.
Qed.

(* ---- to_list *)
Lemma to_list_down_map b : forall n acc,
  to_list_down n (N.of_nat n) b acc = map (fun k => bget_raw b (N.of_nat k)) (seq 0 n) ++ acc.
Proof.
  induction n as [|k IH]; intros acc; [reflexivity|].
  cbn [to_list_down]. replace (N.pred (N.of_nat (S k))) with (N.of_nat k) by lia.
  rewrite IH. rewrite seq_S, map_app. cbn [map]. rewrite <- app_assoc. reflexivity.
Qed.

Lemma to_list_map b : to_list b = map (fun k => bget_raw b (N.of_nat k)) (seq 0 (N.to_nat (blen b))).
Proof.
  unfold to_list. pose proof (to_list_down_map b (N.to_nat (blen b)) []) as H.
  rewrite N2Nat.id in H. rewrite H. apply app_nil_r.
Qed.

Lemma nth_map_in {A B} (f : A -> B) (d' : A) (d : B) : forall (l : list A) n,
  (n < length l)%nat -> nth n (map f l) d = f (nth n l d').
Proof.
  induction l as [|a l IH]; intros n Hn; [cbn [length] in Hn; lia|].
  destruct n; cbn [map nth]; [reflexivity|]. apply IH. cbn [length] in Hn. lia.
Qed.

(* the whole point: a buffer whose cells agree with a list IS that list *)
Lemma to_list_eq b l :
  blen b = nlen l -> (forall k, k < nlen l -> bget_raw b k = nth (N.to_nat k) l 0) -> to_list b = l.
Proof.
  intros Hlen Hget. rewrite to_list_map.
  apply nth_ext with (d := 0) (d' := 0).
  - rewrite map_length, seq_length. unfold nlen in Hlen. lia.
  - intros n Hn. rewrite map_length, seq_length in Hn.
    rewrite (nth_map_in _ O) by (rewrite seq_length; exact Hn).
    rewrite seq_nth by exact Hn. cbn [Nat.add].
    rewrite Hget by (unfold nlen in *; lia). rewrite Nat2N.id. reflexivity.
Qed.

(* ---- blit *)
Lemma blit_get : forall n dst doff src soff k,
  bget_raw (blit n dst doff src soff) k =
  if (doff <=? k) && (k <? doff + N.of_nat n) then bget_raw src (soff + (k - doff)) else bget_raw dst k.
Proof.
  induction n as [|m IH]; intros dst doff src soff k.
  - cbn [blit]. destruct (doff <=? k) eqn:E1; cbn [andb]; [|reflexivity].
    destruct (k <? doff + N.of_nat 0) eqn:E2; [|reflexivity]. apply N.leb_le in E1. apply N.ltb_lt in E2. lia.
  - cbn [blit]. rewrite IH.
    destruct (doff + 1 <=? k) eqn:E1.
    + apply N.leb_le in E1. assert (E0 : doff <=? k = true) by (apply N.leb_le; lia). rewrite E0. cbn [andb].
      replace (doff + 1 + N.of_nat m) with (doff + N.of_nat (S m)) by lia.
      destruct (k <? doff + N.of_nat (S m)).
      * f_equal. lia.
      * apply bget_raw_bset_raw_other. lia.
    + apply N.leb_gt in E1. cbn [andb].
      destruct (N.eq_dec doff k) as [->|Hne].
      * rewrite bget_raw_bset_raw_same. rewrite N.leb_refl. cbn [andb].
        assert (E2 : k <? k + N.of_nat (S m) = true) by (apply N.ltb_lt; lia). rewrite E2.
        f_equal. lia.
      * rewrite bget_raw_bset_raw_other by lia.
        assert (E0 : doff <=? k = false) by (apply N.leb_gt; lia). rewrite E0. reflexivity.
Qed.

(* ---- lists of equal-length rows *)
Definition uniform (s : nat) (rows : list (list N)) : Prop := Forall (fun r => length r = s) rows.

Lemma length_concat_uniform s rows : uniform s rows -> length (concat rows) = (length rows * s)%nat.
Proof.
  induction 1 as [|r rows Hr _ IH]; [reflexivity|].
  cbn [concat length]. rewrite app_length, IH, Hr. lia.
Qed.

Lemma nth_concat_uniform s : forall rows i j, uniform s rows -> (j < s)%nat ->
  nth (i * s + j) (concat rows) 0 = nth j (nth i rows []) 0.
Proof.
  induction rows as [|r rows IH]; intros i j Hu Hj.
  - cbn [concat]. rewrite (nth_overflow [] (n:=i)) by (cbn [length]; lia). rewrite !nth_overflow by (cbn [length]; lia). reflexivity.
  - pose proof (Forall_inv Hu) as Hr. pose proof (Forall_inv_tail Hu) as Hu'. cbv beta in Hr. cbn [concat].
    destruct i as [|i].
    + cbn [Nat.mul Nat.add nth]. rewrite app_nth1 by lia. reflexivity.
    + rewrite app_nth2 by (rewrite Hr; lia). rewrite Hr.
      replace (S i * s + j - s)%nat with (i * s + j)%nat by lia.
      cbn [nth]. apply IH; assumption.
Qed.

Lemma uniform_rev s rows : uniform s rows -> uniform s (rev rows).
Proof. unfold uniform. intros H. apply Forall_rev. exact H. Qed.

Lemma uniform_map_length {A} (f : A -> list N) s (l : list A) :
  (forall a, length (f a) = s) -> uniform s (map f l).
Proof. intros H. unfold uniform. apply Forall_forall. intros r Hr. apply in_map_iff in Hr. destruct Hr as (a & <- & _). apply H. Qed.

(* fixed-size blocks *)
Lemma nth_flat_map_block {A} (f : A -> list N) (s : nat) (d : A) : forall (l : list A) i j,
  (forall a, length (f a) = s) -> (i < length l)%nat -> (j < s)%nat ->
  nth (i * s + j) (flat_map f l) 0 = nth j (f (nth i l d)) 0.
Proof.
  induction l as [|a l IH]; intros i j Hf Hi Hj; [cbn [length] in Hi; lia|].
  cbn [flat_map]. destruct i as [|i].
  - cbn [Nat.mul Nat.add nth]. rewrite app_nth1 by (rewrite Hf; lia). reflexivity.
  - rewrite app_nth2 by (rewrite Hf; lia). rewrite Hf.
    replace (S i * s + j - s)%nat with (i * s + j)%nat by lia.
    cbn [nth]. apply IH; auto. cbn [length] in Hi. lia.
Qed.

Lemma length_flat_map_block {A} (f : A -> list N) (s : nat) (l : list A) :
  (forall a, length (f a) = s) -> length (flat_map f l) = (length l * s)%nat.
Proof.
  intros Hf. induction l as [|a l IH]; [reflexivity|].
  cbn [flat_map length]. rewrite app_length, Hf, IH. lia.
Qed.
