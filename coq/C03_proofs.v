(* C03: the whole-connection model (Flow.v) follows the mandated sequence (RefSequence.v) against every
   conforming server, for every fragmentation of the server's byte stream. *)
From Coq Require Import Lia.
From RdpV Require Import Base Msg LayoutsGlobal LayoutsConnect Link Tpkt Global Connect ClientPdus Flow.
From RdpV Require Import RefFraming C13_proofs StrictPdu RefSequence C03_base.
From RdpV Require MsgTheory MsgProv Per C18_per_proofs C18_per_global C10_proofs C06_proofs C04_proofs.
Open Scope list_scope.
Open Scope N_scope.

(* ================================================================== D. what the emitted bytes are (C04) *)
Section Rendering.
Variable p : prof.
Variable c : fcfg.
Variable srv : server.

Definition valid_fcfg : Prop :=
  let k := f_pdu c in
  Forall scalar (c_name k) /\ Forall scalar (c_domain k) /\ Forall scalar (c_user k) /\ Forall scalar (c_password k) /\
  c_width k < 65536 /\ c_height k < 65536 /\ c_layout k < 4294967296 /\
  (c_offered k = 1 \/ c_offered k = 3) /\
  (* what one PER length determinant can carry: client info and confirm-active user data *)
  32 + 2 * (units (c_domain k) + units (c_user k) + units (c_password k)) + 190 <= C04_proofs.PER_MAX /\
  C04_proofs.confirm_size k <= C04_proofs.PER_MAX.

Hypothesis Hv : valid_fcfg.
Hypothesis Hc : conforming (c_offered (f_pdu c)) srv.

Definition ids (share : N) : server_ids := mkIds (sv_selected srv) (sv_version srv) (sv_uid srv) share (sv_io srv).

Lemma valid_ids share : share < 4294967296 -> C04_proofs.valid_cfg false (f_pdu c) (ids share).
Proof.
  intros Hs. destruct Hv as (H1 & H2 & H3 & H4 & H5 & H6 & H7 & H8 & H9 & H10).
  destruct Hc as (Hsel & _ & _ & _ & Hu & Hio & _).
  unfold C04_proofs.valid_cfg, ids. cbn [i_selected i_share i_uid i_io i_version].
  repeat split; try assumption; try lia.
  - destruct Hsel as [Hs' | Hs']; rewrite Hs'; cbv; reflexivity.
  - unfold C04_proofs.info_size, units in *. cbn [i_version]. destruct (is_rdp_version_5_plus false (sv_version srv)); lia.
Qed.

Lemma valid_ids_info v : C04_proofs.valid_cfg false (info_cfg c) (mkIds 0 v (sv_uid srv) 0 (sv_io srv)).
Proof.
  destruct Hv as (H1 & H2 & H3 & H4 & H5 & H6 & H7 & H8 & H9 & H10).
  destruct Hc as (Hsel & _ & _ & _ & Hu & Hio & _).
  unfold C04_proofs.valid_cfg, info_cfg. cbn [i_selected i_share i_uid i_io i_version].
  assert (Hoff : c_offered (f_pdu c) < 4294967296) by (destruct H8 as [-> | ->]; lia).
  unfold C04_proofs.PER_MAX, C04_proofs.confirm_size, units in *.
  destruct (c_ram (f_pdu c)); cbn [c_name c_domain c_user c_password c_width c_height c_layout c_offered];
    (repeat split; try assumption; try apply Forall_nil; try lia);
    unfold C04_proofs.info_size; cbn [c_domain c_user c_password i_version];
    destruct (is_rdp_version_5_plus false v); cbn [utf16 flat_map nlen List.length N.of_nat]; lia.
Qed.

(* a message rendered inside TLS, and the PDU the strict parser finds in it *)
Definition renders (m : cmsg) (k : kind) : Prop :=
  exists f, wrap true (render_msg p c m) = FTls f /\ frame_kind f = Some k.

Lemma renders_of m o d k : render_msg p c m = of_outcome o -> (exists f, o = Ok f /\ strict_parse f = Some d) -> kind_of d = k -> renders m k.
Proof.
  intros Hr [f [-> Hp]] Hk. exists f. rewrite Hr. cbn [of_outcome wrap]. split; [reflexivity|].
  unfold frame_kind. rewrite Hp, Hk. reflexivity.
Qed.

Lemma renders_ci : renders (CI ci_len (sv_selected srv)) KConnectInitial.
Proof.
  eapply renders_of; [reflexivity|apply (C04_proofs.emit_connect_initial_parses p false (f_pdu c) (ids 0)); apply valid_ids; lia|reflexivity].
Qed.
Lemma renders_ed : renders ED KErectDomain.
Proof. eapply renders_of; [reflexivity|apply C04_proofs.emit_erect_domain_parses|reflexivity]. Qed.
Lemma renders_au : renders AU KAttachUser.
Proof. eapply renders_of; [reflexivity|apply C04_proofs.emit_attach_user_parses|reflexivity]. Qed.
Lemma renders_cj ch : ch < 65536 -> renders (CJ (sv_uid srv - 1001) ch) (KJoin (sv_uid srv) ch).
Proof.
  intros Hch. destruct Hc as (_ & _ & _ & _ & Hu & _).
  apply (renders_of _ (emit_channel_join (sv_uid srv - 1001 + 1001) ch) (PChannelJoin (sv_uid srv) ch)); [reflexivity| |reflexivity].
  replace (sv_uid srv - 1001 + 1001) with (sv_uid srv) by lia.
  apply C04_proofs.emit_channel_join_parses; [exact Hu|exact Hch].
Qed.

Lemma info_len_v5 cc v5 : (info_len cc v5 =? info_len cc true) = v5.
Proof.
  unfold info_len. destruct v5; [apply N.eqb_refl|]. apply N.eqb_neq. destruct (restricted_admin cc); lia.
Qed.

Lemma renders_info : renders (INFO (sv_uid srv - 1001) (sv_io srv) (info_len (conn_cfg c) (v5_of srv))) (KInfo (sv_uid srv) (sv_io srv)).
Proof.
  destruct Hc as (_ & _ & _ & _ & Hu & _).
  set (v := if v5_of srv then RDP_VERSION_5_PLUS else 0).
  apply (renders_of _ (emit_client_info p false (info_cfg c) (mkIds 0 v (sv_uid srv) 0 (sv_io srv)))
                    (C04_proofs.expected_info false (info_cfg c) (mkIds 0 v (sv_uid srv) 0 (sv_io srv)))).
  - cbn [render_msg]. rewrite info_len_v5. replace (sv_uid srv - 1001 + 1001) with (sv_uid srv) by lia. reflexivity.
  - apply C04_proofs.emit_client_info_parses. apply valid_ids_info.
  - reflexivity.
Qed.

(* ---- the answer to a Demand Active: confirm-active and the finalization, as C04 proves them *)
Lemma checked_inv o f : checked o = Ok f -> o = Ok f /\ nlen f <= 65535.
Proof.
  unfold checked. destruct o as [g| | |]; cbn [obind]; try discriminate.
  destruct (N.ltb_spec 65535 (nlen g)) as [Hlt|Hle]; [discriminate|]. intros Heq. inversion Heq; subst. auto.
Qed.

Definition round_of (sid : N) : round := mkRound sid [] [] 0.

Lemma forall2_cons {A B} (R : A -> B -> Prop) a l b l' : Forall2 R (a :: l) (b :: l') -> R a b /\ Forall2 R l l'.
Proof. intros H. inversion H; subst. auto. Qed.

Lemma fin_frames_spec sid : sid < 4294967296 ->
  Forall (fun f => nlen f <= 65535) (fin_frames p (f_pdu c) srv sid) /\
  map frame_kind (fin_frames p (f_pdu c) srv sid) = map Some (finalization srv (round_of sid)).
Proof.
  intros Hs. pose proof (valid_ids sid Hs) as Hvi.
  destruct Hc as (_ & _ & _ & _ & Hu & Hio & _).
  destruct (C04_proofs.emit_confirm_active_parses p false (f_pdu c) (ids sid) Hvi) as [f0 [He0 Hp0]].
  unfold emit_confirm_active in He0. destruct (checked_inv _ _ He0) as [Hw0 Hl0].
  pose proof (C04_proofs.emit_finalize_parses p (f_pdu c) (ids sid) Hu ltac:(cbn [ids i_io]; lia) Hs) as Hfin.
  unfold emit_finalize, C04_proofs.expected_finalize in Hfin.
  apply forall2_cons in Hfin. destruct Hfin as [[f1 [E1 P1]] Hfin].
  apply forall2_cons in Hfin. destruct Hfin as [[f2 [E2 P2]] Hfin].
  apply forall2_cons in Hfin. destruct Hfin as [[f3 [E3 P3]] Hfin].
  apply forall2_cons in Hfin. destruct Hfin as [[f4 [E4 P4]] _].
  destruct (checked_inv _ _ E1) as [W1 L1]. destruct (checked_inv _ _ E2) as [W2 L2].
  destruct (checked_inv _ _ E3) as [W3 L3]. destruct (checked_inv _ _ E4) as [W4 L4].
  change (session_of (f_pdu c) (ids sid)) with (sess (f_pdu c) srv SData (Some sid)) in *.
  assert (Hff : fin_frames p (f_pdu c) srv sid = [f0; f1; f2; f3; f4]).
  { unfold fin_frames, write_client_finalize. rewrite Hw0. cbn [sequence]. rewrite W1, W2, W3, W4. reflexivity. }
  rewrite Hff. split; [repeat constructor; assumption|].
  cbn [map]. unfold frame_kind. rewrite Hp0, P1, P2, P3, P4. reflexivity.
Qed.

(* ---- rendering the event trace of the connection phase *)
Variable cssp_msgs : list bytes.

Fixpoint cssp_evs (n : nat) (l : list bytes) : list fev :=
  match n with O => [] | S n' => wrap true (hd_error l) :: cssp_evs n' (List.tl l) end.

Definition not_cssp (m : cmsg) : Prop := m <> CSSP.

Lemma render_tls_writes : forall ms l, Forall not_cssp ms ->
  render_trace p c l (map TlsWrite ms) = map (fun m => wrap true (render_msg p c m)) ms.
Proof.
  induction ms as [|m ms IH]; intros l Hf; [reflexivity|]. inversion Hf as [|? ? Hm Hms]; subst.
  cbn [map render_trace]. rewrite (IH l Hms). destruct m; try reflexivity. exfalso. apply Hm. reflexivity.
Qed.

Lemma render_cssp : forall n l tl,
  render_trace p c l (repeat (TlsWrite CSSP) n ++ tl) = cssp_evs n l ++ render_trace p c (skipn n l) tl.
Proof.
  induction n as [|n IH]; intros l tl; [reflexivity|].
  cbn [repeat app render_trace cssp_evs]. rewrite IH. destruct l; cbn [List.tl skipn]; [rewrite skipn_nil|]; reflexivity.
Qed.

(* all the messages of the connection phase, rendered: the connection request in clear, the handshake,
   the CredSSP messages (HYBRID), then the MCS / security messages inside TLS *)
Definition ncssp_of (n : nat) : nat := if sv_selected srv =? 2 then n else 0%nat.

Lemma render_conn_events uf n k :
  render_trace p c cssp_msgs (conn_events (conn_cfg c) srv uf n k) =
  wrap false (render_msg p c (cr_msg (conn_cfg c))) :: FTlsStart true :: cssp_evs (ncssp_of n) cssp_msgs
  ++ map (fun m => wrap true (render_msg p c m)) (List.concat (firstn k (conn_writes (conn_cfg c) srv uf))).
Proof.
  unfold conn_events, nego_events, tls_writes, ncssp_of. cbn [app render_trace cr_msg].
  f_equal. f_equal.
  assert (Hnc : Forall not_cssp (List.concat (firstn k (conn_writes (conn_cfg c) srv uf)))).
  { unfold conn_writes. do 6 (destruct k as [|k]; cbn [firstn List.concat app]; repeat constructor; try discriminate). }
  destruct (sv_selected srv =? 2).
  - rewrite render_cssp. f_equal. apply render_tls_writes. exact Hnc.
  - cbn [app cssp_evs]. apply render_tls_writes. exact Hnc.
Qed.

(* ---- events inside TLS whose frames decode to given kinds *)
Definition evk (evs : list fev) (ks : list kind) : Prop :=
  exists fs, evs = map FTls fs /\ map frame_kind fs = map Some ks.

Lemma evk_nil : evk [] [].
Proof. exists []. auto. Qed.
Lemma evk_app a ka b kb : evk a ka -> evk b kb -> evk (a ++ b) (ka ++ kb).
Proof. intros [fa [-> Ha]] [fb [-> Hb]]. exists (fa ++ fb). rewrite !map_app, Ha, Hb. auto. Qed.
Lemma evk_concat E K : Forall2 evk E K -> evk (List.concat E) (List.concat K).
Proof. induction 1; cbn [List.concat]; [apply evk_nil|apply evk_app; assumption]. Qed.
Lemma forall2_firstn {A B} (R : A -> B -> Prop) : forall n l l', Forall2 R l l' -> Forall2 R (firstn n l) (firstn n l').
Proof. induction n; intros l l' H; [constructor|]. destruct H; cbn [firstn]; constructor; auto. Qed.

Lemma evk_renders ms ks : Forall2 renders ms ks -> evk (map (fun m => wrap true (render_msg p c m)) ms) ks.
Proof.
  induction 1 as [|m k ms ks [f [Hw Hk]] _ IH]; [apply evk_nil|].
  cbn [map]. rewrite Hw. change (FTls f :: ?l) with ([FTls f] ++ l). change (k :: ks) with ([k] ++ ks).
  apply evk_app; [|exact IH]. exists [f]. cbn [map]. rewrite Hk. auto.
Qed.

(* the kinds of the connection phase, grouped as the client writes them *)
Definition conn_kinds (uf : bool) : list (list kind) :=
  List.tl (map x_client (connect_exchanges srv uf)).

Lemma conn_writes_render uf :
  Forall2 (Forall2 renders) (conn_writes (conn_cfg c) srv uf) (conn_kinds uf).
Proof.
  unfold conn_writes, conn_kinds, connect_exchanges. cbn [map x_client List.tl].
  assert (Hj : forall i, jn srv uf i < 65536) by (intros i; eapply jn_lt; eauto).
  repeat constructor.
  - apply renders_ci.
  - apply renders_ed.
  - apply renders_au.
  - apply renders_cj. apply Hj.
  - apply renders_cj. apply Hj.
  - apply renders_info.
Qed.

Lemma conn_events_kinds uf k :
  evk (map (fun m => wrap true (render_msg p c m)) (List.concat (firstn k (conn_writes (conn_cfg c) srv uf))))
      (List.concat (firstn k (conn_kinds uf))).
Proof.
  apply evk_renders.
  pose proof (forall2_firstn _ k _ _ (conn_writes_render uf)) as H.
  induction H as [|a b l l' Hab _ IH]; cbn [List.concat]; [constructor|]. apply Forall2_app; assumption.
Qed.

(* the session: what the client writes after each frame, as kinds *)
Lemma session_events_kinds : forall rs prev,
  Forall round_ok rs ->
  Forall2 evk (session_events p true (f_pdu c) srv prev rs) (session_answers srv prev rs) /\
  Forall (fun r => Forall (fun f => nlen f <= 65535) (fin_frames p (f_pdu c) srv (r_share r))) rs.
Proof.
  induction rs as [|r tl IH]; intros prev Hok; [split; constructor|].
  inversion Hok as [|? ? Hr Hoks]; subst. destruct (IH (Some r) Hoks) as [IH1 IH2].
  pose proof Hr as (Hsh & _). destruct (fin_frames_spec (r_share r) Hsh) as [Hsz Hk].
  split; [|constructor; assumption].
  cbn [session_events session_answers].
  apply Forall2_app; [destruct prev; repeat constructor; apply evk_nil|].
  unfold round_answers. cbn [app].
  constructor.
  - exists (fin_frames p (f_pdu c) srv (r_share r)). split; [reflexivity|]. rewrite Hk. reflexivity.
  - repeat (constructor; [apply evk_nil|]). exact IH1.
Qed.
(*END-RENDER*)
End Rendering.

(* ================================================================== E. the conversation of RefSequence.v, unfolded *)
Lemma zip_spec : forall F A pend, List.length A = List.length F ->
  map x_reply (fst (zip_answers pend F A)) = F /\
  (forall j, (j < List.length F)%nat ->
     flat_map x_client (firstn (S j) (fst (zip_answers pend F A))) = pend ++ List.concat (firstn j A)) /\
  flat_map x_client (fst (zip_answers pend F A)) ++ snd (zip_answers pend F A) = pend ++ List.concat A.
Proof.
  induction F as [|f F IH]; intros A pend Hl.
  - destruct A; [|discriminate]. cbn. repeat split; [intros j Hj; lia|rewrite app_nil_r; reflexivity].
  - destruct A as [|a A]; [discriminate|]. cbn [zip_answers].
    destruct (zip_answers a F A) as [xs fin] eqn:Ez. cbn [fst snd].
    destruct (IH A a ltac:(cbn in Hl; lia)) as (H1 & H2 & H3). rewrite Ez in *. cbn [fst snd] in *.
    repeat split.
    + cbn [map x_reply]. rewrite H1. reflexivity.
    + intros j Hj. destruct j as [|j].
      * cbn. rewrite !app_nil_r. reflexivity.
      * rewrite !firstn_cons. cbn [flat_map x_client List.concat]. rewrite (H2 j ltac:(cbn in Hj; lia)). reflexivity.
    + cbn [flat_map x_client List.concat]. rewrite <- app_assoc, H3. reflexivity.
Qed.

Lemma session_lengths srv : forall rs prev,
  List.length (session_answers srv prev rs) = List.length (session_frames srv prev rs).
Proof.
  induction rs as [|r tl IH]; intros prev; [reflexivity|].
  cbn [session_answers session_frames]. rewrite !app_length, IH. destruct prev; reflexivity.
Qed.

Section Conversation.
Variable srv : server.
Variable uf : bool.
Let F := session_frames srv None (sv_rounds srv).
Let A := session_answers srv None (sv_rounds srv).
Let CK : list (list kind) := List.tl (map x_client (connect_exchanges srv uf)).

Lemma conversation_replies :
  replies srv uf = ref_confirm srv :: conn_replies srv uf ++ F.
Proof.
  unfold replies, conversation. fold F A.
  destruct (zip_spec F A [] (session_lengths srv _ _)) as (H1 & _ & _).
  destruct (zip_answers [] F A) as [xs fin]. cbn [fst snd] in *. rewrite map_app, H1. reflexivity.
Qed.

Lemma conversation_kinds :
  expected_kinds srv uf = KRequest :: List.concat CK ++ List.concat A ++ [KDisconnect].
Proof.
  unfold expected_kinds, conversation. fold F A.
  destruct (zip_spec F A [] (session_lengths srv _ _)) as (_ & _ & H3).
  destruct (zip_answers [] F A) as [xs fin]. cbn [fst snd] in *. cbn [app] in H3.
  rewrite flat_map_app. rewrite <- app_assoc. rewrite (app_assoc (flat_map x_client xs)), H3.
  unfold CK, connect_exchanges. cbn [map x_client List.tl flat_map List.concat app]. reflexivity.
Qed.

(* the server has released k+1 replies (the confirm and k of the replies inside TLS), k within the connection phase *)
Lemma sent_before_conn k : (k < 5)%nat ->
  sent_before_reply srv uf (S k) = KRequest :: List.concat (firstn (S k) CK).
Proof.
  intros Hk. unfold sent_before_reply, conversation. fold F A.
  destruct (zip_answers [] F A) as [xs fin]. cbn [fst].
  unfold CK, connect_exchanges.
  do 5 (destruct k as [|k]; [cbn [app firstn flat_map x_client map List.tl List.concat]; rewrite ?app_nil_r, <- ?app_assoc; reflexivity|]). lia.
Qed.

(* ... k = 5 + j: the whole connection phase and j session frames *)
Lemma sent_before_session j : (j < List.length F)%nat ->
  sent_before_reply srv uf (S (5 + j)) = KRequest :: List.concat CK ++ List.concat (firstn j A).
Proof.
  intros Hj. unfold sent_before_reply, conversation. fold F A.
  destruct (zip_spec F A [] (session_lengths srv _ _)) as (_ & H2 & _).
  destruct (zip_answers [] F A) as [xs fin]. cbn [fst] in *.
  change (S (S (5 + j))) with (6 + S j)%nat.
  assert (Hce : List.length (connect_exchanges srv uf) = 6%nat) by reflexivity.
  rewrite firstn_app, firstn_all2 by (rewrite Hce; lia). rewrite Hce.
  replace (6 + S j - 6)%nat with (S j) by lia. rewrite flat_map_app, (H2 j Hj).
  unfold CK, connect_exchanges. cbn [map x_client List.tl flat_map List.concat app]. reflexivity.
Qed.
End Conversation.

(* ================================================================== F. the whole run *)
Section FlowTheorems.
Variable p : prof.
Variable ber_parse : bytes -> outcome bytes.
Variable trusted : bool.
Variable tls_start : stream -> outcome stream.
Variable cssp_run : stream -> nat * outcome stream.
Variable cssp_msgs : list bytes.
Variable c : fcfg.
Variable srv : server.
Hypothesis Hv : valid_fcfg c.
Hypothesis Hc : conforming (c_offered (f_pdu c)) srv.
Hypothesis Hber : ber_ok ber_parse srv.
Hypothesis Hcert : f_check_cert c = true -> trusted = true.
Variables (cs post post' : stream) (ncssp : nat).
Hypothesis Hcs : holds cs (ref_confirm srv).
Hypothesis Htls : tls_start [] = Ok post.
Hypothesis Hcssp : if sv_selected srv =? 2 then cssp_run post = (ncssp, Ok post') else post' = post.

Let uf := f_user_first c.
Let F := session_frames srv None (sv_rounds srv).
Let A := session_answers srv None (sv_rounds srv).
Let E := session_events p true (f_pdu c) srv None (sv_rounds srv).
Let run := flow p ber_parse trusted tls_start cssp_run cssp_msgs c (List.length F) cs.
Let CK := conn_kinds srv uf.

Lemma Hio16 : sv_io srv < 65536.
Proof. destruct Hc as (_ & _ & _ & _ & _ & Hio & _). lia. Qed.

Lemma Hrounds : Forall round_ok (sv_rounds srv).
Proof. apply Hc. Qed.

Lemma the_chain : chain p true (sess (f_pdu c) srv SDemandActive None) F E (end_state (f_pdu c) srv None (sv_rounds srv)).
Proof.
  destruct (session_events_kinds p c srv Hv Hc (sv_rounds srv) None Hrounds) as [_ Hsz].
  exact (session_chain p true (f_pdu c) srv Hio16 (sv_rounds srv) None Hrounds Hsz).
Qed.

Lemma E_kinds : Forall2 (evk) E A.
Proof. apply (session_events_kinds p c srv Hv Hc (sv_rounds srv) None Hrounds). Qed.

Lemma cr_rendered : exists cr, wrap false (render_msg p c (cr_msg (conn_cfg c))) = FRaw cr /\ frame_kind cr = Some KRequest.
Proof.
  destruct Hv as (_ & _ & _ & _ & _ & _ & _ & Hoff & _).
  destruct (C04_proofs.emit_cr_parses p (f_pdu c)) as [f [He Hp]]; [destruct Hoff as [-> | ->]; lia|].
  exists f. cbn [render_msg cr_msg]. rewrite He. cbn [of_outcome wrap]. split; [reflexivity|].
  unfold frame_kind. rewrite Hp. reflexivity.
Qed.

Lemma disc_rendered : exists f, shutdown_evs true = [FTls f] /\ frame_kind f = Some KDisconnect.
Proof.
  destruct C04_proofs.emit_disconnect_parses as [f [He Hp]]. exists f. unfold shutdown_evs. rewrite He.
  cbn [of_outcome wrap]. split; [reflexivity|]. unfold frame_kind. rewrite Hp. reflexivity.
Qed.

Lemma conn_cfg_facts : offered (conn_cfg c) = c_offered (f_pdu c) /\ has_auth (conn_cfg c) = true /\
  user_first (conn_cfg c) = uf /\ check_cert (conn_cfg c) = f_check_cert c.
Proof. repeat split. Qed.

(* C03_sequence: every reply there -> the run succeeds and the trace is the mandated sequence *)
Theorem flow_full :
  holds post' (List.concat (conn_replies srv uf ++ F)) ->
  fl_res run = Ok tt /\ fl_stage run = StShutdown /\
  exists cr frames,
    fl_trace run = FRaw cr :: FTlsStart true :: cssp_evs (ncssp_of srv ncssp) cssp_msgs ++ map FTls frames /\
    frame_kind cr = Some KRequest /\
    map frame_kind frames = map Some (List.tl (expected_kinds srv uf)).
Proof.
  intros Hpost. rewrite concat_app in Hpost.
  destruct (connect_spec p ber_parse trusted tls_start cssp_run (conn_cfg c) srv uf cs post post' ncssp
              Hber Hc eq_refl eq_refl Hcert Hcs Htls Hcssp) as [Hfull _].
  destruct (Hfull _ Hpost) as [st [Hrun [Hh [Hev Ht]]]].
  destruct (loop_chain_full p true _ _ _ _ the_chain (s_in st) [] ltac:(rewrite app_nil_r; exact Hh)) as [cs' [_ Hloop]].
  specialize (Hloop 0%nat 0%nat []). rewrite Nat.add_0_r in Hloop. cbn [session_loop app] in Hloop.
  unfold run, flow. rewrite Hrun. cbn [sd_srv global_id]. rewrite Ht.
  change (init_session_io (sv_uid srv) (sv_io srv) (c_width (f_pdu c)) (c_height (f_pdu c)) (c_layout (f_pdu c)) (utf8 (c_name (f_pdu c))))
    with (sess (f_pdu c) srv SDemandActive None).
  fold F. rewrite Hloop. cbn [fl_res fl_stage fl_trace].
  split; [reflexivity|]. split; [reflexivity|].
  rewrite Hev, render_conn_events.
  destruct cr_rendered as [cr [Hcr Hkcr]]. destruct disc_rendered as [fd [Hd Hkd]].
  pose proof (conn_events_kinds p c srv Hv Hc uf 5) as [f1 [H1 K1]].
  pose proof (evk_concat _ _ E_kinds) as [f2 [H2 K2]].
  exists cr, (f1 ++ f2 ++ [fd]). rewrite Hcr, H1, H2, Hd. split; [|split; [exact Hkcr|]].
  - rewrite !map_app. cbn [map app]. rewrite <- !app_assoc. reflexivity.
  - rewrite conversation_kinds. cbn [List.tl]. rewrite !map_app, K1, K2. cbn [map]. rewrite Hkd.
    change (firstn 5 (conn_kinds srv uf)) with (conn_kinds srv uf). reflexivity.
Qed.

(* C03_causality: the server stops after the confirm and k of its replies inside TLS -> the client has written
   exactly the messages that precede reply k+1 in the conversation, and then meets the end of the stream *)
Theorem flow_cut k :
  (k < List.length (conn_replies srv uf ++ F))%nat ->
  holds post' (List.concat (firstn k (conn_replies srv uf ++ F))) ->
  fl_res run = Err EIo /\
  fl_stage run = (if Nat.ltb k 5 then StConnect else StRead (k - 5)) /\
  exists cr frames,
    fl_trace run = FRaw cr :: FTlsStart true :: cssp_evs (ncssp_of srv ncssp) cssp_msgs ++ map FTls frames /\
    frame_kind cr = Some KRequest /\
    map frame_kind frames = map Some (List.tl (sent_before_reply srv uf (S k))).
Proof.
  intros Hk Hpost.
  destruct (connect_spec p ber_parse trusted tls_start cssp_run (conn_cfg c) srv uf cs post post' ncssp
              Hber Hc eq_refl eq_refl Hcert Hcs Htls Hcssp) as [Hfull Hcut].
  destruct cr_rendered as [cr [Hcr Hkcr]].
  assert (Hlr : List.length (conn_replies srv uf) = 5%nat) by reflexivity.
  destruct (Nat.ltb_spec k 5) as [Hk5|Hk5].
  - (* inside the connection phase *)
    rewrite firstn_app in Hpost. replace (k - List.length (conn_replies srv uf))%nat with 0%nat in Hpost by lia.
    cbn [firstn] in Hpost. rewrite app_nil_r in Hpost.
    destruct (Hcut k Hk5 Hpost) as [st [Hrun Hev]].
    unfold run, flow. rewrite Hrun. cbn [fl_res fl_stage fl_trace].
    split; [reflexivity|]. split; [reflexivity|].
    rewrite Hev, render_conn_events.
    pose proof (conn_events_kinds p c srv Hv Hc uf (S k)) as [f1 [H1 K1]].
    exists cr, f1. rewrite Hcr, H1. split; [reflexivity|]. split; [exact Hkcr|].
    rewrite (sent_before_conn srv uf k Hk5). cbn [List.tl]. exact K1.
  - (* in the session: j frames read *)
    set (j := (k - 5)%nat). assert (Hj : (j < List.length F)%nat) by (rewrite app_length in Hk; unfold j; lia).
    rewrite firstn_app, firstn_all2 in Hpost by lia. rewrite Hlr in Hpost. fold j in Hpost. rewrite concat_app in Hpost.
    destruct (Hfull _ Hpost) as [st [Hrun [Hh [Hev Ht]]]].
    destruct (loop_chain_cut p true _ _ _ _ the_chain j (s_in st) Hj Hh 0%nat 0%nat []) as [s'' Hloop].
    rewrite Nat.add_0_r in Hloop. cbn [app Nat.add] in Hloop.
    unfold run, flow. rewrite Hrun. cbn [sd_srv global_id]. rewrite Ht.
    change (init_session_io (sv_uid srv) (sv_io srv) (c_width (f_pdu c)) (c_height (f_pdu c)) (c_layout (f_pdu c)) (utf8 (c_name (f_pdu c))))
      with (sess (f_pdu c) srv SDemandActive None).
    fold F. rewrite Hloop. cbn [fl_res fl_stage fl_trace].
    split; [reflexivity|]. split; [reflexivity|].
    rewrite Hev, render_conn_events.
    pose proof (conn_events_kinds p c srv Hv Hc uf 5) as [f1 [H1 K1]].
    pose proof (evk_concat _ _ (forall2_firstn _ j _ _ E_kinds)) as [f2 [H2 K2]].
    exists cr, (f1 ++ f2). rewrite Hcr, H1, H2. split; [|split; [exact Hkcr|]].
    + rewrite !map_app. cbn [app]. rewrite <- !app_assoc. reflexivity.
    + replace k with (5 + j)%nat by (unfold j; lia). rewrite (sent_before_session srv uf j Hj). cbn [List.tl].
      rewrite !map_app, K1, K2. change (firstn 5 (conn_kinds srv uf)) with (conn_kinds srv uf). reflexivity.
Qed.

(* ... and a server that does not even confirm the connection gets the connection request and nothing else *)
Theorem flow_no_confirm : cs = [] ->
  let r := flow p ber_parse trusted tls_start cssp_run cssp_msgs c (List.length F) [] in
  fl_res r = Err EIo /\ fl_stage r = StConnect /\
  exists cr, fl_trace r = [FRaw cr] /\ map frame_kind [cr] = map Some (sent_before_reply srv uf 0).
Proof.
  intros _. destruct (connect_no_confirm p ber_parse trusted tls_start cssp_run (conn_cfg c) [] eq_refl) as [st [Hrun Hev]].
  cbv zeta. unfold flow. rewrite Hrun. cbn [fl_res fl_stage fl_trace]. split; [reflexivity|]. split; [reflexivity|].
  destruct cr_rendered as [cr [Hcr Hkcr]]. exists cr. rewrite Hev. cbn [render_trace cr_msg] in *. 
  split; [rewrite <- Hcr; reflexivity|]. cbn [map]. rewrite Hkcr.
  unfold sent_before_reply, conversation. destruct (zip_answers _ _ _) as [xs fin]. reflexivity.
Qed.
End FlowTheorems.

(* ================================================================== G. shutdown, for ANY server and stream *)
(* whatever the server sends (conforming or not) and whatever the external code answers: a run that ends well
   ends with the disconnect-provider ultimatum, the last unit written, on the link mode the connection runs on *)
Lemma flow_shutdown p ber_parse trusted tls_start cssp_run cssp_msgs c n cs :
  let r := flow p ber_parse trusted tls_start cssp_run cssp_msgs c n cs in
  fl_res r = Ok tt ->
  fl_stage r = StShutdown /\
  exists pre f, fl_trace r = pre ++ [f] /\ (f = FTls [3; 0; 0; 9; 2; 240; 128; 33; 128] \/ f = FRaw [3; 0; 0; 9; 2; 240; 128; 33; 128])
               /\ strict_parse [3; 0; 0; 9; 2; 240; 128; 33; 128] = Some (PDisconnect 3).
Proof.
  cbv zeta. unfold flow.
  destruct (run_connect p ber_parse trusted tls_start cssp_run (conn_cfg c) cs) as [[[uid sd]|e| |] st]; cbn [fl_res]; try discriminate.
  destruct (session_loop p (s_tls st) n 0 _ (s_in st) []) as [[[[o i] s'] evs] cs'].
  destruct o as [u|e| |]; cbn [fl_res fl_stage fl_trace]; try discriminate.
  intros _. split; [reflexivity|].
  exists (render_trace p c cssp_msgs (s_ev st) ++ evs), (wrap (s_tls st) (Some [3; 0; 0; 9; 2; 240; 128; 33; 128])).
  split; [rewrite <- app_assoc; reflexivity|]. split; [destruct (s_tls st); auto|]. vm_compute. reflexivity.
Qed.

(* ================================================================== H. the identifiers of the mandated sequence *)
(* what "carries the identifiers the server assigned" means, kind by kind: the user id as MCS initiator and as
   share-control PDU source, the I/O channel id (or the user channel id in its join) as MCS channel, a share id
   of one of the server's demand-actives, the server's channel id as target of the synchronize *)
Definition carries (srv : server) (k : kind) : Prop :=
  let u := sv_uid srv in let io := sv_io srv in
  let share_of sh := In sh (map r_share (sv_rounds srv)) in
  match k with
  | KRequest | KConnectInitial | KErectDomain | KAttachUser | KDisconnect => True
  | KJoin i ch => i = u /\ (ch = u \/ ch = io)
  | KInfo i ch => i = u /\ ch = io
  | KConfirm i ch s sh => i = u /\ ch = io /\ s = u /\ share_of sh
  | KSynchronize i ch s sh t => i = u /\ ch = io /\ s = u /\ share_of sh /\ t = SERVER_CHANNEL_ID
  | KControl i ch s sh a => i = u /\ ch = io /\ s = u /\ share_of sh /\ (a = CTRL_COOPERATE \/ a = CTRL_REQUEST_CONTROL)
  | KFontList i ch s sh => i = u /\ ch = io /\ s = u /\ share_of sh
  | KInput _ _ _ _ => False
  end.

Lemma answers_carry srv : forall rs prev, incl rs (sv_rounds srv) ->
  Forall (carries srv) (List.concat (session_answers srv prev rs)).
Proof.
  induction rs as [|r tl IH]; intros prev Hin; [constructor|].
  cbn [session_answers]. rewrite !concat_app. apply Forall_app. split; [destruct prev; cbn; constructor|].
  apply Forall_app. split; [|apply IH; intros x Hx; apply Hin; right; exact Hx].
  assert (Hs : In (r_share r) (map r_share (sv_rounds srv))) by (apply in_map, Hin; left; reflexivity).
  unfold round_answers, finalization. cbn [List.concat app].
  repeat (apply Forall_cons; [cbn [carries]; repeat split; auto|]). constructor.
Qed.

Theorem expected_carry srv uf : Forall (carries srv) (expected_kinds srv uf).
Proof.
  rewrite conversation_kinds. constructor; [exact I|].
  apply Forall_app. split.
  - unfold connect_exchanges. cbn [map x_client List.tl List.concat app]. unfold joins.
    destruct uf; cbn [nth]; repeat (apply Forall_cons; [cbn [carries]; repeat split; auto|]); constructor.
  - apply Forall_app. split; [apply answers_carry, incl_refl|repeat constructor].
Qed.

(* one confirm-active (and one finalization) per demand-active, in the order of the server's rounds *)
Theorem expected_per_round srv uf :
  filter (fun k => match k with KConfirm _ _ _ _ => true | _ => false end) (expected_kinds srv uf)
  = map (fun r => KConfirm (sv_uid srv) (sv_io srv) (sv_uid srv) (r_share r)) (sv_rounds srv).
Proof.
  rewrite conversation_kinds. cbn [filter]. rewrite !filter_app.
  assert (H1 : filter (fun k => match k with KConfirm _ _ _ _ => true | _ => false end)
                      (List.concat (List.tl (map x_client (connect_exchanges srv uf)))) = []).
  { unfold connect_exchanges. cbn [map x_client List.tl List.concat app filter]. reflexivity. }
  rewrite H1. cbn [app filter]. rewrite app_nil_r.
  generalize (@None round). induction (sv_rounds srv) as [|r tl IH]; intros prev; [reflexivity|].
  cbn [session_answers]. rewrite !concat_app, !filter_app.
  replace (filter _ (List.concat match prev with Some _ => [[]] | None => [] end)) with (@nil kind) by (destruct prev; reflexivity).
  cbn [app round_answers finalization List.concat filter map]. rewrite IH. reflexivity.
Qed.

(* ================================================================== I. the statements of Properties/C03.v *)
Lemma tl_replies srv uf : List.tl (replies srv uf) = conn_replies srv uf ++ session_frames srv None (sv_rounds srv).
Proof. rewrite conversation_replies. reflexivity. Qed.

Lemma expected_head srv uf : expected_kinds srv uf = KRequest :: List.tl (expected_kinds srv uf).
Proof. rewrite conversation_kinds. reflexivity. Qed.

Lemma sent_head srv uf k : sent_before_reply srv uf k = KRequest :: List.tl (sent_before_reply srv uf k).
Proof. unfold sent_before_reply, conversation. destruct (zip_answers _ _ _) as [xs fin]. reflexivity. Qed.

Definition nreads_of (srv : server) : nat := List.length (session_frames srv None (sv_rounds srv)).

(* TLS (SSL selected): no assumption on CredSSP *)
Theorem sequence_ssl :
  forall p ber_parse trusted tls_start cssp_run cssp_msgs (c : fcfg) (srv : server) (cs post : stream),
    valid_fcfg c -> conforming (c_offered (f_pdu c)) srv -> sv_selected srv = SEL_SSL ->
    ber_ok ber_parse srv -> (f_check_cert c = true -> trusted = true) ->
    holds cs (ref_confirm srv) -> tls_start [] = Ok post ->
    holds post (List.concat (List.tl (replies srv (f_user_first c)))) ->
    let r := flow p ber_parse trusted tls_start cssp_run cssp_msgs c (nreads_of srv) cs in
    fl_res r = Ok tt /\ fl_stage r = StShutdown /\
    exists cr frames, fl_trace r = FRaw cr :: FTlsStart true :: map FTls frames /\
      map frame_kind (cr :: frames) = map Some (expected_kinds srv (f_user_first c)).
Proof.
  intros p ber_parse trusted tls_start cssp_run cssp_msgs c srv cs post Hv Hc Hsel Hber Hcert Hcs Htls Hpost r.
  rewrite tl_replies in Hpost.
  assert (Hcssp : if sv_selected srv =? 2 then cssp_run post = (0%nat, Ok post) else post = post) by (rewrite Hsel; reflexivity).
  destruct (flow_full p ber_parse trusted tls_start cssp_run cssp_msgs c srv Hv Hc Hber Hcert cs post post 0%nat Hcs Htls Hcssp Hpost)
    as (H1 & H2 & cr & frames & H3 & H4 & H5).
  split; [exact H1|]. split; [exact H2|]. exists cr, frames. split.
  - unfold r, nreads_of. rewrite H3. unfold ncssp_of. rewrite Hsel. reflexivity.
  - cbn [map]. rewrite H4, H5, (expected_head srv). reflexivity.
Qed.

(* TLS + CredSSP (HYBRID selected): given the outcome of the CredSSP exchange *)
Theorem sequence_nla :
  forall p ber_parse trusted tls_start cssp_run cssp_msgs (c : fcfg) (srv : server) (cs post post' : stream) (ncssp : nat),
    valid_fcfg c -> conforming (c_offered (f_pdu c)) srv -> sv_selected srv = SEL_HYBRID ->
    ber_ok ber_parse srv -> (f_check_cert c = true -> trusted = true) ->
    holds cs (ref_confirm srv) -> tls_start [] = Ok post ->
    cssp_run post = (ncssp, Ok post') ->
    holds post' (List.concat (List.tl (replies srv (f_user_first c)))) ->
    let r := flow p ber_parse trusted tls_start cssp_run cssp_msgs c (nreads_of srv) cs in
    fl_res r = Ok tt /\ fl_stage r = StShutdown /\
    exists cr frames, fl_trace r = FRaw cr :: FTlsStart true :: cssp_evs ncssp cssp_msgs ++ map FTls frames /\
      map frame_kind (cr :: frames) = map Some (expected_kinds srv (f_user_first c)).
Proof.
  intros p ber_parse trusted tls_start cssp_run cssp_msgs c srv cs post post' ncssp Hv Hc Hsel Hber Hcert Hcs Htls Hrun Hpost r.
  rewrite tl_replies in Hpost.
  assert (Hcssp : if sv_selected srv =? 2 then cssp_run post = (ncssp, Ok post') else post' = post) by (rewrite Hsel; exact Hrun).
  destruct (flow_full p ber_parse trusted tls_start cssp_run cssp_msgs c srv Hv Hc Hber Hcert cs post post' ncssp Hcs Htls Hcssp Hpost)
    as (H1 & H2 & cr & frames & H3 & H4 & H5).
  split; [exact H1|]. split; [exact H2|]. exists cr, frames. split.
  - unfold r, nreads_of. rewrite H3. unfold ncssp_of. rewrite Hsel. reflexivity.
  - cbn [map]. rewrite H4, H5, (expected_head srv). reflexivity.
Qed.

Theorem causality_ssl :
  forall p ber_parse trusted tls_start cssp_run cssp_msgs (c : fcfg) (srv : server) (cs post : stream) (k : nat),
    valid_fcfg c -> conforming (c_offered (f_pdu c)) srv -> sv_selected srv = SEL_SSL ->
    ber_ok ber_parse srv -> (f_check_cert c = true -> trusted = true) ->
    holds cs (ref_confirm srv) -> tls_start [] = Ok post ->
    (k < List.length (List.tl (replies srv (f_user_first c))))%nat ->
    holds post (List.concat (firstn k (List.tl (replies srv (f_user_first c))))) ->
    let r := flow p ber_parse trusted tls_start cssp_run cssp_msgs c (nreads_of srv) cs in
    fl_res r = Err EIo /\
    exists cr frames, fl_trace r = FRaw cr :: FTlsStart true :: map FTls frames /\
      map frame_kind (cr :: frames) = map Some (sent_before_reply srv (f_user_first c) (S k)).
Proof.
  intros p ber_parse trusted tls_start cssp_run cssp_msgs c srv cs post k Hv Hc Hsel Hber Hcert Hcs Htls Hk Hpost r.
  rewrite tl_replies in Hk, Hpost.
  assert (Hcssp : if sv_selected srv =? 2 then cssp_run post = (0%nat, Ok post) else post = post) by (rewrite Hsel; reflexivity).
  destruct (flow_cut p ber_parse trusted tls_start cssp_run cssp_msgs c srv Hv Hc Hber Hcert cs post post 0%nat Hcs Htls Hcssp k Hk Hpost)
    as (H1 & _ & cr & frames & H3 & H4 & H5).
  split; [exact H1|]. exists cr, frames. split.
  - unfold r, nreads_of. rewrite H3. unfold ncssp_of. rewrite Hsel. reflexivity.
  - cbn [map]. rewrite H4, H5, (sent_head srv _ (S k)). reflexivity.
Qed.

Theorem causality_nla :
  forall p ber_parse trusted tls_start cssp_run cssp_msgs (c : fcfg) (srv : server) (cs post post' : stream) (ncssp k : nat),
    valid_fcfg c -> conforming (c_offered (f_pdu c)) srv -> sv_selected srv = SEL_HYBRID ->
    ber_ok ber_parse srv -> (f_check_cert c = true -> trusted = true) ->
    holds cs (ref_confirm srv) -> tls_start [] = Ok post ->
    cssp_run post = (ncssp, Ok post') ->
    (k < List.length (List.tl (replies srv (f_user_first c))))%nat ->
    holds post' (List.concat (firstn k (List.tl (replies srv (f_user_first c))))) ->
    let r := flow p ber_parse trusted tls_start cssp_run cssp_msgs c (nreads_of srv) cs in
    fl_res r = Err EIo /\
    exists cr frames, fl_trace r = FRaw cr :: FTlsStart true :: cssp_evs ncssp cssp_msgs ++ map FTls frames /\
      map frame_kind (cr :: frames) = map Some (sent_before_reply srv (f_user_first c) (S k)).
Proof.
  intros p ber_parse trusted tls_start cssp_run cssp_msgs c srv cs post post' ncssp k Hv Hc Hsel Hber Hcert Hcs Htls Hrun Hk Hpost r.
  rewrite tl_replies in Hk, Hpost.
  assert (Hcssp : if sv_selected srv =? 2 then cssp_run post = (ncssp, Ok post') else post' = post) by (rewrite Hsel; exact Hrun).
  destruct (flow_cut p ber_parse trusted tls_start cssp_run cssp_msgs c srv Hv Hc Hber Hcert cs post post' ncssp Hcs Htls Hcssp k Hk Hpost)
    as (H1 & _ & cr & frames & H3 & H4 & H5).
  split; [exact H1|]. exists cr, frames. split.
  - unfold r, nreads_of. rewrite H3. unfold ncssp_of. rewrite Hsel. reflexivity.
  - cbn [map]. rewrite H4, H5, (sent_head srv _ (S k)). reflexivity.
Qed.

(* a server that does not answer the connection request gets the request and nothing else *)
Theorem causality_first :
  forall p ber_parse trusted tls_start cssp_run cssp_msgs (c : fcfg) (srv : server) (n : nat),
    valid_fcfg c ->
    let r := flow p ber_parse trusted tls_start cssp_run cssp_msgs c n [] in
    fl_res r = Err EIo /\
    exists cr, fl_trace r = [FRaw cr] /\ map frame_kind [cr] = map Some (sent_before_reply srv (f_user_first c) 0).
Proof.
  intros p ber_parse trusted tls_start cssp_run cssp_msgs c srv n Hv r.
  destruct (connect_no_confirm p ber_parse trusted tls_start cssp_run (conn_cfg c) [] eq_refl) as [st [Hrun Hev]].
  unfold r, flow. rewrite Hrun. cbn [fl_res fl_trace]. split; [reflexivity|].
  destruct Hv as (_ & _ & _ & _ & _ & _ & _ & Hoff & _).
  destruct (C04_proofs.emit_cr_parses p (f_pdu c)) as [f [He Hp]]; [destruct Hoff as [-> | ->]; lia|].
  exists f. rewrite Hev. cbn [render_trace render_msg cr_msg]. rewrite He. cbn [of_outcome wrap]. split; [reflexivity|].
  cbn [map]. unfold frame_kind. rewrite Hp. cbn [kind_of].
  unfold sent_before_reply, conversation. destruct (zip_answers _ _ _) as [xs fin]. reflexivity.
Qed.

(* the mandated sequence in one line *)
Lemma answers_flat srv : forall rs prev, List.concat (session_answers srv prev rs) = flat_map (finalization srv) rs.
Proof.
  induction rs as [|r tl IH]; intros prev; [reflexivity|].
  cbn [session_answers flat_map]. rewrite !concat_app, IH.
  replace (List.concat match prev with Some _ => [[]] | None => [] end) with (@nil kind) by (destruct prev; reflexivity).
  unfold round_answers. cbn [List.concat app]. rewrite !app_nil_r. reflexivity.
Qed.

Theorem expected_form srv uf :
  expected_kinds srv uf =
    [KRequest; KConnectInitial; KErectDomain; KAttachUser;
     KJoin (sv_uid srv) (nth 0 (joins srv uf) 0); KJoin (sv_uid srv) (nth 1 (joins srv uf) 0);
     KInfo (sv_uid srv) (sv_io srv)]
    ++ flat_map (finalization srv) (sv_rounds srv) ++ [KDisconnect].
Proof. rewrite conversation_kinds, answers_flat. reflexivity. Qed.
