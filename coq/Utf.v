(* Strings are lists of Unicode scalar values (N); the two encodings the client uses:
   String::encode_utf16 written as U16::LE (ntlm.rs `unicode`) and String::as_bytes (UTF-8). *)
From RdpV Require Import Base.

Definition utf16_units (c : N) : list N :=
  if c <? 65536 then [c]
  else let c' := c - 65536 in [55296 + c' / 1024; 56320 + c' mod 1024].

Definition utf16le (s : list N) : bytes := flat_map (fun c => flat_map le16 (utf16_units c)) s.

Definition utf8_char (c : N) : bytes :=
  if c <? 128 then [c]
  else if c <? 2048 then [192 + c / 64; 128 + c mod 64]
  else if c <? 65536 then [224 + c / 4096; 128 + (c / 64) mod 64; 128 + c mod 64]
  else [240 + c / 262144; 128 + (c / 4096) mod 64; 128 + (c / 64) mod 64; 128 + c mod 64].

Definition utf8 (s : list N) : bytes := flat_map utf8_char s.

Definition is_ascii (s : list N) : bool := forallb (fun c => c <? 128) s.
