(* Base conventions shared by every model file: bytes are [N], byte strings are
   [list N], results carry an error kind mirroring RdpErrorKind plus I/O. *)
From Coq Require Export List NArith ZArith Bool Lia.
Export ListNotations.
Open Scope N_scope.

Definition byte := N.
Definition bytes := list N.

Definition is_byte (b : N) : bool := b <? 256.
Definition wf_bytes (l : bytes) : Prop := Forall (fun b => b < 256) l.

(* Error kinds (RdpErrorKind of model/error.rs, plus the non-Rdp variants of Error). *)
Inductive err : Type :=
| EIo            (* Error::Io(_): short read, EOF, transport failure *)
| EInvalidRespond | ENotImplemented | EDisconnect | EInvalidAutomata | EInvalidProtocol
| EProtocolNegFailure | EInvalidCast | EInvalidConst | EInvalidChecksum | EInvalidOptionalField
| EInvalidSize | EInvalidData | EPossibleMITM | ERejectedByServer | EUnexpectedType | EUnknown
| EAsn1 | ESsl | ETryFrom.

Inductive outcome (A : Type) : Type :=
| Ok (a : A)
| Err (e : err)
| Panic
| Spin.
Arguments Ok {A} _.
Arguments Err {A} _.
Arguments Panic {A}.
Arguments Spin {A}.

Definition obind {A B} (o : outcome A) (f : A -> outcome B) : outcome B :=
  match o with Ok a => f a | Err e => Err e | Panic => Panic | Spin => Spin end.

Definition is_ok {A} (o : outcome A) : bool := match o with Ok _ => true | _ => false end.
Definition crashes {A} (o : outcome A) : bool := match o with Panic | Spin => true | _ => false end.

(* Build profile: debug builds trap on integer overflow, release builds wrap. *)
Inductive prof := Debug | Release.

Definition two_pow (w : N) : N := 2 ^ w.

(* w-bit unsigned machine arithmetic under a profile *)
Definition add_w (p : prof) (w a b : N) : outcome N :=
  if a + b <? 2 ^ w then Ok (a + b) else match p with Debug => Panic | Release => Ok ((a + b) mod 2 ^ w) end.
Definition sub_w (p : prof) (w a b : N) : outcome N :=
  if b <=? a then Ok (a - b) else match p with Debug => Panic | Release => Ok ((2 ^ w + a - b) mod 2 ^ w) end.
Definition mul_w (p : prof) (w a b : N) : outcome N :=
  if a * b <? 2 ^ w then Ok (a * b) else match p with Debug => Panic | Release => Ok ((a * b) mod 2 ^ w) end.

Definition u16_hi (n : N) : N := (n / 256) mod 256.
Definition u16_lo (n : N) : N := n mod 256.
Definition be16 (n : N) : bytes := [u16_hi n; u16_lo n].
Definition le16 (n : N) : bytes := [u16_lo n; u16_hi n].
Definition le32 (n : N) : bytes := [n mod 256; (n / 256) mod 256; (n / 65536) mod 256; (n / 16777216) mod 256].
Definition be32 (n : N) : bytes := [(n / 16777216) mod 256; (n / 65536) mod 256; (n / 256) mod 256; n mod 256].

Definition of_be16 (h l : N) : N := h * 256 + l.
Definition of_le16 (l h : N) : N := h * 256 + l.
Definition of_le32 (a b c d : N) : N := a + 256 * b + 65536 * c + 16777216 * d.
Definition of_be32 (a b c d : N) : N := d + 256 * c + 65536 * b + 16777216 * a.

Definition nlen {A} (l : list A) : N := N.of_nat (length l).

Lemma nlen_app {A} (a b : list A) : nlen (a ++ b) = nlen a + nlen b.
Proof. unfold nlen. rewrite app_length. lia. Qed.

Lemma nlen_nil {A} : nlen (@nil A) = 0.
Proof. reflexivity. Qed.

Lemma nlen_cons {A} (x : A) l : nlen (x :: l) = 1 + nlen l.
Proof. unfold nlen. cbn [length]. lia. Qed.

Lemma be16_of (n : N) : n < 65536 -> of_be16 (u16_hi n) (u16_lo n) = n.
Proof.
  intros H. unfold of_be16, u16_hi, u16_lo.
  rewrite (N.mod_small (n / 256) 256).
  - rewrite N.mul_comm. symmetry. apply N.div_mod. lia.
  - apply N.div_lt_upper_bound; lia.
Qed.
