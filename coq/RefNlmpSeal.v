(* SPEC: MS-NLMP session security with NTLMSSP_NEGOTIATE_EXTENDED_SESSIONSECURITY,
   NTLMSSP_NEGOTIATE_KEY_EXCH, NTLMSSP_NEGOTIATE_128, SIGN and SEAL, as negotiated by the
   client.  Written from the standard (sections 3.4.2 - 3.4.5), independently of ntlm.rs:

     SIGNKEY(k, "Client") = MD5(k ++ "session key to client-to-server signing key magic constant\0")
     SEALKEY(k, "Client") = MD5(k ++ "session key to client-to-server sealing key magic constant\0")
                            (128-bit: the whole exported session key is used)
     SEAL(Handle, SigningKey, SeqNum, Message):
        Sealed    = RC4(Handle, Message)
        Signature = MAC(Handle, SigningKey, SeqNum, Message)
     MAC(Handle, SigningKey, SeqNum, Message):
        Version  = 0x00000001
        Checksum = RC4(Handle, HMAC_MD5(SigningKey, SeqNum ++ Message)[0..7])
        SeqNum   = SeqNum ;  SeqNum := SeqNum + 1
   A conforming RECEIVER (3.4.2/3.4.3) decrypts with its handle for that direction,
   computes the signature it expects with ITS OWN sequence number, and accepts iff the 16
   bytes received equal the 16 bytes expected.
   On the wire (GSS wrap token as carried by CredSSP): Signature(16) ++ Sealed. *)
From Coq Require Import String Ascii.
From RdpV Require Import Base Rc4.

Definition ascii_bytes (s : string) : bytes := map N_of_ascii (list_ascii_of_string s).

Inductive role := Client | Server.
Definition dir_name (sender : role) : string :=
  match sender with Client => "client-to-server" | Server => "server-to-client" end.
Definition magic (sender : role) (what : string) : bytes :=
  ascii_bytes (append "session key to " (append (dir_name sender) (append " " (append what " key magic constant"))))
  ++ [0].

(* one direction of a session: cipher handle, signing key, next sequence number *)
Record dirstate := mkDir { handle : rc4; sigkey : bytes; seqnum : N }.

Definition same_elts (a b : bytes) : bool :=
  Nat.eqb (length a) (length b) && forallb (fun p => fst p =? snd p) (combine a b).

Section Spec.
Variable MD5 : bytes -> bytes.
Variable HMAC_MD5 : bytes -> bytes -> bytes.

Definition SIGNKEY (k : bytes) (sender : role) : bytes := MD5 (k ++ magic sender "signing").
Definition SEALKEY (k : bytes) (sender : role) : bytes := MD5 (k ++ magic sender "sealing").

Definition MAC (d : dirstate) (message : bytes) : bytes * dirstate :=
  let digest := HMAC_MD5 (sigkey d) (le32 (seqnum d) ++ message) in
  let (checksum, h') := rc4_process (handle d) (firstn 8 digest) in
  (le32 1 ++ checksum ++ le32 (seqnum d),
   mkDir h' (sigkey d) ((seqnum d + 1) mod 2 ^ 32)).

(* (signature, sealed message) *)
Definition SEAL (d : dirstate) (message : bytes) : (bytes * bytes) * dirstate :=
  let (sealed, h1) := rc4_process (handle d) message in
  let (signature, d') := MAC (mkDir h1 (sigkey d) (seqnum d)) message in
  ((signature, sealed), d').

(* the token a conforming sender puts on the wire *)
Definition nlmp_wrap (d : dirstate) (message : bytes) : bytes * dirstate :=
  let '((signature, sealed), d') := SEAL d message in (signature ++ sealed, d').

(* a conforming receiver *)
Definition UNSEAL (d : dirstate) (signature sealed : bytes) : option bytes * dirstate :=
  let (message, h1) := rc4_process (handle d) sealed in
  let (expected, d') := MAC (mkDir h1 (sigkey d) (seqnum d)) message in
  if same_elts signature expected then (Some message, d') else (None, d').

Definition nlmp_unwrap (d : dirstate) (token : bytes) : option bytes * dirstate :=
  if Nat.ltb (length token) 16 then (None, d)
  else UNSEAL d (firstn 16 token) (skipn 16 token).

(* any number of messages in one direction *)
Fixpoint nlmp_wrap_all (d : dirstate) (ms : list bytes) : list bytes * dirstate :=
  match ms with
  | [] => ([], d)
  | m :: ms' => let (t, d1) := nlmp_wrap d m in
                let (ts, d2) := nlmp_wrap_all d1 ms' in (t :: ts, d2)
  end.

(* the two directions of a fresh session under an exported session key, as seen by `me` *)
Definition session_dir (k : bytes) (sender : role) : option dirstate :=
  match rc4_new (SEALKEY k sender) with
  | Ok h => Some (mkDir h (SIGNKEY k sender) 0)
  | _ => None
  end.

End Spec.
