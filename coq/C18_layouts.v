(* Round-trip theorems for the concrete layouts the client emits (LayoutsGlobal.v), for ALL
   field values / payloads satisfying the stated arithmetic side conditions: instances of
   MsgTheory.read_write. *)
From RdpV Require Import Base Msg MsgInd MsgTheory LayoutsGlobal.
Open Scope string_scope.
Open Scope list_scope.
Open Scope N_scope.

Ltac Zify.zify_post_hook ::= Z.to_euclidean_division_equations.

(* evaluate the checker on a layout whose field names, kinds and closures are concrete and
   whose values are symbolic; what is left is a conjunction of arithmetic side conditions *)
Ltac wf_cbn :=
  cbn [wf wf_fields wf_trame mem dyn_lookup options eval_clo eval_cexp num_of obind
       String.eqb Ascii.eqb Bool.eqb andb is_nil endian_eqb clo_eqb cexp_eqb ccond_eqb].
Ltac split_and := repeat match goal with |- (_ && _) = true => apply andb_true_iff; split end.
Ltac arith := unfold as_u16, isize_max in *; lia.
Ltac leaf :=
  first [ reflexivity
        | apply N.ltb_lt; arith
        | apply N.leb_le; arith
        | apply N.eqb_eq; arith
        | unfold length_is; cbn [mlength]; apply N.eqb_eq; arith
        | idtac ].

(* from the checker to the statement about bytes *)
Lemma rt_open p t m : wf p false t m = true ->
  forall rest, exists b a, write p m = Some b /\ mlength p m = Some (nlen b) /\ read p t (b ++ rest) = ROk m rest a.
Proof.
  intros Hwf rest. destruct (read_write_total p t m false Hwf) as [b [Hb [Hl Hr]]].
  destruct (Hr rest) as [a Ha]; [intros Hd; discriminate|]. exists b, a. auto.
Qed.

Lemma rt_closed p t m : wf p true t m = true ->
  exists b a, write p m = Some b /\ mlength p m = Some (nlen b) /\ read p t b = ROk m [] a.
Proof.
  intros Hwf. destruct (read_write_total p t m true Hwf) as [b [Hb [Hl Hr]]].
  destruct (Hr [] (fun _ => eq_refl)) as [a Ha]. rewrite app_nil_r in Ha. exists b, a. auto.
Qed.

(* ---------------------------------------------------------------- share control / share data *)
Lemma share_control_header_wf p closed pdu_type pdu_source message :
  pdu_type < 65536 -> pdu_source < 65536 -> nlen message + 6 < 65536 ->
  wf p closed share_control_header_t (share_control_header pdu_type pdu_source message) = true.
Proof.
  intros Ht Hs Hm. unfold share_control_header_t, share_control_header, u16le, size_minus.
  wf_cbn. split_and; leaf.
Qed.

Theorem share_control_header_rt : forall p pdu_type pdu_source message rest,
  pdu_type < 65536 -> pdu_source < 65536 -> nlen message + 6 < 65536 ->
  exists b a,
    write p (share_control_header pdu_type pdu_source message) = Some b /\
    mlength p (share_control_header pdu_type pdu_source message) = Some (nlen b) /\
    read p share_control_header_t (b ++ rest) = ROk (share_control_header pdu_type pdu_source message) rest a.
Proof.
  intros p ty src message rest Ht Hs Hm. apply rt_open. apply share_control_header_wf; assumption.
Qed.

Lemma share_data_header_wf p closed share_id pdu_type_2 message :
  share_id < 4294967296 -> nlen message + 18 < 65536 ->
  wf p closed share_data_header_t (share_data_header share_id pdu_type_2 message) = true.
Proof.
  intros Hs Hm. unfold share_data_header_t, share_data_header, u16le, u32le, size_minus.
  wf_cbn. split_and; leaf.
Qed.

Theorem share_data_header_rt : forall p share_id pdu_type_2 message rest,
  share_id < 4294967296 -> nlen message + 18 < 65536 ->
  exists b a,
    write p (share_data_header share_id pdu_type_2 message) = Some b /\
    mlength p (share_data_header share_id pdu_type_2 message) = Some (nlen b) /\
    read p share_data_header_t (b ++ rest) = ROk (share_data_header share_id pdu_type_2 message) rest a.
Proof.
  intros p sid t2 message rest Hs Hm. apply rt_open. apply share_data_header_wf; assumption.
Qed.

(* ---------------------------------------------------------------- capability sets *)
Lemma capability_set_wf p closed cap_type body :
  cap_type < 65536 -> nlen body + 4 < 65536 ->
  wf p closed capability_set_t (capability_set cap_type body (nlen body)) = true.
Proof.
  intros Ht Hb. unfold capability_set_t, capability_set, u16le, size_minus.
  wf_cbn. split_and; leaf.
Qed.

Theorem capability_set_rt : forall p cap_type body rest,
  cap_type < 65536 -> nlen body + 4 < 65536 ->
  exists b a,
    write p (capability_set cap_type body (nlen body)) = Some b /\
    mlength p (capability_set cap_type body (nlen body)) = Some (nlen b) /\
    read p capability_set_t (b ++ rest) = ROk (capability_set cap_type body (nlen body)) rest a.
Proof.
  intros p ty body rest Ht Hb. apply rt_open. apply capability_set_wf; assumption.
Qed.

Lemma capability_set_nonempty p cap_type body len : writes_nonempty p (capability_set cap_type body len) = true.
Proof. reflexivity. Qed.

Lemma capability_set_t_fails_on_empty p : fails_on_empty p capability_set_t = true.
Proof. reflexivity. Qed.

(* ---------------------------------------------------------------- arrays written by Array::from_trame *)
(* the client builds its arrays with Array::from_trame (factory None); reading gives the
   same elements with the template's factory.  [write] and [mlength] ignore the factory. *)
Lemma wf_elems_forall p tmpl l :
  Forall (fun e => wf p false tmpl e = true /\ writes_nonempty p e = true) l ->
  wf_elems p (wf p) tmpl l = true.
Proof.
  induction l as [|e l' IH]; intros HF; cbn [wf_elems]; [reflexivity|].
  inversion HF as [|? ? [He Hn] Hl']; subst. rewrite He, Hn, (IH Hl'). reflexivity.
Qed.

(* a capability set as the client builds it: the declared length is the length of the body *)
Definition is_capset (c : msg) : Prop :=
  exists cap_type body, c = capability_set cap_type body (nlen body) /\ cap_type < 65536 /\ nlen body + 4 < 65536.

(* what Global.mk_capset builds: body = the written capability, declared length = its length() *)
Lemma is_capset_mk p cap_type m body l :
  write p m = Some body -> mlength p m = Some l -> cap_type < 65536 -> nlen body + 4 < 65536 ->
  is_capset (capability_set cap_type body l).
Proof.
  intros Hw Hl Ht Hb. rewrite (length_write p m body Hw) in Hl. inversion Hl; subst l.
  exists cap_type, body. auto.
Qed.

Lemma capsets_wf p caps : Forall is_capset caps -> wf_elems p (wf p) capability_set_t caps = true.
Proof.
  intros HF. apply wf_elems_forall. eapply Forall_impl; [|exact HF].
  intros c [ty [body [-> [Ht Hb]]]]. split; [apply capability_set_wf; assumption|apply capability_set_nonempty].
Qed.

(* ---------------------------------------------------------------- confirm active *)
(* the PDU as it is read back: the array carries the template's factory *)
Definition ts_confirm_active_pdu_r (share_id : N) (source : bytes) (caps : list msg) (caps_len : N) : msg :=
  MComp [
    ("shareId", u32le share_id);
    ("originatorId", MCheck (u16le 1002));
    ("lengthSourceDescriptor", MDyn (u16le (as_u16 (nlen source))) (size_of "sourceDescriptor"));
    ("lengthCombinedCapabilities", MDyn (u16le (as_u16 (as_u16 caps_len + 4))) (size_minus "capabilitySets" 4));
    ("sourceDescriptor", MBytes source);
    ("numberCapabilities", u16le (as_u16 (nlen caps)));
    ("pad2Octets", u16le 0);
    ("capabilitySets", MArray caps (Some capability_set_t))
  ].

Lemma ts_confirm_active_pdu_write p share_id source caps caps_len :
  write p (ts_confirm_active_pdu share_id source caps caps_len) = write p (ts_confirm_active_pdu_r share_id source caps caps_len).
Proof. reflexivity. Qed.

Lemma ts_confirm_active_pdu_length p share_id source caps caps_len :
  mlength p (ts_confirm_active_pdu share_id source caps caps_len) = mlength p (ts_confirm_active_pdu_r share_id source caps caps_len).
Proof. reflexivity. Qed.

Lemma ts_confirm_active_pdu_wf p closed share_id source caps caps_len :
  share_id < 4294967296 -> nlen source < 65536 ->
  Forall is_capset caps -> mlength p (MArray caps None) = Some caps_len -> caps_len + 4 < 65536 ->
  wf p closed ts_confirm_active_pdu_t (ts_confirm_active_pdu_r share_id source caps caps_len) = true.
Proof.
  intros Hs Hsrc Hcaps Hlen Hcl. unfold ts_confirm_active_pdu_t, ts_confirm_active_pdu_r, u16le, u32le, size_minus, size_of.
  wf_cbn. split_and; leaf.
  - apply capsets_wf. exact Hcaps.
  - unfold length_is. rewrite length_array_eq. rewrite length_array_eq in Hlen. rewrite Hlen. apply N.eqb_eq. arith.
Qed.

Theorem ts_confirm_active_pdu_rt : forall p share_id source caps caps_len rest,
  share_id < 4294967296 -> nlen source < 65536 ->
  Forall is_capset caps -> mlength p (MArray caps None) = Some caps_len -> caps_len + 4 < 65536 ->
  exists b a,
    write p (ts_confirm_active_pdu share_id source caps caps_len) = Some b /\
    mlength p (ts_confirm_active_pdu share_id source caps caps_len) = Some (nlen b) /\
    read p ts_confirm_active_pdu_t (b ++ rest) = ROk (ts_confirm_active_pdu_r share_id source caps caps_len) rest a.
Proof.
  intros p sid source caps cl rest Hs Hsrc Hcaps Hlen Hcl.
  rewrite ts_confirm_active_pdu_write, ts_confirm_active_pdu_length.
  apply rt_open. apply ts_confirm_active_pdu_wf; assumption.
Qed.

(* ---------------------------------------------------------------- data PDUs *)
Lemma ts_synchronize_pdu_wf p closed t0 target_user :
  target_user < 65536 -> wf p closed (ts_synchronize_pdu t0) (ts_synchronize_pdu target_user) = true.
Proof. intros Ht. unfold ts_synchronize_pdu, u16le. wf_cbn. split_and; leaf. Qed.

Theorem ts_synchronize_pdu_rt : forall p t0 target_user rest,
  target_user < 65536 ->
  exists b a,
    write p (ts_synchronize_pdu target_user) = Some b /\
    mlength p (ts_synchronize_pdu target_user) = Some (nlen b) /\
    read p (ts_synchronize_pdu t0) (b ++ rest) = ROk (ts_synchronize_pdu target_user) rest a.
Proof. intros p t0 tu rest Ht. apply rt_open. apply ts_synchronize_pdu_wf; assumption. Qed.

Lemma ts_control_pdu_wf p closed a0 action :
  action < 65536 -> wf p closed (ts_control_pdu a0) (ts_control_pdu action) = true.
Proof. intros Ht. unfold ts_control_pdu, u16le, u32le. wf_cbn. split_and; leaf. Qed.

Theorem ts_control_pdu_rt : forall p a0 action rest,
  action < 65536 ->
  exists b a,
    write p (ts_control_pdu action) = Some b /\
    mlength p (ts_control_pdu action) = Some (nlen b) /\
    read p (ts_control_pdu a0) (b ++ rest) = ROk (ts_control_pdu action) rest a.
Proof. intros p a0 action rest Ht. apply rt_open. apply ts_control_pdu_wf; assumption. Qed.

Lemma ts_font_list_pdu_wf p closed : wf p closed ts_font_list_pdu ts_font_list_pdu = true.
Proof. destruct closed; reflexivity. Qed.

Theorem ts_font_list_pdu_rt : forall p rest,
  exists b a,
    write p ts_font_list_pdu = Some b /\
    mlength p ts_font_list_pdu = Some (nlen b) /\
    read p ts_font_list_pdu (b ++ rest) = ROk ts_font_list_pdu rest a.
Proof. intros p rest. apply rt_open. apply ts_font_list_pdu_wf. Qed.

(* ---------------------------------------------------------------- input *)
Lemma ts_pointer_event_wf p closed f0 x0 y0 flags x y :
  flags < 65536 -> x < 65536 -> y < 65536 ->
  wf p closed (ts_pointer_event f0 x0 y0) (ts_pointer_event flags x y) = true.
Proof. intros Hf Hx Hy. unfold ts_pointer_event, u16le. wf_cbn. split_and; leaf. Qed.

Theorem ts_pointer_event_rt : forall p f0 x0 y0 flags x y rest,
  flags < 65536 -> x < 65536 -> y < 65536 ->
  exists b a,
    write p (ts_pointer_event flags x y) = Some b /\
    mlength p (ts_pointer_event flags x y) = Some (nlen b) /\
    read p (ts_pointer_event f0 x0 y0) (b ++ rest) = ROk (ts_pointer_event flags x y) rest a.
Proof. intros p f0 x0 y0 flags x y rest Hf Hx Hy. apply rt_open. apply ts_pointer_event_wf; assumption. Qed.

Lemma ts_keyboard_event_wf p closed f0 c0 flags code :
  flags < 65536 -> code < 65536 ->
  wf p closed (ts_keyboard_event f0 c0) (ts_keyboard_event flags code) = true.
Proof. intros Hf Hc. unfold ts_keyboard_event, u16le. wf_cbn. split_and; leaf. Qed.

Theorem ts_keyboard_event_rt : forall p f0 c0 flags code rest,
  flags < 65536 -> code < 65536 ->
  exists b a,
    write p (ts_keyboard_event flags code) = Some b /\
    mlength p (ts_keyboard_event flags code) = Some (nlen b) /\
    read p (ts_keyboard_event f0 c0) (b ++ rest) = ROk (ts_keyboard_event flags code) rest a.
Proof. intros p f0 c0 flags code rest Hf Hc. apply rt_open. apply ts_keyboard_event_wf; assumption. Qed.

(* slowPathInputData is an unsized block: either the template holds a block of the same
   (non-zero) length -- then the event is self-delimiting -- or the template is empty
   (read_to_end) and the event must be the last thing in a bounded reader *)
Lemma ts_input_event_wf_fixed p closed mt0 td message_type data :
  message_type < 65536 -> td <> [] -> List.length td = List.length data ->
  wf p closed (ts_input_event mt0 td) (ts_input_event message_type data) = true.
Proof.
  intros Hm Hne Hlen. unfold ts_input_event, u16le, u32le. wf_cbn.
  destruct td as [|t0 td']; [congruence|]. rewrite Hlen, Nat.eqb_refl. split_and; leaf.
Qed.

Theorem ts_input_event_rt_fixed : forall p mt0 td message_type data rest,
  message_type < 65536 -> td <> [] -> List.length td = List.length data ->
  exists b a,
    write p (ts_input_event message_type data) = Some b /\
    mlength p (ts_input_event message_type data) = Some (nlen b) /\
    read p (ts_input_event mt0 td) (b ++ rest) = ROk (ts_input_event message_type data) rest a.
Proof. intros p mt0 td mt data rest Hm Hne Hlen. apply rt_open. apply ts_input_event_wf_fixed; assumption. Qed.

Lemma ts_input_event_wf_closed p mt0 message_type data :
  message_type < 65536 -> wf p true (ts_input_event mt0 []) (ts_input_event message_type data) = true.
Proof. intros Hm. unfold ts_input_event, u16le, u32le. wf_cbn. split_and; leaf. Qed.

Theorem ts_input_event_rt_closed : forall p mt0 message_type data,
  message_type < 65536 ->
  exists b a,
    write p (ts_input_event message_type data) = Some b /\
    mlength p (ts_input_event message_type data) = Some (nlen b) /\
    read p (ts_input_event mt0 []) b = ROk (ts_input_event message_type data) [] a.
Proof. intros p mt0 mt data Hm. apply rt_closed. apply ts_input_event_wf_closed; assumption. Qed.

Lemma ts_input_event_nonempty p message_type data : writes_nonempty p (ts_input_event message_type data) = true.
Proof. reflexivity. Qed.

Lemma ts_input_event_fails_on_empty p mt0 td : fails_on_empty p (ts_input_event mt0 td) = true.
Proof. reflexivity. Qed.

(* the input PDU: the events are read with a template whose data block has the events' size
   (6 bytes for pointer and scancode events); the array is the last field, so the PDU must be
   the last thing in its (bounded) reader *)
Definition ts_input_pdu_data_t (mt0 : N) (td : bytes) : msg :=
  MComp [ ("numEvents", u16le 0); ("pad2Octets", u16le 0);
          ("slowPathInputEvents", MArray [] (Some (ts_input_event mt0 td))) ].
Definition ts_input_pdu_data_r (mt0 : N) (td : bytes) (events : list msg) : msg :=
  MComp [ ("numEvents", u16le (as_u16 (nlen events))); ("pad2Octets", u16le 0);
          ("slowPathInputEvents", MArray events (Some (ts_input_event mt0 td))) ].

Definition is_input_event (td : bytes) (e : msg) : Prop :=
  exists message_type data, e = ts_input_event message_type data /\ message_type < 65536 /\
                            List.length td = List.length data.

Lemma ts_input_pdu_data_write p mt0 td events :
  write p (ts_input_pdu_data events) = write p (ts_input_pdu_data_r mt0 td events).
Proof. reflexivity. Qed.

Lemma ts_input_pdu_data_length p mt0 td events :
  mlength p (ts_input_pdu_data events) = mlength p (ts_input_pdu_data_r mt0 td events).
Proof. reflexivity. Qed.

Lemma ts_input_pdu_data_wf p mt0 td events :
  td <> [] -> Forall (is_input_event td) events ->
  wf p true (ts_input_pdu_data_t mt0 td) (ts_input_pdu_data_r mt0 td events) = true.
Proof.
  intros Hne Hev. unfold ts_input_pdu_data_t, ts_input_pdu_data_r, u16le.
  wf_cbn. split_and; leaf.
  - apply msg_eqb_refl.
  - apply wf_elems_forall. eapply Forall_impl; [|exact Hev].
    intros e [mt [data [-> [Hm Hlen]]]]. split; [apply ts_input_event_wf_fixed; assumption|apply ts_input_event_nonempty].
Qed.

Theorem ts_input_pdu_data_rt : forall p mt0 td events,
  td <> [] -> Forall (is_input_event td) events ->
  exists b a,
    write p (ts_input_pdu_data events) = Some b /\
    mlength p (ts_input_pdu_data events) = Some (nlen b) /\
    read p (ts_input_pdu_data_t mt0 td) b = ROk (ts_input_pdu_data_r mt0 td events) [] a.
Proof.
  intros p mt0 td events Hne Hev.
  rewrite (ts_input_pdu_data_write p mt0 td), (ts_input_pdu_data_length p mt0 td).
  apply rt_closed. apply ts_input_pdu_data_wf; assumption.
Qed.

(* the hypotheses of the array theorems are satisfiable: concrete instances *)
Example confirm_active_instance :
  let caps := [capability_set 8 [0; 0; 20; 0] 4; capability_set 15 [0; 0; 0; 0] 4] in
  Forall is_capset caps /\ mlength Debug (MArray caps None) = Some 16.
Proof.
  split; [|reflexivity].
  repeat constructor.
  - exists 8, [0; 0; 20; 0]. repeat split.
  - exists 15, [0; 0; 0; 0]. repeat split.
Qed.

Example input_pdu_instance :
  Forall (is_input_event (zeros 6)) [ts_input_event INPUT_EVENT_MOUSE [0; 8; 10; 0; 20; 0]; ts_input_event INPUT_EVENT_SCANCODE [0; 0; 30; 0; 0; 0]].
Proof.
  repeat constructor.
  - exists INPUT_EVENT_MOUSE, [0; 8; 10; 0; 20; 0]. repeat split.
  - exists INPUT_EVENT_SCANCODE, [0; 0; 30; 0; 0; 0]. repeat split.
Qed.
