(* Model of core/per.rs: all 22 PER primitives, transliterated, including their error
   paths, the debug/release difference of unchecked u8/u16/usize arithmetic and the
   allocation panics.  Readers take the unread input and return the value with the input
   left; every read error is returned with `?` by the callers, so the reader state after
   an error is not observable and not modelled.  No proofs here. *)
From RdpV Require Import Base.
Open Scope list_scope.
Open Scope N_scope.

(* ---- u8 / U16::BE / U32::BE reads through byteorder::read_exact ---- *)
Definition rd_u8 (i : bytes) : outcome (N * bytes) :=
  match i with b :: r => Ok (b, r) | [] => Err EIo end.
Definition rd_u16be (i : bytes) : outcome (N * bytes) :=
  match i with a :: b :: r => Ok (of_be16 a b, r) | _ => Err EIo end.
Definition rd_u32be (i : bytes) : outcome (N * bytes) :=
  match i with a :: b :: c :: d :: r => Ok (of_be32 a b c d, r) | _ => Err EIo end.

(* split without ever converting a number larger than the input to nat *)
Definition ntake (n : N) (i : bytes) : option (bytes * bytes) :=
  if n <=? nlen i then Some (firstn (N.to_nat n) i, skipn (N.to_nat n) i) else None.

Definition per_isize_max : N := 9223372036854775807.

(* ---- length determinant ---- *)
(* read_length: one octet; top bit set => 15 bits over two octets *)
Definition per_read_length (i : bytes) : outcome (N * bytes) :=
  obind (rd_u8 i) (fun '(b, r) =>
    if N.land b 128 =? 0 then Ok (b, r)
    else obind (rd_u8 r) (fun '(b2, r2) => Ok (N.land b 127 * 256 + b2, r2))).

(* write_length(length: u16): `length | 0x8000` on two octets above 0x7f -- for
   length >= 0x8000 the flag bit is already set and the value read back is length - 0x8000 *)
Definition per_write_length (len : N) : bytes :=
  if 127 <? len then be16 (N.lor len 32768) else [len].

(* ---- choice / selection / number of set / enumerates: one octet each ---- *)
Definition per_read_choice := rd_u8.
Definition per_write_choice (c : N) : bytes := [c].
Definition per_read_selection := rd_u8.
Definition per_write_selection (c : N) : bytes := [c].
Definition per_read_number_of_set := rd_u8.
Definition per_write_number_of_set (c : N) : bytes := [c].
Definition per_read_enumerates := rd_u8.
Definition per_write_enumerates (c : N) : N := c.          (* returns the octet itself *)

(* ---- integer: length octet then 1, 2 or 4 octets big endian ---- *)
Definition per_read_integer (i : bytes) : outcome (N * bytes) :=
  obind (per_read_length i) (fun '(size, r) =>
    if size =? 1 then rd_u8 r
    else if size =? 2 then rd_u16be r
    else if size =? 4 then rd_u32be r
    else Err EInvalidSize).

Definition per_write_integer (n : N) : bytes :=
  if n <=? 255 then per_write_length 1 ++ [n]
  else if n <=? 65535 then per_write_length 2 ++ be16 n
  else per_write_length 4 ++ be32 n.

(* ---- integer_16: U16::BE offset by a minimum ---- *)
Definition per_read_integer_16 (minimum : N) (i : bytes) : outcome (N * bytes) :=
  obind (rd_u16be i) (fun '(v, r) =>
    if v + minimum <? 65536 then Ok (v + minimum, r) else Err EInvalidSize).   (* checked_add *)

(* `integer - minimum` in u16: traps in debug, wraps in release *)
Definition per_write_integer_16 (p : prof) (v minimum : N) : outcome bytes :=
  obind (sub_w p 16 v minimum) (fun d => Ok (be16 d)).

(* ---- object identifier: exactly six arcs on five octets ---- *)
Definition oid_eqb (a b : bytes) : bool := if list_eq_dec N.eq_dec a b then true else false.

Definition per_read_object_identifier (oid : bytes) (i : bytes) : outcome (bool * bytes) :=
  if negb (nlen oid =? 6) then Err EInvalidSize
  else obind (per_read_length i) (fun '(len, r) =>
    if negb (len =? 5) then Err EInvalidSize
    else obind (rd_u8 r) (fun '(t, r1) =>
         obind (rd_u8 r1) (fun '(a2, r2) =>
         obind (rd_u8 r2) (fun '(a3, r3) =>
         obind (rd_u8 r3) (fun '(a4, r4) =>
         obind (rd_u8 r4) (fun '(a5, r5) =>
           Ok (oid_eqb [t / 40; t mod 40; a2; a3; a4; a5] oid, r5))))))).

Definition per_write_object_identifier (oid : bytes) : outcome bytes :=
  match oid with
  | [a0; a1; a2; a3; a4; a5] =>
      if (2 <? a0) || (39 <? a1) || existsb (fun a => 127 <? a) [a2; a3; a4; a5] then Err EInvalidData
      else Ok [5; a0 * 40 + a1; a2; a3; a4; a5]
  | _ => Err EInvalidSize
  end.

(* ---- numeric string: two digits per octet ---- *)
(* (c - 0x30) % 10 on u8: the subtraction traps in debug / wraps in release below '0' *)
Definition digit_of (p : prof) (c : N) : outcome N := obind (sub_w p 8 c 48) (fun d => Ok (d mod 10)).

Definition pack2 (p : prof) (c1 c2 : N) (k : outcome bytes) : outcome bytes :=
  obind (digit_of p c1) (fun d1 => obind (digit_of p c2) (fun d2 => obind k (fun r => Ok (d1 * 16 + d2 :: r)))).

Fixpoint pack_digits (p : prof) (s : bytes) : outcome bytes :=
  match s with
  | [] => Ok []
  | [c1] => pack2 p c1 48 (Ok [])
  | c1 :: c2 :: tl => pack2 p c1 c2 (pack_digits p tl)
  end.

(* minimum is a usize below 2^63 (the `as i64` casts are then exact) *)
Definition per_write_numeric_string (p : prof) (s : bytes) (minimum : N) : outcome bytes :=
  let len := nlen s in
  let l := if minimum <=? len then len - minimum else len in
  obind (pack_digits p s) (fun body => Ok (per_write_length (l mod 65536) ++ body)).

Fixpoint unpack_digits (n : nat) (packed : bytes) : bytes :=
  match n, packed with
  | O, _ => []
  | S O, b :: _ => [b / 16 + 48]
  | S (S n'), b :: tl => (b / 16 + 48) :: (N.land b 15 + 48) :: unpack_digits n' tl
  | _, [] => []
  end.

Definition per_read_numeric_string (p : prof) (minimum : N) (i : bytes) : outcome (bytes * bytes) :=
  obind (per_read_length i) (fun '(l, r) =>
  obind (add_w p 64 l minimum) (fun n =>
  obind (add_w p 64 n 1) (fun n1 =>
    match ntake (n1 / 2) r with
    | None => Err EIo
    | Some (packed, rest) =>
        if per_isize_max <? n then Panic                      (* Vec::with_capacity(length) *)
        else Ok (unpack_digits (N.to_nat n) packed, rest)
    end))).

(* ---- padding ---- *)
(* vec![0; length] then ONE `read` call whose count is ignored: consumes min(length, what is there) *)
Definition per_read_padding (n : N) (i : bytes) : outcome (unit * bytes) :=
  if per_isize_max <? n then Panic
  else Ok (tt, skipn (N.to_nat (N.min n (nlen i))) i).

Definition per_write_padding (n : N) : outcome bytes :=
  if per_isize_max <? n then Panic else Ok (repeat 0 (N.to_nat n)).

(* ---- octet stream: length (minus a minimum) then the octets; the reader COMPARES with an expected string ---- *)
Fixpoint expect_octets (expected i : bytes) : outcome (unit * bytes) :=
  match expected with
  | [] => Ok (tt, i)
  | e :: tl => match i with
               | [] => Err EIo
               | c :: r => if c =? e then expect_octets tl r else Err EInvalidData
               end
  end.

Definition per_read_octet_stream (p : prof) (expected : bytes) (minimum : N) (i : bytes) : outcome (unit * bytes) :=
  obind (per_read_length i) (fun '(l, r) =>
  obind (add_w p 64 l minimum) (fun n =>
    if negb (n =? nlen expected) then Err EInvalidSize else expect_octets expected r)).

(* when the string is shorter than the minimum the code announces `minimum` itself *)
Definition per_write_octet_stream (s : bytes) (minimum : N) : bytes :=
  let len := nlen s in
  let l := if minimum <=? len then len - minimum else minimum in
  per_write_length (l mod 65536) ++ s.
