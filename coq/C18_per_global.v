(* The PER helpers that Global.v (C06/C10-C12) carries for the MCS layer are the ones of Per.v. *)
From RdpV Require Import Base Per Global.
Open Scope N_scope.
Lemma global_per_read_length_agrees i : Global.per_read_length i = Per.per_read_length i.
Proof.
  unfold Global.per_read_length, Per.per_read_length, rd_u8. destruct i as [|b r]; [reflexivity|]. cbn [obind].
  destruct (N.land b 128 =? 0); [reflexivity|]. destruct r as [|b2 r2]; [reflexivity|]. cbn [obind].
  rewrite N.shiftl_mul_pow2. reflexivity.
Qed.
Lemma global_per_write_length_agrees n : Global.per_write_length n = Per.per_write_length n.
Proof. reflexivity. Qed.
Lemma global_per_read_integer_16_agrees m i : Global.per_read_integer_16 m i = Per.per_read_integer_16 m i.
Proof.
  unfold Global.per_read_integer_16, Per.per_read_integer_16, rd_u16be.
  destruct i as [|h [|l r]]; reflexivity.
Qed.
