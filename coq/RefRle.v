(* Reference semantics of the RDP bitmap codecs, written from the standards and
   independent of the decoder's structure (spec for C09):
     - interleaved RLE at 16 bpp: MS-RDPBCGR 2.2.9.1.1.3.1.2.4 (order headers) and 3.1.9
       (pseudo-code), read per pixel (DESIGN.md Appendix D);
     - planar RLE at 32 bpp: MS-RDPEGDI 3.1.9.2 with format header 0x10;
     - uncompressed bottom-up data;
     - 5-6-5 widening as the nearest integer to c*255/31 (c*255/63).
   Everything is executable.  A pixel is an [N] (16 bits for the interleaved codec,
   8 bits per plane value for the planar codec).  No proofs in this file. *)
From RdpV Require Import Base.

(* ------------------------------------------------------------------ images *)

(* rows of a flat raster of width w *)
Fixpoint rows_of (w : nat) (n : nat) (l : list N) : list (list N) :=
  match n with
  | O => []
  | S k => firstn w l :: rows_of w k (skipn w l)
  end.

(* bottom-up <-> top-down: reverse the order of the h rows of width w *)
Definition flip_rows (w h : N) (l : list N) : list N :=
  concat (rev (rows_of (N.to_nat w) (N.to_nat h) l)).

(* nearest integer to c * 255 / m  (m = 31 or 63); there are no ties *)
Definition nearest (c m : N) : N := (2 * c * 255 + m) / (2 * m).

(* a 5-6-5 pixel as the four bytes B G R A *)
Definition widen565 (v : N) : list N :=
  [nearest (v mod 32) 31; nearest ((v / 32) mod 64) 63; nearest ((v / 2048) mod 32) 31; 255].

Definition bgra16 (img : list N) : list N := flat_map widen565 img.

(* ------------------------------------------------------------------ interleaved RLE, 16 bpp *)

Inductive order :=
| OBg (n : N)                          (* background run *)
| OFg (n : N)                          (* foreground run *)
| OSetFg (fg n : N)                    (* set foreground, then foreground run *)
| OFgBg (n : N) (masks : list N)       (* foreground/background image, one mask byte per 8 pixels, LSB first *)
| OSetFgBg (fg n : N) (masks : list N)
| OColor (c n : N)                     (* colour run *)
| OImage (pixels : list N)             (* colour image *)
| ODither (c1 c2 n : N)                (* dithered run: c1 c2 repeated n times *)
| OSpecial1                            (* F9: FGBG image, mask 0x03, 8 pixels *)
| OSpecial2                            (* FA: FGBG image, mask 0x05, 8 pixels *)
| OWhite                               (* FD *)
| OBlack.                              (* FE *)

(* ---- flat per-pixel semantics.  State: pixels so far in raster order of the BOTTOM-UP
   image, current foreground colour (initially white), "the previous order was a
   background run". *)

Definition above (w : N) (out : list N) : option N :=
  if (0 <? w) && (w <=? nlen out) then Some (nth (N.to_nat (nlen out - w)) out 0) else None.

Definition bg_px (w : N) (out : list N) : N :=
  match above w out with Some a => a | None => 0 end.
Definition fg_px (w fg : N) (out : list N) : N :=
  match above w out with Some a => N.lxor a fg | None => fg end.

Fixpoint run (n : nat) (px : list N -> N) (out : list N) : list N :=
  match n with
  | O => out
  | S k => run k px (out ++ [px out])
  end.

(* bit k (0 = least significant) of the mask byte covering pixel i *)
Definition mask_bit (masks : list N) (i : nat) : bool :=
  N.testbit (nth (i / 8) masks 0) (N.of_nat (i mod 8)).

Fixpoint fgbg (n : nat) (i : nat) (w fg : N) (masks : list N) (out : list N) : list N :=
  match n with
  | O => out
  | S k => fgbg k (S i) w fg masks (out ++ [if mask_bit masks i then fg_px w fg out else bg_px w out])
  end.

Fixpoint dither (n : nat) (c1 c2 : N) (out : list N) : list N :=
  match n with
  | O => out
  | S k => dither k c1 c2 (out ++ [c1; c2])
  end.

Record sstate := mkSS { ss_out : list N; ss_fg : N; ss_ins : bool }.

Definition sem_order (w : N) (o : order) (s : sstate) : sstate :=
  let out := ss_out s in
  let fg := ss_fg s in
  match o with
  | OBg n =>
      (* foreground insertion between consecutive background runs, except exactly at the end of the first line *)
      let out1 := if ss_ins s && negb (nlen out =? w) then out ++ [fg_px w fg out] else out ++ [bg_px w out] in
      mkSS (run (N.to_nat n - 1) (bg_px w) out1) fg true
  | OFg n => mkSS (run (N.to_nat n) (fg_px w fg) out) fg false
  | OSetFg fg' n => mkSS (run (N.to_nat n) (fg_px w fg') out) fg' false
  | OFgBg n masks => mkSS (fgbg (N.to_nat n) 0 w fg masks out) fg false
  | OSetFgBg fg' n masks => mkSS (fgbg (N.to_nat n) 0 w fg' masks out) fg' false
  | OColor c n => mkSS (run (N.to_nat n) (fun _ => c) out) fg false
  | OImage px => mkSS (out ++ px) fg false
  | ODither c1 c2 n => mkSS (dither (N.to_nat n) c1 c2 out) fg false
  | OSpecial1 => mkSS (fgbg 8 0 w fg [3] out) fg false
  | OSpecial2 => mkSS (fgbg 8 0 w fg [5] out) fg false
  | OWhite => mkSS (out ++ [65535]) fg false
  | OBlack => mkSS (out ++ [0]) fg false
  end.

Definition sem_from (w : N) (os : list order) (s : sstate) : sstate :=
  fold_left (fun s o => sem_order w o s) os s.

Definition sem (w : N) (os : list order) : list N :=
  ss_out (sem_from w os (mkSS [] 65535 false)).

(* ---- serialisation: every legal form of every order *)

Inductive form := FShort | FExt | FMega.   (* count in the header byte | in one extra byte | 16-bit "mega-mega" *)

Definition le16s (l : list N) : bytes := flat_map le16 l.

(* header of an ordinary run order: code in the high bits, [bits] low bits of count, extension offset [off] *)
Definition hdr_run (f : form) (code bits off mega n : N) : option bytes :=
  match f with
  | FShort => if (1 <=? n) && (n <=? bits) then Some [code + n] else None
  | FExt => if (off <=? n) && (n <=? off + 255) then Some [code; n - off] else None
  | FMega => if (1 <=? n) && (n <=? 65535) then Some (mega :: le16 n) else None
  end.

(* header of a FGBG image: the header counts groups of 8 pixels, the extension counts pixels - 1 *)
Definition hdr_fgbg (f : form) (code bits mega n : N) : option bytes :=
  match f with
  | FShort => if (n mod 8 =? 0) && (1 <=? n / 8) && (n / 8 <=? bits) then Some [code + n / 8] else None
  | FExt => if (1 <=? n) && (n <=? 256) then Some [code; n - 1] else None
  | FMega => if (1 <=? n) && (n <=? 65535) then Some (mega :: le16 n) else None
  end.

Definition omap {A B} (o : option A) (f : A -> B) : option B :=
  match o with Some a => Some (f a) | None => None end.

Definition is16 (v : N) : bool := v <? 65536.
Definition masks_ok (n : N) (masks : list N) : bool :=
  (nlen masks =? (n + 7) / 8) && forallb (fun b => b <? 256) masks.

Definition ser (f : form) (o : order) : option bytes :=
  match o with
  | OBg n => hdr_run f 0 31 32 240 n
  | OFg n => hdr_run f 32 31 32 241 n
  | OFgBg n masks => if masks_ok n masks then omap (hdr_fgbg f 64 31 242 n) (fun h => h ++ masks) else None
  | OColor c n => if is16 c then omap (hdr_run f 96 31 32 243 n) (fun h => h ++ le16 c) else None
  | OImage px => if forallb is16 px then omap (hdr_run f 128 31 32 244 (nlen px)) (fun h => h ++ le16s px) else None
  | OSetFg fg n => if is16 fg then omap (hdr_run f 192 15 16 246 n) (fun h => h ++ le16 fg) else None
  | OSetFgBg fg n masks =>
      if is16 fg && masks_ok n masks then omap (hdr_fgbg f 208 15 247 n) (fun h => h ++ le16 fg ++ masks) else None
  | ODither c1 c2 n =>
      if is16 c1 && is16 c2 then omap (hdr_run f 224 15 16 248 n) (fun h => h ++ le16 c1 ++ le16 c2) else None
  | OSpecial1 => match f with FShort => Some [249] | _ => None end
  | OSpecial2 => match f with FShort => Some [250] | _ => None end
  | OWhite => match f with FShort => Some [253] | _ => None end
  | OBlack => match f with FShort => Some [254] | _ => None end
  end.

(* bs is a legal serialisation of the order list *)
Inductive serialises : list order -> bytes -> Prop :=
| ser_nil : serialises [] []
| ser_cons o os f b bs : ser f o = Some b -> serialises os bs -> serialises (o :: os) (b ++ bs).

(* executable instance: one chosen form per order *)
Fixpoint ser_all (l : list (form * order)) : option bytes :=
  match l with
  | [] => Some []
  | (f, o) :: r =>
      match ser f o, ser_all r with
      | Some b, Some bs => Some (b ++ bs)
      | _, _ => None
      end
  end.

(* the trivial encoder: one colour-image order per scan line (every image has an encoding) *)
Definition trivial_orders (w h : N) (img_bottom_up : list N) : list order :=
  map OImage (rows_of (N.to_nat w) (N.to_nat h) img_bottom_up).

(* ------------------------------------------------------------------ planar RLE, 32 bpp *)

(* one segment of a scan line of one plane *)
Inductive pseg :=
| PRaw (raw : list N) (run : N)   (* control = |raw| << 4 | run, raw values, then run repeats of the last value;
                                     run = 1, 2 are the escapes below; an empty segment is not conformant *)
| PLong (run : N).                (* 16..47 repeats of the last value: control = (run-16) << 4 | 1  or (run-32) << 4 | 2 *)

Definition pseg_ok (s : pseg) : bool :=
  match s with
  | PRaw raw r => (nlen raw <=? 15) && (r <=? 15) && negb (r =? 1) && negb (r =? 2) && (0 <? nlen raw + r) &&
                  forallb (fun b => b <? 256) raw
  | PLong r => (16 <=? r) && (r <=? 47)
  end.

Definition ser_pseg (s : pseg) : bytes :=
  match s with
  | PRaw raw r => (nlen raw * 16 + r) :: raw
  | PLong r => if r <? 32 then [(r - 16) * 16 + 1] else [(r - 32) * 16 + 2]
  end.

(* the symbols of a line: the run repeats the last raw value, or the value before the segment (0 at line start) *)
Fixpoint pline_syms (segs : list pseg) (last : N) : list N :=
  match segs with
  | [] => []
  | PRaw raw r :: t => let l := List.last raw last in raw ++ repeat l (N.to_nat r) ++ pline_syms t l
  | PLong r :: t => repeat last (N.to_nat r) ++ pline_syms t last
  end.

(* delta rows: an even symbol s means +s/2, an odd symbol s means -(s+1)/2, modulo 256 *)
Definition undelta (above sym : N) : N :=
  if sym mod 2 =? 0 then (above + sym / 2) mod 256 else (above + 256 - (sym / 2 + 1)) mod 256.

(* values of the lines of a plane, bottom-up: first line absolute, then deltas to the line before *)
Fixpoint plane_lines (lines : list (list pseg)) (prev : option (list N)) : list (list N) :=
  match lines with
  | [] => []
  | segs :: t =>
      let syms := pline_syms segs 0 in
      let vals := match prev with
                  | None => syms
                  | Some pv => map (fun '(a, s) => undelta a s) (combine pv syms)
                  end in
      vals :: plane_lines t (Some vals)
  end.

Definition plane_ok (w h : N) (lines : list (list pseg)) : bool :=
  (nlen lines =? h) &&
  forallb (fun segs => forallb pseg_ok segs && (nlen (pline_syms segs 0) =? w)) lines.

Definition ser_plane (lines : list (list pseg)) : bytes := flat_map (flat_map ser_pseg) lines.

(* the stream: format header 0x10 (RLE, alpha plane present, no chroma subsampling), planes A R G B *)
Definition ser_planar (a r g b : list (list pseg)) : bytes :=
  16 :: ser_plane a ++ ser_plane r ++ ser_plane g ++ ser_plane b.

(* interleave four planes (flat, same order) into B G R A bytes *)
Fixpoint interleave (b g r a : list N) : list N :=
  match b, g, r, a with
  | vb :: tb, vg :: tg, vr :: tr, va :: ta => vb :: vg :: vr :: va :: interleave tb tg tr ta
  | _, _, _, _ => []
  end.

(* the image described by four planes, as top-down BGRA bytes *)
Definition planar_image (a r g b : list (list pseg)) : list N :=
  let td (p : list (list pseg)) := concat (rev (plane_lines p None)) in
  interleave (td b) (td g) (td r) (td a).

(* ------------------------------------------------------------------ uncompressed *)

(* rows top-down of u16 pixels -> wire bytes (bottom-up, little endian) *)
Definition raw16_wire (rows : list (list N)) : bytes := flat_map le16s (rev rows).
(* rows top-down of BGRA byte rows -> wire bytes (bottom-up) *)
Definition raw32_wire (rows : list (list N)) : list N := concat (rev rows).
