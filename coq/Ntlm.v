(* Model of the NTLMv2 handshake of src/nla/ntlm.rs up to the AUTHENTICATE token:
     unicode, ntowfv2, ntowfv2_hash, lmowfv2, compute_response_v2, kx_key_v2, rc4k, mic,
     get_payload_field, read_target_info, Ntlm::{new, from_hash, create_negotiate_message,
     read_challenge_message}.
   The client's randomness (8-byte client challenge, 16-byte exported session key) are inputs.
   The hash functions and String::to_uppercase are parameters (Section variables): the theorems
   hold for any of them; the executable instance plugs in Md4/Md5/Hmac and takes the uppercase
   mapping from the case line (Rust's full Unicode mapping is an oracle, see DESIGN section 9). *)
From RdpV Require Import Base Msg Rc4 Utf LayoutsNtlmAuth.
Open Scope N_scope.

(* result of Msg.write as the unwrap() in to_vec sees it *)
Definition to_vec (p : prof) (m : msg) : outcome bytes :=
  match write p m with Some b => Ok b | None => Panic end.

Record ntlm := mkNtlm {
  n_domain : list N; n_user : list N; n_password : list N;
  n_key_nt : bytes; n_key_lm : bytes }.

(* most recent insertion first: HashMap::insert overwrites *)
Fixpoint av_find (id : N) (l : list (N * bytes)) : option bytes :=
  match l with
  | [] => None
  | (i, v) :: tl => if i =? id then Some v else av_find id tl
  end.

Section NtlmModel.
Variable md4 : bytes -> bytes.
Variable hmac : bytes -> bytes -> bytes.
Variable uppercase : list N -> list N.
Variable p : prof.

Definition unicode (s : list N) : bytes := utf16le s.

Definition ntowfv2 (password user domain : list N) : bytes :=
  hmac (md4 (unicode password)) (unicode (uppercase user ++ domain)).
Definition ntowfv2_hash (hash : bytes) (user domain : list N) : bytes :=
  hmac hash (unicode (uppercase user ++ domain)).
Definition lmowfv2 := ntowfv2.

(* (nt_challenge_response, lm_challenge_response, session_base_key) *)
Definition compute_response_v2 (key_nt key_lm server_challenge client_challenge time server_name : bytes)
  : bytes * bytes * bytes :=
  let temp := [1] ++ [1] ++ repeat 0 6 ++ time ++ client_challenge ++ repeat 0 4 ++ server_name in
  let nt_proof_str := hmac key_nt (server_challenge ++ temp) in
  (nt_proof_str ++ temp,
   hmac key_lm (server_challenge ++ client_challenge) ++ client_challenge,
   hmac key_nt nt_proof_str).

Definition kx_key_v2 (session_base_key lm server_challenge : bytes) : bytes := session_base_key.

Definition mic (exported_session_key negotiate challenge authenticate : bytes) : bytes :=
  hmac exported_session_key (negotiate ++ challenge ++ authenticate).

Definition ntlm_new (domain user password : list N) : ntlm :=
  mkNtlm domain user password (ntowfv2 password user domain) (lmowfv2 password user domain).
Definition ntlm_from_hash (domain user : list N) (hash : bytes) : ntlm :=
  mkNtlm domain user [] (ntowfv2_hash hash user domain) (ntowfv2_hash hash user domain).

Definition create_negotiate_message : outcome bytes :=
  to_vec p (negotiate_message_l client_negotiate_flags).

(* get_payload_field (repaired, C07 #13): offset = message.length() - payload.len();
   start = buffer_offset.checked_sub(offset), end = start.checked_add(length), end <= payload.len(),
   otherwise Err InvalidSize; &payload[start..end] *)
Definition get_payload_field (m : msg) (length buffer_offset : N) : outcome bytes :=
  obind (cast_bytes (get m "Payload")) (fun payload =>
  match mlength p m with
  | None => Panic
  | Some total =>
      let offset := total - nlen payload in
      if buffer_offset <? offset then Err EInvalidSize
      else let start := buffer_offset - offset in
           if start + length <=? nlen payload
           then Ok (firstn (N.to_nat length) (skipn (N.to_nat start) payload))
           else Err EInvalidSize
  end).

(* read_target_info: av_pair after av_pair until MsvAvEOL; ids outside 0..10 are refused *)
Fixpoint read_target_info (fuel : nat) (data : bytes) (acc : list (N * bytes)) : outcome (list (N * bytes)) :=
  match fuel with
  | O => Spin
  | S fuel' =>
      match read p av_pair_t data with
      | ROk m rest _ =>
          obind (cast_num 16 (get m "AvId")) (fun id =>
          if 10 <? id then Err ETryFrom
          else if id =? 0 then Ok acc
          else obind (cast_bytes (get m "Value")) (fun v => read_target_info fuel' rest ((id, v) :: acc)))
      | RErr e _ _ => Err e
      | RPanic => Panic
      | RSpin => Spin
      end
  end.

Definition encode_name (is_unicode : bool) (s : list N) : bytes :=
  if is_unicode then unicode s else utf8 s.

(* read_challenge_message; `negotiate` = what create_negotiate_message returned before *)
Definition read_challenge_message (st : ntlm) (negotiate request client_challenge exported_session_key : bytes)
  : outcome bytes :=
  match read p challenge_message_t request with
  | RErr e _ _ => Err e
  | RPanic => Panic
  | RSpin => Spin
  | ROk m _ _ =>
      obind (cast_bytes (get m "ServerChallenge")) (fun server_challenge =>
      obind (cast_num 16 (get m "TargetInfoLen")) (fun til =>
      obind (cast_num 32 (get m "TargetInfoBufferOffset")) (fun tio =>
      obind (get_payload_field m til tio) (fun target_name =>
      obind (read_target_info (S (List.length target_name)) target_name []) (fun target_info =>
      match av_find 7 target_info with
      | None => Err EInvalidData                           (* repaired (C07 #12): was panic!("no timestamp available") *)
      | Some timestamp =>
          let '(nt, lm, session_base_key) :=
            compute_response_v2 (n_key_nt st) (n_key_lm st) server_challenge client_challenge timestamp target_name in
          let key_exchange_key := kx_key_v2 session_base_key lm server_challenge in
          obind (rc4k key_exchange_key exported_session_key) (fun encrypted_key =>
          obind (cast_num 32 (get m "NegotiateFlags")) (fun flags =>
          let is_unicode := N.land flags 1 =? 1 in
          let domain := encode_name is_unicode (n_domain st) in
          let user := encode_name is_unicode (n_user st) in
          (* the guard added by the fix: every field is addressed by a 16-bit length *)
          if (65535 <? nlen nt) || (65535 <? nlen domain) || (65535 <? nlen user) then Err EInvalidSize
          else
          obind (to_vec p (authenticate_message_l lm nt domain user [] encrypted_key flags)) (fun header =>
          let payload := lm ++ nt ++ domain ++ user ++ [] ++ encrypted_key in
          let tmp := header ++ repeat 0 16 ++ payload in
          let signature := mic exported_session_key negotiate request tmp in
          Ok (header ++ signature ++ payload))))
      end)))))
  end.

End NtlmModel.
