(* Executable instance of CsspGate.v for the correspondence run: the DER writers of cssp.rs
   (yasna::construct_der over the fixed TSRequest shapes) and the DER readers of DerRead.v (model of
   yasna 0.3.2 on the two read templates), the concrete MD4 / MD5 / HMAC-MD5. *)
From RdpV Require Import Base Msg Link Rc4 Md5 Md4 Hmac Utf Ntlm NtlmSeal DerRead CsspGate.
Open Scope N_scope.

Fixpoint be_digits (fuel : nat) (n : N) (acc : bytes) : bytes :=
  match fuel with
  | O => acc
  | S f => if n =? 0 then acc else be_digits f (n / 256) ((n mod 256) :: acc)
  end.
Definition der_len (n : N) : bytes :=
  if n <? 128 then [n] else let d := be_digits 9 n [] in (128 + nlen d) :: d.
Definition der_tlv (tag : N) (body : bytes) : bytes := tag :: der_len (nlen body) ++ body.
Definition der_seq (body : bytes) := der_tlv 48 body.
Definition der_ctx (n : N) (body : bytes) := der_tlv (160 + n) body.
Definition der_octets (b : bytes) := der_tlv 4 b.
Definition der_small_int (v : N) : bytes := [2; 1; v].

Definition x_create_ts_request (nego : bytes) : bytes :=
  der_seq (der_ctx 0 (der_small_int 2) ++ der_ctx 1 (der_seq (der_seq (der_ctx 0 (der_octets nego))))).
Definition x_create_ts_authenticate (nego pub_key_auth : bytes) : bytes :=
  der_seq (der_ctx 0 (der_small_int 2) ++ der_ctx 1 (der_seq (der_seq (der_ctx 0 (der_octets nego))))
           ++ der_ctx 3 (der_octets pub_key_auth)).
Definition x_create_ts_credentials (domain user password : bytes) : bytes :=
  let creds := der_seq (der_ctx 0 (der_octets domain) ++ der_ctx 1 (der_octets user) ++ der_ctx 2 (der_octets password)) in
  der_seq (der_ctx 0 (der_small_int 1) ++ der_ctx 1 (der_octets creds)).
Definition x_create_ts_authinfo (auth_info : bytes) : bytes :=
  der_seq (der_ctx 0 (der_small_int 2) ++ der_ctx 2 (der_octets auth_info)).

(* read_ts_server_challenge: parse, then nego_tokens.inner.get(0) (repaired, C07 #11: an empty SEQUENCE OF is an error) *)
Definition x_read_ts_server_challenge (p : prof) (stream : bytes) : outcome bytes :=
  match der_ts_request p stream with
  | Ok (t :: _) => Ok t
  | Ok [] => Err EInvalidOptionalField
  | Err e => Err e
  | Panic => Panic
  | Spin => Spin
  end.
Definition x_read_ts_validate (p : prof) (request : bytes) : outcome bytes := der_ts_validate p request.

Definition cssp_connect_c (uppercase : list N -> list N) (p : prof) :=
  cssp_connect md5 hmac_md5 p x_create_ts_request x_create_ts_authenticate x_create_ts_credentials
               x_create_ts_authinfo (x_read_ts_server_challenge p) (x_read_ts_validate p).
