(* Byte-level emitters of EVERY PDU the client writes on the RDP layers, as functions of the
   configuration and of the identifiers the server assigns:
     x224::Client::write_connection_request      (X.224 CR + RDP_NEG_REQ)
     mcs::Client::write_connect_initial          (BER envelope + domain parameters (yasna DER writer),
                                                  gcc::write_conference_create_request (PER),
                                                  gcc::client_core_data / client_security_data /
                                                  client_network_data behind gcc::block_header)
     mcs erect_domain_request / attach_user_request / channel_join_request
     mcs::Client::write (send-data-request) around
        sec::connect's client info (rdp_infos + rdp_extended_infos),
        global.rs confirm-active, synchronize, control x2, font-list, input   (Global.v)
     mcs::Client::shutdown                       (disconnect-provider ultimatum)
   The PDUs that are component![..] declarations are terms of the message model written with
   Msg.write; the imperative writers (PER, DER) are transliterated.  Strings are lists of
   Unicode scalar values; [utf8] is the in-memory form of a Rust String (what .len(), slicing and
   as_bytes() see), [utf16] what encode_utf16() yields, [utf16le] = model::unicode::to_unicode.
   This is the model of the REPAIRED code (fix: commits for defects #22, #23, #24 of DESIGN.md, and of
   #25: the I/O channel id is the server's choice [i_io], the synchronize PDU targets the server's
   channel id 1002).
   No proofs here. *)
From RdpV Require Import Base Msg LayoutsGlobal LayoutsConnect Link Tpkt Global.
Open Scope string_scope.
Open Scope list_scope.
Open Scope N_scope.

(* ------------------------------------------------------------------ strings *)
Definition ustring := list N.

(* a Rust char: a Unicode scalar value *)
Definition scalar (c : N) : Prop := c < 55296 \/ (57344 <= c /\ c < 1114112).
Definition is_scalar (c : N) : bool := (c <? 55296) || ((57344 <=? c) && (c <? 1114112)).

Definition utf8_char (c : N) : bytes :=
  if c <? 128 then [c]
  else if c <? 2048 then [192 + c / 64; 128 + c mod 64]
  else if c <? 65536 then [224 + c / 4096; 128 + (c / 64) mod 64; 128 + c mod 64]
  else [240 + c / 262144; 128 + (c / 4096) mod 64; 128 + (c / 64) mod 64; 128 + c mod 64].
Definition utf8 (s : ustring) : bytes := flat_map utf8_char s.

(* char::encode_utf16 *)
Definition utf16_char (c : N) : list N :=
  if c <? 65536 then [c] else [55296 + (c - 65536) / 1024; 56320 + (c - 65536) mod 1024].
Definition utf16 (s : ustring) : list N := flat_map utf16_char s.

(* model::unicode::to_unicode: every code unit as U16::LE *)
Definition units_le (u : list N) : bytes := flat_map le16 u.
Definition utf16le (s : ustring) : bytes := units_le (utf16 s).

(* ------------------------------------------------------------------ configuration *)
Record config := mkCfg {
  c_offered : N;            (* security protocols put in the connection request (Connector: 1 or 3) *)
  c_ram : bool;             (* restricted admin mode *)
  c_autologon : bool;
  c_width : N; c_height : N;
  c_layout : N;             (* KeyboardLayout as u32 *)
  c_name : ustring;         (* client name *)
  c_domain : ustring; c_user : ustring; c_password : ustring
}.

(* what the server assigns / reports *)
Record server_ids := mkIds {
  i_selected : N;           (* protocol selected in the connection confirm *)
  i_version : N;            (* rdpVersion of the server core data *)
  i_uid : N;                (* attach-user confirm *)
  i_share : N;              (* demand-active *)
  i_io : N                  (* MCSChannelId of the server network data: the I/O channel *)
}.

(* gcc::Version::from as it is in /repo today has its two arms swapped (defect #20, repaired by
   the C18 work): the client appends the extended info exactly when this says "5+".
   [arms_swapped] is the switch; the emitters and theorems are parametric in it. *)
Definition version_arms_swapped : bool := false.
Definition is_rdp_version_5_plus (swapped : bool) (v : N) : bool :=
  if swapped then v =? 524289 (* 0x00080001 *) else v =? 524292 (* 0x00080004 *).

(* ------------------------------------------------------------------ framing *)
Definition X224_DATA : bytes := [2; 240; 128].

(* tpkt::Client::write under x224::Client::write: refused when the frame does not fit 16 bits *)
Definition x224_frame (m : bytes) : outcome bytes :=
  let t := X224_DATA ++ m in
  if 65535 - 4 <? nlen t then Err EInvalidSize else Ok (tpkt_frame t).

Section WithProfile.
Variable p : prof.

Definition wr (m : msg) : outcome bytes :=
  match write p m with Some b => Ok b | None => Panic end.

(* ------------------------------------------------------------------ X.224 connection request *)
Definition emit_cr (c : config) : outcome bytes :=
  obind (wr (x224_connection_pdu NEG_REQ (if c_ram c then 1 else 0) (c_offered c))) (fun b =>
  if 65535 - 4 <? nlen b then Err EInvalidSize else Ok (tpkt_frame b)).

(* ------------------------------------------------------------------ GCC client data blocks *)
Definition is_high_surrogate (u : N) : bool := (55296 <=? u) && (u <=? 56319).

(* at most 15 code units, never half a surrogate pair, padded to 16 units *)
Definition client_name_units (name : ustring) : list N :=
  let t := firstn 15 (utf16 name) in
  let t' := if is_high_surrogate (last t 0) then removelast t else t in
  t' ++ repeat 0 (16 - List.length t').
Definition client_name_field (name : ustring) : bytes := units_le (client_name_units name).

Definition RDP_VERSION_5_PLUS : N := 524292.      (* 0x00080004 *)
Definition CS_SECURITY : N := 49154.              (* 0xC002 *)
Definition CS_NET : N := 49155.                   (* 0xC003 *)

Definition client_core_data (w h layout selected : N) (name_field : bytes) : msg :=
  MComp [
    ("version", u32le RDP_VERSION_5_PLUS);
    ("desktopWidth", u16le w);
    ("desktopHeight", u16le h);
    ("colorDepth", u16le 51713);            (* RnsUdColor8BPP 0xCA01 *)
    ("sasSequence", u16le 43523);           (* 0xAA03 *)
    ("kbdLayout", u32le layout);
    ("clientBuild", u32le 3790);
    ("clientName", MBytes name_field);
    ("keyboardType", u32le 4);
    ("keyboardSubType", u32le 0);
    ("keyboardFnKeys", u32le 12);
    ("imeFileName", MBytes (zeros 64));
    ("postBeta2ColorDepth", u16le 51713);
    ("clientProductId", u16le 1);
    ("serialNumber", u32le 0);
    ("highColorDepth", u16le 24);
    ("supportedColorDepths", u16le 10);     (* 16 bpp | 32 bpp *)
    ("earlyCapabilityFlags", u16le 1);      (* RNS_UD_CS_SUPPORT_ERRINFO_PDU *)
    ("clientDigProductId", MBytes (zeros 64));
    ("connectionType", MU8 0);
    ("pad1octet", MU8 0);
    ("serverSelectedProtocol", u32le selected)
  ].

Definition client_security_data : msg :=
  MComp [ ("encryptionMethods", u32le 11); ("extEncryptionMethods", u32le 0) ].

(* client_network_data(trame![]): no static virtual channel *)
Definition client_network_data : msg :=
  MComp [ ("channelCount", u32le 0); ("channelDefArray", MBytes []) ].

Definition block_header (t len : N) : msg :=
  MComp [ ("type", u16le t); ("length", u16le (as_u16 (as_u16 len + 4))) ].

Definition mlen (m : msg) : outcome N :=
  match mlength p m with Some n => Ok n | None => Panic end.

Definition block (t : N) (m : msg) : outcome bytes :=
  obind (mlen m) (fun l => wr (MTrame [block_header t l; m])).

Definition client_user_data (c : config) (selected : N) : outcome bytes :=
  obind (block CS_CORE (client_core_data (c_width c) (c_height c) (c_layout c) selected (client_name_field (c_name c)))) (fun b1 =>
  obind (block CS_SECURITY client_security_data) (fun b2 =>
  obind (block CS_NET client_network_data) (fun b3 => Ok (b1 ++ b2 ++ b3)))).

(* ------------------------------------------------------------------ GCC conference create request (per.rs writers) *)
Definition H221_CS_KEY : bytes := [68; 117; 99; 97].     (* "Duca" *)

Definition write_conference_create_request (user_data : bytes) : bytes :=
  [0]                                                              (* write_choice(0) *)
  ++ [5; 0; 20; 124; 0; 1]                                         (* write_object_identifier {0 0 20 124 0 1} *)
  ++ per_write_length (as_u16 (as_u16 (nlen user_data) + 14))      (* connectPDU length *)
  ++ [0]                                                           (* write_choice(0) *)
  ++ [8]                                                           (* write_selection(8) *)
  ++ [0; 16]                                                       (* write_numeric_string("1", 1) *)
  ++ [0]                                                           (* write_padding(1) *)
  ++ [1]                                                           (* write_number_of_set(1) *)
  ++ [192]                                                         (* write_choice(0xc0) *)
  ++ [0] ++ H221_CS_KEY                                            (* write_octet_stream("Duca", 4) *)
  ++ per_write_length (as_u16 (nlen user_data)) ++ user_data.      (* write_octet_stream(user_data, 0) *)

(* ------------------------------------------------------------------ MCS connect-initial (yasna DER writer) *)
Fixpoint be_digits (fuel : nat) (n : N) (acc : bytes) : bytes :=
  match fuel with
  | O => acc
  | S f => if n =? 0 then acc else be_digits f (n / 256) (n mod 256 :: acc)
  end.
(* minimal big-endian base-256 digits of n (none for 0); n < 2^64 *)
Definition be_min (n : N) : bytes := be_digits 8 n [].

Definition der_length (n : N) : bytes :=
  if n <? 128 then [n] else let d := be_min n in (128 + nlen d) :: d.
Definition der_tlv (tag : bytes) (content : bytes) : bytes := tag ++ der_length (nlen content) ++ content.
(* DERWriter::write_u32 *)
Definition der_uint (v : N) : bytes :=
  let d := be_min v in
  let d' := match d with [] => [0] | h :: _ => if 128 <=? h then 0 :: d else d end in
  der_tlv [2] d'.
Definition der_octets (b : bytes) : bytes := der_tlv [4] b.
Definition der_bool (b : bool) : bytes := der_tlv [1] [if b then 255 else 0].

Definition domain_parameters (a b c d e f g h : N) : bytes :=
  der_tlv [48] (der_uint a ++ der_uint b ++ der_uint c ++ der_uint d ++ der_uint e ++ der_uint f ++ der_uint g ++ der_uint h).

Definition connect_initial (user_data : bytes) : bytes :=
  der_tlv [127; 101]
    (der_octets [1] ++ der_octets [1] ++ der_bool true
     ++ domain_parameters 34 2 0 1 0 1 65535 2
     ++ domain_parameters 1 1 1 1 0 1 1056 2
     ++ domain_parameters 65535 64535 65535 1 0 1 65535 2
     ++ der_octets user_data).

Definition emit_connect_initial (c : config) (selected : N) : outcome bytes :=
  obind (client_user_data c selected) (fun ud =>
  x224_frame (connect_initial (write_conference_create_request ud))).

(* ------------------------------------------------------------------ MCS domain PDUs *)
Definition emit_erect_domain : outcome bytes := x224_frame [4; 1; 0; 1; 0].
Definition emit_attach_user : outcome bytes := x224_frame [40].
Definition emit_channel_join (uid chan : N) : outcome bytes :=
  x224_frame ([56] ++ be16 (uid - 1001) ++ be16 chan).
Definition emit_disconnect : outcome bytes := x224_frame [33; 128].

(* mcs::Client::write on the I/O channel *)
Definition mcs_send (uid io : N) (message : bytes) : outcome bytes :=
  x224_frame ([100] ++ be16 (uid - 1001) ++ be16 io ++ [112] ++ per_write_length (as_u16 (nlen message)) ++ message).

(* ------------------------------------------------------------------ client info *)
Definition INFO_FLAGS : N := 65875.   (* MOUSE | UNICODE | LOGONNOTIFY | LOGONERRORS | DISABLECTRLALTDEL | ENABLEWINDOWSKEY *)
Definition INFO_AUTOLOGON : N := 8.
Definition SEC_INFO_PKT : N := 64.

Definition rdp_extended_infos : msg :=
  MComp [
    ("clientAddressFamily", u16le 2);
    ("cbClientAddress", MDyn (u16le 2) (CloSize "clientAddress" XSelf));
    ("clientAddress", MBytes [0; 0]);
    ("cbClientDir", u16le 2);
    ("clientDir", MBytes [0; 0]);
    ("clientTimeZone", MBytes (zeros 172));
    ("clientSessionId", u32le 0);
    ("performanceFlags", u32le 0)
  ].

(* `x_format.len() - 2` on the string with its terminator pushed: never underflows *)
Definition rdp_infos (ext : bool) (domain user password : ustring) (auto : bool) : msg :=
  let df := utf16le domain ++ [0; 0] in
  let uf := utf16le user ++ [0; 0] in
  let pf := utf16le password ++ [0; 0] in
  MComp [
    ("codePage", u32le 0);
    ("flag", u32le (INFO_FLAGS + (if auto then INFO_AUTOLOGON else 0)));
    ("cbDomain", u16le (as_u16 (nlen df - 2)));
    ("cbUserName", u16le (as_u16 (nlen uf - 2)));
    ("cbPassword", u16le (as_u16 (nlen pf - 2)));
    ("cbAlternateShell", u16le 0);
    ("cbWorkingDir", u16le 0);
    ("domain", MBytes df);
    ("userName", MBytes uf);
    ("password", MBytes pf);
    ("alternateShell", MBytes [0; 0]);
    ("workingDir", MBytes [0; 0]);
    ("extendedInfos", if ext then rdp_extended_infos else MComp [])
  ].

Definition emit_client_info (swapped : bool) (c : config) (i : server_ids) : outcome bytes :=
  obind (wr (MTrame [u16le SEC_INFO_PKT; u16le 0;
                     rdp_infos (is_rdp_version_5_plus swapped (i_version i)) (c_domain c) (c_user c) (c_password c) (c_autologon c)]))
        (mcs_send (i_uid i) (i_io i)).

(* ------------------------------------------------------------------ activation, input (Global.v) *)
Definition session_of (c : config) (i : server_ids) : session :=
  mkSession SData (i_uid i) (i_io i) (c_width c) (c_height c) (c_layout c) (Some (i_share i)) (utf8 (c_name c)).

(* Global.mcs_frame builds the frame without tpkt's size check *)
Definition checked (o : outcome bytes) : outcome bytes :=
  obind o (fun f => if 65535 <? nlen f then Err EInvalidSize else Ok f).

Definition emit_confirm_active (c : config) (i : server_ids) : outcome bytes :=
  checked (write_confirm_active p (session_of c i)).

Definition emit_finalize (c : config) (i : server_ids) : list (outcome bytes) :=
  let s := session_of c i in
  [ checked (write_data_pdu p s PDUTYPE2_SYNCHRONIZE (ts_synchronize_pdu SERVER_CHANNEL));
    checked (write_data_pdu p s PDUTYPE2_CONTROL (ts_control_pdu CTRLACTION_COOPERATE));
    checked (write_data_pdu p s PDUTYPE2_CONTROL (ts_control_pdu CTRLACTION_REQUEST_CONTROL));
    checked (write_data_pdu p s PDUTYPE2_FONTLIST ts_font_list_pdu) ].

Definition emit_input (c : config) (i : server_ids) (e : input_ev) : outcome bytes :=
  let r := client_write p (session_of c i) e in
  match r_out r, r_wire r with
  | Ok _, [f] => Ok f
  | Ok _, _ => Panic
  | Err e, _ => Err e
  | Panic, _ => Panic
  | Spin, _ => Spin
  end.

(* ------------------------------------------------------------------ the whole transcript *)
(* everything the client writes from the connect-initial on, in order (the harness's `pdus`) *)
Definition emitted_session (swapped : bool) (c : config) (i : server_ids) (evs : list input_ev) : list (outcome bytes) :=
  [ emit_connect_initial c (i_selected i);
    emit_erect_domain;
    emit_attach_user;
    emit_channel_join (i_uid i) (i_io i);
    emit_channel_join (i_uid i) (i_uid i);
    emit_client_info swapped c i;
    emit_confirm_active c i ]
  ++ emit_finalize c i
  ++ map (emit_input c i) evs
  ++ [ emit_disconnect ].

Definition emitted (swapped : bool) (c : config) (i : server_ids) (evs : list input_ev) : list (outcome bytes) :=
  emit_cr c :: emitted_session swapped c i evs.

(* the run stops at the first write that fails *)
Fixpoint run_writes (l : list (outcome bytes)) (acc : list bytes) : outcome unit * list bytes :=
  match l with
  | [] => (Ok tt, rev acc)
  | Ok f :: tl => run_writes tl (f :: acc)
  | Err e :: _ => (Err e, rev acc)
  | Panic :: _ => (Panic, rev acc)
  | Spin :: _ => (Spin, rev acc)
  end.

(* gcc::client_core_data serialized (harness op `core`) *)
Definition core_bytes (w h layout selected : N) (name : ustring) : outcome bytes :=
  wr (client_core_data w h layout selected (client_name_field name)).

End WithProfile.
