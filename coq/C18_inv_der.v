(* C18, DER part, the OTHER direction: the model's decoder (Der.v, the strict reader yasna's
   from_der is on the shapes used) accepts ONLY the encoder's own output:
       der_dec o s bs = Some (v, rest)  ->  der_enc o v ++ rest = bs
   for every schema, every pending implicit tag and every octet string -- DER is canonical, no
   side condition.  Below the TLV level: identifier octets (low and high tag numbers), definite
   lengths (short and long form) and INTEGER contents each decode only their minimal form.
   Consequence for the lenient reader (from_ber, used for the MCS connect response): an input it
   accepts is re-encoded to the same bytes iff the strict decoder accepts it too. *)
From RdpV Require Import Base Der C18_der_proofs C18_inv_base.
Open Scope list_scope.
Open Scope N_scope.

Ltac Zify.zify_post_hook ::= Z.to_euclidean_division_equations.

(* ================================================================ digit strings, any base *)
Section Digits.
Variable B : N.
Hypothesis HB : 2 <= B.

Lemma of_digits_cons acc d l : of_digits B acc (d :: l) = of_digits B (acc * B + d) l.
Proof. reflexivity. Qed.

Lemma of_digits_bounds l : Forall (fun d => d < B) l -> forall acc,
  acc * B ^ nlen l <= of_digits B acc l /\ of_digits B acc l + 1 <= (acc + 1) * B ^ nlen l.
Proof.
  induction l as [|d l IH]; intros HF acc.
  - change (nlen (@nil N)) with 0. rewrite N.pow_0_r. unfold of_digits. cbn [fold_left]. lia.
  - inversion HF as [|? ? Hd Hl]; subst. rewrite of_digits_cons. destruct (IH Hl (acc * B + d)) as [Lo Hi].
    rewrite nlen_cons. replace (1 + nlen l) with (N.succ (nlen l)) by lia. rewrite N.pow_succ_r'.
    set (P := B ^ nlen l) in *. split.
    + eapply N.le_trans; [|exact Lo]. nia.
    + eapply N.le_trans; [exact Hi|]. nia.
Qed.

(* two digit strings of the same length with the same value (and accumulator) are equal *)
Lemma of_digits_inj l : forall l' acc acc', List.length l = List.length l' ->
  Forall (fun d => d < B) l -> Forall (fun d => d < B) l' ->
  of_digits B acc l = of_digits B acc' l' -> acc = acc' /\ l = l'.
Proof.
  induction l as [|d l IH]; intros [|d' l'] acc acc' Hlen HF HF' E; try discriminate.
  - split; [exact E|reflexivity].
  - inversion HF as [|? ? Hd Hl]; subst. inversion HF' as [|? ? Hd' Hl']; subst.
    rewrite !of_digits_cons in E. cbn [List.length] in Hlen.
    destruct (IH l' _ _ ltac:(lia) Hl Hl' E) as [Ea ->].
    destruct (N.div_mod_unique B acc acc' d d' Hd Hd' ltac:(lia)) as [-> ->]. split; reflexivity.
Qed.

Lemma be_digits_lt k n : Forall (fun d => d < B) (be_digits B k n).
Proof.
  induction k as [|k IH]; cbn [be_digits]; constructor; [|exact IH]. apply N.mod_lt. lia.
Qed.

(* the k-digit representation of the value of a k-digit string is that string *)
Lemma be_digits_of_digits l : Forall (fun d => d < B) l ->
  be_digits B (List.length l) (of_digits B 0 l) = l.
Proof.
  intros HF. destruct (of_digits_bounds l HF 0) as [_ Hi].
  assert (E : of_digits B 0 (be_digits B (List.length l) (of_digits B 0 l)) = of_digits B 0 l).
  { rewrite of_digits_be_digits by lia. rewrite N.mod_small; [lia|]. unfold nlen in Hi. lia. }
  apply (of_digits_inj _ _ 0 0); [apply be_digits_length|apply be_digits_lt|exact HF|exact E].
Qed.

(* exponents are determined by a sandwich between consecutive powers *)
Lemma pow_sandwich a b n : B ^ a <= n -> n < B ^ N.succ a -> B ^ b <= n -> n < B ^ N.succ b -> a = b.
Proof.
  intros H1 H2 H3 H4. destruct (N.lt_trichotomy a b) as [Hlt|[->|Hlt]]; [exfalso|reflexivity|exfalso].
  - assert (B ^ N.succ a <= B ^ b) by (apply N.pow_le_mono_r; lia). lia.
  - assert (B ^ N.succ b <= B ^ a) by (apply N.pow_le_mono_r; lia). lia.
Qed.
End Digits.

(* ================================================================ split_n *)
Lemma split_n_inv : forall b n h r, split_n n b = Some (h, r) -> b = h ++ r /\ nlen h = n.
Proof.
  induction b as [|x b IH]; intros n h r H.
  - cbn [split_n] in H. destruct (N.eqb_spec n 0) as [->|]; [|discriminate]. injection H as <- <-. split; reflexivity.
  - cbn [split_n] in H. destruct (N.eqb_spec n 0) as [->|Hn].
    + injection H as <- <-. split; reflexivity.
    + destruct (split_n (n - 1) b) as [[h' r']|] eqn:E; [|discriminate]. injection H as <- <-.
      destruct (IH _ _ _ E) as [-> Hl]. split; [reflexivity|]. rewrite nlen_cons. lia.
Qed.

Lemma all_bytes_Forall l : all_bytes l = true -> Forall (fun d => d < 256) l.
Proof. apply all_bytes_wf. Qed.

(* ================================================================ definite length: only the minimal form decodes *)
Theorem dec_len_inverse b n rest : all_bytes b = true -> dec_len b = Some (n, rest) -> enc_len n ++ rest = b.
Proof.
  intros Hb H. destruct b as [|x tl]; [discriminate|]. cbn [dec_len] in H.
  apply all_bytes_cons in Hb. destruct Hb as [Hx Htl].
  destruct (N.ltb_spec x 128) as [Hs|Hs].
  - injection H as <- <-. unfold enc_len. apply N.ltb_lt in Hs. rewrite Hs. reflexivity.
  - destruct (split_n (x - 128) tl) as [[ds r]|] eqn:Es; [|discriminate].
    destruct ds as [|d ds']; [discriminate|].
    destruct (N.eqb_spec d 0) as [|Hd]; [discriminate|].
    destruct (N.ltb_spec (of_be (d :: ds')) 128) as [|Hn]; [discriminate|]. injection H as <- <-.
    apply split_n_inv in Es. destruct Es as [-> Hlen].
    apply all_bytes_app in Htl. destruct Htl as [Hds _]. apply all_bytes_Forall in Hds.
    set (n := of_be (d :: ds')) in *.
    (* the value lies between 256^|ds'| and 256^(|ds'|+1) *)
    inversion Hds as [|? ? Hd256 Hds']; subst.
    assert (Hb : 256 ^ nlen ds' <= n /\ n < 256 ^ N.succ (nlen ds')).
    { unfold n, of_be. rewrite of_digits_cons. destruct (of_digits_bounds 256 ltac:(lia) ds' Hds' (0 * 256 + d)) as [Lo Hi].
      rewrite N.pow_succ_r'. set (P := 256 ^ nlen ds') in *. split; nia. }
    destruct (ndigits8_spec n ltac:(lia)) as (k' & Hk & Hlo & Hhi).
    rewrite Nat2N.inj_succ in Hhi.
    assert (Ek : N.of_nat k' = nlen ds') by (apply (pow_sandwich 256 ltac:(lia) _ _ n); tauto).
    unfold enc_len. destruct (N.ltb_spec n 128); [lia|]. rewrite Hk.
    assert (Ek' : S k' = List.length (d :: ds')) by (cbn [List.length]; unfold nlen in Ek; lia).
    rewrite Ek'. unfold be_bytes, n, of_be. rewrite (be_digits_of_digits 256 ltac:(lia) (d :: ds') Hds).
    cbn [app]. f_equal. rewrite nlen_cons in Hlen. unfold nlen in *. cbn [List.length]. lia.
Qed.

(* ================================================================ INTEGER contents *)
Lemma size_div8 n k : (k <> 0 -> 256 ^ k <= n + n) /\ n < 128 * 256 ^ k -> N.size n / 8 = k.
Proof.
  intros [Lo Hi]. destruct (enc_int_bounds n) as [Hhi Hlo]. cbn zeta in Hhi, Hlo.
  set (j := N.size n / 8) in *.
  destruct (N.lt_trichotomy j k) as [Hlt|[E|Hlt]]; [exfalso|exact E|exfalso].
  - assert (H : 256 ^ N.succ j <= 256 ^ k) by (apply N.pow_le_mono_r; lia).
    rewrite N.pow_succ_r' in H. specialize (Lo ltac:(lia)). lia.
  - assert (Hj : j <> 0) by lia. specialize (Hlo Hj).
    assert (H : 256 ^ k <= 256 ^ (j - 1)) by (apply N.pow_le_mono_r; lia). lia.
Qed.

Theorem dec_int_inverse b n : all_bytes b = true -> dec_int b = Some n -> enc_int n = b.
Proof.
  intros Hb H. destruct b as [|x tl]; [discriminate|]. cbn [dec_int] in H.
  pose proof (all_bytes_Forall _ Hb) as HF.
  destruct (N.leb_spec 128 x) as [|Hx]; [discriminate|].
  assert (Hval : n = of_be (x :: tl)).
  { destruct tl as [|y tl']; [injection H as <-; unfold of_be, of_digits; cbn [fold_left]; lia|].
    destruct ((x =? 0) && (y <? 128)); [discriminate|]. injection H as <-. reflexivity. }
  assert (Hsz : N.size n / 8 = nlen tl).
  { apply size_div8. subst n. unfold of_be. rewrite of_digits_cons.
    inversion HF as [|? ? _ HFtl]; subst.
    destruct tl as [|y tl'].
    - unfold of_digits. cbn [fold_left]. change (nlen (@nil N)) with 0. rewrite N.pow_0_r.
      split; [intros C; contradiction|lia].
    - match goal with |- (_ -> ?A) /\ ?C => assert (HAC : A /\ C); [|split; [intros _|]; apply HAC] end.
      destruct (N.eqb_spec x 0) as [->|Nx].
      + destruct (N.ltb_spec y 128) as [|Hy]; [discriminate|]. cbn [andb] in H.
        rewrite of_digits_cons. inversion HFtl as [|? ? Hy256 HFtl']; subst.
        destruct (of_digits_bounds 256 ltac:(lia) tl' HFtl' ((0 * 256 + 0) * 256 + y)) as [Lo Hi].
        rewrite nlen_cons. replace (1 + nlen tl') with (N.succ (nlen tl')) by lia. rewrite N.pow_succ_r'.
        set (P := 256 ^ nlen tl') in *. split; nia.
      + destruct (of_digits_bounds 256 ltac:(lia) (y :: tl') HFtl (0 * 256 + x)) as [Lo Hi].
        set (P := 256 ^ nlen (y :: tl')) in *. split; nia. }
  unfold enc_int. rewrite Hsz.
  replace (N.to_nat (nlen tl + 1)) with (List.length (x :: tl)) by (unfold nlen; cbn [List.length]; lia).
  subst n. unfold be_bytes, of_be. apply (be_digits_of_digits 256 ltac:(lia)). exact HF.
Qed.

(* ================================================================ identifier octets *)
(* base-128 digits with the continuation bit on all but the last *)
Fixpoint cont (ds : list N) : bytes :=
  match ds with
  | [] => []
  | d :: tl => match tl with [] => [d] | _ :: _ => (d + 128) :: cont tl end
  end.

Lemma enc_b128_cont k n : enc_b128 k n = cont (be_digits 128 k n).
Proof.
  induction k as [|k IH]; [reflexivity|]. cbn [enc_b128 be_digits cont]. rewrite IH.
  destruct k as [|k']; [cbn [be_digits cont]; f_equal; lia|reflexivity].
Qed.

Lemma dec_b128_inv : forall b acc t rest, dec_b128 acc b = Some (t, rest) ->
  exists ds, ds <> [] /\ Forall (fun d => d < 128) ds /\ b = cont ds ++ rest /\ t = of_digits 128 acc ds.
Proof.
  induction b as [|x b IH]; intros acc t rest H; [discriminate|]. cbn [dec_b128] in H.
  destruct (N.leb_spec 256 x) as [|Hx]; [discriminate|].
  destruct (N.ltb_spec x 128) as [Hs|Hs].
  - injection H as <- <-. exists [x]. split; [discriminate|]. split; [repeat constructor; exact Hs|]. split; reflexivity.
  - destruct (IH _ _ _ H) as (ds & Hne & HF & -> & ->).
    exists ((x - 128) :: ds). split; [discriminate|]. split; [constructor; [lia|exact HF]|]. split; [|reflexivity].
    destruct ds as [|d ds']; [contradiction|]. cbn [cont app]. f_equal. lia.
Qed.

Lemma class_bits_of_bits q : q < 4 -> class_bits (class_of_bits q) = q.
Proof.
  intros H. assert (q = 0 \/ q = 1 \/ q = 2 \/ q = 3) as [->|[->|[->| ->]]] by lia; reflexivity.
Qed.

Theorem dec_ident_inverse b c k t rest : dec_ident b = Some ((c, k, t), rest) -> enc_ident c k t ++ rest = b.
Proof.
  intros H. destruct b as [|x tl]; [discriminate|]. cbn [dec_ident] in H.
  destruct (N.leb_spec 256 x) as [|Hx]; [discriminate|]. cbv zeta in H.
  assert (Ehi : forall kk, kk = ((x / 32) mod 2 =? 1) ->
            class_bits (class_of_bits (x / 64)) * 64 + (if kk then 32 else 0) + x mod 32 = x).
  { intros kk ->. rewrite class_bits_of_bits by lia. destruct (N.eqb_spec ((x / 32) mod 2) 1); lia. }
  destruct (N.ltb_spec (x mod 32) 31) as [Hlow|Hlow].
  - injection H as <- <- <- <-. unfold enc_ident. apply N.ltb_lt in Hlow. rewrite Hlow. cbn [app]. f_equal.
    apply Ehi. reflexivity.
  - destruct tl as [|y tl']; [discriminate|].
    destruct (N.eqb_spec y 128) as [|Hy]; [discriminate|].
    destruct (dec_b128 0 (y :: tl')) as [[t' r']|] eqn:Ed; [|discriminate].
    destruct (N.ltb_spec t' 31) as [|Ht]; [discriminate|]. injection H as <- <- <- <-.
    destruct (dec_b128_inv _ _ _ _ Ed) as (ds & Hne & HF & Eb & Et).
    destruct ds as [|d ds']; [contradiction|]. clear Hne.
    (* the leading digit is not zero *)
    assert (Hd : d <> 0).
    { destruct ds' as [|d2 ds2].
      - unfold of_digits in Et. cbn [fold_left] in Et. lia.
      - cbn [cont app] in Eb. injection Eb as Ey _. lia. }
    inversion HF as [|? ? Hd128 HF']; subst.
    assert (Hb : 128 ^ nlen ds' <= of_digits 128 0 (d :: ds') /\ of_digits 128 0 (d :: ds') < 128 ^ N.succ (nlen ds')).
    { rewrite of_digits_cons. destruct (of_digits_bounds 128 ltac:(lia) ds' HF' (0 * 128 + d)) as [Lo Hi].
      rewrite N.pow_succ_r'. set (P := 128 ^ nlen ds') in *. split; nia. }
    set (t := of_digits 128 0 (d :: ds')) in *.
    destruct (ndigits7_spec t ltac:(lia)) as (k' & Hk & Hlo & Hhi). rewrite Nat2N.inj_succ in Hhi.
    assert (Ek : N.of_nat k' = nlen ds') by (apply (pow_sandwich 128 ltac:(lia) _ _ t); tauto).
    unfold enc_ident. destruct (N.ltb_spec t 31); [lia|]. rewrite Hk, enc_b128_cont.
    assert (Ek' : S k' = List.length (d :: ds')) by (cbn [List.length]; unfold nlen in Ek; lia).
    rewrite Ek'. unfold t. rewrite (be_digits_of_digits 128 ltac:(lia) (d :: ds') HF).
    cbn [app]. rewrite Eb. f_equal. replace 31 with (x mod 32) by lia. apply Ehi. reflexivity.
Qed.

(* ================================================================ TLV *)
Lemma bool_eqb_eq a b : Bool.eqb a b = true -> a = b.
Proof. destruct a, b; cbn; congruence. Qed.

Theorem dec_tlv_inverse ct k b content rest : all_bytes b = true ->
  dec_tlv ct k b = Some (content, rest) -> tlv ct k content ++ rest = b /\ all_bytes content = true /\ all_bytes rest = true.
Proof.
  intros Hb H. unfold dec_tlv in H.
  destruct (dec_ident b) as [[[[c' k'] t'] b1]|] eqn:Ei; [|discriminate].
  destruct (tclass_eqb (fst ct) c' && Bool.eqb k k' && (snd ct =? t')) eqn:Ec; [|discriminate].
  apply andb_true_iff in Ec. destruct Ec as [Ec Et]. apply andb_true_iff in Ec. destruct Ec as [Ec Ek].
  apply tclass_eqb_eq in Ec. apply bool_eqb_eq in Ek. apply N.eqb_eq in Et. subst c' k' t'.
  apply dec_ident_inverse in Ei. rewrite <- Ei in Hb. apply all_bytes_app in Hb. destruct Hb as [_ Hb1].
  destruct (dec_len b1) as [[n b2]|] eqn:El; [|discriminate].
  apply (dec_len_inverse _ _ _ Hb1) in El. rewrite <- El in Hb1. apply all_bytes_app in Hb1. destruct Hb1 as [_ Hb2].
  apply split_n_inv in H. destruct H as [-> Hn]. apply all_bytes_app in Hb2.
  split; [|exact Hb2]. unfold tlv. rewrite Hn, <- Ei, <- El, <- !app_assoc. reflexivity.
Qed.

(* ================================================================ induction on schemas *)
Section DschInd.
Variable P : dsch -> Prop.
Hypothesis HInt : P SInt.
Hypothesis HEnum : P SEnum.
Hypothesis HBool : P SBool.
Hypothesis HOctets : P SOctets.
Hypothesis HSeq : forall l, Forall P l -> P (SSeq l).
Hypothesis HSeqOf : forall s, P s -> P (SSeqOf s).
Hypothesis HExplicit : forall c t s, P s -> P (SExplicit c t s).
Hypothesis HImplicit : forall c t s, P s -> P (SImplicit c t s).

Fixpoint dsch_ind' (s : dsch) : P s :=
  match s with
  | SInt => HInt
  | SEnum => HEnum
  | SBool => HBool
  | SOctets => HOctets
  | SSeq l =>
      HSeq l ((fix go (l : list dsch) : Forall P l :=
                 match l with [] => Forall_nil _ | x :: tl => Forall_cons x (dsch_ind' x) (go tl) end) l)
  | SSeqOf s' => HSeqOf s' (dsch_ind' s')
  | SExplicit c t s' => HExplicit c t s' (dsch_ind' s')
  | SImplicit c t s' => HImplicit c t s' (dsch_ind' s')
  end.
End DschInd.

(* ================================================================ the decoder accepts only the encoder's output *)
Definition inv_ok (s : dsch) : Prop :=
  forall o b v rest, all_bytes b = true -> der_dec o s b = Some (v, rest) ->
    der_enc o v ++ rest = b /\ all_bytes rest = true.

Lemma dec_seq_inverse ss : Forall inv_ok ss -> forall b vs rest, all_bytes b = true ->
  dec_seq (fun s' b' => der_dec None s' b') ss b = Some (vs, rest) ->
  concat (map (der_enc None) vs) ++ rest = b.
Proof.
  induction 1 as [|s ss Hs Hss IH]; intros b vs rest Hb H.
  - cbn [dec_seq] in H. injection H as <- <-. reflexivity.
  - cbn [dec_seq] in H. destruct (der_dec None s b) as [[v b']|] eqn:Ev; [|discriminate].
    fold (dec_seq (fun s' b' => der_dec None s' b')) in H.
    destruct (dec_seq (fun s' b' => der_dec None s' b') ss b') as [[vs' b'']|] eqn:Evs; [|discriminate].
    injection H as <- <-. destruct (Hs None b v b' Hb Ev) as [E Hb'].
    cbn [map concat]. rewrite <- app_assoc, (IH _ _ _ Hb' Evs). exact E.
Qed.

Lemma dec_many_inverse s : inv_ok s -> forall fuel b vs, all_bytes b = true ->
  dec_many (fun b' => der_dec None s b') fuel b = Some vs -> concat (map (der_enc None) vs) = b.
Proof.
  intros Hs. induction fuel as [|fuel IH]; intros b vs Hb H.
  - destruct b; [|discriminate]. cbn in H. injection H as <-. reflexivity.
  - destruct b as [|x b0]; [cbn in H; injection H as <-; reflexivity|].
    rewrite dec_many_step in H by discriminate.
    destruct (der_dec None s (x :: b0)) as [[v b']|] eqn:Ev; [|discriminate].
    destruct (dec_many (fun b'0 => der_dec None s b'0) fuel b') as [vs'|] eqn:Evs; [|discriminate].
    injection H as <-. destruct (Hs None _ v b' Hb Ev) as [E Hb'].
    cbn [map concat]. rewrite (IH _ _ Hb' Evs). exact E.
Qed.

Lemma der_dec_inv_all : forall s, inv_ok s.
Proof.
  induction s as [| | | |ss IH|s IH|c t s IH|c t s IH] using dsch_ind'; intros o b v rest Hb H; cbn [der_dec] in H.
  - (* INTEGER *)
    destruct (dec_tlv (pick o (Universal, 2)) false b) as [[content r]|] eqn:Et; [|discriminate].
    destruct (dec_tlv_inverse _ _ _ _ _ Hb Et) as (E & Hc & Hr).
    destruct (dec_int content) as [n|] eqn:Ei; [|discriminate].
    destruct (n <? 4294967296); [|discriminate]. injection H as <- <-.
    cbn [der_enc]. rewrite (dec_int_inverse _ _ Hc Ei). split; assumption.
  - (* ENUMERATED *)
    destruct (dec_tlv (pick o (Universal, 10)) false b) as [[content r]|] eqn:Et; [|discriminate].
    destruct (dec_tlv_inverse _ _ _ _ _ Hb Et) as (E & Hc & Hr).
    destruct (dec_int content) as [n|] eqn:Ei; [|discriminate].
    destruct (n <? 9223372036854775808); [|discriminate]. injection H as <- <-.
    cbn [der_enc]. rewrite (dec_int_inverse _ _ Hc Ei). split; assumption.
  - (* BOOLEAN *)
    destruct (dec_tlv (pick o (Universal, 1)) false b) as [[content r]|] eqn:Et; [|discriminate].
    destruct (dec_tlv_inverse _ _ _ _ _ Hb Et) as (E & Hc & Hr).
    destruct content as [|x [|y tl]]; try discriminate.
    destruct (N.eqb_spec x 255) as [->|]; [|destruct (N.eqb_spec x 0) as [->|]; [|discriminate]];
      injection H as <- <-; cbn [der_enc]; split; assumption.
  - (* OCTET STRING *)
    destruct (dec_tlv (pick o (Universal, 4)) false b) as [[content r]|] eqn:Et; [|discriminate].
    destruct (dec_tlv_inverse _ _ _ _ _ Hb Et) as (E & Hc & Hr). injection H as <- <-.
    cbn [der_enc]. split; assumption.
  - (* SEQUENCE *)
    destruct (dec_tlv (pick o (Universal, 16)) true b) as [[content r]|] eqn:Et; [|discriminate].
    destruct (dec_tlv_inverse _ _ _ _ _ Hb Et) as (E & Hc & Hr).
    destruct (dec_seq (fun s' b' => der_dec None s' b') ss content) as [[vs [|? ?]]|] eqn:Es; try discriminate.
    injection H as <- <-. pose proof (dec_seq_inverse ss IH _ _ _ Hc Es) as Ec. rewrite app_nil_r in Ec.
    cbn [der_enc]. rewrite Ec. split; assumption.
  - (* SEQUENCE OF *)
    destruct (dec_tlv (pick o (Universal, 16)) true b) as [[content r]|] eqn:Et; [|discriminate].
    destruct (dec_tlv_inverse _ _ _ _ _ Hb Et) as (E & Hc & Hr).
    destruct (dec_many (fun b' => der_dec None s b') (List.length content) content) as [vs|] eqn:Es; [|discriminate].
    injection H as <- <-. cbn [der_enc]. rewrite (dec_many_inverse s IH _ _ _ Hc Es). split; assumption.
  - (* EXPLICIT *)
    destruct (dec_tlv (pick o (c, t)) true b) as [[content r]|] eqn:Et; [|discriminate].
    destruct (dec_tlv_inverse _ _ _ _ _ Hb Et) as (E & Hc & Hr).
    destruct (der_dec None s content) as [[v' [|? ?]]|] eqn:Es; try discriminate.
    injection H as <- <-. destruct (IH None _ _ _ Hc Es) as [Ec _]. rewrite app_nil_r in Ec.
    cbn [der_enc]. rewrite Ec. split; assumption.
  - (* IMPLICIT *)
    destruct (der_dec (Some (pick o (c, t))) s b) as [[v' r]|] eqn:Es; [|discriminate].
    injection H as <- <-. cbn [der_enc]. exact (IH _ _ _ _ Hb Es).
Qed.

(* THE INVERSE: whatever the decoder accepts is the encoding of what it returns *)
Theorem der_decode_inverse : forall s b v rest, all_bytes b = true ->
  der_decode s b = Some (v, rest) -> der_encode v ++ rest = b.
Proof. intros s b v rest Hb H. exact (proj1 (der_dec_inv_all s None b v rest Hb H)). Qed.

Corollary der_decode_all_inverse : forall s b v, all_bytes b = true ->
  der_decode_all s b = Some v -> der_encode v = b.
Proof.
  intros s b v Hb H. unfold der_decode_all in H.
  destruct (der_decode s b) as [[v' [|? ?]]|] eqn:E; try discriminate. injection H as <-.
  pose proof (der_decode_inverse s b v' [] Hb E) as Hi. rewrite app_nil_r in Hi. exact Hi.
Qed.

(* hence the decoder is injective on what it accepts, and encode/decode are mutually inverse on
   the set of encodings: two accepted inputs with the same value are the same bytes *)
Corollary der_decode_injective : forall s b b' v, all_bytes b = true -> all_bytes b' = true ->
  der_decode_all s b = Some v -> der_decode_all s b' = Some v -> b = b'.
Proof.
  intros s b b' v Hb Hb' H H'. rewrite <- (der_decode_all_inverse s b v Hb H). apply (der_decode_all_inverse s b' v Hb' H').
Qed.

(* A lenient (BER) reader: whenever its answer [v] (conforming, in range) re-encodes to the input,
   the strict decoder accepts that input with the same value -- so an input the strict decoder
   refuses is never reproduced by re-encoding. *)
Corollary der_reencode_iff_strict : forall s b v, all_bytes b = true -> dwf v = true -> conforms s v = true ->
  (der_encode v = b <-> der_decode_all s b = Some v).
Proof.
  intros s b v Hb Hw Hc. split.
  - intros <-. apply der_roundtrip_all; assumption.
  - apply der_decode_all_inverse. exact Hb.
Qed.

(* instances: the MCS connect response and the TSRequest the client READS *)
Corollary connect_response_inverse : forall b v, all_bytes b = true ->
  der_decode_all connect_response_sch b = Some v -> der_encode v = b.
Proof. intros b v. apply der_decode_all_inverse. Qed.

Corollary ts_request_inverse : forall b v, all_bytes b = true ->
  der_decode_all ts_request_sch b = Some v -> der_encode v = b.
Proof. intros b v. apply der_decode_all_inverse. Qed.

Corollary ts_validate_inverse : forall b v, all_bytes b = true ->
  der_decode_all ts_validate_sch b = Some v -> der_encode v = b.
Proof. intros b v. apply der_decode_all_inverse. Qed.

(* non-vacuity and the strictness exhibits: minimal forms accepted and reproduced, the BER
   liberties (long-form length for a short value, padded INTEGER, non-canonical BOOLEAN, high-tag
   form for a small tag number) refused by the model's decoder *)
Example der_inverse_examples :
  der_decode_all connect_response_sch
    [127; 102; 39; 10; 1; 0; 2; 1; 0; 48; 26; 2; 1; 22; 2; 1; 3; 2; 1; 0; 2; 1; 1; 2; 1; 0; 2; 1; 1; 2; 3; 0; 255; 248; 2; 1; 2; 4; 3; 1; 2; 3]
    = Some (connect_response [1; 2; 3]) /\
  der_decode_all SInt [2; 1; 5] = Some (DInt 5) /\
  der_decode_all SInt [2; 129; 1; 5] = None /\
  der_decode_all SInt [2; 2; 0; 5] = None /\
  der_decode_all SBool [1; 1; 1] = None /\
  der_decode_all (SExplicit Context 5 SInt) [191; 5; 3; 2; 1; 5] = None /\
  der_decode_all (SExplicit Context 5 SInt) [165; 3; 2; 1; 5] = Some (DExplicit Context 5 (DInt 5)).
Proof. vm_compute. repeat split. Qed.
