(* C07: concrete instances (computed): a valid CHALLENGE from the reference encoder of gen/nla.py
   (DESIGN.md Appendix B recipe) drives the model to Ok; a whole CredSSP conversation over the
   executable yasna model reaches Ok; the two witnesses of the known finding
   C07-yasna-length-overflow make the yasna model panic. *)
From RdpV Require Import Base Msg MsgSafe LayoutsGlobal LayoutsNtlm Link Cssp DerRead C07_proofs C07_der.
Open Scope list_scope.
Open Scope N_scope.

(* stand-ins with the assumed shape: fixed 16-byte digests, a length-preserving cipher *)
Definition std_hmac (_ _ : bytes) : bytes := repeat 165 16.
Definition std_md5 (_ : bytes) : bytes := repeat 165 16.
Definition std_rc4_init (_ : bytes) : unit := tt.
Definition std_rc4_run (s : unit) (d : bytes) : unit * bytes := (s, d).

Lemma std_crypto_ok : crypto_ok std_hmac std_md5 std_rc4_run.
Proof. repeat split; intros; reflexivity. Qed.

Definition ex_creds : creds := mkCreds [100; 111; 109] [100; 0; 111; 0; 109; 0] [117] [117; 0] [112] [112; 0].
Definition ex_ntlm : ntlm := mkNtlm ex_creds (repeat 1 16) (repeat 2 16) None None false.

Definition ex_challenge : bytes := [78; 84; 76; 77; 83; 83; 80; 0; 2; 0; 0; 0; 0; 0; 0; 0; 56; 0; 0; 0; 53; 130; 138; 226; 1; 2; 3; 4; 5; 6; 7; 8; 0; 0; 0; 0; 0; 0; 0; 0; 88; 0; 88; 0; 56; 0; 0; 0; 6; 0; 114; 23; 0; 0; 0; 15; 2; 0; 6; 0; 68; 0; 79; 0; 77; 0; 1; 0; 6; 0; 83; 0; 82; 0; 86; 0; 4; 0; 18; 0; 100; 0; 111; 0; 109; 0; 46; 0; 108; 0; 111; 0; 99; 0; 97; 0; 108; 0; 3; 0; 26; 0; 115; 0; 114; 0; 118; 0; 46; 0; 100; 0; 111; 0; 109; 0; 46; 0; 108; 0; 111; 0; 99; 0; 97; 0; 108; 0; 7; 0; 8; 0; 16; 50; 84; 118; 152; 186; 220; 1; 0; 0; 0; 0].
Definition ex_ts_challenge : bytes := [48; 129; 164; 160; 3; 2; 1; 2; 161; 129; 156; 48; 129; 153; 48; 129; 150; 160; 129; 147; 4; 129; 144; 78; 84; 76; 77; 83; 83; 80; 0; 2; 0; 0; 0; 0; 0; 0; 0; 56; 0; 0; 0; 53; 130; 138; 226; 1; 2; 3; 4; 5; 6; 7; 8; 0; 0; 0; 0; 0; 0; 0; 0; 88; 0; 88; 0; 56; 0; 0; 0; 6; 0; 114; 23; 0; 0; 0; 15; 2; 0; 6; 0; 68; 0; 79; 0; 77; 0; 1; 0; 6; 0; 83; 0; 82; 0; 86; 0; 4; 0; 18; 0; 100; 0; 111; 0; 109; 0; 46; 0; 108; 0; 111; 0; 99; 0; 97; 0; 108; 0; 3; 0; 26; 0; 115; 0; 114; 0; 118; 0; 46; 0; 100; 0; 111; 0; 109; 0; 46; 0; 108; 0; 111; 0; 99; 0; 97; 0; 108; 0; 7; 0; 8; 0; 16; 50; 84; 118; 152; 186; 220; 1; 0; 0; 0; 0].
Definition ex_ts_validate : bytes := [48; 28; 160; 3; 2; 1; 2; 163; 21; 4; 19; 1; 0; 0; 0; 165; 165; 165; 165; 165; 165; 165; 165; 0; 0; 0; 0; 2; 2; 3].
Definition ex_key : bytes := [1; 2; 3].

Definition ex_after_negotiate (p : prof) : ntlm :=
  match create_negotiate_message p ex_ntlm with Ok (_, s) => s | _ => ex_ntlm end.

Lemma ex_challenge_wf : wf_bytes ex_challenge.
Proof. apply forallb_is_byte. vm_compute. reflexivity. Qed.

Lemma ex_challenge_ok :
  forall p, exists m st', snd (read_challenge_message p std_hmac unit std_rc4_init std_rc4_run (ex_after_negotiate p)
                                  ex_challenge (repeat 0 8) (repeat 0 16)) = Ok (m, st') /\ nlen m = 268.
Proof. intros p. destruct p; vm_compute; do 2 eexists; split; reflexivity. Qed.

Lemma ex_cssp_ok :
  forall p, c_out (cssp_connect p (yasna_req p) (yasna_val p) std_hmac std_md5 unit std_rc4_init std_rc4_run ex_ntlm false
                     (CertKey ex_key) (repeat 0 8) (repeat 0 16) [ex_ts_challenge; ex_ts_validate] []) = Ok tt.
Proof. intros p. destruct p; vm_compute; reflexivity. Qed.

(* the known finding: yasna 0.3.2 computes pos + length unchecked *)
Definition yasna_witness_debug : bytes := [48; 136; 255; 255; 255; 255; 255; 255; 255; 255; 160; 3; 2; 1; 2; 161; 11; 48; 9; 48; 7; 160; 5; 4; 3; 1; 2; 3].
Definition yasna_witness_release : bytes := [48; 26; 160; 11; 2; 136; 255; 255; 255; 255; 255; 255; 255; 255; 2; 161; 11; 48; 9; 48; 7; 160; 5; 4; 3; 1; 2; 3].

Lemma yasna_overflow_witnesses :
  der_ts_request Debug yasna_witness_debug = Panic /\ der_ts_request Release yasna_witness_release = Panic /\ der_ts_request Debug yasna_witness_release = Panic.
Proof. vm_compute. repeat split. Qed.

Lemma yasna_refuted :
  read_ts_server_challenge_yasna Debug yasna_witness_debug = Panic /\
  read_ts_server_challenge_yasna Release yasna_witness_release = Panic.
Proof. vm_compute. split; reflexivity. Qed.
