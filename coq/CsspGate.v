(* Model of nla/cssp.rs cssp_connect as a function of the server's scripted replies, returning the
   result AND the list of messages written on the link, in order.  The NTLM part is Ntlm.v (handshake)
   and NtlmSeal.v (security interface); the link is Link.v (one transport read of at most 1500 bytes
   per link.read(0)).  Everything external is a parameter (Section variable):
     - the hash functions and String::to_uppercase (as in C15 / C16),
     - the DER encoders / decoders of TSRequest (yasna; CsspGateExec.v plugs in executable ones),
     - the peer certificate's subjectPublicKey bytes, or the error with which obtaining it failed
       (native-tls peer_certificate + to_der + x509-parser: external).
   Writes always succeed here (the transport of the correspondence run accepts everything). *)
From RdpV Require Import Base Msg Link Rc4 Utf LayoutsNtlmAuth Ntlm NtlmSeal.
Open Scope N_scope.

(* BigUint::from_bytes_le *)
Fixpoint le_nat (l : bytes) : N := match l with [] => 0 | b :: tl => b + 256 * le_nat tl end.

(* link.read(0): one read of at most 1500 bytes; the rest of a longer chunk stays queued *)
Definition link_read0 (replies : stream) : bytes * stream := tread 1500 replies.

Section Gate.
Variable md4 md5 : bytes -> bytes.
Variable hmac : bytes -> bytes -> bytes.
Variable uppercase : list N -> list N.
Variable p : prof.
(* yasna-based codecs of cssp.rs *)
Variable create_ts_request : bytes -> bytes.
Variable create_ts_authenticate : bytes -> bytes -> bytes.
Variable create_ts_credentials : bytes -> bytes -> bytes -> bytes.
Variable create_ts_authinfo : bytes -> bytes.
Variable read_ts_server_challenge : bytes -> outcome bytes.
Variable read_ts_validate : bytes -> outcome bytes.

(* self.is_unicode as read_challenge_message leaves it *)
Definition challenge_is_unicode (request : bytes) : bool :=
  match read p challenge_message_t request with
  | ROk m _ _ => match cast_num 32 (get m "NegotiateFlags") with Ok f => N.land f 1 =? 1 | _ => false end
  | _ => false
  end.

(* the last round: everything after the second write.  ctx = security context after sealing the public
   key; reply = what link.read(0) returned.  Returns the result and the writes of this round. *)
Definition final_round (st : ntlm) (restricted : bool) (is_unicode : bool) (pubkey : bytes) (ctx : secif) (reply : bytes)
  : outcome unit * list bytes :=
  match read_ts_validate reply with
  | Err e => (Err e, [])
  | Panic => (Panic, [])
  | Spin => (Spin, [])
  | Ok pub_key_auth =>
      match gss_unwrapex hmac ctx pub_key_auth with
      | (Err e, _) => (Err e, [])
      | (Panic, _) => (Panic, [])
      | (Spin, _) => (Spin, [])
      | (Ok inc_pub_key, ctx') =>
          if negb (le_nat inc_pub_key =? le_nat pubkey + 1) then (Err EPossibleMITM, [])
          else
            let enc := encode_name is_unicode in
            let domain := if restricted then [] else enc (n_domain st) in
            let user := if restricted then [] else enc (n_user st) in
            let password := if restricted then [] else enc (n_password st) in
            match gss_wrapex hmac ctx' (create_ts_credentials domain user password) with
            | Ok (sealed, _) => (Ok tt, [create_ts_authinfo sealed])
            | Err e => (Err e, [])
            | Panic => (Panic, [])
            | Spin => (Spin, [])
            end
      end
  end.

(* cssp_connect: (result, messages written in order) *)
Definition cssp_connect (st : ntlm) (restricted : bool) (cert : outcome bytes) (replies : stream)
           (client_challenge exported_session_key : bytes) : outcome unit * list bytes :=
  match create_negotiate_message p with
  | Ok negotiate =>
      let w1 := create_ts_request negotiate in
      let (r1, replies1) := link_read0 replies in
      match read_ts_server_challenge r1 with
      | Ok server_challenge =>
          match read_challenge_message hmac p st negotiate server_challenge client_challenge exported_session_key with
          | Ok token =>
              match build_security_interface md5 exported_session_key with
              | Ok ctx0 =>
                  match cert with
                  | Ok pubkey =>
                      match gss_wrapex hmac ctx0 pubkey with
                      | Ok (sealed, ctx1) =>
                          let w2 := create_ts_authenticate token sealed in
                          let (r2, _) := link_read0 replies1 in
                          let (res, w) := final_round st restricted (challenge_is_unicode server_challenge) pubkey ctx1 r2 in
                          (res, [w1; w2] ++ w)
                      | Err e => (Err e, [w1]) | Panic => (Panic, [w1]) | Spin => (Spin, [w1])
                      end
                  | Err e => (Err e, [w1]) | Panic => (Panic, [w1]) | Spin => (Spin, [w1])
                  end
              | Err e => (Err e, [w1]) | Panic => (Panic, [w1]) | Spin => (Spin, [w1])
              end
          | Err e => (Err e, [w1]) | Panic => (Panic, [w1]) | Spin => (Spin, [w1])
          end
      | Err e => (Err e, [w1]) | Panic => (Panic, [w1]) | Spin => (Spin, [w1])
      end
  | Err e => (Err e, []) | Panic => (Panic, []) | Spin => (Spin, [])
  end.

End Gate.
