(* Totality of the interleaved-RLE decoder model (Rle16.v): under the invariant
   "line/prevline + width lie inside width*height <= |output|, x <= width, height <=
   the original height, the remaining input is a byte string" every order handler
   neither panics nor spins and re-establishes the invariant. *)
From RdpV Require Import Base Buf Rle16 CodecLemmas.

Ltac prj := cbn [s_inp s_out s_x s_cnt s_hgt s_line s_prev s_lastop s_insmix s_c1 s_c2 s_mix s_mask s_mixmask s_bic
                 set_inp set_out set_x set_cnt set_lastop set_insmix set_c1 set_c2 set_mix set_mask set_mixmask set_bic
                 set_newline] in *.

Ltac finh := repeat match goal with |- _ /\ _ => split end; auto; try lia.

Section Hdr.
Variable p : prof.

(* ---- order header: no dependence on the geometry *)
Lemma decode_header_ok code inp : wf_bytes inp ->
  safe (fun '(op, count, offset, r) =>
          count <= 65535 /\ (offset = 0 \/ count <= 31) /\ offset <= 32 /\ wf_bytes r /\ (length r <= length inp)%nat)
       (decode_header code inp).
Proof.
  intros Hwf. unfold decode_header.
  destruct (_ || _).
  { cbn [safe]. pose proof (N.mod_lt code 16). finh. }
  destruct (code / 16 =? 15).
  - destruct (code mod 16 <? 9).
    + pose proof (read_u16le_wf inp Hwf) as Hr.
      destruct (read_u16le inp) as [[c r]| | |]; cbn [safe] in *; auto.
      destruct Hr as (Hc & Hr & Hl). finh.
    + destruct (code mod 16 <? 11); cbn [safe]; finh.
  - cbn [safe]. pose proof (N.mod_lt code 32). finh.
Qed.

Lemma extend_count_ok op count offset inp :
  count <= 65535 -> (offset = 0 \/ count <= 31) -> offset <= 32 -> wf_bytes inp ->
  safe (fun '(c, r) => c <= 65535 /\ wf_bytes r /\ (length r <= length inp)%nat)
       (extend_count p op count offset inp).
Proof.
  intros Hc Ho Hoff Hwf. unfold extend_count.
  destruct (offset =? 0) eqn:E0; cbn [negb].
  { cbn [safe]. finh. }
  apply N.eqb_neq in E0.
  destruct (count =? 0).
  - pose proof (read_u8_wf inp Hwf) as Hr.
    destruct (read_u8 inp) as [[b r]| | |]; cbn [safe] in *; auto.
    destruct Hr as (Hb & Hr & Hl).
    assert (Hk : (if (op =? 2) || (op =? 7) then 1 else offset) <= 32) by (destruct (_ || _); lia).
    rewrite add32 by lia. cbn [obind safe]. finh.
  - destruct (_ || _); cbn [safe]; [|finh].
    assert (count <= 31) by lia.
    rewrite pow32. rewrite N.mod_small by lia. finh.
Qed.

End Hdr.

Section Inv.
Variable p : prof.
Variables w h L : N.
Hypothesis Hw : w < 65536.
Hypothesis Hh : h < 65536.
Hypothesis HL : w * h <= L.

Lemma wh_bound : w * h <= 4294836225.
Proof. apply mul_u16; assumption. Qed.

Record inv (s : st) : Prop := mkInv {
  i_len : blen (s_out s) = L;
  i_x : s_x s <= w;
  i_hgt : s_hgt s <= h;
  i_line : forall l, s_line s = Some l -> l + w <= w * h;
  i_none : s_line s = None -> s_x s = w;
  i_prev : forall e, s_prev s = Some e -> e + w <= w * h;
  i_wf : wf_bytes (s_inp s) }.

Definition shorter (s s' : st) : Prop := (length (s_inp s') <= length (s_inp s))%nat.
Ltac fin := unfold shorter in *; prj; repeat match goal with |- _ /\ _ => split end; auto; try lia.

(* s1 differs from s only in fields the pixel loop does not look at for control *)
Definition rel (s s1 : st) : Prop :=
  inv s1 /\ s_x s1 = s_x s /\ s_hgt s1 = s_hgt s /\ s_cnt s1 = s_cnt s /\ shorter s s1.

(* what one evaluation of a repeat! expression may do *)
Definition bpost (s s' : st) : Prop :=
  inv s' /\ s_x s' = s_x s /\ s_hgt s' = s_hgt s /\ s_cnt s <= s_cnt s' <= s_cnt s + 1 /\ shorter s s'.

Definition BodyOK (body : st -> outcome st) : Prop :=
  forall s, inv s -> s_x s < w -> s_cnt s <= 65535 -> safe (bpost s) (body s).

Lemma rel_refl s : inv s -> rel s s.
Proof. intros H. unfold rel, shorter. fin. Qed.

Lemma rel_bpost s s1 : rel s s1 -> bpost s s1.
Proof. unfold rel, bpost. intros (H1 & H2 & H3 & H4 & H5). fin. Qed.

Lemma rel_then_bpost s s1 s2 : rel s s1 -> bpost s1 s2 -> bpost s s2.
Proof.
  unfold rel, bpost, shorter. intros (H1 & H2 & H3 & H4 & H5) (G1 & G2 & G3 & G4 & G5).
  fin.
Qed.

Lemma inv_set_out s o : inv s -> blen o = L -> inv (set_out s o).
Proof. intros [] Ho. constructor; prj; auto. Qed.

Lemma inv_set_inp s r : inv s -> wf_bytes r -> inv (set_inp s r).
Proof. intros [] Hr. constructor; prj; auto. Qed.

Lemma rel_set_out s o : inv s -> blen o = L -> rel s (set_out s o).
Proof. intros H Ho. unfold rel, shorter. prj. fin; apply inv_set_out; assumption. Qed.

(* ---- the two accesses *)
Lemma wr_ok s v : inv s -> s_x s < w -> exists o, wr p s v = Ok (set_out s o) /\ blen o = L.
Proof.
  intros Hi Hx. unfold wr. destruct (s_line s) as [l|] eqn:El.
  - pose proof (i_line s Hi l El) as Hl. pose proof wh_bound as Hb.
    rewrite add64 by lia. cbn [obind].
    rewrite bset_ok by (rewrite (i_len s Hi); lia). cbn [obind].
    eexists. split; [reflexivity|]. rewrite blen_bset_raw. apply (i_len s Hi).
  - pose proof (i_none s Hi El). lia.
Qed.

Lemma rd_ok e s : inv s -> s_x s < w -> e + w <= w * h -> exists v, rd p e s = Ok v.
Proof.
  intros Hi Hx He. unfold rd. pose proof wh_bound as Hb.
  rewrite add64 by lia. cbn [obind].
  rewrite bget_ok by (rewrite (i_len s Hi); lia). eexists. reflexivity.
Qed.

Lemma wr_rel s v : inv s -> s_x s < w -> safe (rel s) (wr p s v).
Proof.
  intros Hi Hx. destruct (wr_ok s v Hi Hx) as (o & -> & Ho). cbn [safe].
  apply rel_set_out; assumption.
Qed.

(* ---- the repeat! expressions *)
Lemma b_const_ok v : BodyOK (b_const p v).
Proof.
  intros s Hi Hx Hc. unfold b_const.
  eapply safe_imp; [apply wr_rel; assumption|]. intros a Ha. apply rel_bpost, Ha.
Qed.

Lemma b_mix_ok : BodyOK (b_mix p).
Proof.
  intros s Hi Hx Hc. unfold b_mix.
  eapply safe_imp; [apply wr_rel; assumption|]. intros a Ha. apply rel_bpost, Ha.
Qed.

Lemma b_copy_ok e : e + w <= w * h -> BodyOK (b_copy p e).
Proof.
  intros He s Hi Hx Hc. unfold b_copy.
  destruct (rd_ok e s Hi Hx He) as (v & ->). cbn [obind].
  eapply safe_imp; [apply wr_rel; assumption|]. intros a Ha. apply rel_bpost, Ha.
Qed.

Lemma b_mixprev_ok e : e + w <= w * h -> BodyOK (b_mixprev p e).
Proof.
  intros He s Hi Hx Hc. unfold b_mixprev.
  destruct (rd_ok e s Hi Hx He) as (v & ->). cbn [obind].
  eapply safe_imp; [apply wr_rel; assumption|]. intros a Ha. apply rel_bpost, Ha.
Qed.

Lemma fom_mask_step_ok fom s : inv s -> safe (rel s) (fom_mask_step fom s).
Proof.
  intros Hi. unfold fom_mask_step.
  destruct (_ =? 0) eqn:E0.
  - destruct (negb (fom =? 0)).
    + cbn [safe]. unfold rel, shorter. prj. fin. destruct Hi; constructor; prj; auto.
    + pose proof (read_u8_wf (s_inp s) (i_wf s Hi)) as Hr.
      destruct (read_u8 (s_inp s)) as [[b r]| | |]; cbn [safe] in *; auto.
      destruct Hr as (Hb & Hwf & Hlen).
      unfold rel, shorter. prj. fin.
      destruct Hi; constructor; prj; auto.
  - cbn [safe]. unfold rel, shorter. prj. fin. destruct Hi; constructor; prj; auto.
Qed.

Lemma b_fom_prev_ok fom e : e + w <= w * h -> BodyOK (b_fom_prev p fom e).
Proof.
  intros He s Hi Hx Hc. unfold b_fom_prev.
  eapply safe_bind; [apply fom_mask_step_ok; assumption|].
  intros s1 Hr. pose proof Hr as (Hi1 & Hx1 & Hh1 & Hc1 & Hs1).
  assert (Hx' : s_x s1 < w) by lia. assert (Hc' : s_cnt s1 <= 65535) by lia.
  destruct (fom_bit s1).
  - eapply safe_imp; [apply (b_mixprev_ok e He s1 Hi1 Hx' Hc')|]. intros a Ha. eapply rel_then_bpost; eauto.
  - eapply safe_imp; [apply (b_copy_ok e He s1 Hi1 Hx' Hc')|]. intros a Ha. eapply rel_then_bpost; eauto.
Qed.

Lemma b_fom_first_ok fom : BodyOK (b_fom_first p fom).
Proof.
  intros s Hi Hx Hc. unfold b_fom_first.
  eapply safe_bind; [apply fom_mask_step_ok; assumption|].
  intros s1 Hr. pose proof Hr as (Hi1 & Hx1 & Hh1 & Hc1 & Hs1).
  assert (Hx' : s_x s1 < w) by lia. assert (Hc' : s_cnt s1 <= 65535) by lia.
  destruct (fom_bit s1).
  - eapply safe_imp; [apply (b_mix_ok s1 Hi1 Hx' Hc')|]. intros a Ha. eapply rel_then_bpost; eauto.
  - eapply safe_imp; [apply (b_const_ok 0 s1 Hi1 Hx' Hc')|]. intros a Ha. eapply rel_then_bpost; eauto.
Qed.

Lemma b_colimg_ok : BodyOK (b_colimg p).
Proof.
  intros s Hi Hx Hc. unfold b_colimg.
  pose proof (read_u16le_wf (s_inp s) (i_wf s Hi)) as Hr.
  destruct (read_u16le (s_inp s)) as [[v r]| | |]; cbn [safe] in *; auto.
  destruct Hr as (Hv & Hwf & Hlen).
  assert (Hi1 : inv (set_inp s r)) by (apply inv_set_inp; assumption).
  assert (Hr1 : rel s (set_inp s r)).
  { unfold rel, shorter. prj. fin. }
  eapply safe_imp; [apply wr_rel; [exact Hi1 | prj; exact Hx]|].
  intros a Ha. eapply rel_then_bpost; [exact Hr1|]. apply rel_bpost, Ha.
Qed.

Lemma b_bicol_ok : BodyOK (b_bicol p).
Proof.
  intros s Hi Hx Hc. unfold b_bicol. destruct (s_bic s).
  - destruct (wr_ok s (s_c2 s) Hi Hx) as (o & -> & Ho). cbn [obind safe].
    pose proof (inv_set_out s o Hi Ho) as Hi1.
    unfold bpost, shorter. prj. fin.
    destruct Hi1; constructor; prj; auto.
  - destruct (wr_ok s (s_c1 s) Hi Hx) as (o & -> & Ho). cbn [obind]. prj.
    rewrite add32 by lia. cbn [obind safe].
    pose proof (inv_set_out s o Hi Ho) as Hi1.
    unfold bpost, shorter. prj. fin.
    destruct Hi1; constructor; prj; auto.
Qed.

(* ---- the macro *)
Definition spost (n : N) (s s' : st) : Prop :=
  inv s' /\ s_x s' = s_x s + n /\ s_hgt s' = s_hgt s /\ s_cnt s - n <= s_cnt s' <= s_cnt s /\ shorter s s'.

Lemma step_ok body : BodyOK body ->
  forall s, inv s -> s_x s < w -> 1 <= s_cnt s <= 65535 -> safe (spost 1 s) (step p body s).
Proof.
  intros Hb s Hi Hx Hc. unfold step.
  eapply safe_bind; [apply Hb; [assumption|assumption|lia]|].
  intros s1 (Hi1 & Hx1 & Hh1 & Hc1 & Hs1).
  rewrite sub32 by lia. cbn [obind].
  rewrite add64 by lia. cbn [obind safe].
  unfold spost, shorter in *. prj. fin.
  destruct Hi1; constructor; prj; auto. lia.
  intros El. specialize (i_none0 El). lia.
Qed.

Lemma steps_ok body : BodyOK body ->
  forall n s, inv s -> s_x s + N.of_nat n <= w -> N.of_nat n <= s_cnt s <= 65535 ->
              safe (spost (N.of_nat n) s) (steps p n body s).
Proof.
  intros Hb n. induction n as [|k IH]; intros s Hi Hx Hc.
  - cbn [steps safe]. unfold spost, shorter. fin.
  - cbn [steps].
    eapply safe_bind; [apply (step_ok body Hb s Hi); lia|].
    intros s1 (Hi1 & Hx1 & Hh1 & Hc1 & Hs1).
    eapply safe_imp; [apply (IH s1 Hi1); lia|].
    intros s2 (Hi2 & Hx2 & Hh2 & Hc2 & Hs2).
    unfold spost, shorter in *. fin.
Qed.

(* after the macro: invariant, same height, count still small, input not longer *)
Definition rpost (s s' : st) : Prop :=
  inv s' /\ s_hgt s' = s_hgt s /\ s_cnt s' <= 65535 /\ shorter s s'.

Lemma rep_blk_ok body : BodyOK body ->
  forall fuel s, inv s -> s_cnt s <= 65535 -> (N.to_nat (w - s_x s) < fuel)%nat ->
                 safe (rpost s) (rep_blk p w fuel body s).
Proof.
  intros Hb fuel. induction fuel as [|k IH]; intros s Hi Hc Hf; [lia|].
  cbn [rep_blk].
  assert (Hrefl : rpost s s) by (unfold rpost; fin).
  destruct (8 <=? s_cnt s) eqn:E8; [|exact Hrefl].
  apply N.leb_le in E8.
  pose proof (i_x s Hi) as Hxw.
  rewrite add64 by lia. cbn [obind].
  destruct (s_x s + 8 <? w) eqn:Ex; [|exact Hrefl].
  apply N.ltb_lt in Ex.
  eapply safe_bind; [apply (steps_ok body Hb 8 s Hi); cbn; lia|].
  intros s1 (Hi1 & Hx1 & Hh1 & Hc1 & Hs1). cbn in Hx1, Hc1.
  eapply safe_imp; [apply (IH s1 Hi1); lia|].
  intros s2 (Hi2 & Hh2 & Hc2 & Hs2).
  unfold rpost, shorter in *. fin.
Qed.

Definition tpost (s s' : st) : Prop :=
  rpost s s' /\ (s_cnt s' = 0 \/ w <= s_x s').

Lemma rep_tail_ok body : BodyOK body ->
  forall fuel s, inv s -> s_cnt s <= 65535 -> (N.to_nat (w - s_x s) < fuel)%nat ->
                 safe (tpost s) (rep_tail p w fuel body s).
Proof.
  intros Hb fuel. induction fuel as [|k IH]; intros s Hi Hc Hf; [lia|].
  cbn [rep_tail].
  destruct (0 <? s_cnt s) eqn:E0; cbn [andb].
  - destruct (s_x s <? w) eqn:Ex.
    + apply N.ltb_lt in E0, Ex.
      eapply safe_bind; [apply (step_ok body Hb s Hi); lia|].
      intros s1 (Hi1 & Hx1 & Hh1 & Hc1 & Hs1).
      eapply safe_imp; [apply (IH s1 Hi1); lia|].
      intros s2 ((Hi2 & Hh2 & Hc2 & Hs2) & Hend).
      unfold tpost, rpost, shorter in *. fin.
    + apply N.ltb_ge in Ex. cbn [safe]. unfold tpost, rpost, shorter. fin.
  - apply N.ltb_ge in E0. cbn [safe]. unfold tpost, rpost, shorter. fin.
Qed.

Lemma repeat_ok body : BodyOK body ->
  forall s, inv s -> s_cnt s <= 65535 -> safe (tpost s) (repeat_m p w body s).
Proof.
  intros Hb s Hi Hc. unfold repeat_m.
  eapply safe_bind; [apply (rep_blk_ok body Hb _ s Hi Hc); lia|].
  intros s1 (Hi1 & Hh1 & Hc1 & Hs1).
  eapply safe_imp; [apply (rep_tail_ok body Hb _ s1 Hi1 Hc1); lia|].
  intros s2 ((Hi2 & Hh2 & Hc2 & Hs2) & Hend).
  unfold tpost, rpost, shorter in *. fin.
Qed.

(* ---- one pass of the order handler *)
Lemma handler_ok op fom s : inv s -> s_x s < w -> 1 <= s_cnt s <= 65535 ->
  safe (tpost s) (handler p w op fom s).
Proof.
  intros Hi Hx Hc. unfold handler.
  destruct (op =? 0).
  { (* background run, possibly with the inserted foreground pixel *)
    eapply safe_bind with (Q := fun s1 => rpost s s1).
    - destruct (s_insmix s).
      + eapply safe_bind with (Q := bpost s).
        * destruct (s_prev s) as [e|] eqn:Ep.
          -- apply b_mixprev_ok; auto; [apply (i_prev s Hi e Ep)|lia].
          -- apply b_mix_ok; auto; lia.
        * intros s' (Hi1 & Hx1 & Hh1 & Hc1 & Hs1). prj.
          rewrite sub32 by lia. cbn [obind].
          pose proof (i_x s' Hi1).
          rewrite add64 by lia. cbn [obind safe].
          unfold rpost, shorter in *. prj. fin.
          destruct Hi1; constructor; prj; auto. lia.
          intros El. specialize (i_none0 El). lia.
      + cbn [safe]. unfold rpost, shorter. fin.
    - intros s1 (Hi1 & Hh1 & Hc1 & Hs1).
      destruct (s_prev s1) as [e|] eqn:Ep.
      + eapply safe_imp; [apply (repeat_ok (b_copy p e) (b_copy_ok e (i_prev s1 Hi1 e Ep)) s1 Hi1 Hc1)|].
        intros s2 ((Hi2 & Hh2 & Hc2 & Hs2) & Hend).
        unfold tpost, rpost, shorter in *. fin.
      + eapply safe_imp; [apply (repeat_ok (b_const p 0) (b_const_ok 0) s1 Hi1 Hc1)|].
        intros s2 ((Hi2 & Hh2 & Hc2 & Hs2) & Hend).
        unfold tpost, rpost, shorter in *. fin. }
  assert (Hc' : s_cnt s <= 65535) by lia.
  destruct (op =? 1).
  { destruct (s_prev s) as [e|] eqn:Ep.
    - apply (repeat_ok _ (b_mixprev_ok e (i_prev s Hi e Ep)) s Hi Hc').
    - apply (repeat_ok _ b_mix_ok s Hi Hc'). }
  destruct (op =? 2).
  { destruct (s_prev s) as [e|] eqn:Ep.
    - apply (repeat_ok _ (b_fom_prev_ok fom e (i_prev s Hi e Ep)) s Hi Hc').
    - apply (repeat_ok _ (b_fom_first_ok fom) s Hi Hc'). }
  destruct (op =? 3). { apply (repeat_ok _ (b_const_ok _) s Hi Hc'). }
  destruct (op =? 4). { apply (repeat_ok _ b_colimg_ok s Hi Hc'). }
  destruct (op =? 8). { apply (repeat_ok _ b_bicol_ok s Hi Hc'). }
  destruct (op =? 13). { apply (repeat_ok _ (b_const_ok _) s Hi Hc'). }
  destruct (op =? 14). { apply (repeat_ok _ (b_const_ok _) s Hi Hc'). }
  exact I.
Qed.


Section Pos.
Hypothesis Hw0 : 0 < w.

Lemma next_line_ok s : inv s ->
  safe (fun s1 => inv s1 /\ s_x s1 < w /\ s_cnt s1 = s_cnt s /\ shorter s s1 /\
                  (if w <=? s_x s then s_hgt s1 + 1 = s_hgt s else s_hgt s1 = s_hgt s))
       (next_line p w s).
Proof.
  intros Hi. unfold next_line. destruct (w <=? s_x s) eqn:E.
  - destruct (s_hgt s <=? 0) eqn:E0; [exact I|]. apply N.leb_gt in E0.
    rewrite sub64 by lia. cbn [obind].
    pose proof (i_hgt s Hi) as Hh'. pose proof wh_bound as Hb.
    assert (Hm : (s_hgt s - 1) * w + w <= w * h).
    { replace ((s_hgt s - 1) * w + w) with (s_hgt s * w) by
        (replace (s_hgt s) with (s_hgt s - 1 + 1) at 1 by lia; lia).
      rewrite (N.mul_comm w h). apply N.mul_le_mono_r. exact Hh'. }
    rewrite mul64 by lia. cbn [obind safe]. prj.
    fin. destruct Hi. constructor; prj; auto; try lia.
    + intros l El. inversion El; subst. exact Hm.
    + discriminate.
  - apply N.leb_gt in E. cbn [safe]. fin.
Qed.

Definition meas (s : st) : nat := (N.to_nat (s_hgt s) + (if N.ltb (s_x s) w then 1 else 0))%nat.

Lemma cnt_loop_ok op fom : forall fuel s, inv s -> s_cnt s <= 65535 ->
  (s_cnt s = 0 /\ (1 <= fuel)%nat) \/ (meas s < fuel)%nat ->
  safe (fun s' => inv s' /\ shorter s s') (cnt_loop p w fuel op fom s).
Proof.
  induction fuel as [|k IH]; intros s Hi Hc Hf; [lia|].
  cbn [cnt_loop]. destruct (0 <? s_cnt s) eqn:E0; [|cbn [safe]; fin].
  apply N.ltb_lt in E0.
  destruct Hf as [Hf|Hf]; [lia|].
  eapply safe_bind; [apply next_line_ok; assumption|].
  intros s1 (Hi1 & Hx1 & Hc1 & Hs1 & Hh1).
  eapply safe_bind; [apply (handler_ok op fom s1 Hi1 Hx1); lia|].
  intros s2 ((Hi2 & Hh2 & Hc2 & Hs2) & Hend).
  eapply safe_imp; [apply (IH s2 Hi2 Hc2)|].
  - unfold meas in *.
    destruct (w <=? s_x s) eqn:Ew.
    + apply N.leb_le in Ew. destruct (s_x s <? w) eqn:Ex; [apply N.ltb_lt in Ex; lia|].
      destruct Hend as [Hz|Hge].
      * left. split; [exact Hz|]. lia.
      * right. destruct (s_x s2 <? w) eqn:Ex2; [apply N.ltb_lt in Ex2; lia|]. lia.
    + apply N.leb_gt in Ew. destruct (s_x s <? w) eqn:Ex; [|apply N.ltb_ge in Ex; lia].
      destruct Hend as [Hz|Hge].
      * left. split; [exact Hz|]. lia.
      * right. destruct (s_x s2 <? w) eqn:Ex2; [apply N.ltb_lt in Ex2; lia|]. lia.
  - intros s3 (Hi3 & Hs3). fin.
Qed.

Lemma order_params_ok op s : inv s ->
  safe (fun '(op', fom, s1) => inv s1 /\ s_hgt s1 = s_hgt s /\ s_x s1 = s_x s /\ shorter s s1)
       (order_params w op s).
Proof.
  intros Hi. unfold order_params.
  assert (Hset : forall s', s_out s' = s_out s -> s_x s' = s_x s -> s_hgt s' = s_hgt s -> s_line s' = s_line s ->
                            s_prev s' = s_prev s -> wf_bytes (s_inp s') -> inv s').
  { intros s' E1 E2 E3 E4 E5 E6. destruct Hi as [A1 A2 A3 A4 A5 A6 A7]. constructor.
    - rewrite E1; exact A1.
    - rewrite E2; exact A2.
    - rewrite E3; exact A3.
    - rewrite E4; exact A4.
    - rewrite E4, E2; exact A5.
    - rewrite E5; exact A6.
    - exact E6. }
  destruct (op =? 0).
  { destruct (_ && _); cbn [safe]; fin; try (apply Hset; prj; auto; apply (i_wf s Hi)). }
  destruct (op =? 8).
  { pose proof (read_u16le_wf (s_inp s) (i_wf s Hi)) as Hr.
    destruct (read_u16le (s_inp s)) as [[c1 r1]| | |]; cbn [safe] in *; auto.
    destruct Hr as (Hc1 & Hr1 & Hl1).
    pose proof (read_u16le_wf r1 Hr1) as Hr.
    destruct (read_u16le r1) as [[c2 r2]| | |]; cbn [safe] in *; auto.
    destruct Hr as (Hc2 & Hr2 & Hl2). prj. fin; try (apply Hset; prj; auto). }
  destruct (op =? 3).
  { pose proof (read_u16le_wf (s_inp s) (i_wf s Hi)) as Hr.
    destruct (read_u16le (s_inp s)) as [[c1 r1]| | |]; cbn [safe] in *; auto.
    destruct Hr as (Hc1 & Hr1 & Hl1). prj. fin; try (apply Hset; prj; auto). }
  destruct (_ || _).
  { pose proof (read_u16le_wf (s_inp s) (i_wf s Hi)) as Hr.
    destruct (read_u16le (s_inp s)) as [[c1 r1]| | |]; cbn [safe] in *; auto.
    destruct Hr as (Hc1 & Hr1 & Hl1). prj. fin; try (apply Hset; prj; auto). }
  destruct (op =? 9). { cbn [safe]. prj. fin; try (apply Hset; prj; auto; apply (i_wf s Hi)). }
  destruct (op =? 10). { cbn [safe]. prj. fin; try (apply Hset; prj; auto; apply (i_wf s Hi)). }
  cbn [safe]. fin.
Qed.

Lemma order_ok code s : inv s -> safe (fun s' => inv s' /\ shorter s s') (order p w code s).
Proof.
  intros Hi. unfold order.
  pose proof (decode_header_ok code (s_inp s) (i_wf s Hi)) as Hd.
  destruct (decode_header code (s_inp s)) as [[[[op count] offset] r1]| | |]; cbn [safe] in *; auto.
  destruct Hd as (Hc & Ho & Hoff & Hr1 & Hl1).
  pose proof (extend_count_ok p op count offset r1 Hc Ho Hoff Hr1) as He.
  destruct (extend_count p op count offset r1) as [[c r2]| | |]; cbn [safe] in *; auto.
  destruct He as (Hc2 & Hr2 & Hl2).
  pose proof (order_params_ok op (set_inp s r2) (inv_set_inp s r2 Hi Hr2)) as Hp.
  destruct (order_params w op (set_inp s r2)) as [[[op' fom] s1]| | |]; cbn [safe] in *; auto.
  destruct Hp as (Hi1 & Hh1 & Hx1 & Hs1). prj.
  set (s2 := set_cnt (set_mixmask (set_lastop s1 op') 0) c).
  assert (Hi2 : inv s2). { subst s2. destruct Hi1. constructor; prj; auto. }
  eapply safe_imp; [apply (cnt_loop_ok op' fom _ s2 Hi2)|].
  - subst s2. prj. exact Hc2.
  - right. unfold meas. subst s2. prj. destruct (s_x s1 <? w); lia.
  - intros s3 (Hi3 & Hs3). subst s2. unfold shorter in *. prj. fin.
Qed.

Lemma main_loop_ok : forall fuel s, inv s -> (length (s_inp s) < fuel)%nat ->
  safe inv (main_loop p w fuel s).
Proof.
  induction fuel as [|k IH]; intros s Hi Hf; [lia|].
  cbn [main_loop]. destruct (s_inp s) as [|code r] eqn:Ei; [exact Hi|].
  pose proof (i_wf s Hi) as Hwf. rewrite Ei in Hwf. apply wf_cons_inv in Hwf. destruct Hwf as [_ Hr].
  eapply safe_bind; [apply (order_ok code (set_inp s r) (inv_set_inp s r Hi Hr))|].
  intros s1 (Hi1 & Hs1). unfold shorter in Hs1. prj. cbn [length] in Hf.
  apply IH; [exact Hi1|lia].
Qed.

Lemma rle16_pos input out : wf_bytes input -> blen out = L ->
  safe (fun o => blen o = L) (rle16 p w h input out).
Proof.
  intros Hwf Ho. unfold rle16.
  eapply safe_bind; [apply main_loop_ok|].
  - unfold init_st. constructor; prj; auto; try lia; discriminate.
  - unfold init_st. prj. lia.
  - intros s Hi. cbn [safe]. apply (i_len s Hi).
Qed.

End Pos.
End Inv.

(* ---- width = 0: no pixel is ever written; an order with a positive count runs out of
   lines and returns InvalidData *)
Section W0.
Variable p : prof.
Variable out0 : buf.

Ltac fin0 := unfold shorter in *; prj; repeat match goal with |- _ /\ _ => split end; auto; try lia.

Definition inv0 (s : st) : Prop :=
  s_x s = 0 /\ s_prev s = None /\ s_insmix s = false /\ wf_bytes (s_inp s) /\ s_out s = out0.

Lemma repeat_w0 body s : s_x s = 0 -> repeat_m p 0 body s = Ok s.
Proof.
  intros Hx. unfold repeat_m. cbn [N.to_nat rep_blk].
  assert (Ht : rep_tail p 0 1 body s = Ok s).
  { cbn [rep_tail]. rewrite Hx. change (0 <? 0) with false. rewrite andb_false_r. reflexivity. }
  destruct (8 <=? s_cnt s).
  - rewrite Hx. rewrite add64 by lia. cbn [obind]. change (0 + 8 <? 0) with false. cbv iota.
    cbn [obind]. exact Ht.
  - cbn [obind]. exact Ht.
Qed.

Lemma handler_w0 op fom s : s_x s = 0 -> s_insmix s = false ->
  handler p 0 op fom s = Ok s \/ handler p 0 op fom s = Err EInvalidData.
Proof.
  intros Hx Hins. unfold handler.
  destruct (op =? 0).
  { rewrite Hins. cbn [obind]. left. destruct (s_prev s); apply repeat_w0; assumption. }
  destruct (op =? 1). { left. destruct (s_prev s); apply repeat_w0; assumption. }
  destruct (op =? 2). { left. destruct (s_prev s); apply repeat_w0; assumption. }
  destruct (op =? 3). { left. apply repeat_w0; assumption. }
  destruct (op =? 4). { left. apply repeat_w0; assumption. }
  destruct (op =? 8). { left. apply repeat_w0; assumption. }
  destruct (op =? 13). { left. apply repeat_w0; assumption. }
  destruct (op =? 14). { left. apply repeat_w0; assumption. }
  right. reflexivity.
Qed.

Lemma cnt_loop_w0 op fom : forall fuel s, s_x s = 0 -> s_insmix s = false -> 0 < s_cnt s ->
  (N.to_nat (s_hgt s) < fuel)%nat -> exists e, cnt_loop p 0 fuel op fom s = Err e.
Proof.
  induction fuel as [|k IH]; intros s Hx Hins Hc Hf; [lia|].
  cbn [cnt_loop]. apply N.ltb_lt in Hc. rewrite Hc. apply N.ltb_lt in Hc.
  unfold next_line. rewrite Hx. change (0 <=? 0) with true. cbv iota.
  destruct (s_hgt s <=? 0) eqn:E0; [eexists; reflexivity|]. apply N.leb_gt in E0.
  rewrite sub64 by lia. cbn [obind].
  rewrite mul64 by (rewrite N.mul_0_r; lia). cbn [obind].
  set (s1 := set_newline s (s_hgt s - 1) ((s_hgt s - 1) * 0)).
  destruct (handler_w0 op fom s1) as [E|E]; try (subst s1; prj; auto; fail); rewrite E; cbn [obind].
  - apply IH; subst s1; prj; auto. lia.
  - eexists; reflexivity.
Qed.

Lemma order_params_w0 op s : inv0 s ->
  safe (fun '(op', fom, s1) => inv0 s1 /\ shorter s s1) (order_params 0 op s).
Proof.
  intros (Hx & Hp & Hins & Hwf & Ho). unfold order_params.
  destruct (op =? 0).
  { rewrite Hx, Hp. cbn [is_none]. change (0 =? 0) with true. cbn [andb negb]. rewrite andb_false_r.
    cbn [safe]. unfold inv0. fin0. }
  destruct (op =? 8).
  { pose proof (read_u16le_wf (s_inp s) Hwf) as Hr.
    destruct (read_u16le (s_inp s)) as [[c1 r1]| | |]; cbn [safe] in *; auto.
    destruct Hr as (Hc1 & Hr1 & Hl1).
    pose proof (read_u16le_wf r1 Hr1) as Hr.
    destruct (read_u16le r1) as [[c2 r2]| | |]; cbn [safe] in *; auto.
    destruct Hr as (Hc2 & Hr2 & Hl2). unfold inv0. fin0. }
  destruct (op =? 3).
  { pose proof (read_u16le_wf (s_inp s) Hwf) as Hr.
    destruct (read_u16le (s_inp s)) as [[c1 r1]| | |]; cbn [safe] in *; auto.
    destruct Hr as (Hc1 & Hr1 & Hl1). unfold inv0. fin0. }
  destruct (_ || _).
  { pose proof (read_u16le_wf (s_inp s) Hwf) as Hr.
    destruct (read_u16le (s_inp s)) as [[c1 r1]| | |]; cbn [safe] in *; auto.
    destruct Hr as (Hc1 & Hr1 & Hl1). unfold inv0. fin0. }
  destruct (op =? 9). { cbn [safe]. unfold inv0. fin0. }
  destruct (op =? 10). { cbn [safe]. unfold inv0. fin0. }
  cbn [safe]. unfold inv0. fin0.
Qed.

Lemma order_w0 code s : inv0 s -> safe (fun s' => inv0 s' /\ shorter s s') (order p 0 code s).
Proof.
  intros Hi. pose proof Hi as (Hx & Hp & Hins & Hwf & Ho). unfold order.
  pose proof (decode_header_ok code (s_inp s) Hwf) as Hd.
  destruct (decode_header code (s_inp s)) as [[[[op count] offset] r1]| | |]; cbn [safe] in *; auto.
  destruct Hd as (Hc & Hoo & Hoff & Hr1 & Hl1).
  pose proof (extend_count_ok p op count offset r1 Hc Hoo Hoff Hr1) as He.
  destruct (extend_count p op count offset r1) as [[c r2]| | |]; cbn [safe] in *; auto.
  destruct He as (Hc2 & Hr2 & Hl2).
  assert (Hi' : inv0 (set_inp s r2)) by (unfold inv0; fin0).
  pose proof (order_params_w0 op (set_inp s r2) Hi') as Hpar.
  destruct (order_params 0 op (set_inp s r2)) as [[[op' fom] s1]| | |]; cbn [safe] in *; auto.
  destruct Hpar as ((Hx1 & Hp1 & Hins1 & Hwf1 & Ho1) & Hs1). prj.
  set (s2 := set_cnt (set_mixmask (set_lastop s1 op') 0) c).
  destruct (N.eq_dec c 0) as [Hz|Hnz].
  - cbn [cnt_loop]. subst s2. prj. rewrite Hz. change (0 <? 0) with false. cbn [safe].
    unfold inv0. fin0.
  - destruct (cnt_loop_w0 op' fom (S (S (N.to_nat (s_hgt s1)))) s2) as (e & ->); subst s2; prj; auto; try lia.
    exact I.
Qed.

Lemma main_loop_w0 : forall fuel s, inv0 s -> (length (s_inp s) < fuel)%nat ->
  safe inv0 (main_loop p 0 fuel s).
Proof.
  induction fuel as [|k IH]; intros s Hi Hf; [lia|].
  cbn [main_loop]. destruct (s_inp s) as [|code r] eqn:Ei; [exact Hi|].
  pose proof Hi as (Hx & Hp & Hins & Hwf & Ho). rewrite Ei in Hwf. apply wf_cons_inv in Hwf. destruct Hwf as [_ Hr].
  assert (Hi' : inv0 (set_inp s r)) by (unfold inv0; fin0).
  eapply safe_bind; [apply (order_w0 code (set_inp s r) Hi')|].
  intros s1 (Hi1 & Hs1). unfold shorter in Hs1. prj. cbn [length] in Hf.
  apply IH; [exact Hi1|lia].
Qed.

Lemma rle16_w0 height input : wf_bytes input ->
  safe (fun o => o = out0) (rle16 p 0 height input out0).
Proof.
  intros Hwf. unfold rle16.
  eapply safe_bind; [apply main_loop_w0|].
  - unfold init_st, inv0. prj. auto.
  - unfold init_st. prj. lia.
  - intros s (_ & _ & _ & _ & Ho). exact Ho.
Qed.

End W0.

(* ---- rle_16_decompress on any output of at least width*height elements *)
Theorem rle16_total p w h input out :
  w < 65536 -> h < 65536 -> w * h <= blen out -> wf_bytes input ->
  safe (fun o => blen o = blen out) (rle16 p w h input out).
Proof.
  intros Hw Hh HL Hwf.
  destruct (N.eq_dec w 0) as [->|Hnz].
  - eapply safe_imp; [apply rle16_w0; assumption|]. intros o ->. reflexivity.
  - apply (rle16_pos p w h (blen out) Hw Hh HL); auto. lia.
Qed.
