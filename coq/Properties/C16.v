(* C16 -- NTLM session security seals per MS-NLMP, round-trips, and rejects tampering.
   Statements only; every proof is `exact <lemma>` into C16_proofs.v.
   Model: NtlmSeal.v (gss_wrapex / gss_unwrapex / build_security_interface of src/nla/ntlm.rs
   over Rc4.v); spec: RefNlmpSeal.v (MS-NLMP 3.4.3-3.4.5).  The hash functions are universally
   quantified: the theorems hold for ANY md5 / hmac whose digests are 16 bytes long (the
   concrete Md5.md5 / Hmac.hmac_md5 are such functions, see the C16_concrete theorems). *)
From RdpV Require Import Base Rc4 Md5 Hmac NtlmSeal RefNlmpSeal C16_proofs.

(* For ANY list of messages and ANY context, the tokens produced by successive gss_wrapex
   calls are byte-identical to MS-NLMP SEAL/MAC applied successively to the client-to-server
   direction state (cipher handle, signing key, sequence number), and the context left
   behind is the direction state the spec leaves behind. *)
Theorem C16_wrap_is_spec :
  forall hmac : bytes -> bytes -> bytes,
  (forall k x, length (hmac k x) = 16%nat) ->
  forall (ms : list bytes) (st : secif),
    wrap_all hmac st ms =
    Ok (fst (nlmp_wrap_all hmac (send_dir st) ms),
        with_send st (snd (nlmp_wrap_all hmac (send_dir st) ms))).
Proof. exact wrap_all_is_spec. Qed.
Print Assumptions C16_wrap_is_spec.

(* For EVERY exported session key: Ntlm::build_security_interface succeeds, its keys and
   handles are SIGNKEY/SEALKEY("client") of MS-NLMP, and any sequence of messages is sealed
   exactly as the spec seals it from a fresh session. *)
Theorem C16_session_wrap_is_spec :
  forall (md5 : bytes -> bytes) (hmac : bytes -> bytes -> bytes),
  (forall x, length (md5 x) = 16%nat) -> (forall k x, length (hmac k x) = 16%nat) ->
  forall (k : bytes) (ms : list bytes),
  exists (c : secif) (d : dirstate),
    build_security_interface md5 k = Ok c /\ session_dir md5 k Client = Some d /\
    exists c', wrap_all hmac c ms = Ok (fst (nlmp_wrap_all hmac d ms), c').
Proof. exact session_wrap_is_spec. Qed.
Print Assumptions C16_session_wrap_is_spec.

(* Round trip, both directions, ANY interleaving: whenever the peer's receive direction equals
   the client's send direction (handle, key, sequence number) and the peer's send direction has
   the client's decrypt handle and verify key, every message of every schedule is delivered
   exactly: what the client wraps a conforming receiver (own counter, 16-byte compare) unseals
   to the plaintext, what a conforming sender seals gss_unwrapex returns as Ok plaintext. *)
Theorem C16_roundtrip :
  forall hmac : bytes -> bytes -> bytes,
  (forall k x, length (hmac k x) = 16%nat) ->
  forall (sch : list step) (c : secif) (pr ps : dirstate),
    mirrored c pr ps -> delivered hmac c pr ps sch.
Proof. exact roundtrip. Qed.
Print Assumptions C16_roundtrip.

(* ... in particular for a fresh session under any exported session key. *)
Theorem C16_session_roundtrip :
  forall (md5 : bytes -> bytes) (hmac : bytes -> bytes -> bytes),
  (forall x, length (md5 x) = 16%nat) -> (forall k x, length (hmac k x) = 16%nat) ->
  forall (k : bytes) (sch : list step),
  exists (c : secif) (pr ps : dirstate),
    build_security_interface md5 k = Ok c /\
    session_dir md5 k Client = Some pr /\ session_dir md5 k Server = Some ps /\
    delivered hmac c pr ps sch.
Proof. exact session_roundtrip. Qed.
Print Assumptions C16_session_roundtrip.

(* EXACT acceptance condition of gss_unwrapex on Version(4) ++ Checksum(8) ++ SeqNum(4) ++
   ciphertext: Version is 01 00 00 00, the plaintext is the RC4 decryption of the ciphertext,
   and the checksum decrypted with the continuing keystream equals the first 8 bytes of
   HMAC(verify_key, SeqNum-as-received ++ plaintext).  NOTE what is NOT compared: the SeqNum
   field against any counter of the client (it has none for this direction). *)
Theorem C16_accept_iff :
  forall hmac : bytes -> bytes -> bytes,
  (forall k x, length (hmac k x) = 16%nat) ->
  forall (st : secif) (v cks sq ct pt : bytes),
    length v = 4%nat -> length cks = 8%nat -> length sq = 4%nat ->
    (fst (gss_unwrapex hmac st (v ++ cks ++ sq ++ ct)) = Ok pt <->
     v = [1; 0; 0; 0] /\
     pt = fst (rc4_process (s_dec st) ct) /\
     fst (rc4_process (snd (rc4_process (s_dec st) ct)) cks)
       = hmac8 hmac (s_verify st) (le32 (le32_val sq)) pt).
Proof. exact unwrap_accept_iff. Qed.
Print Assumptions C16_accept_iff.

(* Honest statement about sequence numbers: a conforming peer that numbers its messages from
   ANY n is accepted (replay and reordering are stopped by cipher-state drift, i.e. by the
   checksum, not by numbering). *)
Theorem C16_peer_numbering_free :
  forall hmac : bytes -> bytes -> bytes,
  (forall k x, length (hmac k x) = 16%nat) ->
  forall (c : secif) (n : N) (m : bytes),
    fst (gss_unwrapex hmac c (fst (nlmp_wrap hmac (recv_dir c n) m))) = Ok m.
Proof. exact peer_numbering_free. Qed.
Print Assumptions C16_peer_numbering_free.

(* Tampering, unconditional part 1: ANY change of the Version bytes -> Err InvalidConst,
   context untouched. *)
Theorem C16_tamper_version :
  forall (hmac : bytes -> bytes -> bytes) (st : secif) (v rest : bytes),
    length v = 4%nat -> v <> [1; 0; 0; 0] ->
    gss_unwrapex hmac st (v ++ rest) = (Err EInvalidConst, st).
Proof. exact tamper_version. Qed.
Print Assumptions C16_tamper_version.

(* Tampering, unconditional part 2: ANY change of the Checksum bytes of an accepted token ->
   Err InvalidChecksum. *)
Theorem C16_tamper_checksum :
  forall hmac : bytes -> bytes -> bytes,
  (forall k x, length (hmac k x) = 16%nat) ->
  forall (st : secif) (v cks cks' sq ct pt : bytes),
    length v = 4%nat -> length cks = 8%nat -> length cks' = 8%nat -> length sq = 4%nat ->
    fst (gss_unwrapex hmac st (v ++ cks ++ sq ++ ct)) = Ok pt ->
    cks' <> cks ->
    fst (gss_unwrapex hmac st (v ++ cks' ++ sq ++ ct)) = Err EInvalidChecksum.
Proof. exact tamper_checksum. Qed.
Print Assumptions C16_tamper_checksum.

(* Tampering, unconditional part 3: fewer than 16 bytes -> Err (Io or InvalidConst), never a
   panic, context untouched. *)
Theorem C16_truncated_rejected :
  forall (hmac : bytes -> bytes -> bytes) (st : secif) (data : bytes),
    (length data < 16)%nat ->
    snd (gss_unwrapex hmac st data) = st /\
    (fst (gss_unwrapex hmac st data) = Err EIo \/ fst (gss_unwrapex hmac st data) = Err EInvalidConst).
Proof. exact unwrap_short. Qed.
Print Assumptions C16_truncated_rejected.

(* Tampering, cryptographic part: for ANY alteration of SeqNum and/or ciphertext (length kept)
   of an accepted token, the signed string really changes, and the altered token is accepted
   IF AND ONLY IF the 8-byte HMAC prefixes of the old and the new signed string coincide. *)
Theorem C16_tamper_seq_ct_iff :
  forall hmac : bytes -> bytes -> bytes,
  (forall k x, length (hmac k x) = 16%nat) ->
  forall (st : secif) (v cks sq sq' ct ct' pt pt' : bytes),
    length v = 4%nat -> length cks = 8%nat -> length sq = 4%nat -> length sq' = 4%nat ->
    Forall (fun b => b < 256) sq -> Forall (fun b => b < 256) sq' ->
    length ct' = length ct ->
    fst (gss_unwrapex hmac st (v ++ cks ++ sq ++ ct)) = Ok pt ->
    (sq', ct') <> (sq, ct) ->
    let new := fst (rc4_process (s_dec st) ct') in
    sq' ++ new <> sq ++ pt /\
    (fst (gss_unwrapex hmac st (v ++ cks ++ sq' ++ ct')) = Ok pt' <->
     pt' = new /\ hmac8 hmac (s_verify st) sq' new = hmac8 hmac (s_verify st) sq pt).
Proof. exact tamper_seq_ct_iff. Qed.
Print Assumptions C16_tamper_seq_ct_iff.

(* ... hence rejected under the explicit hypothesis (last premise) that this 64-bit HMAC
   prefix does not collide: a hypothesis of the theorem, not an axiom. *)
Theorem C16_tamper_seq_ct_rejected :
  forall hmac : bytes -> bytes -> bytes,
  (forall k x, length (hmac k x) = 16%nat) ->
  forall (st : secif) (v cks sq sq' ct ct' pt : bytes),
    length v = 4%nat -> length cks = 8%nat -> length sq = 4%nat -> length sq' = 4%nat ->
    Forall (fun b => b < 256) sq -> Forall (fun b => b < 256) sq' ->
    length ct' = length ct ->
    fst (gss_unwrapex hmac st (v ++ cks ++ sq ++ ct)) = Ok pt ->
    (sq', ct') <> (sq, ct) ->
    hmac8 hmac (s_verify st) sq' (fst (rc4_process (s_dec st) ct')) <> hmac8 hmac (s_verify st) sq pt ->
    fst (gss_unwrapex hmac st (v ++ cks ++ sq' ++ ct')) = Err EInvalidChecksum.
Proof. exact tamper_seq_ct_rejected. Qed.
Print Assumptions C16_tamper_seq_ct_rejected.

(* gss_unwrapex never panics; a rejection is Err Io / InvalidConst / InvalidChecksum and the
   Err constructor carries no bytes (no plaintext on reject); Ok happens only for >= 16 bytes
   and returns exactly the decryption of bytes 16.. . *)
Theorem C16_no_plaintext_on_reject :
  forall hmac : bytes -> bytes -> bytes,
  (forall k x, length (hmac k x) = 16%nat) ->
  forall (st : secif) (data : bytes),
    match fst (gss_unwrapex hmac st data) with
    | Ok pt => (16 <= length data)%nat /\ pt = fst (rc4_process (s_dec st) (skipn 16 data))
    | Err e => e = EIo \/ e = EInvalidConst \/ e = EInvalidChecksum
    | Panic | Spin => False
    end.
Proof. exact unwrap_outcomes. Qed.
Print Assumptions C16_no_plaintext_on_reject.

(* The concrete Gallina MD5 / HMAC-MD5 satisfy the length hypotheses: the session theorems
   hold for the executable model that the correspondence run compares with /repo. *)
Theorem C16_concrete_session_wrap_is_spec :
  forall (k : bytes) (ms : list bytes),
  exists c d, build_c k = Ok c /\ session_dir md5 k Client = Some d /\
              exists c', wrap_all hmac_md5 c ms = Ok (fst (nlmp_wrap_all hmac_md5 d ms), c').
Proof. exact concrete_session_wrap_is_spec. Qed.
Print Assumptions C16_concrete_session_wrap_is_spec.

Theorem C16_concrete_session_roundtrip :
  forall (k : bytes) (sch : list step),
  exists c pr ps, build_c k = Ok c /\
                  session_dir md5 k Client = Some pr /\ session_dir md5 k Server = Some ps /\
                  delivered hmac_md5 c pr ps sch.
Proof. exact concrete_session_roundtrip. Qed.
Print Assumptions C16_concrete_session_roundtrip.

(* Non-vacuity with concrete keys (vm_compute): under the exported session key 00..0f the
   context exists; three messages (empty, 1 byte, 17 bytes) wrap to exactly the tokens an
   independent python MS-NLMP implementation produces; two server tokens from that
   implementation unwrap to "foo" and ""; a flipped bit in Version / Checksum / SeqNum /
   ciphertext, a truncation to 15 bytes and a one-byte extension are rejected. *)
Theorem C16_nonvacuous :
  build_c ex_key = Ok ex_ctx /\
  (exists c', wrap_all hmac_md5 ex_ctx ex_msgs = Ok (ex_tokens, c')) /\
  fst (unwrap_c ex_ctx ex_srv1) = Ok [102; 111; 111] /\
  fst (unwrap_c (snd (unwrap_c ex_ctx ex_srv1)) ex_srv2) = Ok [] /\
  fst (unwrap_c ex_ctx ([0; 0; 0; 0] ++ skipn 4 ex_srv1)) = Err EInvalidConst /\
  fst (unwrap_c ex_ctx (firstn 4 ex_srv1 ++ [220] ++ skipn 5 ex_srv1)) = Err EInvalidChecksum /\
  fst (unwrap_c ex_ctx (firstn 12 ex_srv1 ++ [1] ++ skipn 13 ex_srv1)) = Err EInvalidChecksum /\
  fst (unwrap_c ex_ctx (firstn 16 ex_srv1 ++ [54] ++ skipn 17 ex_srv1)) = Err EInvalidChecksum /\
  fst (unwrap_c ex_ctx (firstn 15 ex_srv1)) = Err EIo /\
  fst (unwrap_c ex_ctx (ex_srv1 ++ [0])) = Err EInvalidChecksum.
Proof. exact ex_nonvacuous. Qed.
Print Assumptions C16_nonvacuous.

(* Non-vacuity of the collision hypothesis: for the SeqNum flip of the example all premises of
   C16_tamper_seq_ct_rejected hold, including "no collision". *)
Theorem C16_no_collision_nonvacuous :
  let v := firstn 4 ex_srv1 in let cks := firstn 8 (skipn 4 ex_srv1) in
  let sq := firstn 4 (skipn 12 ex_srv1) in let ct := skipn 16 ex_srv1 in
  let sq' := [1; 0; 0; 0] in
  ex_srv1 = v ++ cks ++ sq ++ ct /\
  fst (unwrap_c ex_ctx (v ++ cks ++ sq ++ ct)) = Ok [102; 111; 111] /\
  (sq', ct) <> (sq, ct) /\
  Forall (fun b => b < 256) sq /\ Forall (fun b => b < 256) sq' /\
  hmac8 hmac_md5 (s_verify ex_ctx) sq' (fst (rc4_process (s_dec ex_ctx) ct))
  <> hmac8 hmac_md5 (s_verify ex_ctx) sq [102; 111; 111].
Proof. exact ex_no_collision. Qed.
Print Assumptions C16_no_collision_nonvacuous.
