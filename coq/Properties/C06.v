(* C06 -- Hostile server bytes during an active session never crash the client.
   The theorems quantify over EVERY byte string handed to the read path (well formed or
   not: the only hypothesis is that bytes are bytes, < 256), EVERY client state and
   session parameters, and BOTH build profiles (Debug traps on integer overflow, Release
   wraps).  Panic = any unwrap / index / slice / map lookup / overflow trap / capacity
   overflow of the Rust code, each of which is an explicit Panic branch of the model;
   Spin = a loop that stops consuming input. *)
From RdpV Require Import Base Msg MsgSafe MsgProv LayoutsGlobal Link Tpkt Global C06_proofs.
Open Scope list_scope.
Open Scope N_scope.

(* One read of one frame, any state, any bytes: a value or an error. *)
Theorem C06_read_total :
  forall p s frame, wf_bytes frame ->
    r_out (client_read p s frame) <> Panic /\ r_out (client_read p s frame) <> Spin.
Proof. exact client_read_nocrash. Qed.
Print Assumptions C06_read_total.

(* The deframer below it: whatever the transport delivers, in whatever pieces. *)
Theorem C06_deframe_total :
  forall cs, Forall wf_bytes cs ->
    match x224_read cs with
    | (Ok (Raw b), _) | (Ok (FastPath _ b), _) => wf_bytes b
    | (Err _, _) => True
    | (Panic, _) | (Spin, _) => False
    end.
Proof.
  intros cs H. pose proof (x224_read_ok cs H) as R. unfold read_result_ok, wf_payload in R.
  destruct (x224_read cs) as [[[b|f b]| | |] cs']; tauto.
Qed.
Print Assumptions C06_deframe_total.

(* Every history of hostile frames interleaved with input attempts: no step of it
   panics or spins (the session a failed read leaves behind is again covered). *)
Theorem C06_history_total :
  forall p ops s, Forall wf_op ops ->
    Forall (fun r => r_out r <> Panic /\ r_out r <> Spin) (run_ops p s ops).
Proof. exact run_ops_nocrash. Qed.
Print Assumptions C06_history_total.

(* The generic engine behind it: ANY layout that passes the boolean checker [safe] is read
   without panic / spin from any bytes, and no buffer it sizes from the wire exceeds the
   checker's [alloc_bound]. *)
Theorem C06_layout_engine :
  forall p m input, safe m = true -> wf_bytes input ->
    match read p m input with
    | ROk _ rest a => a <= alloc_bound m /\ nlen rest <= nlen input
    | RErr _ rest a => a <= alloc_bound m /\ nlen rest <= nlen input
    | RPanic | RSpin => False
    end.
Proof.
  intros p m input Hs Hwf. pose proof (read_safe p m Hs input Hwf) as H. unfold post in H.
  destruct (read p m input); try contradiction.
  - destruct H as [_ [_ [_ [_ [H5 [H6 _]]]]]]. split; auto. lia.
  - destruct H as [_ [H2 H3]]. split; auto.
Qed.
Print Assumptions C06_layout_engine.

(* Memory: every template the session read path ever parses with -- the share headers,
   the PDUs, the fast-path updates and the 12 capability sets -- sizes each buffer from a
   16-bit field: no single request exceeds 65535 bytes, whatever the bytes say. *)
Theorem C06_alloc_bounded :
  forall p t input, In t session_templates -> wf_bytes input ->
    match read p t input with
    | ROk _ _ a | RErr _ _ a => a <= 65535
    | RPanic | RSpin => False
    end.
Proof. exact session_alloc_bound. Qed.
Print Assumptions C06_alloc_bounded.

Theorem C06_templates_complete :
  forall t tm, capability_template t = Some tm -> In tm session_templates.
Proof. exact capability_template_in. Qed.
Print Assumptions C06_templates_complete.

(* Non-vacuity: the totalLength = 3 / uncompressedLength = 4 frames that used to panic
   (defect fixed in 85dc437) are now answered with an error value (the empty body does not parse), in state Data. *)
Theorem C06_nonvacuous :
  let s := mkSession SData 1004 1003 800 600 1033 (Some 66538) [] in
  let hostile := [3;0;0;21; 2;240;128; 104;0;1;3;235;112;7; 3;0;23;0;234;3;0] in
  wf_bytes hostile /\ r_out (client_read Debug s hostile) = Err EIo /\ r_out (client_read Release s hostile) = Err EIo.
Proof.
  cbv zeta. split; [repeat constructor|]. split; vm_compute; reflexivity.
Qed.
Print Assumptions C06_nonvacuous.
