(* C08 -- Bitmap decompression is total and returns exactly width*height*4 bytes.
   Statements only; every proof is `exact <lemma>` into C08_proofs.v.
   [decompress p w h bpp flag data] is the model of BitmapEvent::decompress (coq/Bitmap.v,
   Rle16.v, Rle32.v, Buf.v): it returns the allocation log (bytes requested by each
   `vec![0; n]`) and Ok bytes | Err kind | Panic | Spin.  The hypotheses are the Rust
   types: width and height are u16, data is a vector of bytes; nothing else is assumed. *)
From RdpV Require Import Base Buf Rle16 Rle32 Bitmap CodecLemmas C08_proofs.

(* For EVERY build profile, width, height, colour depth, compression flag and data,
   decompression neither panics (no index out of range, no arithmetic overflow in debug
   builds, no unwrap of None, no capacity overflow) nor loops forever: it returns Ok or Err. *)
Theorem C08_total :
  forall (p : prof) (w h bpp : N) (flag : bool) (data : bytes),
    w < 65536 -> h < 65536 -> wf_bytes data ->
    crashes (snd (decompress p w h bpp flag data)) = false.
Proof. exact bmp_total. Qed.
Print Assumptions C08_total.

(* Whenever it returns a buffer, the buffer has exactly width * height * 4 bytes. *)
Theorem C08_size :
  forall (p : prof) (w h bpp : N) (flag : bool) (data out : bytes),
    w < 65536 -> h < 65536 -> wf_bytes data ->
    snd (decompress p w h bpp flag data) = Ok out -> nlen out = 4 * w * h.
Proof. exact bmp_size. Qed.
Print Assumptions C08_size.

(* It allocates at most two buffers (the intermediate 16 bpp pixels and the result), each
   no larger than the output size: never more than twice the output size in total,
   whatever the outcome. *)
Theorem C08_alloc :
  forall (p : prof) (w h bpp : N) (flag : bool) (data : bytes),
    w < 65536 -> h < 65536 -> wf_bytes data ->
    Forall (fun a => a <= 4 * w * h) (fst (decompress p w h bpp flag data)) /\
    (length (fst (decompress p w h bpp flag data)) <= 2)%nat /\
    sum_allocs (fst (decompress p w h bpp flag data)) <= 2 * (4 * w * h).
Proof. exact bmp_alloc. Qed.
Print Assumptions C08_alloc.

(* The interleaved-RLE decoder itself (rle_16_decompress), given ANY output slice of at
   least width*height pixels, never indexes outside it, never unwraps a missing line,
   never reaches an unknown order code as a panic, and terminates. *)
Theorem C08_rle16_total :
  forall (p : prof) (w h : N) (input : bytes) (out : buf),
    w < 65536 -> h < 65536 -> w * h <= blen out -> wf_bytes input ->
    crashes (rle16 p w h input out) = false.
Proof. exact rle16_never_crashes. Qed.
Print Assumptions C08_rle16_total.

(* The planar-RLE decoder itself (rle_32_decompress), given ANY output slice of at least
   width*height*4 bytes, never indexes outside a plane and terminates. *)
Theorem C08_rle32_total :
  forall (p : prof) (w h : N) (input : bytes) (out : buf),
    w < 65536 -> h < 65536 -> 4 * (w * h) <= blen out -> wf_bytes input ->
    crashes (rle32 p w h input out) = false.
Proof. exact rle32_never_crashes. Qed.
Print Assumptions C08_rle32_total.

(* Non-vacuity: concrete events on each path.  A 2x2 interleaved-RLE stream mixing a colour
   run, a foreground run and a dithered run, a 2x2 planar stream, uncompressed 32 and 16 bpp
   return Ok with the stated size (and the exact bytes); the formerly panicking inputs of
   defects #14-#18 now return errors; the empty bitmap is Ok []. *)
Theorem C08_nonvacuous :
  decompress Debug 2 2 16 true ex16 = ([16; 16], Ok [140;32;16;255; 16;69;33;255; 165;69;16;255; 255;255;255;255]) /\
  decompress Release 2 2 32 true ex32 = ([16], Ok [9;4;4;253; 9;5;3;6; 9;5;3;1; 9;6;4;2]) /\
  decompress Debug 1 2 32 false [1;2;3;4;5;6;7;8] = ([8], Ok [5;6;7;8;1;2;3;4]) /\
  decompress Debug 1 2 16 false [0x1f;0x00;0x00;0xf8] = ([4; 8], Ok [0;0;255;255; 255;0;0;255]) /\
  decompress Debug 2 2 16 true [0xF5; 1; 0] = ([16], Err EInvalidData) /\
  decompress Debug 1 1 32 true [0x10; 0x03] = ([4], Err EInvalidData) /\
  decompress Debug 2 2 32 false [1;2;3] = ([], Err EInvalidSize) /\
  decompress Debug 256 256 16 false [1;2;3] = ([], Err EInvalidSize) /\
  decompress Debug 0 0 32 true [0x10] = ([0], Ok []) /\
  decompress Debug 7 7 24 true [] = ([], Err ENotImplemented).
Proof. exact nonvacuous_all. Qed.
Print Assumptions C08_nonvacuous.
