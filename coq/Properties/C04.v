(* C04 -- Every PDU the client emits is well formed under a strict independent parser.
   Emitters: ClientPdus.v (what the Rust code writes, as a function of the configuration and of the
   identifiers the server assigns).  Spec: StrictPdu.v (strict parsers written from X.224, T.125,
   T.124 and MS-RDPBCGR).  What must be decoded: the [expected_*] definitions at the head of
   C04_proofs.v.  [valid_cfg] = the Rust types (String = Unicode scalar values incl. non-BMP, u16,
   u32), a user id as the PER reader returns it, and the size one PER length determinant can
   describe (16383 bytes of user data: client info and confirm-active). *)
From RdpV Require Import Base Msg LayoutsGlobal LayoutsConnect Link Tpkt Global ClientPdus StrictPdu C04_proofs.
Open Scope list_scope.
Open Scope N_scope.

(* MAIN THEOREM (RDP layers).  For every profile, every configuration (client name, domain, user,
   password ranging over ALL lists of Unicode scalar values, any screen size, keyboard layout,
   offered protocols, flags), every server-assigned identifier set (selected protocol, reported
   version, user id, share id), every sequence of pointer / keyboard events, and for both settings of
   the Version::from switch: each PDU of the transcript -- connection request, connect-initial,
   erect-domain, attach-user, two channel joins, client info, confirm-active, synchronize,
   cooperate, request-control, font-list, one input PDU per event, disconnect ultimatum -- is
   written (no write fails), is accepted by the strict parser of its layer stack (TPKT, X.224,
   MCS/PER or BER, GCC, share headers, capability sets ...), and decodes to exactly the values
   the configuration and the server determine.
   _partial: the property also names the NTLM and CredSSP tokens; those layers (C15 / C07's
   models) are not covered by this theorem. *)
Theorem C04_all_parse_partial :
  forall p swapped c i evs,
    valid_cfg swapped c i -> Forall sendable evs ->
    Forall2 (fun o d => exists f, o = Ok f /\ strict_parse f = Some d)
            (emitted p swapped c i evs) (expected swapped c i evs).
Proof. exact all_parse. Qed.
Print Assumptions C04_all_parse_partial.

(* The run of all those writes reaches its end, and the frames on the wire parse, in order, to the
   expected PDUs. *)
Theorem C04_transcript_completes :
  forall p swapped c i evs,
    valid_cfg swapped c i -> Forall sendable evs ->
    exists fs, run_writes (emitted p swapped c i evs) [] = (Ok tt, fs) /\
               Forall2 (fun f d => strict_parse f = Some d) fs (expected swapped c i evs).
Proof. exact transcript_completes. Qed.
Print Assumptions C04_transcript_completes.

(* Every frame of that transcript is a byte string (each element below 256): the strict parsers, which
   compute on numbers, were handed genuine octets. *)
Theorem C04_frames_are_bytes :
  forall p swapped c i evs,
    valid_cfg swapped c i -> Forall sendable evs ->
    Forall (fun o => exists f, o = Ok f /\ wf_bytes f) (emitted p swapped c i evs).
Proof. exact all_wf. Qed.
Print Assumptions C04_frames_are_bytes.

(* ---- per PDU ---- *)
(* X.224 connection request with RDP_NEG_REQ: length indicator, fixed fields, flags and the offered
   protocols decode to the configuration's, for every 32-bit protocol mask. *)
Theorem C04_connection_request :
  forall p c, c_offered c < 4294967296 ->
    exists f, emit_cr p c = Ok f /\
              strict_parse f = Some (PConnectionRequest (if c_ram c then 1 else 0) (c_offered c)).
Proof. exact emit_cr_parses. Qed.
Print Assumptions C04_connection_request.

(* MCS connect-initial: BER envelope and domain parameters, GCC conference-create-request with both
   PER lengths exact, CS_CORE / CS_SECURITY / CS_NET blocks with exact lengths; the core data
   decodes to the configured width, height, layout, the selected protocol and the client name cut to
   15 UTF-16 code units without splitting a surrogate pair. *)
Theorem C04_connect_initial :
  forall p swapped c i, valid_cfg swapped c i ->
    exists f, emit_connect_initial p c (i_selected i) = Ok f /\
              strict_parse f = Some (expected_connect_initial c (i_selected i)).
Proof. exact emit_connect_initial_parses. Qed.
Print Assumptions C04_connect_initial.

(* The fixed 32-byte clientName field, for EVERY name: exactly 32 bytes, null terminated, valid
   UTF-16, decoding to the longest prefix of the name that fits 15 code units (up to the first
   embedded null). *)
Theorem C04_client_name_field :
  forall name, Forall scalar name ->
    List.length (client_name_field name) = 32%nat /\ fixed_string (client_name_field name) = Some (wire_name name).
Proof. exact client_name_field_wellformed. Qed.
Print Assumptions C04_client_name_field.

(* ... which is the name itself when it fits and contains no null character. *)
Theorem C04_short_name_verbatim :
  forall name, (List.length (utf16 name) <= 15)%nat -> Forall (fun c => c <> 0) name -> wire_name name = name.
Proof. exact wire_name_short. Qed.
Print Assumptions C04_short_name_verbatim.

(* Channel join requests carry the assigned user id and the channel, for every id. *)
Theorem C04_channel_join :
  forall uid ch, 1001 <= uid <= 65535 -> ch < 65536 ->
    exists f, emit_channel_join uid ch = Ok f /\ strict_parse f = Some (PChannelJoin uid ch).
Proof. exact emit_channel_join_parses. Qed.
Print Assumptions C04_channel_join.

(* Erect-domain, attach-user and the disconnect provider ultimatum (reason rn-user-requested,
   nothing after the two bytes). *)
Theorem C04_fixed_domain_pdus :
  (exists f, emit_erect_domain = Ok f /\ strict_parse f = Some (PErectDomain 0 0)) /\
  (exists f, emit_attach_user = Ok f /\ strict_parse f = Some PAttachUser) /\
  (exists f, emit_disconnect = Ok f /\ strict_parse f = Some (PDisconnect 3)).
Proof. exact (conj emit_erect_domain_parses (conj emit_attach_user_parses emit_disconnect_parses)). Qed.
Print Assumptions C04_fixed_domain_pdus.

(* Client info: cbDomain / cbUserName / cbPassword equal the byte sizes of the UTF-16 strings, each
   string is followed by its terminator, the strings decode to the configured domain, user and
   password (any Unicode, surrogate pairs included); the extended info, when sent, has
   cbClientAddress / cbClientDir counting their terminators. *)
Theorem C04_client_info :
  forall p swapped c i, valid_cfg swapped c i ->
    exists f, emit_client_info p swapped c i = Ok f /\ strict_parse f = Some (expected_info swapped c i).
Proof. exact emit_client_info_parses. Qed.
Print Assumptions C04_client_info.

(* Confirm active: totalLength, lengthSourceDescriptor, lengthCombinedCapabilities,
   numberCapabilities and every lengthCapability are exact; the twelve capability sets have their
   specified sizes; share id, user id, screen size and keyboard layout decode to the given values. *)
Theorem C04_confirm_active :
  forall p swapped c i, valid_cfg swapped c i ->
    exists f, emit_confirm_active p c i = Ok f /\ strict_parse f = Some (expected_confirm c i).
Proof. exact emit_confirm_active_parses. Qed.
Print Assumptions C04_confirm_active.

(* Synchronize, cooperate, request-control, font list. *)
Theorem C04_finalization :
  forall p c i, 1001 <= i_uid i <= 65535 -> i_io i < 65536 -> i_share i < 4294967296 ->
    Forall2 (fun o d => exists f, o = Ok f /\ strict_parse f = Some d) (emit_finalize p c i) (expected_finalize i).
Proof. exact emit_finalize_parses. Qed.
Print Assumptions C04_finalization.

(* One input PDU per event, carrying exactly the submitted values. *)
Theorem C04_input :
  forall p c i, 1001 <= i_uid i <= 65535 -> i_io i < 65536 -> i_share i < 4294967296 -> forall e, sendable e ->
    exists f, emit_input p c i e = Ok f /\ strict_parse f = Some (expected_input i e).
Proof. exact emit_input_parses. Qed.
Print Assumptions C04_input.

(* The UTF-16 encoder of the model (surrogate pairs for non-BMP) is inverted by the strict decoder
   on every string of Unicode scalar values. *)
Theorem C04_utf16_roundtrip :
  forall s, Forall scalar s -> utf16_decode (utf16 s) = Some s.
Proof. exact utf16_decode_utf16. Qed.
Print Assumptions C04_utf16_roundtrip.

(* Non-vacuity: a concrete configuration with a 17-unit client name containing a non-BMP character,
   Latin-1 / CJK / non-BMP credentials (incl. U+10FFFF), auto-logon, a pointer and a keyboard event
   satisfies the hypotheses; evaluating emitters and strict parsers gives the expected PDUs, and
   the name on the wire is the 14-character prefix (15 code units). *)
Theorem C04_nonvacuous :
  (valid_cfg true demo_cfg demo_ids /\ Forall sendable demo_events) /\
  map (fun o => match o with Ok f => strict_parse f | _ => None end) (emitted Debug true demo_cfg demo_ids demo_events)
  = map Some (expected true demo_cfg demo_ids demo_events) /\
  wire_name (c_name demo_cfg) = [82; 233; 128512; 20013; 45; 99; 108; 105; 101; 110; 116; 45; 110; 97].
Proof. exact (conj demo_valid demo_run). Qed.
Print Assumptions C04_nonvacuous.

(* The size hypothesis of valid_cfg is tight: for 16384..32767 bytes of user data (8200 characters of
   password, say -- far outside the property's 1..64 code points) the client's PER length writer
   produces the 15-bit form that RDP implementations use in place of X.691 fragmentation, and the
   strict X.691 reading refuses it. *)
Theorem C04_beyond_one_per_fragment :
  forall n r, 16384 <= n < 32768 -> per_length (per_write_length n ++ r) = None.
Proof. exact per_length_beyond. Qed.
Print Assumptions C04_beyond_one_per_fragment.
