(* C04 -- Every PDU the client emits is well formed under a strict independent parser.
   Emitters: ClientPdus.v (what the Rust code writes, as a function of the configuration and of the
   identifiers the server assigns).  Spec: StrictPdu.v (strict parsers written from X.224, T.125,
   T.124 and MS-RDPBCGR).  What must be decoded: the [expected_*] definitions at the head of
   C04_proofs.v.  [valid_cfg] = the Rust types (String = Unicode scalar values incl. non-BMP, u16,
   u32), a user id as the PER reader returns it, and the size one PER length determinant can
   describe (16383 bytes of user data: client info and confirm-active).
   Network level authentication: emitters Ntlm.v (NEGOTIATE / AUTHENTICATE) and CsspGate.v + CsspGateExec.v
   (cssp_connect and its four DER writers); spec StrictNla.v (strict parsers written from MS-NLMP 2.2.1.1,
   2.2.1.3, 2.2.2.1, 2.2.2.7 and MS-CSSP 2.2.1, 2.2.1.2); proofs C04_nla_proofs.v, concrete instances
   C04_nla_examples.v.  The hash functions (md4, md5, hmac with 16-byte digests), String::to_uppercase, the
   yasna readers of the server's replies, the server's replies themselves, the certificate's public key and
   the client's randomness are universally quantified. *)
From RdpV Require Import Base Msg LayoutsGlobal LayoutsConnect Link Tpkt Global ClientPdus StrictPdu C04_proofs.
From RdpV Require Import Rc4 Md5 Md4 Hmac Utf LayoutsNtlmAuth Ntlm NtlmSeal RefNlmp C15_proofs DerRead CsspGate CsspGateExec C01_proofs.
From RdpV Require Import StrictNla C04_nla_proofs C04_nla_examples.
Open Scope list_scope.
Open Scope N_scope.

(* MAIN THEOREM (whole connection, tokens included).  A connection with network level authentication: the
   client writes the X.224 connection request, then -- inside TLS -- the CredSSP messages [ws] of
   cssp_connect (TSRequest with the NTLM NEGOTIATE; TSRequest with the NTLM AUTHENTICATE and the sealed public
   key; TSRequest with the sealed TSCredentials; fewer when the exchange fails), then the MCS / RDP
   transcript.  For every profile, every configuration (all of Unicode, valid_cfg as below), every
   server-assigned identifier set and input events, every md5 / hmac (16-byte digests), every decoder of
   the server's replies, every reply stream, certificate key, client nonce and session key, password mode
   or NT-hash mode (credentials_of), restricted admin or not, and every CHALLENGE_MESSAGE [c] the server
   may answer with whose echoed parts are well formed (TargetInfo = AV pairs with ids 1..10 closed by a
   zero-length MsvAvEOL and nothing after it; the MsvAvTimestamp the client picks has 8 bytes) -- any flags
   (UNICODE / VERSION / KEY_EXCH / TARGET_INFO on or off), any server challenge, target name, version bytes
   and payload placement:
   EVERY message of the whole transcript is accepted by the strict parser of its layer stack
   (strict_parse_client: TPKT frames by StrictPdu.strict_parse, CredSSP messages by StrictNla.strict_parse_nla
   down to the NTLM tokens inside) and decodes to exactly what the configuration determines:
   [nla_decoded] spells it out for the CredSSP messages (negotiate flags 0x60088235 and empty names; the
   AUTHENTICATE with the negotiated flags, Version present iff the flag, 24-byte LMv2 response, NTLMv2
   response = proof ++ (1, 1, zeros, the server's timestamp, the client nonce, the server's AV pairs), domain
   and user = the configured strings (UTF-16LE decoded when UNICODE, else the bytes sent as OEM), empty
   workstation, 16-byte encrypted session key; the third message's authInfo = SEAL of a TSCredentials that
   strict-parses to credType 1 and the three configured strings, or three empty strings under restricted
   admin); a successful run wrote all three.
   Outside the quantifier (known finding C04-echo, see C04_echoed_challenge_refuted): a CHALLENGE whose
   TargetInfo carries bytes after MsvAvEOL or whose MsvAvTimestamp is not 8 bytes is accepted by the client
   and echoed into the NTLMv2 response unvalidated. *)
Theorem C04_all_parse :
  forall (md5 : bytes -> bytes) (hmac : bytes -> bytes -> bytes),
  (forall k x, List.length (hmac k x) = 16%nat) ->
  forall p (rd_chal rd_val : bytes -> outcome bytes)
         swapped cfg i evs st restricted cert replies nonce key c pairs ts res ws,
    valid_cfg swapped cfg i -> Forall sendable evs ->
    credentials_of cfg st ->
    cssp_connect md5 hmac p x_create_ts_request x_create_ts_authenticate x_create_ts_credentials x_create_ts_authinfo
                 rd_chal rd_val st restricted cert replies nonce key = (res, ws) ->
    (forall chal, rd_chal (fst (link_read0 replies)) = Ok chal -> chal = challenge_bytes c) ->
    wf_challenge c -> c_target_info c = av_bytes pairs [] -> Forall av_ok pairs ->
    av_find 7 (rev pairs) = Some ts -> List.length ts = 8%nat ->
    List.length nonce = 8%nat -> List.length key = 16%nat ->
    (forall pk, cert = Ok pk -> nlen pk < BIG) ->
    exists ds,
      nla_decoded hmac st restricted c nonce key ts pairs ds /\
      (res = Ok tt -> List.length ws = 3%nat) /\
      Forall2 (fun o d => exists f, o = Ok f /\ strict_parse_client f = Some d)
              (whole_transcript p swapped cfg i evs ws) (whole_expected swapped cfg i evs ds).
Proof. exact all_parse_whole. Qed.
Print Assumptions C04_all_parse.

(* The RDP layers on their own (= the whole transcript of a connection negotiated WITHOUT network level
   authentication, where no token is written).  For every profile, every configuration (client name, domain, user,
   password ranging over ALL lists of Unicode scalar values, any screen size, keyboard layout,
   offered protocols, flags), every server-assigned identifier set (selected protocol, reported
   version, user id, share id), every sequence of pointer / keyboard events, and for both settings of
   the Version::from switch: each PDU of the transcript -- connection request, connect-initial,
   erect-domain, attach-user, two channel joins, client info, confirm-active, synchronize,
   cooperate, request-control, font-list, one input PDU per event, disconnect ultimatum -- is
   written (no write fails), is accepted by the strict parser of its layer stack (TPKT, X.224,
   MCS/PER or BER, GCC, share headers, capability sets ...), and decodes to exactly the values
   the configuration and the server determine. *)
Theorem C04_rdp_layers_parse :
  forall p swapped c i evs,
    valid_cfg swapped c i -> Forall sendable evs ->
    Forall2 (fun o d => exists f, o = Ok f /\ strict_parse f = Some d)
            (emitted p swapped c i evs) (expected swapped c i evs).
Proof. exact all_parse. Qed.
Print Assumptions C04_rdp_layers_parse.

(* The run of all those writes reaches its end, and the frames on the wire parse, in order, to the
   expected PDUs. *)
Theorem C04_transcript_completes :
  forall p swapped c i evs,
    valid_cfg swapped c i -> Forall sendable evs ->
    exists fs, run_writes (emitted p swapped c i evs) [] = (Ok tt, fs) /\
               Forall2 (fun f d => strict_parse f = Some d) fs (expected swapped c i evs).
Proof. exact transcript_completes. Qed.
Print Assumptions C04_transcript_completes.

(* Every frame of that transcript is a byte string (each element below 256): the strict parsers, which
   compute on numbers, were handed genuine octets. *)
Theorem C04_frames_are_bytes :
  forall p swapped c i evs,
    valid_cfg swapped c i -> Forall sendable evs ->
    Forall (fun o => exists f, o = Ok f /\ wf_bytes f) (emitted p swapped c i evs).
Proof. exact all_wf. Qed.
Print Assumptions C04_frames_are_bytes.

(* ---- per PDU ---- *)
(* X.224 connection request with RDP_NEG_REQ: length indicator, fixed fields, flags and the offered
   protocols decode to the configuration's, for every 32-bit protocol mask. *)
Theorem C04_connection_request :
  forall p c, c_offered c < 4294967296 ->
    exists f, emit_cr p c = Ok f /\
              strict_parse f = Some (PConnectionRequest (if c_ram c then 1 else 0) (c_offered c)).
Proof. exact emit_cr_parses. Qed.
Print Assumptions C04_connection_request.

(* MCS connect-initial: BER envelope and domain parameters, GCC conference-create-request with both
   PER lengths exact, CS_CORE / CS_SECURITY / CS_NET blocks with exact lengths; the core data
   decodes to the configured width, height, layout, the selected protocol and the client name cut to
   15 UTF-16 code units without splitting a surrogate pair. *)
Theorem C04_connect_initial :
  forall p swapped c i, valid_cfg swapped c i ->
    exists f, emit_connect_initial p c (i_selected i) = Ok f /\
              strict_parse f = Some (expected_connect_initial c (i_selected i)).
Proof. exact emit_connect_initial_parses. Qed.
Print Assumptions C04_connect_initial.

(* The fixed 32-byte clientName field, for EVERY name: exactly 32 bytes, null terminated, valid
   UTF-16, decoding to the longest prefix of the name that fits 15 code units (up to the first
   embedded null). *)
Theorem C04_client_name_field :
  forall name, Forall scalar name ->
    List.length (client_name_field name) = 32%nat /\ fixed_string (client_name_field name) = Some (wire_name name).
Proof. exact client_name_field_wellformed. Qed.
Print Assumptions C04_client_name_field.

(* ... which is the name itself when it fits and contains no null character. *)
Theorem C04_short_name_verbatim :
  forall name, (List.length (utf16 name) <= 15)%nat -> Forall (fun c => c <> 0) name -> wire_name name = name.
Proof. exact wire_name_short. Qed.
Print Assumptions C04_short_name_verbatim.

(* Channel join requests carry the assigned user id and the channel, for every id. *)
Theorem C04_channel_join :
  forall uid ch, 1001 <= uid <= 65535 -> ch < 65536 ->
    exists f, emit_channel_join uid ch = Ok f /\ strict_parse f = Some (PChannelJoin uid ch).
Proof. exact emit_channel_join_parses. Qed.
Print Assumptions C04_channel_join.

(* Erect-domain, attach-user and the disconnect provider ultimatum (reason rn-user-requested,
   nothing after the two bytes). *)
Theorem C04_fixed_domain_pdus :
  (exists f, emit_erect_domain = Ok f /\ strict_parse f = Some (PErectDomain 0 0)) /\
  (exists f, emit_attach_user = Ok f /\ strict_parse f = Some PAttachUser) /\
  (exists f, emit_disconnect = Ok f /\ strict_parse f = Some (PDisconnect 3)).
Proof. exact (conj emit_erect_domain_parses (conj emit_attach_user_parses emit_disconnect_parses)). Qed.
Print Assumptions C04_fixed_domain_pdus.

(* Client info: cbDomain / cbUserName / cbPassword equal the byte sizes of the UTF-16 strings, each
   string is followed by its terminator, the strings decode to the configured domain, user and
   password (any Unicode, surrogate pairs included); the extended info, when sent, has
   cbClientAddress / cbClientDir counting their terminators. *)
Theorem C04_client_info :
  forall p swapped c i, valid_cfg swapped c i ->
    exists f, emit_client_info p swapped c i = Ok f /\ strict_parse f = Some (expected_info swapped c i).
Proof. exact emit_client_info_parses. Qed.
Print Assumptions C04_client_info.

(* Confirm active: totalLength, lengthSourceDescriptor, lengthCombinedCapabilities,
   numberCapabilities and every lengthCapability are exact; the twelve capability sets have their
   specified sizes; share id, user id, screen size and keyboard layout decode to the given values. *)
Theorem C04_confirm_active :
  forall p swapped c i, valid_cfg swapped c i ->
    exists f, emit_confirm_active p c i = Ok f /\ strict_parse f = Some (expected_confirm c i).
Proof. exact emit_confirm_active_parses. Qed.
Print Assumptions C04_confirm_active.

(* Synchronize, cooperate, request-control, font list. *)
Theorem C04_finalization :
  forall p c i, 1001 <= i_uid i <= 65535 -> i_io i < 65536 -> i_share i < 4294967296 ->
    Forall2 (fun o d => exists f, o = Ok f /\ strict_parse f = Some d) (emit_finalize p c i) (expected_finalize i).
Proof. exact emit_finalize_parses. Qed.
Print Assumptions C04_finalization.

(* One input PDU per event, carrying exactly the submitted values. *)
Theorem C04_input :
  forall p c i, 1001 <= i_uid i <= 65535 -> i_io i < 65536 -> i_share i < 4294967296 -> forall e, sendable e ->
    exists f, emit_input p c i e = Ok f /\ strict_parse f = Some (expected_input i e).
Proof. exact emit_input_parses. Qed.
Print Assumptions C04_input.

(* The UTF-16 encoder of the model (surrogate pairs for non-BMP) is inverted by the strict decoder
   on every string of Unicode scalar values. *)
Theorem C04_utf16_roundtrip :
  forall s, Forall scalar s -> utf16_decode (utf16 s) = Some s.
Proof. exact utf16_decode_utf16. Qed.
Print Assumptions C04_utf16_roundtrip.

(* Non-vacuity: a concrete configuration with a 17-unit client name containing a non-BMP character,
   Latin-1 / CJK / non-BMP credentials (incl. U+10FFFF), auto-logon, a pointer and a keyboard event
   satisfies the hypotheses; evaluating emitters and strict parsers gives the expected PDUs, and
   the name on the wire is the 14-character prefix (15 code units). *)
Theorem C04_nonvacuous :
  (valid_cfg true demo_cfg demo_ids /\ Forall sendable demo_events) /\
  map (fun o => match o with Ok f => strict_parse f | _ => None end) (emitted Debug true demo_cfg demo_ids demo_events)
  = map Some (expected true demo_cfg demo_ids demo_events) /\
  wire_name (c_name demo_cfg) = [82; 233; 128512; 20013; 45; 99; 108; 105; 101; 110; 116; 45; 110; 97].
Proof. exact (conj demo_valid demo_run). Qed.
Print Assumptions C04_nonvacuous.

(* The size hypothesis of valid_cfg is tight: for 16384..32767 bytes of user data (8200 characters of
   password, say -- far outside the property's 1..64 code points) the client's PER length writer
   produces the 15-bit form that RDP implementations use in place of X.691 fragmentation, and the
   strict X.691 reading refuses it. *)
Theorem C04_beyond_one_per_fragment :
  forall n r, 16384 <= n < 32768 -> per_length (per_write_length n ++ r) = None.
Proof. exact per_length_beyond. Qed.
Print Assumptions C04_beyond_one_per_fragment.

(* ---- network level authentication, per message ---- *)
(* NTLM NEGOTIATE_MESSAGE: signature, type 1, flags 0x60088235, both name descriptors zero with the
   corresponding "supplied" flags clear, no payload: accepted, decoded to exactly that. *)
Theorem C04_ntlm_negotiate :
  forall p, exists tok, create_negotiate_message p = Ok tok /\ sp_negotiate tok = Some expected_negotiate /\
                        strict_parse_nla (x_create_ts_request tok) = Some (NlaNegotiate 2 expected_negotiate).
Proof.
  exact (fun p => ex_intro _ negotiate_bytes (conj (negotiate_written p) (conj negotiate_parses nla_negotiate_message))).
Qed.
Print Assumptions C04_ntlm_negotiate.

(* NTLM AUTHENTICATE_MESSAGE: for every client state (any domain / user of Unicode scalar values, any
   response keys), every well-formed CHALLENGE as above and every randomness, whatever token
   read_challenge_message returns is accepted by the strict parser: Len = MaxLen in all six descriptors, the
   six fields tile the payload that starts right after the MIC (offset 80, or 88 with Version), Version
   present iff NEGOTIATE_VERSION, 16-byte MIC, 24-byte LM response, NTLMv2 response = 16-byte proof ++
   NTLMv2_CLIENT_CHALLENGE (RespType 1, HiRespType 1, reserved zeros, the 8-byte timestamp, the 8-byte client
   nonce, the AV pairs closed by MsvAvEOL), names in the negotiated character set (UTF-16LE without unpaired
   surrogates under UNICODE), 16-byte EncryptedRandomSessionKey; and the decoded fields are
   expected_authenticate: flags as negotiated, domain and user = the configured strings. *)
Theorem C04_ntlm_authenticate :
  forall (hmac : bytes -> bytes -> bytes), (forall k x, List.length (hmac k x) = 16%nat) ->
  forall p st negotiate c nonce key pairs ts token,
  wf_challenge c -> c_target_info c = av_bytes pairs [] -> Forall av_ok pairs ->
  av_find 7 (rev pairs) = Some ts -> List.length ts = 8%nat ->
  List.length nonce = 8%nat -> List.length key = 16%nat ->
  Forall scalar (Ntlm.n_domain st) -> Forall scalar (Ntlm.n_user st) ->
  read_challenge_message hmac p st negotiate (challenge_bytes c) nonce key = Ok token ->
  exists ek,
    rc4k (hmac (n_key_nt st) (hmac (n_key_nt st) (c_server_challenge c ++ temp_of ts nonce (c_target_info c)))) key = Ok ek /\
    List.length ek = 16%nat /\
    token = token_of hmac (pieces_of hmac st c nonce ts ek) (c_flags c) negotiate (challenge_bytes c) key /\
    nlen token < 1048576 /\
    sp_authenticate token = Some (expected_authenticate hmac st c negotiate nonce key ts ek pairs).
Proof. exact authenticate_parses. Qed.
Print Assumptions C04_ntlm_authenticate.

(* The same at the level of bytes: ANY six fields of the sizes the client's guard admits, laid out by
   authenticate_message_l behind any 16-byte MIC, parse to exactly those fields (the layout arithmetic of the
   header is right for every length, with and without Version). *)
Theorem C04_authenticate_layout :
  forall lm nt dom user ek M flags ntr d u,
  nlen lm = 24 -> nlen nt <= 65535 -> nlen dom <= 65535 -> nlen user <= 65535 -> nlen ek = 16 ->
  flags < 4294967296 -> List.length M = 16%nat ->
  exactly sp_ntlmv2_response nt = Some ntr ->
  decode_name (N.testbit flags 0) dom = Some d -> decode_name (N.testbit flags 0) user = Some u ->
  sp_authenticate (auth_header lm nt dom user [] ek flags ++ M ++ token_payload lm nt dom user ek)
  = Some (auth_expected flags M lm ntr d u ek).
Proof. exact auth_token_parses. Qed.
Print Assumptions C04_authenticate_layout.

(* CredSSP: the three TSRequest writers produce, for every token / sealed blob (below 2^60 bytes), DER that
   the strict parser accepts -- definite minimal lengths at every level, version 2, exactly the fields
   written, the octet strings returned unchanged. *)
Theorem C04_ts_requests :
  (forall nego, nlen nego < SMALL ->
     exactly sp_ts_request (x_create_ts_request nego) = Some (mkTsRequest 2 (Some [nego]) None None None None)) /\
  (forall nego pka, nlen nego < SMALL -> nlen pka < SMALL ->
     exactly sp_ts_request (x_create_ts_authenticate nego pka) = Some (mkTsRequest 2 (Some [nego]) None (Some pka) None None)) /\
  (forall info, nlen info < SMALL ->
     exactly sp_ts_request (x_create_ts_authinfo info) = Some (mkTsRequest 2 None (Some info) None None None)).
Proof. exact (conj ts_request_parses (conj ts_authenticate_parses ts_authinfo_parses)). Qed.
Print Assumptions C04_ts_requests.

(* TSCredentials as cssp_connect hands it to gss_wrapex: credType 1, credentials = DER TSPasswordCreds with
   three OCTET STRINGs that decode -- in the character set of the CHALLENGE -- to the configured domain, user
   and password (all of Unicode, surrogate pairs included), or to three empty strings under restricted admin. *)
Theorem C04_ts_credentials :
  forall u restricted st, strings st -> sized st ->
    exactly (sp_ts_credentials u) (creds_plaintext u restricted st) = Some (expected_creds u restricted st).
Proof. exact creds_plaintext_parses. Qed.
Print Assumptions C04_ts_credentials.

(* The CredSSP exchange on its own: every message cssp_connect writes, for every reply stream. *)
Theorem C04_nla_transcript :
  forall (md5 : bytes -> bytes) (hmac : bytes -> bytes -> bytes),
  (forall k x, List.length (hmac k x) = 16%nat) ->
  forall p (rd_chal rd_val : bytes -> outcome bytes) st restricted cert replies nonce key c pairs ts res ws,
  cssp_connect md5 hmac p x_create_ts_request x_create_ts_authenticate x_create_ts_credentials x_create_ts_authinfo
               rd_chal rd_val st restricted cert replies nonce key = (res, ws) ->
  (forall chal, rd_chal (fst (link_read0 replies)) = Ok chal -> chal = challenge_bytes c) ->
  wf_challenge c -> c_target_info c = av_bytes pairs [] -> Forall av_ok pairs ->
  av_find 7 (rev pairs) = Some ts -> List.length ts = 8%nat ->
  List.length nonce = 8%nat -> List.length key = 16%nat ->
  strings st -> sized st -> (forall pk, cert = Ok pk -> nlen pk < BIG) ->
  exists ds, Forall2 (fun w d => strict_parse_nla w = Some d) ws ds /\
             nla_decoded hmac st restricted c nonce key ts pairs ds /\
             (res = Ok tt -> List.length ws = 3%nat).
Proof. exact nla_transcript. Qed.
Print Assumptions C04_nla_transcript.

(* DER definite lengths are written in the minimal form the strict reader demands, for every size a usize
   can hold. *)
Theorem C04_der_length_minimal :
  forall n r, n < DER_MAX -> der_length (CsspGateExec.der_len n ++ r) = Some (n, r).
Proof. exact der_length_len. Qed.
Print Assumptions C04_der_length_minimal.

(* Non-vacuity (concrete MD4 / MD5 / HMAC-MD5 / RC4, vm_compute): C01's honest exchange -- domain "Dom", user
   "User", password "Paess" + U+1F600, a CHALLENGE with three AV pairs -- satisfies every hypothesis (also those
   of C04_all_parse about the configuration, for a configuration with these credentials); the run
   writes the python reference client's three messages; the strict parser decodes them to the expected
   structures; the AUTHENTICATE names are the configured ones; the TSCredentials plaintext decodes to the
   three configured strings (non-BMP password included) and is what the third message seals. *)
Theorem C04_nla_nonvacuous :
  (x_read_ts_server_challenge Debug ex_reply1 = Ok (challenge_bytes ex_chal) /\
   wf_challenge ex_chal /\ c_target_info ex_chal = av_bytes ex_pairs [] /\ Forall av_ok ex_pairs /\
   av_find 7 (rev ex_pairs) = Some ex_ts /\ List.length ex_ts = 8%nat /\
   List.length ex_nonce = 8%nat /\ List.length ex_key = 16%nat /\
   strings ex_state /\ sized ex_state /\ nlen ex_pubkey < BIG) /\
  (valid_cfg true ex_whole_cfg demo_ids /\ Forall sendable demo_events /\ credentials_of ex_whole_cfg ex_state) /\
  (ex_run (Ok ex_pubkey) [ex_reply2_ok] = (Ok tt, [ex_w1; ex_w2; ex_w3]) /\
   map strict_parse_nla [ex_w1; ex_w2; ex_w3]
   = [Some (NlaNegotiate 2 expected_negotiate);
      Some (NlaAuthenticate 2 (expected_authenticate hmac_md5 ex_state ex_chal negotiate_bytes ex_nonce ex_key ex_ts ex_ek ex_pairs) ex_sealed2);
      Some (NlaCredentials 2 ex_sealed3)] /\
   a_domain (expected_authenticate hmac_md5 ex_state ex_chal negotiate_bytes ex_nonce ex_key ex_ts ex_ek ex_pairs) = NUnicode ex_dom /\
   a_user (expected_authenticate hmac_md5 ex_state ex_chal negotiate_bytes ex_nonce ex_key ex_ts ex_ek ex_pairs) = NUnicode ex_user /\
   exactly (sp_ts_credentials true) (creds_plaintext true false ex_state)
   = Some (mkPasswordCreds (NUnicode ex_dom) (NUnicode ex_user) (NUnicode ex_pw)) /\
   match build_security_interface md5 ex_key with
   | Ok c0 => match wrap_all hmac_md5 c0 [ex_pubkey; creds_plaintext true false ex_state] with
              | Ok (l, _) => l = [ex_sealed2; ex_sealed3]
              | _ => False
              end
   | _ => False
   end).
Proof. exact (conj ex_nla_hypotheses (conj ex_whole_hypotheses ex_nla_run)). Qed.
Print Assumptions C04_nla_nonvacuous.

(* KNOWN FINDING C04-echo (refutation outside the hypotheses of C04_all_parse): the client copies the
   server's TargetInfo and MsvAvTimestamp into the NTLMv2 response without validating them.  (a) two bytes
   after MsvAvEOL, (b) a 4-byte MsvAvTimestamp: the client accepts the CHALLENGE, returns a token, and the
   strict parser REJECTS that token (AV list not closed at the end of NtChallengeResponse / Reserved3 not
   zero because the structure is shifted).  Only a non-conforming server triggers it. *)
Theorem C04_echoed_challenge_refuted :
  (wf_challenge ex_chal_trailing /\
   exists t, read_challenge_message hmac_md5 Debug ex_state negotiate_bytes (challenge_bytes ex_chal_trailing) ex_nonce ex_key = Ok t /\
             sp_authenticate t = None) /\
  (wf_challenge ex_chal_ts4 /\
   exists t, read_challenge_message hmac_md5 Debug ex_state negotiate_bytes (challenge_bytes ex_chal_ts4) ex_nonce ex_key = Ok t /\
             sp_authenticate t = None).
Proof. exact ex_echo_refuted. Qed.
Print Assumptions C04_echoed_challenge_refuted.
