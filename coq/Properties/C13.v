(* C13 -- Inbound deframing is exact under arbitrary fragmentation.
   Statements only; every proof is `exact <lemma>` into C13_proofs.v. *)
From RdpV Require Import Base Link Tpkt RefFraming C13_proofs.

(* For EVERY list of valid frames (any payload length including zero, every action
   byte, either fast-path length form), EVERY tail, and EVERY way of cutting the byte
   stream into non-empty transport reads, |fs| successive reads return exactly the
   payloads with their kind and security flags, and leave exactly the tail unread. *)
Theorem C13_deframe_exact :
  forall (fs : list frame) (tail : bytes) (cs : stream),
    Forall valid fs -> no_empty cs -> concat cs = flat_map enc fs ++ tail ->
    exists cs', reads (length fs) cs = (Ok (map (fun f => of_delivered (expected f)) fs), cs')
                /\ concat cs' = tail.
Proof. exact deframe_exact. Qed.
Print Assumptions C13_deframe_exact.

(* Frames whose declared length is shorter than their own header are rejected, and
   exactly the header has been consumed (three header forms). *)
Theorem C13_short_rejected_slow :
  forall (r size : N) (rest : bytes) (cs : stream),
    size < 4 -> no_empty cs -> concat cs = [3; r] ++ be16 size ++ rest ->
    exists cs', tpkt_read cs = (Err EInvalidSize, cs') /\ concat cs' = rest.
Proof. exact short_rejected_slow. Qed.
Print Assumptions C13_short_rejected_slow.

Theorem C13_short_rejected_fast_short :
  forall (a len : N) (rest : bytes) (cs : stream),
    a <> 3 -> len < 2 -> no_empty cs -> concat cs = [a; len] ++ rest ->
    exists cs', tpkt_read cs = (Err EInvalidSize, cs') /\ concat cs' = rest.
Proof. exact short_rejected_fast_short. Qed.
Print Assumptions C13_short_rejected_fast_short.

Theorem C13_short_rejected_fast_long :
  forall (a len : N) (rest : bytes) (cs : stream),
    a <> 3 -> len < 3 -> no_empty cs ->
    concat cs = [a; 128 + u16_hi len; u16_lo len] ++ rest ->
    exists cs', tpkt_read cs = (Err EInvalidSize, cs') /\ concat cs' = rest.
Proof. exact short_rejected_fast_long. Qed.
Print Assumptions C13_short_rejected_fast_long.

(* The X.224 data layer strips exactly its own three header bytes. *)
Theorem C13_x224_strips :
  forall (r : N) (p rest : bytes) (cs : stream),
    r < 256 -> nlen p + 7 <= 65535 -> no_empty cs ->
    concat cs = enc (Slow r ([2; 240; 128] ++ p)) ++ rest ->
    exists cs', x224_read cs = (Ok (Raw p), cs') /\ concat cs' = rest.
Proof. exact x224_read_strips. Qed.
Print Assumptions C13_x224_strips.

(* Non-vacuity: five mixed frames (one empty slow frame, one empty fast frame) dribbled
   one byte at a time satisfy the hypotheses and are deframed exactly. *)
Theorem C13_nonvacuous :
  Forall valid ex_frames /\
  reads 5 (dribble (flat_map enc ex_frames ++ [42])) =
  (Ok [Raw [1; 2; 3]; Raw []; FastPath 2 [9; 9]; FastPath 0 [7]; FastPath 1 []], [[42]]).
Proof. exact (conj ex_frames_valid deframe_example). Qed.
Print Assumptions C13_nonvacuous.
