(* C10 -- Every bitmap rectangle the server sends reaches the application exactly once.
   The server side is the reference ENCODER RefFastPath.v (MS-RDPBCGR 2.2.9.1.2: fast-path
   update PDU, TS_FP_UPDATE, TS_FP_UPDATE_BITMAP, TS_BITMAP_DATA with its optional
   TS_CD_HEADER); the client side is the model of RdpClient::read (Global.v over the message
   interpreter).  Scope as the property states: unfragmented, uncompressed updates
   (updateHeader bits 4-7 zero), whole frames delivered (C13).  [valid_update] /
   [valid_fp_frame] say only that every field can carry its value (16-bit fields, the
   update's 16-bit size, the frame's 7/15-bit length) and that a non-bitmap update has a
   code 0..15 other than 1 and bytes as data -- the data need not be a well-formed body. *)
From RdpV Require Import Base Msg LayoutsGlobal Link Tpkt Global RefFraming RefFastPath C10_proofs.
Open Scope list_scope.
Open Scope N_scope.

(* One PDU's updates, any number of updates and of rectangles per update, with or without
   the compression header: the callback is invoked exactly once per rectangle, in wire
   order, with the transmitted position, dimensions, depth, compression flag and data
   bytes; the read returns Ok, the session is unchanged and nothing is written.  Holds in
   both build profiles and whatever the session's fields are. *)
Theorem C10_exactly_once :
  forall p s us,
    Forall valid_update us ->
    read_fast_path p s (enc_fp_payload us) = mkStep s (Ok tt) [] (expected_events us).
Proof. exact read_fast_path_exact. Qed.
Print Assumptions C10_exactly_once.

(* The same through the whole client (TPKT / fast-path header in its short and long
   length form, every value of the two security flags, MCS pass-through) in state Data. *)
Theorem C10_frame :
  forall p s sec long us,
    st s = SData -> valid_fp_frame sec long us ->
    client_read p s (enc_fp_frame sec long us) = mkStep s (Ok tt) [] (expected_events us).
Proof. exact client_read_fp. Qed.
Print Assumptions C10_frame.

(* Every sequence of PDUs: the callbacks of the whole history are the rectangles of all
   the PDUs, concatenated in order. *)
Theorem C10_pdu_sequence :
  forall p (fs : list (N * bool * list update)) s,
    st s = SData -> Forall (fun '(sec, long, us) => valid_fp_frame sec long us) fs ->
    history_events (run_ops p s (map (fun '(sec, long, us) => OpRead (enc_fp_frame sec long us)) fs)) =
    expected_events (flat_map (fun '(_, _, us) => us) fs).
Proof. exact pdu_sequence. Qed.
Print Assumptions C10_pdu_sequence.

(* Every history inside the data window, PDUs interleaved with (attempted) user input:
   step by step the callbacks are those of the PDU read (none for an input step) and the
   session never changes. *)
Theorem C10_history :
  forall p hs s,
    st s = SData -> Forall valid_hop hs ->
    map r_events (run_ops p s (map to_op hs)) = map hop_events hs /\
    Forall (fun r => r_session r = s) (run_ops p s (map to_op hs)).
Proof. exact run_ops_fp. Qed.
Print Assumptions C10_history.

(* Other update kinds (pointer, synchronize, palette, orders, surface commands, codes the
   standard does not define; well-formed body or not) produce no bitmap events and do not
   disturb the updates before and after them. *)
Theorem C10_other_kinds_transparent :
  forall p s us1 c d us2,
    Forall valid_update (us1 ++ UOther c d :: us2) ->
    r_events (read_fast_path p s (enc_fp_payload (us1 ++ UOther c d :: us2))) =
    r_events (read_fast_path p s (enc_fp_payload (us1 ++ us2))) /\
    r_events (read_fast_path p s (enc_fp_payload [UOther c d])) = [].
Proof. exact other_updates_transparent. Qed.
Print Assumptions C10_other_kinds_transparent.

(* Outside the data window a fast-path PDU delivers nothing: it is refused. *)
Theorem C10_only_in_data :
  forall p s sec long us,
    st s <> SData -> valid_fp_frame sec long us ->
    client_read p s (enc_fp_frame sec long us) = mkStep s (Err EInvalidCast) [] [].
Proof. exact fp_outside_window. Qed.
Print Assumptions C10_only_in_data.

(* Non-vacuity: a PDU with six updates -- bitmap [plain rectangle, compressed rectangle
   with header], pointer-null, undefined code 7, colour pointer with a truncated body, empty
   bitmap update, bitmap [compressed rectangle, NO_HDR] -- satisfies the hypotheses in both
   length forms, and the model COMPUTES exactly the three expected callbacks for it. *)
Theorem C10_nonvacuous :
  (valid_fp_frame 2 false ex_updates /\ valid_fp_frame 0 true ex_updates) /\
  forall p, client_read p ex_session (enc_fp_frame 2 false ex_updates) =
            mkStep ex_session (Ok tt) []
              [mkBitmap 0 0 63 63 64 64 16 false [1; 2; 3; 4]; mkBitmap 64 0 127 63 64 64 16 true [9; 8; 7];
               mkBitmap 5 6 7 8 2 2 32 true [255; 0; 255]].
Proof. exact (conj ex_valid ex_computed). Qed.
Print Assumptions C10_nonvacuous.
