(* C11 -- User input is transmitted exactly once, in order, with exact values. *)
From RdpV Require Import Base Msg LayoutsGlobal Link Tpkt Global RefInput C12_proofs C11_proofs.
Open Scope list_scope.
Open Scope N_scope.

(* Inside the window, EVERY pointer / keyboard event (all x, y, scancodes, buttons, press
   states; all user ids, channel ids, share ids) produces exactly one frame, which is byte
   for byte the reference encoding (RefInput.v, written from MS-RDPBCGR / T.125) of that
   event with the identifiers the server assigned; the session is unchanged. *)
Theorem C11_exact :
  forall p s e r,
    st s = SData -> to_ref e = Some r ->
    client_write p s e = mkStep s (Ok tt) [ref_input_frame (user_id s) (channel_id s) (share_of s) r] [].
Proof. exact client_write_exact. Qed.
Print Assumptions C11_exact.

(* Every sequence of events: each is transmitted exactly once, in submission order. *)
Theorem C11_sequence :
  forall p es rs s,
    st s = SData -> map to_ref es = map Some rs ->
    write_all_events p s es = map (ref_input_frame (user_id s) (channel_id s) (share_of s)) rs.
Proof. exact client_write_sequence. Qed.
Print Assumptions C11_sequence.

(* Event kinds that cannot be sent are refused and put nothing on the wire. *)
Theorem C11_unsendable :
  forall p s e, to_ref e = None -> client_write p s e = mkStep s (Err EUnexpectedType) [] [].
Proof. exact client_write_unsendable. Qed.
Print Assumptions C11_unsendable.

(* Arbitrary server traffic between writes (any frame bytes at all) leaves the identifiers
   a later input PDU carries untouched; only a demand-active can assign a new share id. *)
Theorem C11_traffic_keeps_ids :
  forall p s frame,
    let r := client_read p s frame in
    user_id (r_session r) = user_id s /\ channel_id (r_session r) = channel_id s /\
    (st s <> SDemandActive -> share_id (r_session r) = share_id s).
Proof. exact client_read_ids. Qed.
Print Assumptions C11_traffic_keeps_ids.

(* The reference event encoding is decodable: a strict decoder recovers exactly the
   submitted coordinates / scancode, button and press state. *)
Theorem C11_values_recoverable : forall e, wf_rinput e -> dec_event (ref_event e) = Some e.
Proof. exact dec_ref_event. Qed.
Print Assumptions C11_values_recoverable.

(* Non-vacuity: right button pressed at (0x1234, 0xfffe), user 1004, share 0x000103ea *)
Theorem C11_nonvacuous :
  ref_input_frame 1004 1003 66538 (RPointer 4660 65534 RRight true) =
  [3; 0; 0; 48; 2; 240; 128; 100; 0; 3; 3; 235; 112; 34;
   34; 0; 23; 0; 236; 3; 234; 3; 1; 0; 0; 1; 34; 0; 28; 0; 0; 0;
   1; 0; 0; 0; 0; 0; 0; 0; 1; 128; 0; 160; 52; 18; 254; 255].
Proof. vm_compute. reflexivity. Qed.
Print Assumptions C11_nonvacuous.
