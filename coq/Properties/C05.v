(* C05 -- Hostile server bytes during connection setup never crash the client.
   Statements only; every proof is `exact <lemma>` into C05_proofs.v / C05_examples_proofs.v.
   Model: Connect.v (x224::Client::connect, mcs::Client::connect, sec::connect,
   license::client_connect as Connector::connect composes them) over the message
   interpreter Msg.v and the layouts of LayoutsConnect.v, for the REPAIRED code.
   External code (yasna's BER parser, the TLS handshake, the CredSSP exchange) is
   universally quantified; what is assumed of it is exactly [oracle_bytes_ok] /
   [oracle_stream_ok] / [oracle_cssp_ok]: it returns Ok or Err, and what it hands on are bytes. *)
From RdpV Require Import Base Msg MsgSafe LayoutsGlobal LayoutsConnect Link Tpkt Global BerYasna Connect ConnectRun
     C06_proofs C05_proofs C05_examples C05_examples_proofs.

(* For EVERY build profile, EVERY client configuration (offered protocols, with or without
   authenticator, restricted admin, either HashMap order of the channel joins, any
   credential length) and EVERY chunked stream of server bytes -- any content, any length,
   any fragmentation -- the whole connection sequence returns a value or an error: never
   Panic, never Spin. *)
Theorem C05_total :
  forall (p : prof) (ber_parse : bytes -> outcome bytes) (trusted : bool)
         (tls_start : stream -> outcome stream) (cssp_run : stream -> nat * outcome stream),
    oracle_bytes_ok ber_parse -> oracle_stream_ok tls_start -> oracle_cssp_ok cssp_run ->
    forall (c : config) (cs : stream),
      wf_stream cs -> nocrash (fst (run_connect p ber_parse trusted tls_start cssp_run c cs)).
Proof. exact connect_total. Qed.
Print Assumptions C05_total.

(* ... and no buffer the client sizes from the wire during that run (TPKT bodies, GCC block
   bodies, the channel-id array, licence message and blob) exceeds 2 * 65535 bytes: every
   such size is a 16-bit field, at most scaled by the 2-byte element width. *)
Theorem C05_alloc :
  forall (p : prof) (ber_parse : bytes -> outcome bytes) (trusted : bool)
         (tls_start : stream -> outcome stream) (cssp_run : stream -> nat * outcome stream),
    oracle_bytes_ok ber_parse -> oracle_stream_ok tls_start -> oracle_cssp_ok cssp_run ->
    forall (c : config) (cs : stream),
      wf_stream cs -> s_alloc (snd (run_connect p ber_parse trusted tls_start cssp_run c cs)) <= 131070.
Proof. exact connect_alloc. Qed.
Print Assumptions C05_alloc.

(* The same for each parser entry point on its own, for all bytes. *)
Theorem C05_x224_confirm_total :
  forall (p : prof) (input : bytes), wf_bytes input ->
    nocrash (fst (read_connection_confirm p input)) /\ snd (read_connection_confirm p input) <= 131070.
Proof. exact read_connection_confirm_ok. Qed.
Print Assumptions C05_x224_confirm_total.

Theorem C05_mcs_connect_response_total :
  forall (p : prof) (ber_parse : bytes -> outcome bytes), oracle_bytes_ok ber_parse ->
  forall (payload : bytes), wf_bytes payload ->
    nocrash (fst (read_connect_response p ber_parse payload)) /\ snd (read_connect_response p ber_parse payload) <= 131070.
Proof. exact read_connect_response_ok. Qed.
Print Assumptions C05_mcs_connect_response_total.

Theorem C05_gcc_total :
  forall (p : prof) (input : bytes), wf_bytes input ->
    nocrash (fst (read_conference_create_response p input)) /\ snd (read_conference_create_response p input) <= 131070.
Proof. exact read_conference_create_response_ok. Qed.
Print Assumptions C05_gcc_total.

Theorem C05_attach_confirm_total :
  forall (input : bytes), nocrash (read_attach_user_confirm input).
Proof. exact read_attach_user_confirm_nocrash. Qed.
Print Assumptions C05_attach_confirm_total.

Theorem C05_join_confirm_total :
  forall (user_id channel_id : N) (input : bytes), nocrash (read_channel_join_confirm user_id channel_id input).
Proof. exact read_channel_join_confirm_nocrash. Qed.
Print Assumptions C05_join_confirm_total.

(* security header + licence (license::client_connect behind sec::connect) *)
Theorem C05_licence_total :
  forall (p : prof) (input : bytes), wf_bytes input ->
    nocrash (fst (sec_license p input)) /\ snd (sec_license p input) <= 131070.
Proof. exact sec_license_ok. Qed.
Print Assumptions C05_licence_total.

(* The reflective per-layout obligations: every layout read during connection setup passes
   the checker of the generic safety theorem (closures cannot trap, arrays make progress). *)
Theorem C05_layouts_safe :
  safe x224_connection_pdu_t = true /\ safe block_header_t = true /\ safe server_core_data = true /\
  safe server_security_data = true /\ safe server_network_data = true /\ safe security_header = true /\
  safe preamble = true /\ safe licensing_error_message = true.
Proof. exact safe_connect_layouts. Qed.
Print Assumptions C05_layouts_safe.

(* Non-vacuity: a valid server conversation (byte recipe of DESIGN.md Appendix B) satisfies
   the hypothesis and drives the model to Ok in both profiles and under two fragmentations,
   with the complete client side of the sequence emitted and all input consumed. *)
Theorem C05_nonvacuous :
  wf_stream ex_conversation /\ wf_stream ex_conversation_split /\
  ok_run (connect_impl Debug ex_config ex_conversation) 1004 ex_sent /\
  ok_run (connect_impl Release ex_config ex_conversation) 1004 ex_sent /\
  ok_run (connect_impl Debug ex_config ex_conversation_split) 1004 ex_sent.
Proof. exact ex_connects. Qed.
Print Assumptions C05_nonvacuous.

(* The assumptions on external code are satisfiable: any parser wrapped so that it cannot
   unwind meets them (and the wrapped yasna model connects on the valid conversation); a
   transport on which TLS cannot be established meets them. *)
Theorem C05_oracles_satisfiable :
  (forall f, oracle_bytes_ok (guard_bytes f)) /\ oracle_stream_ok no_tls /\ (forall post, oracle_stream_ok (tls_exact post)) /\ oracle_cssp_ok no_cssp /\
  exists sd, fst (run_connect Debug (guard_bytes (ber_connect_response Debug)) false no_tls no_cssp ex_config ex_conversation) = Ok (1004, sd).
Proof. exact (conj guard_bytes_ok (conj no_tls_ok (conj tls_exact_ok (conj no_cssp_ok ex_connects_guarded)))). Qed.
Print Assumptions C05_oracles_satisfiable.

(* The model is the model of the repaired code: the inputs that made the unrepaired code
   panic (licence wMsgSize 3, GCC block length 3, GCC response without network / core
   block, HYBRID selected without an authenticator) are errors in both profiles. *)
Theorem C05_repaired_witnesses : forall p,
  fst (lic_impl p ex_lic_msgsize3) = Err EIo /\
  fst (gcc_impl p ex_gcc_blocklen3) = Err EInvalidSize /\
  fst (gcc_impl p ex_gcc_no_net) = Err EInvalidData /\
  fst (gcc_impl p ex_gcc_no_core) = Err EInvalidData /\
  fst (connect_impl p ex_config_nla_noauth [ex_cc_hybrid]) = Err EInvalidOptionalField.
Proof. exact ex_repaired. Qed.
Print Assumptions C05_repaired_witnesses.

(* KNOWN FINDING (C05-yasna-length-overflow): yasna 0.3.2, modelled from its source in
   BerYasna.v, does NOT meet [oracle_bytes_ok]: a connect-response whose BER encoding carries
   the length 88 ff ff ff ff ff ff ff ff makes position + length overflow and the parser --
   hence the connect call -- panics, in both profiles.  C05_total therefore holds for the
   real client exactly as far as its BER parser does not unwind. *)
Theorem C05_ber_oracle_refuted :
  wf_bytes ex_ber_overflow /\
  ber_connect_response Debug ex_ber_overflow = Panic /\ ber_connect_response Release ex_ber_overflow = Panic /\
  fst (connect_impl Debug ex_config [ex_cc; [3; 0; 0; 108; 2; 240; 128] ++ ex_ber_overflow]) = Panic.
Proof. exact ex_ber_refuted. Qed.
Print Assumptions C05_ber_oracle_refuted.
