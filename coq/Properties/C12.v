(* C12 -- Activation state machine: one finalization per demand-active, input gated.
   The theorems quantify over EVERY frame (any bytes, well formed or not) and EVERY
   history of reads and input attempts; "the PDU an edge requires" is what the client's
   own parser (the message interpreter on the share-control / share-data layouts) makes of
   the frame, and the concrete server encodings are exercised by the example and by the
   correspondence run. *)
From RdpV Require Import Base Msg LayoutsGlobal Link Tpkt Global C12_proofs C12_examples.
Open Scope list_scope.
Open Scope N_scope.

(* One read, any state, any frame: either nothing moves and nothing is written, or the
   state advances along exactly one edge of the activation sequence, the frame carries
   the PDU that edge requires, and output is written on the demand-active edge only --
   exactly one confirm-active plus finalization carrying the server's share id. *)
Theorem C12_step :
  forall p s frame,
    let r := client_read p s frame in
    (st (r_session r) = st s /\ r_wire r = []) \/
    (edge (st s) (st (r_session r)) /\
     exists b, slow_data s frame = Some b /\ edge_requires p (st s) b /\
       match st s with
       | SDemandActive => exists sid, is_demand_active p b sid /\ share_id (r_session r) = Some sid /\
                                      finalization p s sid (r_wire r)
       | _ => r_wire r = []
       end).
Proof. exact client_read_step. Qed.
Print Assumptions C12_step.

(* Every history: the state only ever moves along the activation sequence. *)
Theorem C12_follows_sequence : forall p ops s0, path (st s0) (st (run p s0 ops)).
Proof. exact run_follows_edges. Qed.
Print Assumptions C12_follows_sequence.

(* Every history that ends inside the input window has a LAST entry into it: a font-map
   PDU read in state FontMap, with no state change (no deactivate-all) since. *)
Theorem C12_window :
  forall p ops s0,
    st s0 <> SData -> st (run p s0 ops) = SData ->
    exists ops1 f ops2 b,
      ops = ops1 ++ OpRead f :: ops2 /\
      st (run p s0 ops1) = SFontMap /\
      slow_data (run p s0 ops1) f = Some b /\ is_data_pdu p b PDUTYPE2_FONTMAP None /\
      (forall a c, ops2 = a ++ c -> st (run p s0 (ops1 ++ OpRead f :: a)) = SData).
Proof. exact window_has_last_entry. Qed.
Print Assumptions C12_window.

(* Every history: outside the window an input attempt is refused (strict write) or
   dropped (lenient write) and produces no bytes on the wire. *)
Theorem C12_input_refused_outside :
  forall p ops s0 e,
    let s := run p s0 ops in
    st s <> SData -> sendable e ->
    r_wire (client_write p s e) = [] /\ r_out (client_write p s e) = Err EInvalidAutomata /\
    r_wire (client_try_write p s e) = [] /\ r_out (client_try_write p s e) = Ok tt.
Proof. exact input_refused_outside_window. Qed.
Print Assumptions C12_input_refused_outside.

(* Input attempts never move the state machine. *)
Theorem C12_write_keeps_state :
  forall p s e, r_session (client_write p s e) = s /\ r_session (client_try_write p s e) = s.
Proof.
  exact (fun p s e => conj (proj1 (client_write_gate p s e)) (proj1 (client_try_write_gate p s e))).
Qed.
Print Assumptions C12_write_keeps_state.

(* Bitmap events are delivered only inside the window. *)
Theorem C12_events_only_in_window :
  forall p s frame, r_events (client_read p s frame) <> [] -> st s = SData.
Proof. exact client_read_events. Qed.
Print Assumptions C12_events_only_in_window.

(* Non-vacuity: a complete concrete activation (reference encodings of the server PDUs). *)
Theorem C12_nonvacuous :
  map summary (run_ops Debug ex_s0 ex_ops) =
  [(SSynchronize, true, 5, 0); (SControlCooperate, true, 0, 0); (SControlGranted, true, 0, 0); (SFontMap, true, 0, 0);
   (SFontMap, false, 0, 0);
   (SData, true, 0, 0); (SData, true, 1, 0); (SData, true, 0, 2); (SDemandActive, true, 0, 0);
   (SDemandActive, true, 0, 0)]%nat.
Proof. exact activation_example. Qed.
Print Assumptions C12_nonvacuous.
