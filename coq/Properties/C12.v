(* C12 -- Activation state machine: one finalization per demand-active, input gated.
   The theorems quantify over EVERY frame (any bytes, well formed or not) and EVERY
   history of reads and input attempts; "the PDU an edge requires" is what the client's
   own parser (the message interpreter on the share-control / share-data layouts) makes of
   the frame, and the concrete server encodings are exercised by the example and by the
   correspondence run. *)
From RdpV Require Import Base Msg LayoutsGlobal Link Tpkt Global C12_proofs C12_examples.
From RdpV Require Import RefFraming RefFastPath RefInput RefSession RefSessionFacts StrictPdu C06_proofs C10_proofs C11_proofs
                         C12_ref_proofs C12_ref_wire C12_ref_examples.
Open Scope list_scope.
Open Scope N_scope.

(* One read, any state, any frame: either nothing moves and nothing is written, or the
   state advances along exactly one edge of the activation sequence, the frame carries
   the PDU that edge requires, and output is written on the demand-active edge only --
   exactly one confirm-active plus finalization carrying the server's share id. *)
Theorem C12_step :
  forall p s frame,
    let r := client_read p s frame in
    (st (r_session r) = st s /\ r_wire r = []) \/
    (edge (st s) (st (r_session r)) /\
     exists b, slow_data s frame = Some b /\ edge_requires p (st s) b /\
       match st s with
       | SDemandActive => exists sid, is_demand_active p b sid /\ share_id (r_session r) = Some sid /\
                                      finalization p s sid (r_wire r)
       | _ => r_wire r = []
       end).
Proof. exact client_read_step. Qed.
Print Assumptions C12_step.

(* Every history: the state only ever moves along the activation sequence. *)
Theorem C12_follows_sequence : forall p ops s0, path (st s0) (st (run p s0 ops)).
Proof. exact run_follows_edges. Qed.
Print Assumptions C12_follows_sequence.

(* Every history that ends inside the input window has a LAST entry into it: a font-map
   PDU read in state FontMap, with no state change (no deactivate-all) since. *)
Theorem C12_window :
  forall p ops s0,
    st s0 <> SData -> st (run p s0 ops) = SData ->
    exists ops1 f ops2 b,
      ops = ops1 ++ OpRead f :: ops2 /\
      st (run p s0 ops1) = SFontMap /\
      slow_data (run p s0 ops1) f = Some b /\ is_data_pdu p b PDUTYPE2_FONTMAP None /\
      (forall a c, ops2 = a ++ c -> st (run p s0 (ops1 ++ OpRead f :: a)) = SData).
Proof. exact window_has_last_entry. Qed.
Print Assumptions C12_window.

(* Every history: outside the window an input attempt is refused (strict write) or
   dropped (lenient write) and produces no bytes on the wire. *)
Theorem C12_input_refused_outside :
  forall p ops s0 e,
    let s := run p s0 ops in
    st s <> SData -> sendable e ->
    r_wire (client_write p s e) = [] /\ r_out (client_write p s e) = Err EInvalidAutomata /\
    r_wire (client_try_write p s e) = [] /\ r_out (client_try_write p s e) = Ok tt.
Proof. exact input_refused_outside_window. Qed.
Print Assumptions C12_input_refused_outside.

(* Input attempts never move the state machine. *)
Theorem C12_write_keeps_state :
  forall p s e, r_session (client_write p s e) = s /\ r_session (client_try_write p s e) = s.
Proof.
  exact (fun p s e => conj (proj1 (client_write_gate p s e)) (proj1 (client_try_write_gate p s e))).
Qed.
Print Assumptions C12_write_keeps_state.

(* Bitmap events are delivered only inside the window. *)
Theorem C12_events_only_in_window :
  forall p s frame, r_events (client_read p s frame) <> [] -> st s = SData.
Proof. exact client_read_events. Qed.
Print Assumptions C12_events_only_in_window.

(* Non-vacuity: a complete concrete activation (reference encodings of the server PDUs). *)
Theorem C12_nonvacuous :
  map summary (run_ops Debug ex_s0 ex_ops) =
  [(SSynchronize, true, 5, 0); (SControlCooperate, true, 0, 0); (SControlGranted, true, 0, 0); (SFontMap, true, 0, 0);
   (SFontMap, false, 0, 0);
   (SData, true, 0, 0); (SData, true, 1, 0); (SData, true, 0, 2); (SDemandActive, true, 0, 0);
   (SDemandActive, true, 0, 0)]%nat.
Proof. exact activation_example. Qed.
Print Assumptions C12_nonvacuous.

(* ====================================================================================================
   HISTORY LEVEL, over the property's 11-letter alphabet (RefSession.v: spec written from MS-RDPBCGR /
   T.125, independent of the model).  A history is a list of [hop]s: the server sends a letter
   [HRecv i m] -- m : smsg = DemandActive sid caps | Synchronize | ControlCooperate | ControlGranted |
   ControlOther a | FontMap | SetErrorInfo code | UnknownData t body | DeactivateAll | FpBitmap rects |
   FpOther code body, put on the wire by the REFERENCE ENCODER [enc_smsg i m] with server-chosen
   identifiers i (initiator, PDUSource, share id of data PDUs, source descriptor, session id, target
   user, grant / control ids, fast-path security flags and length form: any values of their types;
   only the MCS channel must be the one the client joined) -- or the application offers an input event
   ([HInput] strict write, [HTryInput] lenient write).  [hop_ok s0] = the letter is in its class
   ([valid_smsg]: any u32 share id, ANY list of capability sets of any type and body, any control
   action but cooperate / granted, any pduType2 but the four handled ones with any body, any fast-path
   code but bitmap with any body, any rectangles), every field can carry its value, the user data fits
   one PER length determinant (16383 bytes), [valid_ids].  All theorems: every history (induction, no
   length bound), both build profiles.
   ==================================================================================================== *)

(* ONE READ of one letter in ANY state (not only reachable ones): the session state moves exactly as
   the reference automaton's transition table [ref_step] says; a letter that the table does not move
   on leaves the whole session and the wire untouched; nothing is ever written outside the
   awaiting-activation state; the read never crashes. *)
Theorem C12_advance_iff_expected :
  forall p s i m,
    ids_fit s i -> valid_smsg i m ->
    let r := client_read p s (enc_smsg i m) in
    abs (st (r_session r)) = ref_step (abs (st s)) m /\
    (ref_step (abs (st s)) m = abs (st s) -> r_session r = s /\ r_wire r = []) /\
    (st s <> SDemandActive -> r_wire r = []) /\
    nocrash (r_out r).
Proof. exact advance_iff_expected. Qed.
Print Assumptions C12_advance_iff_expected.

(* ... spelled out for the four waiting states: synchronize, cooperate, granted-control, font-map --
   the state advances on its letter and on no other letter; every other letter leaves the session
   as it was; nothing is written either way. *)
Theorem C12_waiting_states :
  forall p s i m g e n,
    In (g, e, n) [(SSynchronize, Synchronize, SControlCooperate); (SControlCooperate, ControlCooperate, SControlGranted);
                  (SControlGranted, ControlGranted, SFontMap); (SFontMap, FontMap, SData)] ->
    st s = g -> ids_fit s i -> valid_smsg i m ->
    let r := client_read p s (enc_smsg i m) in
    r_wire r = [] /\ (m = e -> r_session r = set_state s n) /\ (m <> e -> r_session r = s).
Proof. exact waiting_states. Qed.
Print Assumptions C12_waiting_states.

(* SIMULATION: along every history (letters and input attempts interleaved in any way) the client's
   state is the reference automaton's state after the letters received, and user id, channel, screen
   size, layout and name never change. *)
Theorem C12_follows_reference :
  forall p s0 hs,
    st s0 = SDemandActive -> Forall (hop_ok s0) hs ->
    st (after p s0 hs) = conc (ref_state (letters hs)) /\ same_but_state s0 (after p s0 hs).
Proof. exact (fun p s0 hs Hst => history_state p s0 Hst hs). Qed.
Print Assumptions C12_follows_reference.

(* ONE FINALIZATION PER ANSWERED DEMAND-ACTIVE.  Along every history, the frames the client writes in
   answer to the server's letters are exactly, for each demand-active received while it awaits
   activation ([answered]), in order, the five frames [client_finalization] -- and these parse under
   the strict parsers of StrictPdu.v (written from the standards) to exactly: confirm-active carrying
   THAT demand-active's share id (and the client's name, screen size, layout, the twelve capability
   sets), synchronize, control-cooperate, control-request-control, font-list, each carrying that share
   id (the synchronize's targetUser is the server channel 0x03EA), with initiator = PDUSource = the
   client's user id, on the I/O channel of the session -- whatever u16 id the server announced
   ([client_ok]: [channel_id s0 < 65536], no longer the constant 1003).  Nothing else is written in
   answer to any letter (demand-actives that are not awaited, repeated or out-of-order finalization
   PDUs, unknown PDUs, deactivate-alls, fast-path updates). *)
Theorem C12_one_finalization :
  forall p s0 hs,
    st s0 = SDemandActive -> client_ok s0 -> Forall (hop_ok s0) hs ->
    recv_wire p s0 hs = flat_map (client_finalization p s0) (answered (letters hs)) /\
    Forall2 (fun f d => strict_parse f = Some d)
            (recv_wire p s0 hs) (flat_map (finalization_pdus s0) (answered (letters hs))) /\
    map cpdu_of (flat_map (finalization_pdus s0) (answered (letters hs))) = map Some (expected_output (letters hs)).
Proof.
  exact (fun p s0 hs Hst Hc Hok =>
           conj (history_one_finalization p s0 Hst hs Hok)
                (conj (history_one_finalization_strict p s0 hs Hst Hc Hok) (expected_output_abstraction s0 (letters hs)))).
Qed.
Print Assumptions C12_one_finalization.

(* The same for a server that only sends letters: EVERYTHING on the wire after reading the reference
   encodings of h. *)
Theorem C12_one_finalization_reads :
  forall p s0 (ims : list (ids * smsg)),
    st s0 = SDemandActive -> client_ok s0 ->
    Forall (fun im => ids_fit s0 (fst im) /\ valid_smsg (fst im) (snd im)) ims ->
    Forall2 (fun f d => strict_parse f = Some d)
            (List.concat (map r_wire (run_ops p s0 (map (fun im => OpRead (enc_smsg (fst im) (snd im))) ims))))
            (flat_map (finalization_pdus s0) (answered (map snd ims))).
Proof. exact history_one_finalization_reads_strict. Qed.
Print Assumptions C12_one_finalization_reads.

(* INPUT WINDOW, both directions: after every history an input attempt is accepted IFF the reference
   automaton is inside the window (a font-map completed synchronize -> cooperate -> granted since the
   last answered demand-active, no deactivate-all since).  Inside: exactly one frame, byte for byte the
   reference input PDU (RefInput.v) of THAT event carrying the share id of the last answered
   demand-active and the client's user id; the session is unchanged; the lenient write does the same.
   Outside: the strict write is refused with InvalidAutomata, the lenient write returns Ok; no byte on
   the wire, no event, session unchanged. *)
Theorem C12_input_window :
  forall p s0 hs e r,
    st s0 = SDemandActive -> Forall (hop_ok s0) hs -> to_ref e = Some r ->
    let s := after p s0 hs in
    is_ok (r_out (client_write p s e)) = window (letters hs) /\
    (window (letters hs) = true ->
       client_write p s e
         = mkStep s (Ok tt) [ref_input_frame (user_id s0) (channel_id s0) (current_share (letters hs)) r] [] /\
       client_try_write p s e = client_write p s e) /\
    (window (letters hs) = false ->
       client_write p s e = mkStep s (Err EInvalidAutomata) [] [] /\
       client_try_write p s e = mkStep s (Ok tt) [] []).
Proof. exact (fun p s0 hs e r Hst => history_input_window p s0 Hst hs e r). Qed.
Print Assumptions C12_input_window.

(* The same as one equation against the specification's expected output: what either write puts on
   the wire after any history is [expected_input_frames] (one reference input PDU in the current share
   inside the window, nothing outside), and neither write moves the session. *)
Theorem C12_input_frames :
  forall p s0 hs e r,
    st s0 = SDemandActive -> Forall (hop_ok s0) hs -> to_ref e = Some r ->
    r_wire (client_write p (after p s0 hs) e) = expected_input_frames (user_id s0) (channel_id s0) (letters hs) r /\
    r_wire (client_try_write p (after p s0 hs) e) = expected_input_frames (user_id s0) (channel_id s0) (letters hs) r /\
    r_session (client_write p (after p s0 hs) e) = after p s0 hs /\
    r_session (client_try_write p (after p s0 hs) e) = after p s0 hs.
Proof. exact (fun p s0 hs e r Hst => history_input_frames p s0 Hst hs e r). Qed.
Print Assumptions C12_input_frames.

(* BITMAP EVENTS, as one equation: reading ANY letter after ANY history invokes the callback with exactly
   [expected_bitmaps] -- the rectangles of a fast-path bitmap letter, in wire order, iff inside the
   window; nothing otherwise. *)
Theorem C12_bitmaps_exact :
  forall p s0 hs i m,
    st s0 = SDemandActive -> Forall (hop_ok s0) hs -> ids_fit s0 i -> valid_smsg i m ->
    r_events (client_read p (after p s0 hs) (enc_smsg i m)) = map event_of (expected_bitmaps (letters hs) m).
Proof. exact (fun p s0 hs i m Hst => history_bitmaps p s0 Hst hs i m). Qed.
Print Assumptions C12_bitmaps_exact.

(* BITMAP EVENTS only inside the window: after every history, if reading a letter invokes the callback
   at all, then the reference automaton is inside the window and the letter is a fast-path bitmap
   update with at least one rectangle. *)
Theorem C12_bitmaps_only_in_window :
  forall p s0 hs i m,
    st s0 = SDemandActive -> Forall (hop_ok s0) hs -> ids_fit s0 i -> valid_smsg i m ->
    r_events (client_read p (after p s0 hs) (enc_smsg i m)) <> [] ->
    window (letters hs) = true /\ exists rects, m = FpBitmap rects /\ rects <> [].
Proof. exact (fun p s0 hs i m Hst => bitmaps_only_in_window p s0 Hst hs i m). Qed.
Print Assumptions C12_bitmaps_only_in_window.

(* ... and inside the window every fast-path bitmap letter delivers exactly its rectangles, once each,
   in wire order, with the transmitted values (C10's exactness, at every point of every history). *)
Theorem C12_bitmaps_delivered_in_window :
  forall p s0 hs i rects,
    st s0 = SDemandActive -> Forall (hop_ok s0) hs -> ids_fit s0 i -> valid_smsg i (FpBitmap rects) ->
    window (letters hs) = true ->
    r_events (client_read p (after p s0 hs) (enc_smsg i (FpBitmap rects))) = map event_of (map seen_of rects).
Proof. exact (fun p s0 hs i rects Hst => bitmaps_delivered_in_window p s0 Hst hs i rects). Qed.
Print Assumptions C12_bitmaps_delivered_in_window.

(* The reference automaton says what the property says: its executable [awaits] / [window] coincide
   with the declarative reading of the two history predicates, defined WITHOUT the transition table:
   [awaiting h] -- no demand-active since the start or since the deactivate-all that closed a window;
   [in_window h] -- h = h0 ++ DemandActive :: a ++ Synchronize :: b ++ ControlCooperate :: c ++
   ControlGranted :: d ++ FontMap :: e with awaiting h0, no synchronize in a, no cooperate in b, no
   granted in c, no font-map in d, no deactivate-all in e. *)
Theorem C12_window_declarative :
  forall h, (awaiting h <-> awaits h = true) /\ (in_window h <-> window h = true).
Proof. exact (fun h => conj (awaiting_iff h) (in_window_iff h)). Qed.
Print Assumptions C12_window_declarative.

(* Non-vacuity: a concrete 25-step history with re-activation (two answered demand-actives with known,
   unknown, truncated and empty capability sets, one ignored; a refused control action; an ignored
   deactivate-all during finalization; input refused / dropped / accepted; rectangles refused / delivered;
   set-error-info, unknown data PDU, fast-path other; deactivate-all; second activation under other
   server identifiers and the long fast-path form) satisfies the hypotheses; the reference automaton
   answers [0x103ea; 0x203eb] and ends inside the window; the model, computed step by step on the
   reference encodings, agrees; the Coq reference encoder reproduces the python reference
   encoder's frames byte for byte; and a session whose I/O channel is 1007 (not 1003) satisfies the
   hypotheses, activates, and its five answer frames parse strictly to [finalization_pdus] on channel 1007. *)
Theorem C12_history_nonvacuous :
  Forall (hop_ok hx_s0) hx_hist /\ st hx_s0 = SDemandActive /\ client_ok hx_s0 /\
  answered (letters hx_hist) = [66538; 132075] /\ window (letters hx_hist) = true /\
  current_share (letters hx_hist) = 132075 /\
  (forall p, map summary (run_ops p hx_s0 (map hop_op hx_hist)) =
   [(SDemandActive, false, 0, 0); (SSynchronize, true, 5, 0); (SSynchronize, true, 0, 0); (SControlCooperate, true, 0, 0);
    (SControlCooperate, true, 0, 0); (SControlGranted, true, 0, 0); (SControlGranted, false, 0, 0); (SFontMap, true, 0, 0);
    (SFontMap, true, 0, 0); (SFontMap, false, 0, 0); (SData, true, 0, 0); (SData, true, 1, 0); (SData, true, 0, 2);
    (SData, true, 0, 0); (SData, true, 0, 0); (SData, true, 0, 0); (SDemandActive, true, 0, 0); (SDemandActive, false, 0, 0);
    (SSynchronize, true, 5, 0); (SControlCooperate, true, 0, 0); (SControlGranted, true, 0, 0); (SFontMap, true, 0, 0);
    (SData, true, 0, 0); (SData, true, 1, 0); (SData, true, 0, 2)]%nat) /\
  enc_smsg py_ids (DemandActive 66538 py_caps) = ex_da /\ enc_smsg py_ids Synchronize = ex_sync /\
  enc_smsg py_ids_granted ControlGranted = ex_granted /\ enc_smsg py_ids (FpBitmap hx_rects) = ex_fpbmp /\
  enc_smsg py_ids_deact DeactivateAll = ex_deact /\
  (* the same on an I/O channel other than 1003 (the server announced 1007) *)
  (Forall (hop_ok io_s0) io_hist /\ client_ok io_s0 /\ st io_s0 = SDemandActive) /\
  (forall p, map summary (run_ops p io_s0 (map hop_op io_hist)) =
             [(SSynchronize, true, 5, 0); (SControlCooperate, true, 0, 0); (SControlGranted, true, 0, 0); (SFontMap, true, 0, 0);
              (SData, true, 0, 0); (SData, true, 1, 0); (SData, true, 0, 2)]%nat /\
             map strict_parse (client_finalization p io_s0 66538) = map Some (finalization_pdus io_s0 66538)).
Proof. exact hx_nonvacuous. Qed.
Print Assumptions C12_history_nonvacuous.
