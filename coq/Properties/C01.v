(* C01 -- NLA releases credentials only after the server proves the session key.
   Statements only; every proof is `exact <lemma>` into C01_proofs.v.
   Model: CsspGate.v (nla/cssp.rs cssp_connect as a function of the server's scripted replies, returning the
   result and the list of messages written on the link), over Ntlm.v (handshake) and NtlmSeal.v (gss_wrapex /
   gss_unwrapex).  Universally quantified: md5, hmac (16-byte digests), the build profile, the DER codec
   functions of TSRequest, the certificate's public-key bytes `cert` (or the error obtaining them), the client
   state, the randomness, restricted-admin mode, and the server's replies.  RC4 is the concrete Rc4.v.
   `proved pk ctx reply` := the reply decodes to a token that gss_unwrapex accepts under ctx and whose
   plaintext equals pk + 1 AS LITTLE-ENDIAN INTEGERS (le_nat = BigUint::from_bytes_le: encodings of the
   same number with trailing zero bytes are equal -- the comparison the code makes). *)
From RdpV Require Import Base Msg Link Rc4 Md5 Md4 Hmac Utf Ntlm NtlmSeal RefNlmpSeal C16_proofs C15_proofs
                         CsspGate CsspGateExec C01_proofs.

(* THE GATE, for the whole exchange.  Whatever the replies: at most three messages are written; the third one
   (TSRequest with the sealed credentials) exists IF AND ONLY IF the result is Ok, and then the server proved
   the key: the certificate was obtained (cert = Ok pk), the reply read in the last round unseals -- under the
   context built from THIS session's exported key after sealing pk -- to a value equal to pk + 1.  With two
   messages written the result is not Ok and the server did NOT prove the key; with fewer, not Ok either. *)
Theorem C01_gate :
  forall (md5 : bytes -> bytes) (hmac : bytes -> bytes -> bytes) (p : prof)
         (create_ts_request : bytes -> bytes) (create_ts_authenticate : bytes -> bytes -> bytes)
         (create_ts_credentials : bytes -> bytes -> bytes -> bytes) (create_ts_authinfo : bytes -> bytes)
         (read_ts_server_challenge read_ts_validate : bytes -> outcome bytes),
  (forall k x, List.length (hmac k x) = 16%nat) ->
  forall (st : ntlm) (ra : bool) (cert : outcome bytes) (replies : stream) (nonce key : bytes),
  let r := cssp_connect md5 hmac p create_ts_request create_ts_authenticate create_ts_credentials
                        create_ts_authinfo read_ts_server_challenge read_ts_validate st ra cert replies nonce key in
  match snd r with
  | [] | [_] => fst r <> Ok tt
  | [_; _] => fst r <> Ok tt /\ ~ server_proved md5 hmac read_ts_validate cert key replies
  | [_; _; _] => fst r = Ok tt /\ server_proved md5 hmac read_ts_validate cert key replies
  | _ => False
  end.
Proof. exact connect_gate. Qed.
Print Assumptions C01_gate.

(* The last round in isolation: anything is written in it ONLY IF the server proved the key ... *)
Theorem C01_final_round_gate :
  forall (hmac : bytes -> bytes -> bytes) (create_ts_credentials : bytes -> bytes -> bytes -> bytes)
         (create_ts_authinfo : bytes -> bytes) (read_ts_validate : bytes -> outcome bytes),
  (forall k x, List.length (hmac k x) = 16%nat) ->
  forall (st : ntlm) (ra u : bool) (pk : bytes) (ctx : secif) (reply : bytes),
  snd (final_round hmac create_ts_credentials create_ts_authinfo read_ts_validate st ra u pk ctx reply) <> [] ->
  proved hmac read_ts_validate pk ctx reply.
Proof. exact final_round_gate. Qed.
Print Assumptions C01_final_round_gate.

(* ... and for ANY other reply (the decoder returning Ok or Err) the round ends with an ERROR and NOTHING
   written: the connection attempt fails and the link stays silent. *)
Theorem C01_refuse :
  forall (hmac : bytes -> bytes -> bytes) (create_ts_credentials : bytes -> bytes -> bytes -> bytes)
         (create_ts_authinfo : bytes -> bytes) (read_ts_validate : bytes -> outcome bytes),
  (forall k x, List.length (hmac k x) = 16%nat) ->
  forall (st : ntlm) (ra u : bool) (pk : bytes) (ctx : secif) (reply : bytes),
  ~ proved hmac read_ts_validate pk ctx reply ->
  read_ts_validate reply <> Panic -> read_ts_validate reply <> Spin ->
  exists e, final_round hmac create_ts_credentials create_ts_authinfo read_ts_validate st ra u pk ctx reply = (Err e, []).
Proof. exact final_round_refuse. Qed.
Print Assumptions C01_refuse.

(* Unconditional: a correctly sealed and signed value pk + k with k <> 1 -> PossibleMITM, nothing written. *)
Theorem C01_refuse_offset :
  forall (hmac : bytes -> bytes -> bytes) (create_ts_credentials : bytes -> bytes -> bytes -> bytes)
         (create_ts_authinfo : bytes -> bytes) (read_ts_validate : bytes -> outcome bytes)
         (st : ntlm) (ra u : bool) (pk : bytes) (ctx : secif) (reply pka pt : bytes) (k : N),
  read_ts_validate reply = Ok pka -> fst (gss_unwrapex hmac ctx pka) = Ok pt ->
  le_nat pt = le_nat pk + k -> k <> 1 ->
  final_round hmac create_ts_credentials create_ts_authinfo read_ts_validate st ra u pk ctx reply = (Err EPossibleMITM, []).
Proof. exact refuse_offset. Qed.
Print Assumptions C01_refuse_offset.

(* Unconditional: a proof computed for ANOTHER certificate's key pk' (relay / MITM), correctly sealed. *)
Theorem C01_refuse_other_certificate :
  forall (hmac : bytes -> bytes -> bytes) (create_ts_credentials : bytes -> bytes -> bytes -> bytes)
         (create_ts_authinfo : bytes -> bytes) (read_ts_validate : bytes -> outcome bytes)
         (st : ntlm) (ra u : bool) (pk pk' : bytes) (ctx : secif) (reply pka pt : bytes),
  read_ts_validate reply = Ok pka -> fst (gss_unwrapex hmac ctx pka) = Ok pt ->
  le_nat pt = le_nat pk' + 1 -> le_nat pk' <> le_nat pk ->
  final_round hmac create_ts_credentials create_ts_authinfo read_ts_validate st ra u pk ctx reply = (Err EPossibleMITM, []).
Proof. exact refuse_other_certificate. Qed.
Print Assumptions C01_refuse_other_certificate.

(* Unconditional: malformed encoding -- whatever error the TSRequest decoder reports is the result. *)
Theorem C01_refuse_malformed :
  forall (hmac : bytes -> bytes -> bytes) (create_ts_credentials : bytes -> bytes -> bytes -> bytes)
         (create_ts_authinfo : bytes -> bytes) (read_ts_validate : bytes -> outcome bytes)
         (st : ntlm) (ra u : bool) (pk : bytes) (ctx : secif) (reply : bytes) (e : err),
  read_ts_validate reply = Err e ->
  final_round hmac create_ts_credentials create_ts_authinfo read_ts_validate st ra u pk ctx reply = (Err e, []).
Proof. exact refuse_decode. Qed.
Print Assumptions C01_refuse_malformed.

(* Unconditional: a token truncated below the 16-byte signature. *)
Theorem C01_refuse_truncated :
  forall (hmac : bytes -> bytes -> bytes) (create_ts_credentials : bytes -> bytes -> bytes -> bytes)
         (create_ts_authinfo : bytes -> bytes) (read_ts_validate : bytes -> outcome bytes)
         (st : ntlm) (ra u : bool) (pk : bytes) (ctx : secif) (reply pka : bytes),
  read_ts_validate reply = Ok pka -> (List.length pka < 16)%nat ->
  final_round hmac create_ts_credentials create_ts_authinfo read_ts_validate st ra u pk ctx reply = (Err EIo, []) \/
  final_round hmac create_ts_credentials create_ts_authinfo read_ts_validate st ra u pk ctx reply = (Err EInvalidConst, []).
Proof. exact refuse_truncated. Qed.
Print Assumptions C01_refuse_truncated.

(* Unconditional: ANY change of the Version bytes of the token ... *)
Theorem C01_refuse_version :
  forall (hmac : bytes -> bytes -> bytes) (create_ts_credentials : bytes -> bytes -> bytes -> bytes)
         (create_ts_authinfo : bytes -> bytes) (read_ts_validate : bytes -> outcome bytes)
         (st : ntlm) (ra u : bool) (pk : bytes) (ctx : secif) (reply v rest : bytes),
  read_ts_validate reply = Ok (v ++ rest) -> List.length v = 4%nat -> v <> [1; 0; 0; 0] ->
  final_round hmac create_ts_credentials create_ts_authinfo read_ts_validate st ra u pk ctx reply = (Err EInvalidConst, []).
Proof. exact refuse_version. Qed.
Print Assumptions C01_refuse_version.

(* ... and ANY change of the Checksum bytes of a token that would have been accepted. *)
Theorem C01_refuse_checksum :
  forall (hmac : bytes -> bytes -> bytes) (create_ts_credentials : bytes -> bytes -> bytes -> bytes)
         (create_ts_authinfo : bytes -> bytes) (read_ts_validate : bytes -> outcome bytes),
  (forall k x, List.length (hmac k x) = 16%nat) ->
  forall (st : ntlm) (ra u : bool) (pk : bytes) (ctx : secif) (reply v cks cks' sq ct pt : bytes),
  List.length v = 4%nat -> List.length cks = 8%nat -> List.length cks' = 8%nat -> List.length sq = 4%nat ->
  fst (gss_unwrapex hmac ctx (v ++ cks ++ sq ++ ct)) = Ok pt -> cks' <> cks ->
  read_ts_validate reply = Ok (v ++ cks' ++ sq ++ ct) ->
  final_round hmac create_ts_credentials create_ts_authinfo read_ts_validate st ra u pk ctx reply = (Err EInvalidChecksum, []).
Proof. exact refuse_checksum. Qed.
Print Assumptions C01_refuse_checksum.

(* EXACT acceptance condition of the last round (covers SeqNum / ciphertext flips, wrong-key and reflected
   tokens): something is written iff Version is 1, the checksum decrypted with the continuing server-to-client
   keystream equals the first 8 bytes of HMAC(verify_key, SeqNum ++ plaintext), and plaintext = pk + 1. *)
Theorem C01_accept_iff :
  forall (hmac : bytes -> bytes -> bytes) (create_ts_credentials : bytes -> bytes -> bytes -> bytes)
         (create_ts_authinfo : bytes -> bytes) (read_ts_validate : bytes -> outcome bytes),
  (forall k x, List.length (hmac k x) = 16%nat) ->
  forall (st : ntlm) (ra u : bool) (pk : bytes) (ctx : secif) (reply v cks sq ct : bytes),
  read_ts_validate reply = Ok (v ++ cks ++ sq ++ ct) ->
  List.length v = 4%nat -> List.length cks = 8%nat -> List.length sq = 4%nat ->
  (snd (final_round hmac create_ts_credentials create_ts_authinfo read_ts_validate st ra u pk ctx reply) <> [] <->
   v = [1; 0; 0; 0] /\
   fst (rc4_process (snd (rc4_process (s_dec ctx) ct)) cks)
     = hmac8 hmac (s_verify ctx) (le32 (le32_val sq)) (fst (rc4_process (s_dec ctx) ct)) /\
   le_nat (fst (rc4_process (s_dec ctx) ct)) = le_nat pk + 1).
Proof. exact final_accept_iff. Qed.
Print Assumptions C01_accept_iff.

(* SeqNum / ciphertext alterations (length kept) of a token that would have been accepted: refused under the
   explicit premise that the 8-byte HMAC prefix of the two different signed strings does not collide. *)
Theorem C01_refuse_seq_ct :
  forall (hmac : bytes -> bytes -> bytes) (create_ts_credentials : bytes -> bytes -> bytes -> bytes)
         (create_ts_authinfo : bytes -> bytes) (read_ts_validate : bytes -> outcome bytes),
  (forall k x, List.length (hmac k x) = 16%nat) ->
  forall (st : ntlm) (ra u : bool) (pk : bytes) (ctx : secif) (reply v cks sq sq' ct ct' pt : bytes),
  List.length v = 4%nat -> List.length cks = 8%nat -> List.length sq = 4%nat -> List.length sq' = 4%nat ->
  Forall (fun b => b < 256) sq -> Forall (fun b => b < 256) sq' -> List.length ct' = List.length ct ->
  fst (gss_unwrapex hmac ctx (v ++ cks ++ sq ++ ct)) = Ok pt -> (sq', ct') <> (sq, ct) ->
  hmac8 hmac (s_verify ctx) sq' (fst (rc4_process (s_dec ctx) ct')) <> hmac8 hmac (s_verify ctx) sq pt ->
  read_ts_validate reply = Ok (v ++ cks ++ sq' ++ ct') ->
  final_round hmac create_ts_credentials create_ts_authinfo read_ts_validate st ra u pk ctx reply = (Err EInvalidChecksum, []).
Proof. exact refuse_seq_ct. Qed.
Print Assumptions C01_refuse_seq_ct.

(* REFLECTION: the server echoes the client's own round-2 token (sealed with the CLIENT-to-server handle and
   signing key).  It is decrypted with the SERVER-to-client handle and checked with the server's signing key:
   accepted iff the stated equation between quantities under different keys holds AND the decrypted garbage
   equals pk + 1 ... *)
Theorem C01_reflection_iff :
  forall (hmac : bytes -> bytes -> bytes) (create_ts_credentials : bytes -> bytes -> bytes -> bytes)
         (create_ts_authinfo : bytes -> bytes) (read_ts_validate : bytes -> outcome bytes),
  (forall k x, List.length (hmac k x) = 16%nat) ->
  forall (st : ntlm) (ra u : bool) (pk : bytes) (c0 : secif) (tok : bytes) (c1 : secif) (reply : bytes),
  gss_wrapex hmac c0 pk = Ok (tok, c1) -> read_ts_validate reply = Ok tok ->
  let ct := fst (rc4_process (s_enc c0) pk) in
  let cks := fst (rc4_process (snd (rc4_process (s_enc c0) pk)) (firstn 8 (hmac (s_sign c0) (le32 (s_seq c0) ++ pk)))) in
  let garbage := fst (rc4_process (s_dec c0) ct) in
  (snd (final_round hmac create_ts_credentials create_ts_authinfo read_ts_validate st ra u pk c1 reply) <> [] <->
   fst (rc4_process (snd (rc4_process (s_dec c0) ct)) cks) = hmac8 hmac (s_verify c0) (le32 (s_seq c0)) garbage /\
   le_nat garbage = le_nat pk + 1).
Proof. exact reflection_iff. Qed.
Print Assumptions C01_reflection_iff.

(* ... hence refused (error, nothing written) under the premise that the equation fails. *)
Theorem C01_reflection_rejected :
  forall (hmac : bytes -> bytes -> bytes) (create_ts_credentials : bytes -> bytes -> bytes -> bytes)
         (create_ts_authinfo : bytes -> bytes) (read_ts_validate : bytes -> outcome bytes),
  (forall k x, List.length (hmac k x) = 16%nat) ->
  forall (st : ntlm) (ra u : bool) (pk : bytes) (c0 : secif) (tok : bytes) (c1 : secif) (reply : bytes),
  gss_wrapex hmac c0 pk = Ok (tok, c1) -> read_ts_validate reply = Ok tok ->
  let ct := fst (rc4_process (s_enc c0) pk) in
  let cks := fst (rc4_process (snd (rc4_process (s_enc c0) pk)) (firstn 8 (hmac (s_sign c0) (le32 (s_seq c0) ++ pk)))) in
  fst (rc4_process (snd (rc4_process (s_dec c0) ct)) cks)
    <> hmac8 hmac (s_verify c0) (le32 (s_seq c0)) (fst (rc4_process (s_dec c0) ct)) ->
  exists e, final_round hmac create_ts_credentials create_ts_authinfo read_ts_validate st ra u pk c1 reply = (Err e, []).
Proof. exact reflection_rejected. Qed.
Print Assumptions C01_reflection_rejected.

(* Completeness: a conforming server (MS-NLMP sealing in the server-to-client direction, any sequence number)
   proving a value numerically equal to pk + 1 IS accepted and exactly one message follows. *)
Theorem C01_accepts_honest :
  forall (hmac : bytes -> bytes -> bytes) (create_ts_credentials : bytes -> bytes -> bytes -> bytes)
         (create_ts_authinfo : bytes -> bytes) (read_ts_validate : bytes -> outcome bytes),
  (forall k x, List.length (hmac k x) = 16%nat) ->
  forall (st : ntlm) (ra u : bool) (pk : bytes) (ctx : secif) (reply : bytes) (n : N) (value : bytes),
  read_ts_validate reply = Ok (fst (nlmp_wrap hmac (recv_dir ctx n) value)) ->
  le_nat value = le_nat pk + 1 ->
  exists m, final_round hmac create_ts_credentials create_ts_authinfo read_ts_validate st ra u pk ctx reply = (Ok tt, [m]).
Proof. exact final_accepts_honest. Qed.
Print Assumptions C01_accepts_honest.

(* Non-vacuity, concrete MD4/MD5/HMAC-MD5 and DER codecs (vm_compute), messages literally those of the python
   reference: the honest run reaches the third write; key+1 with trailing zeros is accepted; key+2, another
   key, the reflected token, a wrong session key, a silent server end in an error after exactly two messages;
   no certificate: one message. *)
Theorem C01_nonvacuous :
  ex_run (Ok ex_pubkey) [ex_reply2_ok] = (Ok tt, [ex_w1; ex_w2; ex_w3]) /\
  fst (ex_run (Ok ex_pubkey) [ex_reply2_zeros]) = Ok tt /\
  ex_run (Ok ex_pubkey) [ex_reply2_k2] = (Err EPossibleMITM, [ex_w1; ex_w2]) /\
  (let r := ex_run (Ok (ex_pubkey ++ [1])) [ex_reply2_ok] in fst r = Err EPossibleMITM /\ List.length (snd r) = 2%nat) /\
  ex_run (Ok ex_pubkey) [ex_reply2_reflected] = (Err EInvalidChecksum, [ex_w1; ex_w2]) /\
  ex_run (Ok ex_pubkey) [ex_reply2_wrongkey] = (Err EInvalidChecksum, [ex_w1; ex_w2]) /\
  ex_run (Ok ex_pubkey) [] = (Err EAsn1, [ex_w1; ex_w2]) /\
  ex_run (Err EInvalidData) [ex_reply2_ok] = (Err EInvalidData, [ex_w1]).
Proof. exact ex_gate. Qed.
Print Assumptions C01_nonvacuous.
