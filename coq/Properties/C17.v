(* C17 -- Secrets leave the client only where the chosen mode says they may.
   Statements only; every proof is `exact <lemma>` into C17_proofs.v / SecretsExampleRun.v.
   Model: Secrets.v = the configuration record of `Connector` (domain, user, password, optional NT hash, NLA,
   restricted admin, blank creds, auto logon, check_certificate, ...) threaded as Connector::connect threads it
   through the sequence model of Connect.v (C02's transport event trace), cssp_connect of CsspGate.v (C01), the NTLM
   model of Ntlm.v / NtlmSeal.v (C15 / C16) and the emitters of ClientPdus.v (C04).  [out x c e cs] is EVERY message the
   client writes, in order, as bytes, tagged raw / inside TLS and by kind, for every configuration c, every
   environment e (certificate key or the error obtaining it, the client's randomness, trust, HashMap order), every
   server byte stream cs and every choice x of the external functions (hashes, to_uppercase, yasna codecs, BER parser,
   TLS handshake, build profile) -- nothing is assumed of them.
   The literal "the password bytes occur nowhere else" cannot be a theorem about hash and cipher outputs: the
   theorems are non-interference, factorisation through NTOWFv2, and a complete classification of the written
   messages; the substring search is done by the correspondence run on real transcripts (gen/c17.py). *)
From RdpV Require Import Base Msg LayoutsGlobal LayoutsConnect Link Tpkt Global Rc4 Utf Ntlm NtlmSeal CsspGate.
From RdpV Require Connect ClientPdus StrictPdu.
From RdpV Require Import Secrets C17_proofs SecretsExec SecretsExample SecretsExampleRun.
Open Scope list_scope.
Open Scope N_scope.

(* What is written on the raw transport (before and outside TLS) is exactly one frame, the X.224 connection
   request, whose bytes are a function of two booleans of the configuration (NLA, restricted admin): replacing the
   password and / or the hash by any others changes nothing.  The NTLM NEGOTIATE message is a constant. *)
Theorem C17_raw_independent :
  forall x c e cs,
    raw_writes (out x c e cs) = [cr_frame (sc_offered c) (sc_neg_flag c)] /\
    (forall pw h, raw_writes (out x (set_secret c pw h) e cs) = raw_writes (out x c e cs)) /\
    (forall b, In b (tls_writes KNego (out x c e cs)) ->
               exists nego, create_negotiate_message (x_prof x) = Ok nego /\ b = x_crq x nego).
Proof. exact stmt_raw_independent. Qed.
Print Assumptions C17_raw_independent.

(* The second CredSSP message (AUTHENTICATE token and pubKeyAuth) is [auth_message] applied to the account name, to
   ResponseKeyNT and to things that are not secrets (randomness, certificate key, server bytes): the password enters
   only through NTOWFv2(password, user, domain) = HMAC(MD4(UTF-16 password), ..), the hash only through
   HMAC(hash, ..). *)
Theorem C17_auth_via_key_only :
  forall x c e cs,
    (forall b, In b (tls_writes KAuth (out x c e cs)) ->
               auth_message x (sc_domain c) (sc_user c) (response_key x c) e (cssp_input (x_tls x) cs) = Some b) /\
    (sc_hash c = None -> response_key x c = ntowfv2 (x_md4 x) (x_hmac x) (x_upper x) (sc_password c) (sc_user c) (sc_domain c)) /\
    (forall h, sc_hash c = Some h -> response_key x c = ntowfv2_hash (x_hmac x) (x_upper x) h (sc_user c) (sc_domain c)).
Proof. exact stmt_auth_via_key_only. Qed.
Print Assumptions C17_auth_via_key_only.

(* Password mode and hash mode send the same AUTHENTICATE message when the hash is MD4 of the UTF-16 password
   (whatever password field accompanies the hash). *)
Theorem C17_modes_coincide :
  forall x c e cs pw pw' b b',
    In b (tls_writes KAuth (out x (set_secret c pw None) e cs)) ->
    In b' (tls_writes KAuth (out x (set_secret c pw' (Some (x_md4 x (unicode pw)))) e cs)) ->
    b = b'.
Proof. exact stmt_modes_coincide. Qed.
Print Assumptions C17_modes_coincide.

(* WHERE the password is a field: (1) every message written inside TLS is preceded by a completed handshake
   (C02's trace theorem carried to the bytes); (2) a raw write is the connection request at the head of the output;
   (3) the third CredSSP message is TSRequest{authInfo = SEAL(TSCredentials{TSPasswordCreds(d, u, pw)})} with
   (d, u, pw) = sc_ts_creds: empty under restricted admin or blank creds, else domain, user and -- in password mode --
   the password, encoded as the CHALLENGE's UNICODE flag says (UTF-16LE / the String's bytes), handed to gss_wrapex;
   (4) the Client Info PDU strict-parses (C04's specification) to the credentials handed to sec::connect, sent by user id =
   initiator + 1001 (proved in 1001..65535) on the I/O channel of an INFO message written inside TLS in the sequence model's trace
   (C17_info_channel: the channel the server announced).
   [strings_ok]: the strings are Rust strings and the PDU fits one PER length determinant. *)
Theorem C17_where :
  forall x c e cs,
    (forall pre k b post, out x c e cs = pre ++ BTls k b :: post -> In (BTlsStart true) pre) /\
    (forall pre k b post, out x c e cs = pre ++ BRaw k b :: post -> pre = [] /\ k = KCr /\ b = cr_frame (sc_offered c) (sc_neg_flag c)) /\
    (forall b, In b (tls_writes KAuthInfo (out x c e cs)) ->
       exists chal, let '(d, u, pw) := sc_ts_creds c (challenge_is_unicode (x_prof x) chal) in sealed_creds x d u pw b) /\
    (forall b, strings_ok c -> In b (tls_writes KInfo (out x c e cs)) -> let '(d, u, pw) := sc_info_creds c in info_decodes (trace_of x c e cs) c d u pw b).
Proof. exact stmt_where. Qed.
Print Assumptions C17_where.

(* WHICH channel the Client Info travels on ([info_decodes tr ..] says: the PDU decodes to user id = initiator + 1001 and
   channel = io (as a 16-bit field carries it) of an INFO message written inside TLS in the sequence model's trace [tr]):
   when the run returns (user id, server data), that message carries exactly that user id and the I/O channel id of that
   server data, i.e. the MCSChannelId the server announced in its network data -- no longer the constant 1003. *)
Theorem C17_info_channel :
  forall x c e cs uid sd ini io len,
    result_of x c e cs = Ok (uid, sd) -> In (Connect.TlsWrite (Connect.INFO ini io len)) (trace_of x c e cs) ->
    ini + 1001 = uid /\ io = Connect.global_id sd.
Proof. exact stmt_info_channel. Qed.
Print Assumptions C17_info_channel.

(* ... and NOWHERE ELSE as a field: the remaining messages (connect-initial, erect-domain, attach-user, channel
   joins) are built from [public_cfg], the configuration with the three credential strings erased; there is no fourth
   CredSSP message and no message of another kind.  (NEGOTIATE: C17_raw_independent; AUTHENTICATE: C17_auth_via_key_only.) *)
Theorem C17_elsewhere_public :
  forall x c e cs b,
    (In b (tls_writes KCi (out x c e cs)) -> exists sel, ClientPdus.emit_connect_initial (x_prof x) (public_cfg c) sel = Ok b) /\
    (In b (tls_writes KEd (out x c e cs)) -> ClientPdus.emit_erect_domain = Ok b) /\
    (In b (tls_writes KAu (out x c e cs)) -> ClientPdus.emit_attach_user = Ok b) /\
    (In b (tls_writes KCj (out x c e cs)) -> exists uid ch, ClientPdus.emit_channel_join uid ch = Ok b) /\
    ~ In b (tls_writes KCsspExtra (out x c e cs)) /\ ~ In b (tls_writes KNone (out x c e cs)).
Proof. exact stmt_elsewhere. Qed.
Print Assumptions C17_elsewhere_public.

(* The negotiation request decoded by the strict parser: flag RESTRICTED_ADMIN_MODE_REQUIRED (1) exactly under
   restricted admin, 0 exactly otherwise; protocols SSL|HYBRID exactly with NLA, SSL alone otherwise. *)
Theorem C17_request_flag :
  forall c,
    StrictPdu.strict_parse (cr_frame (sc_offered c) (sc_neg_flag c)) = Some (StrictPdu.PConnectionRequest (sc_neg_flag c) (sc_offered c)) /\
    (sc_neg_flag c = 1 <-> sc_restricted c = true) /\ (sc_neg_flag c = 0 <-> sc_restricted c = false) /\
    (sc_offered c = 3 <-> sc_nla c = true) /\ (sc_offered c = 1 <-> sc_nla c = false).
Proof. exact stmt_request_flag. Qed.
Print Assumptions C17_request_flag.

(* Restricted admin: the request announces the mode, TSPasswordCreds = ("", "", ""), the Client Info carries empty
   domain, user and password -- whatever the credentials, the hash and the other options are. *)
Theorem C17_restricted :
  forall x c e cs,
    sc_restricted c = true ->
    raw_writes (out x c e cs) = [cr_frame (sc_offered c) 1] /\
    StrictPdu.strict_parse (cr_frame (sc_offered c) 1) = Some (StrictPdu.PConnectionRequest 1 (sc_offered c)) /\
    (forall b, In b (tls_writes KAuthInfo (out x c e cs)) -> sealed_creds x [] [] [] b) /\
    (forall b, In b (tls_writes KInfo (out x c e cs)) -> info_decodes (trace_of x c e cs) c [] [] [] b).
Proof. exact stmt_restricted. Qed.
Print Assumptions C17_restricted.

(* Blank creds without restricted admin: only the CredSSP structure is emptied; the Client Info is full and the
   request flag is 0. *)
Theorem C17_blank :
  forall x c e cs,
    sc_blank c = true -> sc_restricted c = false ->
    raw_writes (out x c e cs) = [cr_frame (sc_offered c) 0] /\
    StrictPdu.strict_parse (cr_frame (sc_offered c) 0) = Some (StrictPdu.PConnectionRequest 0 (sc_offered c)) /\
    (forall b, In b (tls_writes KAuthInfo (out x c e cs)) -> sealed_creds x [] [] [] b) /\
    (forall b, strings_ok c -> In b (tls_writes KInfo (out x c e cs)) -> info_decodes (trace_of x c e cs) c (sc_domain c) (sc_user c) (sc_password c) b).
Proof. exact stmt_blank. Qed.
Print Assumptions C17_blank.

(* Neither restricted nor blank, password mode: both places carry (domain, user, password); flag 0. *)
Theorem C17_default_mode :
  forall x c e cs,
    sc_restricted c = false -> sc_blank c = false -> sc_hash c = None ->
    raw_writes (out x c e cs) = [cr_frame (sc_offered c) 0] /\
    (forall b, In b (tls_writes KAuthInfo (out x c e cs)) ->
       exists u, sealed_creds x (encode_name u (sc_domain c)) (encode_name u (sc_user c)) (encode_name u (sc_password c)) b) /\
    (forall b, strings_ok c -> In b (tls_writes KInfo (out x c e cs)) -> info_decodes (trace_of x c e cs) c (sc_domain c) (sc_user c) (sc_password c) b).
Proof. exact stmt_default_mode. Qed.
Print Assumptions C17_default_mode.

(* Hash mode (neither restricted nor blank), as the code has it: the hash only keys the NTLM response; the
   TSPasswordCreds password is EMPTY (Ntlm::from_hash stores ""), domain and user are sent; the Client Info carries the
   Connector's `password` field as configured (empty unless the caller supplied one besides the hash). *)
Theorem C17_hash_mode :
  forall x c e cs h,
    sc_hash c = Some h -> sc_restricted c = false -> sc_blank c = false ->
    response_key x c = ntowfv2_hash (x_hmac x) (x_upper x) h (sc_user c) (sc_domain c) /\
    (forall b, In b (tls_writes KAuthInfo (out x c e cs)) ->
       exists u, sealed_creds x (encode_name u (sc_domain c)) (encode_name u (sc_user c)) [] b) /\
    (forall b, strings_ok c -> In b (tls_writes KInfo (out x c e cs)) -> info_decodes (trace_of x c e cs) c (sc_domain c) (sc_user c) (sc_password c) b).
Proof. exact stmt_hash_mode. Qed.
Print Assumptions C17_hash_mode.

(* The INFO_AUTOLOGON bit of the decoded Client Info flags is set exactly when auto_logon was requested. *)
Theorem C17_autologon :
  forall x c e cs b,
    strings_ok c -> In b (tls_writes KInfo (out x c e cs)) ->
    exists uid ch i, StrictPdu.strict_parse b = Some (StrictPdu.PClientInfo uid ch i) /\
                     (N.land (StrictPdu.n_flags i) ClientPdus.INFO_AUTOLOGON =? ClientPdus.INFO_AUTOLOGON) = sc_autologon c.
Proof. exact stmt_autologon. Qed.
Print Assumptions C17_autologon.

(* Sanity of the model (not part of the property): the CredSSP messages of the sequence model's trace and the message
   list of cssp_connect agree -- every such event is rendered with one of those messages, none is missing. *)
Theorem C17_rendering_consistent :
  forall x c e cs r,
    In r (rendered (x_md4 x) (x_md5 x) (x_hmac x) (x_upper x) (x_prof x) (x_crq x) (x_cau x) (x_ccr x) (x_cai x)
                   (x_rsc x) (x_rv x) (x_ber x) (x_tls x) c e cs) ->
    (r_ev r = Connect.RawWrite Connect.CSSP \/ r_ev r = Connect.TlsWrite Connect.CSSP) -> exists b, r_bytes r = Ok b.
Proof. exact stmt_rendering_consistent. Qed.
Print Assumptions C17_rendering_consistent.

(* Non-vacuity, with the concrete hashes and codecs: two complete NLA connections against the scripted server of the
   harness.  (1) default mode + auto-logon, domain U+57DF, user "Usér", password with U+1F600: the model's output IS the
   byte transcript of the real implementation (one raw frame with flag 0, handshake, NEGOTIATE, AUTHENTICATE, authInfo,
   MCS PDUs, Client Info), the hypotheses hold, and the Client Info decodes to the three strings; (2) restricted admin
   with an NT hash against a server announcing I/O channel 1007: flag 1, the Client Info decodes to three empty strings and travels on channel 1007. *)
Theorem C17_nonvacuous :
  (out (ex_x ex1_upper Debug ex1_post) ex1_cfg ex1_env (ex1_cc :: ex1_post) = ex1_events /\
   strings_ok ex1_cfg /\
   sc_restricted ex1_cfg = false /\ sc_blank ex1_cfg = false /\ sc_hash ex1_cfg = None /\ sc_autologon ex1_cfg = true /\
   raw_writes ex1_events = [cr_frame 3 0] /\
   List.length (tls_writes KNego ex1_events) = 1%nat /\ List.length (tls_writes KAuth ex1_events) = 1%nat /\
   List.length (tls_writes KAuthInfo ex1_events) = 1%nat /\
   tls_writes KInfo ex1_events = [ex1_info_frame] /\
   info_decodes (trace_of (ex_x ex1_upper Debug ex1_post) ex1_cfg ex1_env (ex1_cc :: ex1_post)) ex1_cfg
               [22495] [85; 115; 233; 114] [112; 228; 128512; 119; 48; 114; 100] ex1_info_frame) /\
  (out (ex_x ex2_upper Release ex2_post) ex2_cfg ex2_env (ex2_cc :: ex2_post) = ex2_events /\
   strings_ok ex2_cfg /\
   sc_restricted ex2_cfg = true /\ (exists h, sc_hash ex2_cfg = Some h) /\
   raw_writes ex2_events = [cr_frame 3 1] /\
   List.length (tls_writes KAuthInfo ex2_events) = 1%nat /\
   tls_writes KInfo ex2_events = [ex2_info_frame] /\
   info_decodes (trace_of (ex_x ex2_upper Release ex2_post) ex2_cfg ex2_env (ex2_cc :: ex2_post)) ex2_cfg [] [] [] ex2_info_frame /\
   (exists sd, result_of (ex_x ex2_upper Release ex2_post) ex2_cfg ex2_env (ex2_cc :: ex2_post) = Ok (1004, sd) /\ Connect.global_id sd = 1007) /\
   (exists i, StrictPdu.strict_parse ex2_info_frame = Some (StrictPdu.PClientInfo 1004 1007 i))).
Proof. exact ex_nonvacuous. Qed.
Print Assumptions C17_nonvacuous.
