(* C03 -- The connection sequence conforms end to end, for every conforming server and configuration.
   Statements only; every proof is `exact <lemma>` into C03_proofs.v / C03_nla_proofs.v / C03_nla_run.v / C03_nla_exec.v /
   C03_examples.v.

   Model  : Flow.v  = Connector::connect (Connect.v) + the RdpClient::read loop (Global.v) + shutdown over ONE
            chunked stream, producing the byte-level transport trace (units written in clear / inside TLS);
            FlowNla.v = the same with the CredSSP oracle instantiated by the model of cssp_connect (CsspGate.v)
            on the NTLM state Connector::connect builds (password or hash mode, restricted admin || blank creds).
   Spec   : RefSequence.v = the conforming server as a parameterised reference encoder ([server], [replies]),
            the mandated conversation of MS-RDPBCGR 1.3.1.1 ([conversation], [expected_kinds],
            [sent_before_reply]); client units are observed through C04's strict parsers ([frame_kind]).
            RefCredssp.v = the reference CredSSP / NTLM SERVER (MS-CSSP 3.1.5 over MS-NLMP 3.2.5 / 3.4: RefNlmp.v,
            RefNlmpSeal.v, DER of Der.v): [cssp_reply1], [cssp_reply2], [cssp_serve].
   [holds cs b] : the stream [cs] delivers exactly the bytes [b], cut into non-empty reads in ANY way.
   External code is universally quantified: the BER parser ([ber_ok]: it returns the user data of THIS server's
   connect-response), the TLS handshake ([tls_start [] = Ok post]: it succeeds once everything sent in clear is
   consumed, [post] = the server's records), and for NLA the hash functions (any md4 / md5 / hmac with 16-byte
   digests; RC4 is the concrete Rc4.v), String::to_uppercase (shared by client and server) and the TSRequest
   codecs ([codec_ok]: the writers produce the DER of the MS-CSSP shapes -- the encoding of C18's TLV model -- on
   arguments of up to 2^32 bytes, and the readers return the token of a reply that arrives whole).  For the
   EXECUTABLE instance -- the program the correspondence extracts and compares with the real crate -- nothing of
   this is left as a hypothesis: the concrete MD5 / HMAC-MD5, the DER writers of CsspGateExec.v and the yasna model of
   DerRead.v are PROVED to satisfy it ([C03_codec_executable], the `_executable` theorems). *)
From RdpV Require Import Base Msg Link Tpkt Global BerYasna Connect ConnectRun ClientPdus Flow FlowRun FlowNla StrictPdu RefSequence.
From RdpV Require Import Rc4 Md5 Md4 Hmac Utf Ntlm NtlmSeal RefNlmp RefNlmpSeal Der DerRead CsspGate CsspGateExec RefCredssp.
From RdpV Require Import FlowNlaRun C13_proofs C15_proofs C03_base C03_proofs C03_der_exec C03_nla_proofs C03_nla_run C03_nla_exec C03_examples.
Open Scope list_scope.
Open Scope N_scope.

(* SEQUENCE (TLS, SSL selected).  For every build profile, every configuration the Connector can hold (strings
   from all of Unicode within the PER length bound, any screen, layout, modes), EVERY conforming server (any user
   id 1001..65535, any I/O channel id, any version, optional core fields present or absent, valid-client alert with
   any preamble flags / new-licence with any body, any number of activations each with any share id, source
   descriptor and capability sets known or unknown) and EVERY fragmentation of its byte stream: the run ends Ok
   after the shutdown, and the units written are the connection request in clear, the TLS handshake, then frames
   which the strict parser decodes to exactly the mandated sequence with the identifiers the server assigned. *)
Theorem C03_sequence :
  forall p ber_parse trusted tls_start cssp_run cssp_msgs (c : fcfg) (srv : server) (cs post : stream),
    valid_fcfg c -> conforming (c_offered (f_pdu c)) srv -> sv_selected srv = SEL_SSL ->
    ber_ok ber_parse srv -> (f_check_cert c = true -> trusted = true) ->
    holds cs (ref_confirm srv) -> tls_start [] = Ok post ->
    holds post (List.concat (List.tl (replies srv (f_user_first c)))) ->
    let r := flow p ber_parse trusted tls_start cssp_run cssp_msgs c (nreads_of srv) cs in
    fl_res r = Ok tt /\ fl_stage r = StShutdown /\
    exists cr frames, fl_trace r = FRaw cr :: FTlsStart true :: map FTls frames /\
      map frame_kind (cr :: frames) = map Some (expected_kinds srv (f_user_first c)).
Proof. exact sequence_ssl. Qed.
Print Assumptions C03_sequence.

(* THE CREDSSP EXCHANGE against the reference server.  For all hash functions with 16-byte digests, any uppercase
   mapping, any codecs satisfying [codec_ok], any NTLM state whose keys are those of the server's account
   ([keys_match]: Ntlm::new on the password whose NT hash the server holds, or Ntlm::from_hash on that hash), any
   conforming CredSSP server (ANY server challenge, ANY flags with key exchange, ANY target info -- any AV pairs in any
   order -- with one timestamp, ANY public key bytes), any client randomness of 8 + 16 bytes, restricted admin or not:
   on the stream that hands over the server's two replies, one read each, cssp_connect returns Ok after exactly three
   messages, and the reference server -- fed these three messages -- accepts each of them: it answers with exactly
   those two replies, recovers the client's exported session key, and unseals the TSPasswordCreds the mode prescribes
   ([ts_creds]: three empty strings when `restricted`, else domain / user / password in the negotiated character set). *)
Theorem C03_credssp_reference_accepted :
  forall (md5 : bytes -> bytes) (hmac : bytes -> bytes -> bytes) (uppercase : list N -> list N) (p : prof)
         (create_ts_request : bytes -> bytes) (create_ts_authenticate : bytes -> bytes -> bytes)
         (create_ts_credentials : bytes -> bytes -> bytes -> bytes) (create_ts_authinfo : bytes -> bytes)
         (read_ts_server_challenge read_ts_validate : bytes -> outcome bytes),
  (forall x, List.length (md5 x) = 16%nat) -> (forall k x, List.length (hmac k x) = 16%nat) ->
  codec_ok create_ts_request create_ts_authenticate create_ts_credentials create_ts_authinfo
           read_ts_server_challenge read_ts_validate ->
  forall (st : ntlm) (restricted : bool) (srv : cssp_server) (nonce key : bytes) (rest : stream),
  keys_match hmac uppercase st (cs_account srv) -> cssp_conforming srv -> auth_fits st (cs_challenge srv) ->
  List.length nonce = 8%nat -> List.length key = 16%nat ->
  one_read (cssp_reply1 srv) -> one_read (cssp_reply2 md5 hmac srv key) ->
  exists w1 w2 w3,
    cssp_connect md5 hmac p create_ts_request create_ts_authenticate create_ts_credentials create_ts_authinfo
                 read_ts_server_challenge read_ts_validate st restricted (Ok (cs_pubkey srv))
                 (cssp_reply1 srv :: cssp_reply2 md5 hmac srv key :: rest) nonce key = (Ok tt, [w1; w2; w3]) /\
    cssp_serve md5 hmac uppercase srv CsStart [w1; w2; w3] =
      ([cssp_reply1 srv; cssp_reply2 md5 hmac srv key],
       cs_done key (ts_creds st restricted (N.land (c_flags (cs_challenge srv)) 1 =? 1))).
Proof. exact credssp_exchange. Qed.
Print Assumptions C03_credssp_reference_accepted.

(* SEQUENCE with NLA (HYBRID selected) -- FULL: no hypothesis on the outcome of the CredSSP exchange.  For every
   configuration with NLA ([nla_params]: password or hash mode, blank credentials; restricted admin is in [fcfg]),
   every conforming RDP server and every conforming CredSSP server holding the configured account and presenting the
   public key of this TLS session ([nla_ok]; its replies delivered ONE READ EACH, at most 1500 bytes: [nla_stream] --
   a reply split across reads is the known finding below), every client randomness, every fragmentation of everything
   after CredSSP: the run ends Ok after the shutdown; the units written are the connection request in clear, the
   handshake, the three CredSSP messages, then frames decoding to exactly the mandated sequence; and the reference
   CredSSP server accepts the three messages (replies = the ones delivered, session key recovered, credentials per
   mode: [C03_nla_credentials]). *)
Theorem C03_sequence_nla :
  forall (md4 md5 : bytes -> bytes) (hmac : bytes -> bytes -> bytes) (uppercase : list N -> list N) (p : prof)
         (create_ts_request : bytes -> bytes) (create_ts_authenticate : bytes -> bytes -> bytes)
         (create_ts_credentials : bytes -> bytes -> bytes -> bytes) (create_ts_authinfo : bytes -> bytes)
         (read_ts_server_challenge read_ts_validate : bytes -> outcome bytes),
  (forall x, List.length (md5 x) = 16%nat) -> (forall k x, List.length (hmac k x) = 16%nat) ->
  codec_ok create_ts_request create_ts_authenticate create_ts_credentials create_ts_authinfo
           read_ts_server_challenge read_ts_validate ->
  forall ber_parse trusted tls_start (c : fcfg) (n : nla_params) (srv : server) (csrv : cssp_server) (cs post' : stream),
    valid_fcfg c -> conforming (c_offered (f_pdu c)) srv -> sv_selected srv = SEL_HYBRID ->
    ber_ok ber_parse srv -> (f_check_cert c = true -> trusted = true) ->
    nla_ok md4 md5 hmac c n csrv ->
    holds cs (ref_confirm srv) -> tls_start [] = Ok (nla_stream md5 hmac csrv n post') ->
    holds post' (List.concat (List.tl (replies srv (f_user_first c)))) ->
    let r := flow_nla md4 md5 hmac uppercase p create_ts_request create_ts_authenticate create_ts_credentials
                      create_ts_authinfo read_ts_server_challenge read_ts_validate
                      ber_parse trusted tls_start c n (nreads_of srv) cs (nla_stream md5 hmac csrv n post') in
    fl_res r = Ok tt /\ fl_stage r = StShutdown /\
    exists w1 w2 w3 cr frames,
      fl_trace r = FRaw cr :: FTlsStart true :: FTls w1 :: FTls w2 :: FTls w3 :: map FTls frames /\
      map frame_kind (cr :: frames) = map Some (expected_kinds srv (f_user_first c)) /\
      cssp_serve md5 hmac uppercase csrv CsStart [w1; w2; w3] =
        ([cssp_reply1 csrv; cssp_reply2 md5 hmac csrv (nl_key n)],
         cs_done (nl_key n) (nla_creds md4 hmac uppercase c n csrv)).
Proof. exact sequence_nla_full. Qed.
Print Assumptions C03_sequence_nla.

(* what the reference server receives in the third message, per mode: nothing under restricted admin or blank
   credentials; otherwise domain and user in the character set of the CHALLENGE and the password -- EMPTY in hash mode
   (Ntlm::from_hash keeps no password; the hash only keys the response: C17_hash_mode) *)
Theorem C03_nla_credentials :
  forall md4 hmac uppercase (c : fcfg) (n : nla_params) (cs : cssp_server),
    nla_creds md4 hmac uppercase c n cs =
    let k := f_pdu c in
    let u := N.land (c_flags (cs_challenge cs)) 1 =? 1 in
    if c_ram k || nl_blank n then ([], [], [])
    else (encode_name u (c_domain k), encode_name u (c_user k),
          match nl_hash n with Some _ => [] | None => encode_name u (c_password k) end).
Proof. exact nla_creds_modes. Qed.
Print Assumptions C03_nla_credentials.

(* CAUSALITY.  The server stops after the confirm and k of its replies inside TLS (any k, anywhere in the
   connection or in any activation round): the client has written exactly the messages that precede reply k+1 in
   the conversation -- nothing that depends on a reply it has not received -- and then meets the end of the stream. *)
Theorem C03_causality :
  forall p ber_parse trusted tls_start cssp_run cssp_msgs (c : fcfg) (srv : server) (cs post : stream) (k : nat),
    valid_fcfg c -> conforming (c_offered (f_pdu c)) srv -> sv_selected srv = SEL_SSL ->
    ber_ok ber_parse srv -> (f_check_cert c = true -> trusted = true) ->
    holds cs (ref_confirm srv) -> tls_start [] = Ok post ->
    (k < List.length (List.tl (replies srv (f_user_first c))))%nat ->
    holds post (List.concat (firstn k (List.tl (replies srv (f_user_first c))))) ->
    let r := flow p ber_parse trusted tls_start cssp_run cssp_msgs c (nreads_of srv) cs in
    fl_res r = Err EIo /\
    exists cr frames, fl_trace r = FRaw cr :: FTlsStart true :: map FTls frames /\
      map frame_kind (cr :: frames) = map Some (sent_before_reply srv (f_user_first c) (S k)).
Proof. exact causality_ssl. Qed.
Print Assumptions C03_causality.

(* CAUSALITY with NLA -- FULL.  After the complete CredSSP exchange the server stops after k further replies ... *)
Theorem C03_causality_nla :
  forall (md4 md5 : bytes -> bytes) (hmac : bytes -> bytes -> bytes) (uppercase : list N -> list N) (p : prof)
         (create_ts_request : bytes -> bytes) (create_ts_authenticate : bytes -> bytes -> bytes)
         (create_ts_credentials : bytes -> bytes -> bytes -> bytes) (create_ts_authinfo : bytes -> bytes)
         (read_ts_server_challenge read_ts_validate : bytes -> outcome bytes),
  (forall x, List.length (md5 x) = 16%nat) -> (forall k x, List.length (hmac k x) = 16%nat) ->
  codec_ok create_ts_request create_ts_authenticate create_ts_credentials create_ts_authinfo
           read_ts_server_challenge read_ts_validate ->
  forall ber_parse trusted tls_start (c : fcfg) (n : nla_params) (srv : server) (csrv : cssp_server) (cs post' : stream) (k : nat),
    valid_fcfg c -> conforming (c_offered (f_pdu c)) srv -> sv_selected srv = SEL_HYBRID ->
    ber_ok ber_parse srv -> (f_check_cert c = true -> trusted = true) ->
    nla_ok md4 md5 hmac c n csrv ->
    holds cs (ref_confirm srv) -> tls_start [] = Ok (nla_stream md5 hmac csrv n post') ->
    (k < List.length (List.tl (replies srv (f_user_first c))))%nat ->
    holds post' (List.concat (firstn k (List.tl (replies srv (f_user_first c))))) ->
    let r := flow_nla md4 md5 hmac uppercase p create_ts_request create_ts_authenticate create_ts_credentials
                      create_ts_authinfo read_ts_server_challenge read_ts_validate
                      ber_parse trusted tls_start c n (nreads_of srv) cs (nla_stream md5 hmac csrv n post') in
    fl_res r = Err EIo /\
    exists w1 w2 w3 cr frames,
      fl_trace r = FRaw cr :: FTlsStart true :: FTls w1 :: FTls w2 :: FTls w3 :: map FTls frames /\
      map frame_kind (cr :: frames) = map Some (sent_before_reply srv (f_user_first c) (S k)) /\
      cssp_serve md5 hmac uppercase csrv CsStart [w1; w2; w3] =
        ([cssp_reply1 csrv; cssp_reply2 md5 hmac csrv (nl_key n)],
         cs_done (nl_key n) (nla_creds md4 hmac uppercase c n csrv)).
Proof. exact causality_nla_full. Qed.
Print Assumptions C03_causality_nla.

(* ... and INSIDE the CredSSP exchange: the server stops right after the handshake (j = 0) or after its first CredSSP
   reply (j = 1).  The attempt fails in connect and the client has written exactly the first j + 1 of the three
   messages of the complete exchange (the TSRequest with the credentials is never written without the key proof: C01).
   Extra premise on the external readers: they do not return a token for the empty input (end of stream). *)
Theorem C03_causality_nla_credssp :
  forall (md4 md5 : bytes -> bytes) (hmac : bytes -> bytes -> bytes) (uppercase : list N -> list N) (p : prof)
         (create_ts_request : bytes -> bytes) (create_ts_authenticate : bytes -> bytes -> bytes)
         (create_ts_credentials : bytes -> bytes -> bytes -> bytes) (create_ts_authinfo : bytes -> bytes)
         (read_ts_server_challenge read_ts_validate : bytes -> outcome bytes),
  (forall x, List.length (md5 x) = 16%nat) -> (forall k x, List.length (hmac k x) = 16%nat) ->
  codec_ok create_ts_request create_ts_authenticate create_ts_credentials create_ts_authinfo
           read_ts_server_challenge read_ts_validate ->
  forall ber_parse trusted tls_start (c : fcfg) (n : nla_params) (srv : server) (csrv : cssp_server) (cs : stream) (j : nat),
    valid_fcfg c -> conforming (c_offered (f_pdu c)) srv -> sv_selected srv = SEL_HYBRID ->
    (f_check_cert c = true -> trusted = true) ->
    nla_ok md4 md5 hmac c n csrv ->
    not_ok (read_ts_server_challenge []) -> not_ok (read_ts_validate []) ->
    holds cs (ref_confirm srv) -> (j < 2)%nat ->
    tls_start [] = Ok (firstn j (nla_stream md5 hmac csrv n [])) ->
    let r := flow_nla md4 md5 hmac uppercase p create_ts_request create_ts_authenticate create_ts_credentials
                      create_ts_authinfo read_ts_server_challenge read_ts_validate
                      ber_parse trusted tls_start c n (nreads_of srv) cs (firstn j (nla_stream md5 hmac csrv n [])) in
    fl_res r <> Ok tt /\ fl_stage r = StConnect /\
    exists w1 w2 w3 cr,
      fl_trace r = FRaw cr :: FTlsStart true :: map FTls (firstn (S j) [w1; w2; w3]) /\
      frame_kind cr = Some KRequest /\
      cssp_serve md5 hmac uppercase csrv CsStart [w1; w2; w3] =
        ([cssp_reply1 csrv; cssp_reply2 md5 hmac csrv (nl_key n)],
         cs_done (nl_key n) (nla_creds md4 hmac uppercase c n csrv)).
Proof. exact causality_nla_cssp. Qed.
Print Assumptions C03_causality_nla_credssp.

(* ... and a server that does not answer at all has received the connection request and nothing else. *)
Theorem C03_causality_first :
  forall p ber_parse trusted tls_start cssp_run cssp_msgs (c : fcfg) (srv : server) (n : nat),
    valid_fcfg c ->
    let r := flow p ber_parse trusted tls_start cssp_run cssp_msgs c n [] in
    fl_res r = Err EIo /\
    exists cr, fl_trace r = [FRaw cr] /\ map frame_kind [cr] = map Some (sent_before_reply srv (f_user_first c) 0).
Proof. exact causality_first. Qed.
Print Assumptions C03_causality_first.

(* THE MANDATED SEQUENCE, in one line (readable form of RefSequence.expected_kinds): request, connect-initial,
   erect-domain, attach-user, the two joins (user channel and I/O channel, in the client's order), client info, then
   per demand-active of the server -- in the order of its rounds -- confirm-active, synchronize, control-cooperate,
   control-request-control, font-list, and the disconnect ultimatum when the application closes. *)
Theorem C03_mandated_order :
  forall srv uf,
    expected_kinds srv uf =
      [KRequest; KConnectInitial; KErectDomain; KAttachUser;
       KJoin (sv_uid srv) (nth 0 (joins srv uf) 0); KJoin (sv_uid srv) (nth 1 (joins srv uf) 0);
       KInfo (sv_uid srv) (sv_io srv)]
      ++ flat_map (finalization srv) (sv_rounds srv) ++ [KDisconnect].
Proof. exact expected_form. Qed.
Print Assumptions C03_mandated_order.

(* IDENTIFIERS.  What the mandated sequence carries, for every server and any number of rounds: the assigned user
   id as MCS initiator and PDU source of every message after the attach, the announced I/O channel id (the user
   channel in its own join) as channel, in confirm-active and the finalization PDUs a share id of one of the
   server's demand-actives, the server's channel id 1002 as target of the synchronize; one confirm-active per
   demand-active, in order. *)
Theorem C03_identifiers :
  forall srv uf,
    Forall (carries srv) (expected_kinds srv uf) /\
    filter (fun k => match k with KConfirm _ _ _ _ => true | _ => false end) (expected_kinds srv uf)
    = map (fun r => KConfirm (sv_uid srv) (sv_io srv) (sv_uid srv) (r_share r)) (sv_rounds srv).
Proof. exact (fun srv uf => conj (expected_carry srv uf) (expected_per_round srv uf)). Qed.
Print Assumptions C03_identifiers.

(* SHUTDOWN.  For ANY server (conforming or not), any stream and any answer of the external code: a run that ends
   well ended with RdpClient::shutdown, and the last unit written is the two-byte disconnect-provider ultimatum
   (reason user-requested) in one TPKT frame. *)
Theorem C03_shutdown :
  forall p ber_parse trusted tls_start cssp_run cssp_msgs c n cs,
    let r := flow p ber_parse trusted tls_start cssp_run cssp_msgs c n cs in
    fl_res r = Ok tt ->
    fl_stage r = StShutdown /\
    exists pre f, fl_trace r = pre ++ [f] /\
      (f = FTls [3; 0; 0; 9; 2; 240; 128; 33; 128] \/ f = FRaw [3; 0; 0; 9; 2; 240; 128; 33; 128]) /\
      strict_parse [3; 0; 0; 9; 2; 240; 128; 33; 128] = Some (PDisconnect 3).
Proof. exact flow_shutdown. Qed.
Print Assumptions C03_shutdown.

(* NON-VACUITY.  A concrete server with every parameter away from its usual value (user id 1007, I/O channel 1005,
   licence preamble 0x83, licence security flags 0x0280, two activations with share ids 0x000103EA and 0xFFFFFFFF,
   known and unknown capability sets) and a configuration with non-BMP strings satisfy the hypotheses; the
   EXECUTABLE instance of the model (yasna model as BER parser) runs to Ok on the 7-byte-chunked stream and its 18
   frames decode to the mandated sequence; cut before the 9th reply it ends in the third read with exactly the
   prefix.  NLA: the executable CsspGate model runs the reference CredSSP exchange (three messages, Ok, the stream
   after the two replies), and the run's frames are the mandated sequence around the three reference CredSSP messages
   (the hypotheses of the NLA theorems: [C03_nla_nonvacuous]). *)
Theorem C03_nonvacuous :
  (valid_fcfg ex_cfg /\ conforming (c_offered (f_pdu ex_cfg)) ex_srv /\ sv_selected ex_srv = SEL_SSL /\
   ber_ok (ber_connect_response Debug) ex_srv /\
   holds (chunked 5 (ref_confirm ex_srv)) (ref_confirm ex_srv) /\
   holds (chunked 7 (List.concat (List.tl (replies ex_srv true)))) (List.concat (List.tl (replies ex_srv true)))) /\
  (fl_res ex_run = Ok tt /\ fl_stage ex_run = StShutdown /\
   unit_kinds ex_run = map Some (expected_kinds ex_srv true) /\ List.length (expected_kinds ex_srv true) = 18%nat) /\
  (fl_res ex_run_cut = Err EIo /\ fl_stage ex_run_cut = StRead 2 /\
   unit_kinds ex_run_cut = map Some (sent_before_reply ex_srv true 8)) /\
  (valid_fcfg nla_cfg /\ conforming (c_offered (f_pdu nla_cfg)) nla_srv /\ sv_selected nla_srv = SEL_HYBRID /\
   cssp_run_exec Debug nla_env (nla_post [C01_proofs.ex_reply1])
     = (3%nat, Ok (chunked 50 (List.concat (List.tl (replies nla_srv false))))) /\
   fl_res nla_run = Ok tt /\
   map frame_kind (hd [] (funits (fl_trace nla_run)) :: skipn 4 (funits (fl_trace nla_run))) = map Some (expected_kinds nla_srv false)).
Proof.
  exact (conj (conj ex_cfg_valid (conj ex_srv_conforming (conj eq_refl (conj (proj1 ex_ber) (conj (proj1 ex_streams) (proj1 (proj2 ex_streams)))))))
        (conj ex_run_ok (conj ex_run_cut_ok
        (conj nla_cfg_valid (conj nla_srv_conforming (conj eq_refl (conj (proj1 nla_oracle) (conj (proj1 nla_run_ok) (proj2 (proj2 nla_run_ok)))))))))).
Qed.
Print Assumptions C03_nonvacuous.

(* NON-VACUITY of the NLA theorems.  (1) Their hypotheses are jointly satisfiable: the example configuration and
   servers, the concrete MD4 / MD5 / HMAC-MD5 (16-byte digests), and as codecs the DER codec of C18's TLV model itself
   ([codec_ok_der]).  (2) The reference CredSSP server's two replies are, byte for byte, the replies of the python
   reference (gen/credssp.py) that C01's example uses, and the stream of the executable run IS [nla_stream].  (3) The
   EXECUTABLE instance (FlowRun.v: concrete hashes, DER writers of CsspGateExec.v, the yasna model DerRead.v) is the
   generic model [flow_nla] at these functions; it runs to Ok with the three reference client messages in place.
   (4) The reference server accepts these three messages, recovers the session key and receives domain / user /
   password in UTF-16; in hash mode it receives an empty password, with blank credentials three empty strings.
   (5) It does not accept just anything: a flipped bit in the sealed key or in the sealed credentials, another NT hash,
   another certificate key (relay), a repeated or an out-of-order message each end in CsRefused. *)
Theorem C03_nla_nonvacuous :
  (valid_fcfg nla_cfg /\ conforming (c_offered (f_pdu nla_cfg)) nla_srv /\ sv_selected nla_srv = SEL_HYBRID /\
   ber_ok (ber_connect_response Debug) nla_srv /\
   nla_ok md4 md5 hmac_md5 nla_cfg nla_par nla_csrv /\
   (forall x, List.length (md5 x) = 16%nat) /\ (forall k x, List.length (hmac_md5 k x) = 16%nat) /\
   codec_ok (fun n => der_encode (ts_request n)) (fun t k => der_encode (ts_authenticate t k))
            (fun d u pw => der_encode (ts_credentials d u pw)) (fun i => der_encode (ts_authinfo i))
            der_read_challenge der_read_validate /\
   holds (chunked 50 (List.concat (List.tl (replies nla_srv false)))) (List.concat (List.tl (replies nla_srv false)))) /\
  (cssp_reply1 nla_csrv = C01_proofs.ex_reply1 /\
   cssp_reply2 md5 hmac_md5 nla_csrv C15_proofs.ex_key = C01_proofs.ex_reply2_ok /\
   nla_post [C01_proofs.ex_reply1]
     = nla_stream md5 hmac_md5 nla_csrv nla_par (chunked 50 (List.concat (List.tl (replies nla_srv false))))) /\
  (flow_nla md4 md5 hmac_md5 C15_proofs.ascii_upper Debug x_create_ts_request x_create_ts_authenticate x_create_ts_credentials
            x_create_ts_authinfo (x_read_ts_server_challenge Debug) (x_read_ts_validate Debug)
            (ber_connect_response Debug) true (tls_after (nla_post [C01_proofs.ex_reply1]))
            nla_cfg nla_par 5 [ref_confirm nla_srv] (nla_post [C01_proofs.ex_reply1]) = nla_run /\
   fl_res nla_run = Ok tt /\
   funits (fl_trace nla_run) =
     (hd [] (funits (fl_trace nla_run))) :: [C01_proofs.ex_w1; C01_proofs.ex_w2; C01_proofs.ex_w3] ++ skipn 4 (funits (fl_trace nla_run))) /\
  cssp_serve md5 hmac_md5 C15_proofs.ascii_upper nla_csrv CsStart [C01_proofs.ex_w1; C01_proofs.ex_w2; C01_proofs.ex_w3]
    = ([C01_proofs.ex_reply1; C01_proofs.ex_reply2_ok],
       CsDone C15_proofs.ex_key (utf16le C15_proofs.ex_dom) (utf16le C15_proofs.ex_user) (utf16le C15_proofs.ex_pw)) /\
  (nla_cssp_ex nla_par = (Ok tt, [C01_proofs.ex_w1; C01_proofs.ex_w2; C01_proofs.ex_w3]) /\
   (fst (nla_cssp_ex nla_par_hash) = Ok tt /\
    snd (cssp_serve md5 hmac_md5 C15_proofs.ascii_upper nla_csrv CsStart (snd (nla_cssp_ex nla_par_hash)))
    = CsDone C15_proofs.ex_key (utf16le C15_proofs.ex_dom) (utf16le C15_proofs.ex_user) []) /\
   (fst (nla_cssp_ex nla_par_blank) = Ok tt /\
    snd (cssp_serve md5 hmac_md5 C15_proofs.ascii_upper nla_csrv CsStart (snd (nla_cssp_ex nla_par_blank)))
    = CsDone C15_proofs.ex_key [] [] [])) /\
  (let serve := cssp_serve md5 hmac_md5 C15_proofs.ascii_upper in
   let w1 := C01_proofs.ex_w1 in let w2 := C01_proofs.ex_w2 in let w3 := C01_proofs.ex_w3 in
   snd (serve nla_csrv CsStart [w1; flip_last w2; w3]) = CsRefused /\
   snd (serve nla_csrv CsStart [w1; w2; flip_last w3]) = CsRefused /\
   snd (serve (mkCsspServer (mkAccount C15_proofs.ex_user C15_proofs.ex_dom (md4 (utf16le C15_proofs.ex_user)))
                            C15_proofs.ex_chal C01_proofs.ex_pubkey) CsStart [w1; w2; w3]) = CsRefused /\
   snd (serve (mkCsspServer (cs_account nla_csrv) C15_proofs.ex_chal (C01_proofs.ex_pubkey ++ [1])) CsStart [w1; w2; w3]) = CsRefused /\
   snd (serve nla_csrv CsStart [w1; w2; w2]) = CsRefused /\
   snd (serve nla_csrv CsStart [w2]) = CsRefused).
Proof.
  exact (conj (conj nla_cfg_valid (conj nla_srv_conforming (conj eq_refl (conj (proj2 (proj2 ex_ber)) (conj nla_ok_ex
                (conj C16_proofs.md5_length (conj C16_proofs.hmac_md5_length (conj codec_ok_der (proj2 nla_oracle)))))))))
        (conj nla_reference_replies
        (conj (conj nla_run_generic (conj (proj1 nla_run_ok) (proj1 (proj2 nla_run_ok))))
        (conj nla_serve_ex (conj nla_modes_ex nla_serve_rejects))))).
Qed.
Print Assumptions C03_nla_nonvacuous.

(* THE EXTRACTED PROGRAM IS THE MODEL OF THE THEOREMS.  What the correspondence extracts and compares with the real
   crate (FlowRun.flow_impl on the environment FlowNlaRun.nla_cssp_env: the CredSSP model evaluated once per run) computes,
   for EVERY input -- configuration, mode, randomness, uppercase mapping, profile, scripted server streams --, exactly
   FlowNla.flow_nla at the concrete MD4 / MD5 / HMAC-MD5, the DER writers of CsspGateExec.v, the yasna models of
   DerRead.v / BerYasna.v and the harness's TLS oracle. *)
Theorem C03_extracted_is_generic :
  forall (upper : list N -> list N) (p : prof) (c : fcfg) (n : nla_params) (nreads : nat) (raw : stream) (post : option stream),
    flow_impl p (nla_cssp_env upper c n) c nreads raw post =
    flow_nla md4 md5 hmac_md5 upper p x_create_ts_request x_create_ts_authenticate x_create_ts_credentials
             x_create_ts_authinfo (x_read_ts_server_challenge p) (x_read_ts_validate p)
             (ber_connect_response p) true (match post with Some ps => tls_after ps | None => no_tls end)
             c n nreads raw (match post with Some ps => ps | None => [] end).
Proof. exact flow_impl_is_flow_nla. Qed.
Print Assumptions C03_extracted_is_generic.

(* THE EXECUTABLE CODECS SATISFY [codec_ok]: for every argument of up to 2^32 bytes the DER writers of CsspGateExec.v
   (model of yasna::construct_der on the TSRequest shapes) produce exactly the encoding of C18's TLV model, and the
   yasna reader model of DerRead.v (read_ts_server_challenge / read_ts_validate templates) returns the token of every
   such encoding of at most 1500 bytes -- both build profiles. *)
Theorem C03_codec_executable :
  forall p : prof,
    codec_ok x_create_ts_request x_create_ts_authenticate x_create_ts_credentials x_create_ts_authinfo
             (x_read_ts_server_challenge p) (x_read_ts_validate p).
Proof. exact codec_ok_exec. Qed.
Print Assumptions C03_codec_executable.

(* SEQUENCE / CAUSALITY with NLA for THE EXTRACTED PROGRAM (flow_impl on nla_cssp_env: concrete MD4 / MD5 / HMAC-MD5 / RC4,
   CsspGateExec.v writers, DerRead.v / BerYasna.v yasna models, the harness's TLS oracle): the statements of
   C03_sequence_nla / C03_causality_nla / C03_causality_nla_credssp with NO hypothesis on hashes or codecs.  What remains
   assumed is what is external to the client: the configuration is valid, both servers conform (the RDP server of
   RefSequence.v, the CredSSP server of RefCredssp.v holding the account and the certificate key, replies one read
   each), the BER model returns the user data of this server's connect-response ([ber_ok]), any uppercase mapping. *)
Theorem C03_sequence_nla_executable :
  forall (upper : list N -> list N) (p : prof) (c : fcfg) (n : nla_params) (srv : server) (csrv : cssp_server) (cs post' : stream),
    valid_fcfg c -> conforming (c_offered (f_pdu c)) srv -> sv_selected srv = SEL_HYBRID ->
    ber_ok (ber_connect_response p) srv ->
    nla_ok md4 md5 hmac_md5 c n csrv ->
    holds cs (ref_confirm srv) ->
    holds post' (List.concat (List.tl (replies srv (f_user_first c)))) ->
    let r := flow_impl p (nla_cssp_env upper c n) c (nreads_of srv) cs (Some (nla_stream md5 hmac_md5 csrv n post')) in
    fl_res r = Ok tt /\ fl_stage r = StShutdown /\
    exists w1 w2 w3 cr frames,
      fl_trace r = FRaw cr :: FTlsStart true :: FTls w1 :: FTls w2 :: FTls w3 :: map FTls frames /\
      map frame_kind (cr :: frames) = map Some (expected_kinds srv (f_user_first c)) /\
      cssp_serve md5 hmac_md5 upper csrv CsStart [w1; w2; w3] =
        ([cssp_reply1 csrv; cssp_reply2 md5 hmac_md5 csrv (nl_key n)],
         cs_done (nl_key n) (nla_creds md4 hmac_md5 upper c n csrv)).
Proof. exact sequence_nla_exec. Qed.
Print Assumptions C03_sequence_nla_executable.

Theorem C03_causality_nla_executable :
  forall (upper : list N -> list N) (p : prof) (c : fcfg) (n : nla_params) (srv : server) (csrv : cssp_server) (cs post' : stream) (k : nat),
    valid_fcfg c -> conforming (c_offered (f_pdu c)) srv -> sv_selected srv = SEL_HYBRID ->
    ber_ok (ber_connect_response p) srv ->
    nla_ok md4 md5 hmac_md5 c n csrv ->
    holds cs (ref_confirm srv) ->
    (k < List.length (List.tl (replies srv (f_user_first c))))%nat ->
    holds post' (List.concat (firstn k (List.tl (replies srv (f_user_first c))))) ->
    let r := flow_impl p (nla_cssp_env upper c n) c (nreads_of srv) cs (Some (nla_stream md5 hmac_md5 csrv n post')) in
    fl_res r = Err EIo /\
    exists w1 w2 w3 cr frames,
      fl_trace r = FRaw cr :: FTlsStart true :: FTls w1 :: FTls w2 :: FTls w3 :: map FTls frames /\
      map frame_kind (cr :: frames) = map Some (sent_before_reply srv (f_user_first c) (S k)) /\
      cssp_serve md5 hmac_md5 upper csrv CsStart [w1; w2; w3] =
        ([cssp_reply1 csrv; cssp_reply2 md5 hmac_md5 csrv (nl_key n)],
         cs_done (nl_key n) (nla_creds md4 hmac_md5 upper c n csrv)).
Proof. exact causality_nla_exec. Qed.
Print Assumptions C03_causality_nla_executable.

Theorem C03_causality_nla_credssp_executable :
  forall (upper : list N -> list N) (p : prof) (c : fcfg) (n : nla_params) (srv : server) (csrv : cssp_server) (cs : stream) (j : nat),
    valid_fcfg c -> conforming (c_offered (f_pdu c)) srv -> sv_selected srv = SEL_HYBRID ->
    nla_ok md4 md5 hmac_md5 c n csrv ->
    holds cs (ref_confirm srv) -> (j < 2)%nat ->
    let r := flow_impl p (nla_cssp_env upper c n) c (nreads_of srv) cs (Some (firstn j (nla_stream md5 hmac_md5 csrv n []))) in
    fl_res r <> Ok tt /\ fl_stage r = StConnect /\
    exists w1 w2 w3 cr,
      fl_trace r = FRaw cr :: FTlsStart true :: map FTls (firstn (S j) [w1; w2; w3]) /\
      frame_kind cr = Some KRequest /\
      cssp_serve md5 hmac_md5 upper csrv CsStart [w1; w2; w3] =
        ([cssp_reply1 csrv; cssp_reply2 md5 hmac_md5 csrv (nl_key n)],
         cs_done (nl_key n) (nla_creds md4 hmac_md5 upper c n csrv)).
Proof. exact causality_nla_cssp_exec. Qed.
Print Assumptions C03_causality_nla_credssp_executable.

(* KNOWN FINDING C03-credssp-split (refutation witness).  The same conforming NLA server delivering its first
   TSRequest in two TLS records -- the same bytes, one more read boundary -- is refused with an ASN.1 error during
   connect: NLA success is NOT independent of the fragmentation of the CredSSP messages, which is why the
   conforming delivery of the NLA theorems ([nla_stream], [one_read]) hands each CredSSP reply over in ONE read. *)
Theorem C03_cssp_split_refuted :
  fl_res nla_run_split = Err EAsn1 /\ fl_stage nla_run_split = StConnect /\
  List.concat (nla_post [firstn 40 C01_proofs.ex_reply1; skipn 40 C01_proofs.ex_reply1]) = List.concat (nla_post [C01_proofs.ex_reply1]).
Proof. exact nla_run_split_refused. Qed.
Print Assumptions C03_cssp_split_refuted.
