(* C03 -- The connection sequence conforms end to end, for every conforming server and configuration.
   Statements only; every proof is `exact <lemma>` into C03_proofs.v / C03_examples.v.

   Model  : Flow.v  = Connector::connect (Connect.v) + the RdpClient::read loop (Global.v) + shutdown over ONE
            chunked stream, producing the byte-level transport trace (units written in clear / inside TLS).
   Spec   : RefSequence.v = the conforming server as a parameterised reference encoder ([server], [replies]),
            the mandated conversation of MS-RDPBCGR 1.3.1.1 ([conversation], [expected_kinds],
            [sent_before_reply]); client units are observed through C04's strict parsers ([frame_kind]).
   [holds cs b] : the stream [cs] delivers exactly the bytes [b], cut into non-empty reads in ANY way.
   External code is universally quantified: the BER parser ([ber_ok]: it returns the user data of THIS server's
   connect-response), the TLS handshake ([tls_start [] = Ok post]: it succeeds once everything sent in clear is
   consumed, [post] = the server's records), CredSSP (only when HYBRID is selected). *)
From RdpV Require Import Base Msg Link Tpkt Global BerYasna Connect ConnectRun ClientPdus Flow FlowRun StrictPdu RefSequence.
From RdpV Require Import C13_proofs C03_base C03_proofs C03_examples.
Open Scope list_scope.
Open Scope N_scope.

(* SEQUENCE (TLS, SSL selected).  For every build profile, every configuration the Connector can hold (strings
   from all of Unicode within the PER length bound, any screen, layout, modes), EVERY conforming server (any user
   id 1001..65535, any I/O channel id, any version, optional core fields present or absent, valid-client alert with
   any preamble flags / new-licence with any body, any number of activations each with any share id, source
   descriptor and capability sets known or unknown) and EVERY fragmentation of its byte stream: the run ends Ok
   after the shutdown, and the units written are the connection request in clear, the TLS handshake, then frames
   which the strict parser decodes to exactly the mandated sequence with the identifiers the server assigned. *)
Theorem C03_sequence :
  forall p ber_parse trusted tls_start cssp_run cssp_msgs (c : fcfg) (srv : server) (cs post : stream),
    valid_fcfg c -> conforming (c_offered (f_pdu c)) srv -> sv_selected srv = SEL_SSL ->
    ber_ok ber_parse srv -> (f_check_cert c = true -> trusted = true) ->
    holds cs (ref_confirm srv) -> tls_start [] = Ok post ->
    holds post (List.concat (List.tl (replies srv (f_user_first c)))) ->
    let r := flow p ber_parse trusted tls_start cssp_run cssp_msgs c (nreads_of srv) cs in
    fl_res r = Ok tt /\ fl_stage r = StShutdown /\
    exists cr frames, fl_trace r = FRaw cr :: FTlsStart true :: map FTls frames /\
      map frame_kind (cr :: frames) = map Some (expected_kinds srv (f_user_first c)).
Proof. exact sequence_ssl. Qed.
Print Assumptions C03_sequence.

(* The same with NLA (HYBRID selected).  PARTIAL: the CredSSP exchange is not derived from a conforming CredSSP
   server here -- its outcome is a hypothesis ([cssp_run post = (ncssp, Ok post')]: [ncssp] messages written, success,
   [post'] left of the server's records); C01 / C07 / C15 own that exchange, C03_nonvacuous shows the executable
   CsspGate model satisfying the hypothesis on the reference exchange.  The CredSSP messages sit between the
   handshake and the MCS connect-initial. *)
Theorem C03_sequence_nla_partial :
  forall p ber_parse trusted tls_start cssp_run cssp_msgs (c : fcfg) (srv : server) (cs post post' : stream) (ncssp : nat),
    valid_fcfg c -> conforming (c_offered (f_pdu c)) srv -> sv_selected srv = SEL_HYBRID ->
    ber_ok ber_parse srv -> (f_check_cert c = true -> trusted = true) ->
    holds cs (ref_confirm srv) -> tls_start [] = Ok post ->
    cssp_run post = (ncssp, Ok post') ->
    holds post' (List.concat (List.tl (replies srv (f_user_first c)))) ->
    let r := flow p ber_parse trusted tls_start cssp_run cssp_msgs c (nreads_of srv) cs in
    fl_res r = Ok tt /\ fl_stage r = StShutdown /\
    exists cr frames, fl_trace r = FRaw cr :: FTlsStart true :: cssp_evs ncssp cssp_msgs ++ map FTls frames /\
      map frame_kind (cr :: frames) = map Some (expected_kinds srv (f_user_first c)).
Proof. exact sequence_nla. Qed.
Print Assumptions C03_sequence_nla_partial.

(* CAUSALITY.  The server stops after the confirm and k of its replies inside TLS (any k, anywhere in the
   connection or in any activation round): the client has written exactly the messages that precede reply k+1 in
   the conversation -- nothing that depends on a reply it has not received -- and then meets the end of the stream. *)
Theorem C03_causality :
  forall p ber_parse trusted tls_start cssp_run cssp_msgs (c : fcfg) (srv : server) (cs post : stream) (k : nat),
    valid_fcfg c -> conforming (c_offered (f_pdu c)) srv -> sv_selected srv = SEL_SSL ->
    ber_ok ber_parse srv -> (f_check_cert c = true -> trusted = true) ->
    holds cs (ref_confirm srv) -> tls_start [] = Ok post ->
    (k < List.length (List.tl (replies srv (f_user_first c))))%nat ->
    holds post (List.concat (firstn k (List.tl (replies srv (f_user_first c))))) ->
    let r := flow p ber_parse trusted tls_start cssp_run cssp_msgs c (nreads_of srv) cs in
    fl_res r = Err EIo /\
    exists cr frames, fl_trace r = FRaw cr :: FTlsStart true :: map FTls frames /\
      map frame_kind (cr :: frames) = map Some (sent_before_reply srv (f_user_first c) (S k)).
Proof. exact causality_ssl. Qed.
Print Assumptions C03_causality.

Theorem C03_causality_nla_partial :
  forall p ber_parse trusted tls_start cssp_run cssp_msgs (c : fcfg) (srv : server) (cs post post' : stream) (ncssp k : nat),
    valid_fcfg c -> conforming (c_offered (f_pdu c)) srv -> sv_selected srv = SEL_HYBRID ->
    ber_ok ber_parse srv -> (f_check_cert c = true -> trusted = true) ->
    holds cs (ref_confirm srv) -> tls_start [] = Ok post ->
    cssp_run post = (ncssp, Ok post') ->
    (k < List.length (List.tl (replies srv (f_user_first c))))%nat ->
    holds post' (List.concat (firstn k (List.tl (replies srv (f_user_first c))))) ->
    let r := flow p ber_parse trusted tls_start cssp_run cssp_msgs c (nreads_of srv) cs in
    fl_res r = Err EIo /\
    exists cr frames, fl_trace r = FRaw cr :: FTlsStart true :: cssp_evs ncssp cssp_msgs ++ map FTls frames /\
      map frame_kind (cr :: frames) = map Some (sent_before_reply srv (f_user_first c) (S k)).
Proof. exact causality_nla. Qed.
Print Assumptions C03_causality_nla_partial.

(* ... and a server that does not answer at all has received the connection request and nothing else. *)
Theorem C03_causality_first :
  forall p ber_parse trusted tls_start cssp_run cssp_msgs (c : fcfg) (srv : server) (n : nat),
    valid_fcfg c ->
    let r := flow p ber_parse trusted tls_start cssp_run cssp_msgs c n [] in
    fl_res r = Err EIo /\
    exists cr, fl_trace r = [FRaw cr] /\ map frame_kind [cr] = map Some (sent_before_reply srv (f_user_first c) 0).
Proof. exact causality_first. Qed.
Print Assumptions C03_causality_first.

(* THE MANDATED SEQUENCE, in one line (readable form of RefSequence.expected_kinds): request, connect-initial,
   erect-domain, attach-user, the two joins (user channel and I/O channel, in the client's order), client info, then
   per demand-active of the server -- in the order of its rounds -- confirm-active, synchronize, control-cooperate,
   control-request-control, font-list, and the disconnect ultimatum when the application closes. *)
Theorem C03_mandated_order :
  forall srv uf,
    expected_kinds srv uf =
      [KRequest; KConnectInitial; KErectDomain; KAttachUser;
       KJoin (sv_uid srv) (nth 0 (joins srv uf) 0); KJoin (sv_uid srv) (nth 1 (joins srv uf) 0);
       KInfo (sv_uid srv) (sv_io srv)]
      ++ flat_map (finalization srv) (sv_rounds srv) ++ [KDisconnect].
Proof. exact expected_form. Qed.
Print Assumptions C03_mandated_order.

(* IDENTIFIERS.  What the mandated sequence carries, for every server and any number of rounds: the assigned user
   id as MCS initiator and PDU source of every message after the attach, the announced I/O channel id (the user
   channel in its own join) as channel, in confirm-active and the finalization PDUs a share id of one of the
   server's demand-actives, the server's channel id 1002 as target of the synchronize; one confirm-active per
   demand-active, in order. *)
Theorem C03_identifiers :
  forall srv uf,
    Forall (carries srv) (expected_kinds srv uf) /\
    filter (fun k => match k with KConfirm _ _ _ _ => true | _ => false end) (expected_kinds srv uf)
    = map (fun r => KConfirm (sv_uid srv) (sv_io srv) (sv_uid srv) (r_share r)) (sv_rounds srv).
Proof. exact (fun srv uf => conj (expected_carry srv uf) (expected_per_round srv uf)). Qed.
Print Assumptions C03_identifiers.

(* SHUTDOWN.  For ANY server (conforming or not), any stream and any answer of the external code: a run that ends
   well ended with RdpClient::shutdown, and the last unit written is the two-byte disconnect-provider ultimatum
   (reason user-requested) in one TPKT frame. *)
Theorem C03_shutdown :
  forall p ber_parse trusted tls_start cssp_run cssp_msgs c n cs,
    let r := flow p ber_parse trusted tls_start cssp_run cssp_msgs c n cs in
    fl_res r = Ok tt ->
    fl_stage r = StShutdown /\
    exists pre f, fl_trace r = pre ++ [f] /\
      (f = FTls [3; 0; 0; 9; 2; 240; 128; 33; 128] \/ f = FRaw [3; 0; 0; 9; 2; 240; 128; 33; 128]) /\
      strict_parse [3; 0; 0; 9; 2; 240; 128; 33; 128] = Some (PDisconnect 3).
Proof. exact flow_shutdown. Qed.
Print Assumptions C03_shutdown.

(* NON-VACUITY.  A concrete server with every parameter away from its usual value (user id 1007, I/O channel 1005,
   licence preamble 0x83, licence security flags 0x0280, two activations with share ids 0x000103EA and 0xFFFFFFFF,
   known and unknown capability sets) and a configuration with non-BMP strings satisfy the hypotheses; the
   EXECUTABLE instance of the model (yasna model as BER parser) runs to Ok on the 7-byte-chunked stream and its 18
   frames decode to the mandated sequence; cut before the 9th reply it ends in the third read with exactly the
   prefix.  NLA: the executable CsspGate model answers the oracle hypothesis on the reference CredSSP exchange, and
   the run's frames are the mandated sequence around the three reference CredSSP messages. *)
Theorem C03_nonvacuous :
  (valid_fcfg ex_cfg /\ conforming (c_offered (f_pdu ex_cfg)) ex_srv /\ sv_selected ex_srv = SEL_SSL /\
   ber_ok (ber_connect_response Debug) ex_srv /\
   holds (chunked 5 (ref_confirm ex_srv)) (ref_confirm ex_srv) /\
   holds (chunked 7 (List.concat (List.tl (replies ex_srv true)))) (List.concat (List.tl (replies ex_srv true)))) /\
  (fl_res ex_run = Ok tt /\ fl_stage ex_run = StShutdown /\
   unit_kinds ex_run = map Some (expected_kinds ex_srv true) /\ List.length (expected_kinds ex_srv true) = 18%nat) /\
  (fl_res ex_run_cut = Err EIo /\ fl_stage ex_run_cut = StRead 2 /\
   unit_kinds ex_run_cut = map Some (sent_before_reply ex_srv true 8)) /\
  (valid_fcfg nla_cfg /\ conforming (c_offered (f_pdu nla_cfg)) nla_srv /\ sv_selected nla_srv = SEL_HYBRID /\
   cssp_run_exec Debug nla_env (nla_post [C01_proofs.ex_reply1])
     = (3%nat, Ok (chunked 50 (List.concat (List.tl (replies nla_srv false))))) /\
   fl_res nla_run = Ok tt /\
   map frame_kind (hd [] (funits (fl_trace nla_run)) :: skipn 4 (funits (fl_trace nla_run))) = map Some (expected_kinds nla_srv false)).
Proof.
  exact (conj (conj ex_cfg_valid (conj ex_srv_conforming (conj eq_refl (conj (proj1 ex_ber) (conj (proj1 ex_streams) (proj1 (proj2 ex_streams)))))))
        (conj ex_run_ok (conj ex_run_cut_ok
        (conj nla_cfg_valid (conj nla_srv_conforming (conj eq_refl (conj (proj1 nla_oracle) (conj (proj1 nla_run_ok) (proj2 (proj2 nla_run_ok)))))))))).
Qed.
Print Assumptions C03_nonvacuous.

(* KNOWN FINDING C03-credssp-split (refutation witness).  The same conforming NLA server delivering its first
   TSRequest in two TLS records -- the same bytes, one more read boundary -- is refused with an ASN.1 error during
   connect: NLA success is NOT independent of the fragmentation of the CredSSP messages, which is why the NLA
   theorems take the outcome of the exchange as a hypothesis. *)
Theorem C03_cssp_split_refuted :
  fl_res nla_run_split = Err EAsn1 /\ fl_stage nla_run_split = StConnect /\
  List.concat (nla_post [firstn 40 C01_proofs.ex_reply1; skipn 40 C01_proofs.ex_reply1]) = List.concat (nla_post [C01_proofs.ex_reply1]).
Proof. exact nla_run_split_refused. Qed.
Print Assumptions C03_cssp_split_refuted.
