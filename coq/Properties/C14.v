(* C14 -- Outbound frames are exact and completely delivered, or refused. *)
From RdpV Require Import Base Link Tpkt RefFraming C13_proofs C14_proofs.

(* For EVERY message and EVERY schedule of write results (any caps, zero-length
   acceptances, injected failures at any position): either the message is too large for
   the 16-bit length and is refused with nothing written; or the exact reference frame
   reached the stream and Ok is returned; or an error is returned, only a strict prefix
   was written, and the schedule really contained a failing / non-progressing step. *)
Theorem C14_exact_or_refused :
  forall (msg : bytes) (s : schedule),
    let '(out, r, s') := tpkt_write msg s in
    (too_large msg /\ r = Err EInvalidSize /\ out = [] /\ s' = s) \/
    (~ too_large msg /\ r = Ok tt /\ out = enc (Slow 0 msg)) \/
    (~ too_large msg /\ r = Err EIo /\ strict_prefix out (enc (Slow 0 msg)) /\ Exists stalls s).
Proof. exact tpkt_write_exact_or_refused. Qed.
Print Assumptions C14_exact_or_refused.

Theorem C14_x224_exact_or_refused :
  forall (msg : bytes) (s : schedule),
    let '(out, r, s') := x224_write msg s in
    let m := [2; 240; 128] ++ msg in
    (too_large m /\ r = Err EInvalidSize /\ out = [] /\ s' = s) \/
    (~ too_large m /\ r = Ok tt /\ out = enc (Slow 0 m)) \/
    (~ too_large m /\ r = Err EIo /\ strict_prefix out (enc (Slow 0 m)) /\ Exists stalls s).
Proof. exact x224_write_exact_or_refused. Qed.
Print Assumptions C14_x224_exact_or_refused.

(* every pattern of short writes that keeps making progress delivers every byte *)
Theorem C14_short_writes_deliver :
  forall (msg : bytes) (s : schedule),
    ~ too_large msg -> Forall progress s ->
    exists s', tpkt_write msg s = (enc (Slow 0 msg), Ok tt, s').
Proof. exact tpkt_write_delivers. Qed.
Print Assumptions C14_short_writes_deliver.

(* the header's length field equals the number of bytes emitted *)
Theorem C14_header_length :
  forall msg : bytes, ~ too_large msg ->
    exists hi lo, tpkt_frame msg = [3; 0; hi; lo] ++ msg /\ of_be16 hi lo = nlen (tpkt_frame msg).
Proof. exact tpkt_frame_length. Qed.
Print Assumptions C14_header_length.

(* what was written deframes (C13) to exactly the message *)
Theorem C14_write_then_read :
  forall (msg : bytes) (s : schedule) (cs : stream) (rest : bytes),
    ~ too_large msg -> Forall progress s -> no_empty cs ->
    concat cs = fst (fst (tpkt_write msg s)) ++ rest ->
    exists cs', tpkt_read cs = (Ok (Raw msg), cs') /\ concat cs' = rest.
Proof. exact write_then_read. Qed.
Print Assumptions C14_write_then_read.

(* HISTORIES: for every sequence of messages written through one client and every sink schedule, each write is judged on
   ITS OWN message: refused with nothing written, or its exact frame delivered, or an error with a strict prefix of its
   frame -- in particular nothing of an earlier (failed or successful) write is emitted by a later one. *)
Theorem C14_history :
  forall (msgs : list bytes) (s : schedule), Forall2 write_ok msgs (fst (tpkt_writes msgs s)).
Proof. exact tpkt_writes_history. Qed.
Print Assumptions C14_history.

Theorem C14_history_nonvacuous :
  fst (tpkt_writes [[1; 2; 3]; [9]] [Accept 2; Fail; Accept 9]) =
    [([3; 0], Err EIo); ([3; 0; 0; 5; 9], Ok tt)].
Proof. exact tpkt_writes_example. Qed.
Print Assumptions C14_history_nonvacuous.

Theorem C14_nonvacuous :
  tpkt_write [1; 2; 3; 4; 5; 6; 7; 8] [Accept 5; Accept 5; Accept 5] =
    ([3; 0; 0; 12; 1; 2; 3; 4; 5; 6; 7; 8], Ok tt, []) /\
  tpkt_write [1; 2; 3] [Accept 2; Accept 3; Fail; Accept 9] = ([3; 0; 0; 7; 1], Err EIo, [Accept 9]).
Proof. exact (conj write_short_example write_fail_example). Qed.
Print Assumptions C14_nonvacuous.
