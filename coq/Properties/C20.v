(* C20 -- The GUI receive thread keeps up with the server and stops with the session.
   Statements only; every proof is `exact <lemma>` into C20_proofs.v.

   Model: GuiLoop.v -- the loop of `launch_rdp_thread` (src/bin/mstsc-rs.rs) as a transition
   system, step by step: select on the socket (AtWait) / load of `sync` (AtSync) / lock() of the
   shared client mutex (AtLock, blocks while the GUI holds it) / read of one PDU through the TLS
   object's plaintext buffer, repeated while the TLS layer holds decrypted data (AtRead) / guard
   dropped (AtUnlock, or AtDrop on the error path) / the closure returns and drops its clone of
   the Arc (AtRet) / Exited.  The server AND the GUI thread act through [env_step]: the GUI's
   lock(), try_write(), shutdown(), guard drop and `sync.store(false)` are actions chosen by the
   scheduler, possible only when the mutex allows them.
   A schedule [list (option action)] interleaves server and GUI actions ([Some a]) with single
   steps of the thread ([None]) in ANY order (a step that is blocked stutters), so every theorem
   below holds for every moment of the wait / sync / lock / read / unlock cycle at which an event
   can occur, for every packing of the PDUs into records ([Send r], r any list of PDU fragments
   and PDU ends) and for every interleaving with the GUI's critical sections and input writes.
   [repaired] = the loop as /repo has it after the two fix commits (the correspondence runs
   this variant against the real thread); [original] = the loop as found.

   FAIRNESS.  Safety statements need none.  Where the thread has to get somewhere, the hypothesis
   is on the schedule [fin] that follows, and it is a number:
       silent fin            the server does nothing in fin (GUI actions and thread turns only)
       turns repaired fin s  the turns the scheduler gives the thread in fin at moments when the
                             thread is NOT sitting in lock() on a mutex held by the GUI
       fuel_of s <= turns repaired fin s
   with fuel_of s = 5 per pending PDU fragment + 1 per pending record + 8.  In words: the scheduler
   runs the thread, and the GUI does not keep the mutex away from it, for that many turns.  Both
   halves are needed ([C20_fairness_needed]); any schedule made of rounds "GUI activity ending
   with the release of the mutex, then one turn of the thread" satisfies it ([C20_fair_rounds]).

   PARTIAL BY NATURE (named in the evidence): no real scheduler and no std::sync::Mutex fairness
   (the hypothesis above is assumed of them, not proved), no poisoning (a panic inside read is
   another property's subject), an unbounded socket send buffer (the server drains what the GUI
   writes), no select(2) corner cases (EINTR), no TCP segmentation inside a TLS record, and
   OpenSSL's record handling taken as "one record per pull, no read-ahead"; those are sampled by
   the seeded runs of the real threads only. *)
From RdpV Require Import Base GuiLoop C20_proofs.

(* Stops with the session.  Take ANY schedule, let the session end there in any of the four ways
   (disconnect ultimatum, undecodable PDU of either error class, TLS close_notify / FIN without
   alert / RST), followed by ANY further schedule -- the GUI may hold the mutex at that moment,
   be writing, or be blocked itself.  Then every server-silent FAIR continuation ends with the
   thread at its exit and the client released (the harness's rel=1: thread finished, only the
   owner's handle on the Arc left, mutex not held by the thread). *)
Theorem C20_terminates :
  forall (sc : list (option action)) (k : endkind) (more fin : list (option action)),
    let s := run repaired (sc ++ [Some (end_action k)] ++ more) init in
    let s' := run repaired fin s in
    forallb silent fin = true -> (fuel_of s <= turns repaired fin s)%nat ->
    pcs s' = Exited /\ released s' = true.
Proof. exact loop_terminates. Qed.
Print Assumptions C20_terminates.

(* The same as a safety statement, without any fairness: after the session has ended the thread is
   never at rest (blocked in select or in a read) -- if it is not at its exit it can step, or it
   is waiting for the GUI to release the mutex. *)
Theorem C20_ended_never_rests :
  forall (sc : list (option action)) (k : endkind) (more : list (option action)),
    let s := run repaired (sc ++ [Some (end_action k)] ++ more) init in
    settled repaired s = true -> pcs s = Exited.
Proof. exact loop_exited_if_settled. Qed.
Print Assumptions C20_ended_never_rests.

(* Never spins, whether or not the session has ended and WHATEVER the GUI does with the mutex: in any
   server-silent continuation of any schedule the thread takes at most [measure s] < [fuel_of s] steps
   (no fairness needed); and left alone it comes to rest within [fuel_of s] steps. *)
Theorem C20_never_spins :
  forall (sc fin : list (option action)),
    forallb silent fin = true ->
    (moves repaired fin (run repaired sc init) <= measure (run repaired sc init))%nat /\
    exists s', quiesce repaired (fuel_of (run repaired sc init)) (run repaired sc init) = RQuiet s'.
Proof. exact loop_never_spins_full. Qed.
Print Assumptions C20_never_spins.

(* In order, nothing invented: at every moment of every schedule the events forwarded on the
   channel are a prefix of the bitmap events of the PDUs the server has put on the wire
   ([evs_of (hist s)]: in wire order, up to the first PDU on which read fails). *)
Theorem C20_order :
  forall (sc : list (option action)),
    exists rest, evs_of (hist (run repaired sc init)) = out (run repaired sc init) ++ rest.
Proof. exact loop_order. Qed.
Print Assumptions C20_order.

(* Keeps up without further traffic: after ANY schedule (any packing, any interleaving with the GUI)
   in which the connection was not reset, every server-silent FAIR continuation in which the GUI does
   not clear `sync` ends with EVERY event sent so far forwarded; and if the thread has not exited it
   is blocked with the TLS buffer empty, the socket empty and the connection open -- nothing is left
   waiting for "more traffic". *)
Theorem C20_drains :
  forall (sc fin : list (option action)),
    let s := run repaired sc init in
    let s' := run repaired fin s in
    forallb silent fin = true -> (fuel_of s <= turns repaired fin s)%nat ->
    closed s <> Some Reset -> sync s' = true ->
    out s' = evs_of (hist s) /\ (pcs s' <> Exited -> tls s' = [] /\ sock s' = [] /\ closed s' = None).
Proof. exact loop_drains. Qed.
Print Assumptions C20_drains.

(* The same as a safety statement, without any fairness: in EVERY reachable state in which the thread is
   at rest and not waiting for the GUI's mutex, everything sent has been forwarded. *)
Theorem C20_drained_when_settled :
  forall (sc : list (option action)),
    let s := run repaired sc init in
    settled repaired s = true -> closed s <> Some Reset -> sync s = true ->
    out s = evs_of (hist s) /\ (pcs s <> Exited -> tls s = [] /\ sock s = [] /\ closed s = None).
Proof. exact loop_drained. Qed.
Print Assumptions C20_drained_when_settled.

(* Mutual exclusion: in every reachable state the thread is inside the client (AtRead / AtUnlock / AtDrop)
   exactly when the mutex says HeldByRecv; never both threads inside; and an action of the GUI that
   touches the client (anything that changes what was written to the socket) happens with the GUI
   holding the mutex and the thread outside. *)
Theorem C20_mutex_exclusion :
  forall (sc : list (option action)),
    let s := run repaired sc init in
    (recv_inside s = true <-> lock s = HeldByRecv) /\
    ~ (recv_inside s = true /\ gui_holds s = true) /\
    (forall a, outb (env_step a s) <> outb s \/ wshut (env_step a s) <> wshut s ->
               gui_holds s = true /\ recv_inside s = false).
Proof. exact loop_mutex_exclusion. Qed.
Print Assumptions C20_mutex_exclusion.

(* No deadlock: in every reachable state
   - the thread can step, or has exited, or waits for the SERVER (select on an empty open socket, or a
     read in the middle of a PDU), or waits for a mutex that the GUI holds -- and the GUI's unlock,
     which nothing blocks, lets it step;
   - a lock() of the GUI can block only on a mutex held by the thread, which then can step or is
     waiting for the server to complete a PDU (the GUI is then frozen until the server does: an
     observation about the GUI, not about the receive thread);
   - the two never wait for the mutex at once.
   So the only thing either thread ever waits for, directly or through the other, is the server. *)
Theorem C20_no_deadlock :
  forall (sc : list (option action)),
    let s := run repaired sc init in
    (tstep repaired s <> None \/ pcs s = Exited \/ waits_for_server s \/
     (pcs s = AtLock /\ lock s = HeldByGui /\ tstep repaired (env_step GuiUnlock s) <> None)) /\
    (lock s <> Free -> lock s <> HeldByGui ->
     recv_inside s = true /\
     (tstep repaired s <> None \/ (pcs s = AtRead /\ tls s = [] /\ sock s = [] /\ closed s = None))) /\
    (lock s = Free -> pcs s = AtLock -> tstep repaired s <> None).
Proof. exact loop_no_deadlock. Qed.
Print Assumptions C20_no_deadlock.

(* Input writes of the GUI change nothing on the receive side: erase every try_write / shutdown from ANY
   schedule and the run ends in the same state up to the outbound side of the socket -- same forwarded
   events in the same order, same program point, same mutex, same buffers.  (That the GUI's TAKING of
   the mutex loses nothing either is C20_drains / C20_order: they hold for every interleaving.) *)
Theorem C20_gui_writes_do_not_lose_events :
  forall (sc : list (option action)),
    recv_view (run repaired sc init) = recv_view (run repaired (erase_writes sc) init) /\
    out (run repaired sc init) = out (run repaired (erase_writes sc) init) /\
    pcs (run repaired sc init) = pcs (run repaired (erase_writes sc) init).
Proof. exact loop_gui_writes. Qed.
Print Assumptions C20_gui_writes_do_not_lose_events.

(* Release: in every reachable state, once the thread has exited the strong count is back to the owner's
   handle, the thread does not hold the mutex (every way out of the locked block drops the guard), and the
   mutex is Free as soon as the GUI is outside its own critical section; before the exit the thread's
   clone is alive (count 2).  With C20_terminates: after the session ends the client is released. *)
Theorem C20_release :
  forall (sc : list (option action)),
    let s := run repaired sc init in
    (pcs s = Exited -> released s = true /\ refs s = 1%nat /\ lock s <> HeldByRecv /\
                       (lock s = Free \/ lock (env_step GuiUnlock s) = Free)) /\
    (pcs s <> Exited -> released s = false /\ refs s = 2%nat).
Proof. exact loop_release. Qed.
Print Assumptions C20_release.

(* The GUI stops the thread.  `sync` is looked at only after select() returns.  Once it is cleared and the
   thread is in (or on its way back to) select -- [stopping] -- NOTHING more is forwarded, whatever follows
   (server traffic included); and as soon as the socket is readable (any traffic, or the connection's end)
   every server-silent fair continuation takes the thread to its exit with the client released: it leaves
   at its next wake-up, without reading.  From any other moment of the cycle a fair silent schedule first
   takes it to its exit or to a wait for the server (second statement). *)
Theorem C20_stop_by_gui :
  forall (sc more fin : list (option action)),
    let s := run repaired sc init in
    let s1 := run repaired more s in
    let s2 := run repaired fin s1 in
    stopping s = true ->
    out s2 = out s /\
    (readable s1 = true -> forallb silent fin = true -> (fuel_of s1 <= turns repaired fin s1)%nat ->
     pcs s2 = Exited /\ released s2 = true).
Proof. exact loop_stop_by_gui. Qed.
Print Assumptions C20_stop_by_gui.

Theorem C20_stop_settles :
  forall (sc fin : list (option action)),
    let s := run repaired sc init in
    let s' := run repaired fin s in
    forallb silent fin = true -> (fuel_of s <= turns repaired fin s)%nat ->
    pcs s' = Exited \/ waits_for_server s'.
Proof. exact loop_stop_settles. Qed.
Print Assumptions C20_stop_settles.

(* OBSERVATION (reproduced on the real threads; outside the statement of C20, which is about the ways the
   CONNECTION ends): the wake-up is necessary.  main_gui_loop's way of stopping -- clear `sync`, lock,
   shutdown() (client disconnect ultimatum + TLS close_notify), unlock -- does not wake the thread: as long
   as the server sends nothing and keeps the connection open, every schedule of GUI actions and thread
   turns leaves the thread in select(), its clone of the client alive; main()'s join waits for the server
   to react to the ultimatum. *)
Theorem C20_stop_needs_wakeup :
  forall (fin : list (option action)),
    forallb silent fin = true ->
    let s := run repaired (stop_sched ++ fin) init in
    pcs s = AtWait /\ refs s = 2%nat /\ released s = false /\ sync s = false /\
    outb s = [WUltimatum; WCloseNotify].
Proof. exact stop_needs_wakeup. Qed.
Print Assumptions C20_stop_needs_wakeup.

(* The fairness hypothesis is satisfiable by a plain shape of schedule: [length gs] rounds, each "any GUI
   actions, then the GUI drops its guard (if it holds one), then one turn of the thread", give the thread
   at least [length gs] turns; hence C20_terminates for such schedules. *)
Theorem C20_fair_rounds :
  forall (sc : list (option action)) (k : endkind) (more : list (option action)) (gs : list (list action)),
    let s := run repaired (sc ++ [Some (end_action k)] ++ more) init in
    Forall (fun g => forallb (fun a => silent (Some a)) g = true) gs -> (fuel_of s <= length gs)%nat ->
    (length gs <= turns repaired (concat (map round gs)) s)%nat /\
    pcs (run repaired (concat (map round gs)) s) = Exited /\
    released (run repaired (concat (map round gs)) s) = true.
Proof. exact loop_fair_rounds. Qed.
Print Assumptions C20_fair_rounds.

(* ... and it cannot be dropped, in either half:
   (1) a GUI that takes the mutex and never releases it (and does not clear `sync`): whatever the server
       sends, however the session ends, whatever else is scheduled, the thread never exits, forwards
       nothing, and the client is not released;
   (2) a GUI that releases the mutex again and again but takes it back before the thread's next turn
       starves the thread: after any number of such rounds it still sits in lock() -- the schedule gives it
       0 turns in the sense of [turns].  (std::sync::Mutex makes no fairness promise; the real GUI loop
       holds the mutex for a few writes per 16 ms frame.) *)
Theorem C20_fairness_needed :
  (forall (k : endkind) (fin : list (option action)),
     Forall keeps_holding fin ->
     let s := run repaired ([Some GuiLock; Some (Send [Fin (PEvents [1])]); Some (end_action k)] ++ fin) init in
     pcs s <> Exited /\ out s = [] /\ released s = false) /\
  (forall (k : endkind) (n : nat),
     let s0 := run repaired [Some GuiLock; Some (end_action k); None; None] init in
     let s := run repaired (concat (repeat starve_round n)) s0 in
     pcs s = AtLock /\ lock s = HeldByGui /\ released s = false /\
     turns repaired (concat (repeat starve_round n)) s0 = O).
Proof. exact (conj fairness_needed_hold fairness_needed_starve). Qed.
Print Assumptions C20_fairness_needed.

(* The loop AS FOUND refutes both halves (these are the two defects repaired in /repo, reproduced
   against the real thread before the repair):
   (i) after a TLS close_notify it iterates forever -- no amount of fuel brings it to rest -- taking
       the client mutex in every iteration;
   (ii) with three PDUs in one TLS record it forwards the first event, releases the mutex, goes back
        to select and stays blocked with an event AND a disconnect ultimatum in the TLS buffer. *)
Theorem C20_original_spins :
  forall fuel, exists s, quiesce original fuel (env_step (Close CloseNotify) init) = RSpin s.
Proof. exact original_spins. Qed.
Print Assumptions C20_original_spins.

Theorem C20_original_stalls :
  exists s', quiesce original (fuel_of coalesced) coalesced = RQuiet s' /\
             pcs s' = AtWait /\ out s' = [1] /\ tls s' = [Fin (PEvents [2]); Fin (PFail ERdp)] /\
             sock s' = [] /\ closed s' = None /\ lock s' = Free.
Proof. exact original_stalls. Qed.
Print Assumptions C20_original_stalls.

(* Non-vacuity: on the two witnesses above the repaired loop exits (having forwarded [1;2]) and releases
   the client; a schedule that splits one PDU over records, coalesces others, has the GUI block on the
   mutex while the thread sits in a half-read PDU, then hold the mutex while data arrives AND while the
   session ends (FIN), satisfies the fairness hypothesis with a tail of 40 lock/write/unlock rounds,
   delivers exactly [7;8;9], exits, releases the client, and the server has seen the two inputs written
   while the connection was open; and main_gui_loop's stop sequence followed by the server's close_notify
   takes the thread out without reading. *)
Theorem C20_nonvacuous :
  ((exists s', quiesce repaired (fuel_of dead) dead = RQuiet s' /\ pcs s' = Exited /\ released s' = true) /\
   (exists s', quiesce repaired (fuel_of coalesced) coalesced = RQuiet s' /\ pcs s' = Exited /\ out s' = [1; 2] /\
               released s' = true)) /\
  (let s := run repaired ex_sched init in
   let s' := run repaired ex_tail s in
   forallb silent ex_tail = true /\ (fuel_of s <= turns repaired ex_tail s)%nat /\
   pcs s = AtLock /\ lock s = HeldByGui /\ out s = [7] /\
   pcs s' = Exited /\ out s' = [7; 8; 9] /\ evs_of (hist s') = [7; 8; 9] /\ released s' = true /\
   outb s' = [WInput 1; WInput 2]) /\
  (let s1 := run repaired ex_stop init in
   let s2 := run repaired (repeat None 10) s1 in
   stopping (run repaired ([Some (Send [Fin (PEvents [5])]); None; None; None; None; None; None] ++ [Some GuiStop]) init) = true /\
   readable s1 = true /\ (fuel_of s1 <= turns repaired (repeat None 10) s1)%nat /\
   pcs s2 = Exited /\ released s2 = true /\ out s2 = [5] /\ outb s2 = [WUltimatum; WCloseNotify]).
Proof. exact (conj repaired_on_witnesses (conj ex_run ex_stop_run)). Qed.
Print Assumptions C20_nonvacuous.
