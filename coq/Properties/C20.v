(* C20 -- The GUI receive thread keeps up with the server and stops with the session.
   Statements only; every proof is `exact <lemma>` into C20_proofs.v.

   Model: GuiLoop.v -- the loop of `launch_rdp_thread` (src/bin/mstsc-rs.rs) as a transition
   system: `wait_for_fd` sees only the socket's queue of TLS records, `read` consumes one PDU
   through the TLS object's plaintext buffer, the server / the GUI act through [env_step].
   A schedule [list (option action)] interleaves environment actions ([Some a]) with single
   steps of the thread ([None]) in ANY order, so every theorem below holds for every moment of
   the wait / lock / read cycle at which an event can occur and for every packing of the PDUs
   into records ([Send r], r any list of PDU fragments and PDU ends).
   [repaired] = the loop as /repo has it after the two fix commits (the correspondence runs
   this variant against the real thread); [original] = the loop as found.

   PARTIAL BY NATURE (named in the evidence): the model has no real scheduler, no mutex fairness
   between the GUI and the receive thread, no select(2) corner cases (EINTR), no TCP segmentation
   inside a TLS record, and takes OpenSSL's record handling as "one record per pull, no
   read-ahead"; those are sampled by the seeded runs of the real thread only. *)
From RdpV Require Import Base GuiLoop C20_proofs.

(* Stops with the session.  Take ANY schedule, let the session end there in any of the four ways
   (disconnect ultimatum, undecodable PDU of either error class, TLS close_notify / FIN without
   alert / RST), followed by ANY further schedule: once the environment is silent the thread runs
   into its exit within [fuel_of s] of its own steps (3 per pending PDU fragment + 1 per pending
   record + 4) -- it never spins and never stays blocked.  Exited = the closure returned, i.e.
   the JoinHandle finishes and the thread's clone of the shared client is dropped. *)
Theorem C20_terminates :
  forall (sc : list (option action)) (k : endkind) (more : list (option action)),
    let s := run repaired (sc ++ [Some (end_action k)] ++ more) init in
    exists s', quiesce repaired (fuel_of s) s = RQuiet s' /\ pcs s' = Exited.
Proof. exact loop_terminates. Qed.
Print Assumptions C20_terminates.

(* Never spins, whether or not the session has ended: from every reachable state the thread
   comes to rest (blocked in select / in a read, or exited) within [fuel_of] steps. *)
Theorem C20_never_spins :
  forall (sc : list (option action)),
    exists s', quiesce repaired (fuel_of (run repaired sc init)) (run repaired sc init) = RQuiet s'.
Proof. exact loop_never_spins. Qed.
Print Assumptions C20_never_spins.

(* In order, nothing invented: at every moment of every schedule the events forwarded on the
   channel are a prefix of the bitmap events of the PDUs the server has put on the wire
   ([evs_of (hist s)]: in wire order, up to the first PDU on which read fails). *)
Theorem C20_order :
  forall (sc : list (option action)),
    exists rest, evs_of (hist (run repaired sc init)) = out (run repaired sc init) ++ rest.
Proof. exact loop_order. Qed.
Print Assumptions C20_order.

(* Keeps up without further traffic: after ANY schedule (any packing, any interleaving) in which
   the connection was not reset and the GUI has not cleared `sync`, once the server is silent the
   thread comes to rest having forwarded EVERY event sent so far; and if it has not exited it is
   blocked with the TLS buffer empty, the socket empty and the connection open -- nothing is left
   waiting for "more traffic". *)
Theorem C20_drains :
  forall (sc : list (option action)),
    closed (run repaired sc init) <> Some Reset -> sync (run repaired sc init) = true ->
    exists s', quiesce repaired (fuel_of (run repaired sc init)) (run repaired sc init) = RQuiet s' /\
               out s' = evs_of (hist (run repaired sc init)) /\
               (pcs s' <> Exited -> tls s' = [] /\ sock s' = [] /\ closed s' = None).
Proof. exact loop_drains. Qed.
Print Assumptions C20_drains.

(* The loop AS FOUND refutes both halves (these are the two defects repaired in /repo, reproduced
   against the real thread before the repair):
   (i) after a TLS close_notify it iterates forever -- no amount of fuel brings it to rest;
   (ii) with three PDUs in one TLS record it forwards the first event, goes back to select and
   stays blocked with an event AND a disconnect ultimatum in the TLS buffer. *)
Theorem C20_original_spins :
  forall fuel, exists s, quiesce original fuel (env_step (Close CloseNotify) init) = RSpin s.
Proof. exact original_spins. Qed.
Print Assumptions C20_original_spins.

Theorem C20_original_stalls :
  exists s', quiesce original (fuel_of coalesced) coalesced = RQuiet s' /\
             pcs s' = AtWait /\ out s' = [1] /\ tls s' = [Fin (PEvents [2]); Fin (PFail ERdp)] /\
             sock s' = [] /\ closed s' = None.
Proof. exact original_stalls. Qed.
Print Assumptions C20_original_stalls.

(* Non-vacuity: on the two witnesses above the repaired loop exits (having forwarded [1;2]); and a
   schedule that splits one PDU over three records, coalesces the rest of it with two more PDUs,
   lets the thread step in between and ends with a FIN delivers exactly [7;8;9] and exits. *)
Theorem C20_nonvacuous :
  ((exists s', quiesce repaired (fuel_of dead) dead = RQuiet s' /\ pcs s' = Exited) /\
   (exists s', quiesce repaired (fuel_of coalesced) coalesced = RQuiet s' /\ pcs s' = Exited /\ out s' = [1; 2])) /\
  (exists s', quiesce repaired (fuel_of (run repaired ex_sched init)) (run repaired ex_sched init) = RQuiet s' /\
              pcs s' = Exited /\ out s' = [7; 8; 9] /\ evs_of (hist s') = [7; 8; 9]).
Proof. exact (conj repaired_on_witnesses ex_run). Qed.
Print Assumptions C20_nonvacuous.
