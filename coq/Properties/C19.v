(* C19 -- Painting a bitmap into the window buffer is memory-safe and exact.
   Statements only; every proof is `exact <lemma>` into C19_proofs.v.

   Model: Blit.v ([fast_bitmap_transfer] of src/bin/mstsc-rs.rs as repaired by the two fix
   commits; every raw copy is a step checked against both buffer lengths, [BOob] = a copy that
   left a buffer).  Spec: RefBlit.v.  [wf_rect], [bw < 65536]: the event's fields are u16.
   [nlen buf < 2^62]: a Vec<u32> cannot be longer (allocation limit isize::MAX bytes).
   [crashes dec = false]: the decoder returned (its totality is property C08). *)
From RdpV Require Import Base Blit RefBlit C19_proofs.

(* For EVERY build profile, window buffer, window width (any number, 0 and 2^64-1 included),
   rectangle (inverted, outside the window, 65535 wide ...), image width and decoded image of
   ANY length: the call returns Ok or an error -- it never panics, never loops forever and NO
   raw copy reads outside the image or writes outside the window buffer; the buffer keeps its
   length. *)
Theorem C19_safe :
  forall (p : prof) (buf : list N) (W : N) (rc : rect) (bw : N) (dec : outcome (list N)),
    wf_rect rc -> bw < 65536 -> nlen buf < 2 ^ 62 -> crashes dec = false ->
    benign (fst (fast_bitmap_transfer p buf W rc bw dec)) /\
    length (snd (fast_bitmap_transfer p buf W rc bw dec)) = length buf.
Proof. exact blit_safe. Qed.
Print Assumptions C19_safe.

(* A rectangle inside a W x H window, and an image (of any row stride bw) that holds the
   rectangle's rows: the call SUCCEEDS, and afterwards every pixel (x,y) of the window is the
   image pixel (x-left, y-top) if (x,y) is in the rectangle and its old value otherwise. *)
Theorem C19_exact :
  forall (p : prof) (buf : list N) (W H : N) (rc : rect) (bw : N) (src : list N),
    wf_rect rc -> bw < 65536 -> nlen buf < 2 ^ 62 ->
    W * H = nlen buf ->
    r_left rc <= r_right rc -> r_right rc < W -> r_top rc <= r_bottom rc -> r_bottom rc < H ->
    (r_bottom rc - r_top rc) * bw + row_count rc <= nlen src ->
    exists buf',
      fast_bitmap_transfer p buf W rc bw (Ok src) = (BOk, buf') /\
      length buf' = length buf /\
      forall x y, x < W -> y < H -> pix buf' (y * W + x) = ref_pixel buf src W rc bw x y.
Proof. exact blit_exact. Qed.
Print Assumptions C19_exact.

(* The case of the property text: image dimensions = rectangle dimensions. *)
Theorem C19_exact_dims_match :
  forall (p : prof) (buf : list N) (W H : N) (rc : rect) (bh : N) (src : list N),
    wf_rect rc -> row_count rc < 65536 -> nlen buf < 2 ^ 62 -> W * H = nlen buf ->
    r_left rc <= r_right rc -> r_right rc < W -> r_top rc <= r_bottom rc -> r_bottom rc < H ->
    bh = r_bottom rc - r_top rc + 1 -> nlen src = row_count rc * bh ->
    exists buf',
      fast_bitmap_transfer p buf W rc (row_count rc) (Ok src) = (BOk, buf') /\
      length buf' = length buf /\
      forall x y, x < W -> y < H -> pix buf' (y * W + x) = ref_pixel buf src W rc (row_count rc) x y.
Proof. exact blit_exact_dims_match. Qed.
Print Assumptions C19_exact_dims_match.

(* An inverted rectangle or a decoder error is refused with the buffer untouched. *)
Theorem C19_refused_unchanged :
  forall (p : prof) (buf : list N) (W : N) (rc : rect) (bw : N) (dec : outcome (list N)),
    inverted rc = true \/ (exists e, dec = Err e) ->
    exists e, fast_bitmap_transfer p buf W rc bw dec = (BErr e, buf).
Proof. exact blit_refused_unchanged. Qed.
Print Assumptions C19_refused_unchanged.

(* What an error may leave behind, for ANY geometry (the code paints row by row and has no
   roll-back, so this is exactly what it guarantees): the error is InvalidSize, and the buffer is
   the old one with the first k rows of the rectangle copied, k smaller than the number of rows;
   rows 0..k-1 fitted both buffers and -- unless the rectangle was inverted -- row k is one that
   does not.  [painted ... 0 k f] = f overwritten by rows 0..k-1 in order (RefBlit.v). *)
Theorem C19_error_leaves_prefix_only :
  forall (p : prof) (buf : list N) (W : N) (rc : rect) (bw : N) (src : list N) (e : err) (buf' : list N),
    wf_rect rc -> bw < 65536 -> nlen buf < 2 ^ 62 ->
    fast_bitmap_transfer p buf W rc bw (Ok src) = (BErr e, buf') ->
    e = EInvalidSize /\ length buf' = length buf /\
    exists k : nat,
      (k < nrows rc)%nat /\
      (forall j, j < N.of_nat k -> row_fits W rc bw (nlen src) (nlen buf) j) /\
      (inverted rc = true \/ ~ row_fits W rc bw (nlen src) (nlen buf) (N.of_nat k)) /\
      (forall q, pix buf' q = painted src W rc bw 0 k (pix buf) q).
Proof. exact blit_error_prefix. Qed.
Print Assumptions C19_error_leaves_prefix_only.

(* The same in window coordinates, for a rectangle whose columns lie inside the window: after an
   error only pixels of the rectangle's complete earlier rows (y < top + k, k <= bottom - top) differ
   from the old buffer, and they hold the image's pixels; everything else is unchanged. *)
Theorem C19_error_unchanged_outside :
  forall (p : prof) (buf : list N) (W : N) (rc : rect) (bw : N) (src : list N) (e : err) (buf' : list N),
    wf_rect rc -> bw < 65536 -> nlen buf < 2 ^ 62 ->
    r_left rc <= r_right rc -> r_right rc < W ->
    fast_bitmap_transfer p buf W rc bw (Ok src) = (BErr e, buf') ->
    length buf' = length buf /\
    exists k : N,
      k <= r_bottom rc - r_top rc /\
      forall x y, x < W ->
        pix buf' (y * W + x) =
        if in_rect rc x y && (y <? r_top rc + k)
        then nth (N.to_nat ((y - r_top rc) * bw + (x - r_left rc))) src 0
        else pix buf (y * W + x).
Proof. exact blit_error_inside. Qed.
Print Assumptions C19_error_unchanged_outside.

(* "Changes nothing else", for every geometry and every outcome: a buffer cell that lies in the
   footprint [(i+top)*W+left, +right-left+1) of no row i of the rectangle keeps its value. *)
Theorem C19_changes_only_footprint :
  forall (p : prof) (buf : list N) (W : N) (rc : rect) (bw : N) (dec : outcome (list N)) (q : N),
    wf_rect rc -> bw < 65536 -> nlen buf < 2 ^ 62 -> crashes dec = false ->
    (forall j, j <= r_bottom rc - r_top rc -> in_row W rc j q = false) ->
    pix (snd (fast_bitmap_transfer p buf W rc bw dec)) q = pix buf q.
Proof. exact blit_footprint. Qed.
Print Assumptions C19_changes_only_footprint.

(* Non-vacuity: a 4x3 window, the rectangle (1,1)-(2,2) and a 2x2 image satisfy every hypothesis
   of C19_exact_dims_match, and the model paints exactly the four pixels under both profiles; the
   same call with a one-row image paints one row and fails; an inverted rectangle and a window
   width of 2^63 are refused with the buffer untouched. *)
Theorem C19_nonvacuous :
  (wf_rect ex_rect /\ nlen ex_buf < 2 ^ 62 /\ 4 * 3 = nlen ex_buf /\
   r_left ex_rect <= r_right ex_rect /\ r_right ex_rect < 4 /\ r_top ex_rect <= r_bottom ex_rect /\ r_bottom ex_rect < 3 /\
   nlen ex_img = row_count ex_rect * (r_bottom ex_rect - r_top ex_rect + 1)) /\
  (forall p, fast_bitmap_transfer p ex_buf 4 ex_rect 2 (Ok ex_img) = (BOk, [10; 11; 12; 13; 14; 1; 2; 17; 18; 3; 4; 21])) /\
  (forall p, fast_bitmap_transfer p ex_buf 4 ex_rect 2 (Ok [1; 2]) = (BErr EInvalidSize, [10; 11; 12; 13; 14; 1; 2; 17; 18; 19; 20; 21])) /\
  (forall p, fast_bitmap_transfer p ex_buf 4 (mkRect 1 2 2 1) 2 (Ok ex_img) = (BErr EInvalidSize, ex_buf) /\
             fast_bitmap_transfer p ex_buf (2 ^ 63) (mkRect 0 2 0 2) 1 (Ok ex_img) = (BErr EInvalidSize, ex_buf)).
Proof. exact (conj ex_hyps (conj ex_runs (conj ex_err ex_refused))). Qed.
Print Assumptions C19_nonvacuous.
