(* C09 -- Decompressed bitmaps are pixel-exact.
   Statements only; every proof is `exact <lemma>`.  The model functions are those of C08
   ([decompress], coq/Bitmap.v Rle16.v Rle32.v Buf.v); the specification is coq/RefRle.v,
   written from MS-RDPBCGR 2.2.9.1.1.3.1.2.4 / 3.1.9 and MS-RDPEGDI 3.1.9.2 (flat per-pixel
   semantics, every legal header form, planar segments, delta rows, nearest-integer widening). *)
From RdpV Require Import Base Buf Rle16 Rle32 Bitmap RefRle CodecLemmas CodecContent C08_proofs C09_proofs
     Planar_proofs Rle16_sem_proofs RefRleLit RefRleLit_proofs C09_rle16.

(* The widening computed by rgb565torgb32 (the model's u16 expressions ((c*527+23)>>6 etc.,
   [model_widen]) is, for EVERY 16-bit value, the nearest integer to c*255/31 (c*255/63 for
   green) per channel, alpha 255.  Finite domain per channel (32 / 64 values) checked by
   vm_compute and lifted; the bound on v is not even needed. *)
Theorem C09_widen_exact : forall v, v < 65536 -> model_widen v = widen565 v.
Proof. exact widen_exact_u16. Qed.
Print Assumptions C09_widen_exact.

(* Uncompressed 16 bpp: for EVERY image (h rows of w 16-bit pixels, top-down) sent bottom-up,
   little-endian, decompression returns exactly that image, rows top-down, each pixel widened. *)
Theorem C09_raw16 :
  forall (p : prof) (w h : N), w < 65536 -> h < 65536 ->
  forall rows : list (list N),
    length rows = N.to_nat h -> uniform (N.to_nat w) rows ->
    Forall (fun r => Forall (fun v => v < 65536) r) rows ->
    decompress p w h 16 false (raw16_wire rows) = ([2 * (w * h); 4 * (w * h)], Ok (bgra16 (concat rows))).
Proof. exact raw16_exact. Qed.
Print Assumptions C09_raw16.

(* Uncompressed 32 bpp: for EVERY image (h rows of 4*w bytes B G R A, top-down) sent bottom-up,
   decompression returns exactly the rows top-down. *)
Theorem C09_raw32 :
  forall (p : prof) (w h : N), w < 65536 -> h < 65536 ->
  forall rows : list (list N),
    length rows = N.to_nat h -> uniform (N.to_nat (w * 4)) rows ->
    decompress p w h 32 false (raw32_wire rows) = ([4 * (w * h)], Ok (concat rows)).
Proof. exact raw32_exact. Qed.
Print Assumptions C09_raw32.

(* Planar RLE: for EVERY four planes given as conformant segment lists (ANY segmentation accepted
   by the spec: raw+run segments, long runs 16..47, first line absolute, later lines as deltas to
   the line below), the decoder returns exactly the image those planes describe, BGRA, top-down. *)
Theorem C09_planar :
  forall (p : prof) (w h : N) (a r g b : list (list pseg)),
    w < 65536 -> h < 65536 -> 0 < w -> 0 < h ->
    plane_ok w h a = true -> plane_ok w h r = true -> plane_ok w h g = true -> plane_ok w h b = true ->
    decompress p w h 32 true (ser_planar a r g b) = ([4 * (w * h)], Ok (planar_image a r g b)).
Proof. exact planar_exact. Qed.
Print Assumptions C09_planar.

(* Interleaved RLE at 16 bpp, FULL: for every image (rows top-down), EVERY order list os of the grammar
   -- any mix of all twelve order kinds: background runs (with the foreground-insertion rule between
   consecutive background runs and its first-line exception), foreground runs, SET-foreground runs,
   FGBG images and SET-FGBG images (any mask bytes, any length, runs spanning scan lines), colour runs,
   colour images, dithered runs, the special codes F9 / FA, white and black -- whose flat per-pixel
   semantics is the bottom-up image, and EVERY legal serialisation bs of it (short, extended and
   mega-mega headers in any mix, `serialises`), decompression returns exactly the image, widened,
   rows top-down, in both build profiles.  No hypothesis on the orders beyond the grammar itself. *)
Theorem C09_rle16 :
  forall (p : prof) (w h : N) (rows : list (list N)) (os : list order) (bs : bytes),
    w < 65536 -> h < 65536 -> 0 < w ->
    length rows = N.to_nat h -> uniform (N.to_nat w) rows ->
    serialises os bs -> sem w os = concat (rev rows) ->
    decompress p w h 16 true bs = ([4 * (w * h); 4 * (w * h)], Ok (bgra16 (concat rows))).
Proof. exact rle16_exact. Qed.
Print Assumptions C09_rle16.

(* The two readings of the standard.  coq/RefRleLit.v transcribes the MS-RDPBCGR 3.1.9 pseudo-code
   LITERALLY: fFirstLine is tested once per order (and cleared, together with fInsertFgPel, when the
   destination has reached one scan line) and then frozen for all pixels of the order.  On every
   serialisable order list none of whose orders begins before and ends after the end of the first
   scan line, that reading and the per-pixel reading `sem` of RefRle.v describe the same pixels. *)
Theorem C09_literal_reading_agrees :
  forall (w : N) (os : list order) (bs : bytes),
    0 < w -> serialises os bs -> no_straddle w os = true -> lit_sem w os = sem w os.
Proof. exact lit_sem_agrees. Qed.
Print Assumptions C09_literal_reading_agrees.

(* Hence C09_rle16 also holds with the literal reading as the specification, for such streams. *)
Theorem C09_rle16_literal :
  forall (p : prof) (w h : N) (rows : list (list N)) (os : list order) (bs : bytes),
    w < 65536 -> h < 65536 -> 0 < w ->
    length rows = N.to_nat h -> uniform (N.to_nat w) rows ->
    serialises os bs -> no_straddle w os = true -> lit_sem w os = concat (rev rows) ->
    decompress p w h 16 true bs = ([4 * (w * h); 4 * (w * h)], Ok (bgra16 (concat rows))).
Proof. exact rle16_exact_literal. Qed.
Print Assumptions C09_rle16_literal.

(* The side condition is needed: a 3-pixel foreground run on a 2-pixel-wide image (one byte, 0x23)
   straddles the first line; the literal reading gives white white white, the per-pixel reading
   (which C09_rle16 proves the decoder implements) gives white white black. *)
Theorem C09_literal_reading_differs_when_straddling :
  ser FShort (OFg 3) = Some [35] /\ no_straddle 2 [OFg 3] = false /\
  lit_sem 2 [OFg 3] = [65535; 65535; 65535] /\ sem 2 [OFg 3] = [65535; 65535; 0].
Proof. exact lit_sem_differs. Qed.
Print Assumptions C09_literal_reading_differs_when_straddling.

(* Non-vacuity (1): every image of 16-bit pixels has an encoding: one colour-image order per scan
   line serialises and means exactly the rows. *)
Theorem C09_nonvacuous :
  forall (w : N) (rws : list (list N)),
    0 < w -> w < 65536 -> uniform (N.to_nat w) rws -> Forall (fun r => Forall (fun v => v < 65536) r) rws ->
    exists bs, serialises (map OImage rws) bs /\ sem w (map OImage rws) = concat rws.
Proof. exact trivial_encoding. Qed.
Print Assumptions C09_nonvacuous.

(* Non-vacuity (2): a 4 x 10 stream using ALL twelve order kinds, the three header forms and two
   consecutive background runs serialises to the given bytes (evaluation of the spec), and the decoder
   model returns exactly bgra16 of its flat semantics flipped to top-down, in both build profiles --
   proved as an INSTANCE of C09_rle16 (not by evaluating the decoder). *)
Theorem C09_example_all_orders :
  ser_all ex_orders = Some ex_stream /\ nlen (sem 4 (map snd ex_orders)) = 40 /\
  snd (decompress Debug 4 10 16 true ex_stream) = Ok (bgra16 (flip_rows 4 10 (sem 4 (map snd ex_orders)))) /\
  snd (decompress Release 4 10 16 true ex_stream) = Ok (bgra16 (flip_rows 4 10 (sem 4 (map snd ex_orders)))).
Proof. exact ex_all_orders. Qed.
Print Assumptions C09_example_all_orders.
