(* C18 -- Encoders and decoders are mutually inverse and agree with reference codecs.
   Statements only; every proof is `exact <lemma>` into MsgTheory.v, C18_layouts.v,
   C18_per_proofs.v, C18_der_proofs.v, C18_gcc_proofs.v (decode after encode) and
   C18_inv_per.v, C18_inv_der.v, C18_inv_msg.v, C18_inv_layouts.v, C18_inv_gcc.v (encode after
   decode; definitions in Canon.v, reference decoders in RefPerDec.v). *)
From RdpV Require Import Base Msg MsgTheory LayoutsGlobal C18_layouts Per RefPer C18_per_proofs
  Der C18_der_proofs C18_der_examples Gcc RefGcc C18_gcc_proofs.
From RdpV Require Global C18_per_global.
From RdpV Require Import LayoutsConnect LayoutsNtlm RefPerDec C18_inv_base C18_inv_per C18_inv_der C18_inv_msg C18_inv_layouts C18_inv_gcc.
Open Scope list_scope.
Open Scope N_scope.

(* ============================== the message model (model/data.rs) ============================== *)

(* For EVERY message tree (any nesting of u8, U16/U32 of either endianness, Vec<u8>, Trame,
   Component with Size / SkipField closures, Check, DynOption, Option, Array) and both build
   profiles: whenever writing is defined (no closure panics), length() is defined and equals the
   number of bytes written; and writing is undefined exactly when length() is. *)
Theorem C18_length_write :
  forall p m b, write p m = Some b -> mlength p m = Some (nlen b).
Proof. exact length_write. Qed.
Print Assumptions C18_length_write.

Theorem C18_write_defined_iff_length :
  forall p m, write p m = None <-> mlength p m = None.
Proof. exact write_defined_iff_length. Qed.
Print Assumptions C18_write_defined_iff_length.

(* For EVERY pair (empty template t, message m) accepted by the executable predicate [wf]
   (same shape; 16/32-bit leaves within their width; an unsized Vec<u8> / an Array / an absent
   trailing Option only where nothing follows in the reader -- last field of a bounded reader, inside
   a sized sub-cursor, or followed only by fields that write nothing (consecutive absent Options); sizes announced by Size closures equal to the sized field's
   length(); fields skipped by a SkipField closure carry the template's value; Check values equal
   to their constants; array elements self-delimiting, non-empty, the element template failing
   cleanly at end of input), every trailing [rest] (empty when the message relies on a bounded
   reader): reading the written bytes into the template reproduces m exactly -- every field --
   and leaves exactly [rest] unread. *)
Theorem C18_read_write :
  forall p t m closed b rest,
    wf p closed t m = true -> write p m = Some b -> (closed = true -> rest = []) ->
    exists a, read p t (b ++ rest) = ROk m rest a.
Proof. exact read_write. Qed.
Print Assumptions C18_read_write.

(* the three facts together, from well-formedness alone: the message can be written, its
   length() is the number of bytes, and they read back to it with exact consumption *)
Theorem C18_read_write_total :
  forall p t m closed, wf p closed t m = true ->
    exists b, write p m = Some b /\ mlength p m = Some (nlen b) /\
              forall rest, (closed = true -> rest = []) -> exists a, read p t (b ++ rest) = ROk m rest a.
Proof. exact read_write_total. Qed.
Print Assumptions C18_read_write_total.

(* Non-vacuity of [wf]: one instance of every node kind nested together (a sized array of sized
   components, a Check, a trailing absent Option) satisfies it and round-trips by computation. *)
Theorem C18_read_write_nonvacuous :
  wf Debug true ex_all_t ex_all_m = true /\ roundtrips Debug ex_all_t ex_all_m [] = true.
Proof. exact ex_all. Qed.
Print Assumptions C18_read_write_nonvacuous.

(* The layouts the client emits, for ALL field values and payload bytes in range (symbolic
   payloads): written bytes read back into the layout's template give the same PDU, followed
   by any bytes. *)
Theorem C18_share_control_header :
  forall p pdu_type pdu_source message rest,
    pdu_type < 65536 -> pdu_source < 65536 -> nlen message + 6 < 65536 ->
    exists b a,
      write p (share_control_header pdu_type pdu_source message) = Some b /\
      mlength p (share_control_header pdu_type pdu_source message) = Some (nlen b) /\
      read p share_control_header_t (b ++ rest) = ROk (share_control_header pdu_type pdu_source message) rest a.
Proof. exact share_control_header_rt. Qed.
Print Assumptions C18_share_control_header.

Theorem C18_share_data_header :
  forall p share_id pdu_type_2 message rest,
    share_id < 4294967296 -> nlen message + 18 < 65536 ->
    exists b a,
      write p (share_data_header share_id pdu_type_2 message) = Some b /\
      mlength p (share_data_header share_id pdu_type_2 message) = Some (nlen b) /\
      read p share_data_header_t (b ++ rest) = ROk (share_data_header share_id pdu_type_2 message) rest a.
Proof. exact share_data_header_rt. Qed.
Print Assumptions C18_share_data_header.

Theorem C18_capability_set :
  forall p cap_type body rest,
    cap_type < 65536 -> nlen body + 4 < 65536 ->
    exists b a,
      write p (capability_set cap_type body (nlen body)) = Some b /\
      mlength p (capability_set cap_type body (nlen body)) = Some (nlen b) /\
      read p capability_set_t (b ++ rest) = ROk (capability_set cap_type body (nlen body)) rest a.
Proof. exact capability_set_rt. Qed.
Print Assumptions C18_capability_set.

(* confirm-active with ANY list of capability sets; the PDU read back is the one written with the
   array's element factory filled in (Array::from_trame has none; write/length ignore it) *)
Theorem C18_confirm_active :
  forall p share_id source caps caps_len rest,
    share_id < 4294967296 -> nlen source < 65536 ->
    Forall is_capset caps -> mlength p (MArray caps None) = Some caps_len -> caps_len + 4 < 65536 ->
    exists b a,
      write p (ts_confirm_active_pdu share_id source caps caps_len) = Some b /\
      mlength p (ts_confirm_active_pdu share_id source caps caps_len) = Some (nlen b) /\
      read p ts_confirm_active_pdu_t (b ++ rest) = ROk (ts_confirm_active_pdu_r share_id source caps caps_len) rest a.
Proof. exact ts_confirm_active_pdu_rt. Qed.
Print Assumptions C18_confirm_active.

Theorem C18_synchronize :
  forall p t0 target_user rest, target_user < 65536 ->
    exists b a,
      write p (ts_synchronize_pdu target_user) = Some b /\
      mlength p (ts_synchronize_pdu target_user) = Some (nlen b) /\
      read p (ts_synchronize_pdu t0) (b ++ rest) = ROk (ts_synchronize_pdu target_user) rest a.
Proof. exact ts_synchronize_pdu_rt. Qed.
Print Assumptions C18_synchronize.

Theorem C18_control :
  forall p a0 action rest, action < 65536 ->
    exists b a,
      write p (ts_control_pdu action) = Some b /\
      mlength p (ts_control_pdu action) = Some (nlen b) /\
      read p (ts_control_pdu a0) (b ++ rest) = ROk (ts_control_pdu action) rest a.
Proof. exact ts_control_pdu_rt. Qed.
Print Assumptions C18_control.

Theorem C18_font_list :
  forall p rest,
    exists b a,
      write p ts_font_list_pdu = Some b /\ mlength p ts_font_list_pdu = Some (nlen b) /\
      read p ts_font_list_pdu (b ++ rest) = ROk ts_font_list_pdu rest a.
Proof. exact ts_font_list_pdu_rt. Qed.
Print Assumptions C18_font_list.

Theorem C18_pointer_event :
  forall p f0 x0 y0 flags x y rest, flags < 65536 -> x < 65536 -> y < 65536 ->
    exists b a,
      write p (ts_pointer_event flags x y) = Some b /\
      mlength p (ts_pointer_event flags x y) = Some (nlen b) /\
      read p (ts_pointer_event f0 x0 y0) (b ++ rest) = ROk (ts_pointer_event flags x y) rest a.
Proof. exact ts_pointer_event_rt. Qed.
Print Assumptions C18_pointer_event.

Theorem C18_keyboard_event :
  forall p f0 c0 flags code rest, flags < 65536 -> code < 65536 ->
    exists b a,
      write p (ts_keyboard_event flags code) = Some b /\
      mlength p (ts_keyboard_event flags code) = Some (nlen b) /\
      read p (ts_keyboard_event f0 c0) (b ++ rest) = ROk (ts_keyboard_event flags code) rest a.
Proof. exact ts_keyboard_event_rt. Qed.
Print Assumptions C18_keyboard_event.

(* an input event: its data block is unsized in the crate; it reads back either into a template
   holding a block of the same length, or as the last thing of a bounded reader *)
Theorem C18_input_event :
  forall p mt0 td message_type data rest,
    message_type < 65536 -> td <> [] -> List.length td = List.length data ->
    exists b a,
      write p (ts_input_event message_type data) = Some b /\
      mlength p (ts_input_event message_type data) = Some (nlen b) /\
      read p (ts_input_event mt0 td) (b ++ rest) = ROk (ts_input_event message_type data) rest a.
Proof. exact ts_input_event_rt_fixed. Qed.
Print Assumptions C18_input_event.

(* the input PDU with ANY list of events whose data blocks have the template's length *)
Theorem C18_input_pdu :
  forall p mt0 td events,
    td <> [] -> Forall (is_input_event td) events ->
    exists b a,
      write p (ts_input_pdu_data events) = Some b /\
      mlength p (ts_input_pdu_data events) = Some (nlen b) /\
      read p (ts_input_pdu_data_t mt0 td) b = ROk (ts_input_pdu_data_r mt0 td events) [] a.
Proof. exact ts_input_pdu_data_rt. Qed.
Print Assumptions C18_input_pdu.

(* ============================== PER (core/per.rs) ============================== *)

(* length determinant: EVERY n the form can carry (15 bits) is read back exactly, whatever
   follows, and the bytes are those of the reference encoder (X.691 10.9; strict X.691 below 2^14) *)
Theorem C18_per_length :
  forall n rest, n < 32768 ->
    per_read_length (per_write_length n ++ rest) = Ok (n, rest) /\ ref_length n = Some (per_write_length n).
Proof. exact per_length_both. Qed.
Print Assumptions C18_per_length.

(* what write_length(u16) does above its domain, stated rather than hidden: the flag bit
   swallows bit 15 and n - 0x8000 is read back (no caller passes such a length: frames are
   refused above 65531 bytes by C14's repair, and every PER-framed structure of a connection
   is far smaller) *)
Theorem C18_per_length_above_domain :
  forall n rest, 32768 <= n -> n < 65536 ->
    per_read_length (per_write_length n ++ rest) = Ok (n - 32768, rest).
Proof. exact per_length_above. Qed.
Print Assumptions C18_per_length_above_domain.

(* integer: EVERY u32, by cases on the three size classes *)
Theorem C18_per_integer :
  forall n rest, n < 4294967296 ->
    per_read_integer (per_write_integer n ++ rest) = Ok (n, rest) /\ ref_integer n = Some (per_write_integer n).
Proof. exact per_integer_both. Qed.
Print Assumptions C18_per_integer.

(* integer_16: EVERY (minimum, value) pair with minimum <= value <= 65535, both profiles *)
Theorem C18_per_integer_16 :
  forall p v m rest, m <= v -> v < 65536 ->
    exists b, per_write_integer_16 p v m = Ok b /\ per_read_integer_16 m (b ++ rest) = Ok (v, rest)
              /\ ref_integer_16 m v = Some b.
Proof. exact per_integer_16_roundtrip. Qed.
Print Assumptions C18_per_integer_16.

(* object identifier: EVERY 6-tuple with arc1 <= 2, arc2 <= 39, the others <= 127 is written on
   6 bytes, equal to the X.690 reference, and recognised; any other 6-tuple is refused *)
Theorem C18_per_oid :
  forall oid rest, oid_in_domain oid = true ->
    exists b, per_write_object_identifier oid = Ok b
              /\ per_read_object_identifier oid (b ++ rest) = Ok (true, rest)
              /\ ref_oid oid = Some b /\ nlen b = 6.
Proof. exact per_oid_roundtrip. Qed.
Print Assumptions C18_per_oid.

Theorem C18_per_oid_refused :
  forall oid, nlen oid = 6 -> oid_in_domain oid = false -> per_write_object_identifier oid = Err EInvalidData.
Proof. exact per_oid_refused. Qed.
Print Assumptions C18_per_oid_refused.

(* the reader compares ALL six arcs: it answers `true` exactly for the identifier written *)
Theorem C18_per_oid_distinguishes :
  forall oid oid' b rest,
    oid_in_domain oid = true -> oid_in_domain oid' = true -> per_write_object_identifier oid = Ok b ->
    per_read_object_identifier oid' (b ++ rest) = Ok (oid_eqb oid oid', rest).
Proof. exact per_oid_distinguishes. Qed.
Print Assumptions C18_per_oid_distinguishes.

(* octet stream: EVERY string and minimum with minimum <= length and length - minimum < 2^15 *)
Theorem C18_per_octet_stream :
  forall p s m rest, nlen s <= per_isize_max -> m <= nlen s -> nlen s - m < 32768 ->
    per_read_octet_stream p s m (per_write_octet_stream s m ++ rest) = Ok (tt, rest)
    /\ ref_octet_string m s = Some (per_write_octet_stream s m).
Proof. exact per_octet_stream_roundtrip. Qed.
Print Assumptions C18_per_octet_stream.

(* ... and the written bytes are accepted only against the very string written *)
Theorem C18_per_octet_stream_distinguishes :
  forall p s s' m rest r, nlen s <= per_isize_max -> m <= nlen s -> nlen s - m < 32768 ->
    per_read_octet_stream p s' m (per_write_octet_stream s m ++ rest) = Ok (tt, r) -> s' = s /\ r = rest.
Proof. exact per_octet_stream_distinguishes. Qed.
Print Assumptions C18_per_octet_stream_distinguishes.

(* numeric string: EVERY string of decimal digits, two per octet *)
Theorem C18_per_numeric_string :
  forall p s m rest,
    forallb is_digit s = true -> nlen s <= per_isize_max -> m <= nlen s -> nlen s - m < 32768 ->
    exists b, per_write_numeric_string p s m = Ok b
              /\ per_read_numeric_string p m (b ++ rest) = Ok (s, rest)
              /\ ref_numeric_string m s = Some b.
Proof. exact per_numeric_string_roundtrip. Qed.
Print Assumptions C18_per_numeric_string.

Theorem C18_per_padding :
  forall n rest, n <= per_isize_max ->
    exists b, per_write_padding n = Ok b /\ nlen b = n /\ per_read_padding n (b ++ rest) = Ok (tt, rest).
Proof. exact per_padding_roundtrip. Qed.
Print Assumptions C18_per_padding.

(* choice / selection / number-of-set / enumerates: one octet, every value *)
Theorem C18_per_one_octet :
  forall c rest,
    per_read_choice (per_write_choice c ++ rest) = Ok (c, rest) /\
    per_read_selection (per_write_selection c ++ rest) = Ok (c, rest) /\
    per_read_number_of_set (per_write_number_of_set c ++ rest) = Ok (c, rest) /\
    per_read_enumerates (per_write_enumerates c :: rest) = Ok (c, rest).
Proof. exact per_one_octet. Qed.
Print Assumptions C18_per_one_octet.

(* non-vacuity: the identifier, integers and conference name the crate really sends, and the
   witnesses of the repaired defects, by computation *)
Theorem C18_per_nonvacuous :
  oid_in_domain [0; 0; 20; 124; 0; 1] = true /\
  per_write_object_identifier [0; 0; 20; 124; 0; 1] = Ok [5; 0; 20; 124; 0; 1] /\
  per_write_object_identifier [1; 2; 20; 124; 5; 1] = Ok [5; 42; 20; 124; 5; 1] /\
  per_read_object_identifier [1; 2; 20; 124; 5; 1] [5; 42; 20; 124; 5; 1] = Ok (true, []) /\
  per_read_object_identifier [1; 2; 20; 124; 0; 1] [5; 42; 20; 124; 5; 1] = Ok (false, []) /\
  per_write_integer 255 = [1; 255] /\ per_write_integer 65535 = [2; 255; 255] /\
  per_write_numeric_string Debug [49] 1 = Ok [0; 16] /\
  per_read_numeric_string Debug 1 [1; 18; 170] = Ok ([49; 50], [170]).
Proof. exact per_instances. Qed.
Print Assumptions C18_per_nonvacuous.

(* ============================== BER/DER (nla/asn1.rs over yasna, modelled) ============================== *)

(* EVERY value of the grammar used (INTEGER u32, ENUMERATED, BOOLEAN, OCTET STRING, SEQUENCE,
   SEQUENCE OF, explicit and implicit tags of any class and number, any nesting), decoded
   against any schema it conforms to, comes back exactly, and exactly its bytes are consumed *)
Theorem C18_der_roundtrip :
  forall v sch rest, dwf v = true -> conforms sch v = true ->
    der_decode sch (der_encode v ++ rest) = Some (v, rest).
Proof. exact der_roundtrip. Qed.
Print Assumptions C18_der_roundtrip.

(* identifier, definite length (short and long form) and integer contents: every value *)
Theorem C18_der_primitives :
  (forall n rest, dec_len (enc_len n ++ rest) = Some (n, rest)) /\
  (forall c k t rest, dec_ident (enc_ident c k t ++ rest) = Some ((c, k, t), rest)) /\
  (forall n, dec_int (enc_int n) = Some n).
Proof. exact (conj dec_len_enc_len (conj dec_ident_enc_ident dec_int_enc_int)). Qed.
Print Assumptions C18_der_primitives.

(* the announced length is the length of the contents *)
Theorem C18_der_length :
  forall v, der_encode v =
    enc_ident (fst (der_tag v)) (der_constructed v) (snd (der_tag v)) ++ enc_len (nlen (der_content v)) ++ der_content v.
Proof. exact der_encode_length. Qed.
Print Assumptions C18_der_length.

(* MCS connect-initial / connect-response and the CredSSP structures, every payload *)
Theorem C18_der_connect_initial :
  forall user_data rest,
    der_decode connect_initial_sch (der_encode (connect_initial user_data) ++ rest) = Some (connect_initial user_data, rest).
Proof. exact connect_initial_roundtrip. Qed.
Print Assumptions C18_der_connect_initial.

Theorem C18_der_connect_response :
  forall user_data rest,
    der_decode connect_response_sch (der_encode (connect_response user_data) ++ rest) = Some (connect_response user_data, rest).
Proof. exact connect_response_roundtrip. Qed.
Print Assumptions C18_der_connect_response.

Theorem C18_der_ts_request_family :
  (forall nego rest, der_decode ts_request_sch (der_encode (ts_request nego) ++ rest) = Some (ts_request nego, rest)) /\
  (forall nego pubkey rest, der_decode ts_authenticate_sch (der_encode (ts_authenticate nego pubkey) ++ rest)
                            = Some (ts_authenticate nego pubkey, rest)) /\
  (forall pubkey rest, der_decode ts_validate_sch (der_encode (ts_validate pubkey) ++ rest) = Some (ts_validate pubkey, rest)) /\
  (forall dom user pw rest, der_decode ts_credentials_sch (der_encode (ts_credentials dom user pw) ++ rest)
                            = Some (ts_credentials dom user pw, rest)) /\
  (forall info rest, der_decode ts_authinfo_sch (der_encode (ts_authinfo info) ++ rest) = Some (ts_authinfo info, rest)).
Proof.
  exact (conj ts_request_roundtrip (conj ts_authenticate_roundtrip (conj ts_validate_roundtrip
          (conj ts_credentials_roundtrip ts_authinfo_roundtrip)))).
Qed.
Print Assumptions C18_der_ts_request_family.

(* non-vacuity / anchoring: the model reproduces the crate's own test vector for connect-initial *)
Theorem C18_der_nonvacuous :
  der_encode (connect_response [1; 2; 3]) =
  [127; 102; 39; 10; 1; 0; 2; 1; 0; 48; 26; 2; 1; 22; 2; 1; 3; 2; 1; 0; 2; 1; 1; 2; 1; 0; 2; 1; 1; 2; 3; 0; 255; 248; 2; 1; 2; 4; 3; 1; 2; 3].
Proof. exact C18_der_examples.ex_connect_response. Qed.
Print Assumptions C18_der_nonvacuous.

(* ============================== GCC (core/gcc.rs) ============================== *)

(* Version::from: the complete table *)
Theorem C18_gcc_version_table :
  version_from 524289 = RdpVersion /\ version_from 524292 = RdpVersion5plus /\
  forall e, e <> 524289 -> e <> 524292 -> version_from e = VersionUnknown.
Proof. exact version_from_table. Qed.
Print Assumptions C18_gcc_version_table.

(* conference create request: for EVERY user data whose announced length fits the determinant,
   both profiles, the bytes written are those of the reference encoder (T.124 / MS-RDPBCGR 2.2.1.3) *)
Theorem C18_gcc_request_ref :
  forall p user_data, nlen user_data + 14 < 32768 ->
    exists b, gcc_write_conference_create_request p user_data = Ok b
              /\ ref_conference_create_request user_data = Some b.
Proof. exact gcc_request_ref. Qed.
Print Assumptions C18_gcc_request_ref.

(* conference create response: EVERY response the reference encoder produces -- any channel ids,
   any version, requested protocols / capability flags present or not, any node id, tag, result --
   is read back to exactly the channel ids and the version *)
Theorem C18_gcc_response_roundtrip :
  forall p node_id tag result version requested flags method level io ids b,
    io < 65536 -> Forall (fun i => i < 65536) ids ->
    version < 4294967296 -> opt_lt requested 4294967296 -> opt_lt flags 4294967296 ->
    method < 4294967296 -> level < 4294967296 ->
    1001 <= node_id -> node_id <= 65535 -> tag < 4294967296 -> result < 256 -> nlen ids < 16000 ->
    ref_conference_create_response node_id tag result
      (ref_sc_core version requested flags ++ ref_sc_security method level ++ ref_sc_net io ids) = Some b ->
    gcc_read_conference_create_response p b = Ok (io, ids, version_from version).
Proof. exact gcc_response_roundtrip. Qed.
Print Assumptions C18_gcc_response_roundtrip.

(* ... and the reference encoder is defined on all of that domain (the theorem above is not vacuous) *)
Theorem C18_gcc_response_defined :
  forall node_id tag result version requested flags method level io ids,
    1001 <= node_id -> node_id <= 65535 -> tag < 4294967296 -> result < 256 -> nlen ids < 16000 ->
    exists b, ref_conference_create_response node_id tag result
                (ref_sc_core version requested flags ++ ref_sc_security method level ++ ref_sc_net io ids) = Some b.
Proof. exact gcc_response_defined. Qed.
Print Assumptions C18_gcc_response_defined.

(* the three blocks in any order, and with any blocks of unknown type interleaved *)
Theorem C18_gcc_response_any_order :
  forall p node_id tag result version requested flags method level io ids bl b,
    io < 65536 -> Forall (fun i => i < 65536) ids ->
    version < 4294967296 -> opt_lt requested 4294967296 -> opt_lt flags 4294967296 ->
    method < 4294967296 -> level < 4294967296 -> node_id <= 65535 ->
    In bl (orders3 (BCore version requested flags) (BSecurity method level) (BNet io ids)) ->
    ref_conference_create_response node_id tag result (enc_blocks bl) = Some b ->
    gcc_read_conference_create_response p b = Ok (io, ids, version_from version).
Proof. exact gcc_response_any_order. Qed.
Print Assumptions C18_gcc_response_any_order.

Theorem C18_gcc_response_unknown_blocks :
  forall p node_id tag result version requested flags method level io ids u0 u1 u2 u3 b,
    io < 65536 -> Forall (fun i => i < 65536) ids ->
    version < 4294967296 -> opt_lt requested 4294967296 -> opt_lt flags 4294967296 ->
    method < 4294967296 -> level < 4294967296 -> node_id <= 65535 ->
    Forall is_other u0 -> Forall is_other u1 -> Forall is_other u2 -> Forall is_other u3 ->
    ref_conference_create_response node_id tag result
      (enc_blocks (u0 ++ [BCore version requested flags] ++ u1 ++ [BSecurity method level] ++ u2 ++ [BNet io ids] ++ u3)) = Some b ->
    gcc_read_conference_create_response p b = Ok (io, ids, version_from version).
Proof. exact gcc_response_unknown_blocks. Qed.
Print Assumptions C18_gcc_response_unknown_blocks.

(* the data blocks as messages: written, measured and read back (client core data for every
   width / height / layout / 16-character name / selected protocol; server network data for
   every list of channel ids) *)
Theorem C18_gcc_client_core_data :
  forall p version width height layout name16 selected,
    version < 4294967296 -> width < 65536 -> height < 65536 -> layout < 4294967296 ->
    List.length name16 = 32%nat -> selected < 4294967296 ->
    block_roundtrip p false (client_core_data 0 0 0 0 (repeat 0 32) 0)
                    (client_core_data version width height layout name16 selected).
Proof. exact client_core_data_roundtrip. Qed.
Print Assumptions C18_gcc_client_core_data.

Theorem C18_gcc_server_network_data :
  forall p io ids, io < 65536 -> Forall (fun i => i < 65536) ids -> nlen ids < 65536 ->
    block_roundtrip p false server_network_data (net_msg io ids).
Proof. exact server_network_data_roundtrip. Qed.
Print Assumptions C18_gcc_server_network_data.

(* non-vacuity: a concrete RDP5+ response with three channels decodes, in both profiles *)
Theorem C18_gcc_nonvacuous :
  gcc_read_conference_create_response Debug ex_response = Ok (1003, [1004; 1005; 1006], RdpVersion5plus)
  /\ gcc_read_conference_create_response Release ex_response = Ok (1003, [1004; 1005; 1006], RdpVersion5plus).
Proof. exact gcc_response_example. Qed.
Print Assumptions C18_gcc_nonvacuous.

(* the PER helpers the session model (Global.v: C06, C10-C12) carries for the MCS layer are the
   ones proved here *)
Theorem C18_per_session_model_agrees :
  (forall i, Global.per_read_length i = Per.per_read_length i) /\
  (forall n, Global.per_write_length n = Per.per_write_length n) /\
  (forall m i, Global.per_read_integer_16 m i = Per.per_read_integer_16 m i).
Proof.
  exact (conj C18_per_global.global_per_read_length_agrees
          (conj C18_per_global.global_per_write_length_agrees C18_per_global.global_per_read_integer_16_agrees)).
Qed.
Print Assumptions C18_per_session_model_agrees.

(* ===================================================================================================== *)
(* ============================== THE OTHER DIRECTION: encode after decode ============================= *)
(* ===================================================================================================== *)
(* Everywhere below [all_bytes bs] says that the input is made of octets (the model's byte strings are
   lists of N).  "Canonical" is a decidable condition on the INPUT BYTES, stated per reader; a reader
   accepting a non-canonical input is a leniency (observation), not a violation of C18. *)

(* ---------------------------------------------------------------- PER *)
(* length determinant: the reader accepts the one-octet form and the two-octet form; the writer gives
   the input back exactly when the two-octet form was used for a value >= 128 (canon_length) -- and
   ONLY then: `80 05` is read as 5 and written back as `05`. *)
Theorem C18_inv_per_length :
  forall bs n rest, all_bytes bs = true -> per_read_length bs = Ok (n, rest) ->
    n < 32768 /\ (per_write_length n ++ rest = bs <-> canon_length bs = true).
Proof. exact per_length_inverse. Qed.
Print Assumptions C18_inv_per_length.

(* integer: canonical = one-octet length 1, 2 or 4 and the smallest of those size classes *)
Theorem C18_inv_per_integer :
  forall bs n rest, all_bytes bs = true -> per_read_integer bs = Ok (n, rest) ->
    n < 4294967296 /\ (per_write_integer n ++ rest = bs <-> canon_integer bs = true).
Proof. exact per_integer_inverse. Qed.
Print Assumptions C18_inv_per_integer.

(* integer_16 and the one-octet primitives: every accepted input is canonical *)
Theorem C18_inv_per_integer_16 :
  forall p m bs v rest, all_bytes bs = true -> per_read_integer_16 m bs = Ok (v, rest) ->
    v < 65536 /\ exists b, per_write_integer_16 p v m = Ok b /\ b ++ rest = bs.
Proof. exact per_integer_16_inverse. Qed.
Print Assumptions C18_inv_per_integer_16.

Theorem C18_inv_per_one_octet :
  forall bs c rest, rd_u8 bs = Ok (c, rest) -> [c] ++ rest = bs.
Proof. exact per_one_octet_inverse. Qed.
Print Assumptions C18_inv_per_one_octet.

(* object identifier (the reader compares with an expected identifier): when it answers `true`, the
   writer reproduces the input iff one-octet length 5, first octet < 120, the other arcs < 128 *)
Theorem C18_inv_per_oid :
  forall oid bs rest, all_bytes bs = true -> per_read_object_identifier oid bs = Ok (true, rest) ->
    ((exists b, per_write_object_identifier oid = Ok b /\ b ++ rest = bs) <-> canon_oid bs = true).
Proof. exact per_oid_inverse. Qed.
Print Assumptions C18_inv_per_oid.

(* octet stream (compared with an expected string): canonical = canonical length determinant *)
Theorem C18_inv_per_octet_stream :
  forall p s m bs rest, all_bytes bs = true -> m < min_bound -> per_read_octet_stream p s m bs = Ok (tt, rest) ->
    (per_write_octet_stream s m ++ rest = bs <-> canon_length bs = true).
Proof. exact per_octet_stream_inverse. Qed.
Print Assumptions C18_inv_per_octet_stream.

(* numeric string: canonical = canonical length, every nibble used a digit value, zero pad nibble *)
Theorem C18_inv_per_numeric_string :
  forall p m bs s rest, all_bytes bs = true -> m < min_bound -> per_read_numeric_string p m bs = Ok (s, rest) ->
    ((exists b, per_write_numeric_string p s m = Ok b /\ b ++ rest = bs) <-> canon_numeric m bs = true).
Proof. exact per_numeric_string_inverse. Qed.
Print Assumptions C18_inv_per_numeric_string.

(* padding: canonical = enough octets, all zero *)
Theorem C18_inv_per_padding :
  forall n bs rest, per_read_padding n bs = Ok (tt, rest) ->
    ((exists b, per_write_padding n = Ok b /\ b ++ rest = bs) <-> canon_padding n bs = true).
Proof. exact per_padding_inverse. Qed.
Print Assumptions C18_inv_per_padding.

(* the readers agree with the reference DECODERS (RefPer.v / RefPerDec.v, from X.691 / X.690): length,
   integer and integer_16 accept exactly what the reference accepts, with the same value; octet and
   numeric strings and object identifiers (inside the codec's 6-arc domain) are accepted with the
   reference's value wherever the reference accepts *)
Theorem C18_per_readers_agree_with_reference :
  (forall bs, all_bytes bs = true ->
     per_read_length bs = match ref_dec_length bs with Some x => Ok x | None => Err EIo end) /\
  (forall bs x, all_bytes bs = true -> (per_read_integer bs = Ok x <-> ref_dec_integer bs = Some x)) /\
  (forall m bs x, per_read_integer_16 m bs = Ok x <-> ref_dec_integer_16 m bs = Some x) /\
  (forall p m bs s rest, all_bytes bs = true -> m < min_bound ->
     ref_dec_octet_string m bs = Some (s, rest) -> per_read_octet_stream p s m bs = Ok (tt, rest)) /\
  (forall p m bs s rest, all_bytes bs = true -> m < min_bound ->
     ref_dec_numeric_string m bs = Some (s, rest) -> per_read_numeric_string p m bs = Ok (s, rest)) /\
  (forall bs arcs rest oid', all_bytes bs = true -> ref_dec_oid bs = Some (arcs, rest) ->
     oid_in_domain arcs = true -> nlen oid' = 6 ->
     per_read_object_identifier oid' bs = Ok (oid_eqb arcs oid', rest)).
Proof.
  exact (conj per_length_ref_dec (conj per_integer_ref_dec (conj per_integer_16_ref_dec
          (conj per_octet_stream_ref_dec (conj per_numeric_string_ref_dec per_oid_ref_dec))))).
Qed.
Print Assumptions C18_per_readers_agree_with_reference.

(* ... and the reference decoders are the inverses of the reference encoders of RefPer.v *)
Theorem C18_per_reference_decoders_invert_encoders :
  (forall n b rest, ref_length n = Some b -> ref_dec_length (b ++ rest) = Some (n, rest)) /\
  (forall n b rest, ref_integer n = Some b -> ref_dec_integer (b ++ rest) = Some (n, rest)) /\
  (forall lower v b rest, ref_integer_16 lower v = Some b -> ref_dec_integer_16 lower (b ++ rest) = Some (v, rest)) /\
  (forall lower s b rest, ref_octet_string lower s = Some b -> ref_dec_octet_string lower (b ++ rest) = Some (s, rest)) /\
  (forall lower s b rest, ref_numeric_string lower s = Some b -> ref_dec_numeric_string lower (b ++ rest) = Some (s, rest)) /\
  (forall arcs b rest, Forall (fun a => a < 16384) (skipn 2 arcs) -> ref_oid arcs = Some b ->
     ref_dec_oid (b ++ rest) = Some (arcs, rest)).
Proof.
  exact (conj ref_length_roundtrip (conj ref_integer_dec (conj ref_integer_16_dec
          (conj ref_octet_string_dec (conj ref_numeric_string_dec ref_oid_dec))))).
Qed.
Print Assumptions C18_per_reference_decoders_invert_encoders.

(* non-vacuity: canonical inputs reproduced, and one exhibit of EVERY leniency (accepted, not canonical) *)
Theorem C18_inv_per_nonvacuous :
  (per_read_length [129; 16; 170] = Ok (272, [170]) /\ canon_length [129; 16; 170] = true /\ per_write_length 272 = [129; 16]) /\
  (per_read_integer [2; 1; 0; 170] = Ok (256, [170]) /\ canon_integer [2; 1; 0; 170] = true /\ per_write_integer 256 = [2; 1; 0]) /\
  (per_read_numeric_string Debug 1 [1; 18; 170] = Ok ([49; 50], [170]) /\ canon_numeric 1 [1; 18; 170] = true /\
   per_write_numeric_string Debug [49; 50] 1 = Ok [1; 18]) /\
  (per_read_length [128; 5; 170] = Ok (5, [170]) /\ canon_length [128; 5; 170] = false /\ per_write_length 5 = [5]) /\
  (per_read_integer [2; 0; 5] = Ok (5, []) /\ canon_integer [2; 0; 5] = false /\ per_write_integer 5 = [1; 5]) /\
  (per_read_integer [4; 0; 0; 1; 0] = Ok (256, []) /\ canon_integer [4; 0; 0; 1; 0] = false) /\
  (per_read_integer [128; 1; 5] = Ok (5, []) /\ canon_integer [128; 1; 5] = false) /\
  (per_read_object_identifier [0; 0; 20; 124; 0; 1] [128; 5; 0; 20; 124; 0; 1] = Ok (true, []) /\
   canon_oid [128; 5; 0; 20; 124; 0; 1] = false /\ canon_oid [5; 0; 20; 124; 0; 1] = true) /\
  (per_read_numeric_string Debug 0 [1; 31] = Ok ([49], []) /\ canon_numeric 0 [1; 31] = false /\
   per_write_numeric_string Debug [49] 0 = Ok [1; 16]) /\
  (per_read_numeric_string Debug 0 [2; 171] = Ok ([58; 59], []) /\ canon_numeric 0 [2; 171] = false /\
   per_write_numeric_string Debug [58; 59] 0 = Ok [2; 1]) /\
  (per_read_padding 2 [7] = Ok (tt, []) /\ canon_padding 2 [7] = false /\ canon_padding 2 [0; 0; 9] = true).
Proof. exact per_inverse_examples. Qed.
Print Assumptions C18_inv_per_nonvacuous.

(* ---------------------------------------------------------------- DER *)
(* The model's decoder is strict (as yasna's from_der is on the shapes used): for EVERY schema and EVERY
   octet string, whatever it accepts is exactly the encoder's output for the value it returns -- no side
   condition; together with C18_der_roundtrip, encode and decode are mutually inverse bijections between
   the values of a schema and the set of accepted inputs. *)
Theorem C18_inv_der :
  forall s b v rest, all_bytes b = true -> der_decode s b = Some (v, rest) -> der_encode v ++ rest = b.
Proof. exact der_decode_inverse. Qed.
Print Assumptions C18_inv_der.

(* below the TLV level: only minimal identifiers, definite lengths and INTEGER contents decode *)
Theorem C18_inv_der_primitives :
  (forall b c k t rest, dec_ident b = Some ((c, k, t), rest) -> enc_ident c k t ++ rest = b) /\
  (forall b n rest, all_bytes b = true -> dec_len b = Some (n, rest) -> enc_len n ++ rest = b) /\
  (forall b n, all_bytes b = true -> dec_int b = Some n -> enc_int n = b).
Proof. exact (conj dec_ident_inverse (conj dec_len_inverse dec_int_inverse)). Qed.
Print Assumptions C18_inv_der_primitives.

(* a LENIENT reader (yasna's from_ber, used for the MCS connect response): the value it returns
   re-encodes to its input exactly when the strict decoder accepts that input with that value *)
Theorem C18_inv_der_reencode_iff_strict :
  forall s b v, all_bytes b = true -> dwf v = true -> conforms s v = true ->
    (der_encode v = b <-> der_decode_all s b = Some v).
Proof. exact der_reencode_iff_strict. Qed.
Print Assumptions C18_inv_der_reencode_iff_strict.

Theorem C18_inv_der_nonvacuous :
  der_decode_all connect_response_sch
    [127; 102; 39; 10; 1; 0; 2; 1; 0; 48; 26; 2; 1; 22; 2; 1; 3; 2; 1; 0; 2; 1; 1; 2; 1; 0; 2; 1; 1; 2; 3; 0; 255; 248; 2; 1; 2; 4; 3; 1; 2; 3]
    = Some (connect_response [1; 2; 3]) /\
  der_decode_all SInt [2; 1; 5] = Some (DInt 5) /\
  der_decode_all SInt [2; 129; 1; 5] = None /\
  der_decode_all SInt [2; 2; 0; 5] = None /\
  der_decode_all SBool [1; 1; 1] = None /\
  der_decode_all (SExplicit Context 5 SInt) [191; 5; 3; 2; 1; 5] = None /\
  der_decode_all (SExplicit Context 5 SInt) [165; 3; 2; 1; 5] = Some (DExplicit Context 5 (DInt 5)).
Proof. exact der_inverse_examples. Qed.
Print Assumptions C18_inv_der_nonvacuous.

(* ---------------------------------------------------------------- the message interpreter *)
(* For EVERY template whose arrays start empty (tmpl_ok: every template of the crate), every input and
   both profiles: the message read is writable, its length() is the number of bytes written, and what it
   writes is the input minus the bytes [read] consumed without keeping them -- [slack], computed from
   (template, input): the left-over of every sized sub-cursor, and what a failed read of an optional
   field or of the last array element had consumed.  The bytes are reproduced EXACTLY iff that count is
   zero ([tight]). *)
Theorem C18_inv_write_read :
  forall p t bs m rest a, tmpl_ok t = true -> read p t bs = ROk m rest a ->
    exists b, write p m = Some b /\ mlength p m = Some (nlen b) /\
      nlen b + slack p t bs + nlen rest = nlen bs /\
      (all_bytes bs = true -> (b ++ rest = bs <-> tight p t bs = true)).
Proof. exact write_read. Qed.
Print Assumptions C18_inv_write_read.

(* on a tight input read and write are mutually inverse: the message read round-trips, whether or not
   it lies inside the checker [wf] of the first direction *)
Theorem C18_inv_read_write_read :
  forall p t bs m rest a, tmpl_ok t = true -> all_bytes bs = true ->
    read p t bs = ROk m rest a -> tight p t bs = true ->
    exists b, write p m = Some b /\ read p t (b ++ rest) = ROk m rest a.
Proof. exact read_write_read. Qed.
Print Assumptions C18_inv_read_write_read.

(* what [read] leaves is a suffix of its input, on success and on error *)
Theorem C18_inv_read_suffix :
  forall p t bs, match read p t bs with
                 | ROk _ rest _ | RErr _ rest _ => exists pre, bs = pre ++ rest
                 | _ => True
                 end.
Proof. exact read_suffix. Qed.
Print Assumptions C18_inv_read_suffix.

(* flat templates (no Option, no Array) whose Size-named fields are read-to-end blocks never drop a byte *)
Theorem C18_inv_always_tight :
  forall p t bs m rest a, always_tight t = true -> all_bytes bs = true -> read p t bs = ROk m rest a ->
    exists b, write p m = Some b /\ mlength p m = Some (nlen b) /\ b ++ rest = bs.
Proof. exact always_tight_inverse. Qed.
Print Assumptions C18_inv_always_tight.

(* the layouts the client READS, verbatim: share data header, capability set and the capability bodies,
   fast-path update, bitmap data and its compression header, deactivate-all, control, font map, error
   info, X.224 connection confirm, GCC block header / security data, security header, licence preamble /
   blob / error message, NTLM CHALLENGE, AV pair, message signature *)
Theorem C18_inv_verbatim_layouts :
  forall p t bs m rest a, In t verbatim_layouts -> all_bytes bs = true -> read p t bs = ROk m rest a ->
    exists b, write p m = Some b /\ mlength p m = Some (nlen b) /\ b ++ rest = bs.
Proof. exact verbatim_layouts_inverse. Qed.
Print Assumptions C18_inv_verbatim_layouts.

(* the layouts with an optional field or an array (share control header, demand active, GCC server core /
   network data, fast-path bitmap update, synchronize, colour pointer, virtual-channel capability) *)
Theorem C18_inv_optional_layouts :
  forall p t bs m rest a, In t optional_layouts -> all_bytes bs = true -> read p t bs = ROk m rest a ->
    exists b, write p m = Some b /\ mlength p m = Some (nlen b) /\
      nlen b + slack p t bs + nlen rest = nlen bs /\ (b ++ rest = bs <-> tight p t bs = true).
Proof. exact optional_layouts_inverse. Qed.
Print Assumptions C18_inv_optional_layouts.

(* non-vacuity: tight inputs reproduced and loose inputs not, on the share control header (one stray octet
   where PDUSource should be), the GCC server core data (a partial optional field) and demand active (a
   capability window ending inside a set) *)
Theorem C18_inv_msg_nonvacuous :
  (rewrites Debug share_control_header_t [8; 0; 23; 0; 234; 3; 170; 187; 204] = Some (true, true) /\
   rewrites Debug share_control_header_t [6; 0; 23; 0] = Some (true, true) /\
   rewrites Debug share_control_header_t [6; 0; 23; 0; 234] = Some (false, false)) /\
  (rewrites Debug LayoutsConnect.server_core_data [4; 0; 8; 0] = Some (true, true) /\
   rewrites Debug LayoutsConnect.server_core_data [4; 0; 8; 0; 1; 0; 0; 0] = Some (true, true) /\
   rewrites Debug LayoutsConnect.server_core_data [4; 0; 8; 0; 1; 0; 0; 0; 2; 0; 0; 0; 170] = Some (true, true) /\
   rewrites Debug LayoutsConnect.server_core_data [4; 0; 8; 0; 1; 0] = Some (false, false) /\
   rewrites Debug LayoutsConnect.server_core_data [4; 0; 8; 0; 1; 0; 0; 0; 2] = Some (false, false)) /\
  (rewrites Debug ts_demand_active_pdu
     [1; 0; 1; 0;  2; 0;  12; 0;  82; 68;  1; 0;  0; 0;  15; 0; 8; 0; 0; 0; 0; 0;  9; 9; 9; 9] = Some (true, true) /\
   rewrites Debug ts_demand_active_pdu
     [1; 0; 1; 0;  2; 0;  14; 0;  82; 68;  1; 0;  0; 0;  15; 0; 8; 0; 0; 0; 0; 0;  7; 7;  9; 9; 9; 9] = Some (false, false)).
Proof. exact (conj share_control_examples (conj server_core_examples demand_active_examples)). Qed.
Print Assumptions C18_inv_msg_nonvacuous.

(* ---------------------------------------------------------------- GCC *)
(* read_conference_create_response keeps only the I/O channel id, the channel ids and the three-valued
   version: the bytes of an arbitrary response cannot come back.  (a) The I/O channel id and every channel
   id returned are 16-bit values.  (b) The CANONICAL response rebuilt from what was read (reference
   encoder: core / security / net blocks in the order of MS-RDPBCGR 2.2.1.4, node id 1001, tag 1, result 0,
   the I/O channel id that was read) is read back to the same server data -- reading is idempotent through
   the reference encoder.  (c) A response in that reference form is reproduced byte for byte. *)
Theorem C18_inv_gcc_ids_bounded :
  forall p bs io ids v, all_bytes bs = true ->
    gcc_read_conference_create_response p bs = Ok (io, ids, v) -> io < 65536 /\ Forall (fun i => i < 65536) ids.
Proof. exact gcc_read_ids_bounded. Qed.
Print Assumptions C18_inv_gcc_ids_bounded.

Theorem C18_inv_gcc_idempotent :
  forall p bs io ids v, all_bytes bs = true ->
    gcc_read_conference_create_response p bs = Ok (io, ids, v) -> nlen ids < 16000 ->
    exists b, gcc_canonical io ids v = Some b /\ gcc_read_conference_create_response p b = Ok (io, ids, v).
Proof. exact gcc_read_idempotent. Qed.
Print Assumptions C18_inv_gcc_idempotent.

Theorem C18_inv_gcc_reference_form :
  forall p bs io ids v io' ids' v',
    io < 65536 -> Forall (fun i => i < 65536) ids -> nlen ids < 16000 -> gcc_canonical io ids v = Some bs ->
    gcc_read_conference_create_response p bs = Ok (io', ids', v') -> gcc_canonical io' ids' v' = Some bs.
Proof. exact gcc_reference_form_reproduced. Qed.
Print Assumptions C18_inv_gcc_reference_form.

(* non-vacuity: a response with optional core fields and another node id is read, rebuilt canonically
   (different bytes) and read again to the same server data *)
Theorem C18_inv_gcc_nonvacuous :
  let bs := [0; 5; 0; 20; 124; 0; 1; 54; 20; 118; 10; 1; 1; 0; 1; 192; 0; 77; 99; 68; 110; 40;
             1; 12; 12; 0; 4; 0; 8; 0; 1; 0; 0; 0;
             2; 12; 12; 0; 0; 0; 0; 0; 0; 0; 0; 0;
             3; 12; 16; 0; 235; 3; 3; 0; 236; 3; 237; 3; 238; 3; 0; 0] in
  gcc_read_conference_create_response Debug bs = Ok (1003, [1004; 1005; 1006], RdpVersion5plus) /\
  match gcc_canonical 1003 [1004; 1005; 1006] RdpVersion5plus with
  | Some b => b <> bs /\ gcc_read_conference_create_response Debug b = Ok (1003, [1004; 1005; 1006], RdpVersion5plus)
              /\ gcc_canonical 1003 [1004; 1005; 1006] RdpVersion5plus = Some b
  | None => False
  end.
Proof. exact gcc_idempotent_example. Qed.
Print Assumptions C18_inv_gcc_nonvacuous.

(* ---------------------------------------------------------------- the checker [wf], extended *)
(* consecutive absent trailing Options are inside the checker (an absent Option may be followed by fields
   that write nothing): TS_UD_SC_CORE without its two optional fields round-trips through the generic
   theorem C18_read_write_total, in a closed reader and only there *)
Theorem C18_read_write_absent_options :
  (wf Debug true ex_two_opt_t ex_two_opt_m = true /\ roundtrips Debug ex_two_opt_t ex_two_opt_m [] = true
   /\ wf Debug false ex_two_opt_t ex_two_opt_m = false) /\
  (forall p version, version < 4294967296 ->
     wf p true Gcc.server_core_data (core_msg version None None) = true /\
     wf p false Gcc.server_core_data (core_msg version None None) = false) /\
  (forall p version, version < 4294967296 -> block_roundtrip p true Gcc.server_core_data (core_msg version None None)).
Proof. exact (conj ex_opt_two_absent (conj server_core_data_none_wf server_core_data_roundtrip_none)). Qed.
Print Assumptions C18_read_write_absent_options.
