(* C07 -- Hostile server bytes during NLA (CredSSP / NTLMv2) never crash the client.
   Statements only; every proof is `exact <lemma>` into C07_proofs.v / C07_der.v /
   C07_examples.v.  The model (Cssp.v, LayoutsNtlm.v over Msg.v) is the code AFTER the
   three repairs of DESIGN section 7 #11 #12 #13.  External code -- yasna (BER oracle), the
   hmac / md-5 crates and nla/rc4.rs -- enters as universally quantified total functions
   ([ber_ok]: the oracle hands back byte strings no longer than its input; [crypto_ok]:
   16-byte digests, a length-preserving cipher).  `nocrash o` = o is neither Panic nor Spin. *)
From RdpV Require Import Base Msg Link LayoutsNtlm Cssp DerRead C07_proofs C07_der C07_examples.

(* read_ts_server_challenge: for EVERY answer of the BER oracle (error, no token, any
   tokens) and every input the function returns the first token or an error. *)
Theorem C07_total_ts_server_challenge :
  forall (ber : bytes -> option (list bytes)) (input : bytes), nocrash (read_ts_server_challenge ber input).
Proof. exact ts_server_challenge_total. Qed.
Print Assumptions C07_total_ts_server_challenge.

Theorem C07_total_ts_validate :
  forall (ber : bytes -> option bytes) (input : bytes), nocrash (read_ts_validate ber input).
Proof. exact ts_validate_total. Qed.
Print Assumptions C07_total_ts_validate.

(* Ntlm::read_challenge_message, for BOTH build profiles, EVERY byte string as the
   CHALLENGE (all lengths, offsets, AV pairs, flags), every hash / cipher function of the
   assumed shape, every client state in which the negotiate message exists (cssp_connect
   always creates it first) and every client credentials below 2 GiB: the result is a
   token or an error -- never a panic, never a spin -- and no buffer it asks for is larger
   than (bytes received + negotiate message + credential bytes + 140000); the constant
   covers the two 16-bit-sized pieces (target info, timestamp value) copied into the reply. *)
Theorem C07_total_alloc_challenge :
  forall p (rc4st : Type) hmac_md5 md5 (rc4_init : bytes -> rc4st) rc4_run st neg request cc sk,
    crypto_ok hmac_md5 md5 rc4_run ->
    wf_bytes request -> nego_msg st = Some neg -> nlen cc = 8 -> nlen sk = 16 -> creds_small (cr st) ->
    let r := read_challenge_message p hmac_md5 rc4st rc4_init rc4_run st request cc sk in
    nocrash (snd r) /\ fst r <= nlen request + nlen neg + creds_len (cr st) + 140000.
Proof. exact challenge_total_alloc. Qed.
Print Assumptions C07_total_alloc_challenge.

(* gss_unwrapex on EVERY token (short, mis-versioned, any checksum): a value or an error;
   nothing larger than the token + 4 bytes is allocated. *)
Theorem C07_total_alloc_unwrap :
  forall p (rc4st : Type) hmac_md5 md5 (rc4_run : rc4st -> bytes -> rc4st * bytes) si data,
    crypto_ok hmac_md5 md5 rc4_run -> wf_bytes data ->
    let r := gss_unwrapex p hmac_md5 rc4st rc4_run si data in
    nocrash (snd r) /\ fst r <= nlen data + 4.
Proof. exact unwrap_total_alloc. Qed.
Print Assumptions C07_total_alloc_unwrap.

(* The whole CredSSP step cssp_connect: both profiles, every BER oracle, every hash /
   cipher, every client state and credentials, restricted-admin or not, every outcome of
   the peer-certificate lookup, EVERY chunked server stream and every write schedule:
   the step returns Ok or Err, and its largest allocation is bounded by the client's own
   data (credentials, certificate key) plus a constant (1500-byte link buffer, 16-bit
   NTLM fields). *)
Theorem C07_total_alloc_cssp :
  forall p ber_req ber_val (rc4st : Type) hmac_md5 md5 (rc4_init : bytes -> rc4st) rc4_run
         st restricted cert cc sk input sched,
    crypto_ok hmac_md5 md5 rc4_run -> ber_ok ber_req ber_val ->
    Forall wf_bytes input -> nlen cc = 8 -> nlen sk = 16 -> creds_small (cr st) ->
    let r := cssp_connect p ber_req ber_val hmac_md5 md5 rc4st rc4_init rc4_run st restricted cert cc sk input sched in
    nocrash (c_out r) /\ c_alloc r <= creds_len (cr st) + cert_len cert + 150000.
Proof. exact cssp_total_alloc. Qed.
Print Assumptions C07_total_alloc_cssp.

(* The executable model of yasna 0.3.2 (DerRead.v) IS such an oracle wherever it returns:
   its tokens are byte strings no longer than the input ... *)
Theorem C07_yasna_is_oracle : forall p, ber_ok (yasna_req p) (yasna_val p).
Proof. exact yasna_ber_ok. Qed.
Print Assumptions C07_yasna_is_oracle.

(* ... so the theorem above holds for the model of the real parser; *)
Theorem C07_total_alloc_cssp_yasna :
  forall p (rc4st : Type) hmac_md5 md5 (rc4_init : bytes -> rc4st) rc4_run st restricted cert cc sk input sched,
    crypto_ok hmac_md5 md5 rc4_run ->
    Forall wf_bytes input -> nlen cc = 8 -> nlen sk = 16 -> creds_small (cr st) ->
    let r := cssp_connect p (yasna_req p) (yasna_val p) hmac_md5 md5 rc4st rc4_init rc4_run st restricted cert cc sk input sched in
    nocrash (c_out r) /\ c_alloc r <= creds_len (cr st) + cert_len cert + 150000.
Proof. exact cssp_total_alloc_yasna. Qed.
Print Assumptions C07_total_alloc_cssp_yasna.

(* KNOWN FINDING C07-yasna-length-overflow.  yasna itself does not always return: with a
   long-form length such that pos + length >= 2^64 its `self.pos+length` overflows (debug:
   trap; release: wrap, then a slice panic for primitive elements).  With yasna in front of
   the glue, the two TSRequest readers never crash OUTSIDE that class ... *)
Theorem C07_total_ts_known_class :
  forall p i,
    (~ yasna_overflow_req p i -> nocrash (read_ts_server_challenge_yasna p i)) /\
    (~ yasna_overflow_val p i -> nocrash (read_ts_validate_yasna p i)).
Proof. exact ts_entries_known_class. Qed.
Print Assumptions C07_total_ts_known_class.

(* ... and do panic inside it (witnesses = corpus/C07/yasna-length-overflow.txt). *)
Theorem C07_total_ts_refuted :
  read_ts_server_challenge_yasna Debug yasna_witness_debug = Panic /\
  read_ts_server_challenge_yasna Release yasna_witness_release = Panic.
Proof. exact yasna_refuted. Qed.
Print Assumptions C07_total_ts_refuted.

(* Non-vacuity: stand-in functions of the assumed shape exist; a valid CHALLENGE from the
   reference encoder (DESIGN Appendix B recipe: version, target info with timestamp and
   EOL) drives read_challenge_message to Ok with a 268-byte AUTHENTICATE in both profiles;
   a whole conversation (TSRequest{CHALLENGE}, then TSRequest{pubKeyAuth = key + 1}) over
   the yasna model drives cssp_connect to Ok. *)
Theorem C07_nonvacuous :
  crypto_ok std_hmac std_md5 std_rc4_run /\ wf_bytes ex_challenge /\
  (forall p, exists m st', snd (read_challenge_message p std_hmac unit std_rc4_init std_rc4_run (ex_after_negotiate p)
                                   ex_challenge (repeat 0 8) (repeat 0 16)) = Ok (m, st') /\ nlen m = 268) /\
  (forall p, c_out (cssp_connect p (yasna_req p) (yasna_val p) std_hmac std_md5 unit std_rc4_init std_rc4_run ex_ntlm false
                      (CertKey ex_key) (repeat 0 8) (repeat 0 16) [ex_ts_challenge; ex_ts_validate] []) = Ok tt).
Proof. exact (conj std_crypto_ok (conj ex_challenge_wf (conj ex_challenge_ok ex_cssp_ok))). Qed.
Print Assumptions C07_nonvacuous.
