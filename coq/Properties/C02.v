(* C02 -- Negotiated transport security is honoured; no downgrade.
   Statements only; every proof is `exact <lemma>` into C02_proofs.v / C02_examples.v.
   Model: Connect.v for the REPAIRED code (x224::Client::connect refuses a protocol the
   client did not request), with the transport EVENT TRACE [RawWrite m | TlsStart ok |
   TlsWrite m] and the handshake oracle [tls_handshake check trusted = negb check || trusted].
   Credential-bearing messages ([cred]): CredSSP TSRequests (NTLM tokens, TSCredentials)
   and the Client Info PDU.  The BER parser, the protocol-level handshake and the CredSSP
   exchange are universally quantified with NO assumption: these are statements about
   every run, failing ones included. *)
From RdpV Require Import Base Msg LayoutsGlobal LayoutsConnect Link Tpkt Global BerYasna Connect ConnectRun
     C06_proofs C05_proofs C02_proofs C05_examples C02_examples.

(* For EVERY server byte stream (hence every 32-bit selectedProtocol, every negotiation type
   byte, flag byte, length field, truncation), every offered mask and configuration: when
   x224::Client::connect returns a client, the protocol it continues with is one the client
   offered -- plain RDP security only if nothing else was offered, SSL / HYBRID only if that bit
   was offered -- and in the SSL / HYBRID case a TLS handshake has completed on the link.
   (Case analysis on the Protocols / NegotiationType tables, not a sweep.) *)
Theorem C02_selection :
  forall (p : prof) (trusted : bool) (tls_start : stream -> outcome stream) (cssp_run : stream -> nat * outcome stream)
         (c : config) (s : cst) (sel : N) (s' : cst),
    s_ev s = [] -> s_tls s = false ->
    x224_connect p trusted tls_start cssp_run c s = (Ok sel, s') ->
    (sel = PROTOCOL_RDP /\ offered c = PROTOCOL_RDP /\ s_tls s' = false) \/
    ((sel = PROTOCOL_SSL \/ sel = PROTOCOL_HYBRID) /\ N.land (offered c) sel <> 0 /\
     s_tls s' = true /\ In (TlsStart true) (s_ev s')).
Proof. exact x224_selection. Qed.
Print Assumptions C02_selection.

(* For every run of the whole connection sequence with a non-empty offer (all that Connector
   can produce): no credential-bearing message is ever written on the raw transport, and
   every message written inside TLS is preceded by a completed handshake. *)
Theorem C02_no_cred_before_tls :
  forall (p : prof) (ber_parse : bytes -> outcome bytes) (trusted : bool)
         (tls_start : stream -> outcome stream) (cssp_run : stream -> nat * outcome stream) (c : config) (cs : stream),
    offered c <> 0 ->
    forall pre e post,
      s_ev (snd (run_connect p ber_parse trusted tls_start cssp_run c cs)) = pre ++ e :: post ->
      match e with
      | RawWrite m => cred m = false
      | TlsStart _ => True
      | TlsWrite _ => In (TlsStart true) pre
      end.
Proof. exact no_cred_before_tls. Qed.
Print Assumptions C02_no_cred_before_tls.

(* Without the hypothesis: the only credential-bearing message that can travel in clear is the
   Client Info, and only when the caller itself asked for plain RDP security (offered = 0,
   x224 API level). *)
Theorem C02_clear_info_only_on_request :
  forall (p : prof) (ber_parse : bytes -> outcome bytes) (trusted : bool)
         (tls_start : stream -> outcome stream) (cssp_run : stream -> nat * outcome stream) (c : config) (cs : stream),
    forall pre m post,
      s_ev (snd (run_connect p ber_parse trusted tls_start cssp_run c cs)) = pre ++ RawWrite m :: post ->
      cred m = true -> offered c = 0 /\ is_info m = true.
Proof. exact raw_info_only_on_request. Qed.
Print Assumptions C02_clear_info_only_on_request.

(* Certificate checking on, server certificate not trusted, non-empty offer: the connection
   does not succeed and NO credential-bearing message is written, raw or inside TLS. *)
Theorem C02_check_cert :
  forall (p : prof) (ber_parse : bytes -> outcome bytes)
         (tls_start : stream -> outcome stream) (cssp_run : stream -> nat * outcome stream) (c : config) (cs : stream),
    check_cert c = true -> offered c <> 0 ->
    is_ok (fst (run_connect p ber_parse false tls_start cssp_run c cs)) = false /\
    nocred (s_ev (snd (run_connect p ber_parse false tls_start cssp_run c cs))) = true.
Proof. exact check_cert_aborts. Qed.
Print Assumptions C02_check_cert.

(* ... and, under the assumptions C05 makes on the external code (it returns Ok or Err), the
   run ENDS IN AN ERROR. *)
Theorem C02_check_cert_error :
  forall (p : prof) (ber_parse : bytes -> outcome bytes)
         (tls_start : stream -> outcome stream) (cssp_run : stream -> nat * outcome stream) (c : config) (cs : stream),
    oracle_bytes_ok ber_parse -> oracle_stream_ok tls_start -> oracle_cssp_ok cssp_run -> wf_stream cs ->
    check_cert c = true -> offered c <> 0 ->
    exists e, fst (run_connect p ber_parse false tls_start cssp_run c cs) = Err e.
Proof. exact check_cert_errors. Qed.
Print Assumptions C02_check_cert_error.

(* Non-vacuity, on the extracted instantiation and the reference conversation: an offered
   protocol with a trusted certificate connects with everything after the request inside TLS;
   the two probed downgrade / substitution replies end in InvalidProtocol with nothing but the
   request on the wire; an untrusted certificate ends in Ssl; the first CredSSP token leaves
   inside TLS; and with offered = 0 the Client Info does travel in clear (so the hypothesis of
   C02_no_cred_before_tls is needed). *)
Theorem C02_nonvacuous :
  (exists r, fst (negotiate_impl Debug true true cfg_nla_check (ex_cc_ssl :: ex_rest) ex_rest) = Ok r) /\
  s_ev (snd (negotiate_impl Debug true true cfg_nla_check (ex_cc_ssl :: ex_rest) ex_rest)) = tls_run /\
  fst (negotiate_impl Debug true true cfg_nla_check (ex_cc :: ex_rest) ex_rest) = Err EInvalidProtocol /\
  s_ev (snd (negotiate_impl Debug true true cfg_nla_check (ex_cc :: ex_rest) ex_rest)) = [RawWrite (CR 3 0)] /\
  fst (negotiate_impl Debug true true cfg_ssl_only (ex_cc_hybrid :: ex_rest) ex_rest) = Err EInvalidProtocol /\
  s_ev (snd (negotiate_impl Debug true true cfg_ssl_only (ex_cc_hybrid :: ex_rest) ex_rest)) = [RawWrite (CR 1 0)] /\
  fst (negotiate_impl Debug false true cfg_nla_check (ex_cc_ssl :: ex_rest) ex_rest) = Err ESsl /\
  s_ev (snd (negotiate_impl Debug false true cfg_nla_check (ex_cc_ssl :: ex_rest) ex_rest)) = [RawWrite (CR 3 0); TlsStart false] /\
  s_ev (snd (negotiate_impl Debug true true cfg_nla_check (ex_cc_hybrid :: ex_rest) ex_rest)) = [RawWrite (CR 3 0); TlsStart true; TlsWrite CSSP] /\
  (exists r, fst (negotiate_impl Debug true true cfg_plain_rdp (ex_cc :: ex_rest) ex_rest) = Ok r) /\
  In (RawWrite (INFO 3 1003 228)) (s_ev (snd (negotiate_impl Debug true true cfg_plain_rdp (ex_cc :: ex_rest) ex_rest))).
Proof. exact ex_negotiations. Qed.
Print Assumptions C02_nonvacuous.
