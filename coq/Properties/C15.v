(* C15 -- NTLMv2 AUTHENTICATE tokens are accepted by an independent MS-NLMP server.
   Statements only; every proof is `exact <lemma>` into C15_proofs.v.
   Model: Ntlm.v (Ntlm::new / from_hash / read_challenge_message and everything below it, message
   layouts LayoutsNtlmAuth.v through the interpreter Msg.v, encoders Utf.v); spec: RefNlmp.v, the
   SERVER side of MS-NLMP 3.3.2 (server_authenticate: fields located by (Len, MaxLen, Offset) with
   bounds checks, NTProofStr and LMv2 proof recomputed from the account's NT hash, session key
   unwrapped, MIC recomputed) and the CHALLENGE a server sends (challenge_bytes).
   md4, hmac and the uppercase mapping are universally quantified: any hmac with 16-byte digests,
   any md4, any mapping (shared by client and server); RC4 is the concrete Rc4.v (rc4k_involutive).
   The client's randomness (nonce, key), the build profile p, the placement of the target info in
   the payload (c_pre, c_post), the TargetName triple, Reserved and Version bytes are all arbitrary. *)
From RdpV Require Import Base Msg Rc4 Md5 Md4 Hmac Utf LayoutsNtlmAuth Ntlm RefNlmp C15_proofs.

(* PASSWORD mode.  For every domain / user / password (lists of Unicode scalar values), every
   well-formed CHALLENGE whose target info is any list of AV pairs with ids 1..10 around one
   8-byte timestamp (any values, any order, trailing bytes allowed), with KEY_EXCH negotiated,
   with or without VERSION and UNICODE (names ASCII when UNICODE is not negotiated): whatever
   token read_challenge_message returns, the spec server -- holding only the account's NT hash
   md4(utf16le(password)) -- accepts it AND unwraps exactly the client's exported session key. *)
Theorem C15_accepts :
  forall (md4 : bytes -> bytes) (hmac : bytes -> bytes -> bytes) (uppercase : list N -> list N),
  (forall k x, List.length (hmac k x) = 16%nat) ->
  forall p dom user pw negotiate c nonce key pairs trailing ts token,
  wf_challenge c -> c_target_info c = av_bytes pairs trailing -> Forall av_ok pairs ->
  In (7, ts) pairs -> (forall v, In (7, v) pairs -> v = ts) -> List.length ts = 8%nat ->
  N.testbit (c_flags c) FLAG_KEY_EXCH = true ->
  (N.testbit (c_flags c) FLAG_UNICODE = true \/ (is_ascii user = true /\ is_ascii dom = true)) ->
  List.length nonce = 8%nat -> List.length key = 16%nat ->
  read_challenge_message hmac p (ntlm_new md4 hmac uppercase dom user pw) negotiate (challenge_bytes c) nonce key = Ok token ->
  server_authenticate hmac uppercase (mkAccount user dom (md4 (utf16le pw))) negotiate (challenge_bytes c) token = Some key.
Proof. exact accepts_password. Qed.
Print Assumptions C15_accepts.

(* NT-HASH mode (restricted admin / pass-the-hash): the same, the account key being the hash itself. *)
Theorem C15_accepts_hash :
  forall (hmac : bytes -> bytes -> bytes) (uppercase : list N -> list N),
  (forall k x, List.length (hmac k x) = 16%nat) ->
  forall p dom user nthash negotiate c nonce key pairs trailing ts token,
  wf_challenge c -> c_target_info c = av_bytes pairs trailing -> Forall av_ok pairs ->
  In (7, ts) pairs -> (forall v, In (7, v) pairs -> v = ts) -> List.length ts = 8%nat ->
  N.testbit (c_flags c) FLAG_KEY_EXCH = true ->
  (N.testbit (c_flags c) FLAG_UNICODE = true \/ (is_ascii user = true /\ is_ascii dom = true)) ->
  List.length nonce = 8%nat -> List.length key = 16%nat ->
  read_challenge_message hmac p (ntlm_from_hash hmac uppercase dom user nthash) negotiate (challenge_bytes c) nonce key = Ok token ->
  server_authenticate hmac uppercase (mkAccount user dom nthash) negotiate (challenge_bytes c) token = Some key.
Proof. exact accepts_hash. Qed.
Print Assumptions C15_accepts_hash.

(* The token EXISTS exactly when every field fits its 16-bit length: for every client state and such
   a CHALLENGE, read_challenge_message returns Ok (the explicit token) when the NT response, domain
   and user fields are <= 65535 bytes, and Err InvalidSize otherwise (the repaired behaviour; it
   never panics on such input). *)
Theorem C15_builds_or_refuses :
  forall (hmac : bytes -> bytes -> bytes),
  (forall k x, List.length (hmac k x) = 16%nat) ->
  forall p st negotiate c nonce key pairs trailing ts,
  wf_challenge c -> c_target_info c = av_bytes pairs trailing -> Forall av_ok pairs ->
  In (7, ts) pairs -> (forall v, In (7, v) pairs -> v = ts) ->
  exists ek, List.length ek = List.length key /\
    let x := pieces_of hmac st c nonce ts ek in
    (oversize x = false ->
       read_challenge_message hmac p st negotiate (challenge_bytes c) nonce key
       = Ok (token_of hmac x (c_flags c) negotiate (challenge_bytes c) key)) /\
    (oversize x = true ->
       read_challenge_message hmac p st negotiate (challenge_bytes c) nonce key = Err EInvalidSize).
Proof. exact builds_or_refuses_av. Qed.
Print Assumptions C15_builds_or_refuses.

(* Every (Len, MaxLen, BufferOffset) triple of a returned token addresses exactly its field, inside
   the payload that begins right after the MIC (spec function `field`: Len <= MaxLen, offset >=
   payload start, offset + Len <= |token|); the payload is the six fields back to back. *)
Theorem C15_fields_in_bounds :
  forall (hmac : bytes -> bytes -> bytes),
  (forall k x, List.length (hmac k x) = 16%nat) ->
  forall p st negotiate c nonce key pairs trailing ts token,
  wf_challenge c -> c_target_info c = av_bytes pairs trailing -> Forall av_ok pairs ->
  In (7, ts) pairs -> (forall v, In (7, v) pairs -> v = ts) ->
  List.length nonce = 8%nat -> List.length key = 16%nat ->
  read_challenge_message hmac p st negotiate (challenge_bytes c) nonce key = Ok token ->
  exists ek, let x := pieces_of hmac st c nonce ts ek in
  let ps := (if N.testbit (c_flags c) FLAG_VERSION then 72 else 64) + 16 in
  u32_at token 60 = Some (c_flags c) /\
  field token 12 ps = Some (pc_lm x) /\ field token 20 ps = Some (pc_nt x) /\
  field token 28 ps = Some (pc_dom x) /\ field token 36 ps = Some (pc_user x) /\
  field token 44 ps = Some [] /\ field token 52 ps = Some (pc_ek x) /\
  skipn (N.to_nat ps) token = token_payload (pc_lm x) (pc_nt x) (pc_dom x) (pc_user x) (pc_ek x).
Proof. exact fields_in_bounds_av. Qed.
Print Assumptions C15_fields_in_bounds.

(* Connecting from the NT hash of a password yields, for the same randomness and ANY request bytes,
   the very same result (token or error) as connecting from the password: same proofs under the same
   account key. *)
Theorem C15_hash_equiv :
  forall (md4 : bytes -> bytes) (hmac : bytes -> bytes -> bytes) (uppercase : list N -> list N)
         p dom user pw negotiate request nonce key,
  read_challenge_message hmac p (ntlm_from_hash hmac uppercase dom user (md4 (unicode pw))) negotiate request nonce key
  = read_challenge_message hmac p (ntlm_new md4 hmac uppercase dom user pw) negotiate request nonce key.
Proof. exact hash_mode_equiv. Qed.
Print Assumptions C15_hash_equiv.

(* The client's AV-pair reader (Msg.read of av_pair in a loop) parses every AV list a server can
   write: any pairs with ids 1..10 and values < 64 KiB, MsvAvEOL, anything after it. *)
Theorem C15_av_list_parsed :
  forall p (pairs : list (N * bytes)) trailing acc fuel,
  Forall av_ok pairs -> (List.length pairs < fuel)%nat ->
  read_target_info p fuel (av_bytes pairs trailing) acc = Ok (rev pairs ++ acc).
Proof. exact read_target_info_av. Qed.
Print Assumptions C15_av_list_parsed.

(* Non-vacuity with the concrete MD4 / MD5 / HMAC-MD5 (vm_compute): the hypotheses of C15_accepts
   hold for a concrete CHALLENGE (bytes = those of the python reference server); password mode
   (Debug) and hash mode (Release) both return exactly the token the python reference client
   builds; the spec server accepts it and unwraps the session key; it REJECTS the token with one
   bit of the NTProofStr flipped and the right token under a wrong account hash. *)
Theorem C15_nonvacuous :
  (wf_challenge ex_chal /\ Forall av_ok ex_pairs /\ In (7, ex_ts) ex_pairs /\
   (forall v, In (7, v) ex_pairs -> v = ex_ts) /\
   N.testbit (c_flags ex_chal) FLAG_KEY_EXCH = true /\ N.testbit (c_flags ex_chal) FLAG_UNICODE = true /\
   challenge_bytes ex_chal = ex_chal_bytes /\ create_negotiate_message Debug = Ok ex_negotiate) /\
  (read_challenge_message hmac_md5 Debug (ntlm_new md4 hmac_md5 ascii_upper ex_dom ex_user ex_pw)
     ex_negotiate (challenge_bytes ex_chal) ex_nonce ex_key = Ok ex_token /\
   read_challenge_message hmac_md5 Release (ntlm_from_hash hmac_md5 ascii_upper ex_dom ex_user (md4 (utf16le ex_pw)))
     ex_negotiate (challenge_bytes ex_chal) ex_nonce ex_key = Ok ex_token) /\
  server_authenticate hmac_md5 ascii_upper (mkAccount ex_user ex_dom (md4 (utf16le ex_pw)))
    ex_negotiate ex_chal_bytes ex_token = Some ex_key /\
  server_verify hmac_md5 ascii_upper (mkAccount ex_user ex_dom (md4 (utf16le ex_pw)))
    ex_negotiate ex_chal_bytes (firstn 104 ex_token ++ [159] ++ skipn 105 ex_token) = false /\
  server_verify hmac_md5 ascii_upper (mkAccount ex_user ex_dom (md4 (utf16le ex_user)))
    ex_negotiate ex_chal_bytes ex_token = false.
Proof. exact ex_nonvacuous. Qed.
Print Assumptions C15_nonvacuous.
