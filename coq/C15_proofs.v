(* C15 lemmas: the handshake model (Ntlm.v) against the MS-NLMP server spec (RefNlmp.v). *)
From RdpV Require Import Base Msg Rc4 Rc4_proofs Utf LayoutsNtlmAuth Ntlm RefNlmp.
Open Scope N_scope.
#[local] Notation length := List.length (only parsing).

#[local] Arguments le32 : simpl never.
#[local] Arguments le16 : simpl never.
#[local] Arguments of_le32 : simpl never.
#[local] Arguments of_le16 : simpl never.
#[local] Arguments N.modulo : simpl never.
#[local] Arguments N.div : simpl never.
#[local] Arguments N.add : simpl never.
#[local] Arguments N.mul : simpl never.
#[local] Arguments N.land : simpl never.
#[local] Arguments N.shiftr : simpl never.
#[local] Arguments N.testbit : simpl never.
#[local] Arguments N.ltb : simpl never.
#[local] Arguments N.leb : simpl never.
#[local] Arguments N.eqb : simpl never.
#[local] Arguments N.max : simpl never.

(* ---------- numbers ---------- *)
Lemma of_le16_le16 v : v < 65536 -> of_le16 (u16_lo v) (u16_hi v) = v.
Proof.
  intro H. unfold of_le16, u16_lo, u16_hi.
  rewrite (N.mod_small (v / 256) 256) by (apply N.div_lt_upper_bound; lia).
  pose proof (N.div_mod v 256 ltac:(lia)). lia.
Qed.

Lemma le32_cells v : le32 v = [v mod 256; (v / 256) mod 256; (v / 65536) mod 256; (v / 16777216) mod 256].
Proof. reflexivity. Qed.
Lemma le16_cells v : le16 v = [u16_lo v; u16_hi v].
Proof. reflexivity. Qed.

Lemma of_le32_le32 v : v < 4294967296 ->
  of_le32 (v mod 256) ((v / 256) mod 256) ((v / 65536) mod 256) ((v / 16777216) mod 256) = v.
Proof.
  intro H. unfold of_le32.
  rewrite (N.mod_small (v / 16777216) 256) by (apply N.div_lt_upper_bound; lia).
  pose proof (N.div_mod v 256 ltac:(lia)) as E0.
  pose proof (N.div_mod (v / 256) 256 ltac:(lia)) as E1.
  pose proof (N.div_mod (v / 256 / 256) 256 ltac:(lia)) as E2.
  rewrite N.div_div in E1, E2 by lia. rewrite N.div_div in E2 by lia.
  change (256 * 256) with 65536 in *. change (65536 * 256) with 16777216 in *.
  lia.
Qed.

(* flag tests as the code writes them vs. bit numbers *)
Lemma bit_shift_test f n : (N.land (N.shiftr f n) 1 =? 0) = negb (N.testbit f n).
Proof.
  change 1 with (N.ones 1). rewrite N.land_ones. change (2 ^ 1) with 2.
  rewrite <- N.bit0_mod, N.shiftr_spec by lia. rewrite N.add_0_l.
  destruct (N.testbit f n); reflexivity.
Qed.

Lemma bit_mask_test f n : (N.land f (2 ^ n) =? 0) = negb (N.testbit f n).
Proof.
  destruct (N.testbit f n) eqn:E; cbn [negb].
  - apply N.eqb_neq. intro H. apply (f_equal (fun x => N.testbit x n)) in H.
    rewrite N.land_spec, E, N.pow2_bits_true, N.bits_0 in H. discriminate.
  - apply N.eqb_eq. apply N.bits_inj. intro m. rewrite N.land_spec, N.bits_0, N.pow2_bits_eqb.
    destruct (N.eqb_spec n m) as [<-|]; [rewrite E|]; rewrite ?andb_false_r; reflexivity.
Qed.

Lemma bit0_test f : (N.land f 1 =? 1) = N.testbit f 0.
Proof.
  change 1 with (N.ones 1) at 1. rewrite N.land_ones. change (2 ^ 1) with 2.
  rewrite <- N.bit0_mod. destruct (N.testbit f 0); reflexivity.
Qed.

(* ---------- stepping Msg.read through a Component, one field at a time ---------- *)
Lemma read_comp_eq p fs input : read p (MComp fs) input = read_comp p (read p) fs input [] [] [] 0.
Proof. reflexivity. Qed.

Lemma rc_step p rd name v tl input skip dyn acc a v' rest a' :
  mem name skip = false -> dyn_lookup name dyn = None ->
  rd v input = ROk v' rest a' -> options p v' = ONone ->
  read_comp p rd ((name, v) :: tl) input skip dyn acc a
  = read_comp p rd tl rest skip dyn ((name, v') :: acc) (N.max a a').
Proof. intros H1 H2 H3 H4. cbn [read_comp]. rewrite H1, H2. unfold read_field. rewrite H3, H4. reflexivity. Qed.

Lemma rc_step_skip p rd name v tl input skip dyn acc a v' rest a' f :
  mem name skip = false -> dyn_lookup name dyn = None ->
  rd v input = ROk v' rest a' -> options p v' = OSkip f ->
  read_comp p rd ((name, v) :: tl) input skip dyn acc a
  = read_comp p rd tl rest (f :: skip) dyn ((name, v') :: acc) (N.max a a').
Proof. intros H1 H2 H3 H4. cbn [read_comp]. rewrite H1, H2. unfold read_field. rewrite H3, H4. reflexivity. Qed.

Lemma rc_skipped p rd name v tl input skip dyn acc a :
  mem name skip = true ->
  read_comp p rd ((name, v) :: tl) input skip dyn acc a = read_comp p rd tl input skip dyn ((name, v) :: acc) a.
Proof. intros H1. cbn [read_comp]. rewrite H1. reflexivity. Qed.

Lemma rd_u16 p x v rest : v < 65536 -> read p (MU16 LE x) (le16 v ++ rest) = ROk (MU16 LE v) rest 0.
Proof. intro H. rewrite le16_cells. cbn [app read]. rewrite of_le16_le16 by exact H. reflexivity. Qed.

Lemma rd_u32 p x v rest : v < 4294967296 -> read p (MU32 LE x) (le32 v ++ rest) = ROk (MU32 LE v) rest 0.
Proof. intro H. rewrite le32_cells. cbn [app read]. rewrite of_le32_le32 by exact H. reflexivity. Qed.

Lemma rd_dyn_u32 p x c v rest :
  v < 4294967296 -> read p (MDyn (MU32 LE x) c) (le32 v ++ rest) = ROk (MDyn (MU32 LE v) c) rest 0.
Proof. intro H. cbn [read]. fold (read p (MU32 LE x) (le32 v ++ rest)). rewrite rd_u32 by exact H. reflexivity. Qed.

Lemma rd_sig p rest : read p (MCheck (MBytes ntlmssp_sig)) (ntlmssp_sig ++ rest) = ROk (MCheck (MBytes ntlmssp_sig)) rest 0.
Proof. reflexivity. Qed.

Lemma rd_type p k rest : k < 256 -> read p (MCheck (MU32 LE k)) (le32 k ++ rest) = ROk (MCheck (MU32 LE k)) rest 0.
Proof.
  intro H. cbn [read]. fold (read p (MU32 LE k) (le32 k ++ rest)). rewrite rd_u32 by lia.
  unfold check_eq. cbn [num_of]. rewrite N.eqb_refl. reflexivity.
Qed.

Lemma len8 (l : bytes) : length l = 8%nat -> exists a b c d e f g h, l = [a; b; c; d; e; f; g; h].
Proof.
  destruct l as [|a [|b [|c [|d [|e [|f [|g [|h [|i r]]]]]]]]]; try discriminate. intros _.
  do 8 eexists. reflexivity.
Qed.

Lemma rd_bytes8 p (b rest : bytes) : length b = 8%nat -> read p (MBytes (repeat 0 8)) (b ++ rest) = ROk (MBytes b) rest 0.
Proof. intro H. destruct (len8 b H) as (b0 & b1 & b2 & b3 & b4 & b5 & b6 & b7 & ->). reflexivity. Qed.

Lemma rd_to_end p input : read p (MBytes []) input = ROk (MBytes input) [] 0.
Proof. reflexivity. Qed.

(* ---------- Msg.read on the CHALLENGE a server sends ---------- *)
Definition wf_challenge (c : challenge_fields) : Prop :=
  c_flags c < 4294967296 /\ length (c_server_challenge c) = 8%nat /\ length (c_reserved c) = 8%nat /\
  c_tname_len c < 65536 /\ c_tname_max c < 65536 /\ c_tname_off c < 4294967296 /\
  c_tinfo_max c < 65536 /\ length (c_version c) = 8%nat /\
  nlen (c_target_info c) < 65536 /\ challenge_header_len c + nlen (c_pre c) < 4294967296.

(* the message tree the client's reader builds from challenge_bytes c *)
Definition version_read (v : bytes) : msg :=
  let b := fun i => nth i v 0 in
  MComp [ ("ProductMajorVersion", MU8 (b 0%nat)); ("ProductMinorVersion", MU8 (b 1%nat));
          ("ProductBuild", MU16 LE (of_le16 (b 2%nat) (b 3%nat)));
          ("Reserved", MTrame [MU16 LE (of_le16 (b 4%nat) (b 5%nat)); MU8 (b 6%nat)]);
          ("NTLMRevisionCurrent", MU8 (b 7%nat)) ].

Definition challenge_read (c : challenge_fields) : msg :=
  MComp [ ("Signature", MCheck (MBytes ntlmssp_sig));
          ("MessageType", MCheck (MU32 LE 2));
          ("TargetNameLen", MU16 LE (c_tname_len c));
          ("TargetNameLenMax", MU16 LE (c_tname_max c));
          ("TargetNameBufferOffset", MU32 LE (c_tname_off c));
          ("NegotiateFlags", MDyn (MU32 LE (c_flags c)) skip_version_unless_flag);
          ("ServerChallenge", MBytes (c_server_challenge c));
          ("Reserved", MBytes (c_reserved c));
          ("TargetInfoLen", MU16 LE (nlen (c_target_info c)));
          ("TargetInfoMaxLen", MU16 LE (c_tinfo_max c));
          ("TargetInfoBufferOffset", MU32 LE (challenge_header_len c + nlen (c_pre c)));
          ("Version", if N.testbit (c_flags c) FLAG_VERSION then version_read (c_version c) else version_l);
          ("Payload", MBytes (c_pre c ++ c_target_info c ++ c_post c)) ].

Lemma rd_version p (v rest : bytes) : length v = 8%nat -> exists a, read p version_l (v ++ rest) = ROk (version_read v) rest a.
Proof. intro H. destruct (len8 v H) as (b0 & b1 & b2 & b3 & b4 & b5 & b6 & b7 & ->). eexists. reflexivity. Qed.

Lemma options_flags p f :
  options p (MDyn (MU32 LE f) skip_version_unless_flag) = if N.testbit f FLAG_VERSION then ONone else OSkip "Version"%string.
Proof.
  unfold options, eval_clo, skip_version_unless_flag. cbn [num_of eval_cond].
  rewrite bit_shift_test. unfold FLAG_VERSION. destruct (N.testbit f 25); reflexivity.
Qed.

Ltac rc_one lem := erewrite rc_step; [ | reflexivity | reflexivity | lem | reflexivity ].

Lemma read_challenge_bytes p c :
  wf_challenge c ->
  exists a, read p challenge_message_t (challenge_bytes c) = ROk (challenge_read c) [] a.
Proof.
  intros (Hf & Hsc & Hrs & Htl & Htm & Hto & Htim & Hv & Hti & Hoff).
  unfold challenge_bytes, challenge_read, challenge_message_t. rewrite read_comp_eq.
  change [78; 84; 76; 77; 83; 83; 80; 0] with ntlmssp_sig.
  rc_one ltac:(apply rd_sig).
  rc_one ltac:(apply (rd_type p 2); lia).
  rc_one ltac:(apply rd_u16; assumption).
  rc_one ltac:(apply rd_u16; assumption).
  rc_one ltac:(apply rd_u32; assumption).
  destruct (N.testbit (c_flags c) FLAG_VERSION) eqn:Ever.
  - erewrite rc_step; [ | reflexivity | reflexivity | apply rd_dyn_u32; assumption | rewrite options_flags, Ever; reflexivity ].
    rc_one ltac:(apply rd_bytes8; assumption).
    rc_one ltac:(apply rd_bytes8; assumption).
    rc_one ltac:(apply rd_u16; assumption).
    rc_one ltac:(apply rd_u16; assumption).
    rc_one ltac:(apply rd_u32; assumption).
    destruct (rd_version p (c_version c) (c_pre c ++ c_target_info c ++ c_post c) Hv) as [av Erv].
    rc_one ltac:(exact Erv).
    rc_one ltac:(apply rd_to_end).
    cbn [read_comp rev app]. eexists. reflexivity.
  - erewrite rc_step_skip; [ | reflexivity | reflexivity | apply rd_dyn_u32; assumption | rewrite options_flags, Ever; reflexivity ].
    rc_one ltac:(apply rd_bytes8; assumption).
    rc_one ltac:(apply rd_bytes8; assumption).
    rc_one ltac:(apply rd_u16; assumption).
    rc_one ltac:(apply rd_u16; assumption).
    rc_one ltac:(apply rd_u32; assumption).
    rewrite rc_skipped by reflexivity. cbn [app].
    rc_one ltac:(apply rd_to_end).
    cbn [read_comp rev app]. eexists. reflexivity.
Qed.

(* ---------- the challenge as the client sees it ---------- *)
Lemma nlen_len8 (b : bytes) : length b = 8%nat -> nlen b = 8.
Proof. intro H. unfold nlen. rewrite H. reflexivity. Qed.

(* Message::length of a Component, one field at a time (the inner loop of Msg.mlength, named) *)
Definition mlen_go (p : prof) :=
  fix go (fs : list (string * msg)) (skip : list string) : option N :=
    match fs with
    | [] => Some 0
    | (name, v) :: tl =>
        if mem name skip then go tl skip
        else match options p v with
             | OPanic => None
             | OSkip f => match mlength p v, go tl (f :: skip) with Some a, Some b => Some (a + b) | _, _ => None end
             | _ => match mlength p v, go tl skip with Some a, Some b => Some (a + b) | _, _ => None end
             end
    end.

Lemma mlength_comp p fs : mlength p (MComp fs) = mlen_go p fs [].
Proof. reflexivity. Qed.

Lemma mlen_step p name v tl skip a :
  mem name skip = false -> options p v = ONone -> mlength p v = Some a ->
  mlen_go p ((name, v) :: tl) skip = match mlen_go p tl skip with Some b => Some (a + b) | None => None end.
Proof. intros H1 H2 H3. cbn [mlen_go]. rewrite H1, H2, H3. reflexivity. Qed.

Lemma mlen_step_skip p name v tl skip a f :
  mem name skip = false -> options p v = OSkip f -> mlength p v = Some a ->
  mlen_go p ((name, v) :: tl) skip = match mlen_go p tl (f :: skip) with Some b => Some (a + b) | None => None end.
Proof. intros H1 H2 H3. cbn [mlen_go]. rewrite H1, H2, H3. reflexivity. Qed.

Lemma mlen_skipped p name v tl skip :
  mem name skip = true -> mlen_go p ((name, v) :: tl) skip = mlen_go p tl skip.
Proof. intros H1. cbn [mlen_go]. rewrite H1. reflexivity. Qed.

Ltac ml_one := erewrite mlen_step; [ | reflexivity | reflexivity | reflexivity ].

Lemma mlength_challenge p c :
  wf_challenge c ->
  mlength p (challenge_read c) = Some (challenge_header_len c + nlen (c_pre c ++ c_target_info c ++ c_post c)).
Proof.
  intros (Hf & Hsc & Hrs & Htl & Htm & Hto & Htim & Hv & Hti & Hoff).
  unfold challenge_read, challenge_header_len. rewrite mlength_comp.
  do 5 ml_one.
  destruct (N.testbit (c_flags c) FLAG_VERSION) eqn:Ever.
  - erewrite mlen_step; [ | reflexivity | rewrite options_flags, Ever; reflexivity | reflexivity ].
    do 7 ml_one. cbn [mlen_go mlength].
    change (nlen ntlmssp_sig) with 8. rewrite (nlen_len8 _ Hsc), (nlen_len8 _ Hrs). f_equal. lia.
  - erewrite mlen_step_skip; [ | reflexivity | rewrite options_flags, Ever; reflexivity | reflexivity ].
    do 5 ml_one. rewrite mlen_skipped by reflexivity. ml_one. cbn [mlen_go mlength].
    change (nlen ntlmssp_sig) with 8. rewrite (nlen_len8 _ Hsc), (nlen_len8 _ Hrs). f_equal. lia.
Qed.

Lemma firstn_skipn_mid {A} (pre f post : list A) :
  firstn (length f) (skipn (length pre) (pre ++ f ++ post)) = f.
Proof.
  rewrite skipn_app, skipn_all, Nat.sub_diag. cbn [skipn app].
  rewrite firstn_app, firstn_all, Nat.sub_diag. cbn [firstn]. apply app_nil_r.
Qed.

Lemma get_payload_field_challenge p c :
  wf_challenge c ->
  get_payload_field p (challenge_read c) (nlen (c_target_info c)) (challenge_header_len c + nlen (c_pre c))
  = Ok (c_target_info c).
Proof.
  intro Hwf. unfold get_payload_field.
  change (cast_bytes (get (challenge_read c) "Payload")) with (Ok (c_pre c ++ c_target_info c ++ c_post c)).
  cbn [obind]. rewrite (mlength_challenge p c Hwf).
  rewrite N.add_sub.
  replace (challenge_header_len c + nlen (c_pre c) <? challenge_header_len c) with false
    by (symmetry; apply N.ltb_ge; lia).
  replace (challenge_header_len c + nlen (c_pre c) - challenge_header_len c) with (nlen (c_pre c)) by lia.
  replace (nlen (c_pre c) + nlen (c_target_info c) <=? nlen (c_pre c ++ c_target_info c ++ c_post c)) with true
    by (symmetry; apply N.leb_le; rewrite !nlen_app; lia).
  unfold nlen. rewrite !Nat2N.id. rewrite firstn_skipn_mid. reflexivity.
Qed.

(* ---------- locating things in a byte string ---------- *)
Lemma sub_prefix (h rest : bytes) off len : off + len <= nlen h -> sub (h ++ rest) off len = sub h off len.
Proof.
  intro H. unfold sub.
  replace (off + len <=? nlen (h ++ rest)) with true by (symmetry; apply N.leb_le; rewrite nlen_app; lia).
  replace (off + len <=? nlen h) with true by (symmetry; apply N.leb_le; lia).
  f_equal. unfold nlen in H.
  rewrite skipn_app. replace (N.to_nat off - length h)%nat with 0%nat by lia. cbn [skipn].
  rewrite firstn_app. rewrite skipn_length.
  replace (N.to_nat len - (length h - N.to_nat off))%nat with 0%nat by lia. cbn [firstn]. apply app_nil_r.
Qed.

Lemma sub_mid (pre f post : bytes) : sub (pre ++ f ++ post) (nlen pre) (nlen f) = Some f.
Proof.
  unfold sub.
  replace (nlen pre + nlen f <=? nlen (pre ++ f ++ post)) with true
    by (symmetry; apply N.leb_le; rewrite !nlen_app; lia).
  unfold nlen. rewrite !Nat2N.id, firstn_skipn_mid. reflexivity.
Qed.

Lemma sub_mid' (pre f post : bytes) off len :
  off = nlen pre -> len = nlen f -> sub (pre ++ f ++ post) off len = Some f.
Proof. intros -> ->. apply sub_mid. Qed.

Lemma sub_all (f : bytes) : sub f 0 (nlen f) = Some f.
Proof. pose proof (sub_mid [] f []) as H. cbn [app] in H. rewrite app_nil_r in H. exact H. Qed.

Lemma u16_val a : a < 65536 -> u16_lo a + 256 * u16_hi a = a.
Proof. intro H. pose proof (of_le16_le16 a H) as E. unfold of_le16 in E. lia. Qed.

Lemma u16_at_piece (h rest : bytes) off a :
  off + 2 <= nlen h -> sub h off 2 = Some (le16 a) -> a < 65536 -> u16_at (h ++ rest) off = Some a.
Proof.
  intros Hb Hs Ha. unfold u16_at. rewrite sub_prefix by exact Hb. rewrite Hs, le16_cells.
  rewrite u16_val by exact Ha. reflexivity.
Qed.

Lemma u32_at_piece (h rest : bytes) off a :
  off + 4 <= nlen h -> sub h off 4 = Some (le32 a) -> a < 4294967296 -> u32_at (h ++ rest) off = Some a.
Proof.
  intros Hb Hs Ha. unfold u32_at. rewrite sub_prefix by exact Hb. rewrite Hs, le32_cells.
  pose proof (of_le32_le32 a Ha) as E. unfold of_le32 in E. rewrite E. reflexivity.
Qed.

(* ---------- the AUTHENTICATE header the client writes ---------- *)
Definition version_bytes : bytes := [6; 0] ++ le16 6002 ++ (le16 0 ++ [0] ++ []) ++ [15] ++ [].

Definition auth_fixed (off l1 l2 l3 l4 l5 lk flags : N) : bytes :=
  ntlmssp_sig ++ le32 3 ++
  le16 (as_u16 l1) ++ le16 (as_u16 l1) ++ le32 off ++
  le16 (as_u16 l2) ++ le16 (as_u16 l2) ++ le32 (off + as_u32 l1) ++
  le16 (as_u16 l3) ++ le16 (as_u16 l3) ++ le32 (off + as_u32 (l1 + l2)) ++
  le16 (as_u16 l4) ++ le16 (as_u16 l4) ++ le32 (off + as_u32 (l1 + l2 + l3)) ++
  le16 (as_u16 l5) ++ le16 (as_u16 l5) ++ le32 (off + as_u32 (l1 + l2 + l3 + l4)) ++
  le16 (as_u16 lk) ++ le16 (as_u16 lk) ++ le32 (off + as_u32 (l1 + l2 + l3 + l4 + l5)) ++
  le32 flags.

Definition auth_header (lm nt dom user ws key : bytes) (flags : N) : bytes :=
  auth_fixed (if N.testbit flags FLAG_VERSION then 88 else 80)
             (nlen lm) (nlen nt) (nlen dom) (nlen user) (nlen ws) (nlen key) flags
  ++ (if N.testbit flags FLAG_VERSION then version_bytes else []).

#[local] Arguments as_u16 : simpl never.
#[local] Arguments as_u32 : simpl never.
#[local] Arguments nlen : simpl never.

Lemma auth_header_written p lm nt dom user ws key flags :
  to_vec p (authenticate_message_l lm nt dom user ws key flags) = Ok (auth_header lm nt dom user ws key flags).
Proof.
  unfold to_vec, authenticate_message_l, auth_header, auth_fixed.
  change 33554432 with (2 ^ 25). rewrite bit_mask_test. unfold FLAG_VERSION.
  cbn [write mem String.eqb Ascii.eqb Bool.eqb options eval_clo num_of eval_cond orb enc16 enc32 version_l skip_version_unless_flag].
  rewrite bit_shift_test.
  destruct (N.testbit flags 25); cbn [negb];
    cbn [write mem String.eqb Ascii.eqb Bool.eqb options eval_clo num_of eval_cond orb enc16 enc32 version_l app];
    rewrite <- ?app_assoc; reflexivity.
Qed.

(* ---------- the (Len, MaxLen, BufferOffset) triples of the token address their fields ---------- *)
Lemma as_u16_small n : n <= 65535 -> as_u16 n = n.
Proof. intro H. unfold as_u16. apply N.mod_small. lia. Qed.
Lemma as_u32_small n : n < 4294967296 -> as_u32 n = n.
Proof. intro H. unfold as_u32. apply N.mod_small. lia. Qed.

Lemma field_at token pos ps len off f :
  u16_at token pos = Some len -> u16_at token (pos + 2) = Some len -> u32_at token (pos + 4) = Some off ->
  ps <= off -> sub token off len = Some f -> field token pos ps = Some f.
Proof.
  intros H1 H2 H3 H4 H5. unfold field. rewrite H1, H2, H3. cbn [obnd].
  rewrite N.leb_refl. replace (ps <=? off) with true by (symmetry; apply N.leb_le; exact H4).
  cbn [andb require obnd]. exact H5.
Qed.

Lemma field_i (H M pre f post : bytes) pos ps s :
  nlen H + nlen M = ps -> pos + 8 <= nlen H ->
  sub H pos 2 = Some (le16 (as_u16 (nlen f))) ->
  sub H (pos + 2) 2 = Some (le16 (as_u16 (nlen f))) ->
  sub H (pos + 4) 4 = Some (le32 (ps + as_u32 s)) ->
  s = nlen pre -> nlen f <= 65535 -> nlen pre < 1000000 -> ps < 100 ->
  field (H ++ M ++ pre ++ f ++ post) pos ps = Some f.
Proof.
  intros Hps Hpos S1 S2 S3 -> Hf Hpre Hsmall.
  rewrite as_u16_small in S1, S2 by exact Hf. rewrite as_u32_small in S3 by lia.
  apply (field_at _ pos ps (nlen f) (ps + nlen pre) f).
  - apply u16_at_piece; [lia | exact S1 | lia].
  - apply u16_at_piece; [lia | exact S2 | lia].
  - apply u32_at_piece; [lia | exact S3 | lia].
  - lia.
  - replace (H ++ M ++ pre ++ f ++ post) with ((H ++ M ++ pre) ++ f ++ post) by (rewrite <- !app_assoc; reflexivity).
    apply sub_mid'; [rewrite !nlen_app; lia | reflexivity].
Qed.

Definition token_payload (lm nt dom user ek : bytes) : bytes := lm ++ nt ++ dom ++ user ++ [] ++ ek.

Lemma nlen_fixed off l1 l2 l3 l4 l5 lk flags : nlen (auth_fixed off l1 l2 l3 l4 l5 lk flags) = 64.
Proof. reflexivity. Qed.

Theorem token_fields (lm nt dom user ek M : bytes) (flags : N) :
  nlen lm <= 65535 -> nlen nt <= 65535 -> nlen dom <= 65535 -> nlen user <= 65535 -> nlen ek <= 65535 ->
  flags < 4294967296 -> length M = 16%nat ->
  let H := auth_header lm nt dom user [] ek flags in
  let token := H ++ M ++ token_payload lm nt dom user ek in
  let mic_off := if N.testbit flags FLAG_VERSION then 72 else 64 in
  let ps := mic_off + 16 in
  sub token 0 8 = Some ntlmssp_sig /\ u32_at token 8 = Some 3 /\ u32_at token 60 = Some flags /\
  sub token mic_off 16 = Some M /\
  field token 12 ps = Some lm /\ field token 20 ps = Some nt /\ field token 28 ps = Some dom /\
  field token 36 ps = Some user /\ field token 44 ps = Some [] /\ field token 52 ps = Some ek /\
  firstn (N.to_nat mic_off) token = H /\ skipn (N.to_nat ps) token = token_payload lm nt dom user ek.
Proof.
  intros L1 L2 L3 L4 Lk Hfl HM H token mic_off ps.
  assert (HMn : nlen M = 16) by (unfold nlen; rewrite HM; reflexivity).
  assert (HH : nlen H = mic_off).
  { unfold H, auth_header, mic_off. rewrite nlen_app, nlen_fixed.
    destruct (N.testbit flags FLAG_VERSION); reflexivity. }
  unfold token, token_payload.
  repeat split.
  - rewrite sub_prefix by (rewrite HH; unfold mic_off; destruct (N.testbit flags FLAG_VERSION); lia).
    unfold H, auth_header. destruct (N.testbit flags FLAG_VERSION); reflexivity.
  - apply u32_at_piece; [rewrite HH; unfold mic_off; destruct (N.testbit flags FLAG_VERSION); lia | | lia].
    unfold H, auth_header. destruct (N.testbit flags FLAG_VERSION); reflexivity.
  - apply u32_at_piece; [rewrite HH; unfold mic_off; destruct (N.testbit flags FLAG_VERSION); lia | | exact Hfl].
    unfold H, auth_header. destruct (N.testbit flags FLAG_VERSION); reflexivity.
  - apply sub_mid'; [symmetry; exact HH | symmetry; exact HMn].
  - apply (field_i H M [] lm _ 12 ps 0); try (rewrite ?HH, ?HMn; unfold ps, mic_off; destruct (N.testbit flags FLAG_VERSION); (reflexivity || lia)).
    all: try (unfold H, auth_header, ps, mic_off; destruct (N.testbit flags FLAG_VERSION); reflexivity).
    all: try exact L1.
  - apply (field_i H M lm nt _ 20 ps (nlen lm)); try (rewrite ?HH, ?HMn; unfold ps, mic_off; destruct (N.testbit flags FLAG_VERSION); (reflexivity || lia)).
    all: try (unfold H, auth_header, ps, mic_off; destruct (N.testbit flags FLAG_VERSION); reflexivity).
    all: try exact L2.
  - replace (lm ++ nt ++ dom ++ user ++ [] ++ ek) with ((lm ++ nt) ++ dom ++ user ++ [] ++ ek) by (rewrite <- !app_assoc; reflexivity).
    apply (field_i H M (lm ++ nt) dom _ 28 ps (nlen lm + nlen nt)); try (rewrite ?HH, ?HMn, ?nlen_app; unfold ps, mic_off; destruct (N.testbit flags FLAG_VERSION); (reflexivity || lia)).
    all: try (unfold H, auth_header, ps, mic_off; destruct (N.testbit flags FLAG_VERSION); reflexivity).
    all: try exact L3.
  - replace (lm ++ nt ++ dom ++ user ++ [] ++ ek) with ((lm ++ nt ++ dom) ++ user ++ [] ++ ek) by (rewrite <- !app_assoc; reflexivity).
    apply (field_i H M (lm ++ nt ++ dom) user _ 36 ps (nlen lm + nlen nt + nlen dom)); try (rewrite ?HH, ?HMn, ?nlen_app; unfold ps, mic_off; destruct (N.testbit flags FLAG_VERSION); (reflexivity || lia)).
    all: try (unfold H, auth_header, ps, mic_off; destruct (N.testbit flags FLAG_VERSION); reflexivity).
    all: try exact L4.
  - replace (lm ++ nt ++ dom ++ user ++ [] ++ ek) with ((lm ++ nt ++ dom ++ user) ++ [] ++ ek) by (rewrite <- !app_assoc; reflexivity).
    apply (field_i H M (lm ++ nt ++ dom ++ user) [] _ 44 ps (nlen lm + nlen nt + nlen dom + nlen user)); try (rewrite ?HH, ?HMn, ?nlen_app; unfold ps, mic_off; destruct (N.testbit flags FLAG_VERSION); (reflexivity || lia)).
    all: try (unfold H, auth_header, ps, mic_off; destruct (N.testbit flags FLAG_VERSION); reflexivity).
    all: try (change (nlen (@nil N)) with 0; lia).
  - replace (lm ++ nt ++ dom ++ user ++ [] ++ ek) with ((lm ++ nt ++ dom ++ user ++ []) ++ ek ++ []) by (rewrite <- !app_assoc, ?app_nil_r; reflexivity).
    apply (field_i H M (lm ++ nt ++ dom ++ user ++ []) ek _ 52 ps (nlen lm + nlen nt + nlen dom + nlen user + nlen (@nil N))); try (rewrite ?HH, ?HMn, ?nlen_app; unfold ps, mic_off; destruct (N.testbit flags FLAG_VERSION); (reflexivity || lia)).
    all: try (unfold H, auth_header, ps, mic_off; destruct (N.testbit flags FLAG_VERSION); reflexivity).
    all: try exact Lk.
    all: try (change (nlen (@nil N)) with 0; rewrite ?HH, ?HMn, ?nlen_app; change (nlen (@nil N)) with 0; unfold mic_off; destruct (N.testbit flags FLAG_VERSION); lia).
  - rewrite <- HH. unfold nlen. rewrite Nat2N.id, firstn_app, firstn_all, Nat.sub_diag. cbn [firstn]. apply app_nil_r.
  - replace (H ++ M ++ lm ++ nt ++ dom ++ user ++ [] ++ ek) with ((H ++ M) ++ lm ++ nt ++ dom ++ user ++ [] ++ ek) by (rewrite <- !app_assoc; reflexivity).
    replace (N.to_nat ps) with (length (H ++ M)).
    + rewrite skipn_app, skipn_all, Nat.sub_diag. reflexivity.
    + unfold ps. rewrite <- HH, <- HMn. unfold nlen. rewrite app_length. lia.
Qed.

(* ================= the client's token and the server's verdict ================= *)
Section Accept.
Variable md4 : bytes -> bytes.
Variable hmac : bytes -> bytes -> bytes.
Variable uppercase : list N -> list N.
Hypothesis hmac_len : forall k x, length (hmac k x) = 16%nat.

Lemma nlen_hmac k x : nlen (hmac k x) = 16.
Proof. unfold nlen. rewrite hmac_len. reflexivity. Qed.

(* what the client derives from its credentials, as the server derives it from the account *)
Definition keys_match (st : ntlm) (acct : account) : Prop :=
  n_user st = a_user acct /\ n_domain st = a_domain acct /\
  n_key_nt st = NTOWFv2 hmac uppercase (a_nthash acct) (a_user acct) (a_domain acct) /\
  n_key_lm st = n_key_nt st.

Lemma keys_match_password dom user pw :
  keys_match (ntlm_new md4 hmac uppercase dom user pw) (mkAccount user dom (md4 (utf16le pw))).
Proof. repeat split. Qed.

Lemma keys_match_hash dom user h :
  keys_match (ntlm_from_hash hmac uppercase dom user h) (mkAccount user dom h).
Proof. repeat split. Qed.

(* the pieces of the token *)
Definition temp_of (ts nonce ti : bytes) : bytes := [1] ++ [1] ++ repeat 0 6 ++ ts ++ nonce ++ repeat 0 4 ++ ti.

Record pieces := mkPieces { pc_lm : bytes; pc_nt : bytes; pc_dom : bytes; pc_user : bytes; pc_ek : bytes }.

Definition pieces_of (st : ntlm) (c : challenge_fields) (nonce ts ek : bytes) : pieces :=
  let sc := c_server_challenge c in
  let temp := temp_of ts nonce (c_target_info c) in
  let proof := hmac (n_key_nt st) (sc ++ temp) in
  let u := N.land (c_flags c) 1 =? 1 in
  mkPieces (hmac (n_key_lm st) (sc ++ nonce) ++ nonce) (proof ++ temp)
           (encode_name u (n_domain st)) (encode_name u (n_user st)) ek.

Definition oversize (x : pieces) : bool :=
  (65535 <? nlen (pc_nt x)) || (65535 <? nlen (pc_dom x)) || (65535 <? nlen (pc_user x)).

Definition token_of (x : pieces) (flags : N) (negotiate request key : bytes) : bytes :=
  let H := auth_header (pc_lm x) (pc_nt x) (pc_dom x) (pc_user x) [] (pc_ek x) flags in
  let P := token_payload (pc_lm x) (pc_nt x) (pc_dom x) (pc_user x) (pc_ek x) in
  H ++ hmac key (negotiate ++ request ++ H ++ repeat 0 16 ++ P) ++ P.

Lemma rc4k_16 (k m : bytes) : length k = 16%nat -> exists e, rc4k k m = Ok e /\ length e = length m.
Proof.
  intro H. unfold rc4k, rc4_new, nlen. rewrite H. cbn [N.of_nat]. cbn [obind].
  eexists. split; [reflexivity | apply rc4_process_length].
Qed.

(* what read_challenge_message returns on a well-formed CHALLENGE whose AV list the client parses *)
Lemma client_token_shape p st negotiate c nonce key pairs ts :
  wf_challenge c ->
  read_target_info p (S (length (c_target_info c))) (c_target_info c) [] = Ok pairs ->
  av_find 7 pairs = Some ts ->
  exists ek,
    rc4k (hmac (n_key_nt st) (hmac (n_key_nt st) (c_server_challenge c ++ temp_of ts nonce (c_target_info c)))) key = Ok ek /\
    length ek = length key /\
    let x := pieces_of st c nonce ts ek in
    read_challenge_message hmac p st negotiate (challenge_bytes c) nonce key =
    if oversize x then Err EInvalidSize else Ok (token_of x (c_flags c) negotiate (challenge_bytes c) key).
Proof.
  intros Hwf Hti Hts.
  destruct (rc4k_16 (hmac (n_key_nt st) (hmac (n_key_nt st) (c_server_challenge c ++ temp_of ts nonce (c_target_info c)))) key
              (hmac_len _ _)) as (ek & Hek & Hlen).
  exists ek. split; [exact Hek|]. split; [exact Hlen|].
  intro x. unfold read_challenge_message.
  destruct (read_challenge_bytes p c Hwf) as [a E]. rewrite E.
  change (cast_bytes (get (challenge_read c) "ServerChallenge")) with (Ok (c_server_challenge c)).
  change (cast_num 16 (get (challenge_read c) "TargetInfoLen")) with (Ok (nlen (c_target_info c))).
  change (cast_num 32 (get (challenge_read c) "TargetInfoBufferOffset")) with (Ok (challenge_header_len c + nlen (c_pre c))).
  change (cast_num 32 (get (challenge_read c) "NegotiateFlags")) with (Ok (c_flags c)).
  cbn [obind]. rewrite (get_payload_field_challenge p c Hwf). cbn [obind].
  rewrite Hti. cbn [obind]. rewrite Hts.
  unfold compute_response_v2, kx_key_v2. fold (temp_of ts nonce (c_target_info c)).
  rewrite Hek. cbn [obind].
  fold (oversize x). change (oversize (pieces_of st c nonce ts ek)) with (oversize x).
  unfold x at 1. unfold pieces_of, oversize. cbn [pc_nt pc_dom pc_user].
  destruct (_ || _ || _); [reflexivity|].
  rewrite auth_header_written. cbn [obind]. reflexivity.
Qed.

Lemma beq_refl (a : bytes) : beq a a = true.
Proof. unfold beq. destruct (list_eq_dec N.eq_dec a a); congruence. Qed.

Lemma utf8_ascii (s : list N) : is_ascii s = true -> utf8 s = s.
Proof.
  induction s as [|ch s IH]; cbn [is_ascii forallb utf8 flat_map]; intro H; [reflexivity|].
  apply andb_true_iff in H. destruct H as [H1 H2]. unfold utf8_char. rewrite H1. cbn [app].
  f_equal. apply IH. exact H2.
Qed.

Lemma sub_tail (pre f : bytes) : sub (pre ++ f) (nlen pre) (nlen (pre ++ f) - nlen pre) = Some f.
Proof.
  rewrite nlen_app. replace (nlen pre + nlen f - nlen pre) with (nlen f) by lia.
  pose proof (sub_mid pre f []) as H. rewrite app_nil_r in H. exact H.
Qed.

Lemma challenge_server_challenge c :
  length (c_server_challenge c) = 8%nat -> sub (challenge_bytes c) 24 8 = Some (c_server_challenge c).
Proof.
  intro H. unfold challenge_bytes.
  set (rest := c_reserved c ++ _).
  replace ([78; 84; 76; 77; 83; 83; 80; 0] ++ le32 2 ++ le16 (c_tname_len c) ++ le16 (c_tname_max c) ++
           le32 (c_tname_off c) ++ le32 (c_flags c) ++ c_server_challenge c ++ rest)
    with (([78; 84; 76; 77; 83; 83; 80; 0] ++ le32 2 ++ le16 (c_tname_len c) ++ le16 (c_tname_max c) ++
           le32 (c_tname_off c) ++ le32 (c_flags c)) ++ c_server_challenge c ++ rest)
    by (rewrite <- !app_assoc; reflexivity).
  apply sub_mid'; [reflexivity | rewrite (nlen_len8 _ H); reflexivity].
Qed.

Theorem server_accepts p st acct negotiate c nonce key pairs ts token :
  keys_match st acct -> wf_challenge c ->
  N.testbit (c_flags c) FLAG_KEY_EXCH = true ->
  (N.testbit (c_flags c) FLAG_UNICODE = true \/ (is_ascii (a_user acct) = true /\ is_ascii (a_domain acct) = true)) ->
  length nonce = 8%nat -> length key = 16%nat -> length ts = 8%nat ->
  read_target_info p (S (length (c_target_info c))) (c_target_info c) [] = Ok pairs ->
  av_find 7 pairs = Some ts ->
  read_challenge_message hmac p st negotiate (challenge_bytes c) nonce key = Ok token ->
  server_authenticate hmac uppercase acct negotiate (challenge_bytes c) token = Some key.
Proof.
  intros (Ku & Kd & Knt & Klm) Hwf Hkx Hnames Hnonce Hkey Hts Hti Hav Hcl.
  destruct (client_token_shape p st negotiate c nonce key pairs ts Hwf Hti Hav) as (ek & Hek & Hlek & Hshape).
  cbv zeta in Hshape. rewrite Hshape in Hcl. clear Hshape.
  set (x := pieces_of st c nonce ts ek) in *.
  destruct (oversize x) eqn:Hov; [discriminate|]. injection Hcl as <-.
  unfold oversize in Hov. apply orb_false_iff in Hov. destruct Hov as [Hov Hov3].
  apply orb_false_iff in Hov. destruct Hov as [Hov1 Hov2].
  apply N.ltb_ge in Hov1, Hov2, Hov3.
  assert (Hsc : length (c_server_challenge c) = 8%nat) by (destruct Hwf as (_ & H & _); exact H).
  assert (Hfl : c_flags c < 4294967296) by (destruct Hwf as (H & _); exact H).
  assert (Hlm : nlen (pc_lm x) <= 65535).
  { unfold x, pieces_of. cbn [pc_lm]. rewrite nlen_app, nlen_hmac. unfold nlen. rewrite Hnonce. cbn. lia. }
  assert (Hekn : nlen (pc_ek x) = 16).
  { unfold x, pieces_of. cbn [pc_ek]. unfold nlen. rewrite Hlek, Hkey. reflexivity. }
  unfold token_of.
  set (H := auth_header (pc_lm x) (pc_nt x) (pc_dom x) (pc_user x) [] (pc_ek x) (c_flags c)).
  set (P := token_payload (pc_lm x) (pc_nt x) (pc_dom x) (pc_user x) (pc_ek x)).
  set (M := hmac key (negotiate ++ challenge_bytes c ++ H ++ repeat 0 16 ++ P)).
  destruct (token_fields (pc_lm x) (pc_nt x) (pc_dom x) (pc_user x) (pc_ek x) M (c_flags c)
              Hlm Hov1 Hov2 Hov3 ltac:(lia) Hfl (hmac_len _ _))
    as (F1 & F2 & F3 & F4 & F5 & F6 & F7 & F8 & F9 & F10 & F11 & F12).
  fold H in F1, F2, F3, F4, F5, F6, F7, F8, F9, F10, F11, F12.
  fold P in F1, F2, F3, F4, F5, F6, F7, F8, F9, F10, F11, F12.
  unfold server_authenticate.
  rewrite F1. cbn [obnd]. rewrite F2. cbn [obnd].
  change (beq ntlmssp_sig [78; 84; 76; 77; 83; 83; 80; 0] && (3 =? 3)) with true. cbn [require obnd].
  rewrite F3. cbn [obnd]. rewrite F4. cbn [obnd].
  rewrite F5, F6, F7, F8, F9, F10. cbn [obnd].
  (* names *)
  assert (Hn : name_matches (N.testbit (c_flags c) FLAG_UNICODE) (pc_user x) (a_user acct)
               && name_matches (N.testbit (c_flags c) FLAG_UNICODE) (pc_dom x) (a_domain acct) = true).
  { unfold x, pieces_of. cbn [pc_user pc_dom]. rewrite bit0_test, Ku, Kd. unfold FLAG_UNICODE in *.
    unfold name_matches, encode_name, unicode.
    destruct (N.testbit (c_flags c) 0).
    - rewrite !beq_refl. reflexivity.
    - destruct Hnames as [Hn|[Hn1 Hn2]]; [discriminate|].
      rewrite Hn1, Hn2, (utf8_ascii _ Hn1), (utf8_ascii _ Hn2), !beq_refl. reflexivity. }
  rewrite Hn. cbn [require obnd].
  rewrite (challenge_server_challenge c Hsc). cbn [obnd].
  (* NT response *)
  set (temp := temp_of ts nonce (c_target_info c)).
  set (knt := NTOWFv2 hmac uppercase (a_nthash acct) (a_user acct) (a_domain acct)).
  assert (Ent : pc_nt x = hmac knt (c_server_challenge c ++ temp) ++ temp).
  { unfold x, pieces_of. cbn [pc_nt]. rewrite Knt. reflexivity. }
  assert (Elm : pc_lm x = hmac knt (c_server_challenge c ++ nonce) ++ nonce).
  { unfold x, pieces_of. cbn [pc_lm]. rewrite Klm, Knt. reflexivity. }
  rewrite Ent.
  set (proof := hmac knt (c_server_challenge c ++ temp)).
  replace (sub (proof ++ temp) 0 16) with (Some proof)
    by (symmetry; apply (sub_mid' [] proof temp); [reflexivity | symmetry; apply nlen_hmac]).
  cbn [obnd].
  replace 16 with (nlen proof) at 1 2 by apply nlen_hmac. rewrite sub_tail. cbn [obnd].
  assert (Htemp : nlen temp = 28 + nlen (c_target_info c)).
  { unfold temp, temp_of. rewrite !nlen_app. unfold nlen at 1 2 3 4 5 6. rewrite Hts, Hnonce. cbn. lia. }
  replace (28 <=? nlen temp) with true by (symmetry; apply N.leb_le; lia).
  change (beq (firstn 2 temp) [1; 1]) with true. cbn [andb require obnd].
  fold proof. rewrite beq_refl. cbn [require obnd].
  replace (sub temp 16 8) with (Some nonce).
  2:{ symmetry. unfold temp, temp_of.
      replace ([1] ++ [1] ++ repeat 0 6 ++ ts ++ nonce ++ repeat 0 4 ++ c_target_info c)
        with (([1] ++ [1] ++ repeat 0 6 ++ ts) ++ nonce ++ repeat 0 4 ++ c_target_info c)
        by (rewrite <- !app_assoc; reflexivity).
      apply sub_mid'; [rewrite !nlen_app; unfold nlen; rewrite Hts; reflexivity | unfold nlen; rewrite Hnonce; reflexivity]. }
  cbn [obnd]. rewrite Elm, beq_refl. cbn [require obnd].
  (* key exchange *)
  rewrite Hkx.
  assert (Hek' : rc4k (hmac knt proof) (pc_ek x) = Ok key).
  { apply rc4k_involutive. unfold x, pieces_of. cbn [pc_ek]. unfold proof, temp, knt. rewrite <- Knt. exact Hek. }
  rewrite Hek', Hekn. change (16 =? 16) with true. cbn [obnd].
  (* MIC *)
  rewrite F11, F12. fold M. rewrite beq_refl. reflexivity.
Qed.

(* the token exists exactly when every field fits its 16-bit length *)
Theorem client_builds_or_refuses p st negotiate c nonce key pairs ts :
  wf_challenge c ->
  read_target_info p (S (length (c_target_info c))) (c_target_info c) [] = Ok pairs ->
  av_find 7 pairs = Some ts ->
  exists ek, length ek = length key /\
    let x := pieces_of st c nonce ts ek in
    (oversize x = false ->
       read_challenge_message hmac p st negotiate (challenge_bytes c) nonce key
       = Ok (token_of x (c_flags c) negotiate (challenge_bytes c) key)) /\
    (oversize x = true ->
       read_challenge_message hmac p st negotiate (challenge_bytes c) nonce key = Err EInvalidSize).
Proof.
  intros Hwf Hti Hav.
  destruct (client_token_shape p st negotiate c nonce key pairs ts Hwf Hti Hav) as (ek & _ & Hlek & Hshape).
  exists ek. split; [exact Hlek|]. cbv zeta in *. rewrite Hshape.
  split; intros ->; reflexivity.
Qed.

(* every (Len, MaxLen, BufferOffset) triple of a token the client returns addresses its field,
   inside the payload that starts right after the MIC *)
Theorem fields_in_bounds p st negotiate c nonce key pairs ts token :
  wf_challenge c -> length nonce = 8%nat -> length key = 16%nat ->
  read_target_info p (S (length (c_target_info c))) (c_target_info c) [] = Ok pairs ->
  av_find 7 pairs = Some ts ->
  read_challenge_message hmac p st negotiate (challenge_bytes c) nonce key = Ok token ->
  exists ek, let x := pieces_of st c nonce ts ek in
  let ps := (if N.testbit (c_flags c) FLAG_VERSION then 72 else 64) + 16 in
  u32_at token 60 = Some (c_flags c) /\
  field token 12 ps = Some (pc_lm x) /\ field token 20 ps = Some (pc_nt x) /\
  field token 28 ps = Some (pc_dom x) /\ field token 36 ps = Some (pc_user x) /\
  field token 44 ps = Some [] /\ field token 52 ps = Some (pc_ek x) /\
  skipn (N.to_nat ps) token = token_payload (pc_lm x) (pc_nt x) (pc_dom x) (pc_user x) (pc_ek x).
Proof.
  intros Hwf Hnonce Hkey Hti Hav Hcl.
  destruct (client_token_shape p st negotiate c nonce key pairs ts Hwf Hti Hav) as (ek & Hek & Hlek & Hshape).
  exists ek. cbv zeta in *. rewrite Hshape in Hcl. clear Hshape.
  set (x := pieces_of st c nonce ts ek) in *.
  destruct (oversize x) eqn:Hov; [discriminate|]. injection Hcl as <-.
  unfold oversize in Hov. apply orb_false_iff in Hov. destruct Hov as [Hov Hov3].
  apply orb_false_iff in Hov. destruct Hov as [Hov1 Hov2].
  apply N.ltb_ge in Hov1, Hov2, Hov3.
  assert (Hfl : c_flags c < 4294967296) by (destruct Hwf as (H & _); exact H).
  assert (Hlm : nlen (pc_lm x) <= 65535).
  { unfold x, pieces_of. cbn [pc_lm]. rewrite nlen_app, nlen_hmac. unfold nlen. rewrite Hnonce. cbn. lia. }
  assert (Hekn : nlen (pc_ek x) = 16).
  { unfold x, pieces_of. cbn [pc_ek]. unfold nlen. rewrite Hlek, Hkey. reflexivity. }
  unfold token_of.
  destruct (token_fields (pc_lm x) (pc_nt x) (pc_dom x) (pc_user x) (pc_ek x)
              (hmac key (negotiate ++ challenge_bytes c ++
                 auth_header (pc_lm x) (pc_nt x) (pc_dom x) (pc_user x) [] (pc_ek x) (c_flags c) ++ repeat 0 16 ++
                 token_payload (pc_lm x) (pc_nt x) (pc_dom x) (pc_user x) (pc_ek x)))
              (c_flags c) Hlm Hov1 Hov2 Hov3 ltac:(lia) Hfl (hmac_len _ _))
    as (F1 & F2 & F3 & F4 & F5 & F6 & F7 & F8 & F9 & F10 & F11 & F12).
  repeat split; assumption.
Qed.

End Accept.

(* password mode and hash mode build the SAME token for the same randomness when the hash is the
   password's NT hash (the password itself never enters the token) *)
Theorem hash_mode_equiv md4 hmac uppercase p dom user pw negotiate request nonce key :
  read_challenge_message hmac p (ntlm_from_hash hmac uppercase dom user (md4 (unicode pw))) negotiate request nonce key
  = read_challenge_message hmac p (ntlm_new md4 hmac uppercase dom user pw) negotiate request nonce key.
Proof.
  unfold read_challenge_message, ntlm_from_hash, ntlm_new, lmowfv2, ntowfv2_hash, ntowfv2.
  cbn [n_key_nt n_key_lm n_domain n_user]. reflexivity.
Qed.

(* ---------- AV pair lists as a server writes them are parsed by the client ---------- *)
(* 2.2.2.1 AV_PAIR: AvId, AvLen, Value; the list ends with MsvAvEOL (0, 0) *)
Definition av_bytes (pairs : list (N * bytes)) (trailing : bytes) : bytes :=
  flat_map (fun '(id, v) => le16 id ++ le16 (nlen v) ++ v) pairs ++ le16 0 ++ le16 0 ++ trailing.

Definition av_ok (q : N * bytes) : Prop := 1 <= fst q <= 10 /\ nlen (snd q) < 65536.

Lemma rc_step_size p rd name v tl input skip dyn acc a v' rest a' f n :
  mem name skip = false -> dyn_lookup name dyn = None ->
  rd v input = ROk v' rest a' -> options p v' = OSize f n ->
  read_comp p rd ((name, v) :: tl) input skip dyn acc a
  = read_comp p rd tl rest skip ((f, n) :: dyn) ((name, v') :: acc) (N.max a a').
Proof. intros H1 H2 H3 H4. cbn [read_comp]. rewrite H1, H2. unfold read_field. rewrite H3, H4. reflexivity. Qed.

Lemma rc_step_sized p rd name v tl input skip dyn acc a v' local rest a' n :
  mem name skip = false -> dyn_lookup name dyn = Some n -> (isize_max <? n) = false ->
  take (N.to_nat n) input = Some (local, rest) ->
  rd v local = ROk v' [] a' -> options p v' = ONone ->
  read_comp p rd ((name, v) :: tl) input skip dyn acc a
  = read_comp p rd tl rest skip dyn ((name, v') :: acc) (N.max a (N.max n a')).
Proof.
  intros H1 H2 H3 H4 H5 H6. cbn [read_comp]. rewrite H1, H2. unfold read_field. rewrite H3, H4, H5, H6. reflexivity.
Qed.

Lemma rd_dyn_u16 p x cl v rest :
  v < 65536 -> read p (MDyn (MU16 LE x) cl) (le16 v ++ rest) = ROk (MDyn (MU16 LE v) cl) rest 0.
Proof. intro H. cbn [read]. fold (read p (MU16 LE x) (le16 v ++ rest)). rewrite rd_u16 by exact H. reflexivity. Qed.

Lemma take_app (v rest : bytes) : take (N.to_nat (nlen v)) (v ++ rest) = Some (v, rest).
Proof.
  unfold take, nlen. rewrite Nat2N.id.
  replace (Nat.leb (length v) (length (v ++ rest))) with true
    by (symmetry; apply Nat.leb_le; rewrite app_length; lia).
  rewrite firstn_app, firstn_all, Nat.sub_diag, skipn_app, skipn_all, Nat.sub_diag. cbn [firstn skipn app].
  rewrite app_nil_r. reflexivity.
Qed.

Definition av_read (id : N) (v : bytes) : msg :=
  MComp [ ("AvId", MU16 LE id); ("AvLen", MDyn (MU16 LE (nlen v)) (CloSize "Value" XSelf)); ("Value", MBytes v) ].

Lemma read_av_pair p id v rest :
  id < 65536 -> nlen v < 65536 ->
  exists a, read p av_pair_t (le16 id ++ le16 (nlen v) ++ v ++ rest) = ROk (av_read id v) rest a.
Proof.
  intros Hid Hv. unfold av_pair_t, av_read. rewrite read_comp_eq.
  rc_one ltac:(apply rd_u16; exact Hid).
  erewrite rc_step_size; [ | reflexivity | reflexivity | apply rd_dyn_u16; exact Hv | reflexivity ].
  erewrite rc_step_sized; [ | reflexivity | reflexivity | | apply take_app | apply rd_to_end | reflexivity ].
  - cbn [read_comp rev app]. eexists. reflexivity.
  - apply N.ltb_ge. unfold isize_max. lia.
Qed.

Lemma read_target_info_av p (pairs : list (N * bytes)) : forall trailing acc fuel,
  Forall av_ok pairs -> (length pairs < fuel)%nat ->
  read_target_info p fuel (av_bytes pairs trailing) acc = Ok (rev pairs ++ acc).
Proof.
  induction pairs as [|[id v] pairs IH]; intros trailing acc fuel Hok Hfuel.
  - destruct fuel as [|fuel]; [cbn in Hfuel; lia|]. unfold av_bytes. cbn [flat_map app read_target_info].
    destruct (read_av_pair p 0 [] trailing ltac:(lia) ltac:(reflexivity)) as [a E].
    change (nlen (@nil N)) with 0 in E. cbn [app] in E. rewrite E. reflexivity.
  - destruct fuel as [|fuel]; [cbn in Hfuel; lia|]. inversion Hok as [|? ? [Hid Hv] Hok']; subst.
    cbn [fst snd] in Hid, Hv.
    unfold av_bytes. cbn [flat_map]. rewrite <- !app_assoc. cbn [read_target_info].
    destruct (read_av_pair p id v (flat_map (fun '(id, v) => le16 id ++ le16 (nlen v) ++ v) pairs ++ le16 0 ++ le16 0 ++ trailing)
                ltac:(lia) Hv) as [a E].
    rewrite E.
    change (cast_num 16 (get (av_read id v) "AvId")) with (Ok id). cbn [obind].
    replace (10 <? id) with false by (symmetry; apply N.ltb_ge; lia).
    replace (id =? 0) with false by (symmetry; apply N.eqb_neq; lia).
    change (cast_bytes (get (av_read id v) "Value")) with (Ok v). cbn [obind].
    fold (av_bytes pairs trailing). rewrite IH; [ | exact Hok' | cbn [length] in Hfuel; lia ].
    cbn [rev]. rewrite <- app_assoc. reflexivity.
Qed.

(* the fuel read_challenge_message gives read_target_info is enough *)
Lemma av_bytes_fuel (pairs : list (N * bytes)) trailing : (length pairs < S (length (av_bytes pairs trailing)))%nat.
Proof.
  unfold av_bytes. rewrite app_length.
  assert (length pairs <= length (flat_map (fun '(id, v) => le16 id ++ le16 (nlen v) ++ v) pairs))%nat.
  { induction pairs as [|[id v] l IH]; [cbn; lia|]. cbn [flat_map length]. rewrite !app_length. change (length (le16 id)) with 2%nat. lia. }
  lia.
Qed.

Lemma av_find_rev_unique (pairs : list (N * bytes)) id v :
  In (id, v) pairs -> (forall v', In (id, v') pairs -> v' = v) -> av_find id (rev pairs ++ []) = Some v.
Proof.
  rewrite app_nil_r. intros Hin Hun.
  assert (Hin' : In (id, v) (rev pairs)) by (apply in_rev in Hin; exact Hin).
  assert (Hun' : forall v', In (id, v') (rev pairs) -> v' = v) by (intros v' H; apply Hun, in_rev; exact H).
  clear Hin Hun. induction (rev pairs) as [|[i w] l IH]; [contradiction|].
  cbn [av_find]. destruct (N.eqb_spec i id) as [->|Hne].
  - f_equal. apply Hun'. left. reflexivity.
  - apply IH.
    + destruct Hin' as [E|E]; [injection E as -> _; contradiction | exact E].
    + intros v' H. apply Hun'. right. exact H.
Qed.

(* ---------- the statement with the CHALLENGE spelled out (no hypothesis about the client's parser) ---------- *)
Theorem accepts_av hmac uppercase :
  (forall k x, length (hmac k x) = 16%nat) ->
  forall p st acct negotiate c nonce key pairs trailing ts token,
  keys_match hmac uppercase st acct -> wf_challenge c ->
  c_target_info c = av_bytes pairs trailing -> Forall av_ok pairs ->
  In (7, ts) pairs -> (forall v, In (7, v) pairs -> v = ts) -> length ts = 8%nat ->
  N.testbit (c_flags c) FLAG_KEY_EXCH = true ->
  (N.testbit (c_flags c) FLAG_UNICODE = true \/ (is_ascii (a_user acct) = true /\ is_ascii (a_domain acct) = true)) ->
  length nonce = 8%nat -> length key = 16%nat ->
  read_challenge_message hmac p st negotiate (challenge_bytes c) nonce key = Ok token ->
  server_authenticate hmac uppercase acct negotiate (challenge_bytes c) token = Some key.
Proof.
  intros Hlen p st acct negotiate c nonce key pairs trailing ts token Hk Hwf Hti Hok Hin Hun Hts Hkx Hnm Hn Hkey Hcl.
  apply (server_accepts hmac uppercase Hlen p st acct negotiate c nonce key (rev pairs ++ []) ts token); try assumption.
  - rewrite Hti. apply read_target_info_av; [exact Hok | apply av_bytes_fuel].
  - apply av_find_rev_unique; assumption.
Qed.

(* ---------- concrete instance (non-vacuity), concrete MD4 / MD5 / HMAC-MD5 ---------- *)
From RdpV Require Import Md5 Md4 Hmac.

Lemma hmac_md5_len k x : length (hmac_md5 k x) = 16%nat.
Proof.
  unfold hmac_md5, hmac, md5. destruct (md_blocks md5_compress _ md_init _) as [[[a b] c] d]. reflexivity.
Qed.

Definition ascii_upper (s : list N) : list N := map (fun c => if (97 <=? c) && (c <=? 122) then c - 32 else c) s.

Definition ex_user : list N := [85; 115; 101; 114].            (* "User" *)
Definition ex_dom : list N := [68; 111; 109].                  (* "Dom" *)
Definition ex_pw : list N := [80; 228; 115; 115; 128512].      (* "Päss\U0001F600" *)
Definition ex_ts : bytes := [0; 1; 2; 3; 4; 5; 6; 7].
Definition ex_pairs : list (N * bytes) :=
  [(2, [68; 0; 79; 0; 77; 0]); (7, ex_ts); (1, [83; 0; 82; 0; 86; 0])].
Definition ex_chal : challenge_fields :=
  mkChal client_negotiate_flags (map N.of_nat (seq 16 8)) (repeat 0 8) 6 6 48 36 (repeat 0 8)
         [68; 0; 79; 0; 77; 0] (av_bytes ex_pairs []) [].
Definition ex_nonce : bytes := map N.of_nat (seq 161 8).
Definition ex_key : bytes := map N.of_nat (seq 32 16).
Definition ex_negotiate : bytes :=
  [78; 84; 76; 77; 83; 83; 80; 0; 1; 0; 0; 0; 53; 130; 8; 96] ++ repeat 0 16.
(* the CHALLENGE and the AUTHENTICATE token as the python reference (gen/nlmp.py) produces them *)
Definition ex_chal_bytes : bytes :=
 [78; 84; 76; 77; 83; 83; 80; 0; 2; 0; 0; 0; 6; 0; 6; 0; 48; 0; 0; 0; 53; 130; 8; 96; 16; 17; 18; 19; 20; 21; 22; 23;
  0; 0; 0; 0; 0; 0; 0; 0; 36; 0; 36; 0; 54; 0; 0; 0; 68; 0; 79; 0; 77; 0; 2; 0; 6; 0; 68; 0; 79; 0; 77; 0; 7; 0; 8; 0;
  0; 1; 2; 3; 4; 5; 6; 7; 1; 0; 6; 0; 83; 0; 82; 0; 86; 0; 0; 0; 0; 0].
Definition ex_token : bytes :=
 [78; 84; 76; 77; 83; 83; 80; 0; 3; 0; 0; 0; 24; 0; 24; 0; 80; 0; 0; 0; 80; 0; 80; 0; 104; 0; 0; 0; 6; 0; 6; 0; 184; 0;
  0; 0; 8; 0; 8; 0; 190; 0; 0; 0; 0; 0; 0; 0; 198; 0; 0; 0; 16; 0; 16; 0; 198; 0; 0; 0; 53; 130; 8; 96; 221; 28; 6; 72;
  171; 57; 193; 197; 235; 205; 52; 161; 149; 167; 3; 221; 182; 217; 26; 197; 87; 160; 188; 175; 5; 232; 40; 1; 209; 227;
  173; 11; 161; 162; 163; 164; 165; 166; 167; 168; 158; 217; 66; 98; 17; 91; 53; 223; 254; 219; 167; 220; 131; 40; 165;
  25; 1; 1; 0; 0; 0; 0; 0; 0; 0; 1; 2; 3; 4; 5; 6; 7; 161; 162; 163; 164; 165; 166; 167; 168; 0; 0; 0; 0; 2; 0; 6; 0;
  68; 0; 79; 0; 77; 0; 7; 0; 8; 0; 0; 1; 2; 3; 4; 5; 6; 7; 1; 0; 6; 0; 83; 0; 82; 0; 86; 0; 0; 0; 0; 0; 68; 0; 111; 0;
  109; 0; 85; 0; 115; 0; 101; 0; 114; 0; 70; 25; 140; 127; 216; 253; 111; 7; 240; 57; 28; 58; 136; 108; 243; 236].

Lemma ex_hypotheses :
  wf_challenge ex_chal /\ Forall av_ok ex_pairs /\ In (7, ex_ts) ex_pairs /\
  (forall v, In (7, v) ex_pairs -> v = ex_ts) /\
  N.testbit (c_flags ex_chal) FLAG_KEY_EXCH = true /\ N.testbit (c_flags ex_chal) FLAG_UNICODE = true /\
  challenge_bytes ex_chal = ex_chal_bytes /\
  create_negotiate_message Debug = Ok ex_negotiate.
Proof.
  split. { unfold wf_challenge. cbn. repeat split; reflexivity. }
  split. { repeat constructor; cbn; lia. }
  split. { right. left. reflexivity. }
  split. { intros v [H|[H|[H|[]]]]; try discriminate. injection H as <-. reflexivity. }
  repeat split; vm_compute; reflexivity.
Qed.

Lemma ex_client_token :
  read_challenge_message hmac_md5 Debug (ntlm_new md4 hmac_md5 ascii_upper ex_dom ex_user ex_pw)
    ex_negotiate (challenge_bytes ex_chal) ex_nonce ex_key = Ok ex_token /\
  read_challenge_message hmac_md5 Release (ntlm_from_hash hmac_md5 ascii_upper ex_dom ex_user (md4 (utf16le ex_pw)))
    ex_negotiate (challenge_bytes ex_chal) ex_nonce ex_key = Ok ex_token.
Proof. split; vm_compute; reflexivity. Qed.

Lemma ex_server_accepts :
  server_authenticate hmac_md5 ascii_upper (mkAccount ex_user ex_dom (md4 (utf16le ex_pw)))
    ex_negotiate ex_chal_bytes ex_token = Some ex_key.
Proof. vm_compute. reflexivity. Qed.

(* a server does not accept just anything: one flipped bit in the NTProofStr, or the wrong account hash *)
Lemma ex_server_rejects :
  server_verify hmac_md5 ascii_upper (mkAccount ex_user ex_dom (md4 (utf16le ex_pw)))
    ex_negotiate ex_chal_bytes (firstn 104 ex_token ++ [159] ++ skipn 105 ex_token) = false /\
  server_verify hmac_md5 ascii_upper (mkAccount ex_user ex_dom (md4 (utf16le ex_user)))
    ex_negotiate ex_chal_bytes ex_token = false.
Proof. split; vm_compute; reflexivity. Qed.

(* the repo's unit-test vectors: test_ntowfv2, test_compute_response_v2, test_auth_message *)
Example repo_test_ntowfv2 :
  ntowfv2 md4 hmac_md5 ascii_upper [102; 111; 111] [117; 115; 101; 114] [100; 111; 109; 97; 105; 110]
  = [110; 83; 185; 0; 151; 140; 135; 31; 145; 222; 6; 68; 157; 139; 139; 129].
Proof. vm_compute. reflexivity. Qed.

Example repo_test_compute_response_v2 :
  compute_response_v2 hmac_md5 [97] [98] [99] [100] [101] [102]
  = ([180; 35; 132; 15; 110; 131; 193; 90; 69; 79; 76; 146; 122; 242; 195; 62; 1; 1; 0; 0; 0; 0; 0; 0; 101; 100; 0; 0; 0; 0; 102],
     [86; 186; 255; 45; 152; 190; 205; 165; 109; 230; 23; 137; 225; 237; 202; 174; 100],
     [64; 59; 51; 229; 36; 52; 60; 195; 36; 160; 77; 119; 117; 52; 164; 208]).
Proof. vm_compute. reflexivity. Qed.

Example repo_test_auth_message :
  firstn 64 (auth_header [102; 111; 111] [102; 111; 111] [100; 111; 109; 97; 105; 110] [117; 115; 101; 114]
               [119; 111; 114; 107; 115; 116; 97; 116; 105; 111; 110] [102; 111; 111] 0)
  = [78; 84; 76; 77; 83; 83; 80; 0; 3; 0; 0; 0; 3; 0; 3; 0; 80; 0; 0; 0; 3; 0; 3; 0; 83; 0; 0; 0; 6; 0; 6; 0;
     86; 0; 0; 0; 4; 0; 4; 0; 92; 0; 0; 0; 11; 0; 11; 0; 96; 0; 0; 0; 3; 0; 3; 0; 107; 0; 0; 0; 0; 0; 0; 0].
Proof. vm_compute. reflexivity. Qed.

(* ---------- the two credential modes, stated directly ---------- *)
Theorem accepts_password md4 hmac uppercase :
  (forall k x, length (hmac k x) = 16%nat) ->
  forall p dom user pw negotiate c nonce key pairs trailing ts token,
  wf_challenge c -> c_target_info c = av_bytes pairs trailing -> Forall av_ok pairs ->
  In (7, ts) pairs -> (forall v, In (7, v) pairs -> v = ts) -> length ts = 8%nat ->
  N.testbit (c_flags c) FLAG_KEY_EXCH = true ->
  (N.testbit (c_flags c) FLAG_UNICODE = true \/ (is_ascii user = true /\ is_ascii dom = true)) ->
  length nonce = 8%nat -> length key = 16%nat ->
  read_challenge_message hmac p (ntlm_new md4 hmac uppercase dom user pw) negotiate (challenge_bytes c) nonce key = Ok token ->
  server_authenticate hmac uppercase (mkAccount user dom (md4 (utf16le pw))) negotiate (challenge_bytes c) token = Some key.
Proof.
  intros Hlen p dom user pw negotiate c nonce key pairs trailing ts token. intros.
  eapply (accepts_av hmac uppercase Hlen p _ _ negotiate c nonce key pairs trailing ts token); try eassumption.
  apply keys_match_password.
Qed.

Theorem accepts_hash hmac uppercase :
  (forall k x, length (hmac k x) = 16%nat) ->
  forall p dom user nthash negotiate c nonce key pairs trailing ts token,
  wf_challenge c -> c_target_info c = av_bytes pairs trailing -> Forall av_ok pairs ->
  In (7, ts) pairs -> (forall v, In (7, v) pairs -> v = ts) -> length ts = 8%nat ->
  N.testbit (c_flags c) FLAG_KEY_EXCH = true ->
  (N.testbit (c_flags c) FLAG_UNICODE = true \/ (is_ascii user = true /\ is_ascii dom = true)) ->
  length nonce = 8%nat -> length key = 16%nat ->
  read_challenge_message hmac p (ntlm_from_hash hmac uppercase dom user nthash) negotiate (challenge_bytes c) nonce key = Ok token ->
  server_authenticate hmac uppercase (mkAccount user dom nthash) negotiate (challenge_bytes c) token = Some key.
Proof.
  intros Hlen p dom user nthash negotiate c nonce key pairs trailing ts token. intros.
  eapply (accepts_av hmac uppercase Hlen p _ _ negotiate c nonce key pairs trailing ts token); try eassumption.
  apply keys_match_hash.
Qed.

Theorem builds_or_refuses_av hmac :
  (forall k x, length (hmac k x) = 16%nat) ->
  forall p st negotiate c nonce key pairs trailing ts,
  wf_challenge c -> c_target_info c = av_bytes pairs trailing -> Forall av_ok pairs ->
  In (7, ts) pairs -> (forall v, In (7, v) pairs -> v = ts) ->
  exists ek, length ek = length key /\
    let x := pieces_of hmac st c nonce ts ek in
    (oversize x = false ->
       read_challenge_message hmac p st negotiate (challenge_bytes c) nonce key
       = Ok (token_of hmac x (c_flags c) negotiate (challenge_bytes c) key)) /\
    (oversize x = true ->
       read_challenge_message hmac p st negotiate (challenge_bytes c) nonce key = Err EInvalidSize).
Proof.
  intros Hlen p st negotiate c nonce key pairs trailing ts Hwf Hti Hok Hin Hun.
  apply (client_builds_or_refuses hmac Hlen p st negotiate c nonce key (rev pairs ++ []) ts Hwf).
  - rewrite Hti. apply read_target_info_av; [exact Hok | apply av_bytes_fuel].
  - apply av_find_rev_unique; assumption.
Qed.

Theorem fields_in_bounds_av hmac :
  (forall k x, length (hmac k x) = 16%nat) ->
  forall p st negotiate c nonce key pairs trailing ts token,
  wf_challenge c -> c_target_info c = av_bytes pairs trailing -> Forall av_ok pairs ->
  In (7, ts) pairs -> (forall v, In (7, v) pairs -> v = ts) ->
  length nonce = 8%nat -> length key = 16%nat ->
  read_challenge_message hmac p st negotiate (challenge_bytes c) nonce key = Ok token ->
  exists ek, let x := pieces_of hmac st c nonce ts ek in
  let ps := (if N.testbit (c_flags c) FLAG_VERSION then 72 else 64) + 16 in
  u32_at token 60 = Some (c_flags c) /\
  field token 12 ps = Some (pc_lm x) /\ field token 20 ps = Some (pc_nt x) /\
  field token 28 ps = Some (pc_dom x) /\ field token 36 ps = Some (pc_user x) /\
  field token 44 ps = Some [] /\ field token 52 ps = Some (pc_ek x) /\
  skipn (N.to_nat ps) token = token_payload (pc_lm x) (pc_nt x) (pc_dom x) (pc_user x) (pc_ek x).
Proof.
  intros Hlen p st negotiate c nonce key pairs trailing ts token Hwf Hti Hok Hin Hun Hn Hk Hcl.
  apply (fields_in_bounds hmac Hlen p st negotiate c nonce key (rev pairs ++ []) ts token Hwf Hn Hk); try assumption.
  - rewrite Hti. apply read_target_info_av; [exact Hok | apply av_bytes_fuel].
  - apply av_find_rev_unique; assumption.
Qed.

Lemma ex_nonvacuous :
  (wf_challenge ex_chal /\ Forall av_ok ex_pairs /\ In (7, ex_ts) ex_pairs /\
   (forall v, In (7, v) ex_pairs -> v = ex_ts) /\
   N.testbit (c_flags ex_chal) FLAG_KEY_EXCH = true /\ N.testbit (c_flags ex_chal) FLAG_UNICODE = true /\
   challenge_bytes ex_chal = ex_chal_bytes /\ create_negotiate_message Debug = Ok ex_negotiate) /\
  (read_challenge_message hmac_md5 Debug (ntlm_new md4 hmac_md5 ascii_upper ex_dom ex_user ex_pw)
     ex_negotiate (challenge_bytes ex_chal) ex_nonce ex_key = Ok ex_token /\
   read_challenge_message hmac_md5 Release (ntlm_from_hash hmac_md5 ascii_upper ex_dom ex_user (md4 (utf16le ex_pw)))
     ex_negotiate (challenge_bytes ex_chal) ex_nonce ex_key = Ok ex_token) /\
  server_authenticate hmac_md5 ascii_upper (mkAccount ex_user ex_dom (md4 (utf16le ex_pw)))
    ex_negotiate ex_chal_bytes ex_token = Some ex_key /\
  server_verify hmac_md5 ascii_upper (mkAccount ex_user ex_dom (md4 (utf16le ex_pw)))
    ex_negotiate ex_chal_bytes (firstn 104 ex_token ++ [159] ++ skipn 105 ex_token) = false /\
  server_verify hmac_md5 ascii_upper (mkAccount ex_user ex_dom (md4 (utf16le ex_user)))
    ex_negotiate ex_chal_bytes ex_token = false.
Proof.
  split; [exact ex_hypotheses|]. split; [exact ex_client_token|]. split; [exact ex_server_accepts|]. exact ex_server_rejects.
Qed.
