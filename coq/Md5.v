(* Executable MD5 (RFC 1321) over N / list N.  Models the external crate `md-5`
   (Md5::new().input(data).result()) as used by ntlm.rs md5 / hmac_md5.  32-bit words
   are N < 2^32. *)
From RdpV Require Import Base.

Definition w32 : N := 4294967296.
Definition mask32 : N := 4294967295.
(* N.land _ mask32 = _ mod 2^32 (much faster to evaluate than N.modulo) *)
Definition add32 (a b : N) : N := N.land (a + b) mask32.
Definition not32 (a : N) : N := N.lxor a mask32.
Definition rotl32 (x s : N) : N := N.lor (N.land (N.shiftl x s) mask32) (N.shiftr x (32 - s)).

(* bytes <-> little-endian 32-bit words *)
Fixpoint words_le (l : bytes) : list N :=
  match l with
  | a :: b :: c :: d :: r => of_le32 a b c d :: words_le r
  | _ => []
  end.

Definition le64 (n : N) : bytes := le32 (n mod w32) ++ le32 (n / w32).

(* padding shared by MD4 and MD5: 0x80, zeros up to 56 mod 64, 64-bit LE bit length *)
Definition md_pad (msg : bytes) : bytes :=
  let n := nlen msg in
  let z := (119 - n mod 64) mod 64 in          (* (55 - n) mod 64 *)
  msg ++ [128] ++ repeat 0 (N.to_nat z) ++ le64 (8 * n).

Definition md5_K : list N :=
 [3614090360; 3905402710; 606105819; 3250441966; 4118548399; 1200080426; 2821735955; 4249261313;
  1770035416; 2336552879; 4294925233; 2304563134; 1804603682; 4254626195; 2792965006; 1236535329;
  4129170786; 3225465664; 643717713; 3921069994; 3593408605; 38016083; 3634488961; 3889429448;
  568446438; 3275163606; 4107603335; 1163531501; 2850285829; 4243563512; 1735328473; 2368359562;
  4294588738; 2272392833; 1839030562; 4259657740; 2763975236; 1272893353; 4139469664; 3200236656;
  681279174; 3936430074; 3572445317; 76029189; 3654602809; 3873151461; 530742520; 3299628645;
  4096336452; 1126891415; 2878612391; 4237533241; 1700485571; 2399980690; 4293915773; 2240044497;
  1873313359; 4264355552; 2734768916; 1309151649; 4149444226; 3174756917; 718787259; 3951481745].

Definition md5_S : list N :=
 [7; 12; 17; 22; 7; 12; 17; 22; 7; 12; 17; 22; 7; 12; 17; 22;
  5; 9; 14; 20; 5; 9; 14; 20; 5; 9; 14; 20; 5; 9; 14; 20;
  4; 11; 16; 23; 4; 11; 16; 23; 4; 11; 16; 23; 4; 11; 16; 23;
  6; 10; 15; 21; 6; 10; 15; 21; 6; 10; 15; 21; 6; 10; 15; 21].

Definition md5_f (i b c d : N) : N :=
  if i <? 16 then N.lor (N.land b c) (N.land (not32 b) d)
  else if i <? 32 then N.lor (N.land d b) (N.land (not32 d) c)
  else if i <? 48 then N.lxor (N.lxor b c) d
  else N.lxor c (N.lor b (not32 d)).

Definition md5_g (i : N) : N :=
  if i <? 16 then i
  else if i <? 32 then (5 * i + 1) mod 16
  else if i <? 48 then (3 * i + 5) mod 16
  else (7 * i) mod 16.

Definition st4 : Type := (N * N * N * N)%type.

Fixpoint md5_steps (ks ss : list N) (i : N) (m : list N) (s : st4) : st4 :=
  match ks, ss with
  | k :: ks', sh :: ss' =>
      let '(a, b, c, d) := s in
      let f := md5_f i b c d in
      let x := add32 (add32 (add32 a f) k) (nth (N.to_nat (md5_g i)) m 0) in
      md5_steps ks' ss' (i + 1) m (d, add32 b (rotl32 x sh), b, c)
  | _, _ => s
  end.

Definition md5_compress (s : st4) (m : list N) : st4 :=
  let '(a, b, c, d) := s in
  let '(a', b', c', d') := md5_steps md5_K md5_S 0 m s in
  (add32 a a', add32 b b', add32 c c', add32 d d').

(* one 16-word block at a time; fuel = number of words (never exhausted) *)
Fixpoint md_blocks (compress : st4 -> list N -> st4) (fuel : nat) (s : st4) (ws : list N) : st4 :=
  match fuel with
  | O => s
  | S f =>
      match ws with
      | [] => s
      | _ => md_blocks compress f (compress s (firstn 16 ws)) (skipn 16 ws)
      end
  end.

Definition md_init : st4 := (1732584193, 4023233417, 2562383102, 271733878).

Definition st4_bytes (s : st4) : bytes :=
  let '(a, b, c, d) := s in le32 a ++ le32 b ++ le32 c ++ le32 d.

Definition md5 (msg : bytes) : bytes :=
  let ws := words_le (md_pad msg) in
  st4_bytes (md_blocks md5_compress (length ws) md_init ws).
