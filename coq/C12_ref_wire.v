(* C12, history level, what is on the wire: the five frames the client writes to answer a
   demand-active (C12_ref_proofs.client_finalization) are accepted by the strict parsers of
   StrictPdu.v (written from the standards) and decode to exactly one confirm-active, synchronize,
   cooperate, request-control and font-list carrying the demand-active's share id and the client's
   user id -- reusing C04's emitter lemmas. *)
From RdpV Require Import Base Msg LayoutsGlobal LayoutsConnect Link Tpkt Global RefInput ClientPdus StrictPdu
                         C04_proofs RefSession C12_proofs C12_ref_proofs.
Open Scope list_scope.
Open Scope N_scope.

(* the client PDUs MS-RDPBCGR 1.3.1.1 prescribes in answer to a demand-active with share id [sid], as
   decoded values: confirm-active (2.2.1.13.2) then the client's half of the connection finalization
   (2.2.1.14 synchronize whose targetUser is the server's MCS channel id 0x03EA, 2.2.1.15 control
   cooperate, 2.2.1.16 control request-control, 2.2.1.18 font list), each with initiator = PDUSource =
   the client's user id, on the I/O channel the session joined (whatever id the server announced) *)
Definition finalization_pdus (s : session) (sid : N) : list pdu :=
  let u := user_id s in let ch := channel_id s in
  [ PConfirmActive u ch u
      (mkConfirm sid (cname s) [1; 2; 3; 4; 8; 12; 13; 15; 16; 17; 20; 26]
                 (Some 1045) (Some (24, width s, height s)) (Some (21, layout s, 4, 0, 12)));
    PSynchronize u ch u sid SERVER_CHANNEL;
    PControl u ch u sid 4 0 0;
    PControl u ch u sid 1 0 0;
    PFontList u ch u sid ].

(* their abstraction onto the alphabet of RefSession.v *)
Definition cpdu_of (d : pdu) : option cpdu :=
  match d with
  | PConfirmActive _ _ _ c => Some (CConfirmActive (f_share c))
  | PSynchronize _ _ _ sh _ => Some (CSynchronize sh)
  | PControl _ _ _ sh a _ _ => if a =? 4 then Some (CCooperate sh) else if a =? 1 then Some (CRequestControl sh) else None
  | PFontList _ _ _ sh => Some (CFontList sh)
  | _ => None
  end.

Lemma cpdu_of_finalization s sid : map cpdu_of (finalization_pdus s sid) = map Some (finalization_sequence sid).
Proof. reflexivity. Qed.

(* a client as RdpClient builds it: joined to the I/O channel the server announced (any u16 id), a user
   id as the attach-user confirm reader returns it, u16 screen size, u32 keyboard layout, a name that
   fits one PER length *)
Definition client_ok (s : session) : Prop :=
  channel_id s < 65536 /\ 1001 <= user_id s <= 65535 /\ width s < 65536 /\ height s < 65536 /\
  layout s < 4294967296 /\ nlen (cname s) + 396 <= C04_proofs.PER_MAX.

Lemma checked_inv o f : checked o = Ok f -> o = Ok f.
Proof.
  unfold checked. destruct o as [x| | |]; cbn [obind]; try discriminate.
  destruct (65535 <? nlen x); [discriminate|]. auto.
Qed.

Lemma Forall2_4 {A B} (R : A -> B -> Prop) a1 a2 a3 a4 b1 b2 b3 b4 :
  Forall2 R [a1; a2; a3; a4] [b1; b2; b3; b4] -> R a1 b1 /\ R a2 b2 /\ R a3 b3 /\ R a4 b4.
Proof.
  intros H. inversion H as [|? ? ? ? R1 H1]; subst. inversion H1 as [|? ? ? ? R2 H2]; subst.
  inversion H2 as [|? ? ? ? R3 H3]; subst. inversion H3 as [|? ? ? ? R4 H4]; subst. auto.
Qed.

Section Wire.
Variable p : prof.

Lemma confirm_frame_parses s sid :
  client_ok s -> sid < 4294967296 ->
  exists f, write_confirm_active p (set_share s (Some sid)) = Ok f /\
            strict_parse f = Some (hd (PDisconnect 0) (finalization_pdus s sid)).
Proof.
  intros (Hch & Hu & Hw & Hh & Hl & Hn) Hsid. unfold C04_proofs.PER_MAX in Hn.
  set (c := mkCfg 0 false false (width s) (height s) (layout s) [] [] [] []).
  set (i := mkIds 0 0 (user_id s) sid (channel_id s)).
  set (capsec := caps_section_explicit (u16_lo (width s)) (u16_hi (width s)) (u16_lo (height s)) (u16_hi (height s))
                   (layout s mod 256) ((layout s / 256) mod 256) ((layout s / 65536) mod 256) ((layout s / 16777216) mod 256)).
  assert (Hwr : write_confirm_active p (set_share s (Some sid))
                = Ok (mcs_frame (session_of c i) (confirm_written (user_id s) sid (cname s) capsec))).
  { destruct s. reflexivity. }
  assert (Hcl : nlen capsec = 380) by reflexivity.
  rewrite Hwr. eexists. split; [reflexivity|].
  rewrite confirm_written_flat by (try exact Hcl; lia).
  assert (Hlen : nlen (confirm_flat (user_id s) sid (cname s) capsec) <= C04_proofs.PER_MAX).
  { rewrite nlen_confirm_flat by exact Hcl. unfold C04_proofs.PER_MAX. lia. }
  apply parse_mcs_frame; [exact Hu|exact Hch|exact Hlen|].
  cbn [i_uid i]. subst capsec. rewrite confirm_flat_parses by lia.
  rewrite !C04_proofs.le16_of by assumption. rewrite C04_proofs.le32_of by assumption.
  cbn [finalization_pdus hd]. reflexivity.
Qed.

Lemma finalize_frames_parse s sid :
  client_ok s -> sid < 4294967296 ->
  exists fs, write_client_finalize p (set_share s (Some sid)) = Ok fs /\
             Forall2 (fun f d => strict_parse f = Some d) fs (tl (finalization_pdus s sid)).
Proof.
  intros (Hch & Hu & _) Hsid.
  set (c := mkCfg 0 false false (width s) (height s) (layout s) [] [] [] []).
  set (i := mkIds 0 0 (user_id s) sid (channel_id s)).
  pose proof (emit_finalize_parses p c i Hu Hch Hsid) as H.
  unfold emit_finalize, expected_finalize in H.
  apply Forall2_4 in H. destruct H as ([f1 [E1 P1]] & [f2 [E2 P2]] & [f3 [E3 P3]] & [f4 [E4 P4]]).
  apply checked_inv in E1, E2, E3, E4.
  exists [f1; f2; f3; f4]. split.
  - assert (Hs : write_client_finalize p (set_share s (Some sid)) = write_client_finalize p (session_of c i)).
    { destruct s. reflexivity. }
    rewrite Hs. unfold write_client_finalize. cbn [sequence]. rewrite E1, E2, E3, E4. reflexivity.
  - cbn [finalization_pdus tl]. cbn [i_uid i_share i_io i] in *. repeat constructor; assumption.
Qed.

(* the answer to one demand-active: exactly five frames, decoding to confirm-active + finalization *)
Theorem client_finalization_parses s sid :
  client_ok s -> sid < 4294967296 ->
  Forall2 (fun f d => strict_parse f = Some d) (client_finalization p s sid) (finalization_pdus s sid).
Proof.
  intros Hs Hsid. unfold client_finalization.
  destruct (confirm_frame_parses s sid Hs Hsid) as [f0 [-> P0]].
  destruct (finalize_frames_parse s sid Hs Hsid) as [fs [-> Pfs]].
  cbn [finalization_pdus hd tl] in *. constructor; assumption.
Qed.

Lemma finalizations_parse s : forall sids,
  client_ok s -> Forall (fun sid => sid < 4294967296) sids ->
  Forall2 (fun f d => strict_parse f = Some d)
          (flat_map (client_finalization p s) sids) (flat_map (finalization_pdus s) sids).
Proof.
  induction sids as [|sid sids IH]; intros Hs Hall; cbn [flat_map]; [constructor|].
  inversion Hall; subst. apply Forall2_app; [apply client_finalization_parses; assumption|apply IH; assumption].
Qed.

End Wire.

(* the share ids of answered demand-actives are share ids of letters of the history *)
Lemma answered_from_u32 : forall h q,
  Forall (fun m => match m with DemandActive sid _ => sid < 4294967296 | _ => True end) h ->
  Forall (fun sid => sid < 4294967296) (answered_from q h).
Proof.
  induction h as [|m h IH]; intros q Hh; cbn [answered_from]; [constructor|].
  inversion Hh; subst. apply Forall_app. split; [|apply IH; assumption].
  unfold answers. destruct q; try constructor. destruct m; constructor; auto.
Qed.

Lemma letters_u32 s0 hs :
  Forall (hop_ok s0) hs ->
  Forall (fun m => match m with DemandActive sid _ => sid < 4294967296 | _ => True end) (letters hs).
Proof.
  induction 1 as [|h hs Hh _ IH]; [constructor|]. unfold letters. cbn [flat_map].
  destruct h as [i m|e|e]; cbn [app]; auto. constructor; auto.
  destruct Hh as [_ [Hm _]]. destruct m; auto. apply Hm.
Qed.

(* ONE FINALIZATION PER ANSWERED DEMAND-ACTIVE, decoded: along every history, the frames the client
   writes in answer to the server's letters parse strictly to exactly, for each demand-active received
   while awaiting activation, in order: confirm-active(sid), synchronize, cooperate, request-control,
   font-list -- and nothing else *)
Theorem history_one_finalization_strict p s0 hs :
  st s0 = SDemandActive -> client_ok s0 -> Forall (hop_ok s0) hs ->
  Forall2 (fun f d => strict_parse f = Some d)
          (recv_wire p s0 hs) (flat_map (finalization_pdus s0) (answered (letters hs))).
Proof.
  intros Hst Hs Hok. rewrite (history_one_finalization p s0 Hst hs Hok).
  apply finalizations_parse; [exact Hs|]. apply answered_from_u32. eapply letters_u32. exact Hok.
Qed.

Theorem history_one_finalization_reads_strict p s0 (ims : list (ids * smsg)) :
  st s0 = SDemandActive -> client_ok s0 ->
  Forall (fun im => ids_fit s0 (fst im) /\ valid_smsg (fst im) (snd im)) ims ->
  Forall2 (fun f d => strict_parse f = Some d)
          (List.concat (map r_wire (run_ops p s0 (map (fun im => OpRead (enc_smsg (fst im) (snd im))) ims))))
          (flat_map (finalization_pdus s0) (answered (map snd ims))).
Proof.
  intros Hst Hs Hok. rewrite (history_one_finalization_reads p s0 Hst ims Hok).
  apply finalizations_parse; [exact Hs|]. apply answered_from_u32.
  induction Hok as [|[i m] ims [_ [Hm _]] _ IH]; cbn [map]; constructor; auto.
  cbn [snd] in *. destruct m; try exact I. apply Hm.
Qed.

(* the same, abstracted onto the reference automaton's expected output *)
Corollary expected_output_abstraction s0 h :
  map cpdu_of (flat_map (finalization_pdus s0) (answered h)) = map Some (expected_output h).
Proof.
  unfold expected_output. induction (answered h) as [|sid l IH]; [reflexivity|].
  cbn [flat_map]. rewrite !map_app, IH. reflexivity.
Qed.
