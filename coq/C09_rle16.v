(* C09, interleaved RLE: the end-to-end statement for every order list of the grammar in every
   legal serialisation, the trivial encoder (every image has an encoding), and an example using
   all twelve order kinds obtained as an instance of the theorem. *)
From RdpV Require Import Base Buf Rle16 Rle32 Bitmap RefRle CodecLemmas CodecContent C08_proofs C09_proofs Rle16_proofs Rle16_sem_proofs
     RefRleLit RefRleLit_proofs.

Ltac Zify.zify_post_hook ::= Z.div_mod_to_equations.

Theorem rle16_exact p w h (rows : list (list N)) (os : list order) (bs : bytes) :
  w < 65536 -> h < 65536 -> 0 < w ->
  length rows = N.to_nat h -> uniform (N.to_nat w) rows ->
  serialises os bs -> sem w os = concat (rev rows) ->
  decompress p w h 16 true bs = ([4 * (w * h); 4 * (w * h)], Ok (bgra16 (concat rows))).
Proof.
  intros Hw Hh Hw0 Hrows Hunif Hser Hsem.
  pose proof (wh_b w h Hw Hh) as Hb.
  assert (Hrl : nlen (concat (rev rows)) = w * h).
  { unfold nlen. rewrite (length_concat_uniform (N.to_nat w)) by (apply uniform_rev; exact Hunif). rewrite rev_length, Hrows. lia. }
  assert (Hcl : nlen (concat rows) = w * h).
  { unfold nlen. rewrite (length_concat_uniform (N.to_nat w)) by exact Hunif. rewrite Hrows. lia. }
  unfold decompress. change (16 =? 32) with false. change (16 =? 16) with true. cbv iota.
  rewrite mul64 by lia. cbn [obind]. rewrite mul64 by lia. cbn [lift mbind].
  rewrite alloc_eq by (rewrite pow63; lia). cbn [mbind lift].
  unfold rle16.
  set (L := w * h * 2).
  set (s0 := init_st w h bs (bmake L)).
  assert (HL : w * h <= L) by (subst L; lia).
  assert (HR0 : Rel w h L (mkSS [] 65535 false) s0).
  { unfold Rel, lazy, cont, init_st. subst s0. cbn [ss_out ss_fg ss_ins]. unfold init_st. prj.
    split; [|split; [split; [intros H0; discriminate|discriminate]|split; [reflexivity|split; [discriminate|reflexivity]]]].
    split; [apply blen_bmake|]. split; [intros r c Hc Hlt; rewrite nlen_nil in Hlt; lia|].
    split; [reflexivity|]. left. repeat split. }
  destruct (main_sem p w h L Hw Hh Hw0 HL os bs Hser (mkSS [] 65535 false) s0 (S (length bs)) HR0) as (s' & E & HR').
  - subst s0. unfold init_st. prj. reflexivity.
  - fold (sem w os). rewrite Hsem, Hrl. lia.
  - lia.
  - rewrite E. cbn [obind mbind lift app].
    destruct HR' as ((Hbl & Hc & _) & _).
    change (ss_out (sem_from w os (mkSS [] 65535 false))) with (sem w os) in Hc. rewrite Hsem in Hc.
    destruct (rgb_content p w h Hw Hh (s_out s') (concat rows)) as (o & -> & Ho).
    + rewrite Hbl. exact HL.
    + intros q Hq.
      set (i := q / w). set (c := q mod w).
      assert (Hqc : q = w * i + c) by (subst i c; apply N.div_mod; lia).
      assert (Hc' : c < w) by (subst c; apply N.mod_lt; lia).
      assert (Hi : i < h) by (subst i; apply N.div_lt_upper_bound; lia).
      assert (Hrow : (h - 1 - i) * w + w <= w * h).
      { replace ((h - 1 - i) * w + w) with ((h - 1 - i + 1) * w) by lia. rewrite (N.mul_comm w h). apply N.mul_le_mono_r. lia. }
      specialize (Hc (h - 1 - i) c Hc' ltac:(rewrite Hrl; lia)).
      replace (h - 1 - (h - 1 - i)) with i in Hc by lia.
      replace q with (i * w + c) by lia. rewrite Hc.
      replace (N.to_nat ((h - 1 - i) * w + c)) with (N.to_nat (h - 1 - i) * N.to_nat w + N.to_nat c)%nat by lia.
      rewrite (nth_concat_uniform (N.to_nat w)) by (try apply uniform_rev; try exact Hunif; lia).
      rewrite rev_nth by lia.
      replace (N.to_nat (i * w + c)) with (N.to_nat i * N.to_nat w + N.to_nat c)%nat by lia.
      rewrite (nth_concat_uniform (N.to_nat w)) by (try exact Hunif; lia).
      f_equal. f_equal. lia.
    + exact Hcl.
    + cbn [mbind lift app]. rewrite Ho. subst L. replace (w * h * 2 * 2) with (4 * (w * h)) by lia. reflexivity.
Qed.

(* the same under the literal reading of the MS-RDPBCGR pseudo-code (first-line flag frozen per order), for streams
   none of whose orders straddles the end of the first scan line *)
Theorem rle16_exact_literal p w h (rows : list (list N)) (os : list order) (bs : bytes) :
  w < 65536 -> h < 65536 -> 0 < w ->
  length rows = N.to_nat h -> uniform (N.to_nat w) rows ->
  serialises os bs -> no_straddle w os = true -> lit_sem w os = concat (rev rows) ->
  decompress p w h 16 true bs = ([4 * (w * h); 4 * (w * h)], Ok (bgra16 (concat rows))).
Proof.
  intros Hw Hh Hw0 Hrows Hunif Hser Hns Hsem.
  apply (rle16_exact p w h rows os bs); try assumption.
  rewrite <- (lit_sem_agrees w os bs Hw0 Hser Hns). exact Hsem.
Qed.

(* ---- every image has an encoding: one colour-image order per scan line *)
Lemma ser_image_row (row : list N) :
  1 <= nlen row -> nlen row <= 65535 -> Forall (fun v => v < 65536) row ->
  exists f b, ser f (OImage row) = Some b.
Proof.
  intros H1 H2 Hp. exists FMega. cbn [ser].
  assert (E : forallb is16 row = true).
  { apply forallb_forall. intros v Hv. unfold is16. apply N.ltb_lt. apply (proj1 (Forall_forall _ _) Hp v Hv). }
  rewrite E. cbn [hdr_run].
  assert (E2 : (1 <=? nlen row) && (nlen row <=? 65535) = true).
  { apply andb_true_iff. split; apply N.leb_le; lia. }
  rewrite E2. cbn [omap]. eexists. reflexivity.
Qed.

Lemma sem_images : forall (rws : list (list N)) w ss,
  ss_out (sem_from w (map OImage rws) ss) = ss_out ss ++ concat rws.
Proof.
  induction rws as [|r rws IH]; intros w ss; [cbn; rewrite app_nil_r; reflexivity|].
  cbn [map]. change (sem_from w (OImage r :: map OImage rws) ss) with (sem_from w (map OImage rws) (sem_order w (OImage r) ss)).
  rewrite IH. cbn [sem_order ss_out concat]. rewrite <- app_assoc. reflexivity.
Qed.

Lemma trivial_encoding w (rws : list (list N)) :
  0 < w -> w < 65536 -> uniform (N.to_nat w) rws -> Forall (fun r => Forall (fun v => v < 65536) r) rws ->
  exists bs, serialises (map OImage rws) bs /\ sem w (map OImage rws) = concat rws.
Proof.
  intros Hw0 Hw Hu Hp.
  assert (Hs : exists bs, serialises (map OImage rws) bs).
  { induction rws as [|r rws IH]; [exists []; constructor|].
    pose proof (Forall_inv Hu) as Hr. pose proof (Forall_inv Hp) as Hpr. cbv beta in Hr, Hpr.
    destruct (IH (Forall_inv_tail Hu) (Forall_inv_tail Hp)) as (bs & Hbs).
    destruct (ser_image_row r) as (f & b & Hb); try (unfold nlen; lia); try exact Hpr.
    exists (b ++ bs). cbn [map]. econstructor; eassumption. }
  destruct Hs as (bs & Hbs). exists bs. split; [exact Hbs|].
  unfold sem. rewrite sem_images. reflexivity.
Qed.

Lemma widen_exact_u16 v : v < 65536 -> model_widen v = widen565 v.
Proof. intros _. apply widen_exact. Qed.

(* ---- examples evaluated by the kernel *)
Definition ex_orders : list (form * order) :=
  [(FShort, OColor 4660 3); (FShort, OBg 2); (FShort, OBg 3); (FExt, OFgBg 5 [21]); (FMega, OSetFg 255 2); (FShort, OFg 1);
   (FShort, OImage [1;2]); (FShort, ODither 7 8 1); (FShort, OSpecial1); (FShort, OSpecial2); (FShort, OWhite); (FShort, OBlack);
   (FExt, OSetFgBg 3855 2 [2])].
Definition ex_stream : bytes :=
  [99; 52; 18; 2; 3; 64; 4; 21; 246; 2; 0; 255; 0; 33; 130; 1; 0; 2; 0; 225; 7; 0; 8; 0; 249; 250; 253; 254; 208; 1; 15; 15; 2].

Lemma ser_all_serialises : forall l bs, ser_all l = Some bs -> serialises (map snd l) bs.
Proof.
  induction l as [|[f o] l IH]; intros bs E; cbn [ser_all] in E.
  - inversion E. constructor.
  - destruct (ser f o) as [b|] eqn:Eb; [|discriminate]. destruct (ser_all l) as [bs'|] eqn:El; [|discriminate].
    inversion E. cbn [map snd]. econstructor; [exact Eb|apply IH; reflexivity].
Qed.

(* all twelve order kinds, three header forms, two consecutive background runs (foreground insertion), a 4 x 10
   image: the stream is a serialisation of the order list (evaluation of the spec), and what the decoder returns
   for it is an INSTANCE of rle16_exact *)
Lemma ex_all_orders :
  ser_all ex_orders = Some ex_stream /\ nlen (sem 4 (map snd ex_orders)) = 40 /\
  snd (decompress Debug 4 10 16 true ex_stream) = Ok (bgra16 (flip_rows 4 10 (sem 4 (map snd ex_orders)))) /\
  snd (decompress Release 4 10 16 true ex_stream) = Ok (bgra16 (flip_rows 4 10 (sem 4 (map snd ex_orders)))).
Proof.
  assert (Hser : ser_all ex_orders = Some ex_stream) by (vm_compute; reflexivity).
  split; [exact Hser|]. split; [vm_compute; reflexivity|].
  set (rows := rev (rows_of 4 10 (sem 4 (map snd ex_orders)))).
  assert (Hex : forall p, decompress p 4 10 16 true ex_stream = ([4 * (4 * 10); 4 * (4 * 10)], Ok (bgra16 (concat rows)))).
  { intros p. apply (rle16_exact p 4 10 rows (map snd ex_orders) ex_stream); try lia.
    - vm_compute. reflexivity.
    - subst rows. vm_compute. repeat constructor.
    - apply ser_all_serialises. exact Hser.
    - subst rows. vm_compute. reflexivity. }
  unfold flip_rows. change (N.to_nat 4) with 4%nat. change (N.to_nat 10) with 10%nat. fold rows.
  split; rewrite Hex; reflexivity.
Qed.

Definition ex_plane_a : list (list pseg) := [[PRaw [255; 255] 0; PLong 16]; [PRaw [0] 15; PRaw [] 0; PRaw [1; 2] 0]].
Definition ex_plane_r : list (list pseg) := [[PRaw [10; 20; 30] 15]; [PLong 18]].
Definition ex_plane_g : list (list pseg) := [[PRaw [1] 3; PRaw [2] 13]; [PRaw [4; 3; 2; 1] 14]].
Definition ex_plane_b : list (list pseg) := [[PLong 18]; [PRaw [2; 4; 5] 15]].

Lemma ex_planar :
  plane_ok 18 2 ex_plane_r = true /\ plane_ok 18 2 ex_plane_g = true /\ plane_ok 18 2 ex_plane_b = true /\
  plane_ok 18 2 [[PRaw [255; 255] 0; PLong 16]; [PRaw [0] 15; PRaw [1; 2] 0]] = true /\
  plane_ok 18 2 ex_plane_a = false.
Proof. repeat split; vm_compute; reflexivity. Qed.
