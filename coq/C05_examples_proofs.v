(* Computations on the concrete byte strings of C05_examples.v. *)
From RdpV Require Import Base Msg MsgSafe LayoutsGlobal LayoutsConnect Link Tpkt Global BerYasna Connect ConnectRun C05_proofs C05_examples.
Open Scope list_scope.
Open Scope N_scope.

Definition ok_run (r : outcome (N * server_data) * cst) (uid : N) (out : list cmsg) : Prop :=
  (exists sd, fst r = Ok (uid, sd)) /\ s_out (snd r) = out /\ s_in (snd r) = [].

Definition ex_sent : list cmsg :=
  [CR 0 0; CI 366 0; ED; AU; CJ 3 1003; CJ 3 1004; INFO 3 1003 228].

(* the valid conversation drives the model to Ok (both profiles, two fragmentations), with
   the complete client side of the sequence emitted and the whole input consumed *)
Lemma ex_connects :
  wf_stream ex_conversation /\ wf_stream ex_conversation_split /\
  ok_run (connect_impl Debug ex_config ex_conversation) 1004 ex_sent /\
  ok_run (connect_impl Release ex_config ex_conversation) 1004 ex_sent /\
  ok_run (connect_impl Debug ex_config ex_conversation_split) 1004 ex_sent.
Proof.
  split; [apply wf_stream_dec; vm_compute; reflexivity|].
  split; [apply wf_stream_dec; vm_compute; reflexivity|].
  repeat split; try (eexists; vm_compute; reflexivity); vm_compute; reflexivity.
Qed.

(* the same run with the guarded parser, which meets the assumptions of the theorems *)
Lemma ex_connects_guarded :
  exists sd, fst (run_connect Debug (guard_bytes (ber_connect_response Debug)) false no_tls no_cssp ex_config ex_conversation) = Ok (1004, sd).
Proof. eexists. vm_compute. reflexivity. Qed.

(* the inputs that made the unrepaired code panic are now errors, in both profiles *)
Lemma ex_repaired : forall p,
  fst (lic_impl p ex_lic_msgsize3) = Err EIo /\
  fst (gcc_impl p ex_gcc_blocklen3) = Err EInvalidSize /\
  fst (gcc_impl p ex_gcc_no_net) = Err EInvalidData /\
  fst (gcc_impl p ex_gcc_no_core) = Err EInvalidData /\
  fst (connect_impl p ex_config_nla_noauth [ex_cc_hybrid]) = Err EInvalidOptionalField.
Proof. intros p. destruct p; vm_compute; repeat split. Qed.

(* yasna as modelled from its source violates "never unwinds" on a hostile BER length *)
Lemma ex_ber_refuted :
  wf_bytes ex_ber_overflow /\
  ber_connect_response Debug ex_ber_overflow = Panic /\ ber_connect_response Release ex_ber_overflow = Panic /\
  fst (connect_impl Debug ex_config [ex_cc; [3; 0; 0; 108; 2; 240; 128] ++ ex_ber_overflow]) = Panic.
Proof. split; [apply wf_bytes_dec; vm_compute; reflexivity|]. vm_compute. repeat split. Qed.
