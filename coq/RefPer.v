(* Reference PER codec for the handful of constructs T.124/T.125 use in an RDP connection,
   written from ITU-T X.691 (ALIGNED variant) and X.690 8.19 (object identifier contents),
   independently of core/per.rs.  Encoders return None outside the domain of the form.

   Length determinant (X.691 10.9.3.6-7): n < 128 on one octet `0nnnnnnn`; otherwise two
   octets `10nnnnnn nnnnnnnn`.  X.691 stops this form at 16383 (above, fragmentation starts);
   every RDP stack uses the two-octet form for 15 bits, up to 32767 -- [ref_length] follows
   that usage, [ref_length_x691] is the strict form, they agree below 16384.
   Integer (X.691 10.4, 12.2.6 semi-constrained from 0 as T.125 uses it): length
   determinant, then the non-negative binary integer; stacks use 1, 2 or 4 octets, the
   smallest of those that fits (strict X.691 would use 3 octets for 2^16..2^24-1).
   Constrained 16-bit whole number (10.5.7.2): value - lower bound on two octets.
   Object identifier (X.691 23, X.690 8.19): length octet, first octet 40*arc1 + arc2, every
   other arc base 128, big endian, top bit set on all octets but the last.
   Numeric string with alphabet "0123456789" (T.124 SimpleNumericString, X.691 27): 4 bits
   per character (the digit value), first character in the high nibble, zero-padded; length
   minus the lower size bound as the determinant.
   Octet string: length (minus the lower size bound) then the octets. *)
From RdpV Require Import Base.
Open Scope list_scope.
Open Scope N_scope.

(* k octets, most significant first *)
Fixpoint be_octets (k : nat) (n : N) : bytes :=
  match k with
  | O => []
  | S k' => (n / 256 ^ N.of_nat k') mod 256 :: be_octets k' n
  end.

Fixpoint of_be_octets (l : bytes) : N :=
  match l with [] => 0 | b :: tl => b * 256 ^ nlen tl + of_be_octets tl end.

Definition ref_length (n : N) : option bytes :=
  if n <? 128 then Some [n]
  else if n <? 32768 then Some [128 + n / 256; n mod 256]
  else None.

Definition ref_length_x691 (n : N) : option bytes :=
  if n <? 16384 then ref_length n else None.

Definition ref_dec_length (i : bytes) : option (N * bytes) :=
  match i with
  | b :: r => if b <? 128 then Some (b, r)
              else match r with b2 :: r2 => Some ((b - 128) * 256 + b2, r2) | [] => None end
  | [] => None
  end.

Definition ref_integer (n : N) : option bytes :=
  if n <? 256 then Some ([1] ++ be_octets 1 n)
  else if n <? 65536 then Some ([2] ++ be_octets 2 n)
  else if n <? 4294967296 then Some ([4] ++ be_octets 4 n)
  else None.

Definition ref_integer_16 (lower v : N) : option bytes :=
  if (lower <=? v) && (v <? 65536) then Some (be_octets 2 (v - lower)) else None.

(* one arc, base 128 (arcs of an 8-bit value take one or two octets) *)
Definition base128 (a : N) : bytes := if a <? 128 then [a] else [128 + a / 128; a mod 128].

Definition ref_oid (arcs : list N) : option bytes :=
  match arcs with
  | a0 :: a1 :: tl =>
      if (a0 <=? 2) && ((a1 <? 40) || (a0 =? 2)) && (40 * a0 + a1 <? 128) then
        let body := [40 * a0 + a1] ++ flat_map base128 tl in
        match ref_length (nlen body) with Some l => Some (l ++ body) | None => None end
      else None
  | _ => None
  end.

Definition is_digit (c : N) : bool := (48 <=? c) && (c <=? 57).

Fixpoint ref_pack (s : bytes) : bytes :=
  match s with
  | [] => []
  | [c] => [(c - 48) * 16]
  | c :: d :: tl => ((c - 48) * 16 + (d - 48)) :: ref_pack tl
  end.

Definition ref_numeric_string (lower : N) (s : bytes) : option bytes :=
  if forallb is_digit s && (lower <=? nlen s) then
    match ref_length (nlen s - lower) with Some l => Some (l ++ ref_pack s) | None => None end
  else None.

Definition ref_octet_string (lower : N) (s : bytes) : option bytes :=
  if lower <=? nlen s then
    match ref_length (nlen s - lower) with Some l => Some (l ++ s) | None => None end
  else None.
