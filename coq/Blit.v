(* Blit.v -- model of `fast_bitmap_transfer` of src/bin/mstsc-rs.rs (the GUI client's
   painting of one received bitmap into the window buffer), AS REPAIRED by the two
   `fix:` commits (inverted-rectangle guard; checked destination index).

   Pixels are [N] (u32), both buffers are [list N].  All index arithmetic is `usize`
   (64 bit) under the build profile.  Every `copy_nonoverlapping(src+s, dst+d, n)` is an
   explicit step [mkCopy s d n] that is CHECKED against the lengths of both buffers: a
   step outside either buffer yields the distinct outcome [BOob] (the real code would
   read or write foreign memory there) -- the theorems show it never happens.

   No proofs in this file. *)
From RdpV Require Import Base.

(* outcome of the blit; the window buffer after the call is returned next to it *)
Inductive bres : Type :=
| BOk
| BErr (e : err)
| BPanic
| BOob          (* a raw copy left one of the two buffers *)
| BSpin.

(* the four u16 destination coordinates of a BitmapEvent *)
Record rect : Type := mkRect { r_left : N; r_top : N; r_right : N; r_bottom : N }.

(* one ptr::copy_nonoverlapping(src.as_ptr().offset(c_src), dst.as_mut_ptr().offset(c_dst), c_cnt) *)
Record copy : Type := mkCopy { c_src : N; c_dst : N; c_cnt : N }.

Definition copy_in_bounds (slen dlen : N) (c : copy) : bool :=
  (c_src c + c_cnt c <=? slen) && (c_dst c + c_cnt c <=? dlen).

Definition do_copy_nat (src dst : list N) (s d n : nat) : list N :=
  firstn d dst ++ firstn n (skipn s src) ++ skipn (d + n) dst.

Definition do_copy (src dst : list N) (c : copy) : list N :=
  do_copy_nat src dst (N.to_nat (c_src c)) (N.to_nat (c_dst c)) (N.to_nat (c_cnt c)).

Definition step_copy (src dst : list N) (c : copy) : option (list N) :=
  if copy_in_bounds (nlen src) (nlen dst) c then Some (do_copy src dst c) else None.

(* `?`-free sequencing of usize arithmetic: a trap ends the call with the buffer as it is *)
Definition lift {A} (o : outcome A) (buf : list N) (k : A -> bres * list N) : bres * list N :=
  match o with
  | Ok a => k a
  | Err e => (BErr e, buf)
  | Panic => (BPanic, buf)
  | Spin => (BSpin, buf)
  end.

Definition usize_max1 : N := 2 ^ 64.

(* body of `for i in 0..rows` ; [BOk] = fall through to the next iteration *)
Definition row (p : prof) (W : N) (rc : rect) (bw : N) (src : list N) (i : N) (buf : list N)
  : bres * list N :=
  let blen := nlen buf in
  let slen := nlen src in
  (* (i + bitmap_dest_top).checked_mul(width).and_then(|v| v.checked_add(bitmap_dest_left)) *)
  lift (add_w p 64 i (r_top rc)) buf (fun it =>
  let m := it * W in
  if usize_max1 <=? m then (BErr EInvalidSize, buf) else
  let dest_i := m + r_left rc in
  if usize_max1 <=? dest_i then (BErr EInvalidSize, buf) else
  (* let src_i = i * bitmap_width; *)
  lift (mul_w p 64 i bw) buf (fun src_i =>
  (* let count = bitmap_dest_right - bitmap_dest_left + 1; *)
  lift (sub_w p 64 (r_right rc) (r_left rc)) buf (fun d0 =>
  lift (add_w p 64 d0 1) buf (fun count =>
  (* if dest_i > buffer.len() || dest_i + count > buffer.len()
        || src_i > data_aligned.len() || src_i + count > data_aligned.len()  (short-circuit) *)
  if blen <? dest_i then (BErr EInvalidSize, buf) else
  lift (add_w p 64 dest_i count) buf (fun e1 =>
  if blen <? e1 then (BErr EInvalidSize, buf) else
  if slen <? src_i then (BErr EInvalidSize, buf) else
  lift (add_w p 64 src_i count) buf (fun e2 =>
  if slen <? e2 then (BErr EInvalidSize, buf) else
  match step_copy src buf (mkCopy src_i dest_i count) with
  | Some buf' => (BOk, buf')
  | None => (BOob, buf)
  end)))))).

Fixpoint rows_loop (p : prof) (W : N) (rc : rect) (bw : N) (src : list N)
         (n : nat) (i : N) (buf : list N) : bres * list N :=
  match n with
  | O => (BOk, buf)
  | S n' =>
    match row p W rc bw src i buf with
    | (BOk, buf') => rows_loop p W rc bw src n' (i + 1) buf'
    | r => r
    end
  end.

(* fast_bitmap_transfer(buffer, width, bitmap).  [dec] is what `bitmap.decompress()` followed
   by `transmute_vec` produced: the decoded image as u32 pixels, or the decoder's error
   (its totality is property C08, not this one). *)
Definition fast_bitmap_transfer (p : prof) (buf : list N) (W : N) (rc : rect) (bw : N)
           (dec : outcome (list N)) : bres * list N :=
  (* fix 2b0b327: inverted rectangle *)
  if (r_bottom rc <? r_top rc) || (r_right rc <? r_left rc) then (BErr EInvalidSize, buf) else
  (* let data = bitmap.decompress()?; *)
  lift dec buf (fun src =>
  (* 0..(bitmap_dest_bottom - bitmap_dest_top + 1) *)
  lift (sub_w p 64 (r_bottom rc) (r_top rc)) buf (fun d =>
  lift (add_w p 64 d 1) buf (fun rows =>
  rows_loop p W rc bw src (N.to_nat rows) 0 buf))).

(* transmute_vec::<u8,u32>: len/4 little-endian words, a trailing partial word is dropped
   (only the VIEW is modelled; the re-typed allocation is in the trusted base) *)
Fixpoint pixels_of_bytes_fuel (fuel : nat) (b : bytes) : list N :=
  match fuel with
  | O => []
  | S f =>
    match b with
    | a0 :: a1 :: a2 :: a3 :: rest => of_le32 a0 a1 a2 a3 :: pixels_of_bytes_fuel f rest
    | _ => []
    end
  end.
Definition pixels_of_bytes (b : bytes) : list N := pixels_of_bytes_fuel (length b) b.

Definition bytes_of_pixels (l : list N) : bytes := flat_map le32 l.

(* What the blit sees of `BitmapEvent::decompress` in the cases this property generates:
   an unsupported depth is refused; a raw 32-bpp event hands over its DECODED image
   (the case line carries the decoded image, see harness-gui/src/blit.rs); everything else
   belongs to the codec properties (None = not modelled here). *)
Definition event_decode (bpp : N) (compressed : bool) (img : bytes) : option (outcome (list N)) :=
  if (bpp =? 32) && negb compressed then Some (Ok (pixels_of_bytes img))
  else if (bpp =? 32) || (bpp =? 16) then None
  else Some (Err ENotImplemented).
