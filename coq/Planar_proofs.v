(* C09, planar RLE: for every conformant segmentation of four planes (RefRle.plane_ok) the
   decoder model returns exactly the image the segments describe (RefRle.planar_image). *)
From RdpV Require Import Base Sweep Buf Rle32 Bitmap RefRle CodecLemmas CodecContent C08_proofs.

Ltac Zify.zify_post_hook ::= Z.div_mod_to_equations.

(* ---- small facts about the spec *)
Definition dc (sym : N) : N := if sym mod 2 =? 0 then sym / 2 else (256 - (sym / 2 + 1)) mod 256.

Lemma undelta_dc a s : s < 256 -> (a + dc s) mod 256 = undelta a s.
Proof.
  intros Hs. unfold dc, undelta. destruct (s mod 2 =? 0); [reflexivity|].
  assert (s / 2 <= 127) by (apply N.lt_succ_r; apply N.div_lt_upper_bound; lia).
  rewrite (N.mod_small (256 - (s / 2 + 1))) by lia. f_equal. lia.
Qed.

Lemma delta_color_dc p x : x < 256 -> delta_color p x = Ok (dc x).
Proof.
  intros Hx. unfold delta_color, dc. destruct (x mod 2 =? 0); cbn [negb]; [reflexivity|].
  assert (x / 2 <= 127) by (apply N.lt_succ_r; apply N.div_lt_upper_bound; lia).
  rewrite add8 by lia. reflexivity.
Qed.

Lemma segment_raw : forall a r, a < 16 -> r < 16 -> r <> 1 -> r <> 2 -> segment (a * 16 + r) = (a, r).
Proof.
  intros a r Ha Hr.
  assert (H : (if (r =? 1) || (r =? 2) then true
               else (fst (segment (a * 16 + r)) =? a) && (snd (segment (a * 16 + r)) =? r)) = true).
  { revert a r Ha Hr. apply sweep2. vm_compute. reflexivity. }
  intros H1 H2.
  apply N.eqb_neq in H1, H2. rewrite H1, H2 in H. cbn [orb] in H.
  apply andb_true_iff in H. destruct H as [Ea Eb]. apply N.eqb_eq in Ea, Eb.
  destruct (segment (a * 16 + r)) as [x y]. cbn [fst snd] in *. congruence.
Qed.

Lemma segment_long : forall r, 16 <= r -> r <= 47 ->
  segment (if r <? 32 then (r - 16) * 16 + 1 else (r - 32) * 16 + 2) = (0, r).
Proof.
  intros r.
  assert (Hall : forall r, r < 48 -> (if (16 <=? r) then
                 (fst (segment (if r <? 32 then (r - 16) * 16 + 1 else (r - 32) * 16 + 2)) =? 0) &&
                 (snd (segment (if r <? 32 then (r - 16) * 16 + 1 else (r - 32) * 16 + 2)) =? r) else true) = true).
  { apply sweep1. vm_compute. reflexivity. }
  intros H1 H2.
  assert (H : (if (16 <=? r) then
                 (fst (segment (if r <? 32 then (r - 16) * 16 + 1 else (r - 32) * 16 + 2)) =? 0) &&
                 (snd (segment (if r <? 32 then (r - 16) * 16 + 1 else (r - 32) * 16 + 2)) =? r) else true) = true).
  { apply Hall. lia. }
  apply N.leb_le in H1. rewrite H1 in H.
  apply andb_true_iff in H. destruct H as [Ea Eb]. apply N.eqb_eq in Ea, Eb.
  destruct (segment _) as [x y]. cbn [fst snd] in *. congruence.
Qed.

Definition bytes_ok (l : list N) : Prop := Forall (fun b => b < 256) l.

Lemma forallb_bytes l : forallb (fun b => b <? 256) l = true -> bytes_ok l.
Proof. intros H. apply Forall_forall. intros x Hx. rewrite forallb_forall in H. apply N.ltb_lt. apply H, Hx. Qed.

Lemma last_bytes raw d : bytes_ok raw -> d < 256 -> List.last raw d < 256.
Proof.
  intros Hr Hd. induction raw as [|a raw IH]; [exact Hd|].
  destruct raw as [|b raw]; cbn [List.last].
  - exact (Forall_inv Hr).
  - apply IH. exact (Forall_inv_tail Hr).
Qed.

Lemma pseg_ok_raw raw r : pseg_ok (PRaw raw r) = true ->
  nlen raw <= 15 /\ r <= 15 /\ r <> 1 /\ r <> 2 /\ 0 < nlen raw + r /\ bytes_ok raw.
Proof.
  cbn [pseg_ok]. intros H. repeat (apply andb_true_iff in H; destruct H as [H ?]).
  repeat match goal with
         | H : negb _ = true |- _ => apply negb_true_iff in H; apply N.eqb_neq in H
         | H : (_ <=? _) = true |- _ => apply N.leb_le in H
         | H : (_ <? _) = true |- _ => apply N.ltb_lt in H
         end.
  repeat split; auto. apply forallb_bytes. assumption.
Qed.

Lemma pline_syms_bytes : forall segs last, Forall (fun s => pseg_ok s = true) segs -> last < 256 ->
  bytes_ok (pline_syms segs last).
Proof.
  induction segs as [|s segs IH]; intros last Hok Hl; [constructor|].
  pose proof (Forall_inv Hok) as Hs. pose proof (Forall_inv_tail Hok) as Ht. cbv beta in Hs.
  destruct s as [raw r|r]; cbn [pline_syms].
  - destruct (pseg_ok_raw raw r Hs) as (_ & _ & _ & _ & _ & Hb).
    pose proof (last_bytes raw last Hb Hl) as Hll.
    apply Forall_app. split; [exact Hb|]. apply Forall_app. split.
    + apply Forall_forall. intros x Hx. apply repeat_spec in Hx. subst. exact Hll.
    + apply IH; assumption.
  - apply Forall_app. split.
    + apply Forall_forall. intros x Hx. apply repeat_spec in Hx. subst. exact Hl.
    + apply IH; assumption.
Qed.

Lemma last_indep : forall (l : list N) a d d', List.last (a :: l) d = List.last (a :: l) d'.
Proof.
  induction l as [|b l IH]; intros a d d'; [reflexivity|].
  change (List.last (a :: b :: l) d) with (List.last (b :: l) d).
  change (List.last (a :: b :: l) d') with (List.last (b :: l) d'). apply IH.
Qed.

Lemma last_cons_dflt (l : list N) x d : List.last (x :: l) d = List.last l x.
Proof.
  destruct l as [|a l]; [reflexivity|].
  change (List.last (x :: a :: l) d) with (List.last (a :: l) d). apply last_indep.
Qed.

Lemma nlen_repeat {A} (x : A) n : nlen (repeat x (N.to_nat n)) = n.
Proof. unfold nlen. rewrite repeat_length. lia. Qed.

Lemma last_app_cons {A} (l : list A) x d : List.last (l ++ [x]) d = x.
Proof. apply last_last. Qed.

Section Plane.
Variable p : prof.
Variables w h base : N.
Hypothesis Hw : w < 65536.
Hypothesis Hh : h < 65536.
Hypothesis Hw0 : 0 < w.
Hypothesis Hbase : base <= 3.
Let L := 4 * (w * h).

Let wh_b : w * h <= 4294836225 := wh_b w h Hw Hh.

Section Line.
Variable ro ll : N.           (* offsets of this scan line and of the one decoded before it, in the plane *)
Variable first : bool.
Variable b0 : buf.            (* the buffer when the line starts *)
Hypothesis Hro : ro + 4 * w <= 4 * (w * h).
Hypothesis Hll : ll + 4 * w <= 4 * (w * h).
Hypothesis Hdiff : first = false -> ll = ro + 4 * w.

(* value stored at column c for symbol sym *)
Definition valof (c sym : N) : N :=
  if first then sym else (bget_raw b0 (base + ll + 4 * c) + dc sym) mod 256.
Definition colof (last : N) : N := if first then last else dc last.

Record lstate (done : list N) (last : N) (s : pst) : Prop := mkL {
  l_len : blen (p_buf s) = L;
  l_iw : p_iw s = nlen done;
  l_out : p_out s = ro + 4 * nlen done;
  l_col : p_color s = colof last;
  l_cells : forall c, c < nlen done -> bget_raw (p_buf s) (base + ro + 4 * c) = valof c (nth (N.to_nat c) done 0);
  l_frame : forall k, (forall c, c < nlen done -> k <> base + ro + 4 * c) -> bget_raw (p_buf s) k = bget_raw b0 k }.

(* one store + advance, as an equation *)
Lemma store_eq s done last v inp c :
  lstate done last s -> nlen done < w ->
  exists s1, sl_set base (p_buf s) (p_out s) v = Ok (bset_raw (p_buf s) (base + ro + 4 * nlen done) v) /\
             advance p s (bset_raw (p_buf s) (base + ro + 4 * nlen done) v) inp c = Ok s1 /\
             p_buf s1 = bset_raw (p_buf s) (base + ro + 4 * nlen done) v /\
             p_inp s1 = inp /\ p_iw s1 = nlen done + 1 /\ p_out s1 = ro + 4 * (nlen done + 1) /\ p_color s1 = c.
Proof.
  intros [H1 H2 H3 H4 H5 H6] Hx. unfold sl_set.
  assert (E : p_out s <? blen (p_buf s) - base = true) by (apply N.ltb_lt; unfold L in *; lia).
  rewrite E. unfold advance.
  rewrite add64 by lia. cbn [obind]. rewrite add64 by lia. cbn [obind].
  eexists. split; [rewrite H3; f_equal; f_equal; lia|]. split; [reflexivity|]. cbn [p_buf p_inp p_iw p_out p_color].
  repeat split; try lia.
Qed.

Lemma lstate_snoc s s1 done last sym c :
  lstate done last s -> nlen done < w ->
  p_buf s1 = bset_raw (p_buf s) (base + ro + 4 * nlen done) (valof (nlen done) sym) ->
  p_iw s1 = nlen done + 1 -> p_out s1 = ro + 4 * (nlen done + 1) -> p_color s1 = colof c ->
  lstate (done ++ [sym]) c s1.
Proof.
  intros [H1 H2 H3 H4 H5 H6] Hx Eb Ei Eo Ec.
  assert (Hn : nlen (done ++ [sym]) = nlen done + 1) by (rewrite nlen_app; reflexivity).
  constructor; rewrite ?Hn; auto.
  - rewrite Eb, blen_bset_raw. exact H1.
  - intros k Hk. rewrite Eb.
    destruct (N.eq_dec k (nlen done)) as [->|Hne].
    + rewrite bget_raw_bset_raw_same. f_equal.
      rewrite app_nth2 by (unfold nlen; lia). replace (N.to_nat (nlen done) - length done)%nat with O by (unfold nlen; lia).
      reflexivity.
    + rewrite bget_raw_bset_raw_other by lia. rewrite H5 by lia. f_equal.
      rewrite app_nth1 by (unfold nlen in *; lia). reflexivity.
  - intros k Hk. rewrite Eb. rewrite bget_raw_bset_raw_other.
    + apply H6. intros c0 Hc0. apply Hk. lia.
    + intros E. apply (Hk (nlen done)); [lia|]. symmetry. exact E.
Qed.

(* the cell above column c of this line still holds what it held when the line started *)
Lemma above_eq s done last c0 :
  lstate done last s -> nlen done < w -> first = false ->
  above_plus p base ll s c0 = Ok ((bget_raw b0 (base + ll + 4 * nlen done) + c0) mod 256).
Proof.
  intros [H1 H2 H3 H4 H5 H6] Hx Hf. unfold above_plus.
  rewrite mul64 by lia. cbn [obind]. rewrite add64 by lia. cbn [obind].
  unfold sl_get.
  assert (E : ll + p_iw s * 4 <? blen (p_buf s) - base = true) by (apply N.ltb_lt; unfold L in *; lia).
  rewrite E. cbn [obind]. f_equal. f_equal. f_equal.
  rewrite H6.
  - f_equal. lia.
  - intros c Hc. specialize (Hdiff Hf). lia.
Qed.

Lemma raw_ok : forall raw done last s rest,
  lstate done last s -> bytes_ok raw -> p_inp s = raw ++ rest -> nlen done + nlen raw <= w ->
  exists s', (if first then raw_first p base (length raw) s else raw_delta p base (length raw) ll s) = Ok s' /\
             lstate (done ++ raw) (List.last raw last) s' /\ p_inp s' = rest.
Proof.
  induction raw as [|x raw IH]; intros done last s rest Hs Hb Hin Hn.
  - cbn [length raw_first raw_delta List.last]. exists s. rewrite app_nil_r.
    split; [destruct first; reflexivity|]. split; [exact Hs|exact Hin].
  - rewrite nlen_cons in Hn. pose proof (Forall_inv Hb) as Hx. pose proof (Forall_inv_tail Hb) as Hb'. cbv beta in Hx.
    assert (Hlt : nlen done < w) by lia.
    pose proof (last_cons_dflt raw x last) as Hlast.
    assert (Hcase : first = true \/ first = false) by (destruct first; auto). destruct Hcase as [Ef|Ef].
    + rewrite Ef. cbn [length raw_first]. rewrite Hin. cbn [app read_u8].
      destruct (store_eq s done last x (raw ++ rest) x Hs Hlt) as (s1 & Est & E1 & Eb & Ei & Ew & Eo & Ec).
      rewrite Est. cbn [obind]. rewrite E1. cbn [obind].
      assert (Hs1 : lstate (done ++ [x]) x s1).
      { eapply lstate_snoc; eauto. unfold valof. rewrite Ef. exact Eb. unfold colof. rewrite Ef. exact Ec. }
      destruct (IH (done ++ [x]) x s1 rest Hs1 Hb' Ei) as (s' & E' & Hs' & Hi').
      { rewrite nlen_app, nlen_cons, nlen_nil. lia. }
      rewrite Ef in E'. exists s'. split; [exact E'|]. rewrite <- app_assoc in Hs'. cbn [app] in Hs'. rewrite Hlast. split; assumption.
    + rewrite Ef. cbn [length raw_delta]. rewrite Hin. cbn [app read_u8].
      rewrite delta_color_dc by exact Hx. cbn [obind].
      rewrite (above_eq s done last (dc x) Hs Hlt Ef). cbn [obind].
      destruct (store_eq s done last ((bget_raw b0 (base + ll + 4 * nlen done) + dc x) mod 256) (raw ++ rest) (dc x) Hs Hlt)
        as (s1 & Est & E1 & Eb & Ei & Ew & Eo & Ec).
      rewrite Est. cbn [obind]. rewrite E1. cbn [obind].
      assert (Hs1 : lstate (done ++ [x]) x s1).
      { eapply lstate_snoc; eauto. unfold valof. rewrite Ef. exact Eb. unfold colof. rewrite Ef. exact Ec. }
      destruct (IH (done ++ [x]) x s1 rest Hs1 Hb' Ei) as (s' & E' & Hs' & Hi').
      { rewrite nlen_app, nlen_cons, nlen_nil. lia. }
      rewrite Ef in E'. exists s'. split; [exact E'|]. rewrite <- app_assoc in Hs'. cbn [app] in Hs'. rewrite Hlast. split; assumption.
Qed.

Lemma run_ok : forall n done last s,
  lstate done last s -> nlen done + N.of_nat n <= w ->
  exists s', (if first then run_first p base n s else run_delta p base n ll s) = Ok s' /\
             lstate (done ++ repeat last n) last s' /\ p_inp s' = p_inp s.
Proof.
  induction n as [|k IH]; intros done last s Hs Hn.
  - cbn [run_first run_delta repeat]. exists s. rewrite app_nil_r. split; [destruct first; reflexivity|]. split; [exact Hs|reflexivity].
  - assert (Hlt : nlen done < w) by lia.
    assert (Hrep : done ++ repeat last (S k) = (done ++ [last]) ++ repeat last k).
    { cbn [repeat]. rewrite <- app_assoc. reflexivity. }
    assert (Hcase : first = true \/ first = false) by (destruct first; auto). destruct Hcase as [Ef|Ef].
    + rewrite Ef. cbn [run_first]. pose proof (l_col _ _ _ Hs) as Hc. unfold colof in Hc. rewrite Ef in Hc.
      destruct (store_eq s done last (p_color s) (p_inp s) (p_color s) Hs Hlt) as (s1 & Est & E1 & Eb & Ei & Ew & Eo & Ec).
      rewrite Est. cbn [obind]. rewrite E1. cbn [obind].
      assert (Hs1 : lstate (done ++ [last]) last s1).
      { eapply lstate_snoc; eauto. unfold valof. rewrite Ef. rewrite <- Hc. exact Eb. unfold colof. rewrite Ef. congruence. }
      destruct (IH (done ++ [last]) last s1 Hs1) as (s' & E' & Hs' & Hi').
      { rewrite nlen_app, nlen_cons, nlen_nil. lia. }
      rewrite Ef in E'. exists s'. split; [exact E'|]. rewrite Hrep. split; [exact Hs'|congruence].
    + rewrite Ef. cbn [run_delta]. pose proof (l_col _ _ _ Hs) as Hc. unfold colof in Hc. rewrite Ef in Hc.
      rewrite (above_eq s done last (p_color s) Hs Hlt Ef). cbn [obind].
      destruct (store_eq s done last ((bget_raw b0 (base + ll + 4 * nlen done) + p_color s) mod 256) (p_inp s) (p_color s) Hs Hlt)
        as (s1 & Est & E1 & Eb & Ei & Ew & Eo & Ec).
      rewrite Est. cbn [obind]. rewrite E1. cbn [obind].
      assert (Hs1 : lstate (done ++ [last]) last s1).
      { eapply lstate_snoc; eauto. unfold valof. rewrite Ef. rewrite <- Hc. exact Eb. unfold colof. rewrite Ef. congruence. }
      destruct (IH (done ++ [last]) last s1 Hs1) as (s' & E' & Hs' & Hi').
      { rewrite nlen_app, nlen_cons, nlen_nil. lia. }
      rewrite Ef in E'. exists s'. split; [exact E'|]. rewrite Hrep. split; [exact Hs'|congruence].
Qed.

Lemma nlen_pline_pos s segs last : pseg_ok s = true -> 0 < nlen (pline_syms (s :: segs) last).
Proof.
  intros Hs. destruct s as [raw r|r]; cbn [pline_syms]; rewrite !nlen_app, nlen_repeat.
  - destruct (pseg_ok_raw raw r Hs) as (_ & _ & _ & _ & Hpos & _). lia.
  - cbn [pseg_ok] in Hs. apply andb_true_iff in Hs. destruct Hs as [H1 _]. apply N.leb_le in H1. lia.
Qed.

Lemma line_ok : forall segs done last s fuel rest,
  Forall (fun sg => pseg_ok sg = true) segs -> lstate done last s ->
  p_inp s = flat_map ser_pseg segs ++ rest -> nlen done + nlen (pline_syms segs last) = w ->
  (length (p_inp s) < fuel)%nat ->
  exists s' last', line_loop p w base fuel first ll s = Ok s' /\
                   lstate (done ++ pline_syms segs last) last' s' /\ p_inp s' = rest.
Proof.
  induction segs as [|sg segs IH]; intros done last s fuel rest Hok Hs Hin Hn Hf.
  - destruct fuel; [lia|]. cbn [line_loop]. cbn [pline_syms] in *. rewrite nlen_nil in Hn.
    rewrite (l_iw _ _ _ Hs). assert (E : nlen done <? w = false) by (apply N.ltb_ge; lia). rewrite E.
    exists s, last. rewrite app_nil_r. split; [reflexivity|]. split; [exact Hs|exact Hin].
  - pose proof (Forall_inv Hok) as Hsg. pose proof (Forall_inv_tail Hok) as Hok'. cbv beta in Hsg.
    pose proof (nlen_pline_pos sg segs last Hsg) as Hpos.
    destruct fuel; [lia|]. cbn [line_loop].
    rewrite (l_iw _ _ _ Hs). assert (E : nlen done <? w = true) by (apply N.ltb_lt; lia). rewrite E.
    cbn [flat_map] in Hin.
    destruct sg as [raw r|r].
    + destruct (pseg_ok_raw raw r Hsg) as (Hr15 & Hru & Hr1 & Hr2 & _ & Hb).
      cbn [ser_pseg] in Hin. rewrite Hin. cbn [app read_u8].
      rewrite segment_raw by lia.
      cbn [pline_syms] in Hn. rewrite !nlen_app, nlen_repeat in Hn.
      rewrite add64 by lia. cbn [obind]. rewrite add64 by lia. cbn [obind].
      assert (Eg : w <? nlen done + nlen raw + r = false) by (apply N.ltb_ge; lia). rewrite Eg.
      set (s0 := mkP ((raw ++ flat_map ser_pseg segs) ++ rest) (p_buf s) (p_out s) (nlen done) (p_color s)).
      assert (Hs0 : lstate done last s0) by (destruct Hs; constructor; auto).
      destruct (raw_ok raw done last s0 (flat_map ser_pseg segs ++ rest) Hs0 Hb) as (s1 & E1 & Hs1 & Hi1);
        [subst s0; cbn [p_inp]; rewrite <- app_assoc; reflexivity|lia|].
      replace (N.to_nat (nlen raw)) with (length raw) by (unfold nlen; lia).
      rewrite E1. cbn [obind].
      destruct (run_ok (N.to_nat r) (done ++ raw) (List.last raw last) s1 Hs1) as (s2 & E2 & Hs2 & Hi2);
        [rewrite nlen_app; lia|].
      rewrite E2. cbn [obind].
      destruct (IH (done ++ raw ++ repeat (List.last raw last) (N.to_nat r)) (List.last raw last) s2 fuel rest Hok')
        as (s' & last' & E' & Hs' & Hi').
      * rewrite app_assoc. exact Hs2.
      * rewrite Hi2, Hi1. reflexivity.
      * rewrite !nlen_app, nlen_repeat. lia.
      * rewrite Hi2, Hi1. rewrite Hin in Hf. rewrite !app_length in *. cbn [length] in Hf. lia.
      * exists s', last'. split; [exact E'|]. split; [|exact Hi'].
        cbn [pline_syms]. rewrite <- !app_assoc in *. exact Hs'.
    + cbn [pseg_ok] in Hsg. apply andb_true_iff in Hsg. destruct Hsg as [Hr16 Hr47]. apply N.leb_le in Hr16, Hr47.
      cbn [ser_pseg] in Hin.
      assert (Hin' : p_inp s = (if r <? 32 then (r - 16) * 16 + 1 else (r - 32) * 16 + 2) :: flat_map ser_pseg segs ++ rest).
      { rewrite Hin. destruct (r <? 32); reflexivity. }
      rewrite Hin'. cbn [read_u8].
      rewrite segment_long by lia.
      cbn [pline_syms] in Hn. rewrite !nlen_app, nlen_repeat in Hn.
      rewrite add64 by lia. cbn [obind]. rewrite add64 by lia. cbn [obind].
      assert (Eg : w <? nlen done + 0 + r = false) by (apply N.ltb_ge; lia). rewrite Eg.
      set (s0 := mkP (flat_map ser_pseg segs ++ rest) (p_buf s) (p_out s) (nlen done) (p_color s)).
      assert (Hs0 : lstate done last s0) by (destruct Hs; constructor; auto).
      change (N.to_nat 0) with O.
      assert (E1 : (if first then raw_first p base 0 s0 else raw_delta p base 0 ll s0) = Ok s0) by (destruct first; reflexivity).
      rewrite E1. cbn [obind].
      destruct (run_ok (N.to_nat r) done last s0 Hs0) as (s2 & E2 & Hs2 & Hi2); [lia|].
      rewrite E2. cbn [obind].
      destruct (IH (done ++ repeat last (N.to_nat r)) last s2 fuel rest Hok' Hs2) as (s' & last' & E' & Hs' & Hi').
      * rewrite Hi2. reflexivity.
      * rewrite !nlen_app, nlen_repeat. lia.
      * rewrite Hi2. subst s0. cbn [p_inp]. rewrite Hin' in Hf. cbn [length] in Hf. lia.
      * exists s', last'. split; [exact E'|]. split; [|exact Hi'].
        cbn [pline_syms]. rewrite <- !app_assoc in *. exact Hs'.
Qed.

End Line.

(* ---- a plane: cell (row r counted from the bottom, column c) lives at base + 4 * (w * (h - 1 - r) + c) *)
Definition addr (r c : N) : N := base + 4 * (w * (h - 1 - r) + c).

Definition line_ok_b (segs : list pseg) : Prop :=
  Forall (fun sg => pseg_ok sg = true) segs /\ nlen (pline_syms segs 0) = w.

Lemma nth_undelta pv syms c : nlen pv = w -> nlen syms = w -> c < w ->
  nth (N.to_nat c) (map (fun '(a, s) => undelta a s) (combine pv syms)) 0 =
  undelta (nth (N.to_nat c) pv 0) (nth (N.to_nat c) syms 0).
Proof.
  intros H1 H2 Hc.
  rewrite (nth_map_in _ (0, 0)) by (rewrite combine_length; unfold nlen in *; lia).
  rewrite combine_nth by (unfold nlen in *; lia). reflexivity.
Qed.

Lemma rows_content : forall lines n indexh ll prev inp b rest,
  length lines = n -> indexh + N.of_nat n = h -> Forall line_ok_b lines ->
  inp = ser_plane lines ++ rest -> blen b = L ->
  (match prev with
   | None => indexh = 0 /\ ll = 0
   | Some pv => 0 < indexh /\ ll = 4 * (w * (h - indexh)) /\ nlen pv = w /\
                forall c, c < w -> bget_raw b (addr (indexh - 1) c) = nth (N.to_nat c) pv 0
   end) ->
  exists b', rows p w h base n indexh ll inp b = Ok (rest, b') /\ blen b' = L /\
    (forall i c, i < N.of_nat n -> c < w ->
       bget_raw b' (addr (indexh + i) c) = nth (N.to_nat c) (nth (N.to_nat i) (plane_lines lines prev) []) 0) /\
    (forall k, (forall i c, i < N.of_nat n -> c < w -> k <> addr (indexh + i) c) -> bget_raw b' k = bget_raw b k).
Proof.
  induction lines as [|segs lines IH]; intros n indexh ll prev inp b rest Hlen Hn Hok Hin Hb Hprev.
  - cbn [length] in Hlen. subst n. cbn [rows]. cbn [ser_plane flat_map app] in Hin. subst inp.
    exists b. split; [reflexivity|]. split; [exact Hb|]. split; [intros; lia|reflexivity].
  - cbn [length] in Hlen. subst n. cbn [rows].
    pose proof (Forall_inv Hok) as [Hsegs Hsyms]. pose proof (Forall_inv_tail Hok) as Hok'.
    assert (Hih : indexh < h) by lia.
    assert (Hi1 : (indexh + 1) * w <= w * h) by (rewrite (N.mul_comm w h); apply N.mul_le_mono_r; lia).
    rewrite mul64 by lia. cbn [obind]. rewrite mul64 by lia. cbn [obind].
    rewrite add64 by lia. cbn [obind]. rewrite mul64 by lia. cbn [obind].
    rewrite mul64 by lia. cbn [obind]. rewrite sub64 by lia. cbn [obind].
    set (ro := w * h * 4 - (indexh + 1) * w * 4).
    assert (Hro : ro = 4 * (w * (h - 1 - indexh))).
    { subst ro. replace (h - 1 - indexh) with (h - (indexh + 1)) by lia. rewrite N.mul_sub_distr_l. lia. }
    assert (Hro4 : ro + 4 * w <= 4 * (w * h)) by (subst ro; lia).
    assert (Hll4 : ll + 4 * w <= 4 * (w * h)).
    { destruct prev as [pv|]; [destruct Hprev as (H0 & -> & _)|destruct Hprev as (_ & ->)].
      - assert (w * (h - indexh + 1) <= w * h) by (apply N.mul_le_mono_l; lia). lia.
      - assert (w * 1 <= w * h) by (apply N.mul_le_mono_l; lia). lia. }
    assert (Hfirst : (ll =? 0) = match prev with None => true | Some _ => false end).
    { destruct prev as [pv|]; [destruct Hprev as (H0 & -> & _)|destruct Hprev as (_ & ->); reflexivity].
      apply N.eqb_neq. assert (w * 1 <= w * (h - indexh)) by (apply N.mul_le_mono_l; lia). lia. }
    assert (Hdiff : (ll =? 0) = false -> ll = ro + 4 * w).
    { rewrite Hfirst. destruct prev as [pv|]; [|discriminate]. intros _. destruct Hprev as (H0 & -> & _).
      rewrite Hro. replace (h - indexh) with (h - 1 - indexh + 1) by lia. lia. }
    cbn [ser_plane flat_map] in Hin. rewrite <- app_assoc in Hin.
    destruct (line_ok ro ll (ll =? 0) b Hro4 Hll4 Hdiff segs [] 0 (mkP inp b ro 0 0) (S (length inp))
                      (flat_map (flat_map ser_pseg) lines ++ rest) Hsegs) as (s' & last' & E' & Hs' & Hi').
    { constructor; cbn [p_buf p_iw p_out p_color].
      - exact Hb.
      - reflexivity.
      - change (nlen (@nil N)) with 0. lia.
      - unfold colof, dc. destruct (ll =? 0); reflexivity.
      - intros c Hc. change (nlen (@nil N)) with 0 in Hc. lia.
      - intros; reflexivity. }
    { cbn [p_inp]. exact Hin. }
    { rewrite nlen_nil. lia. }
    { cbn [p_inp]. lia. }
    rewrite E'. cbn [obind app] in *. clear E'.
    set (syms := pline_syms segs 0) in *.
    set (vals := match prev with
                 | None => syms
                 | Some pv => map (fun '(a, s) => undelta a s) (combine pv syms)
                 end).
    assert (Hsb : bytes_ok syms) by (apply pline_syms_bytes; [exact Hsegs|lia]).
    (* the cells of this line hold vals *)
    assert (Hcells : forall c, c < w -> bget_raw (p_buf s') (addr indexh c) = nth (N.to_nat c) vals 0).
    { intros c Hc. unfold addr. replace (base + 4 * (w * (h - 1 - indexh) + c)) with (base + ro + 4 * c) by lia.
      rewrite (l_cells _ _ _ _ _ _ _ Hs') by lia. unfold valof. subst vals.
      destruct prev as [pv|].
      - destruct Hprev as (H0 & Hlleq & Hpv & Hpc). rewrite Hfirst.
        rewrite nth_undelta by (auto; lia).
        rewrite <- undelta_dc.
        + f_equal. f_equal. rewrite <- Hpc by exact Hc. f_equal. unfold addr. rewrite Hlleq.
          replace (h - 1 - (indexh - 1)) with (h - indexh) by lia. lia.
        + apply (proj1 (Forall_forall _ _) Hsb). apply nth_In. unfold nlen in Hsyms. lia.
      - rewrite Hfirst. reflexivity. }
    assert (Hvlen : nlen vals = w).
    { subst vals. destruct prev as [pv|]; [|exact Hsyms]. destruct Hprev as (_ & _ & Hpv & _).
      unfold nlen in *. rewrite map_length, combine_length. lia. }
    destruct (IH (length lines) (indexh + 1) ro (Some vals) (p_inp s') (p_buf s') rest eq_refl ltac:(lia) Hok' Hi'
                 (l_len _ _ _ _ _ _ _ Hs')) as (b' & Eb & Hbl & Hc' & Hf').
    { split; [lia|]. split; [rewrite Hro; f_equal; f_equal; lia|]. split; [exact Hvlen|].
      intros c Hc. replace (indexh + 1 - 1) with indexh by lia. apply Hcells, Hc. }
    exists b'. split; [exact Eb|]. split; [exact Hbl|]. split.
    + intros i c Hi Hc. cbn [plane_lines]. fold syms. fold vals.
      destruct (N.eq_dec i 0) as [->|Hne].
      * cbn [N.to_nat nth]. rewrite N.add_0_r. rewrite Hf'.
        -- apply Hcells, Hc.
        -- intros i' c' Hii Hcc. unfold addr.
           assert (w * (h - 1 - (indexh + 1 + i')) + w <= w * (h - 1 - indexh)).
           { replace (h - 1 - indexh) with (h - 1 - (indexh + 1 + i') + (1 + i')) by lia. rewrite N.mul_add_distr_l.
             assert (w * 1 <= w * (1 + i')) by (apply N.mul_le_mono_l; lia). lia. }
           lia.
      * replace (N.to_nat i) with (S (N.to_nat (i - 1))) by lia. cbn [nth].
        replace (indexh + i) with (indexh + 1 + (i - 1)) by lia. apply Hc'; lia.
    + intros k Hk. rewrite Hf'.
      * rewrite (l_frame _ _ _ _ _ _ _ Hs'); [reflexivity|].
        intros c Hc. rewrite Hsyms in Hc.
        specialize (Hk 0 c ltac:(lia) Hc). rewrite N.add_0_r in Hk. unfold addr in Hk. lia.
      * intros i c Hi Hc. specialize (Hk (i + 1) c ltac:(lia) Hc). replace (indexh + (i + 1)) with (indexh + 1 + i) in Hk by lia. exact Hk.
Qed.

(* the plane as a flat top-down list *)
Definition plane_td (lines : list (list pseg)) : list N := concat (rev (plane_lines lines None)).

Lemma plane_lines_shape : forall lines prev,
  Forall line_ok_b lines -> (match prev with Some pv => nlen pv = w | None => True end) ->
  length (plane_lines lines prev) = length lines /\ uniform (N.to_nat w) (plane_lines lines prev).
Proof.
  induction lines as [|segs lines IH]; intros prev Hok Hp; [split; [reflexivity|constructor]|].
  pose proof (Forall_inv Hok) as [Hsegs Hsyms]. pose proof (Forall_inv_tail Hok) as Hok'.
  cbn [plane_lines].
  set (vals := match prev with None => pline_syms segs 0 | Some pv => _ end).
  assert (Hv : nlen vals = w).
  { subst vals. destruct prev as [pv|]; [|exact Hsyms]. unfold nlen in *. rewrite map_length, combine_length. lia. }
  destruct (IH (Some vals) Hok' Hv) as [Hl Hu]. split.
  - cbn [length]. rewrite Hl. reflexivity.
  - constructor; [unfold nlen in Hv; lia|exact Hu].
Qed.

Lemma process_plane_content lines inp b rest :
  0 < h -> length lines = N.to_nat h -> Forall line_ok_b lines -> inp = ser_plane lines ++ rest -> blen b = L ->
  exists b', process_plane p w h base inp b = Ok (rest, b') /\ blen b' = L /\
    (forall q, q < w * h -> bget_raw b' (base + 4 * q) = nth (N.to_nat q) (plane_td lines) 0) /\
    (forall k, (forall q, q < w * h -> k <> base + 4 * q) -> bget_raw b' k = bget_raw b k).
Proof.
  intros Hh0 Hlen Hok Hin Hb. unfold process_plane.
  assert (H4 : 4 <= 4 * (w * h)).
  { assert (1 * 1 <= w * h) by (apply N.mul_le_mono; lia). lia. }
  assert (Hle : base <=? blen b = true) by (apply N.leb_le; unfold L in *; lia). rewrite Hle.
  destruct (rows_content lines (N.to_nat h) 0 0 None inp b rest Hlen ltac:(lia) Hok Hin Hb ltac:(split; reflexivity))
    as (b' & E & Hbl & Hc & Hf).
  exists b'. split; [exact E|]. split; [exact Hbl|].
  destruct (plane_lines_shape lines None Hok I) as [Hpl Hpu].
  split.
  - intros q Hq.
    (* q = i * w + c in top-down coordinates, row h-1-i from the bottom *)
    set (i := q / w). set (c := q mod w).
    assert (Hqc : q = w * i + c) by (subst i c; apply N.div_mod; lia).
    assert (Hc' : c < w) by (subst c; apply N.mod_lt; lia).
    assert (Hi : i < h).
    { subst i. apply N.div_lt_upper_bound; lia. }
    specialize (Hc (h - 1 - i) c ltac:(lia) Hc'). rewrite N.add_0_l in Hc. unfold addr in Hc.
    replace (h - 1 - (h - 1 - i)) with i in Hc by lia.
    replace (base + 4 * q) with (base + 4 * (w * i + c)) by (rewrite Hqc; reflexivity).
    rewrite Hc. unfold plane_td.
    replace (N.to_nat q) with (N.to_nat i * N.to_nat w + N.to_nat c)%nat by lia.
    rewrite (nth_concat_uniform (N.to_nat w)) by (try apply uniform_rev; try exact Hpu; lia).
    rewrite rev_nth by lia. rewrite Hpl, Hlen. f_equal. f_equal. lia.
  - intros k Hk. apply Hf. intros i c Hi Hc'. unfold addr. rewrite N.add_0_l.
    assert (Hq : w * (h - 1 - i) + c < w * h).
    { assert (w * (h - 1 - i) + w <= w * h).
      { replace (w * (h - 1 - i) + w) with (w * (h - 1 - i + 1)) by lia. apply N.mul_le_mono_l. lia. }
      lia. }
    apply Hk. exact Hq.
Qed.

End Plane.

(* ---- four planes *)
Lemma nth_interleave : forall b g r a q,
  length g = length b -> length r = length b -> length a = length b -> (q < length b)%nat ->
  nth (4 * q) (interleave b g r a) 0 = nth q b 0 /\ nth (4 * q + 1) (interleave b g r a) 0 = nth q g 0 /\
  nth (4 * q + 2) (interleave b g r a) 0 = nth q r 0 /\ nth (4 * q + 3) (interleave b g r a) 0 = nth q a 0.
Proof.
  induction b as [|vb b IH]; intros g r a q Hg Hr Ha Hq; [cbn [length] in Hq; lia|].
  destruct g as [|vg g]; [discriminate|]. destruct r as [|vr r]; [discriminate|]. destruct a as [|va a]; [discriminate|].
  cbn [interleave]. destruct q as [|q].
  - cbn. auto.
  - cbn [length] in *. replace (4 * S q)%nat with (S (S (S (S (4 * q))))) by lia.
    cbn [Nat.add nth]. apply IH; lia.
Qed.

Lemma length_interleave : forall b g r a,
  length g = length b -> length r = length b -> length a = length b -> length (interleave b g r a) = (4 * length b)%nat.
Proof.
  induction b as [|vb b IH]; intros g r a Hg Hr Ha.
  - destruct g; destruct r; destruct a; try discriminate; reflexivity.
  - destruct g as [|vg g]; [discriminate|]. destruct r as [|vr r]; [discriminate|]. destruct a as [|va a]; [discriminate|].
    cbn [interleave length] in *. rewrite IH by lia. lia.
Qed.

Theorem planar_exact p w h a r g b :
  w < 65536 -> h < 65536 -> 0 < w -> 0 < h ->
  plane_ok w h a = true -> plane_ok w h r = true -> plane_ok w h g = true -> plane_ok w h b = true ->
  decompress p w h 32 true (ser_planar a r g b) = ([4 * (w * h)], Ok (planar_image a r g b)).
Proof.
  intros Hw Hh Hw0 Hh0 Ha Hr Hg Hb.
  assert (Hconv : forall pl, plane_ok w h pl = true -> length pl = N.to_nat h /\ Forall (line_ok_b w) pl).
  { intros pl H. unfold plane_ok in H. apply andb_true_iff in H. destruct H as [H1 H2]. apply N.eqb_eq in H1.
    split; [unfold nlen in H1; lia|]. apply Forall_forall. intros segs Hin. rewrite forallb_forall in H2.
    specialize (H2 segs Hin). apply andb_true_iff in H2. destruct H2 as [H3 H4]. apply N.eqb_eq in H4.
    split; [|exact H4]. apply Forall_forall. intros sg Hsg. rewrite forallb_forall in H3. apply H3, Hsg. }
  destruct (Hconv a Ha) as [Hal Hao]. destruct (Hconv r Hr) as [Hrl Hro]. destruct (Hconv g Hg) as [Hgl Hgo]. destruct (Hconv b Hb) as [Hbl Hbo].
  pose proof (wh_b w h Hw Hh) as Hwh.
  unfold decompress. change (32 =? 32) with true. cbv iota.
  rewrite mul64 by lia. cbn [obind]. rewrite mul64 by lia. cbn [lift mbind].
  rewrite alloc_eq by (rewrite pow63; lia). cbn [mbind lift].
  unfold rle32, ser_planar. cbn [read_u8]. change (16 =? 16) with true. cbn [negb].
  assert (E0 : (w =? 0) || (h =? 0) = false).
  { apply orb_false_iff. split; apply N.eqb_neq; lia. }
  rewrite E0.
  destruct (process_plane_content p w h 3 Hw Hh Hw0 ltac:(lia) a _ (bmake (w * h * 4)) (ser_plane r ++ ser_plane g ++ ser_plane b)
              Hh0 Hal Hao eq_refl ltac:(rewrite blen_bmake; lia)) as (b3 & E3 & L3 & C3 & F3).
  rewrite E3.
  destruct (process_plane_content p w h 2 Hw Hh Hw0 ltac:(lia) r _ b3 (ser_plane g ++ ser_plane b) Hh0 Hrl Hro eq_refl L3)
    as (b2 & E2 & L2 & C2 & F2).
  rewrite E2.
  destruct (process_plane_content p w h 1 Hw Hh Hw0 ltac:(lia) g _ b2 (ser_plane b ++ []) Hh0 Hgl Hgo ltac:(rewrite app_nil_r; reflexivity) L2)
    as (b1 & E1 & L1 & C1 & F1).
  rewrite app_nil_r in E1. rewrite E1.
  destruct (process_plane_content p w h 0 Hw Hh Hw0 ltac:(lia) b _ b1 [] Hh0 Hbl Hbo ltac:(rewrite app_nil_r; reflexivity) L1)
    as (b0 & E0' & L0 & C0 & F0).
  rewrite E0'. cbn [mbind lift app].
  replace (w * h * 4 * 1) with (4 * (w * h)) by lia.
  f_equal. f_equal.
  (* lengths of the four top-down planes *)
  assert (Htd : forall pl, length pl = N.to_nat h -> Forall (line_ok_b w) pl -> length (plane_td pl) = N.to_nat (w * h)).
  { intros pl Hl Ho. destruct (plane_lines_shape w h 0 Hw Hh Hw0 ltac:(lia) pl None Ho I) as [Hpl Hpu]. unfold plane_td.
    rewrite (length_concat_uniform (N.to_nat w)) by (apply uniform_rev; exact Hpu). rewrite rev_length, Hpl, Hl. lia. }
  pose proof (Htd a Hal Hao) as Tla. pose proof (Htd r Hrl Hro) as Tlr. pose proof (Htd g Hgl Hgo) as Tlg. pose proof (Htd b Hbl Hbo) as Tlb.
  unfold planar_image. fold (plane_td b) (plane_td g) (plane_td r) (plane_td a).
  apply to_list_eq.
  - unfold nlen. rewrite length_interleave by lia. rewrite L0. lia.
  - intros k Hk. unfold nlen in Hk. rewrite length_interleave in Hk by lia.
    set (q := k / 4). set (c := k mod 4).
    assert (Hkq : k = 4 * q + c) by (subst q c; apply N.div_mod; lia).
    assert (Hc : c < 4) by (subst c; apply N.mod_lt; lia).
    assert (Hq : q < w * h) by lia.
    destruct (nth_interleave (plane_td b) (plane_td g) (plane_td r) (plane_td a) (N.to_nat q)) as (I0 & I1 & I2 & I3); try lia.
    assert (Hcc : c = 0 \/ c = 1 \/ c = 2 \/ c = 3) by lia.
    destruct Hcc as [Ec|[Ec|[Ec|Ec]]]; rewrite Hkq, Ec.
    + replace (N.to_nat (4 * q + 0)) with (4 * N.to_nat q)%nat by lia. rewrite I0.
      replace (4 * q + 0) with (0 + 4 * q) by lia. apply C0, Hq.
    + replace (N.to_nat (4 * q + 1)) with (4 * N.to_nat q + 1)%nat by lia. rewrite I1.
      rewrite F0 by (intros q' Hq'; lia).
      replace (4 * q + 1) with (1 + 4 * q) by lia. apply C1, Hq.
    + replace (N.to_nat (4 * q + 2)) with (4 * N.to_nat q + 2)%nat by lia. rewrite I2.
      rewrite F0 by (intros q' Hq'; lia). rewrite F1 by (intros q' Hq'; lia).
      replace (4 * q + 2) with (2 + 4 * q) by lia. apply C2, Hq.
    + replace (N.to_nat (4 * q + 3)) with (4 * N.to_nat q + 3)%nat by lia. rewrite I3.
      rewrite F0 by (intros q' Hq'; lia). rewrite F1 by (intros q' Hq'; lia). rewrite F2 by (intros q' Hq'; lia).
      replace (4 * q + 3) with (3 + 4 * q) by lia. apply C3, Hq.
Qed.
