(* C17: secrets leave the client only where the chosen mode says they may.
   Proofs about the model of Secrets.v: (A) what cssp_connect's three messages are made of, (B) rendering of the
   sequence model's event trace, (C) shape of that trace (Hoare triples of C02_proofs), (D) the statements. *)
From RdpV Require Import Base Msg LayoutsGlobal LayoutsConnect Link Tpkt Global Rc4 Utf Ntlm NtlmSeal CsspGate.
From RdpV Require Connect ClientPdus StrictPdu C02_proofs C04_proofs.
From RdpV Require Import Secrets.
Open Scope list_scope.
Open Scope N_scope.

(* ================================================================== (A) the CredSSP messages *)
(* what cssp_connect puts into TSPasswordCreds *)
Definition ts_creds (st : ntlm) (restricted is_unicode : bool) : bytes * bytes * bytes :=
  if restricted then ([], [], [])
  else (encode_name is_unicode (n_domain st), encode_name is_unicode (n_user st), encode_name is_unicode (n_password st)).

(* the NTLM state without its password: what is left is the account name and the two response keys *)
Definition strip_password (st : ntlm) : ntlm := mkNtlm (n_domain st) (n_user st) [] (n_key_nt st) (n_key_lm st).

Section Cssp.
Variable md5 : bytes -> bytes.
Variable hmac : bytes -> bytes -> bytes.
Variable p : prof.
Variable create_ts_request : bytes -> bytes.
Variable create_ts_authenticate : bytes -> bytes -> bytes.
Variable create_ts_credentials : bytes -> bytes -> bytes -> bytes.
Variable create_ts_authinfo : bytes -> bytes.
Variable read_ts_server_challenge : bytes -> outcome bytes.
Variable read_ts_validate : bytes -> outcome bytes.

Notation final := (final_round hmac create_ts_credentials create_ts_authinfo read_ts_validate).
Notation connect := (cssp_connect md5 hmac p create_ts_request create_ts_authenticate create_ts_credentials
                                  create_ts_authinfo read_ts_server_challenge read_ts_validate).

(* the AUTHENTICATE token looks at the NTLM state through domain, user and the two keys only *)
Lemma rcm_key_only st st' neg chal nonce key :
  n_domain st = n_domain st' -> n_user st = n_user st' -> n_key_nt st = n_key_nt st' -> n_key_lm st = n_key_lm st' ->
  read_challenge_message hmac p st neg chal nonce key = read_challenge_message hmac p st' neg chal nonce key.
Proof. intros H1 H2 H3 H4. unfold read_challenge_message. rewrite H1, H2, H3, H4. reflexivity. Qed.

(* the last round writes at most one message *)
Lemma final_writes st ra u pk ctx reply : snd (final st ra u pk ctx reply) = [] \/ exists m, snd (final st ra u pk ctx reply) = [m].
Proof.
  unfold final_round.
  destruct (read_ts_validate reply) as [pka|e| |]; cbn [snd]; auto.
  destruct (gss_unwrapex hmac ctx pka) as [[pt|e| |] ctx']; cbn [snd]; auto.
  destruct (negb (le_nat pt =? le_nat pk + 1)); cbn [snd]; auto.
  cbv zeta. match goal with |- context [gss_wrapex hmac ?c ?d] => destruct (gss_wrapex hmac c d) as [[sealed c2]|e| |] end; cbn [snd]; eauto.
Qed.

(* ... and that message is the sealed TSCredentials made of [ts_creds] *)
Lemma final_message st ra u pk ctx reply m :
  snd (final st ra u pk ctx reply) = [m] ->
  exists ctx1 ctx2 sealed,
    m = create_ts_authinfo sealed /\
    (let '(d, us, pw) := ts_creds st ra u in gss_wrapex hmac ctx1 (create_ts_credentials d us pw) = Ok (sealed, ctx2)).
Proof.
  unfold final_round, ts_creds.
  destruct (read_ts_validate reply) as [pka|e| |]; cbn [snd]; try discriminate.
  destruct (gss_unwrapex hmac ctx pka) as [[pt|e| |] ctx']; cbn [snd]; try discriminate.
  destruct (negb (le_nat pt =? le_nat pk + 1)); cbn [snd]; try discriminate.
  cbv zeta.
  destruct ra.
  - destruct (gss_wrapex hmac ctx' (create_ts_credentials [] [] [])) as [[sealed c2]|e| |] eqn:Ew; cbn [snd]; try discriminate.
    intros H. injection H as <-. exists ctx', c2, sealed. split; [reflexivity|exact Ew].
  - match goal with |- context [gss_wrapex hmac ?c ?d] => destruct (gss_wrapex hmac c d) as [[sealed c2]|e| |] eqn:Ew end; cbn [snd]; try discriminate.
    intros H. injection H as <-. exists ctx', c2, sealed. split; [reflexivity|exact Ew].
Qed.

(* the first message: the NEGOTIATE token, which depends on nothing *)
Lemma connect_first st ra cert replies nonce key b :
  nth_error (snd (connect st ra cert replies nonce key)) 0 = Some b ->
  exists nego, create_negotiate_message p = Ok nego /\ b = create_ts_request nego.
Proof.
  unfold cssp_connect.
  destruct (create_negotiate_message p) as [neg|e| |]; cbn [fst snd nth_error]; try discriminate.
  intros H. exists neg. split; [reflexivity|].
  destruct (link_read0 replies) as [r1 replies1].
  destruct (read_ts_server_challenge r1) as [chal|e| |]; cbn [snd nth_error] in H; try (injection H as <-; reflexivity).
  destruct (read_challenge_message hmac p st neg chal nonce key) as [tok|e| |]; cbn [snd nth_error] in H; try (injection H as <-; reflexivity).
  destruct (build_security_interface md5 key) as [c0|e| |]; cbn [snd nth_error] in H; try (injection H as <-; reflexivity).
  destruct cert as [pk|e| |]; cbn [snd nth_error] in H; try (injection H as <-; reflexivity).
  destruct (gss_wrapex hmac c0 pk) as [[sealed c1]|e| |]; cbn [snd nth_error] in H; try (injection H as <-; reflexivity).
  destruct (link_read0 replies1) as [r2 rest].
  destruct (final st ra (challenge_is_unicode p chal) pk c1 r2) as [res w]. cbn [snd app nth_error] in H.
  injection H as <-. reflexivity.
Qed.

(* the first two messages depend on the NTLM state through domain, user and the keys only, and not on the mode *)
Lemma connect_first_two st st' ra ra' cert replies nonce key :
  n_domain st = n_domain st' -> n_user st = n_user st' -> n_key_nt st = n_key_nt st' -> n_key_lm st = n_key_lm st' ->
  firstn 2 (snd (connect st ra cert replies nonce key)) = firstn 2 (snd (connect st' ra' cert replies nonce key)).
Proof.
  intros H1 H2 H3 H4. unfold cssp_connect.
  destruct (create_negotiate_message p) as [neg|e| |]; cbn [fst snd]; try reflexivity.
  destruct (link_read0 replies) as [r1 replies1].
  destruct (read_ts_server_challenge r1) as [chal|e| |]; cbn [snd]; try reflexivity.
  rewrite (rcm_key_only st st' neg chal nonce key H1 H2 H3 H4).
  destruct (read_challenge_message hmac p st' neg chal nonce key) as [tok|e| |]; cbn [snd]; try reflexivity.
  destruct (build_security_interface md5 key) as [c0|e| |]; cbn [snd]; try reflexivity.
  destruct cert as [pk|e| |]; cbn [snd]; try reflexivity.
  destruct (gss_wrapex hmac c0 pk) as [[sealed c1]|e| |]; cbn [snd]; try reflexivity.
  destruct (link_read0 replies1) as [r2 rest].
  destruct (final st ra (challenge_is_unicode p chal) pk c1 r2) as [res w].
  destruct (final st' ra' (challenge_is_unicode p chal) pk c1 r2) as [res' w'].
  cbn [snd app firstn]. reflexivity.
Qed.

(* never more than three messages *)
Lemma connect_at_most_three st ra cert replies nonce key :
  (List.length (snd (connect st ra cert replies nonce key)) <= 3)%nat.
Proof.
  unfold cssp_connect.
  destruct (create_negotiate_message p) as [neg|e| |]; cbn [fst snd Datatypes.length]; try lia.
  destruct (link_read0 replies) as [r1 replies1].
  destruct (read_ts_server_challenge r1) as [chal|e| |]; cbn [snd Datatypes.length]; try lia.
  destruct (read_challenge_message hmac p st neg chal nonce key) as [tok|e| |]; cbn [snd Datatypes.length]; try lia.
  destruct (build_security_interface md5 key) as [c0|e| |]; cbn [snd Datatypes.length]; try lia.
  destruct cert as [pk|e| |]; cbn [snd Datatypes.length]; try lia.
  destruct (gss_wrapex hmac c0 pk) as [[sealed c1]|e| |]; cbn [snd Datatypes.length]; try lia.
  destruct (link_read0 replies1) as [r2 rest].
  pose proof (final_writes st ra (challenge_is_unicode p chal) pk c1 r2) as Hw.
  destruct (final st ra (challenge_is_unicode p chal) pk c1 r2) as [res w]. cbn [snd] in *.
  destruct Hw as [->|[m ->]]; cbn [app Datatypes.length]; lia.
Qed.

(* the third message, when there is one: TSRequest { authInfo = SEAL(TSCredentials(ts_creds ..)) } *)
Lemma connect_third st ra cert replies nonce key b :
  nth_error (snd (connect st ra cert replies nonce key)) 2 = Some b ->
  exists chal ctx1 ctx2 sealed,
    b = create_ts_authinfo sealed /\
    (let '(d, us, pw) := ts_creds st ra (challenge_is_unicode p chal) in
     gss_wrapex hmac ctx1 (create_ts_credentials d us pw) = Ok (sealed, ctx2)).
Proof.
  unfold cssp_connect.
  destruct (create_negotiate_message p) as [neg|e| |]; cbn [fst snd nth_error]; try discriminate.
  destruct (link_read0 replies) as [r1 replies1].
  destruct (read_ts_server_challenge r1) as [chal|e| |]; cbn [snd nth_error]; try discriminate.
  destruct (read_challenge_message hmac p st neg chal nonce key) as [tok|e| |]; cbn [snd nth_error]; try discriminate.
  destruct (build_security_interface md5 key) as [c0|e| |]; cbn [snd nth_error]; try discriminate.
  destruct cert as [pk|e| |]; cbn [snd nth_error]; try discriminate.
  destruct (gss_wrapex hmac c0 pk) as [[sealed c1]|e| |]; cbn [snd nth_error]; try discriminate.
  destruct (link_read0 replies1) as [r2 rest].
  pose proof (final_writes st ra (challenge_is_unicode p chal) pk c1 r2) as Hw.
  pose proof (final_message st ra (challenge_is_unicode p chal) pk c1 r2) as Hm.
  destruct (final st ra (challenge_is_unicode p chal) pk c1 r2) as [res w]. cbn [snd] in *.
  destruct Hw as [->|[m ->]]; cbn [app nth_error]; try discriminate.
  intros H. injection H as <-. destruct (Hm m eq_refl) as (ctx1 & ctx2 & sl & E1 & E2).
  exists chal, ctx1, ctx2, sl. split; [exact E1|exact E2].
Qed.

End Cssp.

(* ================================================================== (B) rendering *)
Import Connect.

Section Render.
Variable p : prof.
Variable c : sconfig.
Variable e : senv.
Variable cssp : list bytes.

Lemma render_ev : forall l k, map r_ev (render p c e cssp k l) = l.
Proof.
  induction l as [|x tl IH]; intros k; [reflexivity|].
  destruct x as [m|ok|m]; cbn [render map r_ev]; rewrite IH; reflexivity.
Qed.

(* what an event of a given kind carries *)
Definition kind_spec (r : rev) (b : bytes) : Prop :=
  match r_kind r with
  | KCr => exists pr fl, ClientPdus.emit_cr p (cr_cfg pr fl) = Ok b
  | KNego => nth_error cssp 0 = Some b
  | KAuth => nth_error cssp 1 = Some b
  | KAuthInfo => nth_error cssp 2 = Some b
  | KCsspExtra => exists k, (3 <= k)%nat /\ nth_error cssp k = Some b
  | KCi => exists sel, ClientPdus.emit_connect_initial p (pdu_cfg c) sel = Ok b
  | KEd => ClientPdus.emit_erect_domain = Ok b
  | KAu => ClientPdus.emit_attach_user = Ok b
  | KCj => exists uid ch, ClientPdus.emit_channel_join uid ch = Ok b
  | KInfo => exists uid ver io, ClientPdus.emit_client_info p false (pdu_cfg c) (ClientPdus.mkIds 0 ver uid 0 io) = Ok b
  | KNone => exists ok, r_ev r = TlsStart ok
  end.

Lemma render_msg_spec k m ev b :
  snd (render_msg p c e cssp k m) = Ok b -> kind_spec (mkRev ev (fst (render_msg p c e cssp k m)) (snd (render_msg p c e cssp k m))) b.
Proof.
  unfold kind_spec. cbn [r_kind r_ev r_bytes].
  destruct m as [pr fl| |len sel| | |ini ch|ini ch len]; cbn [render_msg fst snd]; intros H; eauto.
  destruct (nth_error cssp k) as [x|] eqn:En; [|discriminate]. injection H as <-.
  destruct k as [|[|[|k]]]; cbn [cssp_kind]; auto.
  exists (S (S (S k))). split; [lia|exact En].
Qed.

Lemma render_kind : forall l k r b, In r (render p c e cssp k l) -> r_bytes r = Ok b -> kind_spec r b.
Proof.
  induction l as [|x tl IH]; intros k r b Hin Hb; [contradiction|].
  destruct x as [m|ok|m]; cbn [render] in Hin; destruct Hin as [<-|Hin]; eauto.
  - apply render_msg_spec. exact Hb.
  - unfold kind_spec. cbn. eauto.
  - apply render_msg_spec. exact Hb.
Qed.

(* a Client Info event of the rendering comes from an INFO message of the trace, with that message's user id *)
Lemma render_info : forall l k r, In r (render p c e cssp k l) -> r_kind r = KInfo ->
  exists ini ch len, (r_ev r = RawWrite (INFO ini ch len) \/ r_ev r = TlsWrite (INFO ini ch len)) /\
    exists ver, r_bytes r = ClientPdus.emit_client_info p false (pdu_cfg c) (ClientPdus.mkIds 0 ver (ini + 1001) 0 ch).
Proof.
  induction l as [|x tl IH]; intros k r Hin Hk; [contradiction|].
  destruct x as [m|ok|m]; cbn [render] in Hin; destruct Hin as [<-|Hin]; eauto.
  - cbn [r_kind r_bytes r_ev] in *. destruct m as [pr fl| |len sel| | |ini ch|ini ch len]; cbn [render_msg fst snd] in *; try discriminate.
    + destruct k as [|[|[|k]]]; discriminate.
    + exists ini, ch, len. split; [left; reflexivity|]. eexists. reflexivity.
  - discriminate.
  - cbn [r_kind r_bytes r_ev] in *. destruct m as [pr fl| |len sel| | |ini ch|ini ch len]; cbn [render_msg fst snd] in *; try discriminate.
    + destruct k as [|[|[|k]]]; discriminate.
    + exists ini, ch, len. split; [right; reflexivity|]. eexists. reflexivity.
Qed.

End Render.

(* ---- what [written] keeps ---- *)
Definition rel (r : rev) (ev : bev) : Prop := exists b, r_bytes r = Ok b /\ ev = bev_of r b.

Lemma written_prefix : forall l, exists l1 l2, l = l1 ++ l2 /\ Forall2 rel l1 (fst (written l)).
Proof.
  induction l as [|r tl IH]; [exists [], []; split; [reflexivity|constructor]|].
  cbn [written]. destruct (r_bytes r) as [b|x| |] eqn:Eb; try (exists [], (r :: tl); split; [reflexivity|constructor]).
  destruct IH as (l1 & l2 & E1 & E2). destruct (written tl) as [evs f]. cbn [fst] in *.
  exists (r :: l1), l2. split; [rewrite E1; reflexivity|]. constructor; [exists b; auto|exact E2].
Qed.

Lemma Forall2_in_l {A B} (R : A -> B -> Prop) l1 l2 a : Forall2 R l1 l2 -> In a l1 -> exists b, In b l2 /\ R a b.
Proof.
  induction 1 as [|x y l1 l2 Hxy H IH]; intros Hin; [contradiction|].
  destruct Hin as [<-|Hin]; [exists y; split; [left; reflexivity|exact Hxy]|].
  destruct (IH Hin) as (b & Hb & Hr). exists b. split; [right; exact Hb|exact Hr].
Qed.

Lemma Forall2_in_r {A B} (R : A -> B -> Prop) l1 l2 b : Forall2 R l1 l2 -> In b l2 -> exists a, In a l1 /\ R a b.
Proof.
  induction 1 as [|x y l1 l2 Hxy H IH]; intros Hin; [contradiction|].
  destruct Hin as [<-|Hin]; [exists x; split; [left; reflexivity|exact Hxy]|].
  destruct (IH Hin) as (a & Ha & Hr). exists a. split; [right; exact Ha|exact Hr].
Qed.

(* an event of the output comes from a rendered event with those bytes *)
Lemma written_in l ev : In ev (fst (written l)) -> exists r, In r l /\ rel r ev.
Proof.
  intros Hin. destruct (written_prefix l) as (l1 & l2 & E & F).
  destruct (Forall2_in_r _ _ _ _ F Hin) as (r & Hr & Hrel). exists r. split; [rewrite E; apply in_or_app; left; exact Hr|exact Hrel].
Qed.

Lemma rel_tls r k b : rel r (BTls k b) -> r_kind r = k /\ r_bytes r = Ok b /\ exists m, r_ev r = TlsWrite m.
Proof.
  intros (b' & Eb & Ee). unfold bev_of in Ee. destruct (r_ev r) as [m|ok|m]; try discriminate.
  injection Ee as <- <-. repeat split; eauto.
Qed.

Lemma rel_start r ok : r_ev r = TlsStart ok -> forall ev, rel r ev -> ev = BTlsStart ok.
Proof. intros E ev (b & _ & ->). unfold bev_of. rewrite E. reflexivity. Qed.

(* the trace property of C02 carries over to the bytes *)
Lemma written_tls_after_start l :
  (forall pre x post, map r_ev l = pre ++ x :: post -> match x with TlsWrite _ => In (TlsStart true) pre | _ => True end) ->
  forall pre k b post, fst (written l) = pre ++ BTls k b :: post -> In (BTlsStart true) pre.
Proof.
  intros Htr pre k b post Eo.
  destruct (written_prefix l) as (l1 & l2 & El & F). rewrite Eo in F.
  apply Forall2_app_inv_r in F. destruct F as (p1 & q1 & Fp & Fq & E1).
  inversion Fq as [|r y q1' post' Hr Fq' Eq1 Ey]; subst.
  destruct (rel_tls _ _ _ Hr) as (_ & _ & m & Em).
  specialize (Htr (map r_ev p1) (TlsWrite m) (map r_ev (q1' ++ l2))).
  rewrite <- app_assoc, map_app in Htr. cbn [app map] in Htr. rewrite Em in Htr. specialize (Htr eq_refl).
  apply in_map_iff in Htr. destruct Htr as (r0 & E0 & Hin0).
  destruct (Forall2_in_l _ _ _ _ Fp Hin0) as (ev0 & Hev0 & Hrel0).
  rewrite (rel_start _ _ E0 _ Hrel0) in Hev0. exact Hev0.
Qed.

Lemma kind_eqb_eq a b : kind_eqb a b = true -> a = b.
Proof. destruct a, b; cbn; intros H; try discriminate; reflexivity. Qed.

Lemma tls_writes_in k b : forall evs, In b (tls_writes k evs) -> In (BTls k b) evs.
Proof.
  induction evs as [|ev tl IH]; intros H; [contradiction|].
  destruct ev as [k' b'|ok|k' b']; cbn [tls_writes] in H; try (right; apply IH; exact H).
  destruct (kind_eqb k k') eqn:Ek; [|right; apply IH; exact H].
  apply kind_eqb_eq in Ek. subst k'. destruct H as [<-|H]; [left; reflexivity|right; apply IH; exact H].
Qed.

(* ================================================================== (C) shape of the event trace *)
Definition raws (l : list tev) : list cmsg := flat_map (fun x => match x with RawWrite m => [m] | _ => [] end) l.
Definition ncssp (l : list tev) : nat :=
  List.length (filter (fun x => match x with RawWrite m | TlsWrite m => is_cssp m | TlsStart _ => false end) l).

Lemma raws_app a b : raws (a ++ b) = raws a ++ raws b.
Proof. unfold raws. apply flat_map_app. Qed.
Lemma ncssp_app a b : ncssp (a ++ b) = (ncssp a + ncssp b)%nat.
Proof. unfold ncssp. rewrite filter_app, app_length. reflexivity. Qed.
Lemma raws_repeat_tls m n : raws (repeat (TlsWrite m) n) = [].
Proof. induction n; [reflexivity|exact IHn]. Qed.
Lemma ncssp_repeat_cssp n : ncssp (repeat (TlsWrite CSSP) n) = n.
Proof. induction n as [|n IH]; [reflexivity|]. unfold ncssp in *. cbn. rewrite IH. reflexivity. Qed.

Lemma emit_n_tls m : forall n s, s_tls s = true ->
  emit_n m n s = (Ok tt, mkSt (s_in s) (s_ev s ++ repeat (TlsWrite m) n) true (s_alloc s)).
Proof.
  induction n as [|n IH]; intros s Ht.
  - cbn [emit_n repeat]. unfold ret. rewrite app_nil_r. destruct s as [i ev t a]. cbn in *. subst t. reflexivity.
  - cbn [emit_n repeat]. unfold bind, emit. rewrite Ht. rewrite IH by reflexivity. cbn [s_in s_ev s_tls s_alloc].
    rewrite <- app_assoc. reflexivity.
Qed.

Section Shape.
Variable p : prof.
Variable ber_parse : bytes -> outcome bytes.
Variable trusted : bool.
Variable tls_start : stream -> outcome stream.
Variable R : stream -> nat * outcome stream.
Variable c : config.
Variable cs : stream.
Hypothesis Hoff : offered c <> 0.

Definition the_cr : cmsg := CR (offered c) (if restricted_admin c then 1 else 0).
Definition the_input : stream := match tls_start (snd (tpkt_read cs)) with Ok cs' => cs' | _ => [] end.
Definition the_n : nat := fst (R the_input).

(* after the request: nothing more on the raw transport; CredSSP messages: none, or all of cssp_connect's *)
Definition tail_ok (tl : list tev) : Prop := raws tl = [] /\ (ncssp tl = 0%nat \/ ncssp tl = the_n).
Definition X (s : cst) : Prop := exists tl, s_ev s = RawWrite the_cr :: tl /\ tail_ok tl.
Definition G (s : cst) : Prop := s_tls s = true /\ X s.

Lemma X_tr : C02_proofs.tr_only X.
Proof. intros s s' H1 H2 (tl & E & T). exists tl. rewrite H1. auto. Qed.
Lemma G_tr : C02_proofs.tr_only G.
Proof. intros s s' H1 H2 [Ht Hx]. split; [rewrite H2; exact Ht|eapply X_tr; eauto]. Qed.

Lemma G_emit m s : is_cssp m = false -> G s -> G (snd (emit m s)).
Proof.
  intros Hm [Ht (tl & E & Hr & Hn)]. unfold emit. cbn [snd]. split; [exact Ht|].
  cbn [s_ev]. rewrite Ht, E. exists (tl ++ [TlsWrite m]). split; [reflexivity|]. split.
  - rewrite raws_app, Hr. reflexivity.
  - rewrite ncssp_app. unfold ncssp at 2 4. cbn. rewrite Hm. cbn. rewrite !Nat.add_0_r. exact Hn.
Qed.

Lemma triple_emit_G m : is_cssp m = false -> C02_proofs.triple G (emit m) (fun _ => G) X.
Proof. intros Hm s Hs. pose proof (G_emit m s Hm Hs) as H. unfold emit in *. cbn [snd] in H. exact H. Qed.

Lemma triple_keeps_G {A} (m : M A) : C02_proofs.keeps m -> C02_proofs.triple G m (fun _ => G) X.
Proof.
  intros Hk s Hs. pose proof (C02_proofs.triple_keeps G m G_tr Hk s Hs) as H.
  destruct (m s) as [o s']. destruct o; auto; destruct H; auto.
Qed.

Lemma join_channels_G uid : forall chans, C02_proofs.triple G (join_channels uid chans) (fun _ => G) X.
Proof.
  induction chans as [|ch tl IH]; cbn [join_channels]; [apply C02_proofs.triple_ret; auto|].
  eapply C02_proofs.triple_bind; [apply triple_emit_G; reflexivity|]. intros ?.
  eapply C02_proofs.triple_bind; [apply triple_keeps_G; apply C02_proofs.keeps_recv_x224|]. intros pl.
  eapply C02_proofs.triple_bind; [apply triple_keeps_G; apply C02_proofs.keeps_lift|]. intros b.
  eapply C02_proofs.triple_bind; [apply triple_keeps_G; apply C02_proofs.keeps_lift|]. intros ?. exact IH.
Qed.

Lemma mcs_connect_G sel : C02_proofs.triple G (mcs_connect p ber_parse c sel) (fun _ => G) X.
Proof.
  unfold mcs_connect.
  eapply C02_proofs.triple_bind; [apply triple_emit_G; reflexivity|]. intros ?.
  eapply C02_proofs.triple_bind; [apply triple_keeps_G; apply C02_proofs.keeps_recv_x224|]. intros pl.
  eapply C02_proofs.triple_bind; [apply triple_keeps_G; apply C02_proofs.keeps_lift|]. intros b.
  eapply C02_proofs.triple_bind; [apply triple_keeps_G; apply C02_proofs.keeps_lift|]. intros sd.
  eapply C02_proofs.triple_bind; [apply triple_emit_G; reflexivity|]. intros ?.
  eapply C02_proofs.triple_bind; [apply triple_emit_G; reflexivity|]. intros ?.
  eapply C02_proofs.triple_bind; [apply triple_keeps_G; apply C02_proofs.keeps_recv_x224|]. intros pl2.
  eapply C02_proofs.triple_bind; [apply triple_keeps_G; apply C02_proofs.keeps_lift|]. intros b2.
  eapply C02_proofs.triple_bind; [apply triple_keeps_G; apply C02_proofs.keeps_lift|]. intros uid.
  eapply C02_proofs.triple_bind; [apply join_channels_G|]. intros ?.
  apply C02_proofs.triple_ret. auto.
Qed.

Lemma sec_connect_G uid io v5 : C02_proofs.triple G (sec_connect p c uid io v5) (fun _ => G) X.
Proof.
  unfold sec_connect.
  eapply C02_proofs.triple_bind; [apply triple_emit_G; reflexivity|]. intros ?.
  eapply C02_proofs.triple_bind; [apply triple_keeps_G; apply C02_proofs.keeps_recv_x224|]. intros pl.
  eapply C02_proofs.triple_bind; [apply triple_keeps_G; apply C02_proofs.keeps_lift|]. intros pl'.
  eapply C02_proofs.triple_bind; [apply triple_keeps_G; apply C02_proofs.keeps_lift|]. intros b.
  apply triple_keeps_G. apply C02_proofs.keeps_lift.
Qed.

(* ---- the negotiation phase, by direct evaluation ---- *)
Lemma X_base s : s_ev s = [RawWrite the_cr] -> X s.
Proof. intros E. exists []. split; [exact E|]. split; [reflexivity|left; reflexivity]. Qed.

Lemma X_start s b : s_ev s = [RawWrite the_cr; TlsStart b] -> X s.
Proof. intros E. exists [TlsStart b]. split; [exact E|]. split; [reflexivity|left; reflexivity]. Qed.

(* start_ssl right after the confirm was read *)
Lemma start_ssl_shape s :
  s_ev s = [RawWrite the_cr] -> s_in s = snd (tpkt_read cs) ->
  match start_ssl trusted tls_start c s with
  | (Ok _, s') => s_ev s' = [RawWrite the_cr; TlsStart true] /\ s_tls s' = true /\ s_in s' = the_input
  | (_, s') => X s'
  end.
Proof.
  intros Ev Ein. unfold start_ssl, log_ev.
  destruct (tls_handshake (check_cert c) trusted); [|apply X_start with false; cbn [s_ev]; rewrite Ev; reflexivity].
  unfold the_input. rewrite <- Ein.
  destruct (tls_start (s_in s)) as [cs'|x| |]; cbn [s_ev s_tls s_in]; try (apply X_start with false; cbn [s_ev]; rewrite Ev; reflexivity).
  rewrite Ev. auto.
Qed.

Lemma cssp_connect_shape s :
  s_ev s = [RawWrite the_cr; TlsStart true] -> s_tls s = true -> s_in s = the_input ->
  match cssp_connect R s with
  | (Ok _, s') => G s'
  | (_, s') => X s'
  end.
Proof.
  intros Ev Et Ein. unfold cssp_connect. rewrite (emit_n_tls CSSP _ s Et). rewrite Ein. fold the_n.
  assert (Hx : forall i a, X (mkSt i (s_ev s ++ repeat (TlsWrite CSSP) the_n) true a)).
  { intros i a. exists (TlsStart true :: repeat (TlsWrite CSSP) the_n). cbn [s_ev]. rewrite Ev. split; [reflexivity|]. split.
    - change (raws (TlsStart true :: repeat (TlsWrite CSSP) the_n)) with (raws (repeat (TlsWrite CSSP) the_n)). apply raws_repeat_tls.
    - right. change (ncssp (TlsStart true :: repeat (TlsWrite CSSP) the_n)) with (ncssp (repeat (TlsWrite CSSP) the_n)). apply ncssp_repeat_cssp. }
  destruct (snd (R the_input)) as [cs'|x| |]; cbn [s_ev s_tls s_alloc]; try apply Hx.
  split; [reflexivity|apply Hx].
Qed.

Lemma x224_shape :
  match x224_connect p trusted tls_start R c (mkSt cs [] false 0) with
  | (Ok _, s') => G s'
  | (_, s') => X s'
  end.
Proof.
  unfold x224_connect. unfold bind at 1. unfold emit at 1. cbn [s_in s_ev s_tls s_alloc app]. fold the_cr.
  unfold bind at 1. unfold recv_tpkt at 1. cbn [s_in s_ev s_tls s_alloc].
  destruct (tpkt_read cs) as [o cs1] eqn:Etp.
  destruct o as [pl|x| |]; try (apply X_base; reflexivity).
  unfold bind at 1. unfold lift at 1. cbn [fst snd s_in s_ev s_tls s_alloc].
  destruct (expect_raw pl) as [b|x| |]; try (apply X_base; reflexivity).
  unfold bind at 1. unfold lift at 1. cbn [fst snd s_in s_ev s_tls s_alloc].
  destruct (read_connection_confirm p b) as [osel a]. cbn [fst snd].
  destruct osel as [sel|x| |]; try (apply X_base; reflexivity).
  set (s3 := mkSt cs1 [RawWrite the_cr] false (N.max (N.max (N.max 0 (tpkt_alloc cs)) 0) a)).
  assert (E3 : s_ev s3 = [RawWrite the_cr]) by reflexivity.
  assert (I3 : s_in s3 = snd (tpkt_read cs)) by (rewrite Etp; reflexivity).
  destruct (sel_requested (offered c) sel) eqn:Ereq; cbn [negb]; [|apply X_base; reflexivity].
  destruct (sel =? PROTOCOL_HYBRID) eqn:E2.
  { destruct (has_auth c); [|apply X_base; reflexivity].
    unfold bind at 1. unfold start_nla. unfold bind at 1.
    pose proof (start_ssl_shape s3 E3 I3) as Hs.
    destruct (start_ssl trusted tls_start c s3) as [o4 s4]. destruct o4 as [u|x| |]; try exact Hs.
    destruct Hs as (E4 & T4 & I4).
    pose proof (cssp_connect_shape s4 E4 T4 I4) as Hc.
    destruct (cssp_connect R s4) as [o5 s5]. destruct o5 as [u5|x| |]; exact Hc. }
  destruct (sel =? PROTOCOL_SSL) eqn:E1.
  { unfold bind at 1.
    pose proof (start_ssl_shape s3 E3 I3) as Hs.
    destruct (start_ssl trusted tls_start c s3) as [o4 s4]. destruct o4 as [u|x| |]; try exact Hs.
    destruct Hs as (E4 & T4 & I4). unfold ret. split; [exact T4|]. apply X_start with true. exact E4. }
  destruct (sel =? PROTOCOL_RDP) eqn:E0; [|apply X_base; reflexivity].
  exfalso. apply N.eqb_eq in E0. subst sel. unfold sel_requested in Ereq. cbn in Ereq. apply N.eqb_eq in Ereq.
  unfold PROTOCOL_RDP in Ereq. contradiction.
Qed.

Theorem run_shape : X (snd (run_connect p ber_parse trusted tls_start R c cs)).
Proof.
  unfold run_connect, connect.
  assert (H : C02_proofs.triple (fun s => s = mkSt cs [] false 0)
            (bind (x224_connect p trusted tls_start R c) (fun sel =>
             bind (mcs_connect p ber_parse c sel) (fun us =>
             bind (sec_connect p c (fst us) (global_id (snd us)) (rdp_v5 (snd us))) (fun _ => ret us))))
            (fun _ => G) X).
  { eapply C02_proofs.triple_bind with (Q := fun _ => G).
    - intros s ->. exact x224_shape.
    - intros sel. eapply C02_proofs.triple_bind; [apply mcs_connect_G|]. intros us.
      eapply C02_proofs.triple_bind; [apply sec_connect_G|]. intros ?. apply C02_proofs.triple_ret. auto. }
  specialize (H _ eq_refl).
  match goal with |- context [bind ?a ?b ?s] => destruct (bind a b s) as [o s'] end.
  cbn [snd]. destruct o; [destruct H as [_ H]|..]; exact H.
Qed.

End Shape.

(* ---- invariants "every message of the trace satisfies [ok]": the user id inside the Client Info message is one the
   PER reader can return; its channel is the I/O channel id of the server data the run returns ---- *)
Definition uid_ok (m : cmsg) : Prop := match m with INFO ini _ _ => ini + 1001 <= 65535 | _ => True end.
Definition no_info (m : cmsg) : Prop := match m with INFO _ _ _ => False | _ => True end.
Definition info_of (us : N * server_data) (m : cmsg) : Prop :=
  match m with INFO ini io _ => ini + 1001 = fst us /\ io = global_id (snd us) | _ => True end.

Lemma triple_weaken {A} (P : cst -> Prop) (m : M A) (Q Q' : A -> cst -> Prop) (E E' : cst -> Prop) :
  C02_proofs.triple P m Q E -> (forall a s, Q a s -> Q' a s) -> (forall s, E s -> E' s) -> C02_proofs.triple P m Q' E'.
Proof. intros H HQ HE s Hs. specialize (H s Hs). destruct (m s) as [o s']. destruct o; auto. Qed.

Lemma attach_user_uid input uid : read_attach_user_confirm input = Ok uid -> 1001 <= uid <= 65535.
Proof.
  unfold read_attach_user_confirm. destruct input as [|h request]; [discriminate|].
  destruct (negb (N.shiftr h 2 =? MCS_ATTACH_USER_CONFIRM)); [discriminate|].
  unfold per_read_u8. destruct request as [|b r]; cbn [obind]; [discriminate|]. cbn [fst snd].
  destruct (negb (b =? 0)); [discriminate|].
  unfold per_read_integer_16. destruct r as [|h1 [|l1 r1]]; cbn [obind]; try discriminate.
  destruct (of_be16 h1 l1 + 1001 <? 65536) eqn:E; cbn [obind fst]; [|discriminate].
  intros H. injection H as <-. apply N.ltb_lt in E. lia.
Qed.

Section Inv.
Variable ok : cmsg -> Prop.
Hypothesis ok_other : forall m, C02_proofs.is_info m = false -> ok m.

Definition I (s : cst) : Prop := forall m, In (RawWrite m) (s_ev s) \/ In (TlsWrite m) (s_ev s) -> ok m.

Lemma I_tr : C02_proofs.tr_only I.
Proof. intros s s' H1 H2 Hi m. rewrite H1. apply Hi. Qed.

Lemma I_app s l : I s -> (forall m, In (RawWrite m) l \/ In (TlsWrite m) l -> ok m) -> forall i t a, I (mkSt i (s_ev s ++ l) t a).
Proof.
  intros Hi Hl i t a m. cbn [s_ev]. intros [H|H]; apply in_app_or in H; destruct H as [H|H]; auto.
Qed.

Lemma I_emit m s : ok m -> I s -> I (snd (emit m s)).
Proof.
  intros Hm Hi. unfold emit. cbn [snd]. apply I_app; [exact Hi|].
  intros m' [H|H]; destruct (s_tls s); cbn in H; destruct H as [H|[]]; inversion H; subst; exact Hm.
Qed.

Lemma triple_emit_I m : ok m -> C02_proofs.triple I (emit m) (fun _ => I) I.
Proof. intros Hm s Hs. pose proof (I_emit m s Hm Hs) as H. unfold emit in *. cbn [snd] in H. exact H. Qed.

Lemma triple_keeps_I {A} (m : M A) : C02_proofs.keeps m -> C02_proofs.triple I m (fun _ => I) I.
Proof. intros Hk. apply C02_proofs.triple_keeps; [exact I_tr|exact Hk]. Qed.

(* a pure step whose value is remembered *)
Lemma triple_bind_lift {A B} (r : outcome A * N) (k : A -> M B) (Q : B -> cst -> Prop) :
  (forall v, fst r = Ok v -> C02_proofs.triple I (k v) Q I) -> C02_proofs.triple I (bind (lift r) k) Q I.
Proof.
  intros Hk s Hs. unfold bind, lift.
  assert (Hs' : I (mkSt (s_in s) (s_ev s) (s_tls s) (N.max (s_alloc s) (snd r)))) by (eapply I_tr; [| |exact Hs]; reflexivity).
  destruct (fst r) as [v|x| |] eqn:Er; auto. apply (Hk v eq_refl _ Hs').
Qed.

Variable p : prof.
Variable ber_parse : bytes -> outcome bytes.
Variable trusted : bool.
Variable tls_start : stream -> outcome stream.
Variable R : stream -> nat * outcome stream.
Variable c : config.

Lemma start_ssl_I : C02_proofs.triple I (start_ssl trusted tls_start c) (fun _ => I) I.
Proof.
  assert (Hl : forall b m, In (RawWrite m) [TlsStart b] \/ In (TlsWrite m) [TlsStart b] -> ok m).
  { intros b m [[H|[]]|[H|[]]]; discriminate. }
  intros s Hs. unfold start_ssl, log_ev.
  destruct (tls_handshake (check_cert c) trusted); [|apply I_app; [exact Hs|apply Hl]].
  destruct (tls_start (s_in s)); (apply I_app; [exact Hs|apply Hl]).
Qed.

Lemma emit_n_I m : ok m -> forall n s, I s -> I (snd (emit_n m n s)).
Proof.
  intros Hm. induction n as [|n IH]; intros s Hs; [exact Hs|].
  cbn [emit_n]. unfold bind. pose proof (I_emit m s Hm Hs) as H. unfold emit in *. cbn [snd] in *. apply IH. exact H.
Qed.

Lemma cssp_connect_I : C02_proofs.triple I (cssp_connect R) (fun _ => I) I.
Proof.
  intros s Hs. unfold cssp_connect. pose proof (emit_n_I CSSP (ok_other CSSP eq_refl) (fst (R (s_in s))) s Hs) as H.
  destruct (emit_n CSSP (fst (R (s_in s))) s) as [o s1]. cbn [snd] in H.
  destruct (snd (R (s_in s))); auto.
Qed.

Lemma x224_connect_I : C02_proofs.triple I (x224_connect p trusted tls_start R c) (fun _ => I) I.
Proof.
  unfold x224_connect.
  eapply C02_proofs.triple_bind; [apply triple_emit_I; apply ok_other; reflexivity|]. intros ?.
  eapply C02_proofs.triple_bind; [apply triple_keeps_I; apply C02_proofs.keeps_recv_tpkt|]. intros pl.
  eapply C02_proofs.triple_bind; [apply triple_keeps_I; apply C02_proofs.keeps_lift|]. intros b.
  eapply C02_proofs.triple_bind; [apply triple_keeps_I; apply C02_proofs.keeps_lift|]. intros sel.
  destruct (negb (sel_requested (offered c) sel)); [apply C02_proofs.triple_fail; auto|].
  destruct (sel =? PROTOCOL_HYBRID).
  { destruct (has_auth c); [|apply C02_proofs.triple_fail; auto].
    eapply C02_proofs.triple_bind with (Q := fun _ => I); [|intros ?; apply C02_proofs.triple_ret; auto].
    unfold start_nla. eapply C02_proofs.triple_bind; [apply start_ssl_I|]. intros ?. apply cssp_connect_I. }
  destruct (sel =? PROTOCOL_SSL).
  { eapply C02_proofs.triple_bind; [apply start_ssl_I|]. intros ?. apply C02_proofs.triple_ret. auto. }
  destruct (sel =? PROTOCOL_RDP); [apply C02_proofs.triple_ret; auto|apply C02_proofs.triple_fail; auto].
Qed.

Lemma join_channels_I uid : forall chans, C02_proofs.triple I (join_channels uid chans) (fun _ => I) I.
Proof.
  induction chans as [|ch tl IH]; cbn [join_channels]; [apply C02_proofs.triple_ret; auto|].
  eapply C02_proofs.triple_bind; [apply triple_emit_I; apply ok_other; reflexivity|]. intros ?.
  eapply C02_proofs.triple_bind; [apply triple_keeps_I; apply C02_proofs.keeps_recv_x224|]. intros pl.
  eapply C02_proofs.triple_bind; [apply triple_keeps_I; apply C02_proofs.keeps_lift|]. intros b.
  eapply C02_proofs.triple_bind; [apply triple_keeps_I; apply C02_proofs.keeps_lift|]. intros ?. exact IH.
Qed.

Lemma mcs_connect_I sel : C02_proofs.triple I (mcs_connect p ber_parse c sel) (fun us s => I s /\ 1001 <= fst us <= 65535) I.
Proof.
  unfold mcs_connect.
  eapply C02_proofs.triple_bind; [apply triple_emit_I; apply ok_other; reflexivity|]. intros ?.
  eapply C02_proofs.triple_bind; [apply triple_keeps_I; apply C02_proofs.keeps_recv_x224|]. intros pl.
  eapply C02_proofs.triple_bind; [apply triple_keeps_I; apply C02_proofs.keeps_lift|]. intros b.
  eapply C02_proofs.triple_bind; [apply triple_keeps_I; apply C02_proofs.keeps_lift|]. intros sd.
  eapply C02_proofs.triple_bind; [apply triple_emit_I; apply ok_other; reflexivity|]. intros ?.
  eapply C02_proofs.triple_bind; [apply triple_emit_I; apply ok_other; reflexivity|]. intros ?.
  eapply C02_proofs.triple_bind; [apply triple_keeps_I; apply C02_proofs.keeps_recv_x224|]. intros pl2.
  eapply C02_proofs.triple_bind; [apply triple_keeps_I; apply C02_proofs.keeps_lift|]. intros b2.
  apply triple_bind_lift. intros uid Eu. cbn [fst] in Eu. apply attach_user_uid in Eu.
  eapply C02_proofs.triple_bind; [apply join_channels_I|]. intros ?.
  apply C02_proofs.triple_ret. intros s Hs. cbn [fst]. auto.
Qed.

Lemma sec_connect_I uid io v5 : ok (INFO (uid - 1001) io (info_len c v5)) -> C02_proofs.triple I (sec_connect p c uid io v5) (fun _ => I) I.
Proof.
  intros Hu. unfold sec_connect.
  eapply C02_proofs.triple_bind; [apply triple_emit_I; exact Hu|]. intros ?.
  eapply C02_proofs.triple_bind; [apply triple_keeps_I; apply C02_proofs.keeps_recv_x224|]. intros pl.
  eapply C02_proofs.triple_bind; [apply triple_keeps_I; apply C02_proofs.keeps_lift|]. intros pl'.
  eapply C02_proofs.triple_bind; [apply triple_keeps_I; apply C02_proofs.keeps_lift|]. intros b.
  apply triple_keeps_I. apply C02_proofs.keeps_lift.
Qed.

End Inv.

Section Uid.
Variable p : prof.
Variable ber_parse : bytes -> outcome bytes.
Variable trusted : bool.
Variable tls_start : stream -> outcome stream.
Variable R : stream -> nat * outcome stream.
Variable c : config.

Lemma uid_ok_other m : C02_proofs.is_info m = false -> uid_ok m.
Proof. destruct m; cbn; intros; try discriminate; exact Logic.I. Qed.
Lemma no_info_other m : C02_proofs.is_info m = false -> no_info m.
Proof. destruct m; cbn; intros; try discriminate; exact Logic.I. Qed.
Lemma info_of_other us m : C02_proofs.is_info m = false -> info_of us m.
Proof. destruct m; cbn; intros; try discriminate; exact Logic.I. Qed.

Theorem run_uid cs : I uid_ok (snd (run_connect p ber_parse trusted tls_start R c cs)).
Proof.
  unfold run_connect, connect.
  assert (H : C02_proofs.triple (I uid_ok)
            (bind (x224_connect p trusted tls_start R c) (fun sel =>
             bind (mcs_connect p ber_parse c sel) (fun us =>
             bind (sec_connect p c (fst us) (global_id (snd us)) (rdp_v5 (snd us))) (fun _ => ret us))))
            (fun _ => I uid_ok) (I uid_ok)).
  { eapply C02_proofs.triple_bind; [apply x224_connect_I; exact uid_ok_other|]. intros sel.
    eapply C02_proofs.triple_bind; [apply mcs_connect_I; exact uid_ok_other|]. intros us.
    intros s [Hs Hu]. revert s Hs.
    change (C02_proofs.triple (I uid_ok) (bind (sec_connect p c (fst us) (global_id (snd us)) (rdp_v5 (snd us))) (fun _ => ret us)) (fun _ => I uid_ok) (I uid_ok)).
    eapply C02_proofs.triple_bind; [apply sec_connect_I; cbn [uid_ok]; lia|]. intros ?. apply C02_proofs.triple_ret. auto. }
  assert (H0 : I uid_ok (mkSt cs [] false 0)) by (intros m [[]|[]]).
  specialize (H _ H0).
  match goal with |- context [bind ?a ?b ?s] => destruct (bind a b s) as [o s'] end.
  cbn [snd]. destruct o; exact H.
Qed.

(* when the run returns (user id, server data): every Client Info message of the trace was sent by that user on the
   I/O channel of that server data *)
Theorem run_info_channel cs us :
  fst (run_connect p ber_parse trusted tls_start R c cs) = Ok us ->
  I (info_of us) (snd (run_connect p ber_parse trusted tls_start R c cs)).
Proof.
  unfold run_connect, connect.
  assert (H : C02_proofs.triple (I no_info)
            (bind (x224_connect p trusted tls_start R c) (fun sel =>
             bind (mcs_connect p ber_parse c sel) (fun us =>
             bind (sec_connect p c (fst us) (global_id (snd us)) (rdp_v5 (snd us))) (fun _ => ret us))))
            (fun us s => I (info_of us) s) (fun _ => True)).
  { eapply C02_proofs.triple_bind with (Q := fun _ => I no_info).
    { eapply triple_weaken; [apply x224_connect_I; exact no_info_other|auto|auto]. }
    intros sel. eapply C02_proofs.triple_bind with (Q := fun us s => I no_info s /\ 1001 <= fst us <= 65535).
    { eapply triple_weaken; [apply mcs_connect_I; exact no_info_other|auto|auto]. }
    intros us0 s [Hs Hu]. revert s Hs.
    change (C02_proofs.triple (I no_info) (bind (sec_connect p c (fst us0) (global_id (snd us0)) (rdp_v5 (snd us0))) (fun _ => ret us0))
                              (fun us s => I (info_of us) s) (fun _ => True)).
    eapply C02_proofs.triple_pre with (P := I (info_of us0)).
    { intros s Hs m Hm. specialize (Hs m Hm). destruct m; cbn in *; try exact Logic.I. contradiction. }
    eapply C02_proofs.triple_bind with (Q := fun _ => I (info_of us0)).
    { eapply triple_weaken; [apply sec_connect_I; cbn; split; [lia|reflexivity]|auto|auto]. }
    intros ?. apply C02_proofs.triple_ret. auto. }
  assert (H0 : I no_info (mkSt cs [] false 0)) by (intros m [[]|[]]).
  specialize (H _ H0).
  match goal with |- context [bind ?a ?b ?s] => destruct (bind a b s) as [o s'] end.
  cbn [fst snd]. intros ->. exact H.
Qed.

End Uid.

(* ================================================================== (D) the model of Connector::connect *)
(* the connection request on the wire: TPKT, X.224 CR, RDP_NEG_REQ { flags, protocols } *)
Definition cr_frame (offered flag : N) : bytes := [3; 0; 0; 19; 14; 224; 0; 0; 0; 0; 0; 1; flag; 8; 0; offered; 0; 0; 0].

(* what is sealed into TSPasswordCreds: (domain, user, password) as encoded for the negotiated character set *)
Definition sc_ts_creds (c : sconfig) (is_unicode : bool) : bytes * bytes * bytes :=
  if sc_restricted c || sc_blank c then ([], [], [])
  else (encode_name is_unicode (sc_domain c), encode_name is_unicode (sc_user c),
        encode_name is_unicode (match sc_hash c with Some _ => [] | None => sc_password c end)).

(* the emitter configuration WITHOUT any credential: what the other PDUs are made from *)
Definition public_cfg (c : sconfig) : ClientPdus.config :=
  ClientPdus.mkCfg (sc_offered c) (sc_restricted c) (sc_autologon c) (sc_width c) (sc_height c) (sc_layout c) (sc_name c) [] [] [].

(* the NTLM state reduced to what the AUTHENTICATE token may depend on: account name and response key *)
Definition key_state (dom user : ustring) (key : bytes) : ntlm := mkNtlm dom user [] key key.

Lemma emit_cr_frame p c : ClientPdus.emit_cr p (cr_cfg (sc_offered c) (sc_neg_flag c)) = Ok (cr_frame (sc_offered c) (sc_neg_flag c)).
Proof. unfold sc_offered, sc_neg_flag. destruct p, (sc_nla c), (sc_restricted c); vm_compute; reflexivity. Qed.

Lemma cr_frame_parses c :
  StrictPdu.strict_parse (cr_frame (sc_offered c) (sc_neg_flag c)) = Some (StrictPdu.PConnectionRequest (sc_neg_flag c) (sc_offered c)).
Proof. unfold sc_offered, sc_neg_flag. destruct (sc_nla c), (sc_restricted c); vm_compute; reflexivity. Qed.

Lemma written_cons_ok r b tl : r_bytes r = Ok b -> written (r :: tl) = (bev_of r b :: fst (written tl), snd (written tl)).
Proof. intros H. cbn [written]. rewrite H. destruct (written tl). reflexivity. Qed.

Lemma raw_none p c e cssp : forall tl k, raws tl = [] -> raw_writes (fst (written (render p c e cssp k tl))) = [].
Proof.
  induction tl as [|x tl IH]; intros k Hr; [reflexivity|].
  destruct x as [m|ok|m]; [discriminate| |].
  - cbn [render]. rewrite (written_cons_ok (mkRev (TlsStart ok) KNone (Ok [])) [] _ eq_refl). cbn [fst bev_of r_ev raw_writes]. apply IH. exact Hr.
  - cbn [render]. cbn [written r_bytes].
    destruct (snd (render_msg p c e cssp k m)) as [b|x| |]; try reflexivity.
    destruct (written (render p c e cssp (if is_cssp m then S k else k) tl)) as [evs f] eqn:Ew.
    cbn [fst bev_of r_ev raw_writes]. specialize (IH (if is_cssp m then S k else k) Hr). rewrite Ew in IH. exact IH.
Qed.

(* ---- internal consistency of the rendering: every CredSSP event of the trace gets one of cssp_connect's messages ---- *)
Lemma render_cssp_total p c e cssp : forall l k r,
  (k + ncssp l <= List.length cssp)%nat -> In r (render p c e cssp k l) ->
  (r_ev r = RawWrite CSSP \/ r_ev r = TlsWrite CSSP) -> exists b, r_bytes r = Ok b.
Proof.
  induction l as [|x tl IH]; intros k r Hk Hin Hev; [contradiction|].
  assert (Hc : forall m, ncssp ((if true then RawWrite m else TlsWrite m) :: tl) = ((if is_cssp m then 1 else 0) + ncssp tl)%nat).
  { intros m. unfold ncssp. cbn. destruct (is_cssp m); reflexivity. }
  destruct x as [m|ok|m]; cbn [render] in Hin; destruct Hin as [<-|Hin].
  - cbn [r_ev r_bytes] in *. destruct Hev as [Hev|Hev]; [|discriminate]. injection Hev as ->. cbn [render_msg snd].
    unfold ncssp in Hk. cbn in Hk. destruct (nth_error cssp k) as [b|] eqn:En; [eauto|]. apply nth_error_None in En. lia.
  - apply (IH (if is_cssp m then S k else k)); auto. unfold ncssp in *. cbn in Hk. destruct (is_cssp m); cbn in Hk; lia.
  - cbn in Hev. destruct Hev; discriminate.
  - apply (IH k); auto.
  - cbn [r_ev r_bytes] in *. destruct Hev as [Hev|Hev]; [discriminate|]. injection Hev as ->. cbn [render_msg snd].
    unfold ncssp in Hk. cbn in Hk. destruct (nth_error cssp k) as [b|] eqn:En; [eauto|]. apply nth_error_None in En. lia.
  - apply (IH (if is_cssp m then S k else k)); auto. unfold ncssp in *. cbn in Hk. destruct (is_cssp m); cbn in Hk; lia.
Qed.

Lemma nth1_firstn2 {A} (l : list A) : nth_error (firstn 2 l) 1 = nth_error l 1.
Proof. destruct l as [|a [|b l]]; reflexivity. Qed.

Section Model.
Variable md4 md5 : bytes -> bytes.
Variable hmac : bytes -> bytes -> bytes.
Variable uppercase : list N -> list N.
Variable p : prof.
Variable crq : bytes -> bytes.
Variable cau : bytes -> bytes -> bytes.
Variable ccr : bytes -> bytes -> bytes -> bytes.
Variable cai : bytes -> bytes.
Variable rsc : bytes -> outcome bytes.
Variable rv : bytes -> outcome bytes.
Variable ber_parse : bytes -> outcome bytes.
Variable tls_start : stream -> outcome stream.

Notation run := (secrets_run md4 md5 hmac uppercase p crq cau ccr cai rsc rv ber_parse tls_start).
Notation trace c e cs := (s_ev (snd (sc_trace md4 md5 hmac uppercase p crq cau ccr cai rsc rv ber_parse tls_start c e cs))).
Notation cssp_list c e cs := (snd (sc_cssp md4 md5 hmac uppercase p crq cau ccr cai rsc rv c e (cssp_input tls_start cs))).
Notation msgs st ra e input := (snd (cssp_of md5 hmac p crq cau ccr cai rsc rv st ra e input)).
Notation auth c := (sc_auth md4 hmac uppercase c).
Notation key c := (sc_key md4 hmac uppercase c).

(* ---- the NTLM state the Connector builds ---- *)
Lemma auth_domain c : n_domain (auth c) = sc_domain c.
Proof. unfold sc_auth. destruct (sc_hash c); reflexivity. Qed.
Lemma auth_user c : n_user (auth c) = sc_user c.
Proof. unfold sc_auth. destruct (sc_hash c); reflexivity. Qed.
Lemma auth_key_lm c : n_key_lm (auth c) = key c.
Proof. unfold sc_key, sc_auth. destruct (sc_hash c); reflexivity. Qed.
Lemma auth_password c : n_password (auth c) = match sc_hash c with Some _ => [] | None => sc_password c end.
Proof. unfold sc_auth. destruct (sc_hash c); reflexivity. Qed.

Lemma key_password_mode c : sc_hash c = None -> key c = ntowfv2 md4 hmac uppercase (sc_password c) (sc_user c) (sc_domain c).
Proof. intros H. unfold sc_key, sc_auth. rewrite H. reflexivity. Qed.
Lemma key_hash_mode c h : sc_hash c = Some h -> key c = ntowfv2_hash hmac uppercase h (sc_user c) (sc_domain c).
Proof. intros H. unfold sc_key, sc_auth. rewrite H. reflexivity. Qed.
(* password mode and hash mode coincide when the hash is MD4 of the UTF-16 password *)
Lemma key_modes_coincide c pw pw' :
  key (set_secret c pw None) = key (set_secret c pw' (Some (md4 (unicode pw)))).
Proof. reflexivity. Qed.

Lemma ts_creds_auth c u : ts_creds (auth c) (sc_cssp_restricted c) u = sc_ts_creds c u.
Proof. unfold ts_creds, sc_ts_creds, sc_cssp_restricted. rewrite auth_domain, auth_user, auth_password. reflexivity. Qed.

(* ---- shape of the event trace of the sequence model ---- *)
Lemma trace_shape c e cs :
  exists tl, trace c e cs = RawWrite (CR (sc_offered c) (sc_neg_flag c)) :: tl /\ raws tl = [] /\
             (ncssp tl = 0%nat \/ ncssp tl = List.length (cssp_list c e cs)).
Proof.
  unfold sc_trace.
  assert (Hoff : offered (conn_cfg c e) <> 0) by (cbn; unfold sc_offered; destruct (sc_nla c); discriminate).
  destruct (run_shape p ber_parse (e_trusted e) tls_start (sc_cssp_run md4 md5 hmac uppercase p crq cau ccr cai rsc rv c e)
                      (conn_cfg c e) cs Hoff) as (tl & E & Hr & Hn).
  exists tl. split; [exact E|]. split; [exact Hr|exact Hn].
Qed.

(* the CredSSP events of the trace are as many as cssp_connect's messages (or none), each rendered with its message *)
Theorem rendered_cssp_total c e cs r :
  In r (rendered md4 md5 hmac uppercase p crq cau ccr cai rsc rv ber_parse tls_start c e cs) ->
  (r_ev r = RawWrite CSSP \/ r_ev r = TlsWrite CSSP) -> exists b, r_bytes r = Ok b.
Proof.
  unfold rendered. destruct (trace_shape c e cs) as (tl & E & _ & Hn). rewrite E. apply render_cssp_total.
  change (ncssp (RawWrite (CR (sc_offered c) (sc_neg_flag c)) :: tl)) with (ncssp tl).
  destruct Hn as [->| ->]; lia.
Qed.

(* ---- the output starts with the connection request, the only thing ever written on the raw transport ---- *)
Lemma out_head c e cs :
  exists rest, snd (run c e cs) = BRaw KCr (cr_frame (sc_offered c) (sc_neg_flag c)) :: rest /\ raw_writes rest = [].
Proof.
  unfold secrets_run, rendered. cbn [snd].
  destruct (trace_shape c e cs) as (tl & E & Hr & _). rewrite E.
  cbn [render is_cssp render_msg fst snd]. erewrite written_cons_ok by (cbn [r_bytes]; apply emit_cr_frame). cbn [fst bev_of r_ev r_kind].
  eexists. split; [reflexivity|]. apply raw_none. exact Hr.
Qed.

Theorem raw_is_request c e cs : raw_writes (snd (run c e cs)) = [cr_frame (sc_offered c) (sc_neg_flag c)].
Proof. destruct (out_head c e cs) as (rest & E & Hr). rewrite E. cbn [raw_writes]. rewrite Hr. reflexivity. Qed.

Theorem raw_independent c e cs pw h : raw_writes (snd (run c e cs)) = raw_writes (snd (run (set_secret c pw h) e cs)).
Proof. rewrite !raw_is_request. reflexivity. Qed.

(* a raw write anywhere in the output is that request, at the head *)
Theorem raw_only_head c e cs pre k b post :
  snd (run c e cs) = pre ++ BRaw k b :: post -> pre = [] /\ k = KCr /\ b = cr_frame (sc_offered c) (sc_neg_flag c).
Proof.
  destruct (out_head c e cs) as (rest & E & Hr). rewrite E. intros H.
  destruct pre as [|x pre]; cbn [app] in H.
  - injection H as <- <- _. auto.
  - exfalso. injection H as _ ->. clear - Hr. induction pre as [|y pre IH]; cbn [app raw_writes] in Hr; [discriminate|].
    destruct y; try discriminate; auto.
Qed.

(* ---- every write inside TLS follows a completed handshake (C02's trace theorem, through the rendering) ---- *)
Theorem tls_after_start c e cs pre k b post :
  snd (run c e cs) = pre ++ BTls k b :: post -> In (BTlsStart true) pre.
Proof.
  unfold secrets_run. cbn [snd]. apply written_tls_after_start.
  unfold rendered. rewrite render_ev. intros pr x po Etr.
  assert (Hoff : offered (conn_cfg c e) <> 0) by (cbn; unfold sc_offered; destruct (sc_nla c); discriminate).
  pose proof (C02_proofs.no_cred_before_tls p ber_parse (e_trusted e) tls_start
               (sc_cssp_run md4 md5 hmac uppercase p crq cau ccr cai rsc rv c e) (conn_cfg c e) cs Hoff pr x po Etr) as H.
  destruct x; auto.
Qed.

(* ---- what a message of a given kind is ---- *)
Lemma out_kind c e cs k b :
  In b (tls_writes k (snd (run c e cs))) ->
  exists r, r_kind r = k /\ (exists m, r_ev r = TlsWrite m) /\ kind_spec p c (cssp_list c e cs) r b.
Proof.
  intros Hin. apply tls_writes_in in Hin. unfold secrets_run in Hin. cbn [snd] in Hin.
  destruct (written_in _ _ Hin) as (r & Hr & Hrel). destruct (rel_tls _ _ _ Hrel) as (Ek & Eb & Em).
  exists r. split; [exact Ek|]. split; [exact Em|]. unfold rendered in Hr. eapply render_kind; eauto.
Qed.

(* NEGOTIATE: a constant *)
Theorem nego_constant c e cs b :
  In b (tls_writes KNego (snd (run c e cs))) -> exists nego, create_negotiate_message p = Ok nego /\ b = crq nego.
Proof.
  intros H. destruct (out_kind c e cs _ _ H) as (r & Ek & _ & Hs). unfold kind_spec in Hs. rewrite Ek in Hs.
  unfold sc_cssp, cssp_of in Hs. eapply connect_first. exact Hs.
Qed.

(* AUTHENTICATE + pubKeyAuth: a function of (response key, domain, user) and of things that are not secrets *)
Theorem auth_via_key c e cs b :
  In b (tls_writes KAuth (snd (run c e cs))) ->
  nth_error (msgs (key_state (sc_domain c) (sc_user c) (key c)) false e (cssp_input tls_start cs)) 1 = Some b.
Proof.
  intros H. destruct (out_kind c e cs _ _ H) as (r & Ek & _ & Hs). unfold kind_spec in Hs. rewrite Ek in Hs.
  rewrite <- nth1_firstn2 in Hs. rewrite <- nth1_firstn2. rewrite <- Hs. f_equal.
  unfold sc_cssp, cssp_of. symmetry. apply connect_first_two; cbn [key_state n_domain n_user n_key_nt n_key_lm].
  - apply auth_domain. - apply auth_user. - reflexivity. - apply auth_key_lm.
Qed.

(* authInfo: the sealed TSCredentials made of [sc_ts_creds] *)
Theorem authinfo_sealed_creds c e cs b :
  In b (tls_writes KAuthInfo (snd (run c e cs))) ->
  exists chal ctx1 ctx2 sealed,
    b = cai sealed /\
    (let '(d, u, pw) := sc_ts_creds c (challenge_is_unicode p chal) in gss_wrapex hmac ctx1 (ccr d u pw) = Ok (sealed, ctx2)).
Proof.
  intros H. destruct (out_kind c e cs _ _ H) as (r & Ek & _ & Hs). unfold kind_spec in Hs. rewrite Ek in Hs.
  unfold sc_cssp, cssp_of in Hs. apply connect_third in Hs. destruct Hs as (chal & c1 & c2 & sl & E1 & E2).
  exists chal, c1, c2, sl. split; [exact E1|]. rewrite ts_creds_auth in E2. exact E2.
Qed.

(* no fourth CredSSP message, nothing of an unknown kind *)
Theorem no_other_kind c e cs b : ~ In b (tls_writes KCsspExtra (snd (run c e cs))) /\ ~ In b (tls_writes KNone (snd (run c e cs))).
Proof.
  split; intros H; destruct (out_kind c e cs _ _ H) as (r & Ek & (m & Em) & Hs); unfold kind_spec in Hs; rewrite Ek in Hs.
  - destruct Hs as (k & Hk & Hn). assert (Hlt : (k < List.length (cssp_list c e cs))%nat) by (apply nth_error_Some; congruence).
    pose proof (connect_at_most_three md5 hmac p crq cau ccr cai rsc rv (auth c) (sc_cssp_restricted c) (e_cert e)
                  (cssp_input tls_start cs) (e_nonce e) (e_key e)) as H3.
    unfold sc_cssp, cssp_of in Hlt. lia.
  - destruct Hs as (ok & Eo). congruence.
Qed.

(* Client Info: the emitter applied to the credentials handed to sec::connect *)
Theorem info_is_emitter c e cs b :
  In b (tls_writes KInfo (snd (run c e cs))) ->
  exists uid ver io, ClientPdus.emit_client_info p false (pdu_cfg c) (ClientPdus.mkIds 0 ver uid 0 io) = Ok b.
Proof. intros H. destruct (out_kind c e cs _ _ H) as (r & Ek & _ & Hs). unfold kind_spec in Hs. rewrite Ek in Hs. exact Hs. Qed.

(* everything else is made from the public part of the configuration *)
Lemma ci_public c sel : ClientPdus.emit_connect_initial p (pdu_cfg c) sel = ClientPdus.emit_connect_initial p (public_cfg c) sel.
Proof. unfold pdu_cfg, public_cfg, sc_info_creds. destruct (sc_restricted c); reflexivity. Qed.

Theorem others_public c e cs b :
  (In b (tls_writes KCi (snd (run c e cs))) -> exists sel, ClientPdus.emit_connect_initial p (public_cfg c) sel = Ok b) /\
  (In b (tls_writes KEd (snd (run c e cs))) -> ClientPdus.emit_erect_domain = Ok b) /\
  (In b (tls_writes KAu (snd (run c e cs))) -> ClientPdus.emit_attach_user = Ok b) /\
  (In b (tls_writes KCj (snd (run c e cs))) -> exists uid ch, ClientPdus.emit_channel_join uid ch = Ok b).
Proof.
  repeat split; intros H; destruct (out_kind c e cs _ _ H) as (r & Ek & _ & Hs); unfold kind_spec in Hs; rewrite Ek in Hs; auto.
  destruct Hs as (sel & Hs). exists sel. rewrite <- ci_public. exact Hs.
Qed.

End Model.

(* ================================================================== (E) the Client Info PDU, decoded *)
(* the hypotheses of C04's strict-parser theorem for this PDU: Rust strings, a user id as the PER reader returns
   it, and user data that fits one PER length determinant *)
Definition strings_ok (c : sconfig) : Prop :=
  let '(d, u, pw) := sc_info_creds c in
  Forall ClientPdus.scalar d /\ Forall ClientPdus.scalar u /\ Forall ClientPdus.scalar pw /\
  222 + 2 * (units d + units u + units pw) <= 16383.
Definition info_ok (c : sconfig) (uid : N) : Prop := strings_ok c /\ 1001 <= uid <= 65535.

Definition info_flags (c : sconfig) : N := ClientPdus.INFO_FLAGS + (if sc_autologon c then ClientPdus.INFO_AUTOLOGON else 0).

(* the channel of the send-data-request is a 16-bit field: what travels is the id modulo 2^16 (the id itself whenever it
   was read from a 16-bit field of octets, as the server network data's MCSChannelId is) *)
Definition expected_client_info (c : sconfig) (uid io ver : N) : StrictPdu.pdu :=
  let '(d, u, pw) := sc_info_creds c in
  StrictPdu.PClientInfo uid (io mod 65536)
    (StrictPdu.mkInfo 0 (info_flags c) d u pw [] []
       (if ClientPdus.is_rdp_version_5_plus false ver then Some (StrictPdu.mkExt 2 [] [] 0 0) else None)).

Lemma be16_mod n : be16 (n mod 65536) = be16 n.
Proof.
  unfold be16, u16_hi, u16_lo.
  assert (H1 : (n mod 65536) mod 256 = n mod 256).
  { change 65536 with (256 * 256). rewrite N.mod_mul_r by lia. rewrite (N.mul_comm 256), N.mod_add by lia. apply N.mod_mod. lia. }
  assert (H2 : (n mod 65536 / 256) mod 256 = (n / 256) mod 256).
  { change 65536 with (256 * 256). rewrite N.mod_mul_r by lia.
    rewrite (N.mul_comm 256), N.div_add by lia. rewrite (N.div_small (n mod 256)) by (apply N.mod_lt; lia).
    rewrite N.add_0_l. apply N.mod_mod. lia. }
  rewrite H1, H2. reflexivity.
Qed.

Lemma emit_info_io_mod p sw cfg a v uid sh io :
  ClientPdus.emit_client_info p sw cfg (ClientPdus.mkIds a v uid sh (io mod 65536)) =
  ClientPdus.emit_client_info p sw cfg (ClientPdus.mkIds a v uid sh io).
Proof.
  unfold ClientPdus.emit_client_info. cbn [ClientPdus.i_uid ClientPdus.i_io ClientPdus.i_version].
  match goal with |- obind ?o _ = obind ?o _ => destruct o as [m|x| |] end; cbn [obind]; try reflexivity.
  unfold ClientPdus.mcs_send. rewrite be16_mod. reflexivity.
Qed.

Theorem client_info_decodes p c uid io ver b :
  info_ok c uid ->
  ClientPdus.emit_client_info p false (pdu_cfg c) (ClientPdus.mkIds 0 ver uid 0 io) = Ok b ->
  StrictPdu.strict_parse b = Some (expected_client_info c uid io ver).
Proof.
  intros (Hs & Huid) Hb. rewrite <- emit_info_io_mod in Hb.
  set (cfg := let '(d, u, pw) := sc_info_creds c in ClientPdus.mkCfg 0 false (sc_autologon c) 0 0 0 [] d u pw).
  assert (Hv : C04_proofs.valid_cfg false cfg (ClientPdus.mkIds 0 ver uid 0 (io mod 65536))).
  { unfold C04_proofs.valid_cfg, cfg, C04_proofs.info_size, C04_proofs.confirm_size, C04_proofs.PER_MAX.
    unfold strings_ok in Hs. destruct (sc_info_creds c) as [[d u] pw]. destruct Hs as (Hd & Hu & Hp & Hsz).
    cbn [ClientPdus.c_name ClientPdus.c_domain ClientPdus.c_user ClientPdus.c_password ClientPdus.c_width
      ClientPdus.c_height ClientPdus.c_layout ClientPdus.c_offered ClientPdus.i_selected ClientPdus.i_share ClientPdus.i_uid ClientPdus.i_version ClientPdus.i_io].
    unfold units in Hsz; repeat split; auto; try constructor; try lia;
    try (change (nlen (ClientPdus.utf8 [])) with 0; lia);
    try (apply N.mod_lt; lia);
    destruct (ClientPdus.is_rdp_version_5_plus false ver); lia. }
  destruct (C04_proofs.emit_client_info_parses p false cfg _ Hv) as (f & Ef & Epf).
  assert (Esame : ClientPdus.emit_client_info p false cfg (ClientPdus.mkIds 0 ver uid 0 (io mod 65536))
                  = ClientPdus.emit_client_info p false (pdu_cfg c) (ClientPdus.mkIds 0 ver uid 0 (io mod 65536))).
  { unfold cfg, pdu_cfg, sc_info_creds. destruct (sc_restricted c); reflexivity. }
  rewrite Esame, Hb in Ef. injection Ef as <-. rewrite Epf. f_equal.
  unfold C04_proofs.expected_info, expected_client_info, cfg, sc_info_creds, info_flags. destruct (sc_restricted c); reflexivity.
Qed.

(* ... for the Client Info events of a run: the event comes from an INFO message of the sequence model's trace, whose user
   id is always in range (Part C, run_uid) *)
Section ModelInfo.
Variable md4 md5 : bytes -> bytes.
Variable hmac : bytes -> bytes -> bytes.
Variable uppercase : list N -> list N.
Variable p : prof.
Variable crq : bytes -> bytes.
Variable cau : bytes -> bytes -> bytes.
Variable ccr : bytes -> bytes -> bytes -> bytes.
Variable cai : bytes -> bytes.
Variable rsc : bytes -> outcome bytes.
Variable rv : bytes -> outcome bytes.
Variable ber_parse : bytes -> outcome bytes.
Variable tls_start : stream -> outcome stream.
Notation run := (secrets_run md4 md5 hmac uppercase p crq cau ccr cai rsc rv ber_parse tls_start).
Notation trace c e cs := (s_ev (snd (sc_trace md4 md5 hmac uppercase p crq cau ccr cai rsc rv ber_parse tls_start c e cs))).

Theorem client_info_wire c e cs b :
  strings_ok c -> In b (tls_writes KInfo (snd (run c e cs))) ->
  exists ini io len ver, In (TlsWrite (INFO ini io len)) (trace c e cs) /\ ini + 1001 <= 65535 /\
                         StrictPdu.strict_parse b = Some (expected_client_info c (ini + 1001) io ver).
Proof.
  intros Hs Hin. apply tls_writes_in in Hin. unfold secrets_run in Hin. cbn [snd] in Hin.
  destruct (written_in _ _ Hin) as (r & Hr & Hrel). destruct (rel_tls _ _ _ Hrel) as (Ek & Eb & m & Em).
  unfold rendered in Hr. destruct (render_info _ _ _ _ _ _ _ Hr Ek) as (ini & ch & len & Hev & ver & Ev).
  assert (Htr : In (TlsWrite (INFO ini ch len)) (trace c e cs)).
  { destruct Hev as [Hev|Hev]; [congruence|]. rewrite <- Hev.
    match type of Hr with In _ (render _ _ _ ?cl _ _) => rewrite <- (render_ev p c e cl (trace c e cs) 0) end.
    apply in_map. exact Hr. }
  pose proof (run_uid p ber_parse (e_trusted e) tls_start (sc_cssp_run md4 md5 hmac uppercase p crq cau ccr cai rsc rv c e)
                      (conn_cfg c e) cs (INFO ini ch len) (or_intror Htr)) as Hu1. cbn [uid_ok] in Hu1.
  exists ini, ch, len, ver. split; [exact Htr|]. split; [exact Hu1|].
  apply (client_info_decodes p c (ini + 1001) ch ver b); [|rewrite <- Ev; exact Eb].
  split; [exact Hs|lia].
Qed.

End ModelInfo.

(* INFO_AUTOLOGON in the decoded flags exactly when auto_logon was requested *)
Lemma autologon_bit c : (N.land (info_flags c) 8 =? 8) = sc_autologon c.
Proof. unfold info_flags. destruct (sc_autologon c); reflexivity. Qed.

(* ================================================================== (G) the statements, over ALL external functions *)
(* everything the model takes from outside the crate, bundled *)
Record externals := mkX {
  x_md4 : bytes -> bytes; x_md5 : bytes -> bytes; x_hmac : bytes -> bytes -> bytes;   (* md4 / md-5 / hmac crates *)
  x_upper : list N -> list N;                                                         (* String::to_uppercase *)
  x_prof : prof;                                                                      (* debug / release arithmetic *)
  x_crq : bytes -> bytes; x_cau : bytes -> bytes -> bytes;                            (* yasna: TSRequest writers *)
  x_ccr : bytes -> bytes -> bytes -> bytes; x_cai : bytes -> bytes;                   (* yasna: TSCredentials, authInfo *)
  x_rsc : bytes -> outcome bytes; x_rv : bytes -> outcome bytes;                      (* yasna: TSRequest readers *)
  x_ber : bytes -> outcome bytes;                                                     (* yasna: MCS connect response *)
  x_tls : stream -> outcome stream                                                    (* native-tls handshake, protocol level *)
}.

(* every message Connector::connect writes, for a configuration, an environment and the server's bytes *)
Definition out (x : externals) (c : sconfig) (e : senv) (cs : stream) : list bev :=
  snd (secrets_run (x_md4 x) (x_md5 x) (x_hmac x) (x_upper x) (x_prof x) (x_crq x) (x_cau x) (x_ccr x) (x_cai x)
                   (x_rsc x) (x_rv x) (x_ber x) (x_tls x) c e cs).

(* ResponseKeyNT of the configured account: the only thing the NTLM exchange derives from the secret *)
Definition response_key (x : externals) (c : sconfig) : bytes := sc_key (x_md4 x) (x_hmac x) (x_upper x) c.

(* the second CredSSP message (AUTHENTICATE token + pubKeyAuth) as a function of a response key and the account name *)
Definition auth_message (x : externals) (dom user : ustring) (rkey : bytes) (e : senv) (input : stream) : option bytes :=
  nth_error (snd (cssp_of (x_md5 x) (x_hmac x) (x_prof x) (x_crq x) (x_cau x) (x_ccr x) (x_cai x) (x_rsc x) (x_rv x)
                          (key_state dom user rkey) false e input)) 1.

(* b is TSRequest { authInfo = SEAL(TSCredentials { TSPasswordCreds (d, u, pw) }) } *)
Definition sealed_creds (x : externals) (d u pw b : bytes) : Prop :=
  exists ctx1 ctx2 sealed, b = x_cai x sealed /\ gss_wrapex (x_hmac x) ctx1 (x_ccr x d u pw) = Ok (sealed, ctx2).

(* the event trace and the result of the sequence model (Connect.v) for that run *)
Definition trace_of (x : externals) (c : sconfig) (e : senv) (cs : stream) : list tev :=
  s_ev (snd (sc_trace (x_md4 x) (x_md5 x) (x_hmac x) (x_upper x) (x_prof x) (x_crq x) (x_cau x) (x_ccr x) (x_cai x)
                      (x_rsc x) (x_rv x) (x_ber x) (x_tls x) c e cs)).
Definition result_of (x : externals) (c : sconfig) (e : senv) (cs : stream) : outcome (N * server_data) :=
  fst (sc_trace (x_md4 x) (x_md5 x) (x_hmac x) (x_upper x) (x_prof x) (x_crq x) (x_cau x) (x_ccr x) (x_cai x)
                (x_rsc x) (x_rv x) (x_ber x) (x_tls x) c e cs).

(* the Client Info PDU decoded by the strict parser: it is the INFO message (initiator, I/O channel) of the trace [tr],
   written inside TLS; user id = initiator + 1001 in range; channel = that I/O channel id (as a 16-bit field carries it);
   fields (d, u, pw); flags of the configuration *)
Definition info_decodes (tr : list tev) (c : sconfig) (d u pw : ustring) (b : bytes) : Prop :=
  exists ini io len ver, In (TlsWrite (INFO ini io len)) tr /\ ini + 1001 <= 65535 /\
    StrictPdu.strict_parse b = Some (StrictPdu.PClientInfo (ini + 1001) (io mod 65536)
      (StrictPdu.mkInfo 0 (info_flags c) d u pw [] []
         (if ClientPdus.is_rdp_version_5_plus false ver then Some (StrictPdu.mkExt 2 [] [] 0 0) else None))).

Lemma info_decodes_creds x c e cs b :
  strings_ok c -> In b (tls_writes KInfo (out x c e cs)) ->
  let '(d, u, pw) := sc_info_creds c in info_decodes (trace_of x c e cs) c d u pw b.
Proof.
  intros Hs Hin. destruct (client_info_wire _ _ _ _ _ _ _ _ _ _ _ _ _ c e cs b Hs Hin) as (ini & io & len & ver & Ht & Hu & Hp).
  unfold expected_client_info in Hp. destruct (sc_info_creds c) as [[d u] pw]. exists ini, io, len, ver. auto.
Qed.

(* which channel that is: when the run returns (user id, server data), every INFO message of the trace carries that user
   id and the I/O channel id of that server data = MCSChannelId of the server network data (Connect.gcc_server_data) *)
Theorem stmt_info_channel x c e cs uid sd ini io len :
  result_of x c e cs = Ok (uid, sd) -> In (TlsWrite (INFO ini io len)) (trace_of x c e cs) ->
  ini + 1001 = uid /\ io = global_id sd.
Proof.
  intros Hr Hin.
  pose proof (run_info_channel (x_prof x) (x_ber x) (e_trusted e) (x_tls x)
                (sc_cssp_run (x_md4 x) (x_md5 x) (x_hmac x) (x_upper x) (x_prof x) (x_crq x) (x_cau x) (x_ccr x) (x_cai x) (x_rsc x) (x_rv x) c e)
                (conn_cfg c e) cs (uid, sd) Hr (INFO ini io len) (or_intror Hin)) as H.
  cbn [info_of fst snd] in H. exact H.
Qed.

Theorem stmt_raw_independent x c e cs :
  raw_writes (out x c e cs) = [cr_frame (sc_offered c) (sc_neg_flag c)] /\
  (forall pw h, raw_writes (out x (set_secret c pw h) e cs) = raw_writes (out x c e cs)) /\
  (forall b, In b (tls_writes KNego (out x c e cs)) -> exists nego, create_negotiate_message (x_prof x) = Ok nego /\ b = x_crq x nego).
Proof.
  split; [apply raw_is_request|]. split.
  - intros pw h. symmetry. apply raw_independent.
  - intros b. apply nego_constant.
Qed.

Theorem stmt_auth_via_key_only x c e cs :
  (forall b, In b (tls_writes KAuth (out x c e cs)) ->
             auth_message x (sc_domain c) (sc_user c) (response_key x c) e (cssp_input (x_tls x) cs) = Some b) /\
  (sc_hash c = None -> response_key x c = ntowfv2 (x_md4 x) (x_hmac x) (x_upper x) (sc_password c) (sc_user c) (sc_domain c)) /\
  (forall h, sc_hash c = Some h -> response_key x c = ntowfv2_hash (x_hmac x) (x_upper x) h (sc_user c) (sc_domain c)).
Proof.
  split; [intros b; apply auth_via_key|]. split; [apply key_password_mode|intros h; apply key_hash_mode].
Qed.

Theorem stmt_modes_coincide x c e cs pw pw' b b' :
  In b (tls_writes KAuth (out x (set_secret c pw None) e cs)) ->
  In b' (tls_writes KAuth (out x (set_secret c pw' (Some (x_md4 x (unicode pw)))) e cs)) ->
  b = b'.
Proof.
  intros H1 H2. apply auth_via_key in H1. apply auth_via_key in H2.
  cbn [set_secret sc_domain sc_user] in H1, H2.
  rewrite (key_modes_coincide (x_md4 x) (x_hmac x) (x_upper x) c pw pw') in H1. rewrite H1 in H2. injection H2. auto.
Qed.

Theorem stmt_where x c e cs :
  (forall pre k b post, out x c e cs = pre ++ BTls k b :: post -> In (BTlsStart true) pre) /\
  (forall pre k b post, out x c e cs = pre ++ BRaw k b :: post -> pre = [] /\ k = KCr /\ b = cr_frame (sc_offered c) (sc_neg_flag c)) /\
  (forall b, In b (tls_writes KAuthInfo (out x c e cs)) ->
     exists chal, let '(d, u, pw) := sc_ts_creds c (challenge_is_unicode (x_prof x) chal) in sealed_creds x d u pw b) /\
  (forall b, strings_ok c -> In b (tls_writes KInfo (out x c e cs)) -> let '(d, u, pw) := sc_info_creds c in info_decodes (trace_of x c e cs) c d u pw b).
Proof.
  split; [apply tls_after_start|]. split; [apply raw_only_head|]. split.
  - intros b H. apply authinfo_sealed_creds in H. destruct H as (chal & c1 & c2 & sl & E1 & E2). exists chal.
    destruct (sc_ts_creds c (challenge_is_unicode (x_prof x) chal)) as [[d u] pw]. exists c1, c2, sl. auto.
  - intros b. apply info_decodes_creds.
Qed.

Theorem stmt_elsewhere x c e cs b :
  (In b (tls_writes KCi (out x c e cs)) -> exists sel, ClientPdus.emit_connect_initial (x_prof x) (public_cfg c) sel = Ok b) /\
  (In b (tls_writes KEd (out x c e cs)) -> ClientPdus.emit_erect_domain = Ok b) /\
  (In b (tls_writes KAu (out x c e cs)) -> ClientPdus.emit_attach_user = Ok b) /\
  (In b (tls_writes KCj (out x c e cs)) -> exists uid ch, ClientPdus.emit_channel_join uid ch = Ok b) /\
  ~ In b (tls_writes KCsspExtra (out x c e cs)) /\ ~ In b (tls_writes KNone (out x c e cs)).
Proof.
  destruct (others_public (x_md4 x) (x_md5 x) (x_hmac x) (x_upper x) (x_prof x) (x_crq x) (x_cau x) (x_ccr x) (x_cai x)
                          (x_rsc x) (x_rv x) (x_ber x) (x_tls x) c e cs b) as (H1 & H2 & H3 & H4).
  destruct (no_other_kind (x_md4 x) (x_md5 x) (x_hmac x) (x_upper x) (x_prof x) (x_crq x) (x_cau x) (x_ccr x) (x_cai x)
                          (x_rsc x) (x_rv x) (x_ber x) (x_tls x) c e cs b) as (H5 & H6).
  repeat split; assumption.
Qed.

(* the connection request on the wire, decoded: the flag is RESTRICTED_ADMIN_MODE_REQUIRED exactly in that mode *)
Theorem stmt_request_flag c :
  StrictPdu.strict_parse (cr_frame (sc_offered c) (sc_neg_flag c)) = Some (StrictPdu.PConnectionRequest (sc_neg_flag c) (sc_offered c)) /\
  (sc_neg_flag c = 1 <-> sc_restricted c = true) /\ (sc_neg_flag c = 0 <-> sc_restricted c = false) /\
  (sc_offered c = 3 <-> sc_nla c = true) /\ (sc_offered c = 1 <-> sc_nla c = false).
Proof.
  split; [apply cr_frame_parses|]. unfold sc_neg_flag, sc_offered.
  destruct (sc_restricted c), (sc_nla c); repeat split; intros; try reflexivity; try discriminate.
Qed.

Theorem stmt_restricted x c e cs :
  sc_restricted c = true ->
  raw_writes (out x c e cs) = [cr_frame (sc_offered c) 1] /\
  StrictPdu.strict_parse (cr_frame (sc_offered c) 1) = Some (StrictPdu.PConnectionRequest 1 (sc_offered c)) /\
  (forall b, In b (tls_writes KAuthInfo (out x c e cs)) -> sealed_creds x [] [] [] b) /\
  (forall b, In b (tls_writes KInfo (out x c e cs)) -> info_decodes (trace_of x c e cs) c [] [] [] b).
Proof.
  intros Hr. assert (Hf : sc_neg_flag c = 1) by (unfold sc_neg_flag; rewrite Hr; reflexivity).
  split; [rewrite <- Hf; apply raw_is_request|]. split; [rewrite <- Hf at 1 2; apply cr_frame_parses|]. split.
  - intros b H. destruct (stmt_where x c e cs) as (_ & _ & Hw & _). destruct (Hw b H) as (chal & Hc).
    unfold sc_ts_creds in Hc. rewrite Hr in Hc. exact Hc.
  - intros b H. assert (Hs : strings_ok c).
    { unfold strings_ok, sc_info_creds. rewrite Hr. repeat split; try constructor. vm_compute. discriminate. }
    pose proof (info_decodes_creds x c e cs b Hs H) as Hd. unfold sc_info_creds in Hd. rewrite Hr in Hd. exact Hd.
Qed.

Theorem stmt_blank x c e cs :
  sc_blank c = true -> sc_restricted c = false ->
  raw_writes (out x c e cs) = [cr_frame (sc_offered c) 0] /\
  StrictPdu.strict_parse (cr_frame (sc_offered c) 0) = Some (StrictPdu.PConnectionRequest 0 (sc_offered c)) /\
  (forall b, In b (tls_writes KAuthInfo (out x c e cs)) -> sealed_creds x [] [] [] b) /\
  (forall b, strings_ok c -> In b (tls_writes KInfo (out x c e cs)) -> info_decodes (trace_of x c e cs) c (sc_domain c) (sc_user c) (sc_password c) b).
Proof.
  intros Hb Hr. assert (Hf : sc_neg_flag c = 0) by (unfold sc_neg_flag; rewrite Hr; reflexivity).
  split; [rewrite <- Hf; apply raw_is_request|]. split; [rewrite <- Hf at 1 2; apply cr_frame_parses|]. split.
  - intros b H. destruct (stmt_where x c e cs) as (_ & _ & Hw & _). destruct (Hw b H) as (chal & Hc).
    unfold sc_ts_creds in Hc. rewrite Hr, Hb in Hc. exact Hc.
  - intros b Hs H. pose proof (info_decodes_creds x c e cs b Hs H) as Hd. unfold sc_info_creds in Hd. rewrite Hr in Hd. exact Hd.
Qed.

(* neither restricted nor blank, password mode: both places carry (domain, user, password) *)
Theorem stmt_default_mode x c e cs :
  sc_restricted c = false -> sc_blank c = false -> sc_hash c = None ->
  raw_writes (out x c e cs) = [cr_frame (sc_offered c) 0] /\
  (forall b, In b (tls_writes KAuthInfo (out x c e cs)) ->
     exists u, sealed_creds x (encode_name u (sc_domain c)) (encode_name u (sc_user c)) (encode_name u (sc_password c)) b) /\
  (forall b, strings_ok c -> In b (tls_writes KInfo (out x c e cs)) -> info_decodes (trace_of x c e cs) c (sc_domain c) (sc_user c) (sc_password c) b).
Proof.
  intros Hr Hb Hh. assert (Hf : sc_neg_flag c = 0) by (unfold sc_neg_flag; rewrite Hr; reflexivity).
  split; [rewrite <- Hf; apply raw_is_request|]. split.
  - intros b H. destruct (stmt_where x c e cs) as (_ & _ & Hw & _). destruct (Hw b H) as (chal & Hc).
    unfold sc_ts_creds in Hc. rewrite Hr, Hb, Hh in Hc. eexists. exact Hc.
  - intros b Hs H. pose proof (info_decodes_creds x c e cs b Hs H) as Hd. unfold sc_info_creds in Hd. rewrite Hr in Hd. exact Hd.
Qed.

(* hash mode (neither restricted nor blank): TSPasswordCreds carries an EMPTY password, the Client Info carries the
   Connector's `password` field as configured; the hash itself only keys the response *)
Theorem stmt_hash_mode x c e cs h :
  sc_hash c = Some h -> sc_restricted c = false -> sc_blank c = false ->
  response_key x c = ntowfv2_hash (x_hmac x) (x_upper x) h (sc_user c) (sc_domain c) /\
  (forall b, In b (tls_writes KAuthInfo (out x c e cs)) ->
     exists u, sealed_creds x (encode_name u (sc_domain c)) (encode_name u (sc_user c)) [] b) /\
  (forall b, strings_ok c -> In b (tls_writes KInfo (out x c e cs)) -> info_decodes (trace_of x c e cs) c (sc_domain c) (sc_user c) (sc_password c) b).
Proof.
  intros Hh Hr Hb. split; [apply key_hash_mode; exact Hh|]. split.
  - intros b H. destruct (stmt_where x c e cs) as (_ & _ & Hw & _). destruct (Hw b H) as (chal & Hc).
    unfold sc_ts_creds in Hc. rewrite Hr, Hb, Hh in Hc. exists (challenge_is_unicode (x_prof x) chal).
    destruct (challenge_is_unicode (x_prof x) chal); exact Hc.
  - intros b Hs H. pose proof (info_decodes_creds x c e cs b Hs H) as Hd. unfold sc_info_creds in Hd. rewrite Hr in Hd. exact Hd.
Qed.

Theorem stmt_autologon x c e cs b :
  strings_ok c -> In b (tls_writes KInfo (out x c e cs)) ->
  exists uid ch i, StrictPdu.strict_parse b = Some (StrictPdu.PClientInfo uid ch i) /\
                   (N.land (StrictPdu.n_flags i) ClientPdus.INFO_AUTOLOGON =? ClientPdus.INFO_AUTOLOGON) = sc_autologon c.
Proof.
  intros Hs H. pose proof (info_decodes_creds x c e cs b Hs H) as Hd. destruct (sc_info_creds c) as [[d u] pw].
  destruct Hd as (ini & io & len & ver & _ & _ & Hp). eexists. eexists. eexists. split; [exact Hp|]. cbn [StrictPdu.n_flags]. apply autologon_bit.
Qed.

(* internal consistency of the model's rendering (sanity, not part of the property): every CredSSP event of the sequence
   model's trace is rendered with a message of cssp_connect, in order *)
Theorem stmt_rendering_consistent x c e cs r :
  In r (rendered (x_md4 x) (x_md5 x) (x_hmac x) (x_upper x) (x_prof x) (x_crq x) (x_cau x) (x_ccr x) (x_cai x)
                 (x_rsc x) (x_rv x) (x_ber x) (x_tls x) c e cs) ->
  (r_ev r = RawWrite CSSP \/ r_ev r = TlsWrite CSSP) -> exists b, r_bytes r = Ok b.
Proof. apply rendered_cssp_total. Qed.
