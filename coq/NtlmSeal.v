(* Model of the NTLMv2 security interface of src/nla/ntlm.rs:
     sign_key, seal_key, message_signature_ex, mac, Ntlm::build_security_interface,
     NTLMv2SecurityInterface::{new, gss_wrapex, gss_unwrapex}.
   Transliteration of what the Rust does: every slice is a checked access (Panic), the
   reads of gss_unwrapex fail exactly where Cursor reads fail (Err EIo / EInvalidConst).
   The hash functions are parameters of the model (Section variables): the theorems hold
   for any functions of the right output length; the executable instance used by the
   correspondence run plugs in the concrete Md5.md5 / Hmac.hmac_md5 (end of file). *)
From Coq Require Import String Ascii.
From RdpV Require Import Base Rc4 Md5 Hmac.

(* &v[a..b] *)
Definition slice (l : bytes) (a b : nat) : outcome bytes :=
  if Nat.leb a b && Nat.leb b (length l) then Ok (firstn (b - a) (skipn a l)) else Panic.

Fixpoint bytes_eqb (a b : bytes) : bool :=
  match a, b with
  | [], [] => true
  | x :: a', y :: b' => (x =? y) && bytes_eqb a' b'
  | _, _ => false
  end.

Definition cstr (s : string) : bytes := map N_of_ascii (list_ascii_of_string s).

(* b"session key to ... magic constant\0" *)
Definition magic_sign_c2s : bytes := cstr "session key to client-to-server signing key magic constant" ++ [0].
Definition magic_sign_s2c : bytes := cstr "session key to server-to-client signing key magic constant" ++ [0].
Definition magic_seal_c2s : bytes := cstr "session key to client-to-server sealing key magic constant" ++ [0].
Definition magic_seal_s2c : bytes := cstr "session key to server-to-client sealing key magic constant" ++ [0].

(* The security context: two cipher handles, two keys, the send counter (u32). *)
Record secif := mkSecif {
  s_enc : rc4; s_dec : rc4; s_sign : bytes; s_verify : bytes; s_seq : N }.

Section Seal.
Variable md5 : bytes -> bytes.
Variable hmac : bytes -> bytes -> bytes.

Definition sign_key (k : bytes) (is_client : bool) : bytes :=
  md5 (k ++ if is_client then magic_sign_c2s else magic_sign_s2c).
Definition seal_key (k : bytes) (is_client : bool) : bytes :=
  md5 (k ++ if is_client then magic_seal_c2s else magic_seal_s2c).

(* to_vec(&message_signature_ex(Some(sum), Some(seq))):
   Version = U32::LE(1) ; Checksum = sum[0..8].to_vec() ; SeqNum = U32::LE(seq) *)
Definition message_signature_ex (sum : bytes) (seq : N) : outcome bytes :=
  obind (slice sum 0 8) (fun c => Ok (le32 1 ++ c ++ le32 seq)).

(* mac(rc4_handle, signing_key, seq_num, data) *)
Definition mac (h : rc4) (sk : bytes) (seq : N) (data : bytes) : outcome (bytes * rc4) :=
  let signature := hmac sk (le32 seq ++ data) in
  obind (slice signature 0 8) (fun s8 =>
    let (enc_sig, h') := rc4_process h s8 in
    obind (message_signature_ex enc_sig seq) (fun m => Ok (m, h'))).

(* NTLMv2SecurityInterface::new(Rc4::new(ek), Rc4::new(dk), sk, vk) *)
Definition secif_new (ek dk sk vk : bytes) : outcome secif :=
  obind (rc4_new ek) (fun e =>
  obind (rc4_new dk) (fun d => Ok (mkSecif e d sk vk 0))).

(* Ntlm::build_security_interface with exported_session_key = k *)
Definition build_security_interface (k : bytes) : outcome secif :=
  secif_new (seal_key k true) (seal_key k false) (sign_key k true) (sign_key k false).

(* gss_wrapex: encrypt, sign with the SAME handle, count (wrapping, after the fix of the
   u32 `seq_num + 1` overflow), emit signature ++ ciphertext. *)
Definition gss_wrapex (st : secif) (data : bytes) : outcome (bytes * secif) :=
  let (encrypted, e1) := rc4_process (s_enc st) data in
  obind (mac e1 (s_sign st) (s_seq st) data) (fun '(signature, e2) =>
    Ok (signature ++ encrypted,
        mkSecif e2 (s_dec st) (s_sign st) (s_verify st) ((s_seq st + 1) mod 4294967296))).

(* gss_unwrapex.  The outcome and the context as it is left: the parse errors return
   before the decrypt handle is touched; a checksum failure leaves it advanced.
   (After Panic the context is unusable; the returned one is the input, by convention.) *)
Definition gss_unwrapex (st : secif) (data : bytes) : outcome bytes * secif :=
  match data with
  | v0 :: v1 :: v2 :: v3 :: r1 =>                       (* Version: Check::new(U32::LE(1)) *)
      if of_le32 v0 v1 v2 v3 =? 1 then
        if Nat.leb 8 (length r1) then                   (* Checksum: read_exact into vec![0; 8] *)
          let checksum := firstn 8 r1 in
          match skipn 8 r1 with
          | q0 :: q1 :: q2 :: q3 :: payload =>          (* SeqNum: U32::LE ; payload: read_to_end *)
              let (plaintext, d1) := rc4_process (s_dec st) payload in
              let (plain_checksum, d2) := rc4_process d1 checksum in
              let st' := mkSecif (s_enc st) d2 (s_sign st) (s_verify st) (s_seq st) in
              let seq_num := le32 (of_le32 q0 q1 q2 q3) in
              let computed := hmac (s_verify st) (seq_num ++ plaintext) in
              match slice computed 0 8 with
              | Ok c8 =>
                  if bytes_eqb plain_checksum c8 then (Ok plaintext, st')
                  else (Err EInvalidChecksum, st')
              | _ => (Panic, st)
              end
          | _ => (Err EIo, st)
          end
        else (Err EIo, st)
      else (Err EInvalidConst, st)
  | _ => (Err EIo, st)
  end.

(* any number of gss_wrapex calls on one context, the context threaded *)
Fixpoint wrap_all (st : secif) (ms : list bytes) : outcome (list bytes * secif) :=
  match ms with
  | [] => Ok ([], st)
  | m :: ms' =>
      obind (gss_wrapex st m) (fun '(t, st1) =>
      obind (wrap_all st1 ms') (fun '(ts, st2) => Ok (t :: ts, st2)))
  end.

End Seal.

(* ---- executable instance (concrete hashes), used by the extraction ---- *)
Definition sign_key_c := sign_key md5.
Definition seal_key_c := seal_key md5.
Definition mac_c := mac hmac_md5.
Definition build_c := build_security_interface md5.
Definition wrap_c := gss_wrapex hmac_md5.
Definition unwrap_c := gss_unwrapex hmac_md5.
Definition set_seq (st : secif) (n : N) : secif :=
  mkSecif (s_enc st) (s_dec st) (s_sign st) (s_verify st) n.
