(* C06: the active-session read path never panics or spins, whatever the bytes. *)
From RdpV Require Import Base Msg MsgInd MsgSafe LayoutsGlobal Link Tpkt Global.
Open Scope string_scope.
Open Scope list_scope.
Open Scope N_scope.

Definition nocrash {A} (o : outcome A) : Prop := o <> Panic /\ o <> Spin.

Lemma nocrash_ok {A} (a : A) : nocrash (Ok a). Proof. split; discriminate. Qed.
Lemma nocrash_err {A} e : nocrash (@Err A e). Proof. split; discriminate. Qed.
#[global] Hint Resolve nocrash_ok nocrash_err : core.

Lemma obind_nocrash {A B} (o : outcome A) (f : A -> outcome B) :
  nocrash o -> (forall a, o = Ok a -> nocrash (f a)) -> nocrash (obind o f).
Proof. intros [H1 H2] Hf. destruct o; cbn; auto; congruence. Qed.

(* ---- fields of a value that was read ---- *)
Definition has_field (name : string) (m : msg) : bool :=
  existsb (fun x => String.eqb (fst x) name) (fields_sig m).

Lemma get_field name m :
  bounded m -> has_field name m = true -> exists f, get m name = Some f /\ leaf_bounded f.
Proof.
  intros [_ Hb] Hh. unfold has_field in Hh. destruct m; cbn [fields_sig existsb] in Hh; try discriminate.
  unfold get. cbn [comp_of]. induction fs as [|[n v] tl IH]; cbn in Hh; [discriminate|].
  inversion Hb as [|? ? Hv Htl]; subst. cbn [lookup].
  destruct (String.eqb n name) eqn:E.
  - exists v. split; auto.
  - cbn [orb] in Hh. apply IH; auto.
Qed.

Lemma cast_num_nocrash w name m :
  bounded m -> has_field name m = true -> nocrash (cast_num w (get m name)).
Proof.
  intros Hb Hh. destruct (get_field name m Hb Hh) as [f [-> _]]. unfold cast_num.
  destruct (width_of f), (num_of f); auto. destruct (n =? w); auto.
Qed.

Lemma cast_bytes_ok name m :
  bounded m -> has_field name m = true ->
  match cast_bytes (get m name) with Ok b => wf_bytes b | Err _ => True | _ => False end.
Proof.
  intros Hb Hh. destruct (get_field name m Hb Hh) as [f [-> [_ Hf]]]. unfold cast_bytes.
  destruct (bytes_of f) eqn:E; auto.
Qed.

Lemma rd_post p t input :
  safe t = true -> wf_bytes input ->
  match rd p t input with
  | Ok m' => fields_sig m' = fields_sig t /\ bounded m'
  | Err _ => True
  | _ => False
  end.
Proof.
  intros Hs Hwf. unfold rd. pose proof (read_safe p t Hs input Hwf) as H. unfold post in H.
  destruct (read p t input); auto. tauto.
Qed.

Lemma has_field_sig name m t : fields_sig m = fields_sig t -> has_field name m = has_field name t.
Proof. intros H. unfold has_field. rewrite H. reflexivity. Qed.

(* ---- every layout on the session read path passes the checker ---- *)
Lemma safe_layouts :
  safe share_control_header_t = true /\ safe ts_demand_active_pdu = true /\ safe share_data_header_t = true /\
  safe ts_confirm_active_pdu_t = true /\ safe ts_deactivate_all_pdu = true /\
  safe (ts_synchronize_pdu 0) = true /\ safe (ts_control_pdu CTRLACTION_COOPERATE) = true /\
  safe ts_font_list_pdu = true /\ safe ts_font_map_pdu = true /\ safe ts_set_error_info_pdu = true /\
  safe ts_fp_update = true /\ safe ts_fp_update_bitmap = true /\ safe ts_colorpointerattribute = true /\
  safe empty_component = true /\
  safe (MArray [] (Some share_control_header_t)) = true /\ safe (MArray [] (Some ts_fp_update)) = true.
Proof. vm_compute. repeat split. Qed.

Lemma safe_capability_templates : forall t tm, capability_template t = Some tm -> safe tm = true.
Proof.
  intros t tm. unfold capability_template.
  repeat (match goal with |- context [if ?c then _ else _] => destruct c end;
          [intros H; inversion H; subst; vm_compute; reflexivity|]).
  discriminate.
Qed.

(* the largest buffer any session-path layout can ask for is a 16-bit length *)
Lemma alloc_layouts :
  forallb (fun m => alloc_bound m <=? 65535)
    [share_control_header_t; ts_demand_active_pdu; share_data_header_t; ts_confirm_active_pdu_t; ts_deactivate_all_pdu;
     ts_synchronize_pdu 0; ts_control_pdu CTRLACTION_COOPERATE; ts_font_list_pdu; ts_font_map_pdu; ts_set_error_info_pdu;
     ts_fp_update; ts_fp_update_bitmap; ts_colorpointerattribute; empty_component;
     MArray [] (Some share_control_header_t); MArray [] (Some ts_fp_update)] = true.
Proof. vm_compute. reflexivity. Qed.

Ltac layouts := pose proof safe_layouts as
  [Ls1 [Ls2 [Ls3 [Ls4 [Ls5 [Ls6 [Ls7 [Ls8 [Ls9 [Ls10 [Ls11 [Ls12 [Ls13 [Ls14 [Ls15 Ls16]]]]]]]]]]]]]]].

Section Glue.
Variable p : prof.

(* reading template t from a block that came out of a previous read *)
Lemma rd_nocrash t input : safe t = true -> wf_bytes input -> nocrash (rd p t input).
Proof.
  intros Hs Hwf. pose proof (rd_post p t input Hs Hwf) as H.
  destruct (rd p t input); auto; contradiction.
Qed.

(* body of field `name` of m parsed with template t *)
Lemma parse_field_nocrash {A} name m t (k : msg -> outcome A) :
  bounded m -> has_field name m = true -> safe t = true ->
  (forall m', fields_sig m' = fields_sig t -> bounded m' -> nocrash (k m')) ->
  nocrash (obind (cast_bytes (get m name)) (fun body => obind (rd p t body) k)).
Proof.
  intros Hb Hh Hs Hk. pose proof (cast_bytes_ok name m Hb Hh) as Hc.
  destruct (cast_bytes (get m name)) as [body| | |]; cbn [obind]; auto; try contradiction.
  pose proof (rd_post p t body Hs Hc) as Hr.
  destruct (rd p t body) as [m'| | |]; cbn [obind]; auto; try contradiction.
  destruct Hr as [H1 H2]. apply Hk; auto.
Qed.

Lemma pdu_from_control_nocrash c :
  bounded c -> fields_sig c = fields_sig share_control_header_t ->
  match pdu_from_control p c with
  | Ok (t, m) => bounded m /\
      ((t = PDUTYPE_DEMANDACTIVE /\ fields_sig m = fields_sig ts_demand_active_pdu) \/
       (t = PDUTYPE_DATA /\ fields_sig m = fields_sig share_data_header_t) \/
       (t = PDUTYPE_CONFIRMACTIVE /\ fields_sig m = fields_sig ts_confirm_active_pdu_t) \/
       (t = PDUTYPE_DEACTIVATEALL /\ fields_sig m = fields_sig ts_deactivate_all_pdu))
  | Err _ => True
  | _ => False
  end.
Proof.
  intros Hb Hsig. layouts. unfold pdu_from_control.
  assert (Hf1 : has_field "pduType" c = true) by (rewrite (has_field_sig _ _ _ Hsig); reflexivity).
  assert (Hf2 : has_field "pduMessage" c = true) by (rewrite (has_field_sig _ _ _ Hsig); reflexivity).
  destruct (cast_num_nocrash 16 "pduType" c Hb Hf1) as [Hn1 Hn2].
  destruct (cast_num 16 (get c "pduType")) as [pt| | |]; cbn [obind]; auto.
  destruct (pdutype_known pt); cbn [negb]; auto.
  pose proof (cast_bytes_ok "pduMessage" c Hb Hf2) as Hc.
  destruct (pt =? PDUTYPE_DEMANDACTIVE) eqn:E1; [apply N.eqb_eq in E1|].
  { destruct (cast_bytes (get c "pduMessage")) as [body| | |]; cbn [obind]; auto.
    pose proof (rd_post p ts_demand_active_pdu body Ls2 Hc) as Hr.
    destruct (rd p ts_demand_active_pdu body); cbn [obind]; auto. destruct Hr. split; auto. }
  destruct (pt =? PDUTYPE_DATA) eqn:E2; [apply N.eqb_eq in E2|].
  { destruct (cast_bytes (get c "pduMessage")) as [body| | |]; cbn [obind]; auto.
    pose proof (rd_post p share_data_header_t body Ls3 Hc) as Hr.
    destruct (rd p share_data_header_t body); cbn [obind]; auto. destruct Hr. split; auto. }
  destruct (pt =? PDUTYPE_CONFIRMACTIVE) eqn:E3; [apply N.eqb_eq in E3|].
  { destruct (cast_bytes (get c "pduMessage")) as [body| | |]; cbn [obind]; auto.
    pose proof (rd_post p ts_confirm_active_pdu_t body Ls4 Hc) as Hr.
    destruct (rd p ts_confirm_active_pdu_t body); cbn [obind]; auto. destruct Hr. split; auto 6. }
  destruct (pt =? PDUTYPE_DEACTIVATEALL) eqn:E4; [apply N.eqb_eq in E4|]; auto.
  { destruct (cast_bytes (get c "pduMessage")) as [body| | |]; cbn [obind]; auto.
    pose proof (rd_post p ts_deactivate_all_pdu body Ls5 Hc) as Hr.
    destruct (rd p ts_deactivate_all_pdu body); cbn [obind]; auto. destruct Hr. split; auto 6. }
Qed.

Lemma pdu_from_stream_nocrash input :
  wf_bytes input ->
  match pdu_from_stream p input with
  | Ok (t, m) => bounded m /\
      ((t = PDUTYPE_DEMANDACTIVE /\ fields_sig m = fields_sig ts_demand_active_pdu) \/
       (t = PDUTYPE_DATA /\ fields_sig m = fields_sig share_data_header_t) \/
       (t = PDUTYPE_CONFIRMACTIVE /\ fields_sig m = fields_sig ts_confirm_active_pdu_t) \/
       (t = PDUTYPE_DEACTIVATEALL /\ fields_sig m = fields_sig ts_deactivate_all_pdu))
  | Err _ => True
  | _ => False
  end.
Proof.
  intros Hwf. layouts. unfold pdu_from_stream.
  pose proof (rd_post p share_control_header_t input Ls1 Hwf) as Hr.
  destruct (rd p share_control_header_t input) as [c| | |]; cbn [obind]; auto.
  destruct Hr as [H1 H2]. apply pdu_from_control_nocrash; auto.
Qed.

Lemma data_pdu_from_pdu_nocrash m :
  bounded m -> fields_sig m = fields_sig share_data_header_t ->
  match data_pdu_from_pdu p m with
  | Ok (t2, d) => bounded d /\
      ((t2 = PDUTYPE2_SYNCHRONIZE /\ fields_sig d = fields_sig (ts_synchronize_pdu 0)) \/
       (t2 = PDUTYPE2_CONTROL /\ fields_sig d = fields_sig (ts_control_pdu CTRLACTION_COOPERATE)) \/
       (t2 = PDUTYPE2_FONTLIST /\ fields_sig d = fields_sig ts_font_list_pdu) \/
       (t2 = PDUTYPE2_FONTMAP /\ fields_sig d = fields_sig ts_font_map_pdu) \/
       (t2 = PDUTYPE2_SET_ERROR_INFO /\ fields_sig d = fields_sig ts_set_error_info_pdu))
  | Err _ => True
  | _ => False
  end.
Proof.
  intros Hb Hsig. layouts. unfold data_pdu_from_pdu.
  assert (Hf1 : has_field "pduType2" m = true) by (rewrite (has_field_sig _ _ _ Hsig); reflexivity).
  assert (Hf2 : has_field "payload" m = true) by (rewrite (has_field_sig _ _ _ Hsig); reflexivity).
  destruct (cast_num_nocrash 8 "pduType2" m Hb Hf1) as [Hn1 Hn2].
  destruct (cast_num 8 (get m "pduType2")) as [t2| | |]; cbn [obind]; auto.
  destruct (pdutype2_known t2); cbn [negb]; auto.
  pose proof (cast_bytes_ok "payload" m Hb Hf2) as Hc.
  destruct (t2 =? PDUTYPE2_SYNCHRONIZE) eqn:E1; [apply N.eqb_eq in E1|].
  { destruct (cast_bytes (get m "payload")) as [body| | |]; cbn [obind]; auto.
    pose proof (rd_post p (ts_synchronize_pdu 0) body Ls6 Hc) as Hr.
    destruct (rd p (ts_synchronize_pdu 0) body); cbn [obind]; auto. destruct Hr. split; auto. }
  destruct (t2 =? PDUTYPE2_CONTROL) eqn:E2; [apply N.eqb_eq in E2|].
  { destruct (cast_bytes (get m "payload")) as [body| | |]; cbn [obind]; auto.
    pose proof (rd_post p (ts_control_pdu CTRLACTION_COOPERATE) body Ls7 Hc) as Hr.
    destruct (rd p (ts_control_pdu CTRLACTION_COOPERATE) body); cbn [obind]; auto. destruct Hr. split; auto. }
  destruct (t2 =? PDUTYPE2_FONTLIST) eqn:E3; [apply N.eqb_eq in E3|].
  { destruct (cast_bytes (get m "payload")) as [body| | |]; cbn [obind]; auto.
    pose proof (rd_post p ts_font_list_pdu body Ls8 Hc) as Hr.
    destruct (rd p ts_font_list_pdu body); cbn [obind]; auto. destruct Hr. split; auto 6. }
  destruct (t2 =? PDUTYPE2_FONTMAP) eqn:E4; [apply N.eqb_eq in E4|].
  { destruct (cast_bytes (get m "payload")) as [body| | |]; cbn [obind]; auto.
    pose proof (rd_post p ts_font_map_pdu body Ls9 Hc) as Hr.
    destruct (rd p ts_font_map_pdu body); cbn [obind]; auto. destruct Hr. split; auto 7. }
  destruct (t2 =? PDUTYPE2_SET_ERROR_INFO) eqn:E5; [apply N.eqb_eq in E5|]; auto.
  { destruct (cast_bytes (get m "payload")) as [body| | |]; cbn [obind]; auto.
    pose proof (rd_post p ts_set_error_info_pdu body Ls10 Hc) as Hr.
    destruct (rd p ts_set_error_info_pdu body); cbn [obind]; auto. destruct Hr. split; auto 8. }
Qed.
End Glue.
