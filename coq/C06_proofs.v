(* C06: the active-session read path never panics or spins, whatever the bytes. *)
From RdpV Require Import Base Msg MsgInd MsgSafe MsgProv LayoutsGlobal Link Tpkt Global.
Open Scope string_scope.
Open Scope list_scope.
Open Scope N_scope.

Definition nocrash {A} (o : outcome A) : Prop := o <> Panic /\ o <> Spin.

Lemma nocrash_ok {A} (a : A) : nocrash (Ok a). Proof. split; discriminate. Qed.
Lemma nocrash_err {A} e : nocrash (@Err A e). Proof. split; discriminate. Qed.
#[global] Hint Resolve nocrash_ok nocrash_err : core.

Lemma obind_nocrash {A B} (o : outcome A) (f : A -> outcome B) :
  nocrash o -> (forall a, o = Ok a -> nocrash (f a)) -> nocrash (obind o f).
Proof. intros [H1 H2] Hf. destruct o; cbn; auto; congruence. Qed.

(* ---- fields of a value that was read ---- *)
Definition has_field (name : string) (m : msg) : bool :=
  existsb (fun x => String.eqb (fst x) name) (fields_sig m).

Lemma get_field name m :
  bounded m -> has_field name m = true -> exists f, get m name = Some f /\ leaf_bounded f.
Proof.
  intros [_ Hb] Hh. unfold has_field in Hh. destruct m; cbn [fields_sig existsb] in Hh; try discriminate.
  unfold get. cbn [comp_of]. induction fs as [|[n v] tl IH]; cbn in Hh; [discriminate|].
  inversion Hb as [|? ? Hv Htl]; subst. cbn [lookup].
  destruct (String.eqb n name) eqn:E.
  - exists v. split; auto.
  - cbn [orb] in Hh. apply IH; auto.
Qed.

Lemma cast_num_nocrash w name m :
  bounded m -> has_field name m = true -> nocrash (cast_num w (get m name)).
Proof.
  intros Hb Hh. destruct (get_field name m Hb Hh) as [f [-> _]]. unfold cast_num.
  destruct (width_of f), (num_of f); auto. destruct (n =? w); auto.
Qed.

Lemma cast_bytes_ok name m :
  bounded m -> has_field name m = true ->
  match cast_bytes (get m name) with Ok b => wf_bytes b | Err _ => True | _ => False end.
Proof.
  intros Hb Hh. destruct (get_field name m Hb Hh) as [f [-> [_ Hf]]]. unfold cast_bytes.
  destruct (bytes_of f) eqn:E; auto.
Qed.

Lemma rd_post p t input :
  safe t = true -> wf_bytes input ->
  match rd p t input with
  | Ok m' => fields_sig m' = fields_sig t /\ bounded m'
  | Err _ => True
  | _ => False
  end.
Proof.
  intros Hs Hwf. unfold rd. pose proof (read_safe p t Hs input Hwf) as H. unfold post in H.
  destruct (read p t input); auto. tauto.
Qed.

Lemma has_field_sig name m t : fields_sig m = fields_sig t -> has_field name m = has_field name t.
Proof. intros H. unfold has_field. rewrite H. reflexivity. Qed.

(* ---- every layout on the session read path passes the checker ---- *)
Lemma safe_layouts :
  safe share_control_header_t = true /\ safe ts_demand_active_pdu = true /\ safe share_data_header_t = true /\
  safe ts_confirm_active_pdu_t = true /\ safe ts_deactivate_all_pdu = true /\
  safe (ts_synchronize_pdu 0) = true /\ safe (ts_control_pdu CTRLACTION_COOPERATE) = true /\
  safe ts_font_list_pdu = true /\ safe ts_font_map_pdu = true /\ safe ts_set_error_info_pdu = true /\
  safe ts_fp_update = true /\ safe ts_fp_update_bitmap = true /\ safe ts_colorpointerattribute = true /\
  safe empty_component = true /\
  safe (MArray [] (Some share_control_header_t)) = true /\ safe (MArray [] (Some ts_fp_update)) = true.
Proof. vm_compute. repeat split. Qed.

Lemma safe_capability_templates : forall t tm, capability_template t = Some tm -> safe tm = true.
Proof.
  intros t tm. unfold capability_template.
  repeat (match goal with |- context [if ?c then _ else _] => destruct c end;
          [intros H; inversion H; subst; vm_compute; reflexivity|]).
  discriminate.
Qed.

(* the largest buffer any session-path layout can ask for is a 16-bit length *)
Lemma alloc_layouts :
  forallb (fun m => alloc_bound m <=? 65535)
    [share_control_header_t; ts_demand_active_pdu; share_data_header_t; ts_confirm_active_pdu_t; ts_deactivate_all_pdu;
     ts_synchronize_pdu 0; ts_control_pdu CTRLACTION_COOPERATE; ts_font_list_pdu; ts_font_map_pdu; ts_set_error_info_pdu;
     ts_fp_update; ts_fp_update_bitmap; ts_colorpointerattribute; empty_component;
     MArray [] (Some share_control_header_t); MArray [] (Some ts_fp_update)] = true.
Proof. vm_compute. reflexivity. Qed.

Ltac layouts := pose proof safe_layouts as
  [Ls1 [Ls2 [Ls3 [Ls4 [Ls5 [Ls6 [Ls7 [Ls8 [Ls9 [Ls10 [Ls11 [Ls12 [Ls13 [Ls14 [Ls15 Ls16]]]]]]]]]]]]]]].


Lemma rd_prod p t input :
  safe t = true -> wf_bytes input ->
  match rd p t input with Ok m' => produced p t m' | Err _ => True | _ => False end.
Proof.
  intros Hs Hwf. unfold rd. pose proof (read_safe p t Hs input Hwf) as H. unfold post in H.
  destruct (read p t input) as [m' r a|e r a| |] eqn:E; auto. exists input, r, a. auto.
Qed.

Lemma safe_elems :
  safe capability_set_t = true /\ safe ts_bitmap_data = true.
Proof. vm_compute. split; reflexivity. Qed.

Section Glue.
Variable p : prof.

Lemma rd_nocrash t input : safe t = true -> wf_bytes input -> nocrash (rd p t input).
Proof.
  intros Hs Hwf. pose proof (rd_post p t input Hs Hwf) as H.
  destruct (rd p t input); auto; contradiction.
Qed.

(* obind (cast_bytes field) (fun body => obind (rd t body) (fun m => Ok (x, m))) *)
Lemma parse_field_prod {X} (x : X) name m t :
  bounded m -> has_field name m = true -> safe t = true ->
  match obind (cast_bytes (get m name)) (fun body => obind (rd p t body) (fun m' => Ok (x, m'))) with
  | Ok (x', m') => x' = x /\ produced p t m'
  | Err _ => True
  | _ => False
  end.
Proof.
  intros Hb Hh Hs. pose proof (cast_bytes_ok name m Hb Hh) as Hc.
  destruct (cast_bytes (get m name)) as [body| | |]; cbn [obind]; auto.
  pose proof (rd_prod p t body Hs Hc) as Hr.
  destruct (rd p t body) as [m'| | |]; cbn [obind]; auto.
Qed.

Definition control_result (r : outcome (N * msg)) : Prop :=
  match r with
  | Ok (t, m) =>
      (t = PDUTYPE_DEMANDACTIVE /\ produced p ts_demand_active_pdu m) \/
      (t = PDUTYPE_DATA /\ produced p share_data_header_t m) \/
      (t = PDUTYPE_CONFIRMACTIVE /\ produced p ts_confirm_active_pdu_t m) \/
      (t = PDUTYPE_DEACTIVATEALL /\ produced p ts_deactivate_all_pdu m)
  | Err _ => True
  | _ => False
  end.

Lemma pdu_from_control_ok c :
  produced p share_control_header_t c -> control_result (pdu_from_control p c).
Proof.
  intros Hp. layouts. destruct (produced_post p _ c Ls1 Hp) as [Hsig Hb].
  unfold pdu_from_control, control_result.
  assert (Hf1 : has_field "pduType" c = true) by (rewrite (has_field_sig _ _ _ Hsig); reflexivity).
  assert (Hf2 : has_field "pduMessage" c = true) by (rewrite (has_field_sig _ _ _ Hsig); reflexivity).
  destruct (cast_num_nocrash 16 "pduType" c Hb Hf1) as [Hn1 Hn2].
  destruct (cast_num 16 (get c "pduType")) as [pt| | |]; cbn [obind]; auto.
  destruct (pdutype_known pt); cbn [negb]; auto.
  destruct (pt =? PDUTYPE_DEMANDACTIVE) eqn:E1; [apply N.eqb_eq in E1|].
  { pose proof (parse_field_prod pt "pduMessage" c ts_demand_active_pdu Hb Hf2 Ls2) as H.
    match goal with |- match ?o with _ => _ end => destruct o as [[t m]| | |]; [| exact I | exact H | exact H] end.
    destruct H as [-> H]. auto. }
  destruct (pt =? PDUTYPE_DATA) eqn:E2; [apply N.eqb_eq in E2|].
  { pose proof (parse_field_prod pt "pduMessage" c share_data_header_t Hb Hf2 Ls3) as H.
    match goal with |- match ?o with _ => _ end => destruct o as [[t m]| | |]; [| exact I | exact H | exact H] end.
    destruct H as [-> H]. auto. }
  destruct (pt =? PDUTYPE_CONFIRMACTIVE) eqn:E3; [apply N.eqb_eq in E3|].
  { pose proof (parse_field_prod pt "pduMessage" c ts_confirm_active_pdu_t Hb Hf2 Ls4) as H.
    match goal with |- match ?o with _ => _ end => destruct o as [[t m]| | |]; [| exact I | exact H | exact H] end.
    destruct H as [-> H]. auto. }
  destruct (pt =? PDUTYPE_DEACTIVATEALL) eqn:E4; [apply N.eqb_eq in E4|]; auto.
  { pose proof (parse_field_prod pt "pduMessage" c ts_deactivate_all_pdu Hb Hf2 Ls5) as H.
    match goal with |- match ?o with _ => _ end => destruct o as [[t m]| | |]; [| exact I | exact H | exact H] end.
    destruct H as [-> H]. auto 6. }
Qed.

Lemma pdu_from_stream_ok input :
  wf_bytes input -> control_result (pdu_from_stream p input).
Proof.
  intros Hwf. layouts. unfold pdu_from_stream.
  pose proof (rd_prod p share_control_header_t input Ls1 Hwf) as Hr.
  destruct (rd p share_control_header_t input) as [c| | |]; cbn [obind]; auto; try exact I.
  apply pdu_from_control_ok; auto.
Qed.

Definition data_result (r : outcome (N * msg)) : Prop :=
  match r with
  | Ok (t2, d) =>
      (t2 = PDUTYPE2_SYNCHRONIZE /\ produced p (ts_synchronize_pdu 0) d) \/
      (t2 = PDUTYPE2_CONTROL /\ produced p (ts_control_pdu CTRLACTION_COOPERATE) d) \/
      (t2 = PDUTYPE2_FONTLIST /\ produced p ts_font_list_pdu d) \/
      (t2 = PDUTYPE2_FONTMAP /\ produced p ts_font_map_pdu d) \/
      (t2 = PDUTYPE2_SET_ERROR_INFO /\ produced p ts_set_error_info_pdu d)
  | Err _ => True
  | _ => False
  end.

Lemma data_pdu_from_pdu_ok m :
  produced p share_data_header_t m -> data_result (data_pdu_from_pdu p m).
Proof.
  intros Hp. layouts. destruct (produced_post p _ m Ls3 Hp) as [Hsig Hb].
  unfold data_pdu_from_pdu, data_result.
  assert (Hf1 : has_field "pduType2" m = true) by (rewrite (has_field_sig _ _ _ Hsig); reflexivity).
  assert (Hf2 : has_field "payload" m = true) by (rewrite (has_field_sig _ _ _ Hsig); reflexivity).
  destruct (cast_num_nocrash 8 "pduType2" m Hb Hf1) as [Hn1 Hn2].
  destruct (cast_num 8 (get m "pduType2")) as [t2| | |]; cbn [obind]; auto.
  destruct (pdutype2_known t2); cbn [negb]; auto.
  destruct (t2 =? PDUTYPE2_SYNCHRONIZE) eqn:E1; [apply N.eqb_eq in E1|].
  { pose proof (parse_field_prod t2 "payload" m (ts_synchronize_pdu 0) Hb Hf2 Ls6) as H.
    match goal with |- match ?o with _ => _ end => destruct o as [[t d]| | |]; auto end.
    destruct H as [-> H]. auto. }
  destruct (t2 =? PDUTYPE2_CONTROL) eqn:E2; [apply N.eqb_eq in E2|].
  { pose proof (parse_field_prod t2 "payload" m (ts_control_pdu CTRLACTION_COOPERATE) Hb Hf2 Ls7) as H.
    match goal with |- match ?o with _ => _ end => destruct o as [[t d]| | |]; auto end.
    destruct H as [-> H]. auto. }
  destruct (t2 =? PDUTYPE2_FONTLIST) eqn:E3; [apply N.eqb_eq in E3|].
  { pose proof (parse_field_prod t2 "payload" m ts_font_list_pdu Hb Hf2 Ls8) as H.
    match goal with |- match ?o with _ => _ end => destruct o as [[t d]| | |]; auto end.
    destruct H as [-> H]. auto 6. }
  destruct (t2 =? PDUTYPE2_FONTMAP) eqn:E4; [apply N.eqb_eq in E4|].
  { pose proof (parse_field_prod t2 "payload" m ts_font_map_pdu Hb Hf2 Ls9) as H.
    match goal with |- match ?o with _ => _ end => destruct o as [[t d]| | |]; auto end.
    destruct H as [-> H]. auto 7. }
  destruct (t2 =? PDUTYPE2_SET_ERROR_INFO) eqn:E5; [apply N.eqb_eq in E5|]; auto.
  { pose proof (parse_field_prod t2 "payload" m ts_set_error_info_pdu Hb Hf2 Ls10) as H.
    match goal with |- match ?o with _ => _ end => destruct o as [[t d]| | |]; auto end.
    destruct H as [-> H]. auto 8. }
Qed.

(* ---- capability sets of a demand-active ---- *)
Lemma capability_from_set_nocrash c :
  produced p capability_set_t c -> nocrash (capability_from_set p c).
Proof.
  intros Hp. destruct safe_elems as [Lc _]. destruct (produced_post p _ c Lc Hp) as [Hsig Hb].
  unfold capability_from_set.
  assert (Hf1 : has_field "capabilitySetType" c = true) by (rewrite (has_field_sig _ _ _ Hsig); reflexivity).
  assert (Hf2 : has_field "capabilitySet" c = true) by (rewrite (has_field_sig _ _ _ Hsig); reflexivity).
  apply obind_nocrash; [apply cast_num_nocrash; auto|]. intros t _.
  destruct (capset_type_known t); cbn [negb]; auto.
  destruct (capability_template t) as [tm|] eqn:Et; auto.
  pose proof (safe_capability_templates t tm Et) as Hs.
  pose proof (cast_bytes_ok "capabilitySet" c Hb Hf2) as Hc.
  destruct (cast_bytes (get c "capabilitySet")) as [body| | |]; cbn [obind]; auto; try contradiction.
  apply obind_nocrash; [apply rd_nocrash; auto|]. intros; auto.
Qed.

Lemma caps_crash_nocrash l :
  Forall (produced p capability_set_t) l -> nocrash (caps_crash p l).
Proof.
  induction l as [|c tl IH]; intros H; cbn [caps_crash]; auto.
  inversion H as [|? ? Hc Htl]; subst.
  destruct (capability_from_set_nocrash c Hc) as [H1 H2].
  destruct (capability_from_set p c); auto; congruence.
Qed.

Lemma write_confirm_active_ok s : exists b, write_confirm_active p s = Ok b.
Proof. eexists. vm_compute. reflexivity. Qed.

Lemma write_client_finalize_ok s : exists b, write_client_finalize p s = Ok b.
Proof. eexists. vm_compute. reflexivity. Qed.

Ltac type_clash :=
  match goal with
  | H : ?a = ?b /\ _ |- _ => let H1 := fresh in destruct H as [H1 _]; vm_compute in H1; discriminate H1
  end.

Lemma read_demand_active_nocrash s input :
  wf_bytes input -> nocrash (r_out (read_demand_active p s input)).
Proof.
  intros Hwf. unfold read_demand_active. layouts.
  pose proof (pdu_from_stream_ok input Hwf) as Hc. unfold control_result in Hc.
  destruct (pdu_from_stream p input) as [[t m]| | |]; cbn [lift done r_out]; auto; try contradiction.
  destruct (t =? PDUTYPE_DEMANDACTIVE) eqn:Et; cbn [negb lift done r_out]; auto.
  apply N.eqb_eq in Et. subst t.
  assert (Hp : produced p ts_demand_active_pdu m).
  { destruct Hc as [[_ H]|[H|[H|H]]]; auto; type_clash. }
  destruct (produced_post p _ m Ls2 Hp) as [Hsig Hb].
  assert (Hf1 : has_field "capabilitySets" m = true) by (rewrite (has_field_sig _ _ _ Hsig); reflexivity).
  assert (Hf2 : has_field "shareId" m = true) by (rewrite (has_field_sig _ _ _ Hsig); reflexivity).
  destruct (get_field "capabilitySets" m Hb Hf1) as [cs [Hg _]]. rewrite Hg.
  destruct safe_elems as [Lc _].
  destruct (comp_array_field p _ m "capabilitySets" capability_set_t cs Ls2 Hp eq_refl Hg) as [l [Hl Hfl]].
  rewrite Hl. cbn [lift].
  destruct (caps_crash_nocrash l Hfl) as [H1 H2].
  destruct (caps_crash p l) as [u| | |]; cbn [lift done r_out]; auto; try congruence.
  destruct (cast_num_nocrash 32 "shareId" m Hb Hf2) as [H3 H4].
  destruct (cast_num 32 (get m "shareId")) as [sid| | |]; cbn [lift done r_out]; auto; try congruence.
  destruct (write_confirm_active_ok (set_share s (Some sid))) as [f0 ->]. cbn [lift].
  destruct (write_client_finalize_ok (set_share s (Some sid))) as [fs ->]. cbn [lift r_out]. auto.
Qed.

Lemma read_expect_data_nocrash s input t2 act next :
  wf_bytes input -> (act <> None -> t2 = PDUTYPE2_CONTROL) ->
  nocrash (r_out (read_expect_data p s input t2 act next)).
Proof.
  intros Hwf Hact. unfold read_expect_data. layouts.
  pose proof (pdu_from_stream_ok input Hwf) as Hc. unfold control_result in Hc.
  destruct (pdu_from_stream p input) as [[t m]| | |]; cbn [lift done r_out]; auto; try contradiction.
  destruct (t =? PDUTYPE_DATA) eqn:Et; cbn [negb lift done r_out]; auto.
  apply N.eqb_eq in Et. subst t.
  assert (Hp : produced p share_data_header_t m).
  { destruct Hc as [H|[[_ H]|[H|H]]]; auto; type_clash. }
  pose proof (data_pdu_from_pdu_ok m Hp) as Hd. unfold data_result in Hd.
  destruct (data_pdu_from_pdu p m) as [[t2' d]| | |]; cbn [lift done r_out]; auto; try contradiction.
  destruct (t2' =? t2) eqn:Et2; cbn [negb lift done r_out]; auto.
  apply N.eqb_eq in Et2. subst t2'.
  destruct act as [a|]; cbn [done r_out]; auto.
  assert (Ht2 : t2 = PDUTYPE2_CONTROL) by (apply Hact; discriminate). subst t2.
  assert (Hpd : produced p (ts_control_pdu CTRLACTION_COOPERATE) d).
  { destruct Hd as [H|[[_ H]|[H|[H|H]]]]; auto; type_clash. }
  destruct (produced_post p _ d Ls7 Hpd) as [Hsig Hb].
  assert (Hf : has_field "action" d = true) by (rewrite (has_field_sig _ _ _ Hsig); reflexivity).
  destruct (cast_num_nocrash 16 "action" d Hb Hf) as [H1 H2].
  destruct (cast_num 16 (get d "action")) as [x| | |]; cbn [lift done r_out]; auto; try congruence.
  destruct (x =? a); cbn [done r_out]; auto.
Qed.

Lemma data_pdus_nocrash : forall l s,
  Forall (produced p share_control_header_t) l -> nocrash (snd (data_pdus p s l)).
Proof.
  layouts.
  induction l as [|c tl IH]; intros s H; cbn [data_pdus snd]; auto.
  inversion H as [|? ? Hc Htl]; subst.
  pose proof (pdu_from_control_ok c Hc) as Hr. unfold control_result in Hr.
  destruct (pdu_from_control p c) as [[t m]| | |]; cbn [snd]; auto; try contradiction.
  destruct (t =? PDUTYPE_DEACTIVATEALL); auto.
  destruct (t =? PDUTYPE_DATA) eqn:Et; cbn [negb]; auto.
  apply N.eqb_eq in Et. subst t.
  assert (Hp : produced p share_data_header_t m).
  { destruct Hr as [Hx|[[_ Hx]|[Hx|Hx]]]; auto; type_clash. }
  pose proof (data_pdu_from_pdu_ok m Hp) as Hd. unfold data_result in Hd.
  destruct (data_pdu_from_pdu p m) as [[t2 d]| | |]; cbn [snd]; auto; try contradiction.
  destruct (t2 =? PDUTYPE2_SET_ERROR_INFO) eqn:Et2; auto.
  apply N.eqb_eq in Et2. subst t2.
  assert (Hpd : produced p ts_set_error_info_pdu d).
  { destruct Hd as [Hx|[Hx|[Hx|[Hx|[_ Hx]]]]]; auto; type_clash. }
  destruct (produced_post p _ d Ls10 Hpd) as [Hsig Hb].
  assert (Hf : has_field "errorInfo" d = true) by (rewrite (has_field_sig _ _ _ Hsig); reflexivity).
  destruct (cast_num_nocrash 32 "errorInfo" d Hb Hf) as [H1 H2].
  destruct (cast_num 32 (get d "errorInfo")); cbn [snd]; auto; congruence.
Qed.

Lemma read_data_pdu_nocrash s input :
  wf_bytes input -> nocrash (r_out (read_data_pdu p s input)).
Proof.
  intros Hwf. unfold read_data_pdu. layouts.
  pose proof (rd_prod p _ input Ls15 Hwf) as Hr.
  destruct (rd p (MArray [] (Some share_control_header_t)) input) as [arr| | |]; cbn [lift done r_out]; auto; try contradiction.
  destruct (produced_array p _ arr Ls1 Hr) as [l [-> Hl]].
  pose proof (data_pdus_nocrash l s Hl) as Hn.
  destruct (data_pdus p s l) as [s' o]. cbn [done r_out snd] in *. exact Hn.
Qed.

(* ---- fast path ---- *)
Lemma rect_event_nocrash r : produced p ts_bitmap_data r -> nocrash (rect_event r).
Proof.
  intros Hp. destruct safe_elems as [_ Lb]. destruct (produced_post p _ r Lb Hp) as [Hsig Hb].
  unfold rect_event.
  repeat (apply obind_nocrash;
          [apply cast_num_nocrash; [exact Hb|rewrite (has_field_sig _ _ _ Hsig); reflexivity]|intros ? _]).
  assert (Hf : has_field "bitmapDataStream" r = true) by (rewrite (has_field_sig _ _ _ Hsig); reflexivity).
  pose proof (cast_bytes_ok "bitmapDataStream" r Hb Hf) as Hc.
  destruct (cast_bytes (get r "bitmapDataStream")); cbn [obind]; auto; contradiction.
Qed.

Lemma rect_events_nocrash : forall l acc,
  Forall (produced p ts_bitmap_data) l -> nocrash (snd (rect_events l acc)).
Proof.
  induction l as [|r tl IH]; intros acc H; cbn [rect_events snd]; auto.
  inversion H as [|? ? Hr Htl]; subst.
  destruct (rect_event_nocrash r Hr) as [H1 H2].
  destruct (rect_event r); cbn [snd]; auto; congruence.
Qed.

Definition fp_result (r : outcome (N * msg)) : Prop :=
  match r with
  | Ok (t, m) =>
      (t = FP_BITMAP /\ produced p ts_fp_update_bitmap m) \/
      (t <> FP_BITMAP)
  | Err _ => True
  | _ => False
  end.

Lemma fp_from_fp_ok u : produced p ts_fp_update u -> fp_result (fp_from_fp p u).
Proof.
  intros Hp. layouts. destruct (produced_post p _ u Ls11 Hp) as [Hsig Hb].
  unfold fp_from_fp, fp_result.
  assert (Hf1 : has_field "updateHeader" u = true) by (rewrite (has_field_sig _ _ _ Hsig); reflexivity).
  assert (Hf2 : has_field "updateData" u = true) by (rewrite (has_field_sig _ _ _ Hsig); reflexivity).
  destruct (cast_num_nocrash 8 "updateHeader" u Hb Hf1) as [Hn1 Hn2].
  destruct (cast_num 8 (get u "updateHeader")) as [h| | |]; cbn [obind]; auto.
  destruct (fp_type_known (N.land h 15)); cbn [negb]; auto.
  destruct (N.land h 15 =? FP_BITMAP) eqn:E1; [apply N.eqb_eq in E1|].
  { pose proof (parse_field_prod (N.land h 15) "updateData" u ts_fp_update_bitmap Hb Hf2 Ls12) as H.
    match goal with |- match ?o with _ => _ end => destruct o as [[t d]| | |]; auto end.
    destruct H as [-> H]. auto. }
  apply N.eqb_neq in E1.
  destruct (N.land h 15 =? FP_COLOR).
  { pose proof (parse_field_prod (N.land h 15) "updateData" u ts_colorpointerattribute Hb Hf2 Ls13) as H.
    match goal with |- match ?o with _ => _ end => destruct o as [[t d]| | |]; auto end.
    destruct H as [-> H]. auto. }
  destruct (N.land h 15 =? FP_SYNCHRONIZE).
  { pose proof (parse_field_prod (N.land h 15) "updateData" u empty_component Hb Hf2 Ls14) as H.
    match goal with |- match ?o with _ => _ end => destruct o as [[t d]| | |]; auto end.
    destruct H as [-> H]. auto. }
  destruct (N.land h 15 =? FP_PTR_NULL); auto.
  { pose proof (parse_field_prod (N.land h 15) "updateData" u empty_component Hb Hf2 Ls14) as H.
    match goal with |- match ?o with _ => _ end => destruct o as [[t d]| | |]; auto end.
    destruct H as [-> H]. auto. }
Qed.

Lemma fp_updates_nocrash : forall l acc,
  Forall (produced p ts_fp_update) l -> nocrash (snd (fp_updates p l acc)).
Proof.
  layouts. destruct safe_elems as [_ Lb].
  induction l as [|u tl IH]; intros acc H; cbn [fp_updates snd]; auto.
  inversion H as [|? ? Hu Htl]; subst.
  pose proof (fp_from_fp_ok u Hu) as Hr. unfold fp_result in Hr.
  destruct (fp_from_fp p u) as [[t m]| | |]; cbn [snd]; auto; try contradiction.
  destruct (t =? FP_BITMAP) eqn:Et; auto.
  apply N.eqb_eq in Et. subst t.
  assert (Hp : produced p ts_fp_update_bitmap m) by (destruct Hr as [[_ Hx]|Hx]; [exact Hx|congruence]).
  destruct (produced_post p _ m Ls12 Hp) as [Hsig Hb].
  assert (Hf : has_field "rectangles" m = true) by (rewrite (has_field_sig _ _ _ Hsig); reflexivity).
  destruct (get_field "rectangles" m Hb Hf) as [rs [Hg _]]. rewrite Hg.
  destruct (comp_array_field p _ m "rectangles" ts_bitmap_data rs Ls12 Hp eq_refl Hg) as [rl [-> Hrl]].
  pose proof (rect_events_nocrash rl acc Hrl) as Hn.
  destruct (rect_events rl acc) as [acc' o]. cbn [snd] in Hn.
  destruct o; cbn [snd]; auto.
Qed.

Lemma read_fast_path_nocrash s input :
  wf_bytes input -> nocrash (r_out (read_fast_path p s input)).
Proof.
  intros Hwf. unfold read_fast_path. layouts.
  pose proof (rd_prod p _ input Ls16 Hwf) as Hr.
  destruct (rd p (MArray [] (Some ts_fp_update)) input) as [arr| | |]; cbn [lift done r_out]; auto; try contradiction.
  destruct (produced_array p _ arr Ls11 Hr) as [l [-> Hl]].
  pose proof (fp_updates_nocrash l [] Hl) as Hn.
  destruct (fp_updates p l []) as [evs o]. cbn [r_out snd] in *. exact Hn.
Qed.

(* ---- global::Client::read in every state ---- *)
Definition wf_payload (pl : payload) : Prop :=
  match pl with Raw b => wf_bytes b | FastPath _ b => wf_bytes b end.

Lemma global_read_nocrash s pl : wf_payload pl -> nocrash (r_out (global_read p s pl)).
Proof.
  intros Hwf. unfold global_read.
  destruct (st s); destruct pl as [b|f b]; cbn [wf_payload] in Hwf; cbn [done r_out]; auto.
  - apply read_demand_active_nocrash; auto.
  - apply read_expect_data_nocrash; auto. intros H; exfalso; apply H; reflexivity.
  - apply read_expect_data_nocrash; auto.
  - apply read_expect_data_nocrash; auto.
  - apply read_expect_data_nocrash; auto. intros H; exfalso; apply H; reflexivity.
  - apply read_data_pdu_nocrash; auto.
  - apply read_fast_path_nocrash; auto.
Qed.
End Glue.

(* ---- the layers below: deframing one frame, X.224, MCS ---- *)
Lemma wf_firstn n (l : bytes) : wf_bytes l -> wf_bytes (firstn n l).
Proof. unfold wf_bytes. revert l. induction n; intros [|x l] H; cbn; auto. inversion H; subst. constructor; auto. Qed.
Lemma wf_skipn n (l : bytes) : wf_bytes l -> wf_bytes (skipn n l).
Proof. unfold wf_bytes. revert l. induction n; intros [|x l] H; cbn; auto. inversion H; subst. auto. Qed.
Lemma wf_app (a b : bytes) : wf_bytes a -> wf_bytes b -> wf_bytes (a ++ b).
Proof. unfold wf_bytes. intros. apply Forall_app. auto. Qed.
Lemma wf_tl x (l : bytes) : wf_bytes (x :: l) -> wf_bytes l.
Proof. intros H. inversion H; auto. Qed.

Definition wf_stream (cs : stream) : Prop := Forall wf_bytes cs.

Lemma read_exact_spec : forall cs n, wf_stream cs ->
  match read_exact n cs with
  | (Some b, cs') => List.length b = n /\ wf_bytes b /\ wf_stream cs'
  | (None, cs') => wf_stream cs'
  end.
Proof.
  induction cs as [|c cs' IH]; intros n Hwf; destruct n as [|n]; cbn [read_exact].
  - repeat split; auto using wf_nil.
  - constructor.
  - repeat split; auto using wf_nil.
  - inversion Hwf as [|? ? Hc Hcs]; subst.
    destruct c as [|x c']; [exact Hcs|].
    destruct (Nat.leb (List.length (x :: c')) (S n)) eqn:E.
    + apply Nat.leb_le in E. specialize (IH (S n - List.length (x :: c'))%nat Hcs).
      destruct (read_exact (S n - List.length (x :: c')) cs') as [[l|] cs'']; auto.
      destruct IH as [Hl [Hwl Hws]]. repeat split; auto using wf_app.
      rewrite app_length, Hl. lia.
    + apply Nat.leb_gt in E. repeat split.
      * apply firstn_length_le. lia.
      * apply wf_firstn; auto.
      * constructor; auto. apply wf_skipn; auto.
Qed.

Lemma link_read_spec n cs : (0 < n)%nat -> wf_stream cs ->
  match link_read n cs with
  | (Ok b, cs') => List.length b = n /\ wf_bytes b /\ wf_stream cs'
  | (Err _, cs') => wf_stream cs'
  | _ => False
  end.
Proof.
  intros Hn Hwf. destruct n as [|n]; [lia|]. unfold link_read.
  pose proof (read_exact_spec cs (S n) Hwf) as H.
  destruct (read_exact (S n) cs) as [[b|] cs']; auto.
Qed.

Lemma read_body_spec n cs : wf_stream cs ->
  match read_body n cs with
  | (Ok b, cs') => wf_bytes b /\ wf_stream cs'
  | (Err _, cs') => wf_stream cs'
  | _ => False
  end.
Proof.
  intros Hwf. destruct n as [|n]; cbn [read_body]; [split; auto using wf_nil|].
  pose proof (link_read_spec (S n) cs (Nat.lt_0_succ _) Hwf) as H.
  destruct (link_read (S n) cs) as [[b| | |] cs']; auto. tauto.
Qed.

Definition read_result_ok (r : outcome payload * stream) : Prop :=
  match r with
  | (Ok pl, cs') => wf_payload pl /\ wf_stream cs'
  | (Err _, cs') => wf_stream cs'
  | _ => False
  end.

Ltac body_case cs :=
  match goal with
  | |- read_result_ok (match read_body ?n cs with _ => _ end) =>
      let H := fresh in
      pose proof (read_body_spec n cs ltac:(assumption)) as H;
      destruct (read_body n cs) as [[?| | |] ?]; cbn [read_result_ok wf_payload]; auto
  end.

(* tpkt::Client::read never panics, whatever the stream *)
Lemma tpkt_read_ok cs : wf_stream cs -> read_result_ok (tpkt_read cs).
Proof.
  intros Hwf. unfold tpkt_read.
  pose proof (link_read_spec 2 cs ltac:(lia) Hwf) as H1.
  destruct (link_read 2 cs) as [[l| | |] cs1]; cbn [read_result_ok]; auto.
  destruct H1 as [Hl [Hwl Hw1]].
  destruct l as [|action [|b1 [|? ?]]]; cbn [List.length] in Hl; try discriminate.
  destruct (action =? 3).
  - pose proof (link_read_spec 2 cs1 ltac:(lia) Hw1) as H2.
    destruct (link_read 2 cs1) as [[l2| | |] cs2]; cbn [read_result_ok]; auto.
    destruct H2 as [Hl2 [Hwl2 Hw2]].
    destruct l2 as [|hi [|lo [|? ?]]]; cbn [List.length] in Hl2; try discriminate.
    destruct (of_be16 hi lo <? 4); cbn [read_result_ok]; auto.
    body_case cs2.
  - destruct (N.land b1 128 =? 0).
    + destruct (b1 <? 2); cbn [read_result_ok]; auto. body_case cs1.
    + pose proof (link_read_spec 1 cs1 ltac:(lia) Hw1) as H2.
      destruct (link_read 1 cs1) as [[l2| | |] cs2]; cbn [read_result_ok]; auto.
      destruct H2 as [Hl2 [Hwl2 Hw2]].
      destruct l2 as [|lo [|? ?]]; cbn [List.length] in Hl2; try discriminate.
      match goal with |- context [if ?c then _ else _] => destruct c end; cbn [read_result_ok]; auto.
      body_case cs2.
Qed.

Lemma x224_read_ok cs : wf_stream cs -> read_result_ok (x224_read cs).
Proof.
  intros Hwf. unfold x224_read. pose proof (tpkt_read_ok cs Hwf) as H.
  destruct (tpkt_read cs) as [[pl| | |] cs']; cbn [read_result_ok] in *; auto.
  destruct pl as [b|f b]; auto. destruct H as [Hb Hs]. cbn [wf_payload] in Hb.
  unfold x224_strip. destruct b as [|b0 [|b1 [|sep rest]]]; auto.
  destruct (sep =? 128); auto. split; auto. cbn [wf_payload].
  apply wf_tl in Hb. apply wf_tl in Hb. apply wf_tl in Hb. exact Hb.
Qed.

Lemma frame_payload_ok frame : wf_bytes frame ->
  match frame_payload frame with Ok pl => wf_payload pl | Err _ => True | _ => False end.
Proof.
  intros Hwf. unfold frame_payload.
  pose proof (x224_read_ok [frame] ltac:(constructor; [assumption|constructor])) as H.
  destruct (x224_read [frame]) as [[pl| | |] cs']; cbn [read_result_ok] in H; auto. tauto.
Qed.

Lemma per_read_integer_16_ok k input : wf_bytes input ->
  match per_read_integer_16 k input with Ok (_, r) => wf_bytes r | Err _ => True | _ => False end.
Proof.
  intros Hwf. unfold per_read_integer_16. destruct input as [|h [|l r]]; auto.
  destruct (of_be16 h l + k <? 65536); auto. apply wf_tl in Hwf. apply wf_tl in Hwf. exact Hwf.
Qed.

Lemma per_read_length_ok input : wf_bytes input ->
  match per_read_length input with Ok (_, r) => wf_bytes r | Err _ => True | _ => False end.
Proof.
  intros Hwf. unfold per_read_length. destruct input as [|b r]; auto.
  apply wf_tl in Hwf. destruct (N.land b 128 =? 0); auto.
  destruct r as [|b2 r2]; auto. apply wf_tl in Hwf. exact Hwf.
Qed.

Lemma mcs_read_ok s pl : wf_payload pl ->
  match mcs_read s pl with Ok pl' => wf_payload pl' | Err _ => True | _ => False end.
Proof.
  intros Hwf. unfold mcs_read. destruct pl as [b|f b]; [|exact Hwf]. cbn [wf_payload] in Hwf.
  destruct b as [|header r0]; auto. apply wf_tl in Hwf.
  destruct (N.shiftr header 2 =? 8); auto.
  destruct (N.shiftr header 2 =? 26); cbn [negb]; auto.
  pose proof (per_read_integer_16_ok 1001 r0 Hwf) as H1.
  destruct (per_read_integer_16 1001 r0) as [[x r1]| | |]; cbn [obind]; auto.
  pose proof (per_read_integer_16_ok 0 r1 H1) as H2.
  destruct (per_read_integer_16 0 r1) as [[chan r2]| | |]; cbn [obind]; auto.
  destruct ((chan =? channel_id s) || (chan =? user_id s)); cbn [negb]; auto.
  destruct r2 as [|x2 r3]; auto. apply wf_tl in H2.
  pose proof (per_read_length_ok r3 H2) as H3.
  destruct (per_read_length r3) as [[len r4]| | |]; cbn [obind]; auto.
  destruct (chan =? channel_id s); auto.
Qed.

(* ---- the whole read path ---- *)
Theorem client_read_nocrash p s frame :
  wf_bytes frame -> nocrash (r_out (client_read p s frame)).
Proof.
  intros Hwf. unfold client_read.
  pose proof (frame_payload_ok frame Hwf) as H1.
  destruct (frame_payload frame) as [pl| | |]; cbn [lift done r_out]; auto; try contradiction.
  pose proof (mcs_read_ok s pl H1) as H2.
  destruct (mcs_read s pl) as [pl'| | |]; cbn [lift done r_out]; auto; try contradiction.
  apply global_read_nocrash. exact H2.
Qed.

(* every history of frames and input attempts: no step ever panics or spins *)
Definition wf_op (o : op) : Prop := match o with OpRead f => wf_bytes f | _ => True end.

Lemma client_write_nocrash p s e : nocrash (r_out (client_write p s e)).
Proof.
  unfold client_write, write_input_event.
  destruct e as [x y b d|c d|]; cbn [done r_out]; auto; destruct (st s); cbn [done r_out]; auto.
  - match goal with |- nocrash (r_out ?t) => let v := eval vm_compute in (r_out t) in change (nocrash v) end. auto.
  - match goal with |- nocrash (r_out ?t) => let v := eval vm_compute in (r_out t) in change (nocrash v) end. auto.
Qed.

Lemma do_op_nocrash p s o : wf_op o -> nocrash (r_out (do_op p s o)).
Proof.
  intros H. destruct o as [f|e|e]; cbn [do_op wf_op] in *.
  - apply client_read_nocrash; auto.
  - apply client_write_nocrash.
  - unfold client_try_write. pose proof (client_write_nocrash p s e) as Hn.
    destruct (r_out (client_write p s e)) as [u|er| |] eqn:E; cbn [r_out]; try rewrite E; auto.
    destruct er; cbn [r_out]; try rewrite E; auto.
Qed.

Theorem run_ops_nocrash p : forall ops s,
  Forall wf_op ops -> Forall (fun r => nocrash (r_out r)) (run_ops p s ops).
Proof.
  induction ops as [|o tl IH]; intros s H; cbn [run_ops]; constructor; inversion H; subst.
  - apply do_op_nocrash; auto.
  - apply IH; auto.
Qed.

(* ---- memory: every buffer the session read path sizes from the wire ---- *)
Definition session_templates : list msg :=
  [share_control_header_t; ts_demand_active_pdu; share_data_header_t; ts_confirm_active_pdu_t; ts_deactivate_all_pdu;
   ts_synchronize_pdu 0; ts_control_pdu CTRLACTION_COOPERATE; ts_font_list_pdu; ts_font_map_pdu; ts_set_error_info_pdu;
   ts_fp_update; ts_fp_update_bitmap; ts_colorpointerattribute; empty_component;
   MArray [] (Some share_control_header_t); MArray [] (Some ts_fp_update);
   ts_general_capability_set 0; ts_bitmap_capability_set 0 0 0; ts_order_capability_set 2; ts_bitmap_cache_capability_set;
   ts_pointer_capability_set; ts_input_capability_set 0 1036; ts_brush_capability_set; ts_glyph_capability_set;
   ts_offscreen_capability_set; ts_virtualchannel_capability_set; ts_sound_capability_set;
   ts_multifragment_update_capability_ts].

Lemma session_templates_checked :
  forallb (fun m => safe m && (alloc_bound m <=? 65535)) session_templates = true.
Proof. vm_compute. reflexivity. Qed.

Theorem session_alloc_bound p t input :
  In t session_templates -> wf_bytes input ->
  match read p t input with
  | ROk _ _ a | RErr _ _ a => a <= 65535
  | _ => False
  end.
Proof.
  intros Hin Hwf. pose proof session_templates_checked as H. rewrite forallb_forall in H.
  specialize (H t Hin). apply andb_true_iff in H. destruct H as [Hs Ha]. apply N.leb_le in Ha.
  pose proof (read_safe p t Hs input Hwf) as Hp. unfold post in Hp.
  destruct (read p t input); try contradiction.
  - destruct Hp as [_ [_ [_ [_ [_ [Hx _]]]]]]. lia.
  - destruct Hp as [_ [_ Hx]]. lia.
Qed.

(* the templates the dispatchers select are all in that list *)
Lemma capability_template_in t tm : capability_template t = Some tm -> In tm session_templates.
Proof.
  unfold capability_template.
  repeat (match goal with |- context [if ?c then _ else _] => destruct c end;
          [intros H; inversion H; subst; cbn; tauto|]).
  discriminate.
Qed.
