(* Generic safety theorem of the message interpreter: for every message template that
   passes the boolean checker [safe] and every well-formed byte string, [read] returns a
   value or an error -- never Panic, never Spin -- and the largest buffer it asks for is
   bounded by the checker's [alloc_bound].  Per-layout obligations are then
   [safe layout = true] by computation. *)
From RdpV Require Import Base Msg MsgInd.
Open Scope list_scope.
Open Scope N_scope.

(* ---- static information ---- *)
Fixpoint leaf_max (m : msg) : option N :=
  match m with
  | MU8 _ => Some 255
  | MU16 _ _ => Some 65535
  | MU32 _ _ => Some 4294967295
  | MCheck m' => leaf_max m'
  | _ => None
  end.

Definition fields_sig (m : msg) : list (string * option N) :=
  match m with MComp fs => map (fun nv => (fst nv, leaf_max (snd nv))) fs | _ => [] end.

Fixpoint sig_lookup (name : string) (l : list (string * option N)) : option N :=
  match l with
  | [] => None
  | (n, x) :: tl => if String.eqb n name then x else sig_lookup name tl
  end.

Definition two64 : N := 18446744073709551616.

(* upper bound of a closure expression, from the widths of the leaves it reads; None when
   the expression may trap *)
Fixpoint cexp_max (lm : option N) (fsig : list (string * option N)) (e : cexp) : option N :=
  match e with
  | XSelf => lm
  | XSelfField name => sig_lookup name fsig
  | XSub _ _ => None
  | XSubSat e _ => cexp_max lm fsig e
  | XAdd e k => match cexp_max lm fsig e with Some b => if b + k <? two64 then Some (b + k) else None | None => None end
  | XMul e k => match cexp_max lm fsig e with Some b => if b * k <? two64 then Some (b * k) else None | None => None end
  end.

Definition clo_bound (self : msg) (c : clo) : option N :=
  match c with
  | CloNone => Some 0
  | CloSize _ e => match cexp_max (leaf_max self) (fields_sig self) e with
                   | Some b => if b <=? isize_max then Some b else None
                   | None => None
                   end
  | CloSkipIf _ _ => match leaf_max self with Some _ => Some 0 | None => None end
  end.

(* smallest number of bytes a SUCCESSFUL read consumes (a lower bound) *)
Fixpoint min_consume (m : msg) : N :=
  match m with
  | MU8 _ => 1 | MU16 _ _ => 2 | MU32 _ _ => 4
  | MBytes b => nlen b
  | MTrame l => (fix go (l : list msg) : N := match l with [] => 0 | x :: tl => min_consume x + go tl end) l
  | MComp fs => match fs with (_, v) :: _ => min_consume v | [] => 0 end
  | MCheck m' | MDyn m' _ => min_consume m'
  | MOpt _ => 0
  | MArray _ _ => 0
  end.

Definition leaf_ok (w v : N) : bool := v <? 2 ^ w.

Fixpoint safe (m : msg) : bool :=
  match m with
  | MU8 v => leaf_ok 8 v
  | MU16 _ v => leaf_ok 16 v
  | MU32 _ v => leaf_ok 32 v
  | MBytes b => forallb is_byte b
  | MTrame l => (fix go (l : list msg) : bool := match l with [] => true | x :: tl => safe x && go tl end) l
  | MComp fs => (fix go (fs : list (string * msg)) : bool :=
                   match fs with [] => true | (_, v) :: tl => safe v && go tl end) fs
  | MCheck m' => safe m'
  | MDyn m' c => safe m' && match clo_bound m' c with Some _ => true | None => false end
  | MOpt None => true
  | MOpt (Some m') => safe m'
  | MArray elems None => false
  | MArray elems (Some t) =>
      (fix go (l : list msg) : bool := match l with [] => true | x :: tl => safe x && go tl end) elems
      && safe t && (1 <=? min_consume t)
  end.

(* the largest dynamic buffer a read of m can ask for *)
Fixpoint alloc_bound (m : msg) : N :=
  match m with
  | MTrame l => (fix go (l : list msg) : N := match l with [] => 0 | x :: tl => N.max (alloc_bound x) (go tl) end) l
  | MComp fs => (fix go (fs : list (string * msg)) : N :=
                   match fs with [] => 0 | (_, v) :: tl => N.max (alloc_bound v) (go tl) end) fs
  | MCheck m' => alloc_bound m'
  | MDyn m' c => N.max (alloc_bound m') (match clo_bound m' c with Some b => b | None => 0 end)
  | MOpt (Some m') => alloc_bound m'
  | MArray _ (Some t) => alloc_bound t
  | _ => 0
  end.

(* ---- what a read preserves of its template, and what it establishes ---- *)
Fixpoint leaf_val (m : msg) : option N :=
  match m with
  | MU8 v | MU16 _ v | MU32 _ v => Some v
  | MCheck m' => leaf_val m'
  | _ => None
  end.

Definition leaf_bounded (m : msg) : Prop :=
  match leaf_val m, leaf_max m with Some v, Some b => v <= b | _, _ => True end /\
  (forall b, bytes_of m = Some b -> wf_bytes b).   (* byte blocks handed on to the next parser are bytes *)

Definition bounded (m : msg) : Prop :=
  leaf_bounded m /\ match m with MComp fs => Forall (fun nv => leaf_bounded (snd nv)) fs | _ => True end.

Lemma leaf_max_num (m : msg) (b : N) :
  leaf_max m = Some b -> exists v, num_of m = Some v /\ leaf_val m = Some v.
Proof.
  induction m using msg_ind'; cbn; intros Hx; try discriminate; eauto.
Qed.

Lemma forallb_is_byte (b : bytes) : forallb is_byte b = true -> wf_bytes b.
Proof.
  intros H. unfold wf_bytes. apply Forall_forall. intros x Hx.
  rewrite forallb_forall in H. specialize (H x Hx). unfold is_byte in H. apply N.ltb_lt in H. exact H.
Qed.

Lemma safe_leaf_bounded (m : msg) : safe m = true -> leaf_bounded m.
Proof.
  induction m using msg_ind'; unfold leaf_bounded; cbn [leaf_val leaf_max safe bytes_of]; intros Hs;
    try (split; [exact I|intros b0 Hb0; discriminate]).
  - split; [|intros b0 Hb0; discriminate]. unfold leaf_ok in Hs. apply N.ltb_lt in Hs. change (2 ^ 8) with 256 in Hs. lia.
  - split; [|intros b0 Hb0; discriminate]. unfold leaf_ok in Hs. apply N.ltb_lt in Hs. change (2 ^ 16) with 65536 in Hs. lia.
  - split; [|intros b0 Hb0; discriminate]. unfold leaf_ok in Hs. apply N.ltb_lt in Hs. change (2 ^ 32) with 4294967296 in Hs. lia.
  - split; [exact I|]. intros b0 Hb0. inversion Hb0; subst. apply forallb_is_byte. exact Hs.
  - destruct (IHm Hs) as [Hx Hy]. split; auto.
  - apply andb_true_iff in Hs. destruct Hs as [Hs _]. destruct (IHm Hs) as [Hx Hy]. split; [exact I|exact Hy].
  - destruct (IHm Hs) as [Hx Hy]. split; [exact I|exact Hy].
Qed.

Lemma safe_comp_fields fs :
  (fix go (fs : list (string * msg)) : bool :=
     match fs with [] => true | (_, v) :: tl => safe v && go tl end) fs = true ->
  Forall (fun nv => safe (snd nv) = true) fs.
Proof.
  induction fs as [|[n v] tl IH]; intros H; constructor.
  - apply andb_true_iff in H. tauto.
  - apply IH. apply andb_true_iff in H. tauto.
Qed.

Lemma safe_list l :
  (fix go (l : list msg) : bool := match l with [] => true | x :: tl => safe x && go tl end) l = true ->
  Forall (fun x => safe x = true) l.
Proof.
  induction l as [|x tl IH]; intros H; constructor.
  - apply andb_true_iff in H. tauto.
  - apply IH. apply andb_true_iff in H. tauto.
Qed.

Lemma safe_bounded (m : msg) : safe m = true -> bounded m.
Proof.
  intros H. split; [apply safe_leaf_bounded; exact H|].
  destruct m; auto. cbn [safe] in H. apply safe_comp_fields in H.
  eapply Forall_impl; [|exact H]. intros a Ha. apply safe_leaf_bounded. exact Ha.
Qed.

Lemma sig_lookup_fields name fs b :
  sig_lookup name (map (fun nv : string * msg => (fst nv, leaf_max (snd nv))) fs) = Some b ->
  exists f, lookup name fs = Some f /\ leaf_max f = Some b.
Proof.
  induction fs as [|[n v] tl IH]; cbn; intros H; [discriminate|].
  destruct (String.eqb n name); eauto.
Qed.

Lemma lookup_in name fs f : lookup name fs = Some f -> In (name, f) fs \/ exists n, In (n, f) fs.
Proof.
  induction fs as [|[n v] tl IH]; cbn; intros H; [discriminate|].
  destruct (String.eqb n name) eqn:E.
  - inversion H; subst. right. exists n. left. reflexivity.
  - destruct (IH H) as [Hi|[n' Hi]]; [left; right; exact Hi|right; exists n'; right; exact Hi].
Qed.

Lemma two64_pow : 2 ^ usize_bits = two64.
Proof. reflexivity. Qed.

(* a closure expression that the checker bounds evaluates without trapping, within the bound *)
Lemma eval_cexp_bound p self e b :
  bounded self ->
  cexp_max (leaf_max self) (fields_sig self) e = Some b ->
  exists n, eval_cexp p self e = Ok n /\ n <= b.
Proof.
  intros [Hlb Hfb]. revert b. induction e as [|name|e IH k|e IH k|e IH k|e IH k]; cbn [cexp_max eval_cexp]; intros b Hb.
  - destruct (leaf_max_num self b Hb) as [v [Hn Hv]]. rewrite Hn. exists v. split; auto.
    destruct Hlb as [Hlb _]. rewrite Hv, Hb in Hlb. exact Hlb.
  - destruct self; cbn [fields_sig] in Hb; try discriminate.
    destruct (sig_lookup_fields name fs b Hb) as [f [Hl Hm]].
    cbn [comp_of]. rewrite Hl.
    destruct (leaf_max_num f b Hm) as [v [Hn Hv]]. rewrite Hn. exists v. split; auto.
    assert (Hin : exists n, In (n, f) fs) by (destruct (lookup_in _ _ _ Hl) as [H|H]; eauto).
    destruct Hin as [n Hin]. rewrite Forall_forall in Hfb. specialize (Hfb (n, f) Hin). cbn [snd] in Hfb.
    destruct Hfb as [Hfb _]. rewrite Hv, Hm in Hfb. exact Hfb.
  - discriminate.
  - destruct (IH b Hb) as [n [He Hn]]. rewrite He. cbn [obind]. exists (n - k). split; auto. lia.
  - destruct (cexp_max (leaf_max self) (fields_sig self) e) as [b'|]; [|discriminate].
    destruct (b' + k <? two64) eqn:Hlt; [|discriminate]. inversion Hb; subst b. apply N.ltb_lt in Hlt.
    destruct (IH b' eq_refl) as [n [He Hn]]. rewrite He. cbn [obind]. unfold add_w. rewrite two64_pow.
    destruct (N.ltb_spec (n + k) two64); [|lia]. exists (n + k). split; auto. lia.
  - destruct (cexp_max (leaf_max self) (fields_sig self) e) as [b'|]; [|discriminate].
    destruct (b' * k <? two64) eqn:Hlt; [|discriminate]. inversion Hb; subst b. apply N.ltb_lt in Hlt.
    destruct (IH b' eq_refl) as [n [He Hn]]. rewrite He. cbn [obind]. unfold mul_w. rewrite two64_pow.
    assert (n * k <= b' * k) by (apply N.mul_le_mono_r; exact Hn).
    destruct (N.ltb_spec (n * k) two64); [|lia]. exists (n * k). split; auto.
Qed.

(* options of a value that was read: no panic, sizes within the static bound *)
Definition opts_ok (p : prof) (m' : msg) (B : N) : Prop :=
  options p m' <> OPanic /\ forall f n, options p m' = OSize f n -> n <= B /\ n <= isize_max.

Lemma opts_ok_dyn p inner c B :
  bounded inner ->
  (forall b, clo_bound inner c = Some b -> b <= B) ->
  clo_bound inner c <> None ->
  opts_ok p (MDyn inner c) B.
Proof.
  intros Hb HB Hne. unfold opts_ok. cbn [options].
  destruct c as [|t e|cc t]; cbn [eval_clo clo_bound] in *.
  - split; [discriminate|]. intros f n H; discriminate.
  - destruct (cexp_max (leaf_max inner) (fields_sig inner) e) as [b|] eqn:Hc; [|congruence].
    destruct (b <=? isize_max) eqn:Hle; [|congruence]. apply N.leb_le in Hle.
    destruct (eval_cexp_bound p inner e b Hb Hc) as [n [He Hn]]. rewrite He.
    split; [discriminate|]. intros f n' H. inversion H; subst. specialize (HB b eq_refl). lia.
  - destruct (leaf_max inner) as [b|] eqn:Hl; [|congruence].
    destruct (leaf_max_num inner b Hl) as [v [Hn _]]. rewrite Hn.
    destruct (eval_cond v cc); split; try discriminate; intros f n H; discriminate.
Qed.

Lemma opts_ok_nodyn p m B :
  (forall i c, m <> MDyn i c) -> opts_ok p m B.
Proof.
  intros H. unfold opts_ok. destruct m; cbn [options]; try (split; [discriminate|intros f n Hx; discriminate]).
  exfalso. eapply H. reflexivity.
Qed.

(* ---------------------------------------------------------------- the safety theorem *)
Definition post (p : prof) (m : msg) (input : bytes) (r : rres) : Prop :=
  match r with
  | ROk m' rest a =>
      leaf_max m' = leaf_max m /\ fields_sig m' = fields_sig m /\ bounded m' /\
      wf_bytes rest /\ nlen rest + min_consume m <= nlen input /\
      a <= alloc_bound m /\ opts_ok p m' (alloc_bound m)
  | RErr e rest a => wf_bytes rest /\ nlen rest <= nlen input /\ a <= alloc_bound m
  | RPanic | RSpin => False
  end.

Definition good (p : prof) (rd : msg -> bytes -> rres) (m : msg) : Prop :=
  forall input, wf_bytes input -> post p m input (rd m input).

Lemma wf_nil : wf_bytes []. Proof. constructor. Qed.

Lemma take_spec (n : nat) (input a b : bytes) :
  take n input = Some (a, b) -> input = a ++ b /\ List.length a = n.
Proof.
  unfold take. destruct (Nat.leb n (List.length input)) eqn:E; [|discriminate].
  intros H. inversion H; subst. apply Nat.leb_le in E. split; [symmetry; apply firstn_skipn|].
  apply firstn_length_le. exact E.
Qed.

Lemma wf_app_inv (a b : bytes) : wf_bytes (a ++ b) -> wf_bytes a /\ wf_bytes b.
Proof. unfold wf_bytes. intros H. apply Forall_app in H. exact H. Qed.


Section Loops.
Variable p : prof.
Variable rd : msg -> bytes -> rres.

Fixpoint sum_min (l : list msg) : N := match l with [] => 0 | x :: tl => min_consume x + sum_min tl end.

Lemma read_trame_ok :
  forall l, Forall (good p rd) l ->
  forall input acc a B, wf_bytes input -> a <= B -> Forall (fun x => alloc_bound x <= B) l ->
    match read_trame rd l input acc a with
    | ROk m' rest a' => (exists l', m' = MTrame l') /\ wf_bytes rest /\ nlen rest + sum_min l <= nlen input /\ a' <= B
    | RErr e rest a' => wf_bytes rest /\ nlen rest <= nlen input /\ a' <= B
    | RPanic | RSpin => False
    end.
Proof.
  induction l as [|x tl IH]; intros Hg input acc a B Hwf Ha HB; cbn [read_trame sum_min].
  - split; [eexists; reflexivity|]. repeat split; auto. lia.
  - inversion Hg as [|? ? Hx Htl]; subst. inversion HB as [|? ? HBx HBtl]; subst.
    specialize (Hx input Hwf). unfold post in Hx.
    destruct (rd x input) as [x' r a'|e r a'| |]; auto.
    + destruct Hx as [_ [_ [_ [Hwr [Hlen [Hal _]]]]]].
      specialize (IH Htl r (x' :: acc) (N.max a a') B Hwr).
      assert (Hmax : N.max a a' <= B) by lia.
      specialize (IH Hmax HBtl).
      destruct (read_trame rd tl r (x' :: acc) (N.max a a')) as [m' rest a''|e rest a''| |]; auto.
      * destruct IH as [Hex [Hw [Hl Ha'']]]. repeat split; auto. lia.
      * destruct IH as [Hw [Hl Ha'']]. repeat split; auto. lia.
    + destruct Hx as [Hwr [Hlen Hal]]. repeat split; auto. lia.
Qed.

Definition sigf (nv : string * msg) : string * option N := (fst nv, leaf_max (snd nv)).

Definition dyn_ok (B : N) (dyn : list (string * N)) : Prop :=
  Forall (fun fn => snd fn <= B /\ snd fn <= isize_max) dyn.

Lemma dyn_lookup_ok B dyn name n : dyn_ok B dyn -> dyn_lookup name dyn = Some n -> n <= B /\ n <= isize_max.
Proof.
  induction dyn as [|[x k] tl IH]; cbn; intros Hd H; [discriminate|].
  inversion Hd as [|? ? Hk Htl]; subst. destruct (String.eqb x name); [inversion H; subst; exact Hk|auto].
Qed.

Lemma read_field_ok :
  forall v input size B,
    good p rd v -> wf_bytes input -> alloc_bound v <= B ->
    (forall n, size = Some n -> n <= B /\ n <= isize_max) ->
    match read_field rd v input size with
    | ROk v' rest a' =>
        leaf_max v' = leaf_max v /\ fields_sig v' = fields_sig v /\ bounded v' /\ wf_bytes rest /\
        nlen rest <= nlen input /\ (size = None -> nlen rest + min_consume v <= nlen input) /\
        a' <= B /\ opts_ok p v' (alloc_bound v)
    | RErr e rest a' => wf_bytes rest /\ nlen rest <= nlen input /\ a' <= B
    | RPanic | RSpin => False
    end.
Proof.
  intros v input size B Hg Hwf HB Hsz. unfold read_field.
  destruct size as [n|].
  - destruct (Hsz n eq_refl) as [HnB Hni].
    destruct (N.ltb_spec isize_max n) as [Hlt|_]; [lia|].
    destruct (take (N.to_nat n) input) as [[local rest]|] eqn:Ht.
    + destruct (take_spec _ _ _ _ Ht) as [Heq Hlen]. subst input.
      destruct (wf_app_inv _ _ Hwf) as [Hwl Hwr].
      specialize (Hg local Hwl). unfold post in Hg.
      destruct (rd v local) as [v' r a'|e r a'| |]; auto.
      * destruct Hg as [H1 [H2 [H3 [_ [_ [H6 H7]]]]]]. rewrite nlen_app.
        split; [exact H1|]. split; [exact H2|]. split; [exact H3|]. split; [exact Hwr|].
        split; [lia|]. split; [intros Hx; discriminate|]. split; [lia|exact H7].
      * destruct Hg as [_ [_ H6]]. rewrite nlen_app. repeat split; auto; lia.
    + repeat split; auto using wf_nil. rewrite nlen_nil. lia.
  - specialize (Hg input Hwf). unfold post in Hg.
    destruct (rd v input) as [v' r a'|e r a'| |]; auto.
    + destruct Hg as [H1 [H2 [H3 [H4 [H5 [H6 H7]]]]]].
      split; [exact H1|]. split; [exact H2|]. split; [exact H3|]. split; [exact H4|].
      split; [lia|]. split; [intros _; exact H5|]. split; [lia|exact H7].
    + destruct Hg as [H1 [H2 H3]]. repeat split; auto; lia.
Qed.

Lemma read_comp_ok :
  forall fs, Forall (fun nv => good p rd (snd nv)) fs ->
  forall input skip dyn acc a B,
    wf_bytes input -> a <= B ->
    Forall (fun nv => alloc_bound (snd nv) <= B) fs ->
    Forall (fun nv => leaf_bounded (snd nv)) fs ->
    Forall (fun nv => leaf_bounded (snd nv)) acc ->
    dyn_ok B dyn ->
    match read_comp p rd fs input skip dyn acc a with
    | ROk m' rest a' =>
        (exists fs', m' = MComp fs' /\ map sigf fs' = map sigf (rev acc) ++ map sigf fs /\
                     Forall (fun nv => leaf_bounded (snd nv)) fs') /\
        wf_bytes rest /\ nlen rest <= nlen input /\ a' <= B
    | RErr e rest a' => wf_bytes rest /\ nlen rest <= nlen input /\ a' <= B
    | RPanic | RSpin => False
    end.
Proof.
  induction fs as [|[name v] tl IH]; intros Hg input skip dyn acc a B Hwf Ha HB Hlb Hacc Hdyn; cbn [read_comp].
  - split; [|repeat split; auto; lia].
    exists (rev acc). split; [reflexivity|]. split; [cbn; rewrite app_nil_r; reflexivity|].
    apply Forall_rev. exact Hacc.
  - inversion Hg as [|? ? Hv Htl]; subst. inversion HB as [|? ? HBv HBtl]; subst.
    inversion Hlb as [|? ? Hlv Hltl]; subst. cbn [snd] in *.
    assert (Hsig : forall v' : msg, leaf_max v' = leaf_max v ->
              map sigf (rev ((name, v') :: acc)) ++ map sigf tl = map sigf (rev acc) ++ map sigf ((name, v) :: tl)).
    { intros v' Hl. cbn [rev map]. rewrite map_app. cbn [map]. rewrite <- app_assoc. cbn [app].
      unfold sigf at 2 4. cbn [fst snd]. rewrite Hl. reflexivity. }
    destruct (mem name skip).
    + specialize (IH Htl input skip dyn ((name, v) :: acc) a B Hwf Ha HBtl Hltl).
      assert (Hacc' : Forall (fun nv => leaf_bounded (snd nv)) ((name, v) :: acc)) by (constructor; auto).
      specialize (IH Hacc' Hdyn).
      destruct (read_comp p rd tl input skip dyn ((name, v) :: acc) a) as [m' rest a'|e rest a'| |]; auto.
      destruct IH as [[fs' [Hm [Hs Hf]]] Hrest]. split; auto.
      exists fs'. split; auto. split; auto. rewrite Hs. apply Hsig. reflexivity.
    + pose proof (read_field_ok v input (dyn_lookup name dyn) B Hv Hwf HBv) as Hf.
      assert (Hsz : forall n, dyn_lookup name dyn = Some n -> n <= B /\ n <= isize_max)
        by (intros n Hn; eapply dyn_lookup_ok; eauto).
      specialize (Hf Hsz).
      destruct (read_field rd v input (dyn_lookup name dyn)) as [v' rest a'|e rest a'| |]; auto.
      * destruct Hf as [H1 [H2 [H3 [H4 [H5 [_ [H7 [Hop1 Hop2]]]]]]]].
        assert (Hacc' : Forall (fun nv => leaf_bounded (snd nv)) ((name, v') :: acc))
          by (constructor; auto; destruct H3; auto).
        assert (Hmax : N.max a a' <= B) by lia.
        destruct (options p v') as [|f|f n|] eqn:Hopt; [| | |congruence].
        -- specialize (IH Htl rest skip dyn ((name, v') :: acc) (N.max a a') B H4 Hmax HBtl Hltl Hacc' Hdyn).
           destruct (read_comp p rd tl rest skip dyn ((name, v') :: acc) (N.max a a')) as [m' r2 a2|e r2 a2| |]; auto.
           ++ destruct IH as [[fs' [Hm [Hs Hfb]]] [Hw [Hl Ha2]]]. split; [|repeat split; auto; lia].
              exists fs'. split; auto. split; auto. rewrite Hs. apply Hsig. exact H1.
           ++ destruct IH as [Hw [Hl Ha2]]. repeat split; auto; lia.
        -- specialize (IH Htl rest (f :: skip) dyn ((name, v') :: acc) (N.max a a') B H4 Hmax HBtl Hltl Hacc' Hdyn).
           destruct (read_comp p rd tl rest (f :: skip) dyn ((name, v') :: acc) (N.max a a')) as [m' r2 a2|e r2 a2| |]; auto.
           ++ destruct IH as [[fs' [Hm [Hs Hfb]]] [Hw [Hl Ha2]]]. split; [|repeat split; auto; lia].
              exists fs'. split; auto. split; auto. rewrite Hs. apply Hsig. exact H1.
           ++ destruct IH as [Hw [Hl Ha2]]. repeat split; auto; lia.
        -- assert (Hdyn' : dyn_ok B ((f, n) :: dyn)).
           { constructor; auto. cbn [snd]. destruct (Hop2 f n eq_refl). split; lia. }
           specialize (IH Htl rest skip ((f, n) :: dyn) ((name, v') :: acc) (N.max a a') B H4 Hmax HBtl Hltl Hacc' Hdyn').
           destruct (read_comp p rd tl rest skip ((f, n) :: dyn) ((name, v') :: acc) (N.max a a')) as [m' r2 a2|e r2 a2| |]; auto.
           ++ destruct IH as [[fs' [Hm [Hs Hfb]]] [Hw [Hl Ha2]]]. split; [|repeat split; auto; lia].
              exists fs'. split; auto. split; auto. rewrite Hs. apply Hsig. exact H1.
           ++ destruct IH as [Hw [Hl Ha2]]. repeat split; auto; lia.
      * destruct Hf as [H1 [H2 H3]]. repeat split; auto; lia.
Qed.
End Loops.

Lemma read_array_ok p rdt mk tmpl :
  (forall input, wf_bytes input -> post p tmpl input (rdt input)) ->
  1 <= min_consume tmpl ->
  forall fuel input acc a B,
    wf_bytes input -> (List.length input < fuel)%nat -> a <= B -> alloc_bound tmpl <= B ->
    match read_array rdt mk fuel input acc a with
    | ROk m' rest a' => (exists l, m' = mk l) /\ wf_bytes rest /\ nlen rest <= nlen input /\ a' <= B
    | RErr e rest a' => False
    | RPanic | RSpin => False
    end.
Proof.
  intros Hg Hmin. induction fuel as [|fuel IH]; intros input acc a B Hwf Hfuel Ha HB; [lia|].
  cbn [read_array]. specialize (Hg input Hwf). unfold post in Hg.
  destruct (rdt input) as [e r a'|e r a'| |]; auto.
  - destruct Hg as [_ [_ [_ [Hwr [Hlen [Hal _]]]]]].
    assert (Hlt : (List.length r < List.length input)%nat) by (unfold nlen in Hlen; lia).
    destruct (Nat.eqb_spec (List.length r) (List.length input)) as [Heq|_]; [lia|].
    assert (Hmax : N.max a a' <= B) by lia.
    specialize (IH r (e :: acc) (N.max a a') B Hwr).
    assert (Hf' : (List.length r < fuel)%nat) by lia.
    specialize (IH Hf' Hmax HB).
    destruct (read_array rdt mk fuel r (e :: acc) (N.max a a')) as [m' rest a''|? ? ?| |]; auto.
    destruct IH as [Hex [Hw [Hl Ha'']]]. repeat split; auto. unfold nlen in *. lia.
  - destruct Hg as [Hwr [Hlen Hal]]. split; [eexists; reflexivity|]. repeat split; auto. lia.
Qed.

(* ---- the theorem ---- *)
Lemma byte_lt (b : N) (r : bytes) : wf_bytes (b :: r) -> b < 256 /\ wf_bytes r.
Proof. intros H. inversion H; subst. auto. Qed.

Lemma min_consume_trame l :
  (fix go (l : list msg) : N := match l with [] => 0 | x :: tl => min_consume x + go tl end) l = sum_min l.
Proof. induction l; cbn; auto. Qed.

Lemma alloc_trame_forall l B :
  (fix go (l : list msg) : N := match l with [] => 0 | x :: tl => N.max (alloc_bound x) (go tl) end) l <= B ->
  Forall (fun x => alloc_bound x <= B) l.
Proof.
  induction l as [|x tl IH]; intros H; constructor.
  - lia.
  - apply IH. lia.
Qed.

Lemma alloc_comp_forall fs B :
  (fix go (fs : list (string * msg)) : N :=
     match fs with [] => 0 | (_, v) :: tl => N.max (alloc_bound v) (go tl) end) fs <= B ->
  Forall (fun nv => alloc_bound (snd nv) <= B) fs.
Proof.
  induction fs as [|[n v] tl IH]; intros H; constructor.
  - cbn [snd]. lia.
  - apply IH. lia.
Qed.

Lemma fields_sig_comp fs : fields_sig (MComp fs) = map sigf fs.
Proof. reflexivity. Qed.

Lemma Forall_and_safe {A} (P : A -> Prop) (f : A -> bool) l :
  Forall (fun x => f x = true -> P x) l -> Forall (fun x => f x = true) l -> Forall P l.
Proof.
  intros H1 H2. induction l; constructor; inversion H1; inversion H2; subst; auto.
Qed.

Ltac fin :=
  try (intros ? ? ?; discriminate); try discriminate; auto using wf_nil;
  try (unfold leaf_bounded; cbn [leaf_val leaf_max bytes_of]; split; [exact I|intros ? Hbo; discriminate]);
  try (cbn [leaf_val leaf_max]; exact I);
  try (intros ? Hbo; cbn [bytes_of] in Hbo; discriminate);
  try (cbn [min_consume alloc_bound]; rewrite ?nlen_app, ?nlen_cons, ?nlen_nil; lia);
  try (cbn; lia).

Theorem read_safe : forall p m, safe m = true -> good p (read p) m.
Proof.
  intros p m. induction m using msg_ind'; intros Hs input Hwf; unfold post; cbn [read].
  - (* u8 *)
    destruct input as [|b r]; [repeat split; fin|].
    destruct (byte_lt b r Hwf) as [Hb Hr].
    repeat split; fin; try (cbn [leaf_val leaf_max]; lia).
  - (* u16 *)
    destruct input as [|b0 [|b1 r]]; [repeat split; fin|repeat split; fin|].
    destruct (byte_lt b0 _ Hwf) as [Hb0 Hr0]. destruct (byte_lt b1 _ Hr0) as [Hb1 Hr].
    repeat split; fin; try (cbn [leaf_val leaf_max]; destruct e; unfold of_be16, of_le16; lia).
  - (* u32 *)
    destruct input as [|b0 [|b1 [|b2 [|b3 r]]]]; [repeat split; fin|repeat split; fin|repeat split; fin|repeat split; fin|].
    destruct (byte_lt b0 _ Hwf) as [Hb0 Hr0]. destruct (byte_lt b1 _ Hr0) as [Hb1 Hr1].
    destruct (byte_lt b2 _ Hr1) as [Hb2 Hr2]. destruct (byte_lt b3 _ Hr2) as [Hb3 Hr].
    repeat split; fin; try (cbn [leaf_val leaf_max]; destruct e; unfold of_be32, of_le32; lia).
  - (* bytes *)
    destruct b as [|b0 b'].
    + repeat split; fin; try (intros bb Hbo; cbn [bytes_of] in Hbo; inversion Hbo; subst; assumption).
    + destruct (take (List.length (b0 :: b')) input) as [[x r]|] eqn:Ht.
      * destruct (take_spec _ _ _ _ Ht) as [Heq Hlen]. subst input.
        destruct (wf_app_inv _ _ Hwf) as [Hwx Hwr].
        repeat split; fin; try (rewrite nlen_app; cbn [min_consume]; unfold nlen; rewrite Hlen; lia);
          try (intros bb Hbo; cbn [bytes_of] in Hbo; inversion Hbo; subst; assumption).
      * repeat split; fin.
  - (* trame *)
    cbn [safe] in Hs. apply safe_list in Hs.
    assert (Hg : Forall (good p (read p)) l).
    { eapply Forall_and_safe; [|exact Hs]. eapply Forall_impl; [|exact H]. cbv beta. intros a Ha Hsa. apply Ha. exact Hsa. }
    pose proof (read_trame_ok p (read p) l Hg input [] 0 (alloc_bound (MTrame l)) Hwf (N.le_0_l _)) as Hr.
    assert (HB : Forall (fun x => alloc_bound x <= alloc_bound (MTrame l)) l)
      by (apply alloc_trame_forall; cbn [alloc_bound]; lia).
    specialize (Hr HB).
    destruct (read_trame (read p) l input [] 0) as [m' rest a'|e rest a'| |]; auto.
    destruct Hr as [[l' ->] [Hw [Hl Ha]]].
    repeat split; fin; try (cbn [min_consume]; rewrite min_consume_trame; exact Hl).
  - (* component *)
    cbn [safe] in Hs. apply safe_comp_fields in Hs.
    assert (Hg : Forall (fun nv => good p (read p) (snd nv)) fs).
    { eapply Forall_and_safe with (f := fun nv => safe (snd nv)); [|exact Hs].
      eapply Forall_impl; [|exact H]. cbv beta. intros a Ha Hsa. apply Ha. exact Hsa. }
    assert (HB : Forall (fun nv => alloc_bound (snd nv) <= alloc_bound (MComp fs)) fs)
      by (apply alloc_comp_forall; cbn [alloc_bound]; lia).
    assert (Hlb : Forall (fun nv => leaf_bounded (snd nv)) fs)
      by (eapply Forall_impl; [|exact Hs]; intros a Ha; apply safe_leaf_bounded; exact Ha).
    destruct fs as [|[name v] tl].
    + cbn [read_comp rev]. repeat split; fin.
    + (* the first field is always read directly: it gives the minimum consumption *)
      cbn [read_comp mem dyn_lookup].
      inversion Hg as [|? ? Hv Htl]; subst. inversion HB as [|? ? HBv HBtl]; subst.
      inversion Hlb as [|? ? Hlv Hltl]; subst. cbn [snd] in *.
      pose proof (read_field_ok p (read p) v input None _ Hv Hwf HBv) as Hf.
      assert (Hsz : forall n : N, @None N = Some n -> n <= alloc_bound (MComp ((name, v) :: tl)) /\ n <= isize_max)
        by (intros n Hn; discriminate).
      specialize (Hf Hsz).
      destruct (read_field (read p) v input None) as [v' rest a'|e rest a'| |]; auto.
      * destruct Hf as [H1 [H2 [H3 [H4 [H5 [H6 [H7 [Hop1 Hop2]]]]]]]]. specialize (H6 eq_refl).
        assert (Hacc : Forall (fun nv : string * msg => leaf_bounded (snd nv)) [(name, v')])
          by (constructor; [destruct H3; auto|constructor]).
        assert (Hmax : N.max 0 a' <= alloc_bound (MComp ((name, v) :: tl))) by lia.
        assert (Hfin : forall skip dyn, dyn_ok (alloc_bound (MComp ((name, v) :: tl))) dyn ->
                  match read_comp p (read p) tl rest skip dyn [(name, v')] (N.max 0 a') with
                  | ROk m' rest0 a0 =>
                      leaf_max m' = leaf_max (MComp ((name, v) :: tl)) /\
                      fields_sig m' = fields_sig (MComp ((name, v) :: tl)) /\ bounded m' /\ wf_bytes rest0 /\
                      nlen rest0 + min_consume (MComp ((name, v) :: tl)) <= nlen input /\
                      a0 <= alloc_bound (MComp ((name, v) :: tl)) /\
                      opts_ok p m' (alloc_bound (MComp ((name, v) :: tl)))
                  | RErr _ rest0 a0 => wf_bytes rest0 /\ nlen rest0 <= nlen input /\ a0 <= alloc_bound (MComp ((name, v) :: tl))
                  | _ => False
                  end).
        { intros skip dyn Hdyn.
          pose proof (read_comp_ok p (read p) tl Htl rest skip dyn [(name, v')] (N.max 0 a') _ H4 Hmax HBtl Hltl Hacc Hdyn) as Hr.
          destruct (read_comp p (read p) tl rest skip dyn [(name, v')] (N.max 0 a')) as [m' r2 a2|e r2 a2| |]; auto.
          - destruct Hr as [[fs' [-> [Hsg Hfb]]] [Hw [Hl Ha2]]].
            split; [reflexivity|]. split.
            { rewrite !fields_sig_comp. rewrite Hsg. cbn [rev app map]. unfold sigf at 1 3. cbn [fst snd]. rewrite H1. reflexivity. }
            split; [split; [unfold leaf_bounded; cbn [leaf_val leaf_max bytes_of]; split; [exact I|intros ? Hbo; discriminate]|exact Hfb]|].
            split; [exact Hw|]. split; [cbn [min_consume]; lia|]. split; [exact Ha2|].
            apply opts_ok_nodyn. intros i c Hx. discriminate.
          - destruct Hr as [Hw [Hl Ha2]]. repeat split; auto. lia. }
        destruct (options p v') as [|f|f n|] eqn:Hopt; [| | |congruence].
        -- apply Hfin. constructor.
        -- apply Hfin. constructor.
        -- apply Hfin. constructor; [|constructor]. cbn [snd]. destruct (Hop2 f n eq_refl). split; lia.
      * destruct Hf as [H1 [H2 H3]]. repeat split; auto; lia.
  - (* check *)
    specialize (IHm Hs input Hwf). unfold post in IHm.
    destruct (read p m input) as [new r a|e r a| |]; auto.
    destruct IHm as [H1 [H2 [H3 [H4 [H5 [H6 H7]]]]]].
    destruct (check_eq m new).
    + repeat split; fin; try (destruct H3 as [[H3 _] _]; exact H3);
        try (intros bb Hbo; cbn [bytes_of] in Hbo; destruct H3 as [[_ H3] _]; exact (H3 bb Hbo)).
    + repeat split; fin; try (cbn [min_consume] in H5; lia).
  - (* dyn *)
    cbn [safe] in Hs. apply andb_true_iff in Hs. destruct Hs as [Hs Hc].
    specialize (IHm Hs input Hwf). unfold post in IHm.
    destruct (read p m input) as [new r a|e r a| |]; auto.
    + destruct IHm as [H1 [H2 [H3 [H4 [H5 [H6 H7]]]]]].
      assert (Hcb : clo_bound new c = clo_bound m c).
      { unfold clo_bound. rewrite H1, H2. reflexivity. }
      split; [reflexivity|]. split; [reflexivity|].
      split; [split; [unfold leaf_bounded; cbn [leaf_val leaf_max bytes_of]; split; [exact I|destruct H3 as [[_ H3] _]; exact H3]|exact I]|].
      split; [exact H4|]. split; [exact H5|]. split; [cbn [alloc_bound]; lia|].
      apply opts_ok_dyn; auto.
      * intros b Hb. rewrite Hcb in Hb. cbn [alloc_bound]. rewrite Hb. lia.
      * rewrite Hcb. destruct (clo_bound m c); [discriminate|discriminate Hc].
    + destruct IHm as [H1 [H2 H3]]. repeat split; auto. cbn [alloc_bound]. lia.
  - (* None *)
    repeat split; fin.
  - (* Some *)
    cbn [safe] in Hs. specialize (IHm Hs input Hwf). unfold post in IHm.
    destruct (read p m input) as [new r a|e r a| |]; auto.
    + destruct IHm as [H1 [H2 [H3 [H4 [H5 [H6 H7]]]]]].
      repeat split; fin; try (intros bb Hbo; cbn [bytes_of] in Hbo; destruct H3 as [[_ H3] _]; exact (H3 bb Hbo)).
    + destruct IHm as [H1 [H2 H3]].
      repeat split; fin.
  - (* array without factory *)
    cbn [safe] in Hs. discriminate.
  - (* array *)
    rename m into t.
    cbn [safe] in Hs. apply andb_true_iff in Hs. destruct Hs as [Hs Hmin].
    apply andb_true_iff in Hs. destruct Hs as [_ Hst]. apply N.leb_le in Hmin.
    pose proof (read_array_ok p (read p t) (fun l0 => MArray (l ++ l0) (Some t)) t (IHm Hst) Hmin
                  (S (List.length input)) input [] 0 (alloc_bound t) Hwf (Nat.lt_succ_diag_r _) (N.le_0_l _) (N.le_refl _)) as Hr.
    destruct (read_array (read p t) (fun l0 => MArray (l ++ l0) (Some t)) (S (List.length input)) input [] 0)
      as [m' rest a'|e rest a'| |]; auto; [|contradiction].
    destruct Hr as [[l0 ->] [Hw [Hl Ha]]].
    repeat split; fin.
Qed.

(* the form used by the glue models *)
Corollary read_no_crash :
  forall p m input, safe m = true -> wf_bytes input ->
    read p m input <> RPanic /\ read p m input <> RSpin.
Proof.
  intros p m input Hs Hwf. pose proof (read_safe p m Hs input Hwf) as H. unfold post in H.
  destruct (read p m input); split; try discriminate; contradiction.
Qed.

Corollary read_alloc :
  forall p m input, safe m = true -> wf_bytes input ->
    match read p m input with
    | ROk _ _ a | RErr _ _ a => a <= alloc_bound m
    | _ => True
    end.
Proof.
  intros p m input Hs Hwf. pose proof (read_safe p m Hs input Hwf) as H. unfold post in H.
  destruct (read p m input); auto; tauto.
Qed.

Corollary read_wf :
  forall p m input m' rest a, safe m = true -> wf_bytes input ->
    read p m input = ROk m' rest a -> wf_bytes rest /\ nlen rest <= nlen input.
Proof.
  intros p m input m' rest a Hs Hwf Hr. pose proof (read_safe p m Hs input Hwf) as H. unfold post in H.
  rewrite Hr in H. destruct H as [_ [_ [_ [H4 [H5 _]]]]]. split; auto. lia.
Qed.
