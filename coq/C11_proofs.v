From RdpV Require Import Base Msg LayoutsGlobal Link Tpkt Global RefInput C12_proofs.
Open Scope list_scope.
Open Scope N_scope.

Definition to_ref (e : input_ev) : option rinput :=
  match e with
  | EvPointer x y b d => Some (RPointer x y (match b with BNone => RNone | BLeft => RLeft | BRight => RRight | BMiddle => RMiddle end) d)
  | EvKey c d => Some (RKey c d)
  | EvBitmap => None
  end.

Definition share_of (s : session) : N := match share_id s with Some x => x | None => 0 end.

Lemma pointer_flags_ref b d :
  pointer_flags b d =
  ref_pointer_flags (match b with BNone => RNone | BLeft => RLeft | BRight => RRight | BMiddle => RMiddle end) d.
Proof. destruct b, d; reflexivity. Qed.

(* In the window, a submitted pointer or keyboard event produces exactly one frame, and it
   is byte for byte the reference encoding of THAT event with the identifiers the server
   assigned -- for every x, y, scancode, button, press state, user id and share id. *)
Theorem client_write_exact :
  forall p s e r,
    st s = SData -> to_ref e = Some r ->
    client_write p s e = mkStep s (Ok tt) [ref_input_frame (user_id s) (channel_id s) (share_of s) r] [].
Proof.
  intros p s e r Hst Hr. unfold client_write, write_input_event. rewrite Hst.
  destruct e as [x y b d|c d|]; cbn [to_ref] in Hr; inversion Hr; subst r; clear Hr.
  - rewrite pointer_flags_ref. reflexivity.
  - reflexivity.
Qed.

Theorem client_write_unsendable :
  forall p s e, to_ref e = None -> client_write p s e = mkStep s (Err EUnexpectedType) [] [].
Proof. intros p s e H. destruct e; cbn in H; try discriminate. reflexivity. Qed.

(* sequences: each event exactly once, in submission order *)
Fixpoint write_all_events (p : prof) (s : session) (es : list input_ev) : list bytes :=
  match es with
  | [] => []
  | e :: tl => let r := client_write p s e in r_wire r ++ write_all_events p (r_session r) tl
  end.

Theorem client_write_sequence :
  forall p es rs s,
    st s = SData -> map to_ref es = map Some rs ->
    write_all_events p s es = map (ref_input_frame (user_id s) (channel_id s) (share_of s)) rs.
Proof.
  intros p es. induction es as [|e tl IH]; intros rs s Hst Hmap; destruct rs as [|r rs']; cbn in Hmap; try discriminate.
  - reflexivity.
  - injection Hmap as Hr Htl. cbn [write_all_events map].
    rewrite (client_write_exact p s e r Hst Hr). cbn [r_wire r_session app].
    f_equal. apply IH; auto.
Qed.

(* server traffic read between two writes cannot change what a later write carries except
   through the share id the server assigns: the identifiers are stable *)
Lemma data_pdus_ids p : forall l s,
  user_id (fst (data_pdus p s l)) = user_id s /\ channel_id (fst (data_pdus p s l)) = channel_id s /\
  share_id (fst (data_pdus p s l)) = share_id s.
Proof.
  intros l s. destruct (data_pdus_only_state p l s) as [-> | ->]; auto.
Qed.

Theorem client_read_ids :
  forall p s frame,
    let r := client_read p s frame in
    user_id (r_session r) = user_id s /\ channel_id (r_session r) = channel_id s /\
    (st s <> SDemandActive -> share_id (r_session r) = share_id s).
Proof.
  intros p s frame. unfold client_read.
  destruct (frame_payload frame) as [pl| | |]; cbn [lift done r_session]; auto.
  destruct (mcs_read s pl) as [pl'| | |]; cbn [lift done r_session]; auto.
  unfold global_read. destruct (st s) eqn:Hst; destruct pl' as [b|f b]; cbn [done r_session]; auto.
  - pose proof (read_demand_active_spec p s b) as H. cbv zeta in H.
    destruct H as [_ [[Hw Hs]|[sid [m [f0 [fs [Hp [Hsid [Hsess _]]]]]]]]].
    + unfold read_demand_active in *.
      destruct (pdu_from_stream p b) as [[t m]| | |]; cbn [lift done r_session]; auto; try tauto.
      destruct (negb (t =? PDUTYPE_DEMANDACTIVE)); cbn [lift done r_session]; try tauto.
      repeat (match goal with |- context [lift ?s0 ?o _] => destruct o; cbn [lift done r_session] end); auto; try tauto.
    + rewrite Hsess. cbn. tauto.
  - pose proof (read_expect_data_spec p s b PDUTYPE2_SYNCHRONIZE None SControlCooperate) as H. cbv zeta in H.
    destruct H as [_ [_ [-> |[-> _]]]]; auto.
  - pose proof (read_expect_data_spec p s b PDUTYPE2_CONTROL (Some CTRLACTION_COOPERATE) SControlGranted) as H. cbv zeta in H.
    destruct H as [_ [_ [-> |[-> _]]]]; auto.
  - pose proof (read_expect_data_spec p s b PDUTYPE2_CONTROL (Some CTRLACTION_GRANTED_CONTROL) SFontMap) as H. cbv zeta in H.
    destruct H as [_ [_ [-> |[-> _]]]]; auto.
  - pose proof (read_expect_data_spec p s b PDUTYPE2_FONTMAP None SData) as H. cbv zeta in H.
    destruct H as [_ [_ [-> |[-> _]]]]; auto.
  - pose proof (read_data_pdu_spec p s b) as H. cbv zeta in H.
    destruct H as [_ [_ [-> |[[-> _]|[-> _]]]]]; auto.
  - pose proof (read_fast_path_spec p s b) as H. cbv zeta in H. destruct H as [_ ->]. auto.
Qed.

(* a strict decoder of the reference frame recovers the event: the encoding is injective in
   (x, y, flags / scancode), so "exact values" is meaningful *)
Definition dec_event (ev : bytes) : option rinput :=
  match ev with
  | [0; 0; 0; 0; 1; 128; f0; f1; x0; x1; y0; y1] =>
      let fl := of_le16 f0 f1 in
      let d := 32768 <=? fl in
      let base := if d then fl - 32768 else fl in
      let b := if base =? 4096 then Some RLeft else if base =? 8192 then Some RRight
               else if base =? 16384 then Some RMiddle else if base =? 2048 then Some RNone else None in
      match b with Some b => Some (RPointer (of_le16 x0 x1) (of_le16 y0 y1) b d) | None => None end
  | [0; 0; 0; 0; 4; 0; f0; f1; c0; c1; 0; 0] =>
      let fl := of_le16 f0 f1 in
      if fl =? 0 then Some (RKey (of_le16 c0 c1) true)
      else if fl =? 32768 then Some (RKey (of_le16 c0 c1) false) else None
  | _ => None
  end.

Definition wf_rinput (e : rinput) : Prop :=
  match e with RPointer x y _ _ => x < 65536 /\ y < 65536 | RKey c _ => c < 65536 end.

Lemma le16_of (n : N) : n < 65536 -> of_le16 (u16_lo n) (u16_hi n) = n.
Proof. intros H. unfold of_le16. apply (be16_of n H). Qed.

Theorem dec_ref_event : forall e, wf_rinput e -> dec_event (ref_event e) = Some e.
Proof.
  intros [x y b d|c d] Hwf; cbn [wf_rinput] in Hwf.
  - destruct Hwf as [Hx Hy].
    destruct b, d; unfold ref_event, ref_pointer_flags, le32, le16; cbn [app];
      match goal with |- context [u16_lo ?n :: u16_hi ?n :: u16_lo x :: _] =>
        let lo := eval vm_compute in (u16_lo n) in let hi := eval vm_compute in (u16_hi n) in
        change (u16_lo n) with lo; change (u16_hi n) with hi end;
      change (0 mod 256) with 0; change (0 / 256 mod 256) with 0; change (0 / 65536 mod 256) with 0;
      change (0 / 16777216 mod 256) with 0;
      change (u16_lo 32769) with 1; change (u16_hi 32769) with 128;
      cbn [dec_event]; rewrite (le16_of x Hx), (le16_of y Hy); reflexivity.
  - destruct d; unfold ref_event, le32, le16; cbn [app];
      change (0 mod 256) with 0; change (0 / 256 mod 256) with 0; change (0 / 65536 mod 256) with 0;
      change (0 / 16777216 mod 256) with 0;
      change (u16_lo 4) with 4; change (u16_hi 4) with 0; change (u16_lo 0) with 0; change (u16_hi 0) with 0;
      change (u16_lo 32768) with 0; change (u16_hi 32768) with 128;
      cbn [dec_event]; rewrite (le16_of c Hwf); reflexivity.
Qed.
