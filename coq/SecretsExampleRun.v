(* The two example connections of SecretsExample.v evaluated in the model (concrete MD4 / MD5 / HMAC-MD5 / RC4, the DER /
   BER models of yasna, the TLS server of the harness): the model's output is, byte for byte, what the real implementation
   wrote, and the hypotheses of the C17 theorems are satisfied by these configurations. *)
From RdpV Require Import Base Link Md4 Md5 Hmac CsspGateExec BerYasna ConnectRun Secrets SecretsExec SecretsExample.
From RdpV Require ClientPdus StrictPdu.
From RdpV Require Import C17_proofs.
Open Scope list_scope.
Open Scope N_scope.

Lemma ex1_runs : secrets_impl (fun _ => ex1_upper) Debug true ex1_cfg ex1_env (ex1_cc :: ex1_post) ex1_post = (Ok tt, ex1_events).
Proof. vm_compute. reflexivity. Qed.

Lemma ex2_runs : secrets_impl (fun _ => ex2_upper) Release true ex2_cfg ex2_env (ex2_cc :: ex2_post) ex2_post = (Ok tt, ex2_events).
Proof. vm_compute. reflexivity. Qed.

(* the external functions of the executable instance *)
Definition ex_x (up : list N) (p : prof) (post : stream) : externals :=
  mkX md4 md5 hmac_md5 (fun _ => up) p x_create_ts_request x_create_ts_authenticate x_create_ts_credentials x_create_ts_authinfo
      (x_read_ts_server_challenge p) (x_read_ts_validate p) (ber_connect_response p) (tls_exact post).

Lemma scalars_ok (l : list N) : forallb ClientPdus.is_scalar l = true -> Forall ClientPdus.scalar l.
Proof.
  intros H. apply Forall_forall. intros c Hc. rewrite forallb_forall in H. specialize (H c Hc).
  unfold ClientPdus.is_scalar in H. unfold ClientPdus.scalar.
  apply orb_true_iff in H. destruct H as [H|H]; [left; apply N.ltb_lt; exact H|right].
  apply andb_true_iff in H. destruct H as [H1 H2]. split; [apply N.leb_le; exact H1|apply N.ltb_lt; exact H2].
Qed.

Lemma ex_nonvacuous :
  (* default mode, auto-logon, Unicode credentials incl. a non-BMP character *)
  (out (ex_x ex1_upper Debug ex1_post) ex1_cfg ex1_env (ex1_cc :: ex1_post) = ex1_events /\
   strings_ok ex1_cfg /\
   sc_restricted ex1_cfg = false /\ sc_blank ex1_cfg = false /\ sc_hash ex1_cfg = None /\ sc_autologon ex1_cfg = true /\
   raw_writes ex1_events = [cr_frame 3 0] /\
   List.length (tls_writes KNego ex1_events) = 1%nat /\ List.length (tls_writes KAuth ex1_events) = 1%nat /\
   List.length (tls_writes KAuthInfo ex1_events) = 1%nat /\
   tls_writes KInfo ex1_events = [ex1_info_frame] /\
   info_decodes (trace_of (ex_x ex1_upper Debug ex1_post) ex1_cfg ex1_env (ex1_cc :: ex1_post)) ex1_cfg
               [22495] [85; 115; 233; 114] [112; 228; 128512; 119; 48; 114; 100] ex1_info_frame) /\
  (* restricted admin with an NT hash *)
  (out (ex_x ex2_upper Release ex2_post) ex2_cfg ex2_env (ex2_cc :: ex2_post) = ex2_events /\
   strings_ok ex2_cfg /\
   sc_restricted ex2_cfg = true /\ (exists h, sc_hash ex2_cfg = Some h) /\
   raw_writes ex2_events = [cr_frame 3 1] /\
   List.length (tls_writes KAuthInfo ex2_events) = 1%nat /\
   tls_writes KInfo ex2_events = [ex2_info_frame] /\
   info_decodes (trace_of (ex_x ex2_upper Release ex2_post) ex2_cfg ex2_env (ex2_cc :: ex2_post)) ex2_cfg [] [] [] ex2_info_frame /\
   (* the server of this run announces the I/O channel id 1007: the run returns it, and the Client Info travels on it *)
   (exists sd, result_of (ex_x ex2_upper Release ex2_post) ex2_cfg ex2_env (ex2_cc :: ex2_post) = Ok (1004, sd) /\ Connect.global_id sd = 1007) /\
   (exists i, StrictPdu.strict_parse ex2_info_frame = Some (StrictPdu.PClientInfo 1004 1007 i))).
Proof.
  split.
  - split; [exact (f_equal snd ex1_runs)|].
    split; [unfold strings_ok; cbn; repeat split; try (apply scalars_ok; reflexivity); vm_compute; discriminate|].
    repeat (split; [reflexivity|]).
    exists 3, 1003, 248, 524292. split; [vm_compute; auto 20|]. split; [vm_compute; discriminate|]. vm_compute. reflexivity.
  - split; [exact (f_equal snd ex2_runs)|].
    split; [unfold strings_ok; cbn; repeat split; try (apply scalars_ok; reflexivity); vm_compute; discriminate|].
    split; [reflexivity|]. split; [eexists; reflexivity|].
    repeat (split; [reflexivity|]).
    split; [exists 3, 1007, 32, 524289; split; [vm_compute; auto 20|]; split; [vm_compute; discriminate|]; vm_compute; reflexivity|].
    split; [eexists; split; vm_compute; reflexivity|]. eexists. vm_compute. reflexivity.
Qed.
