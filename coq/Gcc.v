(* Model of core/gcc.rs: the data blocks as terms of the message model, `Version::from`,
   write_conference_create_request and read_conference_create_response (transliterated,
   with the places where the code indexes a map / subtracts without a check).  No proofs. *)
From RdpV Require Import Base Msg Per.
Open Scope string_scope.
Open Scope list_scope.
Open Scope N_scope.

Definition T124_02_98_OID : bytes := [0; 0; 20; 124; 0; 1].
Definition H221_CS_KEY : bytes := [68; 117; 99; 97].    (* "Duca" *)
Definition H221_SC_KEY : bytes := [77; 99; 68; 110].    (* "McDn" *)

(* ---- Version and its From<u32> table ---- *)
Inductive gcc_version := RdpVersion | RdpVersion5plus | VersionUnknown.
Definition RDP_VERSION_4 : N := 524289.        (* 0x00080001 *)
Definition RDP_VERSION_5_PLUS : N := 524292.   (* 0x00080004 *)
Definition version_from (e : N) : gcc_version :=
  if e =? RDP_VERSION_4 then RdpVersion
  else if e =? RDP_VERSION_5_PLUS then RdpVersion5plus
  else VersionUnknown.

(* ---- MessageType ---- *)
Definition SC_CORE : N := 3073.      (* 0x0C01 *)
Definition SC_SECURITY : N := 3074.  (* 0x0C02 *)
Definition SC_NET : N := 3075.       (* 0x0C03 *)
Definition CS_CORE : N := 49153.     (* 0xC001 *)
Definition CS_SECURITY : N := 49154.
Definition CS_NET : N := 49155.

(* ---- data blocks ---- *)
Definition g_u16 (v : N) := MU16 LE v.
Definition g_u32 (v : N) := MU32 LE v.

(* client_core_data: [name16] = the 32 bytes of the UTF-16 client name (computed by the
   caller), everything else literal *)
Definition client_core_data (version width height layout : N) (name16 : bytes) (selected_protocol : N) : msg :=
  MComp [
    ("version", g_u32 version); ("desktopWidth", g_u16 width); ("desktopHeight", g_u16 height);
    ("colorDepth", g_u16 51713); ("sasSequence", g_u16 43523); ("kbdLayout", g_u32 layout);
    ("clientBuild", g_u32 3790); ("clientName", MBytes name16); ("keyboardType", g_u32 4);
    ("keyboardSubType", g_u32 0); ("keyboardFnKeys", g_u32 12); ("imeFileName", MBytes (repeat 0 64));
    ("postBeta2ColorDepth", g_u16 51713); ("clientProductId", g_u16 1); ("serialNumber", g_u32 0);
    ("highColorDepth", g_u16 24); ("supportedColorDepths", g_u16 10); ("earlyCapabilityFlags", g_u16 1);
    ("clientDigProductId", MBytes (repeat 0 64)); ("connectionType", MU8 0); ("pad1octet", MU8 0);
    ("serverSelectedProtocol", g_u32 selected_protocol) ].

Definition server_core_data : msg :=
  MComp [ ("rdpVersion", g_u32 0); ("clientRequestedProtocol", MOpt (Some (g_u32 0)));
          ("earlyCapabilityFlags", MOpt (Some (g_u32 0))) ].

Definition client_security_data : msg :=
  MComp [ ("encryptionMethods", g_u32 11); ("extEncryptionMethods", g_u32 0) ].

Definition server_security_data : msg :=
  MComp [ ("encryptionMethod", g_u32 0); ("encryptionLevel", g_u32 0) ].

Definition client_network_data (channel_count : N) (channel_def_array : bytes) : msg :=
  MComp [ ("channelCount", g_u32 channel_count); ("channelDefArray", MBytes channel_def_array) ].

(* channelCount sizes the id array: count * 2 in usize *)
Definition server_network_data : msg :=
  MComp [ ("MCSChannelId", g_u16 0);
          ("channelCount", MDyn (g_u16 0) (CloSize "channelIdArray" (XMul XSelf 2)));
          ("channelIdArray", MArray [] (Some (g_u16 0))) ].

(* block_header(type, length): `length as u16 + 4` *)
Definition block_header (p : prof) (data_type len : N) : outcome msg :=
  obind (add_w p 16 len 4) (fun l => Ok (MComp [ ("type", g_u16 data_type); ("length", g_u16 l) ])).

(* ---- write_conference_create_request ---- *)
Definition gcc_write_conference_create_request (p : prof) (user_data : bytes) : outcome bytes :=
  obind (per_write_object_identifier T124_02_98_OID) (fun oid =>
  obind (add_w p 16 (nlen user_data mod 65536) 14) (fun l =>          (* user_data.len() as u16 + 14 *)
  obind (per_write_numeric_string p [49] 1) (fun name =>
  obind (per_write_padding 1) (fun pad =>
    Ok (per_write_choice 0 ++ oid ++ per_write_length l ++ per_write_choice 0 ++ per_write_selection 8
        ++ name ++ pad ++ per_write_number_of_set 1 ++ per_write_choice 192
        ++ per_write_octet_stream H221_CS_KEY 4 ++ per_write_octet_stream user_data 0))))).

(* ---- read_conference_create_response ---- *)
(* what the block loop has collected: the last ScCore and ScNet blocks read (HashMap insert overwrites) *)
Record blocks := { b_core : option msg; b_net : option msg }.

Definition lift_read (r : rres) : outcome msg :=
  match r with
  | ROk m _ _ => Ok m
  | RErr e _ _ => Err e
  | RPanic => Panic
  | RSpin => Spin
  end.

(* one iteration per block; fuel = bytes of the sub-reader + 1 (each block consumes its 4-byte header) *)
Fixpoint gcc_read_blocks (p : prof) (fuel : nat) (sub : bytes) (acc : blocks) : outcome blocks :=
  match fuel with
  | O => Spin
  | S fuel' =>
      match sub with
      | t0 :: t1 :: l0 :: l1 :: rest =>
          let ty := of_le16 t0 t1 in
          let len := of_le16 l0 l1 in
          (* length.checked_sub(header.length() as u16): a block shorter than its header is refused *)
          obind (if len <? 4 then Err EInvalidSize else Ok (len - 4)) (fun n =>
            match ntake n rest with
            | None => Err EIo                                      (* sub.read_exact(&mut buffer)? *)
            | Some (buffer, rest') =>
                if ty =? SC_CORE then
                  obind (lift_read (read p server_core_data buffer)) (fun m =>
                    gcc_read_blocks p fuel' rest' {| b_core := Some m; b_net := b_net acc |})
                else if ty =? SC_SECURITY then
                  obind (lift_read (read p server_security_data buffer)) (fun _ =>
                    gcc_read_blocks p fuel' rest' acc)
                else if ty =? SC_NET then
                  obind (lift_read (read p server_network_data buffer)) (fun m =>
                    gcc_read_blocks p fuel' rest' {| b_core := b_core acc; b_net := Some m |})
                else gcc_read_blocks p fuel' rest' acc             (* unknown block: printed, skipped *)
            end)
      | _ => Ok acc                                                (* header.read(..).is_err() => break *)
      end
  end.

Fixpoint u16_values (l : list msg) : outcome (list N) :=
  match l with
  | [] => Ok []
  | x :: tl => match cast_num 16 (Some x) with
               | Ok v => obind (u16_values tl) (fun r => Ok (v :: r))
               | _ => Panic                                        (* cast!(DataType::U16, x).unwrap() *)
               end
  end.

Definition gcc_server_data (b : blocks) : outcome (N * list N * gcc_version) :=
  match b_net b with
  | None => Err EInvalidData                                       (* result.get(&MessageType::ScNet).ok_or(..)? *)
  | Some net =>
      match b_core b with
      | None => Err EInvalidData                                   (* result.get(&MessageType::ScCore).ok_or(..)? *)
      | Some core =>
          match get net "channelIdArray" with
          | None => Panic
          | Some arr =>
              match trame_of arr with
              | None => Err EInvalidCast
              | Some els =>
                  obind (cast_num 16 (get net "MCSChannelId")) (fun io =>          (* global_channel_id *)
                  obind (u16_values els) (fun ids =>
                    obind (cast_num 32 (get core "rdpVersion")) (fun v => Ok (io, ids, version_from v))))
              end
          end
      end
  end.

Definition gcc_read_conference_create_response (p : prof) (input : bytes) : outcome (N * list N * gcc_version) :=
  obind (per_read_choice input) (fun '(_, r1) =>
  obind (per_read_object_identifier T124_02_98_OID r1) (fun '(_, r2) =>     (* the comparison result is dropped *)
  obind (per_read_length r2) (fun '(_, r3) =>
  obind (per_read_choice r3) (fun '(_, r4) =>
  obind (per_read_integer_16 1001 r4) (fun '(_, r5) =>
  obind (per_read_integer r5) (fun '(_, r6) =>
  obind (per_read_enumerates r6) (fun '(_, r7) =>
  obind (per_read_number_of_set r7) (fun '(_, r8) =>
  obind (per_read_choice r8) (fun '(_, r9) =>
  obind (per_read_octet_stream p H221_SC_KEY 4 r9) (fun '(_, r10) =>
  obind (per_read_length r10) (fun '(len, r11) =>
    let sub := firstn (N.to_nat (N.min len (nlen r11))) r11 in            (* cc_response.take(length) *)
    obind (gcc_read_blocks p (S (List.length sub)) sub {| b_core := None; b_net := None |}) gcc_server_data))))))))))).
