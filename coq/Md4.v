(* Executable MD4 (RFC 1320) over N / list N.  Models the external crate `md4` as used by
   ntlm.rs md4 (NTOWFv2).  Shares padding / block iteration with Md5.v. *)
From RdpV Require Import Base Md5.

Definition md4_f (r b c d : N) : N :=
  match r with
  | 0 => N.lor (N.land b c) (N.land (not32 b) d)
  | 1 => N.lor (N.lor (N.land b c) (N.land b d)) (N.land c d)
  | _ => N.lxor (N.lxor b c) d
  end.

Definition md4_C (r : N) : N :=
  match r with 0 => 0 | 1 => 1518500249 | _ => 1859775393 end.

(* (round, message word index, shift) for the 48 steps *)
Definition md4_sched : list (N * N * N) :=
  map (fun '(k, s) => (0, k, s))
    [(0,3);(1,7);(2,11);(3,19);(4,3);(5,7);(6,11);(7,19);(8,3);(9,7);(10,11);(11,19);(12,3);(13,7);(14,11);(15,19)] ++
  map (fun '(k, s) => (1, k, s))
    [(0,3);(4,5);(8,9);(12,13);(1,3);(5,5);(9,9);(13,13);(2,3);(6,5);(10,9);(14,13);(3,3);(7,5);(11,9);(15,13)] ++
  map (fun '(k, s) => (2, k, s))
    [(0,3);(8,9);(4,11);(12,15);(2,3);(10,9);(6,11);(14,15);(1,3);(9,9);(5,11);(13,15);(3,3);(11,9);(7,11);(15,15)].

Fixpoint md4_steps (sc : list (N * N * N)) (m : list N) (s : st4) : st4 :=
  match sc with
  | [] => s
  | (r, k, sh) :: sc' =>
      let '(a, b, c, d) := s in
      let x := add32 (add32 (add32 a (md4_f r b c d)) (nth (N.to_nat k) m 0)) (md4_C r) in
      md4_steps sc' m (d, rotl32 x sh, b, c)
  end.

Definition md4_compress (s : st4) (m : list N) : st4 :=
  let '(a, b, c, d) := s in
  let '(a', b', c', d') := md4_steps md4_sched m s in
  (add32 a a', add32 b b', add32 c c', add32 d d').

Definition md4 (msg : bytes) : bytes :=
  let ws := words_le (md_pad msg) in
  st4_bytes (md_blocks md4_compress (length ws) md_init ws).
