(* Flow.v with its external parts instantiated, as it is extracted and run against the
   implementation by the correspondence of C03:
     - BER parser of the connect-response: the yasna model of BerYasna.v;
     - TLS: the harness's in-process acceptor (trusted fixture certificate).  The handshake completes at
       protocol level exactly when the client has consumed everything the server wrote in clear; the
       records the server then writes are the chunks [post];
     - CredSSP: the executable CsspGate.v / CsspGateExec.v model (concrete MD4 / MD5 / HMAC-MD5 / RC4,
       DER readers of DerRead.v) on the NTLM state of the configured credentials, the public key of the
       fixture certificate and the preset client randomness. *)
From RdpV Require Import Base Msg LayoutsGlobal LayoutsConnect Link Tpkt Global BerYasna Connect ConnectRun ClientPdus Flow.
From RdpV Require Import Rc4 Md5 Md4 Hmac Utf Ntlm NtlmSeal DerRead CsspGate CsspGateExec StrictPdu.
Open Scope list_scope.
Open Scope N_scope.

Definition tls_after (post : stream) (cs : stream) : outcome stream :=
  if stream_eqb cs [] then Ok post else Err ESsl.

(* what cssp_connect needs to know, besides the stream *)
Record cssp_env := mkCsspEnv {
  ce_upper : list N -> list N;     (* String::to_uppercase (the case line carries the upper-cased user name) *)
  ce_ntlm : ntlm;
  ce_restricted : bool;            (* restricted_admin_mode || blank_creds *)
  ce_pubkey : bytes;               (* subjectPublicKey of the certificate of the TLS session *)
  ce_nonce : bytes; ce_key : bytes (* client challenge (8), exported session key (16) *)
}.

Definition cssp_exec (p : prof) (e : cssp_env) (cs : stream) : outcome unit * list bytes :=
  cssp_connect_c (ce_upper e) p (ce_ntlm e) (ce_restricted e) (Ok (ce_pubkey e)) cs (ce_nonce e) (ce_key e).

(* Connect.v's oracle: number of TSRequests written, then the result and the stream the two reads leave *)
Definition cssp_run_exec (p : prof) (e : cssp_env) (cs : stream) : nat * outcome stream :=
  let r := cssp_exec p e cs in
  (List.length (snd r),
   match fst r with
   | Ok _ => Ok (snd (link_read0 (snd (link_read0 cs))))
   | Err x => Err x
   | Panic => Panic
   | Spin => Spin
   end).

(* raw = the chunks the server writes in clear; post = Some chunks it writes inside TLS (None: no TLS server).
   CredSSP, when it runs, runs right after the handshake on exactly [post]: its model is evaluated once. *)
Definition flow_impl (p : prof) (e : cssp_env) (c : fcfg) (nreads : nat) (raw : stream) (post : option stream) : flow_result :=
  let tls := match post with Some ps => tls_after ps | None => no_tls end in
  let ps := match post with Some ps => ps | None => [] end in
  let r := cssp_exec p e ps in
  let run := fun cs : stream =>
    (List.length (snd r),
     match fst r with
     | Ok _ => Ok (snd (link_read0 (snd (link_read0 cs))))
     | Err x => Err x
     | Panic => Panic
     | Spin => Spin
     end) in
  flow p (ber_connect_response p) true tls run (snd r) c nreads raw.
