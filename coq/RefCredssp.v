(* SPECIFICATION of the SERVER side of CredSSP over NTLMv2, written from MS-CSSP (2.2.1 TSRequest,
   2.2.1.2 TSCredentials / TSPasswordCreds, 3.1.5 processing events and sequencing rules, protocol
   versions 2 - 4: public-key binding by "key + 1") and MS-NLMP (3.2.5.1 server receives
   NEGOTIATE / AUTHENTICATE, 3.4 session security), independently of nla/cssp.rs and of its model
   CsspGate.v.  It is assembled from the specification pieces that already exist:
     RefNlmp.v      challenge_bytes (what a server puts in a CHALLENGE_MESSAGE), server_authenticate
                    (MS-NLMP 3.3.2 verification of the AUTHENTICATE token; returns ExportedSessionKey),
     RefNlmpSeal.v  SIGNKEY / SEALKEY / SEAL and the conforming receiver (own sequence numbers),
     Der.v          X.690 DER of the TSRequest / TSCredentials shapes (encoder and strict decoder).

   The server owns an account (user, domain, NT hash), a CHALLENGE_MESSAGE (server challenge, flags,
   target info with a timestamp, ...) and the subjectPublicKey of the certificate its TLS endpoint
   presents.  The conversation (MS-CSSP 3.1.5, figure "CredSSP protocol"):

     client                                              server
     TSRequest[negoTokens = NEGOTIATE]            --->   a NEGOTIATE_MESSAGE: signature, type 1
                                                  <---   TSRequest[negoTokens = CHALLENGE]
     TSRequest[negoTokens = AUTHENTICATE,         --->   MS-NLMP verification of the token for the account
               pubKeyAuth = SEAL(key)]                   (recovers ExportedSessionKey); pubKeyAuth must
                                                         unseal -- client-to-server direction, sequence
                                                         number 0 -- to the server's OWN public key
                                                  <---   TSRequest[pubKeyAuth = SEAL(key + 1)]
                                                         (server-to-client direction, sequence number 0)
     TSRequest[authInfo = SEAL(TSCredentials)]    --->   accepted iff it unseals (sequence number 1) to a
                                                         TSCredentials of credType 1 holding TSPasswordCreds

   "key + 1": MS-CSSP 3.1.5 has the server add 1 to the first byte of the key; the key is the DER
   RSAPublicKey (first byte 0x30), so this is the little-endian increment, which is how the python
   reference (gen/credssp.py le_add) and the client's check (BigUint::from_bytes_le) read it.
   The server answers with version 2 (the lowest version with pubKeyAuth; the client asks for 2).
   DELIVERY: every reply is ONE TSRequest; the client reads each with ONE transport read of at most
   1500 bytes (Link::read(0)), so a conforming delivery hands each reply over in one read -- stated by
   the theorems ([one_read]); a reply split across reads is the known finding C03-credssp-split.
   Executable, no proofs. *)
From RdpV Require Import Base Rc4 Utf Der RefNlmp RefNlmpSeal.
Open Scope list_scope.
Open Scope N_scope.

Record cssp_server := mkCsspServer {
  cs_account : account;              (* the account it authenticates: user, domain, NT hash *)
  cs_challenge : challenge_fields;   (* its CHALLENGE_MESSAGE *)
  cs_pubkey : bytes                  (* subjectPublicKey of its certificate *)
}.

(* value + 1 of a little-endian byte string (a carry out of the last byte adds a byte) *)
Fixpoint le_succ (l : bytes) : bytes :=
  match l with
  | [] => [1]
  | b :: tl => if b =? 255 then 0 :: le_succ tl else (b + 1) :: tl
  end.

(* MS-NLMP 2.2.1.1 NEGOTIATE_MESSAGE: "NTLMSSP\0", MessageType 1, NegotiateFlags present *)
Definition NTLMSSP_SIGNATURE : bytes := [78; 84; 76; 77; 83; 83; 80; 0].
Definition is_negotiate (t : bytes) : bool :=
  match sub t 0 8, u32_at t 8, u32_at t 12 with
  | Some sg, Some ty, Some _ => beq sg NTLMSSP_SIGNATURE && (ty =? 1)
  | _, _, _ => false
  end.

(* NegoData ::= SEQUENCE OF SEQUENCE { negoToken [0] OCTET STRING }: the first token *)
Definition first_token (v : dval) : option bytes :=
  match v with
  | DSeqOf (DSeq [DExplicit _ _ (DOctets t)] :: _) => Some t
  | _ => None
  end.

(* one read of at most 1500 bytes returns the whole reply *)
Definition one_read (reply : bytes) : Prop := nlen reply <= 1500.

Inductive cssp_state :=
| CsStart                                                  (* waiting for the NEGOTIATE *)
| CsChallenged (negotiate : bytes)                         (* CHALLENGE sent *)
| CsAuthenticated (key : bytes) (from_client : dirstate)   (* account authenticated, key proof sent *)
| CsDone (key : bytes) (domain user password : bytes)      (* credentials received: ExportedSessionKey, TSPasswordCreds *)
| CsRefused.

Section Server.
Variable MD5 : bytes -> bytes.
Variable HMAC_MD5 : bytes -> bytes -> bytes.
Variable Upper : list N -> list N.

(* the two replies *)
Definition cssp_reply1 (s : cssp_server) : bytes :=
  der_encode (ts_request (challenge_bytes (cs_challenge s))).

Definition cssp_key_proof (s : cssp_server) (to_client : dirstate) : bytes :=
  der_encode (ts_validate (fst (nlmp_wrap HMAC_MD5 to_client (le_succ (cs_pubkey s))))).

(* ... the second one as a function of the session key the AUTHENTICATE token carries *)
Definition cssp_reply2 (s : cssp_server) (key : bytes) : bytes :=
  match session_dir MD5 key Server with
  | Some to_client => cssp_key_proof s to_client
  | None => []
  end.

Definition refuse : cssp_state * option bytes := (CsRefused, None).

(* one message of the client: the next state and the reply, if any *)
Definition cssp_step (s : cssp_server) (st : cssp_state) (msg : bytes) : cssp_state * option bytes :=
  match st with
  | CsStart =>
      match der_decode_all ts_request_sch msg with
      | Some (DSeq [DExplicit _ _ (DInt version); DExplicit _ _ tokens]) =>
          match first_token tokens with
          | Some negotiate =>
              if (2 <=? version) && is_negotiate negotiate
              then (CsChallenged negotiate, Some (cssp_reply1 s))
              else refuse
          | None => refuse
          end
      | _ => refuse
      end
  | CsChallenged negotiate =>
      match der_decode_all ts_authenticate_sch msg with
      | Some (DSeq [DExplicit _ _ (DInt version); DExplicit _ _ tokens; DExplicit _ _ (DOctets pub_key_auth)]) =>
          match first_token tokens with
          | Some token =>
              match server_authenticate HMAC_MD5 Upper (cs_account s) negotiate (challenge_bytes (cs_challenge s)) token with
              | Some key =>
                  match session_dir MD5 key Client, session_dir MD5 key Server with
                  | Some from_client, Some to_client =>
                      match nlmp_unwrap HMAC_MD5 from_client pub_key_auth with
                      | (Some k, from_client') =>
                          if (2 <=? version) && beq k (cs_pubkey s)
                          then (CsAuthenticated key from_client', Some (cssp_key_proof s to_client))
                          else refuse
                      | (None, _) => refuse
                      end
                  | _, _ => refuse
                  end
              | None => refuse
              end
          | None => refuse
          end
      | _ => refuse
      end
  | CsAuthenticated key from_client =>
      match der_decode_all ts_authinfo_sch msg with
      | Some (DSeq [DExplicit _ _ (DInt version); DExplicit _ _ (DOctets auth_info)]) =>
          match nlmp_unwrap HMAC_MD5 from_client auth_info with
          | (Some credentials, _) =>
              match der_decode_all ts_credentials_sch credentials with
              | Some (DSeq [DExplicit _ _ (DInt cred_type); DExplicit _ _ (DOctets inner)]) =>
                  match der_decode_all ts_password_creds_sch inner with
                  | Some (DSeq [DExplicit _ _ (DOctets d); DExplicit _ _ (DOctets u); DExplicit _ _ (DOctets pw)]) =>
                      if (2 <=? version) && (cred_type =? 1) then (CsDone key d u pw, None) else refuse
                  | _ => refuse
                  end
              | _ => refuse
              end
          | (None, _) => refuse
          end
      | _ => refuse
      end
  | CsDone _ _ _ _ => refuse
  | CsRefused => refuse
  end.

(* the server on the messages of a client, in order: its replies and where it ends *)
Fixpoint cssp_serve (s : cssp_server) (st : cssp_state) (msgs : list bytes) : list bytes * cssp_state :=
  match msgs with
  | [] => ([], st)
  | m :: tl =>
      let (st', r) := cssp_step s st m in
      let (rs, fin) := cssp_serve s st' tl in
      (match r with Some b => b :: rs | None => rs end, fin)
  end.

End Server.
