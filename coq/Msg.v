(* Deep embedding of the message tree of model/data.rs:
     u8, U16/U32::{LE,BE}, Vec<u8>, Trame, Component, Check, DynOption, Option, Array
   with the semantics of their `write`, `read`, `length`, `options` -- including the
   parts that matter to a hostile peer: dynamic sizes allocated before the bytes are
   known to exist, `Option::read` swallowing an inner error after partial consumption,
   `Array::read` looping until an element fails, `Vec<u8>::read` meaning "read to end"
   when the template is empty.  PDUs are DATA for this interpreter (Layouts*.v). *)
From Coq Require Export String.
From RdpV Require Import Base.
Open Scope string_scope.
Open Scope list_scope.
Open Scope N_scope.

Inductive endian := BE | LE.

(* ---- the closure language of DynOption (every closure in the tree has one of these shapes) ---- *)
Inductive cexp :=
| XSelf                          (* numeric value of the field the closure is attached to *)
| XSelfField (name : string)     (* cast!(U16/U32/U8, self[name]).unwrap()  (self is a Component) *)
| XSub (e : cexp) (k : N)        (* e - k in usize: traps in debug, wraps in release *)
| XSubSat (e : cexp) (k : N)     (* e.saturating_sub(k) *)
| XAdd (e : cexp) (k : N)
| XMul (e : cexp) (k : N).

Inductive ccond :=
| CBits (shift mask value : N)   (* ((self >> shift) & mask) == value *)
| CNot (c : ccond)
| COr (a b : ccond)
| CAnd (a b : ccond).

Inductive clo :=
| CloNone
| CloSize (target : string) (e : cexp)
| CloSkipIf (c : ccond) (target : string).

Inductive msg :=
| MU8 (v : N)
| MU16 (e : endian) (v : N)
| MU32 (e : endian) (v : N)
| MBytes (b : bytes)                              (* Vec<u8> *)
| MTrame (l : list msg)
| MComp (fs : list (string * msg))                (* IndexMap in insertion order *)
| MCheck (m : msg)
| MDyn (m : msg) (c : clo)
| MOpt (o : option msg)
| MArray (elems : list msg) (factory : option msg). (* None = Array::from_trame: reading panics *)

Inductive mopt := ONone | OSkip (f : string) | OSize (f : string) (n : N) | OPanic.

(* DataType::U8/U16/U32 as seen through visit() (Check, DynOption and Some(_) are transparent) *)
Fixpoint num_of (m : msg) : option N :=
  match m with
  | MU8 v | MU16 _ v | MU32 _ v => Some v
  | MCheck m' | MDyn m' _ => num_of m'
  | MOpt (Some m') => num_of m'
  | _ => None
  end.

Fixpoint lookup (name : string) (fs : list (string * msg)) : option msg :=
  match fs with
  | [] => None
  | (n, v) :: tl => if String.eqb n name then Some v else lookup name tl
  end.

Fixpoint comp_of (m : msg) : option (list (string * msg)) :=
  match m with
  | MComp fs => Some fs
  | MCheck m' | MDyn m' _ => comp_of m'
  | MOpt (Some m') => comp_of m'
  | _ => None
  end.

Definition usize_bits : N := 64.

Fixpoint eval_cexp (p : prof) (self : msg) (e : cexp) : outcome N :=
  match e with
  | XSelf => match num_of self with Some v => Ok v | None => Panic end
  | XSelfField name =>
      match comp_of self with
      | Some fs => match lookup name fs with
                   | Some f => match num_of f with Some v => Ok v | None => Panic end
                   | None => Panic
                   end
      | None => Panic
      end
  | XSub e k => obind (eval_cexp p self e) (fun v => sub_w p usize_bits v k)
  | XSubSat e k => obind (eval_cexp p self e) (fun v => Ok (v - k))
  | XAdd e k => obind (eval_cexp p self e) (fun v => add_w p usize_bits v k)
  | XMul e k => obind (eval_cexp p self e) (fun v => mul_w p usize_bits v k)
  end.

Fixpoint eval_cond (v : N) (c : ccond) : bool :=
  match c with
  | CBits s m x => N.land (N.shiftr v s) m =? x
  | CNot c => negb (eval_cond v c)
  | COr a b => eval_cond v a || eval_cond v b
  | CAnd a b => eval_cond v a && eval_cond v b
  end.

Definition eval_clo (p : prof) (self : msg) (c : clo) : mopt :=
  match c with
  | CloNone => ONone
  | CloSize t e => match eval_cexp p self e with Ok n => OSize t n | _ => OPanic end
  | CloSkipIf c t => match num_of self with
                     | Some v => if eval_cond v c then OSkip t else ONone
                     | None => OPanic
                     end
  end.

(* Message::options(): only DynOption answers; every wrapper answers None *)
Definition options (p : prof) (m : msg) : mopt :=
  match m with MDyn inner c => eval_clo p inner c | _ => ONone end.

Fixpoint mem (s : string) (l : list string) : bool :=
  match l with [] => false | x :: tl => String.eqb x s || mem s tl end.

Fixpoint dyn_lookup (s : string) (l : list (string * N)) : option N :=
  match l with [] => None | (x, n) :: tl => if String.eqb x s then Some n else dyn_lookup s tl end.

(* ---------------------------------------------------------------- write / length *)
Definition enc16 (e : endian) (v : N) : bytes := match e with BE => be16 v | LE => le16 v end.
Definition enc32 (e : endian) (v : N) : bytes := match e with BE => be32 v | LE => le32 v end.

Section WriteLen.
Variable p : prof.

(* returns None when a closure evaluated during writing panics *)
Fixpoint write (m : msg) : option bytes :=
  match m with
  | MU8 v => Some [v]
  | MU16 e v => Some (enc16 e v)
  | MU32 e v => Some (enc32 e v)
  | MBytes b => Some b
  | MTrame l =>
      (fix go (l : list msg) : option bytes :=
         match l with
         | [] => Some []
         | x :: tl => match write x, go tl with Some a, Some b => Some (a ++ b) | _, _ => None end
         end) l
  | MComp fs =>
      (fix go (fs : list (string * msg)) (skip : list string) : option bytes :=
         match fs with
         | [] => Some []
         | (name, v) :: tl =>
             if mem name skip then go tl skip
             else match write v with
                  | None => None
                  | Some a =>
                      match options p v with
                      | OPanic => None
                      | OSkip f => match go tl (f :: skip) with Some b => Some (a ++ b) | None => None end
                      | _ => match go tl skip with Some b => Some (a ++ b) | None => None end
                      end
                  end
         end) fs []
  | MCheck m' => write m'
  | MDyn m' _ => write m'
  | MOpt None => Some []
  | MOpt (Some m') => write m'
  | MArray elems _ =>
      (fix go (l : list msg) : option bytes :=
         match l with
         | [] => Some []
         | x :: tl => match write x, go tl with Some a, Some b => Some (a ++ b) | _, _ => None end
         end) elems
  end.

(* Message::length() : u64 *)
Fixpoint mlength (m : msg) : option N :=
  match m with
  | MU8 _ => Some 1
  | MU16 _ _ => Some 2
  | MU32 _ _ => Some 4
  | MBytes b => Some (nlen b)
  | MTrame l =>
      (fix go (l : list msg) : option N :=
         match l with
         | [] => Some 0
         | x :: tl => match mlength x, go tl with Some a, Some b => Some (a + b) | _, _ => None end
         end) l
  | MComp fs =>
      (fix go (fs : list (string * msg)) (skip : list string) : option N :=
         match fs with
         | [] => Some 0
         | (name, v) :: tl =>
             if mem name skip then go tl skip
             else match options p v with
                  | OPanic => None
                  | OSkip f => match mlength v, go tl (f :: skip) with Some a, Some b => Some (a + b) | _, _ => None end
                  | _ => match mlength v, go tl skip with Some a, Some b => Some (a + b) | _, _ => None end
                  end
         end) fs []
  | MCheck m' => mlength m'
  | MDyn m' _ => mlength m'
  | MOpt None => Some 0
  | MOpt (Some m') => mlength m'
  | MArray elems _ =>
      (fix go (l : list msg) : option N :=
         match l with
         | [] => Some 0
         | x :: tl => match mlength x, go tl with Some a, Some b => Some (a + b) | _, _ => None end
         end) elems
  end.
End WriteLen.

(* ---------------------------------------------------------------- read *)
(* result of a read: the filled message and what is left in the reader; on error, the
   reader as the failed read left it (a failed read_exact leaves a Cursor at its end).
   [a] = the largest single buffer the read asked the allocator for. *)
Inductive rres :=
| ROk (m : msg) (rest : bytes) (a : N)
| RErr (e : err) (rest : bytes) (a : N)
| RPanic
| RSpin.

Definition take (n : nat) (input : bytes) : option (bytes * bytes) :=
  if Nat.leb n (length input) then Some (firstn n input, skipn n input) else None.

(* Check<T>::read compares old and new value with T's PartialEq: Value<T> compares the
   inner number whatever the endianness, Vec<u8> compares bytes *)
Definition check_eq (old new : msg) : bool :=
  match num_of old, num_of new with
  | Some a, Some b => a =? b
  | _, _ => match old, new with
            | MBytes a, MBytes b => if list_eq_dec N.eq_dec a b then true else false
            | _, _ => true
            end
  end.

(* isize::MAX: vec![0; n] above it panics with "capacity overflow" *)
Definition isize_max : N := 9223372036854775807.

(* The three loops of read, parameterised by the reader of the elements (so that lemmas
   about them are stated once; [read] below instantiates [rd] with itself). *)
Section ReadLoops.
Variable p : prof.
Variable rd : msg -> bytes -> rres.

Fixpoint read_trame (l : list msg) (input : bytes) (acc : list msg) (a : N) : rres :=
  match l with
  | [] => ROk (MTrame (rev acc)) input a
  | x :: tl =>
      match rd x input with
      | ROk x' r a' => read_trame tl r (x' :: acc) (N.max a a')
      | RErr e r a' => RErr e r (N.max a a')
      | RPanic => RPanic
      | RSpin => RSpin
      end
  end.

(* one field of a Component: sized through a sub-cursor when a Size option named it *)
Definition read_field (v : msg) (input : bytes) (size : option N) : rres :=
  match size with
  | Some size =>
      if isize_max <? size then RPanic            (* vec![0; size]: capacity overflow *)
      else match take (N.to_nat size) input with
           | None => RErr EIo [] size
           | Some (local, rest) =>
               match rd v local with
               | ROk v' _ a' => ROk v' rest (N.max size a')   (* left-over of the sub-cursor is dropped *)
               | RErr e _ a' => RErr e rest (N.max size a')
               | RPanic => RPanic
               | RSpin => RSpin
               end
           end
  | None => rd v input
  end.

Fixpoint read_comp (fs : list (string * msg)) (input : bytes) (skip : list string) (dyn : list (string * N))
         (acc : list (string * msg)) (a : N) : rres :=
  match fs with
  | [] => ROk (MComp (rev acc)) input a
  | (name, v) :: tl =>
      if mem name skip then read_comp tl input skip dyn ((name, v) :: acc) a
      else
        match read_field v input (dyn_lookup name dyn) with
        | ROk v' rest a' =>
            match options p v' with
            | OPanic => RPanic
            | OSkip f => read_comp tl rest (f :: skip) dyn ((name, v') :: acc) (N.max a a')
            | OSize f n => read_comp tl rest skip ((f, n) :: dyn) ((name, v') :: acc) (N.max a a')
            | ONone => read_comp tl rest skip dyn ((name, v') :: acc) (N.max a a')
            end
        | RErr e rest a' => RErr e rest (N.max a a')
        | RPanic => RPanic
        | RSpin => RSpin
        end
  end.

End ReadLoops.

(* Array::read: elements until one fails; an element that succeeds without consuming
   anything would loop forever.  [rdt] reads one element from the template, [mk] rebuilds
   the array from the elements read. *)
Section ReadArray.
Variable rdt : bytes -> rres.
Variable mk : list msg -> msg.
Fixpoint read_array (fuel : nat) (input : bytes) (acc : list msg) (a : N) : rres :=
  match fuel with
  | O => RSpin
  | S fuel' =>
      match rdt input with
      | ROk e r a' =>
          if Nat.eqb (List.length r) (List.length input) then RSpin
          else read_array fuel' r (e :: acc) (N.max a a')
      | RErr _ r a' => ROk (mk (rev acc)) r (N.max a a')
      | RPanic => RPanic
      | RSpin => RSpin
      end
  end.
End ReadArray.


Section Read.
Variable p : prof.

Fixpoint read (m : msg) (input : bytes) {struct m} : rres :=
  match m with
  | MU8 _ =>
      match input with b :: r => ROk (MU8 b) r 0 | [] => RErr EIo [] 0 end
  | MU16 e _ =>
      match input with
      | b0 :: b1 :: r => ROk (MU16 e (match e with BE => of_be16 b0 b1 | LE => of_le16 b0 b1 end)) r 0
      | _ => RErr EIo [] 0
      end
  | MU32 e _ =>
      match input with
      | b0 :: b1 :: b2 :: b3 :: r =>
          ROk (MU32 e (match e with BE => of_be32 b0 b1 b2 b3 | LE => of_le32 b0 b1 b2 b3 end)) r 0
      | _ => RErr EIo [] 0
      end
  | MBytes b =>
      match b with
      | [] => ROk (MBytes input) [] 0                       (* read_to_end *)
      | _ :: _ => match take (List.length b) input with
                  | Some (x, r) => ROk (MBytes x) r 0
                  | None => RErr EIo [] 0
                  end
      end
  | MTrame l => read_trame read l input [] 0
  | MComp fs => read_comp p read fs input [] [] [] 0
  | MCheck m' =>
      match read m' input with
      | ROk new r a => if check_eq m' new then ROk (MCheck new) r a else RErr EInvalidConst r a
      | other => other
      end
  | MDyn m' c =>
      match read m' input with
      | ROk new r a => ROk (MDyn new c) r a
      | other => other
      end
  | MOpt None => ROk (MOpt None) input 0
  | MOpt (Some m') =>
      match read m' input with
      | ROk new r a => ROk (MOpt (Some new)) r a
      | RErr _ r a => ROk (MOpt None) r a                    (* the error is swallowed *)
      | RPanic => RPanic
      | RSpin => RSpin
      end
  | MArray elems factory =>
      match factory with
      | None => RPanic                                       (* "Try reading a non empty array" *)
      | Some tmpl => read_array (read tmpl) (fun l => MArray (elems ++ l) (Some tmpl)) (S (List.length input)) input [] 0
      end
  end.
End Read.

(* accessors used by the glue code (cast!(DataType::X, m["f"])) *)
Definition get (m : msg) (name : string) : option msg :=
  match comp_of m with Some fs => lookup name fs | None => None end.

Fixpoint bytes_of (m : msg) : option bytes :=
  match m with
  | MBytes b => Some b
  | MCheck m' | MDyn m' _ => bytes_of m'
  | MOpt (Some m') => bytes_of m'
  | _ => None
  end.

Fixpoint trame_of (m : msg) : option (list msg) :=
  match m with
  | MTrame l => Some l
  | MArray l _ => Some l
  | MCheck m' | MDyn m' _ => trame_of m'
  | MOpt (Some m') => trame_of m'
  | _ => None
  end.

(* exact-type casts: cast!(DataType::U16, x) fails with InvalidCast on a U8 or U32 *)
Fixpoint width_of (m : msg) : option N :=
  match m with
  | MU8 _ => Some 8 | MU16 _ _ => Some 16 | MU32 _ _ => Some 32
  | MCheck m' | MDyn m' _ => width_of m'
  | MOpt (Some m') => width_of m'
  | _ => None
  end.

Definition cast_num (w : N) (m : option msg) : outcome N :=
  match m with
  | None => Panic                      (* IndexMap index on a missing key *)
  | Some m => match width_of m, num_of m with
              | Some w', Some v => if w' =? w then Ok v else Err EInvalidCast
              | _, _ => Err EInvalidCast
              end
  end.

Definition cast_bytes (m : option msg) : outcome bytes :=
  match m with
  | None => Panic
  | Some m => match bytes_of m with Some b => Ok b | None => Err EInvalidCast end
  end.
