(* GuiLoop.v -- model of the GUI client's receive thread, `launch_rdp_thread` of
   src/bin/mstsc-rs.rs, TOGETHER WITH the client mutex it shares with the GUI thread
   (`main_gui_loop`), as a transition system over an environment.

     while wait_for_fd(fd)                              (* AtWait : select() on the SOCKET only     *)
           && sync.load() {                             (* AtSync : only now is `sync` looked at     *)
         let mut guard = rdp_client.lock().unwrap();    (* AtLock : blocks while the GUI holds it    *)
         loop {                                         (* fix 5166c7a (variant: drain)              *)
             if let Err(e) = guard.read(cb) {           (* AtRead : one PDU through the TLS stream   *)
                 ...; return }                          (* AtDrop : guard dropped, then AtRet        *)
                                                        (* fix db33aad (variant: break_any);
                                                           before: only Err(RdpError) ended the loop *)
             if guard.buffered_read_size() == 0 { break }
         }
     }                                                  (* AtUnlock : guard dropped, back to AtWait  *)
                                                        (* AtRet : the closure returns, its clone of
                                                           the Arc<Mutex<RdpClient>> is dropped      *)

   The GUI thread (main_gui_loop) uses the same Arc<Mutex<RdpClient>>:
     per frame:  { let g = rdp_client.lock(); g.try_write(pointer event) }   { lock; try_write(key)* }
     on exit:    sync.store(false);  rdp_client.lock().unwrap().shutdown()
   `sync` is cleared OUTSIDE the critical section (both stores of main_gui_loop), the client is
   touched only through a guard.  The GUI is not given a program: its actions [GuiLock],
   [GuiWrite], [GuiShutdown], [GuiUnlock], [GuiStop] are chosen by the adversarial scheduler like
   the server's; an action that is not possible now (lock taken by the other thread, no guard
   held) leaves the state unchanged -- a blocked lock() is a GuiLock that is retried later.

   Environment: the socket's receive queue as a list of TLS records, the TLS object's
   decrypted-but-unread plaintext, whether and how the connection was closed, the `sync`
   flag, the mutex, what the client has written.  `wait_for_fd` sees ONLY the socket; `read`
   consumes ONE PDU through the TLS buffer.  Plaintext is abstracted to tokens: a PDU is any
   number of [Frag] tokens followed by one [Fin p] token, so a record boundary can fall
   anywhere inside or between PDUs.

   The loop is parameterised by a [variant] so that both the code as found ([original]) and
   the code as repaired ([repaired], what /repo contains and what the correspondence runs)
   are on the page.  No proofs in this file. *)
From RdpV Require Import Base.

(* Error::RdpError(_) versus every other variant of Error (Io, SslError, ...) *)
Inductive errclass : Type := ERdp | EOther.

(* what RdpClient::read does with one complete PDU *)
Inductive pdu : Type :=
| PEvents (evs : list N)      (* Ok(()); the callback was called with these bitmap events (ids) *)
| PFail (c : errclass).       (* Err: disconnect ultimatum = PFail ERdp; undecodable PDU = PFail ERdp or PFail EOther *)

Inductive token : Type := Frag | Fin (p : pdu).
Definition record := list token.

(* how the socket ended *)
Inductive sockend : Type :=
| CloseNotify     (* TLS close_notify alert, then FIN: queued data stays readable *)
| AbruptFin       (* FIN without alert: queued data stays readable *)
| Reset.          (* RST: queued data is gone *)

Inductive pc : Type :=
| AtWait          (* in / before select() *)
| AtSync          (* select returned 1; about to load `sync` *)
| AtLock          (* sync was true; in rdp_client.lock() *)
| AtRead          (* holding the mutex, inside RdpClient::read (possibly in the middle of a PDU) *)
| AtUnlock        (* end of the while body: the guard is about to be dropped, then back to select *)
| AtDrop          (* `return` inside the locked block: the guard is about to be dropped *)
| AtRet           (* the closure returns: its captured clone of the Arc is about to be dropped *)
| Exited.         (* JoinHandle finished *)

(* the std::sync::Mutex around the RdpClient *)
Inductive lockst : Type := Free | HeldByRecv | HeldByGui.

(* what the client puts on the outbound side of the socket (the server drains it) *)
Inductive wev : Type :=
| WInput (n : N)          (* try_write: one input PDU *)
| WUltimatum              (* shutdown(): the client's disconnect provider ultimatum ... *)
| WCloseNotify.           (* ... followed by its TLS close_notify *)

Record st : Type := mkSt {
  sock : list record;        (* TLS records in the kernel's receive queue *)
  closed : option sockend;
  tls : list token;          (* decrypted, unread (SSL_pending) *)
  sync : bool;
  pcs : pc;
  out : list N;              (* events sent on the bitmap channel, in order *)
  lock : lockst;
  refs : nat;                (* strong count of the Arc<Mutex<RdpClient>>: the owner's handle + the thread's clone *)
  outb : list wev;           (* written by the client while the server was there to read it *)
  wshut : bool;              (* the client has sent its close_notify: nothing can be written any more *)
  (* GHOST fields, for the statements only (no step reads them): *)
  hist : list token;         (* every token the server's writes put into the receive queue *)
  cons : list token;         (* the tokens RdpClient::read has consumed *)
  lost : list token          (* what a RST threw away *)
}.

Definition init : st := mkSt [] None [] true AtWait [] Free 2 [] false [] [] [].

Record variant : Type := mkVariant { break_any : bool; drain : bool }.
Definition original : variant := mkVariant false false.
Definition repaired : variant := mkVariant true true.

Definition set_pc (s : st) (p : pc) : st :=
  mkSt (sock s) (closed s) (tls s) (sync s) p (out s) (lock s) (refs s) (outb s) (wshut s) (hist s) (cons s) (lost s).

Definition set_lock_pc (s : st) (l : lockst) (p : pc) : st :=
  mkSt (sock s) (closed s) (tls s) (sync s) p (out s) l (refs s) (outb s) (wshut s) (hist s) (cons s) (lost s).

Definition set_lock (s : st) (l : lockst) : st := set_lock_pc s l (pcs s).

(* RdpClient::read made progress: new socket queue, new TLS buffer, next pc, forwarded events, consumed tokens *)
Definition set_read (s : st) (sk : list record) (tl : list token) (p : pc) (o : list N) (c : list token) : st :=
  mkSt sk (closed s) tl (sync s) p o (lock s) (refs s) (outb s) (wshut s) (hist s) c (lost s).

(* where the loop goes after read returned Err of class c: out of the thread, or (loop as found, non-Rdp error)
   to the end of the while body *)
Definition after_err (v : variant) (c : errclass) : pc :=
  if break_any v then AtDrop else match c with ERdp => AtDrop | EOther => AtUnlock end.

Definition is_nil {A} (l : list A) : bool := match l with [] => true | _ => false end.

Definition lock_free (s : st) : bool := match lock s with Free => true | _ => false end.
Definition gui_holds (s : st) : bool := match lock s with HeldByGui => true | _ => false end.

(* One step of the thread; None = it cannot move (blocked in select, in lock(), in read, or gone). *)
Definition tstep (v : variant) (s : st) : option st :=
  match pcs s with
  | Exited => None
  | AtWait =>
    (* wait_for_fd: readable = queued data, or EOF / error condition on a closed socket *)
    if is_nil (sock s) && match closed s with None => true | Some _ => false end then None
    else Some (set_pc s AtSync)
  | AtSync => Some (set_pc s (if sync s then AtLock else AtRet))
  | AtLock => if lock_free s then Some (set_lock_pc s HeldByRecv AtRead) else None
  | AtRead =>
    match tls s with
    | t :: rest =>
      match t with
      | Frag => Some (set_read s (sock s) rest AtRead (out s) (cons s ++ [t]))
      | Fin (PEvents evs) =>
        Some (set_read s (sock s) rest (if drain v && negb (is_nil rest) then AtRead else AtUnlock)
                       (out s ++ evs) (cons s ++ [t]))
      | Fin (PFail c) => Some (set_read s (sock s) rest (after_err v c) (out s) (cons s ++ [t]))
      end
    | [] =>
      match sock s with
      | r :: rs => Some (set_read s rs r AtRead (out s) (cons s))      (* SSL_read pulls one record *)
      | [] =>
        match closed s with
        | Some _ => Some (set_pc s (after_err v EOther))     (* read_exact fails: Error::Io / SslError *)
        | None => None                                       (* blocks inside read, mutex held *)
        end
      end
    end
  | AtUnlock => Some (set_lock_pc s Free AtWait)
  | AtDrop => Some (set_lock_pc s Free AtRet)
  | AtRet =>
    Some (mkSt (sock s) (closed s) (tls s) (sync s) Exited (out s) (lock s) (pred (refs s)) (outb s) (wshut s)
               (hist s) (cons s) (lost s))
  end.

(* what the environment can do: the server, and the GUI thread *)
Inductive action : Type :=
| Send (r : record)       (* one server write = one TLS record *)
| Close (k : sockend)
| GuiStop                 (* the GUI loop clears `sync` *)
| GuiLock                 (* rdp_client.lock(): succeeds only on a free mutex *)
| GuiWrite (n : N)        (* guard.try_write(input event) *)
| GuiShutdown             (* guard.shutdown() *)
| GuiUnlock.              (* the guard is dropped *)

(* the client writes w: it reaches the server if the connection is still open in both directions *)
Definition gui_put (s : st) (w : list wev) (shut : bool) : st :=
  if gui_holds s && negb (wshut s) && match closed s with None => true | Some _ => false end then
    mkSt (sock s) (closed s) (tls s) (sync s) (pcs s) (out s) (lock s) (refs s) (outb s ++ w) shut
         (hist s) (cons s) (lost s)
  else s.

Definition env_step (a : action) (s : st) : st :=
  match a with
  | Send r =>
    match closed s with
    | Some _ => s
    | None => mkSt (sock s ++ [r]) None (tls s) (sync s) (pcs s) (out s) (lock s) (refs s) (outb s) (wshut s)
                   (hist s ++ r) (cons s) (lost s)
    end
  | Close k =>
    match closed s with
    | Some _ => s
    | None =>
      match k with
      | Reset => mkSt [] (Some k) (tls s) (sync s) (pcs s) (out s) (lock s) (refs s) (outb s) (wshut s)
                      (hist s) (cons s) (concat (sock s))
      | _ => mkSt (sock s) (Some k) (tls s) (sync s) (pcs s) (out s) (lock s) (refs s) (outb s) (wshut s)
                  (hist s) (cons s) (lost s)
      end
    end
  | GuiStop => mkSt (sock s) (closed s) (tls s) false (pcs s) (out s) (lock s) (refs s) (outb s) (wshut s)
                    (hist s) (cons s) (lost s)
  | GuiLock => if lock_free s then set_lock s HeldByGui else s
  | GuiWrite n => gui_put s [WInput n] false
  | GuiShutdown => gui_put s [WUltimatum; WCloseNotify] true
  | GuiUnlock => if gui_holds s then set_lock s Free else s
  end.

(* a schedule interleaves environment actions ([Some a]) with single thread steps ([None]) *)
Definition sched_step (v : variant) (s : st) (x : option action) : st :=
  match x with
  | Some a => env_step a s
  | None => match tstep v s with Some s' => s' | None => s end
  end.

Definition run (v : variant) (sc : list (option action)) (s : st) : st := fold_left (sched_step v) sc s.

(* the environment is silent and the GUI idle: let the thread run until it cannot move *)
Inductive quiet : Type :=
| RQuiet (s : st)       (* blocked or exited *)
| RSpin (s : st).       (* still iterating when the fuel ran out *)

Fixpoint quiesce (v : variant) (fuel : nat) (s : st) : quiet :=
  match fuel with
  | O => RSpin s
  | S f => match tstep v s with None => RQuiet s | Some s' => quiesce v f s' end
  end.

(* enough fuel for every step that consumes something: 5 steps per token (read, unlock, select, sync, lock),
   one per record, and the few steps of the last iteration *)
Definition ntok (s : st) : nat := length (tls s) + length (concat (sock s)).
Definition pc_rank (p : pc) : nat :=
  match p with Exited => 0 | AtRet => 1 | AtDrop => 2 | AtRead => 3 | AtLock => 4 | AtSync => 5 | AtWait => 6 | AtUnlock => 7 end.
Definition measure (s : st) : nat := 5 * ntok s + length (sock s) + pc_rank (pcs s).
Definition fuel_of (s : st) : nat := S (measure s).

(* ---- schedules in which the server is silent, and how much of such a schedule the thread gets *)

(* the server does nothing in x: a thread step or an action of the GUI thread *)
Definition silent (x : option action) : bool :=
  match x with Some (Send _) | Some (Close _) => false | _ => true end.

(* the thread is in lock() and the GUI holds the mutex *)
Definition mutex_blocked (s : st) : bool :=
  match pcs s with AtLock => gui_holds s | _ => false end.

(* FAIRNESS, as a number: the turns the scheduler gives the thread at moments when the thread is not waiting for
   the GUI to release the mutex.  (A turn of a thread blocked in select / read, or of a finished thread, counts;
   a turn wasted on a mutex the GUI holds does not.) *)
Fixpoint turns (v : variant) (sc : list (option action)) (s : st) : nat :=
  match sc with
  | [] => O
  | x :: r =>
    (match x with None => if mutex_blocked s then O else 1%nat | Some _ => O end + turns v r (sched_step v s x))%nat
  end.

(* the steps the thread actually takes in a schedule *)
Fixpoint moves (v : variant) (sc : list (option action)) (s : st) : nat :=
  match sc with
  | [] => O
  | x :: r =>
    (match x with None => match tstep v s with Some _ => 1%nat | None => O end | Some _ => O end
     + moves v r (sched_step v s x))%nat
  end.

(* the thread has come to rest for a reason that is NOT the GUI: blocked in select, blocked inside a read, or gone *)
Definition settled (v : variant) (s : st) : bool :=
  match tstep v s with Some _ => false | None => negb (mutex_blocked s) end.

(* the four ways a session ends, as environment actions *)
Inductive endkind : Type :=
| EndUltimatum | EndUndecodable (c : errclass) | EndSocket (k : sockend).

Definition end_action (k : endkind) : action :=
  match k with
  | EndUltimatum => Send [Fin (PFail ERdp)]
  | EndUndecodable c => Send [Fin (PFail c)]
  | EndSocket k => Close k
  end.

(* the bitmap events of the PDUs in a token stream, up to the first PDU on which read fails *)
Fixpoint evs_of (l : list token) : list N :=
  match l with
  | [] => []
  | Frag :: r => evs_of r
  | Fin (PEvents e) :: r => e ++ evs_of r
  | Fin (PFail _) :: _ => []
  end.

(* the thread is inside the client (holds a MutexGuard) *)
Definition recv_inside (s : st) : bool :=
  match pcs s with AtRead | AtUnlock | AtDrop => true | _ => false end.

(* schedule items by which the GUI writes to the socket *)
Definition is_gui_write (x : option action) : bool :=
  match x with Some (GuiWrite _) | Some GuiShutdown => true | _ => false end.

(* everything but the outbound side *)
Definition recv_view (s : st) : st :=
  mkSt (sock s) (closed s) (tls s) (sync s) (pcs s) (out s) (lock s) (refs s) [] false (hist s) (cons s) (lost s).

(* what the harness reports as rel=1: the thread finished, only the owner's handle is left, the mutex can be taken *)
Definition released (s : st) : bool :=
  match pcs s with Exited => Nat.eqb (refs s) 1 && negb (match lock s with HeldByRecv => true | _ => false end) | _ => false end.
