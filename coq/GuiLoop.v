(* GuiLoop.v -- model of the GUI client's receive thread, `launch_rdp_thread` of
   src/bin/mstsc-rs.rs, as a transition system over an environment.

     while wait_for_fd(fd) && sync.load() {            (* select() on the SOCKET only      *)
         let mut guard = rdp_client.lock().unwrap();
         loop {                                         (* fix 5166c7a (variant: drain)     *)
             if let Err(e) = guard.read(cb) { ...; return }   (* fix db33aad (variant: break_any);
                                                                  before: only Err(RdpError) ended the loop *)
             if guard.buffered_read_size() == 0 { break }
         }
     }

   Environment: the socket's receive queue as a list of TLS records, the TLS object's
   decrypted-but-unread plaintext, whether and how the connection was closed, the `sync`
   flag.  `wait_for_fd` sees ONLY the socket; `read` consumes ONE PDU through the TLS buffer.
   Plaintext is abstracted to tokens: a PDU is any number of [Frag] tokens followed by one
   [Fin p] token, so a record boundary can fall anywhere inside or between PDUs.

   The loop is parameterised by a [variant] so that both the code as found ([original]) and
   the code as repaired ([repaired], what /repo contains and what the correspondence runs)
   are on the page.  No proofs in this file. *)
From RdpV Require Import Base.

(* Error::RdpError(_) versus every other variant of Error (Io, SslError, ...) *)
Inductive errclass : Type := ERdp | EOther.

(* what RdpClient::read does with one complete PDU *)
Inductive pdu : Type :=
| PEvents (evs : list N)      (* Ok(()); the callback was called with these bitmap events (ids) *)
| PFail (c : errclass).       (* Err: disconnect ultimatum = PFail ERdp; undecodable PDU = PFail ERdp or PFail EOther *)

Inductive token : Type := Frag | Fin (p : pdu).
Definition record := list token.

(* how the socket ended *)
Inductive sockend : Type :=
| CloseNotify     (* TLS close_notify alert, then FIN: queued data stays readable *)
| AbruptFin       (* FIN without alert: queued data stays readable *)
| Reset.          (* RST: queued data is gone *)

Inductive pc : Type :=
| AtWait          (* in / before select() *)
| AtLock          (* select returned, sync was true; about to lock and read *)
| AtRead          (* holding the mutex, inside RdpClient::read (possibly in the middle of a PDU) *)
| Exited.         (* the closure returned: JoinHandle finishes, the Arc<Mutex<RdpClient>> clone is dropped *)

Record st : Type := mkSt {
  sock : list record;        (* TLS records in the kernel's receive queue *)
  closed : option sockend;
  tls : list token;          (* decrypted, unread (SSL_pending) *)
  sync : bool;
  pcs : pc;
  out : list N;              (* events sent on the bitmap channel, in order *)
  (* GHOST fields, for the statements only (no step reads them): *)
  hist : list token;         (* every token the server's writes put into the receive queue *)
  cons : list token;         (* the tokens RdpClient::read has consumed *)
  lost : list token          (* what a RST threw away *)
}.

Definition init : st := mkSt [] None [] true AtWait [] [] [] [].

Record variant : Type := mkVariant { break_any : bool; drain : bool }.
Definition original : variant := mkVariant false false.
Definition repaired : variant := mkVariant true true.

Definition set_pc (s : st) (p : pc) : st :=
  mkSt (sock s) (closed s) (tls s) (sync s) p (out s) (hist s) (cons s) (lost s).

(* where the loop goes after read returned Err of class c *)
Definition after_err (v : variant) (c : errclass) : pc :=
  if break_any v then Exited else match c with ERdp => Exited | EOther => AtWait end.

Definition is_nil {A} (l : list A) : bool := match l with [] => true | _ => false end.

(* One step of the thread; None = it cannot move (blocked in select, blocked in read, or gone). *)
Definition tstep (v : variant) (s : st) : option st :=
  match pcs s with
  | Exited => None
  | AtWait =>
    (* wait_for_fd: readable = queued data, or EOF / error condition on a closed socket *)
    if is_nil (sock s) && match closed s with None => true | Some _ => false end then None
    else Some (set_pc s (if sync s then AtLock else Exited))
  | AtLock => Some (set_pc s AtRead)
  | AtRead =>
    match tls s with
    | t :: rest =>
      match t with
      | Frag => Some (mkSt (sock s) (closed s) rest (sync s) AtRead (out s) (hist s) (cons s ++ [t]) (lost s))
      | Fin (PEvents evs) =>
        Some (mkSt (sock s) (closed s) rest (sync s)
                   (if drain v && negb (is_nil rest) then AtRead else AtWait)
                   (out s ++ evs) (hist s) (cons s ++ [t]) (lost s))
      | Fin (PFail c) =>
        Some (mkSt (sock s) (closed s) rest (sync s) (after_err v c) (out s) (hist s) (cons s ++ [t]) (lost s))
      end
    | [] =>
      match sock s with
      | r :: rs =>      (* SSL_read pulls one record *)
        Some (mkSt rs (closed s) r (sync s) AtRead (out s) (hist s) (cons s) (lost s))
      | [] =>
        match closed s with
        | Some _ => Some (set_pc s (after_err v EOther))     (* read_exact fails: Error::Io / SslError *)
        | None => None                                       (* blocks inside read, mutex held *)
        end
      end
    end
  end.

(* what the environment can do *)
Inductive action : Type :=
| Send (r : record)       (* one server write = one TLS record *)
| Close (k : sockend)
| GuiStop.                (* the GUI loop clears `sync` *)

Definition env_step (a : action) (s : st) : st :=
  match a with
  | Send r =>
    match closed s with
    | Some _ => s
    | None => mkSt (sock s ++ [r]) None (tls s) (sync s) (pcs s) (out s) (hist s ++ r) (cons s) (lost s)
    end
  | Close k =>
    match closed s with
    | Some _ => s
    | None =>
      match k with
      | Reset => mkSt [] (Some k) (tls s) (sync s) (pcs s) (out s) (hist s) (cons s) (concat (sock s))
      | _ => mkSt (sock s) (Some k) (tls s) (sync s) (pcs s) (out s) (hist s) (cons s) (lost s)
      end
    end
  | GuiStop => mkSt (sock s) (closed s) (tls s) false (pcs s) (out s) (hist s) (cons s) (lost s)
  end.

(* a schedule interleaves environment actions ([Some a]) with single thread steps ([None]) *)
Definition sched_step (v : variant) (s : st) (x : option action) : st :=
  match x with
  | Some a => env_step a s
  | None => match tstep v s with Some s' => s' | None => s end
  end.

Definition run (v : variant) (sc : list (option action)) (s : st) : st := fold_left (sched_step v) sc s.

(* the environment is silent: let the thread run until it cannot move *)
Inductive quiet : Type :=
| RQuiet (s : st)       (* blocked or exited *)
| RSpin (s : st).       (* still iterating when the fuel ran out *)

Fixpoint quiesce (v : variant) (fuel : nat) (s : st) : quiet :=
  match fuel with
  | O => RSpin s
  | S f => match tstep v s with None => RQuiet s | Some s' => quiesce v f s' end
  end.

(* enough fuel for every step that consumes something: 3 steps per token (read, wait, lock),
   one per record, and the few steps of the last iteration *)
Definition ntok (s : st) : nat := length (tls s) + length (concat (sock s)).
Definition pc_rank (p : pc) : nat := match p with Exited => 0 | AtRead => 1 | AtLock => 2 | AtWait => 3 end.
Definition measure (s : st) : nat := 3 * ntok s + length (sock s) + pc_rank (pcs s).
Definition fuel_of (s : st) : nat := S (measure s).

(* the four ways a session ends, as environment actions *)
Inductive endkind : Type :=
| EndUltimatum | EndUndecodable (c : errclass) | EndSocket (k : sockend).

Definition end_action (k : endkind) : action :=
  match k with
  | EndUltimatum => Send [Fin (PFail ERdp)]
  | EndUndecodable c => Send [Fin (PFail c)]
  | EndSocket k => Close k
  end.

(* the bitmap events of the PDUs in a token stream, up to the first PDU on which read fails *)
Fixpoint evs_of (l : list token) : list N :=
  match l with
  | [] => []
  | Frag :: r => evs_of r
  | Fin (PEvents e) :: r => e ++ evs_of r
  | Fin (PFail _) :: _ => []
  end.
