(* C02: the negotiated security protocol is honoured, and no credential-bearing message is
   written before TLS is established.  Trace properties of the connect model (Connect.v),
   proved with a small Hoare logic over the run state whose exit condition also covers
   failing runs (the trace of a run that ends in an error must be safe too).  Nothing is
   assumed of the external code here: the statements hold whatever the BER parser, the
   handshake and the CredSSP exchange return. *)
From RdpV Require Import Base Msg LayoutsGlobal LayoutsConnect Link Tpkt Global Connect C06_proofs C05_proofs.
Open Scope list_scope.
Open Scope N_scope.

(* ------------------------------------------------------------------ what a safe trace is *)
Definition is_info (m : cmsg) : bool := match m with INFO _ _ _ => true | _ => false end.
Definition is_start_ok (e : tev) : bool := match e with TlsStart true => true | _ => false end.

Fixpoint started (l : list tev) : bool :=
  match l with [] => false | e :: tl => is_start_ok e || started tl end.

(* [allow] = the caller asked for basic RDP security and nothing else (offered mask 0): then,
   and only then, the Client Info PDU may travel in clear.  [st] = a handshake has completed. *)
Definition ev_ok (allow st : bool) (e : tev) : bool :=
  match e with
  | RawWrite m => negb (cred m) || (allow && is_info m)
  | TlsStart _ => true
  | TlsWrite _ => st
  end.

Fixpoint trace_ok (allow st : bool) (l : list tev) : bool :=
  match l with
  | [] => true
  | e :: tl => ev_ok allow st e && trace_ok allow (st || is_start_ok e) tl
  end.

Lemma started_app1 l e : started (l ++ [e]) = started l || is_start_ok e.
Proof. induction l as [|x tl IH]; cbn [app started]; [rewrite orb_false_r; reflexivity|]. rewrite IH, orb_assoc. reflexivity. Qed.

Lemma trace_ok_app1 allow : forall l st e,
  trace_ok allow st (l ++ [e]) = trace_ok allow st l && ev_ok allow (st || started l) e.
Proof.
  induction l as [|x tl IH]; intros st e; cbn [app trace_ok started].
  - rewrite orb_false_r, andb_true_r. reflexivity.
  - rewrite IH, orb_assoc, andb_assoc. reflexivity.
Qed.

(* the Prop reading of the checker: every event of the trace, with what precedes it *)
Lemma trace_ok_spec allow : forall l st, trace_ok allow st l = true ->
  forall pre e post, l = pre ++ e :: post ->
    match e with
    | RawWrite m => cred m = false \/ (allow = true /\ is_info m = true)
    | TlsStart _ => True
    | TlsWrite _ => st = true \/ In (TlsStart true) pre
    end.
Proof.
  induction l as [|x tl IH]; intros st H pre e post Heq; [destruct pre; discriminate|].
  cbn [trace_ok] in H. apply andb_true_iff in H. destruct H as [H1 H2].
  destruct pre as [|y pre']; cbn [app] in Heq; inversion Heq; subst.
  - destruct e as [m|ok|m]; cbn [ev_ok] in H1; auto.
    apply orb_true_iff in H1. destruct H1 as [H1|H1]; [left; apply negb_true_iff; exact H1|right; apply andb_true_iff; exact H1].
  - specialize (IH _ H2 pre' e post eq_refl). destruct e as [m|ok|m]; auto.
    destruct IH as [IH|IH]; [|right; right; exact IH].
    apply orb_true_iff in IH. destruct IH as [IH|IH]; [left; exact IH|].
    right. left. destruct y as [m'|[|]|m']; cbn in IH; try discriminate. reflexivity.
Qed.

(* no credential-bearing message at all, on either side of TLS *)
Definition ev_nocred (e : tev) : bool :=
  match e with RawWrite m | TlsWrite m => negb (cred m) | TlsStart _ => true end.
Definition nocred (l : list tev) : bool := forallb ev_nocred l.

Lemma nocred_app1 l e : nocred (l ++ [e]) = nocred l && ev_nocred e.
Proof. unfold nocred. rewrite forallb_app. cbn [forallb]. rewrite andb_true_r. reflexivity. Qed.

(* ------------------------------------------------------------------ Hoare triples with an exit condition *)
Definition triple {A} (P : cst -> Prop) (m : M A) (Q : A -> cst -> Prop) (E : cst -> Prop) : Prop :=
  forall s, P s -> match m s with (Ok a, s') => Q a s' | (_, s') => E s' end.

Lemma triple_bind {A B} P (m : M A) (k : A -> M B) Q R E :
  triple P m Q E -> (forall a, triple (Q a) (k a) R E) -> triple P (bind m k) R E.
Proof.
  intros Hm Hk s Hs. unfold bind. specialize (Hm s Hs). destruct (m s) as [o s']. destruct o as [a|e| |]; auto.
  apply (Hk a s' Hm).
Qed.

Lemma triple_ret {A} (P : cst -> Prop) (a : A) (Q : A -> cst -> Prop) E : (forall s, P s -> Q a s) -> triple P (ret a) Q E.
Proof. intros H s Hs. cbn. auto. Qed.

Lemma triple_fail {A} (P : cst -> Prop) e (Q : A -> cst -> Prop) (E : cst -> Prop) : (forall s, P s -> E s) -> triple P (fail e) Q E.
Proof. intros H s Hs. cbn. auto. Qed.

Lemma triple_pre {A} (P P' : cst -> Prop) (m : M A) Q E : (forall s, P' s -> P s) -> triple P m Q E -> triple P' m Q E.
Proof. intros H Hm s Hs. apply Hm. auto. Qed.

(* predicates that only look at the trace and the transport mode *)
Definition tr_only (P : cst -> Prop) : Prop :=
  forall s s', s_ev s' = s_ev s -> s_tls s' = s_tls s -> P s -> P s'.
Definition keeps {A} (m : M A) : Prop := forall s, s_ev (snd (m s)) = s_ev s /\ s_tls (snd (m s)) = s_tls s.

Lemma triple_keeps {A} (P : cst -> Prop) (m : M A) : tr_only P -> keeps m -> triple P m (fun _ => P) P.
Proof.
  intros Ht Hk s Hs. destruct (Hk s) as [H1 H2]. destruct (m s) as [o s']. cbn [snd] in *.
  destruct o; eapply Ht; eauto.
Qed.

Lemma keeps_lift {A} (r : outcome A * N) : keeps (lift r).
Proof. intros s. cbn. auto. Qed.
Lemma keeps_recv_tpkt : keeps recv_tpkt.
Proof. intros s. unfold recv_tpkt. destruct (tpkt_read (s_in s)). cbn. auto. Qed.
Lemma keeps_recv_x224 : keeps recv_x224.
Proof. intros s. unfold recv_x224. destruct (x224_read (s_in s)). cbn. auto. Qed.

(* ------------------------------------------------------------------ the invariants *)
Section Trace.
Variable allow : bool.

(* the trace so far is safe, and a link in TLS mode has completed a handshake *)
Definition TI (s : cst) : Prop :=
  trace_ok allow false (s_ev s) = true /\ (s_tls s = true -> started (s_ev s) = true).
(* ... and, unless plain RDP security was what the caller asked for, the link is in TLS mode *)
Definition TJ (s : cst) : Prop := TI s /\ (allow = false -> s_tls s = true).
Definition TT (s : cst) : Prop := TI s /\ s_tls s = true.

Lemma TI_tr : tr_only TI. Proof. intros s s' H1 H2 [Ha Hb]. unfold TI. rewrite H1, H2. auto. Qed.
Lemma TJ_tr : tr_only TJ. Proof. intros s s' H1 H2 [Ha Hb]. split; [eapply TI_tr; eauto|rewrite H2; auto]. Qed.
Lemma TT_tr : tr_only TT. Proof. intros s s' H1 H2 [Ha Hb]. split; [eapply TI_tr; eauto|rewrite H2; auto]. Qed.

Lemma emit_TI m s : TI s -> (cred m = false \/ s_tls s = true \/ (allow = true /\ is_info m = true)) ->
  TI (snd (emit m s)) /\ s_tls (snd (emit m s)) = s_tls s.
Proof.
  intros [H1 H2] Hm. unfold emit, TI. cbn [snd s_ev s_tls]. split; [|reflexivity]. split.
  - rewrite trace_ok_app1, H1. cbn [andb orb]. destruct (s_tls s) eqn:Et; cbn [ev_ok].
    + apply H2. reflexivity.
    + destruct Hm as [Hm|[Hm|[Ha Hi]]]; [rewrite Hm; reflexivity|discriminate|rewrite Ha, Hi; apply orb_true_r].
  - intros Ht. rewrite started_app1, (H2 Ht). reflexivity.
Qed.

Lemma emit_TJ m s : TJ s -> (cred m = false \/ is_info m = true) -> TJ (snd (emit m s)).
Proof.
  intros [Hi Hj] Hm.
  assert (Hc : cred m = false \/ s_tls s = true \/ (allow = true /\ is_info m = true)).
  { destruct Hm as [Hm|Hm]; [auto|]. destruct allow eqn:Ea; [right; right; auto|right; left; auto]. }
  destruct (emit_TI m s Hi Hc) as [H1 H2]. split; [exact H1|rewrite H2; exact Hj].
Qed.

Lemma emit_TT m s : TT s -> TT (snd (emit m s)).
Proof.
  intros [Hi Ht]. destruct (emit_TI m s Hi (or_intror (or_introl Ht))) as [H1 H2]. split; [exact H1|rewrite H2; exact Ht].
Qed.

Lemma triple_emit_TJ m : (cred m = false \/ is_info m = true) -> triple TJ (emit m) (fun _ => TJ) TI.
Proof. intros Hm s Hs. pose proof (emit_TJ m s Hs Hm) as H. unfold emit in *. cbn [snd] in H. exact H. Qed.

Lemma TT_TJ s : TT s -> TJ s. Proof. intros [H1 H2]. split; auto. Qed.
Lemma TJ_TI s : TJ s -> TI s. Proof. intros [H1 _]. exact H1. Qed.
Lemma TT_TI s : TT s -> TI s. Proof. intros [H1 _]. exact H1. Qed.

Section Oracles.
Variable p : prof.
Variable ber_parse : bytes -> outcome bytes.
Variable trusted : bool.
Variable tls_start : stream -> outcome stream.
Variable cssp_run : stream -> nat * outcome stream.

Lemma log_TI s b : TI s -> TI (log_ev s (TlsStart b)) .
Proof.
  intros [H1 H2]. unfold TI, log_ev. cbn [s_ev s_tls]. split.
  - rewrite trace_ok_app1, H1. reflexivity.
  - intros Ht. rewrite started_app1, (H2 Ht). reflexivity.
Qed.

Lemma triple_start_ssl c : triple TI (start_ssl trusted tls_start c) (fun _ => TT) TI.
Proof.
  intros s Hs. unfold start_ssl.
  destruct (tls_handshake (check_cert c) trusted); [|apply log_TI; exact Hs].
  destruct (tls_start (s_in s)) as [cs'|e| |]; try (apply log_TI; exact Hs).
  destruct Hs as [H1 H2]. split; [|reflexivity]. unfold TI. cbn [s_ev s_tls]. split.
  - rewrite trace_ok_app1, H1. reflexivity.
  - intros ?. rewrite started_app1. cbn. apply orb_true_r.
Qed.

Lemma emit_n_TT m : forall n s, TT s -> fst (emit_n m n s) = Ok tt /\ TT (snd (emit_n m n s)).
Proof.
  induction n as [|n IH]; intros s Hs; cbn [emit_n]; [cbn; auto|].
  unfold bind. pose proof (emit_TT m s Hs) as H. unfold emit in *. cbn [fst snd] in *. apply IH. exact H.
Qed.

Lemma triple_cssp_connect : triple TT (cssp_connect cssp_run) (fun _ => TT) TI.
Proof.
  intros s Hs. unfold cssp_connect.
  destruct (emit_n_TT CSSP (fst (cssp_run (s_in s))) s Hs) as [_ H].
  destruct (emit_n CSSP (fst (cssp_run (s_in s))) s) as [o s1]. cbn [snd] in H.
  destruct (snd (cssp_run (s_in s))) as [cs'|e| |]; auto using TT_TI.
Qed.

Lemma triple_start_nla c : triple TI (start_nla trusted tls_start cssp_run c) (fun _ => TT) TI.
Proof. unfold start_nla. eapply triple_bind; [apply triple_start_ssl|]. intros ?. apply triple_cssp_connect. Qed.

(* what x224::Client::connect guarantees when it returns a client *)
Definition sel_post (c : config) (sel : N) (s : cst) : Prop :=
  TJ s /\
  ((sel = PROTOCOL_RDP /\ offered c = PROTOCOL_RDP /\ s_tls s = false) \/
   ((sel = PROTOCOL_SSL \/ sel = PROTOCOL_HYBRID) /\ N.land (offered c) sel <> 0 /\ s_tls s = true)).

Definition TI0 (s : cst) : Prop := TI s /\ s_tls s = false.
Lemma TI0_tr : tr_only TI0. Proof. intros s s' H1 H2 [Ha Hb]. split; [eapply TI_tr; eauto|rewrite H2; auto]. Qed.

Lemma x224_connect_triple c :
  allow = (offered c =? 0) ->
  triple TI0 (x224_connect p trusted tls_start cssp_run c) (sel_post c) TI.
Proof.
  intros Hallow. unfold x224_connect.
  eapply triple_bind with (Q := fun _ => TI0).
  { intros s [Hs Ht]. destruct (emit_TI (CR (offered c) (if restricted_admin c then 1 else 0)) s Hs (or_introl eq_refl)) as [H1 H2].
    unfold emit in *. cbn [snd] in *. split; [exact H1|rewrite H2; exact Ht]. }
  intros ?. eapply triple_bind with (Q := fun _ => TI0).
  { intros s Hs. pose proof (triple_keeps TI0 recv_tpkt TI0_tr keeps_recv_tpkt s Hs) as H.
    destruct (recv_tpkt s) as [o s']. destruct o; auto; destruct H; auto. }
  intros pl. eapply triple_bind with (Q := fun _ => TI0).
  { intros s Hs. pose proof (triple_keeps TI0 (lift (expect_raw pl, 0)) TI0_tr (keeps_lift _) s Hs) as H.
    destruct (lift (expect_raw pl, 0) s) as [o s']. destruct o; auto; destruct H; auto. }
  intros b. eapply triple_bind with (Q := fun _ => TI0).
  { intros s Hs. pose proof (triple_keeps TI0 (lift (read_connection_confirm p b)) TI0_tr (keeps_lift _) s Hs) as H.
    destruct (lift (read_connection_confirm p b) s) as [o s']. destruct o; auto; destruct H; auto. }
  intros sel.
  destruct (sel_requested (offered c) sel) eqn:Ereq; cbn [negb]; [|apply triple_fail; intros s [Hs _]; exact Hs].
  unfold sel_requested in Ereq.
  destruct (sel =? PROTOCOL_HYBRID) eqn:E2.
  { apply N.eqb_eq in E2. subst sel. cbn in Ereq. apply negb_true_iff, N.eqb_neq in Ereq.
    destruct (has_auth c); [|apply triple_fail; intros s [Hs _]; exact Hs].
    eapply triple_bind; [eapply triple_pre; [|apply triple_start_nla]; intros s [Hs _]; exact Hs|].
    intros ?. apply triple_ret. intros s Hs. split; [apply TT_TJ; exact Hs|]. right. destruct Hs as [_ Ht]. auto. }
  destruct (sel =? PROTOCOL_SSL) eqn:E1.
  { apply N.eqb_eq in E1. subst sel. cbn in Ereq. apply negb_true_iff, N.eqb_neq in Ereq.
    eapply triple_bind; [eapply triple_pre; [|apply triple_start_ssl]; intros s [Hs _]; exact Hs|].
    intros ?. apply triple_ret. intros s Hs. split; [apply TT_TJ; exact Hs|]. right. destruct Hs as [_ Ht]. auto. }
  destruct (sel =? PROTOCOL_RDP) eqn:E0; [|apply triple_fail; intros s [Hs _]; exact Hs].
  apply N.eqb_eq in E0. subst sel. cbn in Ereq. apply triple_ret. intros s [Hs Ht].
  split; [split; [exact Hs|]|].
  - intros Ha. rewrite Hallow in Ha. unfold PROTOCOL_RDP in Ereq. congruence.
  - left. apply N.eqb_eq in Ereq. auto.
Qed.

Lemma triple_keeps_TJ {A} (m : M A) : keeps m -> triple TJ m (fun _ => TJ) TI.
Proof.
  intros Hk s Hs. pose proof (triple_keeps TJ m TJ_tr Hk s Hs) as H.
  destruct (m s) as [o s']. destruct o; auto using TJ_TI.
Qed.

Lemma join_channels_triple uid : forall chans, triple TJ (join_channels uid chans) (fun _ => TJ) TI.
Proof.
  induction chans as [|ch tl IH]; cbn [join_channels]; [apply triple_ret; auto|].
  eapply triple_bind; [apply triple_emit_TJ; left; reflexivity|]. intros ?.
  eapply triple_bind; [apply triple_keeps_TJ; apply keeps_recv_x224|]. intros pl.
  eapply triple_bind; [apply triple_keeps_TJ; apply keeps_lift|]. intros b.
  eapply triple_bind; [apply triple_keeps_TJ; apply keeps_lift|]. intros ?. exact IH.
Qed.

Lemma mcs_connect_triple c sel : triple TJ (mcs_connect p ber_parse c sel) (fun _ => TJ) TI.
Proof.
  unfold mcs_connect.
  eapply triple_bind; [apply triple_emit_TJ; left; reflexivity|]. intros ?.
  eapply triple_bind; [apply triple_keeps_TJ; apply keeps_recv_x224|]. intros pl.
  eapply triple_bind; [apply triple_keeps_TJ; apply keeps_lift|]. intros b.
  eapply triple_bind; [apply triple_keeps_TJ; apply keeps_lift|]. intros sd.
  eapply triple_bind; [apply triple_emit_TJ; left; reflexivity|]. intros ?.
  eapply triple_bind; [apply triple_emit_TJ; left; reflexivity|]. intros ?.
  eapply triple_bind; [apply triple_keeps_TJ; apply keeps_recv_x224|]. intros pl2.
  eapply triple_bind; [apply triple_keeps_TJ; apply keeps_lift|]. intros b2.
  eapply triple_bind; [apply triple_keeps_TJ; apply keeps_lift|]. intros uid.
  eapply triple_bind; [apply join_channels_triple|]. intros ?.
  apply triple_ret. auto.
Qed.

Lemma sec_connect_triple c uid io v5 : triple TJ (sec_connect p c uid io v5) (fun _ => TJ) TI.
Proof.
  unfold sec_connect.
  eapply triple_bind; [apply triple_emit_TJ; right; reflexivity|]. intros ?.
  eapply triple_bind; [apply triple_keeps_TJ; apply keeps_recv_x224|]. intros pl.
  eapply triple_bind; [apply triple_keeps_TJ; apply keeps_lift|]. intros pl'.
  eapply triple_bind; [apply triple_keeps_TJ; apply keeps_lift|]. intros b.
  apply triple_keeps_TJ. apply keeps_lift.
Qed.

Lemma connect_triple c :
  allow = (offered c =? 0) ->
  triple TI0 (connect p ber_parse trusted tls_start cssp_run c) (fun _ => TJ) TI.
Proof.
  intros Ha. unfold connect.
  eapply triple_bind; [apply x224_connect_triple; exact Ha|]. intros sel.
  eapply triple_pre with (P := TJ); [intros s [H _]; exact H|].
  eapply triple_bind; [apply mcs_connect_triple|]. intros us.
  eapply triple_bind; [apply sec_connect_triple|]. intros ?.
  apply triple_ret. auto.
Qed.
End Oracles.
End Trace.

Lemma TI0_init allow cs : TI0 allow (mkSt cs [] false 0).
Proof. split; [split; [reflexivity|intros H; discriminate]|reflexivity]. Qed.

(* ---- the statements ---- *)
Theorem run_trace_ok p ber_parse trusted tls_start cssp_run c cs :
  trace_ok (offered c =? 0) false (s_ev (snd (run_connect p ber_parse trusted tls_start cssp_run c cs))) = true.
Proof.
  unfold run_connect.
  pose proof (connect_triple (offered c =? 0) p ber_parse trusted tls_start cssp_run c eq_refl _ (TI0_init _ cs)) as H.
  destruct (connect p ber_parse trusted tls_start cssp_run c (mkSt cs [] false 0)) as [o s']. cbn [snd].
  destruct o; [destruct H as [[H _] _]|destruct H as [H _]..]; exact H.
Qed.

Theorem no_cred_before_tls p ber_parse trusted tls_start cssp_run c cs :
  offered c <> 0 ->
  forall pre e post,
    s_ev (snd (run_connect p ber_parse trusted tls_start cssp_run c cs)) = pre ++ e :: post ->
    match e with
    | RawWrite m => cred m = false
    | TlsStart _ => True
    | TlsWrite _ => In (TlsStart true) pre
    end.
Proof.
  intros Hoff pre e post Heq. pose proof (run_trace_ok p ber_parse trusted tls_start cssp_run c cs) as H.
  apply N.eqb_neq in Hoff. rewrite Hoff in H.
  pose proof (trace_ok_spec false _ false H pre e post Heq) as Hs.
  destruct e; auto.
  - destruct Hs as [Hs|[Hs _]]; [exact Hs|discriminate].
  - destruct Hs as [Hs|Hs]; [discriminate|exact Hs].
Qed.

(* the Client Info travels in clear only when plain RDP security is what the caller asked for *)
Theorem raw_info_only_on_request p ber_parse trusted tls_start cssp_run c cs :
  forall pre m post,
    s_ev (snd (run_connect p ber_parse trusted tls_start cssp_run c cs)) = pre ++ RawWrite m :: post ->
    cred m = true -> offered c = 0 /\ is_info m = true.
Proof.
  intros pre m post Heq Hc. pose proof (run_trace_ok p ber_parse trusted tls_start cssp_run c cs) as H.
  pose proof (trace_ok_spec _ _ false H pre (RawWrite m) post Heq) as Hs. cbn in Hs.
  destruct Hs as [Hs|[Hs Hi]]; [congruence|]. split; [apply N.eqb_eq; exact Hs|exact Hi].
Qed.

Theorem x224_selection p trusted tls_start cssp_run c s sel s' :
  s_ev s = [] -> s_tls s = false ->
  x224_connect p trusted tls_start cssp_run c s = (Ok sel, s') ->
  (sel = PROTOCOL_RDP /\ offered c = PROTOCOL_RDP /\ s_tls s' = false) \/
  ((sel = PROTOCOL_SSL \/ sel = PROTOCOL_HYBRID) /\ N.land (offered c) sel <> 0 /\ s_tls s' = true /\ In (TlsStart true) (s_ev s')).
Proof.
  intros Hev Htls Hrun.
  assert (H0 : TI0 (offered c =? 0) s).
  { split; [split; [rewrite Hev; reflexivity|rewrite Htls; discriminate]|exact Htls]. }
  pose proof (x224_connect_triple (offered c =? 0) p trusted tls_start cssp_run c eq_refl s H0) as H.
  rewrite Hrun in H. destruct H as [[[_ Hst] _] [H|[H1 [H2 H3]]]]; [left; exact H|right].
  repeat split; auto. specialize (Hst H3).
  clear - Hst. induction (s_ev s') as [|e tl IH]; cbn in Hst; [discriminate|].
  apply orb_true_iff in Hst. destruct Hst as [Hst|Hst]; [left; destruct e as [?|[|]|?]; cbn in Hst; try discriminate; reflexivity|right; auto].
Qed.

(* ------------------------------------------------------------------ certificate checking *)
Definition NC (s : cst) : Prop := nocred (s_ev s) = true /\ s_tls s = false.
Lemma NC_tr : tr_only NC.
Proof. intros s s' H1 H2 [Ha Hb]. unfold NC. rewrite H1, H2. auto. Qed.

Section CheckCert.
Variable p : prof.
Variable ber_parse : bytes -> outcome bytes.
Variable tls_start : stream -> outcome stream.
Variable cssp_run : stream -> nat * outcome stream.

Lemma triple_keeps_NC {A} (m : M A) : keeps m -> triple NC m (fun _ => NC) NC.
Proof. intros Hk. apply triple_keeps; [exact NC_tr|exact Hk]. Qed.

(* checking on, certificate not trusted: the handshake fails and the link stays as it was *)
Lemma start_ssl_refuses c :
  check_cert c = true -> triple NC (start_ssl false tls_start c) (fun _ _ => False) NC.
Proof.
  intros Hc s [H1 H2]. unfold start_ssl, tls_handshake. rewrite Hc. cbn [negb orb].
  unfold NC, log_ev. cbn [s_ev s_tls]. rewrite nocred_app1, H1. auto.
Qed.

Lemma x224_connect_refuses c :
  check_cert c = true -> offered c <> 0 ->
  triple NC (x224_connect p false tls_start cssp_run c) (fun _ _ => False) NC.
Proof.
  intros Hc Hoff. unfold x224_connect.
  eapply triple_bind with (Q := fun _ => NC).
  { intros s [H1 H2]. unfold emit, NC. cbn [s_ev s_tls]. rewrite H2, nocred_app1, H1. auto. }
  intros ?. eapply triple_bind; [apply triple_keeps_NC; apply keeps_recv_tpkt|].
  intros pl. eapply triple_bind; [apply triple_keeps_NC; apply keeps_lift|].
  intros b. eapply triple_bind; [apply triple_keeps_NC; apply keeps_lift|].
  intros sel.
  destruct (sel_requested (offered c) sel) eqn:Ereq; cbn [negb]; [|apply triple_fail; auto].
  destruct (sel =? PROTOCOL_HYBRID).
  { destruct (has_auth c); [|apply triple_fail; auto].
    eapply triple_bind with (Q := fun _ _ => False).
    - unfold start_nla. eapply triple_bind; [apply start_ssl_refuses; exact Hc|]. intros ? s Hs. contradiction.
    - intros ? s Hs. contradiction. }
  destruct (sel =? PROTOCOL_SSL).
  { eapply triple_bind; [apply start_ssl_refuses; exact Hc|]. intros ? s Hs. contradiction. }
  destruct (sel =? PROTOCOL_RDP) eqn:E0; [|apply triple_fail; auto].
  apply N.eqb_eq in E0. subst sel. unfold sel_requested in Ereq. cbn in Ereq. apply N.eqb_eq in Ereq.
  unfold PROTOCOL_RDP in Ereq. contradiction.
Qed.

Theorem check_cert_aborts c cs :
  check_cert c = true -> offered c <> 0 ->
  is_ok (fst (run_connect p ber_parse false tls_start cssp_run c cs)) = false /\
  nocred (s_ev (snd (run_connect p ber_parse false tls_start cssp_run c cs))) = true.
Proof.
  intros Hc Hoff. unfold run_connect, connect.
  assert (H : triple NC
            (bind (x224_connect p false tls_start cssp_run c) (fun sel =>
             bind (mcs_connect p ber_parse c sel) (fun us =>
             bind (sec_connect p c (fst us) (global_id (snd us)) (rdp_v5 (snd us))) (fun _ => ret us))))
            (fun _ _ => False) NC).
  { eapply triple_bind; [apply x224_connect_refuses; assumption|]. intros ? s Hs. contradiction. }
  specialize (H (mkSt cs [] false 0) (conj eq_refl eq_refl)).
  match goal with |- context [bind ?a ?b ?s] => destruct (bind a b s) as [o s'] end.
  cbn [fst snd]. destruct o; [contradiction|destruct H as [H _]; auto..].
Qed.
End CheckCert.

(* with what C05 assumes of the external code, "does not succeed" is "ends in an error" *)
Theorem check_cert_errors p ber_parse tls_start cssp_run c cs :
  oracle_bytes_ok ber_parse -> oracle_stream_ok tls_start -> oracle_cssp_ok cssp_run -> wf_stream cs ->
  check_cert c = true -> offered c <> 0 ->
  exists e, fst (run_connect p ber_parse false tls_start cssp_run c cs) = Err e.
Proof.
  intros H1 H2 H3 Hwf Hc Hoff.
  destruct (check_cert_aborts p ber_parse tls_start cssp_run c cs Hc Hoff) as [Hok _].
  destruct (connect_total p ber_parse false tls_start cssp_run H1 H2 H3 c cs Hwf) as [Hp Hs].
  destruct (fst (run_connect p ber_parse false tls_start cssp_run c cs)) as [a|e| |]; try discriminate; try congruence.
  exists e. reflexivity.
Qed.
