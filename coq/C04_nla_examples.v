(* C04, network level authentication: concrete instances with the executable MD4 / MD5 / HMAC-MD5 / RC4
   (non-vacuity of the hypotheses of C04_nla_proofs.v, and the witnesses of the known finding). *)
From RdpV Require Import Base Msg Link Rc4 Md5 Md4 Hmac Utf LayoutsNtlmAuth Ntlm NtlmSeal RefNlmp C15_proofs.
From RdpV Require Import DerRead CsspGate CsspGateExec C01_proofs LayoutsGlobal LayoutsConnect Tpkt Global RefInput ClientPdus StrictPdu C04_proofs StrictNla C04_nla_proofs.
Open Scope list_scope.
Open Scope N_scope.

(* ---- the honest exchange of C01's example: "Dom" \ "User", password "Paess<U+1F600>", a CHALLENGE with three
        AV pairs, preset nonce and session key; the three messages are the python reference client's ---- *)
Definition ex_ek : bytes := [70; 25; 140; 127; 216; 253; 111; 7; 240; 57; 28; 58; 136; 108; 243; 236].
Definition ex_sealed2 : bytes :=
  [1; 0; 0; 0; 36; 32; 180; 248; 55; 155; 43; 225; 0; 0; 0; 0; 6; 15; 104; 155; 80; 212; 70; 174; 202; 4].
Definition ex_sealed3 : bytes := skipn 11 ex_w3.

Lemma ex_nla_hypotheses :
  x_read_ts_server_challenge Debug ex_reply1 = Ok (challenge_bytes ex_chal) /\
  wf_challenge ex_chal /\ c_target_info ex_chal = av_bytes ex_pairs [] /\ Forall av_ok ex_pairs /\
  av_find 7 (rev ex_pairs) = Some ex_ts /\ List.length ex_ts = 8%nat /\
  List.length ex_nonce = 8%nat /\ List.length ex_key = 16%nat /\
  strings ex_state /\ sized ex_state /\ nlen ex_pubkey < BIG.
Proof.
  destruct ex_hypotheses as (Hwf & Hok & _).
  split; [vm_compute; reflexivity|]. split; [exact Hwf|]. split; [reflexivity|]. split; [exact Hok|].
  split; [reflexivity|]. split; [reflexivity|]. split; [reflexivity|]. split; [reflexivity|].
  split. { unfold strings, scalar. cbn. repeat split; repeat constructor; lia. }
  split; [unfold sized; vm_compute; auto | vm_compute; reflexivity].
Qed.

Lemma ex_nla_run :
  ex_run (Ok ex_pubkey) [ex_reply2_ok] = (Ok tt, [ex_w1; ex_w2; ex_w3]) /\
  map strict_parse_nla [ex_w1; ex_w2; ex_w3]
  = [Some (NlaNegotiate 2 expected_negotiate);
     Some (NlaAuthenticate 2 (expected_authenticate hmac_md5 ex_state ex_chal negotiate_bytes ex_nonce ex_key ex_ts ex_ek ex_pairs) ex_sealed2);
     Some (NlaCredentials 2 ex_sealed3)] /\
  (* the decoded AUTHENTICATE names and the TSCredentials plaintext are the configuration's *)
  a_domain (expected_authenticate hmac_md5 ex_state ex_chal negotiate_bytes ex_nonce ex_key ex_ts ex_ek ex_pairs) = NUnicode ex_dom /\
  a_user (expected_authenticate hmac_md5 ex_state ex_chal negotiate_bytes ex_nonce ex_key ex_ts ex_ek ex_pairs) = NUnicode ex_user /\
  exactly (sp_ts_credentials true) (creds_plaintext true false ex_state)
  = Some (mkPasswordCreds (NUnicode ex_dom) (NUnicode ex_user) (NUnicode ex_pw)) /\
  (* ... and the third message carries that plaintext sealed right after the public key *)
  match build_security_interface md5 ex_key with
  | Ok c0 => match wrap_all hmac_md5 c0 [ex_pubkey; creds_plaintext true false ex_state] with
             | Ok (l, _) => l = [ex_sealed2; ex_sealed3]
             | _ => False
             end
  | _ => False
  end.
Proof.
  split; [apply ex_gate|].
  split; [vm_compute; reflexivity|].
  split; [vm_compute; reflexivity|]. split; [vm_compute; reflexivity|]. split; [vm_compute; reflexivity|].
  vm_compute. reflexivity.
Qed.

(* a whole-connection configuration carrying the credentials of that exchange: the hypotheses of the main
   theorem about the configuration hold together with those about the exchange *)
Definition ex_whole_cfg : config :=
  mkCfg 3 false true 1024 768 1036
        [82; 233; 128512; 20013; 45; 99; 108; 105; 101; 110; 116; 45; 110; 97; 109; 101] ex_dom ex_user ex_pw.

Lemma ex_whole_hypotheses :
  valid_cfg true ex_whole_cfg demo_ids /\ Forall sendable demo_events /\ credentials_of ex_whole_cfg ex_state.
Proof.
  assert (Hsc : forall l, forallb is_scalar l = true -> Forall scalar l).
  { induction l as [|x l IH]; cbn [forallb]; [constructor|]. intros H. apply andb_true_iff in H. destruct H as [H1 H2].
    constructor; [|apply IH; exact H2]. unfold is_scalar in H1. unfold scalar.
    apply orb_true_iff in H1. destruct H1 as [H1|H1]; [left; apply N.ltb_lt; exact H1|].
    apply andb_true_iff in H1. destruct H1 as [Ha Hb]. right. split; [apply N.leb_le; exact Ha|apply N.ltb_lt; exact Hb]. }
  split; [|split; [exact (proj2 demo_valid) | unfold credentials_of; cbn; auto]].
  unfold valid_cfg.
  split; [apply Hsc; vm_compute; reflexivity|]. split; [apply Hsc; vm_compute; reflexivity|].
  split; [apply Hsc; vm_compute; reflexivity|]. split; [apply Hsc; vm_compute; reflexivity|].
  repeat split; vm_compute; congruence.
Qed.

(* ---- the known finding: material of the CHALLENGE echoed without validation ---- *)
(* (a) bytes after the MsvAvEOL pair of TargetInfo: accepted by the client, copied into the NTLMv2 response *)
Definition ex_chal_trailing : challenge_fields :=
  mkChal client_negotiate_flags (map N.of_nat (seq 16 8)) (repeat 0 8) 6 6 48 38 (repeat 0 8)
         [68; 0; 79; 0; 77; 0] (av_bytes ex_pairs [9; 9]) [].
(* (b) an MsvAvTimestamp that is not 8 bytes: copied into the 8-byte TimeStamp position *)
Definition ex_pairs_ts4 : list (N * bytes) := [(2, [68; 0; 79; 0; 77; 0]); (7, [0; 1; 2; 3]); (1, [83; 0; 82; 0; 86; 0])].
Definition ex_chal_ts4 : challenge_fields :=
  mkChal client_negotiate_flags (map N.of_nat (seq 16 8)) (repeat 0 8) 6 6 48 32 (repeat 0 8)
         [68; 0; 79; 0; 77; 0] (av_bytes ex_pairs_ts4 []) [].

Lemma ex_echo_refuted :
  (wf_challenge ex_chal_trailing /\
   exists t, read_challenge_message hmac_md5 Debug ex_state negotiate_bytes (challenge_bytes ex_chal_trailing) ex_nonce ex_key = Ok t /\
             sp_authenticate t = None) /\
  (wf_challenge ex_chal_ts4 /\
   exists t, read_challenge_message hmac_md5 Debug ex_state negotiate_bytes (challenge_bytes ex_chal_ts4) ex_nonce ex_key = Ok t /\
             sp_authenticate t = None).
Proof.
  split; (split; [unfold wf_challenge; cbn; repeat split; reflexivity|]);
    eexists; (split; [vm_compute; reflexivity | vm_compute; reflexivity]).
Qed.
