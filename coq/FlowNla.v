(* Flow.v with its CredSSP oracle INSTANTIATED by the model of nla/cssp.rs cssp_connect (CsspGate.v), as
   Connector::connect wires it (core/client.rs):
     - the authentication object: Ntlm::from_hash(domain, user, hash) when a password hash is configured,
       Ntlm::new(domain, user, password) otherwise;
     - tpkt.start_nla(check_certificate, authentication, restricted_admin_mode || blank_creds);
     - cssp_connect runs on the TLS stream right after the handshake: it writes TSRequests, reads the two
       replies with ONE Link::read(0) each, and leaves the rest of the stream to the MCS layer.
   Still parameters (Section variables): the hash functions, String::to_uppercase, the TSRequest codecs
   (yasna), the build profile.  FlowRun.v is the instance with the concrete hashes and DER codecs; the
   theorems of C03 about NLA are stated on this file's generic [flow_nla].  No proofs here. *)
From RdpV Require Import Base Msg Link Tpkt Global Connect ClientPdus Flow Utf Ntlm NtlmSeal CsspGate.
Open Scope list_scope.
Open Scope N_scope.

(* what the NLA leg needs beyond Flow.fcfg: the two Connector switches that only CredSSP sees, and what comes
   from outside (the key of the certificate of THIS TLS session, the client's randomness) *)
Record nla_params := mkNla {
  nl_blank : bool;                 (* Connector.blank_creds *)
  nl_hash : option bytes;          (* Connector.password_hash (hash mode) *)
  nl_pubkey : bytes;               (* subjectPublicKey of the certificate the TLS session presented *)
  nl_nonce : bytes;                (* random(8): NTLM client challenge *)
  nl_key : bytes                   (* random(16): exported session key *)
}.

Section FlowNla.
Variable md4 md5 : bytes -> bytes.
Variable hmac : bytes -> bytes -> bytes.
Variable uppercase : list N -> list N.
Variable p : prof.
Variable create_ts_request : bytes -> bytes.
Variable create_ts_authenticate : bytes -> bytes -> bytes.
Variable create_ts_credentials : bytes -> bytes -> bytes -> bytes.
Variable create_ts_authinfo : bytes -> bytes.
Variable read_ts_server_challenge : bytes -> outcome bytes.
Variable read_ts_validate : bytes -> outcome bytes.

(* let mut authentication = if let Some(hash) = &self.password_hash { Ntlm::from_hash(..) } else { Ntlm::new(..) } *)
Definition nla_auth (c : fcfg) (n : nla_params) : ntlm :=
  let k := f_pdu c in
  match nl_hash n with
  | Some h => ntlm_from_hash hmac uppercase (c_domain k) (c_user k) h
  | None => ntlm_new md4 hmac uppercase (c_domain k) (c_user k) (c_password k)
  end.

(* the `restricted_admin_mode` argument of start_nla / cssp_connect *)
Definition nla_restricted (c : fcfg) (n : nla_params) : bool := c_ram (f_pdu c) || nl_blank n.

(* cssp_connect on the plaintext stream that follows the handshake: result, messages written *)
Definition nla_cssp (c : fcfg) (n : nla_params) (cs : stream) : outcome unit * list bytes :=
  cssp_connect md5 hmac p create_ts_request create_ts_authenticate create_ts_credentials create_ts_authinfo
               read_ts_server_challenge read_ts_validate
               (nla_auth c n) (nla_restricted c n) (Ok (nl_pubkey n)) cs (nl_nonce n) (nl_key n).

(* Connect.v's oracle: number of TSRequests written, the result, and the stream the two link reads leave *)
Definition nla_cssp_run (c : fcfg) (n : nla_params) (cs : stream) : nat * outcome stream :=
  let r := nla_cssp c n cs in
  (List.length (snd r),
   match fst r with
   | Ok _ => Ok (snd (link_read0 (snd (link_read0 cs))))
   | Err x => Err x
   | Panic => Panic
   | Spin => Spin
   end).

(* the whole run; [post] = the records the server writes inside TLS (what the handshake oracle returns):
   CredSSP runs on exactly these, so its messages are known from them *)
Definition flow_nla (ber_parse : bytes -> outcome bytes) (trusted : bool) (tls_start : stream -> outcome stream)
           (c : fcfg) (n : nla_params) (nreads : nat) (cs post : stream) : flow_result :=
  flow p ber_parse trusted tls_start (nla_cssp_run c n) (snd (nla_cssp c n post)) c nreads cs.

End FlowNla.
